(* C01 structural part: what the value-tree encoder of Json/TreeModel.v writes is a JSON text of the grammar of
   Json/Grammar.v, with any white space between the tokens (statements of Json/TreeSpec.v).
   Structure:
     A. token streams interleaved with white space ([inter]), the stopping condition after a number;
     B. single tokens: literals, numbers, strings, field names;
     C. the element loop and the member loop of g_value on comma-separated token groups;
     D. the main lemma by mutual induction on the type; sort_kv keeps entries;
     E. render, g_valid, the statements. *)
From Verif Require Import Base.GoInt Json.Grammar Json.FlagsModel Json.FlagsSpec Json.StrSpec Json.NumSpec Json.TreeModel Json.TreeSpec.
From Verif Require Import Json.ValidProofs Json.StrSpecProofs Json.NumProofs.
From Coq Require Import Lia ZifyBool ZifyNat.
Open Scope Z_scope.

(* ================= A. token streams with white space ================= *)
(* [inter toks doc rest]: doc is white space, token, white space, token, ..., followed by rest *)
Inductive inter : list bytes -> bytes -> bytes -> Prop :=
| inter_nil rest : inter [] rest rest
| inter_cons w tok toks doc rest :
    forallb is_ws w = true -> inter toks doc rest -> inter (tok :: toks) (w ++ tok ++ doc) rest.

Lemma inter_cons_inv tok toks doc rest : inter (tok :: toks) doc rest ->
  exists w doc', forallb is_ws w = true /\ doc = w ++ tok ++ doc' /\ inter toks doc' rest.
Proof. intros H. inversion H; subst. eauto. Qed.
Lemma inter_nil_inv doc rest : inter [] doc rest -> doc = rest.
Proof. intros H. inversion H; subst. reflexivity. Qed.
Lemma inter_one tok doc rest : inter [tok] doc rest -> exists w, forallb is_ws w = true /\ doc = w ++ tok ++ rest.
Proof.
  intros H. apply inter_cons_inv in H. destruct H as (w & doc' & W & E & I). apply inter_nil_inv in I. subst doc'. eauto.
Qed.
Lemma inter_app a : forall b doc rest, inter (a ++ b) doc rest -> exists mid, inter a doc mid /\ inter b mid rest.
Proof.
  induction a as [|tok a IH]; intros b doc rest H; cbn [app] in H.
  - exists doc. split; [constructor|assumption].
  - apply inter_cons_inv in H. destruct H as (w & doc' & W & E & I). apply IH in I. destruct I as (mid & I1 & I2).
    exists mid. subst doc. split; [constructor; assumption|assumption].
Qed.
Lemma inter_len toks doc rest : inter toks doc rest -> (length rest <= length doc)%nat.
Proof. induction 1 as [|w tok toks doc rest W I IH]; [lia|]. rewrite !app_length. lia. Qed.

Lemma skip_ws_tok w c x : forallb is_ws w = true -> is_ws c = false -> skip_ws (w ++ c :: x) = c :: x.
Proof.
  intros W C. induction w as [|a w IH]; cbn [app skip_ws].
  - rewrite C. reflexivity.
  - cbn [forallb] in W. apply andb_true_iff in W. destruct W as [A W]. rewrite A. apply IH. assumption.
Qed.
Lemma skip_ws_all w : forallb is_ws w = true -> skip_ws w = [].
Proof.
  induction w as [|a w IH]; cbn [forallb skip_ws]; [reflexivity|]. intros W. apply andb_true_iff in W.
  destruct W as [A W]. rewrite A. apply IH. assumption.
Qed.

(* what may follow a number: the end of the input, white space, a comma, a closing bracket or brace *)
Definition stop (r : bytes) : bool :=
  match r with [] => true | c :: _ => is_ws c || (c =? 44) || (c =? 93) || (c =? 125) end.
Lemma inter_stop c tk toks mid rest :
  is_ws c || (c =? 44) || (c =? 93) || (c =? 125) = true -> inter ((c :: tk) :: toks) mid rest -> stop mid = true.
Proof.
  intros C H. apply inter_cons_inv in H. destruct H as (w & doc' & W & E & _). subst mid.
  destruct w as [|a w]; cbn [app stop]; [assumption|]. cbn [forallb] in W. apply andb_true_iff in W. destruct W as [A _].
  rewrite A. reflexivity.
Qed.
Lemma stop_ws w : forallb is_ws w = true -> stop w = true.
Proof.
  destruct w as [|a w]; [reflexivity|]. cbn [forallb stop]. intros W. apply andb_true_iff in W. destruct W as [A _].
  rewrite A. reflexivity.
Qed.

(* a group of tokens is a value for the grammar with fuel f *)
Definition val_ok (f : nat) (m : list bytes) : Prop :=
  forall doc rest, inter m doc rest -> stop rest = true -> (length doc < f)%nat -> g_value f (skip_ws doc) = Some rest.

(* ================= B. single tokens ================= *)
Lemma val_ok_one tok :
  (exists c tk, tok = c :: tk /\ is_ws c = false) ->
  (forall f T, stop T = true -> g_value (S f) (tok ++ T) = Some T) ->
  forall f, val_ok f [tok].
Proof.
  intros (c & tk & E & C) G f doc rest I St L. apply inter_one in I. destruct I as (w & W & D). subst doc.
  destruct f as [|f]; [lia|]. subst tok. cbn [app]. rewrite skip_ws_tok by assumption. apply (G f rest St).
Qed.

Lemma val_ok_null f : val_ok f [tok_null].
Proof. apply val_ok_one; [exists 110, [117; 108; 108]; split; reflexivity|]. intros; reflexivity. Qed.
Lemma val_ok_true f : val_ok f [tok_true].
Proof. apply val_ok_one; [exists 116, [114; 117; 101]; split; reflexivity|]. intros; reflexivity. Qed.
Lemma val_ok_false f : val_ok f [tok_false].
Proof. apply val_ok_one; [exists 102, [97; 108; 115; 101]; split; reflexivity|]. intros; reflexivity. Qed.

(* numbers *)
Lemma skip_digits_all ds T : all_digits ds = true -> match T with [] => true | c :: _ => negb (is_digit c) end = true ->
  skip_digits (ds ++ T) = T.
Proof.
  intros D HT. induction ds as [|d ds IH]; cbn [app].
  - destruct T as [|c T]; [reflexivity|]. cbn [skip_digits]. destruct (is_digit c); [discriminate|reflexivity].
  - unfold all_digits in D. cbn [forallb] in D. apply andb_true_iff in D. destruct D as [D1 D]. cbn [skip_digits].
    unfold is_digit. rewrite D1. apply IH. assumption.
Qed.
Lemma stop_not_digit T : stop T = true -> match T with [] => true | c :: _ => negb (is_digit c) end = true.
Proof. destruct T as [|c T]; [reflexivity|]. unfold stop, is_ws, is_digit. lia. Qed.
Lemma g_frac_stop T : stop T = true -> g_frac T = Some T.
Proof.
  intros St. rewrite g_frac_eq. destruct T as [|c T]; [reflexivity|]. unfold stop, is_ws in St.
  destruct (c =? 46) eqn:E; [lia|reflexivity].
Qed.
Lemma g_exp_stop T : stop T = true -> g_exp T = Some T.
Proof.
  intros St. destruct T as [|c T]; [reflexivity|]. unfold stop, is_ws in St. unfold g_exp.
  destruct ((c =? 101) || (c =? 69)) eqn:E; [lia|reflexivity].
Qed.
Lemma g_number_body_dec ds T : all_digits ds = true -> no_leading_zero ds -> stop T = true ->
  g_number_body (ds ++ T) = Some T.
Proof.
  intros D NZ St. destruct ds as [|d ds]; [destruct NZ|]. cbn [app]. unfold g_number_body.
  unfold all_digits in D. cbn [forallb] in D. apply andb_true_iff in D. destruct D as [D1 D].
  destruct (d =? 48) eqn:E.
  - apply Z.eqb_eq in E. subst d. destruct ds as [|d2 ds]; [|destruct NZ]. cbn [app].
    rewrite g_frac_stop by assumption. apply g_exp_stop. assumption.
  - unfold is_digit. rewrite D1. rewrite skip_digits_all; [|assumption|apply stop_not_digit; assumption].
    rewrite g_frac_stop by assumption. apply g_exp_stop. assumption.
Qed.
Lemma g_number_dec (neg : bool) ds T : all_digits ds = true -> no_leading_zero ds -> stop T = true ->
  g_number ((if neg then [45] else []) ++ ds ++ T) = Some T.
Proof.
  intros D NZ St. rewrite g_number_eq. destruct neg; cbn [app].
  - change (45 =? 45) with true. cbv iota. apply g_number_body_dec; assumption.
  - destruct ds as [|d ds]; [destruct NZ|]. cbn [app].
    assert (D1 : (48 <=? d) && (d <=? 57) = true).
    { unfold all_digits in D. cbn [forallb] in D. apply andb_true_iff in D. apply D. }
    destruct (d =? 45) eqn:E; [lia|]. apply (g_number_body_dec (d :: ds)); assumption.
Qed.
Lemma val_ok_dec v f : - 2 ^ 64 < v < 2 ^ 64 -> val_ok f [z_to_dec v].
Proof.
  intros R. destruct (z_to_dec_canonical v R) as (ds & E & D & NZ & _). rewrite E.
  destruct ds as [|d ds]; [destruct NZ|].
  assert (D1 : (48 <=? d) && (d <=? 57) = true).
  { unfold all_digits in D. cbn [forallb] in D. apply andb_true_iff in D. apply D. }
  apply val_ok_one.
  - destruct (v <? 0); cbn [app]; [exists 45, (d :: ds); split; reflexivity|].
    exists d, ds. split; [reflexivity|]. unfold is_ws. lia.
  - intros f0 T St. rewrite <- app_assoc.
    assert (G : g_value (S f0) ((if v <? 0 then [45] else []) ++ (d :: ds) ++ T) =
                g_number ((if v <? 0 then [45] else []) ++ (d :: ds) ++ T)).
    { destruct (v <? 0); cbn [app]; apply g_value_other; [reflexivity|]. lia. }
    rewrite G. apply g_number_dec; assumption.
Qed.
Lemma int_range s w z : bits_ok w = true -> int_in s w z = true -> - 2 ^ 64 < z < 2 ^ 64.
Proof.
  unfold bits_ok, int_in. intros B I.
  assert (W : w = 8 \/ w = 16 \/ w = 32 \/ w = 64) by lia. clear B.
  destruct W as [W|[W|[W|W]]]; subst w; destruct s; lia.
Qed.

(* strings: a quote, a body that g_string accepts up to its closing quote whatever follows, a quote *)
Definition kstr (k : bytes) : Prop :=
  exists body, k = 34 :: body ++ [34] /\ forall T, g_string (body ++ 34 :: T) = Some T.
Lemma kstr_escape s : wfb s = true -> kstr (std_escape true s).
Proof.
  intros W. exists (std_escape_body true 0 s). split; [reflexivity|]. intros T.
  apply (escape_body_ok true s W T).
Qed.
Lemma g_string_alnum name : forallb is_alnum name = true -> forall T, g_string (name ++ 34 :: T) = Some T.
Proof.
  intros A T. induction name as [|c name IH]; cbn [app]; [reflexivity|].
  cbn [forallb] in A. apply andb_true_iff in A. destruct A as [C A]. rewrite g_string_eq.
  unfold is_alnum in C.
  destruct (c =? 34) eqn:E1; [lia|]. destruct (c =? 92) eqn:E2; [lia|]. destruct (c <? 32) eqn:E3; [lia|].
  apply IH. assumption.
Qed.
Lemma kstr_name name : name_ok name = true -> kstr (quote name).
Proof.
  intros N. unfold name_ok in N. apply andb_true_iff in N. destruct N as [_ A].
  exists name. split; [reflexivity|]. apply g_string_alnum. assumption.
Qed.
Lemma val_ok_str k f : kstr k -> val_ok f [k].
Proof.
  intros (body & E & G). apply val_ok_one.
  - exists 34, (body ++ [34]). split; [assumption|reflexivity].
  - intros f0 T _. subst k. cbn [app]. rewrite g_value_string, <- app_assoc. apply G.
Qed.

(* ================= C. the loops of g_value ================= *)
Lemma sep_toks_cons m ms :
  sep_toks (m :: ms) = m ++ match ms with [] => [] | _ :: _ => [[44]] ++ sep_toks ms end.
Proof. destruct ms; cbn [sep_toks]; [rewrite app_nil_r|]; reflexivity. Qed.

Lemma after_elem_close f n' w rest : forallb is_ws w = true -> g_after_elem f n' (w ++ [93] ++ rest) = Some rest.
Proof. intros W. unfold g_after_elem. cbn [app]. rewrite skip_ws_tok by auto. reflexivity. Qed.
Lemma after_elem_comma f n' w d : forallb is_ws w = true ->
  g_after_elem f n' (w ++ [44] ++ d) = g_elems f n' (skip_ws d).
Proof. intros W. unfold g_after_elem. cbn [app]. rewrite skip_ws_tok by auto. reflexivity. Qed.
Lemma after_member_close f n' w rest : forallb is_ws w = true -> g_after_member f n' (w ++ [125] ++ rest) = Some rest.
Proof. intros W. unfold g_after_member. cbn [app]. rewrite skip_ws_tok by auto. reflexivity. Qed.
Lemma after_member_comma f n' w d : forallb is_ws w = true ->
  g_after_member f n' (w ++ [44] ++ d) = g_members f n' (skip_ws d).
Proof. intros W. unfold g_after_member. cbn [app]. rewrite skip_ws_tok by auto. reflexivity. Qed.

(* one element *)
Lemma elem_step f n' m tail doc rest :
  val_ok f m -> (forall mid, inter tail mid rest -> stop mid = true) ->
  inter (m ++ tail) doc rest -> (length doc < f)%nat ->
  exists mid, g_elems f (S n') (skip_ws doc) = g_after_elem f n' mid /\ inter tail mid rest /\
              (length mid <= length doc)%nat.
Proof.
  intros V St I L. apply inter_app in I. destruct I as (mid & I1 & I2). exists mid.
  rewrite g_elems_eq, (V doc mid I1 (St mid I2) L). split; [reflexivity|]. split; [assumption|].
  apply (inter_len _ _ _ I1).
Qed.

Lemma elems_ok f ms : Forall (val_ok f) ms -> ms <> [] ->
  forall n doc rest, inter (sep_toks ms ++ [[93]]) doc rest -> (length doc < n)%nat -> (length doc < f)%nat ->
  g_elems f n (skip_ws doc) = Some rest.
Proof.
  induction ms as [|m ms IH]; [congruence|]. intros FA _ n doc rest I Ln Lf.
  inversion FA as [|m' ms' V FA']; subst m' ms'. destruct n as [|n']; [lia|].
  rewrite sep_toks_cons, <- app_assoc in I. destruct ms as [|m2 ms].
  - cbn [app] in I. destruct (elem_step f n' m [[93]] doc rest V) as (mid & E & I2 & _); try assumption.
    { intros mid. apply inter_stop. reflexivity. }
    rewrite E. apply inter_one in I2. destruct I2 as (w & W & M). subst mid. apply after_elem_close. assumption.
  - rewrite <- app_assoc in I. cbn [app] in I.
    destruct (elem_step f n' m ([44] :: sep_toks (m2 :: ms) ++ [[93]]) doc rest V) as (mid & E & I2 & L2); try assumption.
    { intros mid. apply inter_stop. reflexivity. }
    rewrite E. apply inter_cons_inv in I2. destruct I2 as (w & d & W & M & I3). subst mid.
    rewrite after_elem_comma by assumption. rewrite !app_length in L2. cbn [length] in L2.
    apply IH; [assumption|congruence|assumption|lia|lia].
Qed.

Lemma g_elems_close f n r : g_elems f n (93 :: r) = None.
Proof.
  destruct n as [|n]; [reflexivity|]. rewrite g_elems_eq. destruct f as [|f]; [reflexivity|].
  rewrite g_value_other by reflexivity. rewrite g_number_bad by reflexivity. reflexivity.
Qed.
Lemma arr_start f doc1 rest : g_elems f f (skip_ws doc1) = Some rest -> g_value (S f) (91 :: doc1) = Some rest.
Proof.
  intros G. rewrite g_value_array. destruct (skip_ws doc1) as [|c r']; [assumption|].
  destruct (c =? 93) eqn:E; [|assumption]. apply Z.eqb_eq in E. subst c. rewrite g_elems_close in G. discriminate.
Qed.
Lemma arr_ok f ms : Forall (val_ok f) ms -> val_ok (S f) ([[91]] ++ sep_toks ms ++ [[93]]).
Proof.
  intros FA doc rest I St L. cbn [app] in I. apply inter_cons_inv in I. destruct I as (w & doc1 & W & E & I). subst doc.
  cbn [app]. rewrite skip_ws_tok by auto. rewrite !app_length in L. cbn [length] in L.
  destruct ms as [|m ms].
  - cbn [sep_toks app] in I. apply inter_one in I. destruct I as (w1 & W1 & E1). subst doc1.
    rewrite g_value_array. cbn [app]. rewrite skip_ws_tok by auto. reflexivity.
  - apply arr_start. apply (elems_ok f (m :: ms)); [assumption|congruence|assumption|lia|lia].
Qed.

(* one member: a key, a colon, a value *)
Definition memb_ok (f : nat) (m : list bytes) : Prop :=
  exists k vt, m = k :: [58] :: vt /\ kstr k /\ val_ok f vt.

Lemma member_step f n' m tail doc rest :
  memb_ok f m -> (forall mid, inter tail mid rest -> stop mid = true) ->
  inter (m ++ tail) doc rest -> (length doc < f)%nat ->
  exists mid, g_members f (S n') (skip_ws doc) = g_after_member f n' mid /\ inter tail mid rest /\
              (length mid <= length doc)%nat.
Proof.
  intros (k & vt & Em & (body & Ek & G) & V) St I L. subst m. cbn [app] in I.
  apply inter_cons_inv in I. destruct I as (w & d1 & W & E & I). subst doc.
  apply inter_cons_inv in I. destruct I as (w1 & d2 & W1 & E1 & I). subst d1.
  apply inter_app in I. destruct I as (mid & I1 & I2). exists mid.
  rewrite !app_length in L. cbn [length] in L.
  subst k. cbn [app]. rewrite skip_ws_tok by auto. rewrite g_members_eq. unfold g_str_tok.
  change (34 =? 34) with true. cbv iota. rewrite <- app_assoc. cbn [app]. rewrite G.
  unfold g_after_key. rewrite skip_ws_tok by auto. change (58 =? 58) with true. cbv iota.
  rewrite (V d2 mid I1 (St mid I2)) by lia. split; [reflexivity|]. split; [assumption|].
  pose proof (inter_len _ _ _ I1). repeat (rewrite !app_length; cbn [length]). lia.
Qed.

Lemma members_ok f ms : Forall (memb_ok f) ms -> ms <> [] ->
  forall n doc rest, inter (sep_toks ms ++ [[125]]) doc rest -> (length doc < n)%nat -> (length doc < f)%nat ->
  g_members f n (skip_ws doc) = Some rest.
Proof.
  induction ms as [|m ms IH]; [congruence|]. intros FA _ n doc rest I Ln Lf.
  inversion FA as [|m' ms' V FA']; subst m' ms'. destruct n as [|n']; [lia|].
  rewrite sep_toks_cons, <- app_assoc in I. destruct ms as [|m2 ms].
  - cbn [app] in I. destruct (member_step f n' m [[125]] doc rest V) as (mid & E & I2 & _); try assumption.
    { intros mid. apply inter_stop. reflexivity. }
    rewrite E. apply inter_one in I2. destruct I2 as (w & W & M). subst mid. apply after_member_close. assumption.
  - rewrite <- app_assoc in I. cbn [app] in I.
    destruct (member_step f n' m ([44] :: sep_toks (m2 :: ms) ++ [[125]]) doc rest V) as (mid & E & I2 & L2); try assumption.
    { intros mid. apply inter_stop. reflexivity. }
    rewrite E. apply inter_cons_inv in I2. destruct I2 as (w & d & W & M & I3). subst mid.
    rewrite after_member_comma by assumption. rewrite !app_length in L2. cbn [length] in L2.
    apply IH; [assumption|congruence|assumption|lia|lia].
Qed.

Lemma g_members_close f n r : g_members f n (125 :: r) = None.
Proof. destruct n as [|n]; reflexivity. Qed.
Lemma obj_start f doc1 rest : g_members f f (skip_ws doc1) = Some rest -> g_value (S f) (123 :: doc1) = Some rest.
Proof.
  intros G. rewrite g_value_object. destruct (skip_ws doc1) as [|c r']; [assumption|].
  destruct (c =? 125) eqn:E; [|assumption]. apply Z.eqb_eq in E. subst c. rewrite g_members_close in G. discriminate.
Qed.
Lemma obj_ok f ms : Forall (memb_ok f) ms -> val_ok (S f) ([[123]] ++ sep_toks ms ++ [[125]]).
Proof.
  intros FA doc rest I St L. cbn [app] in I. apply inter_cons_inv in I. destruct I as (w & doc1 & W & E & I). subst doc.
  cbn [app]. rewrite skip_ws_tok by auto. rewrite !app_length in L. cbn [length] in L.
  destruct ms as [|m ms].
  - cbn [sep_toks app] in I. apply inter_one in I. destruct I as (w1 & W1 & E1). subst doc1.
    rewrite g_value_object. cbn [app]. rewrite skip_ws_tok by auto. reflexivity.
  - apply obj_start. apply (members_ok f (m :: ms)); [assumption|congruence|assumption|lia|lia].
Qed.

(* containers for every fuel (fuel 0 holds vacuously) *)
Lemma arr_ok_all ms : (forall f, Forall (val_ok f) ms) -> forall f, val_ok f ([[91]] ++ sep_toks ms ++ [[93]]).
Proof. intros FA [|f]; [intros doc rest _ _ L; lia|]. apply arr_ok. apply FA. Qed.
Lemma obj_ok_all ms : (forall f, Forall (memb_ok f) ms) -> forall f, val_ok f ([[123]] ++ sep_toks ms ++ [[125]]).
Proof. intros FA [|f]; [intros doc rest _ _ L; lia|]. apply obj_ok. apply FA. Qed.

(* ================= D. the main lemma ================= *)
Scheme jty_mind := Induction for jty Sort Prop
  with jfields_mind := Induction for jfields Sort Prop.

(* sorting keeps nothing but entries of the map *)
Lemma map_put_in x k v m : In x (map_put k v m) -> x = (k, v) \/ In x m.
Proof.
  induction m as [|[k' v'] r IH]; cbn [map_put].
  - intros [H|[]]. left. symmetry. assumption.
  - destruct (bytes_ltb k k').
    { intros [H|H]; [left; symmetry; assumption|right; assumption]. }
    destruct (bytes_eqb k k').
    { intros [H|H]; [left; symmetry; assumption|right; right; assumption]. }
    intros [H|H]; [right; left; assumption|]. apply IH in H. destruct H as [H|H]; [left; assumption|right; right; assumption].
Qed.
Lemma sort_kv_in x m : In x (sort_kv m) -> In x m.
Proof.
  induction m as [|[k v] r IH]; [intros H; exact H|].
  change (sort_kv ((k, v) :: r)) with (map_put k v (sort_kv r)). intros H. apply map_put_in in H.
  destruct H as [H|H]; [left; symmetry; assumption|right; apply IH; assumption].
Qed.

Definition Pt (t : jty) : Prop :=
  ty_ok t = true -> forall v, jwf t v = true -> forall f, val_ok f (jtoks t v).
Definition Pf (fs : jfields) : Prop :=
  fields_ok fs = true -> forall l, jwfs fs l = true -> forall f, Forall (memb_ok f) (jmembers fs l).

Lemma list_vals t : Pt t -> ty_ok t = true -> forall l, forallb (jwf t) l = true ->
  forall f, Forall (val_ok f) (map (jtoks t) l).
Proof.
  intros IH T l W f. induction l as [|v l IHl]; cbn [map]; constructor;
    cbn [forallb] in W; apply andb_true_iff in W; destruct W as [W1 W2].
  - apply IH; assumption.
  - apply IHl. assumption.
Qed.

Lemma tree_val_ok : forall t, Pt t.
Proof.
  apply (jty_mind Pt Pf); unfold Pt, Pf.
  - (* bool *)
    intros _ v W f. destruct v; cbn [jwf] in W; try discriminate W. cbn [jtoks].
    destruct b; [apply val_ok_true|apply val_ok_false].
  - (* integers *)
    intros s w T v W f. destruct v; cbn [jwf] in W; try discriminate W. cbn [jtoks]. cbn [ty_ok] in T.
    apply val_ok_dec. apply (int_range s w); assumption.
  - (* string *)
    intros _ v W f. destruct v; cbn [jwf] in W; try discriminate W. cbn [jtoks].
    apply val_ok_str, kstr_escape. assumption.
  - (* pointer *)
    intros t IH T v W f. cbn [ty_ok] in T. destruct v; cbn [jwf] in W; try discriminate W; cbn [jtoks].
    + apply val_ok_null.
    + apply IH; assumption.
  - (* slice *)
    intros t IH T v W f. cbn [ty_ok] in T. apply andb_true_iff in T. destruct T as [T _].
    destruct v; cbn [jwf] in W; try discriminate W; cbn [jtoks].
    + apply val_ok_null.
    + apply arr_ok_all. intros f0. apply list_vals; assumption.
  - (* array *)
    intros n t IH T v W f. cbn [ty_ok] in T.
    destruct v; cbn [jwf] in W; try discriminate W; cbn [jtoks].
    apply andb_true_iff in W. destruct W as [_ W].
    apply arr_ok_all. intros f0. apply list_vals; assumption.
  - (* map *)
    intros t IH T v W f. cbn [ty_ok] in T.
    destruct v; cbn [jwf] in W; try discriminate W; cbn [jtoks].
    + apply val_ok_null.
    + apply andb_true_iff in W. destruct W as [W WV]. apply andb_true_iff in W. destruct W as [WK _].
      apply obj_ok_all. intros f0. apply Forall_forall. intros x Hx. apply in_map_iff in Hx.
      destruct Hx as (kv & Ex & Hkv). apply sort_kv_in in Hkv. subst x.
      exists (std_escape true (fst kv)), (jtoks t (snd kv)). split; [reflexivity|]. split.
      * apply kstr_escape. rewrite forallb_forall in WK. specialize (WK (fst kv) (in_map fst m kv Hkv)).
        unfold key_ok in WK. apply andb_true_iff in WK. apply WK.
      * rewrite forallb_forall in WV. apply IH; [assumption|]. apply (WV kv Hkv).
  - (* struct *)
    intros fs IH T v W f. cbn [ty_ok] in T. apply andb_true_iff in T. destruct T as [T _].
    destruct v; cbn [jwf] in W; try discriminate W; cbn [jtoks].
    apply obj_ok_all. intros f0. apply IH; assumption.
  - (* no field *)
    intros _ l W f. cbn [jmembers]. constructor.
  - (* a field *)
    intros name omit t IHt r IHr T l W f. cbn [fields_ok] in T. apply andb_true_iff in T. destruct T as [T Tr].
    apply andb_true_iff in T. destruct T as [Tn Tt].
    destruct l as [|v l]; cbn [jwfs] in W; [discriminate W|]. apply andb_true_iff in W. destruct W as [Wv Wl].
    cbn [jmembers]. apply Forall_app. split; [|apply IHr; assumption].
    destruct (omit && jempty v); constructor; [|constructor].
    exists (quote name), (jtoks t v). split; [reflexivity|]. split; [apply kstr_name; assumption|].
    apply IHt; assumption.
Qed.

(* ================= E. render, g_valid, the statements ================= *)
Lemma render_inter ws : ws_ok ws -> forall toks k, inter toks (render ws k toks) (ws (k + length toks)%nat).
Proof.
  intros WS. induction toks as [|tok toks IH]; intros k; cbn [render length].
  - rewrite Nat.add_0_r. constructor.
  - rewrite <- plus_n_Sm. constructor; [apply WS|]. apply (IH (S k)).
Qed.
Lemma render_no_ws toks : forall k, render no_ws k toks = concat toks.
Proof.
  induction toks as [|tok toks IH]; intros k; cbn [render concat]; [reflexivity|].
  rewrite IH. reflexivity.
Qed.

Lemma jenc_no_ws : jenc_no_ws_statement.
Proof. intros t v. unfold jenc, jenc_ws. symmetry. apply render_no_ws. Qed.

(* the generalised form: the tokens of a value, with white space, followed by anything that may follow a number *)
Lemma tree_toks_value t v : ty_ok t = true -> jwf t v = true ->
  forall doc rest f, inter (jtoks t v) doc rest -> stop rest = true -> (length doc < f)%nat ->
  g_value f (skip_ws doc) = Some rest.
Proof. intros T W doc rest f. apply (tree_val_ok t T v W f). Qed.

Lemma tree_enc_ws_valid : tree_enc_ws_valid_statement.
Proof.
  intros ws t v WS T W. unfold g_valid, jenc_ws.
  pose proof (render_inter ws WS (jtoks t v) 0%nat) as I.
  rewrite (tree_toks_value t v T W _ _ (S (length (render ws 0 (jtoks t v)))) I (stop_ws _ (WS _)) (Nat.lt_succ_diag_r _)).
  rewrite skip_ws_all by apply WS. reflexivity.
Qed.

Lemma ws_ok_no_ws : ws_ok no_ws.
Proof. intros k. reflexivity. Qed.

Lemma tree_enc_valid : tree_enc_valid_statement.
Proof.
  intros t v T W. rewrite jenc_no_ws. apply tree_enc_ws_valid; [apply ws_ok_no_ws|assumption|assumption].
Qed.

Print Assumptions tree_enc_ws_valid.
Print Assumptions tree_enc_valid.
