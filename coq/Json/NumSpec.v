(* C01/C02 integer core: specification side and statements (proved in Json/NumProofs.v). Definitions only.
   [z_to_dec] is the decimal text strconv.AppendInt / encoding/json write; [spec_unmarshal_int] is what
   encoding/json.Unmarshal does for an integer target. Both are tied to the real standard library by the
   model-of-oracle column of the cases s.int.enc / s.int.dec of harness/c01s.go. *)
From Verif Require Import Base.GoInt Json.Ext Generated.JsonParseGen Json.Grammar Json.StrExt Generated.JsonStringGen
  Json.StrModel Json.NumModel Json.FlagsModel Json.FlagsSpec.
Open Scope Z_scope.

(* decimal digits of a non-negative number, most significant first (20 digits are enough below 2^64 < 10^20) *)
Fixpoint dec_digits (fuel : nat) (n : Z) (acc : bytes) : bytes :=
  match fuel with
  | O => acc
  | S f => let acc := (48 + n mod 10) :: acc in if n <? 10 then acc else dec_digits f (n / 10) acc
  end.
Definition z_to_dec (v : Z) : bytes := (if v <? 0 then [45] else []) ++ dec_digits 20 (Z.abs v) [].

(* the canonical decimal text of v: an optional minus sign and digits without a superfluous leading zero that
   denote |v| (there is exactly one such text) *)
Definition is_decimal_of (v : Z) (text : bytes) : Prop :=
  exists ds, text = (if v <? 0 then [45] else []) ++ ds /\
    all_digits ds = true /\ no_leading_zero ds /\ digits_value ds = Z.abs v.

Fixpoint take_digits (b : bytes) : bytes :=
  match b with
  | c :: r => if is_digit c then c :: take_digits r else []
  | [] => []
  end.
Definition no_leading_zero_b (ds : bytes) : bool :=
  match ds with 48 :: _ :: _ => false | [] => false | _ => true end.
Definition in_ity (t : ity) (v : Z) : bool := (ity_min t <=? v) && (v <=? ity_max t).

(* encoding/json.Unmarshal(b, &x), x of an integer type: white space; null leaves x alone; otherwise the value
   must be an integer literal (no fraction, no exponent; a minus sign only for signed types) in the range of the type *)
Definition spec_unmarshal_int (t : ity) (b : bytes) : sres Z :=
  match skip_ws b with
  | 110 :: 117 :: 108 :: 108 :: r => match skip_ws r with [] => SNull [] | _ => SErr end
  | tb =>
    let '(neg, body) := match tb with 45 :: r => (true, r) | _ => (false, tb) end in
    let ds := take_digits body in
    let v := if neg then - digits_value ds else digits_value ds in
    match skip_ws (skip_digits body) with
    | [] =>
      if no_leading_zero_b ds && negb (neg && match t with IUnsigned _ => true | _ => false end) && in_ity t v
      then SOk v [] else SErr
    | _ => SErr
    end
  end.

Definition ity_ok (t : ity) : Prop :=
  match t with ISigned w | IUnsigned w => w = 8 \/ w = 16 \/ w = 32 \/ w = 64 end.

(* ========================================= statements ========================================= *)

(* C01 (c): formatInteger writes the canonical decimal text of every int64 / uint64 after the buffer *)
Definition append_int_statement : Prop :=
  forall (out : bytes) (v : Z), - 2 ^ 63 <= v < 2 ^ 63 -> append_int out v = Some (out ++ z_to_dec v).
Definition append_uint_statement : Prop :=
  forall (out : bytes) (v : Z), 0 <= v < 2 ^ 64 -> append_uint out v = Some (out ++ z_to_dec v).
Definition z_to_dec_canonical_statement : Prop :=
  forall v : Z, - 2 ^ 64 < v < 2 ^ 64 -> is_decimal_of v (z_to_dec v).

(* C02 (a): the typed decoders: the exact value when it is in the range of the Go type, an error otherwise,
   for every (signed) digit string followed by anything that ends an integer (the fuel covers the whole input: the
   error path of parseUint on a minus sign re-scans the value with parseValue) *)
Definition decode_int_statement : Prop :=
  forall (t : ity) (fuel : nat) (d : Z) (neg : bool) (ds rest : bytes),
    ity_ok t -> all_digits ds = true -> no_leading_zero ds -> stops_integer rest ->
    len (ds ++ rest) + 1 < 2 ^ 62 -> (length ds + length rest + 3 <= fuel)%nat ->
    let b := (if neg then [45] else []) ++ ds ++ rest in
    let v := if neg then - digits_value ds else digits_value ds in
    decode_int t fuel d b =
      match t with
      | ISigned _ => if in_ity t v then SOk v rest else SErr
      | IUnsigned _ => if neg then SErr else if in_ity t v then SOk v rest else SErr
      end.

(* links C01 and C02: every value of every integer type survives formatting and decoding *)
Definition int_round_trip_statement : Prop :=
  forall (t : ity) (v : Z) (text : bytes), ity_ok t -> in_ity t v = true ->
    match t with ISigned _ => append_int [] v | IUnsigned _ => append_uint [] v end = Some text ->
    unmarshal_int t text = SOk v [].
