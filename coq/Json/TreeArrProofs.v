(* C02 structural part: proofs of Json/TreeArrSpec.v (a fixed-size array takes what fits).
   Built on the round-trip lemmas of Json/TreeProofs.v (dec_all) and on the validity of encodings of
   Json/TreeEncProofs.v (tree_toks_value), which has its own copy of the relation inter. *)
From Coq Require Import Lia ZifyBool ZifyNat.
From Verif Require Import Base.GoInt Json.Grammar Json.FlagsModel Json.FlagsSpec Json.StrModel Json.StrSpec
  Json.NumModel Json.NumSpec Json.TreeModel Json.TreeSpec Json.TreeProofs Json.TreeArrSpec.
From Verif Require Json.TreeEncProofs.
Open Scope Z_scope.

(* ================================ the two copies of inter ================================ *)
Lemma inter_conv toks doc rest : inter toks doc rest -> TreeEncProofs.inter toks doc rest.
Proof.
  induction 1 as [|w tok toks doc rest Hw Hi IH]; [constructor|].
  constructor; [exact Hw|exact IH].
Qed.

Lemma stopc_stop c tk toks mid rest : inter ((c :: tk) :: toks) mid rest -> stopc c -> TreeEncProofs.stop mid = true.
Proof.
  intros Hi Hc. apply (TreeEncProofs.inter_stop c tk toks mid rest); [|apply inter_conv, Hi].
  unfold stopc in Hc. clear - Hc. destruct Hc as [H|[H|H]]; subst c; reflexivity.
Qed.

(* ================================ the surplus loop ================================ *)
Lemma dec_surplus_eq gf f first b :
  dec_surplus gf (S f) first b =
  match skip_ws b with
  | [] => DErr
  | c :: r =>
    if c =? 93 then DOk r
    else dbind (if first then DOk (c :: r) else if c =? 44 then DOk (skip_ws r) else DErr) (fun b1 =>
         match g_value gf b1 with
         | None => DErr
         | Some r' => dec_surplus gf f false r'
         end)
  end.
Proof.
  cbn [dec_surplus]. destruct (skip_ws b) as [|c r]; [reflexivity|].
  destruct c as [|p|p]; try reflexivity.
  do 7 (destruct p as [p|p|]; try reflexivity).
Qed.

Definition etoks (tv : jty * jval) : list bytes := jtoks (fst tv) (snd tv).
Definition eok (tv : jty * jval) : bool := ty_ok (fst tv) && jwf (fst tv) (snd tv).

Lemma surplus_ok gf : forall extra first f doc rest,
  forallb eok extra = true ->
  inter (seq_toks first (map etoks extra) ++ [[93]]) doc rest ->
  (length doc < f)%nat -> (length doc < gf)%nat ->
  dec_surplus gf f first doc = DOk rest.
Proof.
  induction extra as [|[t v] extra IH]; intros first f doc rest Hok Hi Hf Hgf;
    (destruct f as [|f]; [clear - Hf; lia|]).
  - cbn [map seq_toks app] in Hi.
    destruct (next_tok 93 [] [] doc rest Hi eq_refl) as [doc' [E [Hi' _]]]. inversion Hi'; subst.
    rewrite dec_surplus_eq, E. cbn [app]. reflexivity.
  - cbn [forallb] in Hok. apply andb_true_iff in Hok. destruct Hok as [Hv Hl].
    unfold eok in Hv. cbn [fst snd] in Hv. apply andb_true_iff in Hv. destruct Hv as [Hty Hwf].
    assert (Common : forall docE, (length docE <= length doc)%nat ->
      inter (jtoks t v ++ sep_toks' (map etoks extra) ++ [[93]]) docE rest ->
      (exists c r, skip_ws docE = c :: r /\ c <> 93) /\
      match g_value gf (skip_ws docE) with
      | None => DErr
      | Some r' => dec_surplus gf f false r'
      end = DOk rest).
    { intros docE Le HiE.
      destruct (sep_close (map etoks extra) 93 (or_intror (or_introl eq_refl))) as [c [tk [toks [Em Hc]]]].
      destruct (value_then t v _ docE rest c tk toks Hty Hwf HiE Em Hc) as [mid [H1 [H2 [Hs Lm]]]].
      destruct (jtoks_head t v Hty Hwf) as [c' [tk' [toks' [E' [A [B _]]]]]].
      split.
      - rewrite E' in H1. destruct (next_tok _ _ _ _ _ H1 A) as [d' [Es _]].
        exists c', (tk' ++ d'). split; [exact Es|exact B].
      - assert (St : TreeEncProofs.stop mid = true).
        { rewrite Em in H2. eapply stopc_stop; eassumption. }
        assert (Lg : (length docE < gf)%nat) by (clear - Le Hgf; lia).
        rewrite (TreeEncProofs.tree_toks_value t v Hty Hwf docE mid gf (inter_conv _ _ _ H1) St Lg).
        rewrite <- seq_toks_false in H2.
        apply (IH false f mid rest Hl H2); clear - Lm Le Hf Hgf; lia. }
    cbn [map seq_toks] in Hi. unfold etoks at 1 in Hi. cbn [fst snd] in Hi.
    rewrite dec_surplus_eq.
    destruct first.
    + rewrite <- app_assoc in Hi. destruct (Common doc (le_n _) Hi) as [[c [r [Es Hc]]] C2].
      rewrite Es in *. destruct (Z.eqb_spec c 93) as [Ec|_]; [contradiction|]. cbn [dbind]. exact C2.
    + rewrite <- app_assoc in Hi. cbn [app] in Hi.
      destruct (next_tok 44 [] _ doc rest Hi eq_refl) as [doc' [E [Hi' L]]].
      rewrite E. cbn [app]. change (44 =? 93) with false. change (44 =? 44) with true. cbv iota. cbn [dbind].
      assert (Ld : (length doc' <= length doc)%nat) by (clear - L; lia).
      destruct (Common doc' Ld Hi') as [_ C2]. exact C2.
Qed.

(* ================================ the element loop ================================ *)
Lemma map_const_repeat {A B} (z : B) (x : A) n : map (fun _ => z) (repeat x n) = repeat z n.
Proof. induction n as [|n IH]; [reflexivity|]. cbn [repeat map]. rewrite IH. reflexivity. Qed.

Lemma arr_fit_loop t' fuel : ty_ok t' = true ->
  forall l first m extra doc rest, forallb (jwf t') l = true -> forallb eok extra = true ->
    (extra = [] \/ m = 0%nat) ->
    inter (seq_toks first (map (jtoks t') l ++ map etoks extra) ++ [[93]]) doc rest -> stops rest ->
    (length doc < fuel)%nat ->
    dec_arr_loop (dec t' fuel) (jzero t') fuel first (repeat (jzero t') (length l + m)) doc
      = DOk (map (jnorm t') l ++ repeat (jzero t') m, rest).
Proof.
  intros Hok. pose proof (dec_all t') as IHP.
  induction l as [|v l IH]; intros first m extra doc rest Hwf Hex Hm Hi Hst Hfuel.
  - cbn [map app length Nat.add] in *.
    destruct m as [|m].
    + cbn [repeat dec_arr_loop].
      rewrite (surplus_ok fuel extra first fuel doc rest Hex Hi Hfuel Hfuel). reflexivity.
    + destruct Hm as [Hm|Hm]; [|discriminate]. subst extra. cbn [map seq_toks app] in Hi.
      destruct (next_tok 93 [] [] doc rest Hi eq_refl) as [doc' [E [Hi' _]]]. inversion Hi'; subst.
      cbn [repeat dec_arr_loop]. rewrite E. cbn [app]. rewrite starts_with_hit.
      change (jzero t' :: repeat (jzero t') m) with (repeat (jzero t') (S m)).
      rewrite map_const_repeat. reflexivity.
  - cbn [forallb] in Hwf. apply andb_true_iff in Hwf. destruct Hwf as [Hv Hl].
    assert (Common : forall docE, (length docE <= length doc)%nat ->
      inter (jtoks t' v ++ sep_toks' (map (jtoks t') l ++ map etoks extra) ++ [[93]]) docE rest ->
      starts_with 93 (skip_ws docE) = None /\
      dbind (dec t' fuel (jzero t') (skip_ws docE)) (fun vr =>
        dbind (dec_arr_loop (dec t' fuel) (jzero t') fuel false (repeat (jzero t') (length l + m)) (snd vr))
              (fun lr => DOk (fst vr :: fst lr, snd lr)))
      = DOk (jnorm t' v :: map (jnorm t') l ++ repeat (jzero t') m, rest)).
    { intros docE Le HiE.
      destruct (sep_close (map (jtoks t') l ++ map etoks extra) 93 (or_intror (or_introl eq_refl)))
        as [c [tk [toks [Em Hc]]]].
      destruct (value_then t' v _ docE rest c tk toks Hok Hv HiE Em Hc) as [mid [H1 [H2 [Hs Lm]]]].
      destruct (jtoks_head t' v Hok Hv) as [c' [tk' [toks' [E' [A [B _]]]]]].
      split.
      - rewrite E' in H1. destruct (next_tok _ _ _ _ _ H1 A) as [d' [Es _]]. rewrite Es.
        apply starts_with_miss, B.
      - assert (Lg : (length docE < fuel)%nat) by (clear - Le Hfuel; lia).
        rewrite (IHP Hok v fuel docE mid Hv H1 Hs Lg). cbn [dbind fst snd].
        rewrite <- seq_toks_false in H2.
        assert (Lm' : (length mid < fuel)%nat) by (clear - Lm Le Hfuel; lia).
        rewrite (IH false m extra mid rest Hl Hex Hm H2 Hst Lm'). reflexivity. }
    cbn [map app seq_toks] in Hi. cbn [length Nat.add repeat dec_arr_loop map app].
    destruct first.
    + rewrite <- app_assoc in Hi. destruct (Common doc (le_n _) Hi) as [C1 C2].
      rewrite C1. exact C2.
    + rewrite <- app_assoc in Hi. cbn [app] in Hi.
      destruct (next_tok 44 [] _ doc rest Hi eq_refl) as [doc' [E [Hi' L]]].
      rewrite E. cbn [app]. rewrite starts_with_miss by discriminate. rewrite starts_with_hit.
      assert (Ld : (length doc' <= length doc)%nat) by (clear - L; lia).
      destruct (Common doc' Ld Hi') as [_ C2]. exact C2.
Qed.

(* the value decoder of [n]T on the tokens of an array document *)
Lemma arr_fit_dec n t' l extra fuel doc rest :
  ty_ok t' = true -> forallb (jwf t') l = true -> forallb eok extra = true ->
  ((length l <= n)%nat /\ (extra = [] \/ length l = n)) ->
  inter (arr_doc_toks t' l extra) doc rest -> stops rest -> (length doc < fuel)%nat ->
  dec (JArr n t') fuel (jzero (JArr n t')) (skip_ws doc)
    = DOk (VList (map (jnorm t') l ++ repeat (jzero t') (n - length l)), rest).
Proof.
  intros Hok Hwf Hex [Hle Hm] Hi Hst Hfuel. unfold arr_doc_toks in Hi. cbn [app] in Hi.
  destruct (next_tok 91 [] _ doc rest Hi eq_refl) as [d1 [E1 [Hi1 L1]]].
  rewrite E1. cbn [dec jzero nullp app]. rewrite starts_with_hit.
  rewrite sep_toks_seq in Hi1.
  assert (F1 : (length d1 < fuel)%nat) by (clear - L1 Hfuel; lia).
  assert (En : n = (length l + (n - length l))%nat) by (clear - Hle; lia).
  assert (Hm' : extra = [] \/ (n - length l = 0)%nat).
  { destruct Hm as [Hm|Hm]; [left; exact Hm|right; clear - Hm; lia]. }
  rewrite En at 1.
  rewrite (arr_fit_loop t' fuel Hok l true (n - length l)%nat extra d1 rest Hwf Hex Hm' Hi1 Hst F1).
  reflexivity.
Qed.

(* ================================ the statements ================================ *)
Lemma tree_arr_fit : tree_arr_fit_statement.
Proof.
  intros ws n t' l extra fuel Hws Hok Hwf Hex Hn Hfuel.
  destruct (render_inter ws Hws (arr_doc_toks t' l extra) 0%nat (ws (0 + length (arr_doc_toks t' l extra))%nat))
    as [body [E Hi]].
  rewrite E in *. unfold jdec.
  rewrite (arr_fit_dec n t' l extra fuel _ _ Hok Hwf Hex Hn Hi (wsb_stops _ (Hws _)) Hfuel).
  rewrite skip_ws_all by apply Hws. reflexivity.
Qed.

Lemma arr_doc_slice t' l : jenc (JSlice t') (VList l) = render no_ws 0%nat (arr_doc_toks t' l []).
Proof. rewrite jenc_no_ws. unfold jenc_ws, arr_doc_toks. cbn [jtoks map]. rewrite app_nil_r. reflexivity. Qed.

Lemma tree_arr_short : tree_arr_short_statement.
Proof.
  intros n t' l Hok Hwf Hle. rewrite arr_doc_slice.
  apply (tree_arr_fit no_ws n t' l [] _ ws_ok_no_ws Hok Hwf eq_refl).
  - split; [exact Hle|left; reflexivity].
  - unfold jdec_fuel. clear. lia.
Qed.

Lemma forallb_firstn {A} (p : A -> bool) n : forall l, forallb p l = true -> forallb p (firstn n l) = true.
Proof.
  induction n as [|n IH]; intros [|x l] H; try reflexivity.
  cbn [forallb] in H. apply andb_true_iff in H. destruct H as [H1 H2].
  cbn [firstn forallb]. rewrite H1, (IH l H2). reflexivity.
Qed.
Lemma forallb_skipn {A} (p : A -> bool) n : forall l, forallb p l = true -> forallb p (skipn n l) = true.
Proof.
  induction n as [|n IH]; intros [|x l] H; try reflexivity; [exact H|].
  cbn [forallb] in H. apply andb_true_iff in H. destruct H as [H1 H2].
  cbn [skipn]. apply IH, H2.
Qed.

Lemma tree_arr_long : tree_arr_long_statement.
Proof.
  intros n t' l Hok Hwf Hle.
  pose (ex := map (fun v => (t', v)) (skipn n l)).
  assert (Ed : arr_doc_toks t' l [] = arr_doc_toks t' (firstn n l) ex).
  { unfold arr_doc_toks, ex. cbn [map]. rewrite app_nil_r. rewrite map_map. cbn [fst snd].
    rewrite <- map_app, firstn_skipn. reflexivity. }
  rewrite arr_doc_slice, Ed.
  assert (Hl : length (firstn n l) = n) by (rewrite firstn_length; clear - Hle; lia).
  rewrite (tree_arr_fit no_ws n t' (firstn n l) ex _ ws_ok_no_ws Hok (forallb_firstn _ n l Hwf)).
  - rewrite Hl, Nat.sub_diag. cbn [repeat]. rewrite app_nil_r. reflexivity.
  - unfold ex. rewrite forallb_forall. intros tv Hin. apply in_map_iff in Hin. destruct Hin as [v [Ev Hv]].
    subst tv. cbn [fst snd]. rewrite Hok. cbn [andb].
    pose proof (forallb_skipn _ n l Hwf) as Hs. rewrite forallb_forall in Hs. apply Hs, Hv.
  - split; [clear - Hl; lia|right; exact Hl].
  - unfold jdec_fuel. clear. lia.
Qed.

Print Assumptions tree_arr_fit.
Print Assumptions tree_arr_short.
Print Assumptions tree_arr_long.
