(* C06, decode side: totality corollaries of the C05 / C17 / C11 theorems. *)
From Coq Require Import Lia.
From Verif Require Import Base.GoInt Json.Ext Generated.JsonParseGen Json.Grammar Json.Spec Json.StreamModel Json.StateSpec
  Json.ValidProofs Json.TokenProofs Json.StreamProofs Json.TotalSpec.
Open Scope Z_scope.

Lemma valid_total : valid_total_statement.
Proof.
  unfold valid_total_statement. intros b W L. eexists. apply valid_agrees; auto.
Qed.

Lemma parse_value_total : parse_value_total_statement.
Proof.
  unfold parse_value_total_statement. intros b d W L F.
  destruct (parse_value_grammar b d (2 * length b + 4)%nat W L F (le_n _)) as [v [r [k [e [H _]]]]].
  eauto.
Qed.

Lemma tokenizer_total : tokenizer_total_statement.
Proof.
  unfold tokenizer_total_statement. intros b W L.
  destruct (tok_total b W L) as [ks [st [H _]]]. eauto.
Qed.

Lemma decoder_total : decoder_total_statement.
Proof.
  unfold decoder_total_statement. intros s W L C.
  pose proof (stream_independent s W L C) as H.
  destruct (all_values s REOF) as [[vals fin] offs].
  destruct (frame (S (length (script_data s))) (script_data s)) as [spec clean].
  destruct H as [_ [H1 H2]]. simpl. destruct clean.
  - rewrite H1 by reflexivity. discriminate.
  - apply H2. reflexivity.
Qed.
