(* C01/C02 string core: executable models of what the public API does with ONE string.

   Machine-translated from /repo on every run (Generated/JsonStringGen.v, Generated/JsonParseGen.v):
     encoder.encodeString (json/encode.go), escapeIndex, escapeByteRepr (json/string.go),
     decoder.parseStringUnquote, decoder.parseString, decoder.parseUnicode, decoder.parseUintHex,
     internalParseFlags, skipSpaces, hasNullPrefix (json/parse.go).
   Hand-written here: only the few lines of glue around them --
     json.AppendEscape / json.Escape (json.go: build an encoder with the flags, call encodeString),
     decoder.decodeString (decode.go: null prefix, parseStringUnquote, store),
     json.Unmarshal / json.Parse for a *string target (json.go: internal flags, skipSpaces, decode, skipSpaces,
     trailing bytes are an error), json.AppendUnescape (decodeString into a fresh string, errors ignored).
   No proofs in this file. *)
From Verif Require Import Base.GoInt Json.Ext Generated.JsonParseGen Json.StrExt Generated.JsonStringGen.
Open Scope Z_scope.

(* json.AppendEscape(nil, s, flags): the bytes encodeString appends; the loop of encodeString advances by at least
   one byte per iteration, so length s + 1 iterations always suffice *)
Definition escape_flags (flags : Z) (s : bytes) : option bytes :=
  match json_encoder_encodeString (S (length s)) flags [] s with
  | Some (b, _) => Some b
  | None => None
  end.
Definition escape_string (html : bool) (s : bytes) : option bytes :=
  escape_flags (if html then json_EscapeHTML else 0) s.

(* parseStringUnquote(b, nil) with enough fuel for its loop (one iteration per backslash) *)
Definition unquote_fuel (b : bytes) : nat := S (length b).
Definition parse_string_unquote (d : Z) (b : bytes) : option (bytes * bytes * bool * option json_err) :=
  json_decoder_parseStringUnquote (unquote_fuel b) d b [].

(* result of decoding into a Go variable: a value was stored / the target was left alone (null) / error *)
Inductive sres (A : Type) : Type :=
| SOk (v : A) (rem : bytes)
| SNull (rem : bytes)
| SErr
| SFuel.
Arguments SOk {A} _ _.
Arguments SNull {A} _.
Arguments SErr {A}.
Arguments SFuel {A}.

(* decode.go decodeString *)
Definition decode_string (d : Z) (b : bytes) : sres bytes :=
  if json_hasNullPrefix b then SNull (slice_from b 4)
  else match parse_string_unquote d b with
       | None => SFuel
       | Some (s, r, _, None) => SOk s r
       | Some (_, _, _, Some _) => SErr
       end.

(* json.go Parse + Unmarshal for a pointer target, over any decode function: the flags computed from the whole
   input are given to the decoder, white space is skipped before and after the value, remaining bytes are an error *)
Definition ipf_fuel (b : bytes) : nat := (length b + 2)%nat.
Definition unmarshal_with {A} (decode : Z -> bytes -> sres A) (b : bytes) : sres A :=
  match json_internalParseFlags (ipf_fuel b) b with
  | None => SFuel
  | Some d =>
    match decode d (json_skipSpaces b) with
    | SOk v r => if len (json_skipSpaces r) =? 0 then SOk v [] else SErr
    | SNull r => if len (json_skipSpaces r) =? 0 then SNull [] else SErr
    | SErr => SErr
    | SFuel => SFuel
    end
  end.

(* json.Unmarshal(b, &s) for a string s *)
Definition unmarshal_string (b : bytes) : sres bytes := unmarshal_with decode_string b.

(* json.AppendUnescape(nil, s, flags): decodeString into an empty string, error ignored (the string stays empty) *)
Definition append_unescape (flags : Z) (s : bytes) : option bytes :=
  match decode_string flags s with
  | SOk v _ => Some v
  | SNull _ => Some []
  | SErr => Some []
  | SFuel => None
  end.
