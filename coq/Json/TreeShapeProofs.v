(* C02 structural part: proofs of Json/TreeShapeSpec.v (the decoder returns values of the target type). *)
From Coq Require Import Lia ZifyBool ZifyNat.
From Verif Require Import Base.GoInt Json.Grammar Json.FlagsModel Json.FlagsSpec Json.StrModel Json.StrSpec
  Json.NumModel Json.NumSpec Json.TreeModel Json.TreeSpec Json.TreeProofs Json.TreeShapeSpec.
Open Scope Z_scope.

(* ================================ Go string comparison ================================ *)
Lemma bytes_ltb_trans : bytes_ltb_trans_statement.
Proof.
  unfold bytes_ltb_trans_statement.
  induction a as [|x a IH]; intros [|y b] [|z c] H1 H2; try discriminate; try reflexivity.
  cbn [bytes_ltb] in *.
  destruct (Z.ltb_spec x y) as [L1|L1].
  - destruct (Z.ltb_spec y z) as [L2|L2].
    + destruct (Z.ltb_spec x z) as [L3|L3]; [reflexivity|clear - L1 L2 L3; lia].
    + destruct (Z.eqb_spec y z) as [E2|E2]; [|discriminate]. subst z.
      destruct (Z.ltb_spec x y) as [L3|L3]; [reflexivity|clear - L1 L3; lia].
  - destruct (Z.eqb_spec x y) as [E1|E1]; [|discriminate]. subst y.
    destruct (Z.ltb_spec x z) as [L2|L2]; [reflexivity|].
    destruct (Z.eqb_spec x z) as [E2|E2]; [|discriminate].
    apply (IH b c H1 H2).
Qed.

Lemma bytes_ltb_total : bytes_ltb_total_statement.
Proof.
  unfold bytes_ltb_total_statement.
  induction a as [|x a IH]; intros [|y b] H1 H2; try discriminate; try reflexivity.
  cbn [bytes_ltb bytes_eqb] in *.
  destruct (Z.ltb_spec x y) as [L1|L1]; [discriminate|].
  destruct (Z.eqb_spec x y) as [E1|E1].
  - subst y. destruct (Z.ltb_spec x x) as [L2|L2]; [clear - L2; lia|].
    rewrite Z.eqb_refl. cbn [andb] in H2. apply (IH b H1 H2).
  - destruct (Z.ltb_spec y x) as [L2|L2]; [reflexivity|clear - L1 L2 E1; lia].
Qed.

(* ================================ map_put ================================ *)
Lemma map_put_keys (p : bytes -> bool) k v : forall m,
  p k = true -> forallb p (map fst m) = true -> forallb p (map fst (map_put k v m)) = true.
Proof.
  induction m as [|[k' v'] m IH]; intros Hk Hm.
  - cbn [map_put map fst forallb]. rewrite Hk. reflexivity.
  - cbn [map fst forallb] in Hm. apply andb_true_iff in Hm. destruct Hm as [H1 H2].
    cbn [map_put]. destruct (bytes_ltb k k').
    + cbn [map fst forallb]. rewrite Hk, H1, H2. reflexivity.
    + destruct (bytes_eqb k k').
      * cbn [map fst forallb]. rewrite Hk, H2. reflexivity.
      * cbn [map fst forallb]. rewrite H1, (IH Hk H2). reflexivity.
Qed.

Lemma map_put_vals (q : bytes * jval -> bool) k v : forall m,
  q (k, v) = true -> forallb q m = true -> forallb q (map_put k v m) = true.
Proof.
  induction m as [|[k' v'] m IH]; intros Hk Hm.
  - cbn [map_put forallb]. rewrite Hk. reflexivity.
  - cbn [forallb] in Hm. apply andb_true_iff in Hm. destruct Hm as [H1 H2].
    cbn [map_put]. destruct (bytes_ltb k k').
    + cbn [forallb]. rewrite Hk, H1, H2. reflexivity.
    + destruct (bytes_eqb k k').
      * cbn [forallb]. rewrite Hk, H2. reflexivity.
      * cbn [forallb]. rewrite H1, (IH Hk H2). reflexivity.
Qed.

Lemma forallb_ltb_trans k k' ks : bytes_ltb k k' = true ->
  forallb (bytes_ltb k') ks = true -> forallb (bytes_ltb k) ks = true.
Proof.
  intros H. induction ks as [|x ks IH]; intros Hk; [reflexivity|].
  cbn [forallb] in *. apply andb_true_iff in Hk. destruct Hk as [H1 H2].
  rewrite (bytes_ltb_trans k k' x H H1), (IH H2). reflexivity.
Qed.

Lemma map_put_sorted : map_put_sorted_statement.
Proof.
  intros k v. induction m as [|[k' v'] m IH]; intros Hs; [reflexivity|].
  cbn [map fst keys_sorted] in Hs. apply andb_true_iff in Hs. destruct Hs as [H1 H2].
  cbn [map_put]. destruct (bytes_ltb k k') eqn:L.
  - cbn [map fst keys_sorted forallb]. rewrite L, (forallb_ltb_trans k k' _ L H1), H1, H2. reflexivity.
  - destruct (bytes_eqb k k') eqn:E.
    + apply bytes_eqb_eq in E. subst k'. cbn [map fst keys_sorted]. rewrite H1, H2. reflexivity.
    + cbn [map fst keys_sorted]. rewrite (IH H2), andb_true_r.
      apply map_put_keys; [|exact H1]. apply bytes_ltb_total; assumption.
Qed.

(* ================================ zero values, well-formed values ================================ *)
Lemma int_in_zero s w : bits_ok w = true -> int_in s w 0 = true.
Proof.
  unfold bits_ok. intros Hw.
  assert (W : w = 8 \/ w = 16 \/ w = 32 \/ w = 64) by lia.
  destruct W as [W|[W|[W|W]]]; subst w; destruct s; reflexivity.
Qed.

Lemma forallb_repeat {A} (p : A -> bool) x n : p x = true -> forallb p (repeat x n) = true.
Proof. intros H. induction n as [|n IH]; [reflexivity|]. cbn [repeat forallb]. rewrite H, IH. reflexivity. Qed.

Lemma tree_zero_shape : tree_zero_shape_statement.
Proof.
  unfold tree_zero_shape_statement.
  apply (jty_mut (fun t => ty_ok t = true -> jshape t (jzero t) = true)
                 (fun fs => fields_ok fs = true -> jshapes fs (jzeros fs) = true)); try reflexivity.
  - intros s w Hok. cbn [ty_ok] in Hok. cbn [jzero jshape]. apply int_in_zero, Hok.
  - intros n t IH Hok. cbn [ty_ok] in Hok. cbn [jzero jshape].
    rewrite repeat_length, Nat.eqb_refl. cbn [andb]. apply forallb_repeat, IH, Hok.
  - intros fs IH Hok. cbn [ty_ok] in Hok. apply andb_true_iff in Hok. destruct Hok as [Hf _].
    cbn [jzero jshape]. apply IH, Hf.
  - intros name o t IHt r IHr Hok. cbn [fields_ok] in Hok. apply andb_true_iff in Hok. destruct Hok as [Hok Hr].
    apply andb_true_iff in Hok. destruct Hok as [_ Ht].
    cbn [jzeros jshapes]. rewrite (IHt Ht), (IHr Hr). reflexivity.
Qed.

Lemma forallb_impl {A} (p q : A -> bool) l : (forall x, In x l -> p x = true -> q x = true) ->
  forallb p l = true -> forallb q l = true.
Proof.
  intros H Hp. rewrite forallb_forall in *. intros x Hx. apply H; [exact Hx|apply Hp, Hx].
Qed.

Lemma tree_wf_shape : tree_wf_shape_statement.
Proof.
  unfold tree_wf_shape_statement.
  apply (jty_mut (fun t => forall v, jwf t v = true -> jshape t v = true)
                 (fun fs => forall l, jwfs fs l = true -> jshapes fs l = true)).
  - intros v H. destruct v; try discriminate. reflexivity.
  - intros s w v H. destruct v; try discriminate. exact H.
  - intros v H. destruct v; try discriminate. reflexivity.
  - intros t IH v H. destruct v; try discriminate; [reflexivity|]. cbn [jwf] in H. cbn [jshape]. apply IH, H.
  - intros t IH v H. destruct v; try discriminate; [reflexivity|]. cbn [jwf] in H. cbn [jshape].
    apply (forallb_impl (jwf t)); [|exact H]. intros x _. apply IH.
  - intros n t IH v H. destruct v; try discriminate. cbn [jwf] in H. cbn [jshape].
    apply andb_true_iff in H. destruct H as [H1 H2]. rewrite H1. cbn [andb].
    apply (forallb_impl (jwf t)); [|exact H2]. intros x _. apply IH.
  - intros t IH v H. destruct v; try discriminate; [reflexivity|]. cbn [jwf] in H. cbn [jshape].
    apply andb_true_iff in H. destruct H as [H H3]. apply andb_true_iff in H. destruct H as [_ H2].
    rewrite H2. cbn [andb].
    apply (forallb_impl (fun kv => jwf t (snd kv))); [|exact H3]. intros x _. apply IH.
  - intros fs IH v H. destruct v; try discriminate. cbn [jwf] in H. cbn [jshape]. apply IH, H.
  - intros l H. destruct l; [reflexivity|discriminate].
  - intros name o t IHt r IHr l H. destruct l as [|v l]; [discriminate|].
    cbn [jwfs] in H. apply andb_true_iff in H. destruct H as [H1 H2].
    cbn [jshapes]. rewrite (IHt v H1), (IHr l H2). reflexivity.
Qed.

(* ================================ the loops, for an arbitrary element decoder ================================ *)
Lemma slice_loop_shape (Q : jval -> bool) (dec1 : bytes -> dres (jval * bytes)) :
  (forall b v r, dec1 b = DOk (v, r) -> Q v = true) ->
  forall f first b l r, dec_slice_loop dec1 f first b = DOk (l, r) -> forallb Q l = true.
Proof.
  intros Hd. induction f as [|f IH]; intros first b l r H; [discriminate|].
  cbn [dec_slice_loop] in H.
  destruct (starts_with 93 (skip_ws b)) as [r0|].
  - injection H as H _. subst l. reflexivity.
  - destruct (if first then DOk (skip_ws b)
              else match starts_with 44 (skip_ws b) with Some r0 => DOk (skip_ws r0) | None => DErr end)
      as [b1| |]; try discriminate.
    cbn [dbind] in H.
    destruct (dec1 b1) as [[v1 r1]| |] eqn:E1; try discriminate.
    cbn [dbind fst snd] in H.
    destruct (dec_slice_loop dec1 f false r1) as [[l2 r2]| |] eqn:E2; try discriminate.
    cbn [dbind fst snd] in H. injection H as H _. subst l.
    cbn [forallb]. rewrite (Hd b1 v1 r1 E1), (IH false r1 l2 r2 E2). reflexivity.
Qed.

Lemma arr_loop_shape (Q : jval -> bool) (dec1 : jval -> bytes -> dres (jval * bytes)) zero gf :
  Q zero = true ->
  (forall c b v r, Q c = true -> dec1 c b = DOk (v, r) -> Q v = true) ->
  forall curs first b l r, forallb Q curs = true ->
    dec_arr_loop dec1 zero gf first curs b = DOk (l, r) -> length l = length curs /\ forallb Q l = true.
Proof.
  intros Hz Hd. induction curs as [|c curs IH]; intros first b l r Hc H.
  - cbn [dec_arr_loop] in H. destruct (dec_surplus gf gf first b) as [r0| |]; try discriminate.
    cbn [dbind] in H. injection H as H _. subst l. split; reflexivity.
  - cbn [forallb] in Hc. apply andb_true_iff in Hc. destruct Hc as [Hc1 Hc2].
    assert (Step : forall b1,
      dbind (dec1 c b1) (fun vr =>
        dbind (dec_arr_loop dec1 zero gf false curs (snd vr)) (fun lr => DOk (fst vr :: fst lr, snd lr))) = DOk (l, r) ->
      length l = length (c :: curs) /\ forallb Q l = true).
    { intros b1 H1.
      destruct (dec1 c b1) as [[v1 r1]| |] eqn:E1; try discriminate.
      cbn [dbind fst snd] in H1.
      destruct (dec_arr_loop dec1 zero gf false curs r1) as [[l2 r2]| |] eqn:E2; try discriminate.
      cbn [dbind fst snd] in H1. injection H1 as H1 _. subst l.
      destruct (IH false r1 l2 r2 Hc2 E2) as [L F].
      cbn [length forallb]. rewrite L, F, (Hd c b1 v1 r1 Hc1 E1). split; reflexivity. }
    cbn [dec_arr_loop] in H.
    destruct (starts_with 93 (skip_ws b)) as [r0|].
    + injection H as H _. subst l. split.
      * cbn [length]. rewrite map_length. reflexivity.
      * cbn [forallb]. rewrite Hz. cbn [andb]. rewrite forallb_forall. intros x Hx. apply in_map_iff in Hx. destruct Hx as [y [Hy _]]. subst x. exact Hz.
    + destruct first.
      * apply (Step _ H).
      * destruct (starts_with 44 (skip_ws b)) as [r0|]; [|discriminate]. apply (Step _ H).
Qed.

Definition mshape (Q : jval -> bool) (m : list (bytes * jval)) : bool :=
  keys_sorted (map fst m) && forallb (fun kv => Q (snd kv)) m.

Lemma map_put_mshape Q k v m : Q v = true -> mshape Q m = true -> mshape Q (map_put k v m) = true.
Proof.
  unfold mshape. intros Hv H. apply andb_true_iff in H. destruct H as [H1 H2].
  rewrite (map_put_sorted k v m H1). cbn [andb].
  apply (map_put_vals (fun kv => Q (snd kv))); [exact Hv|exact H2].
Qed.

Lemma map_loop_shape (Q : jval -> bool) (dec1 : bytes -> dres (jval * bytes)) :
  (forall b v r, dec1 b = DOk (v, r) -> Q v = true) ->
  forall f first m b m' r, mshape Q m = true ->
    dec_map_loop dec1 f first m b = DOk (m', r) -> mshape Q m' = true.
Proof.
  intros Hd. induction f as [|f IH]; intros first m b m' r Hm H; [discriminate|].
  cbn [dec_map_loop] in H.
  destruct (starts_with 125 (skip_ws b)) as [r0|].
  - injection H as H _. subst m'. exact Hm.
  - destruct (if first then DOk (skip_ws b)
              else match starts_with 44 (skip_ws b) with Some r0 => DOk (skip_ws r0) | None => DErr end)
      as [b1| |]; try discriminate.
    cbn [dbind] in H.
    destruct (uq_lit b1) as [[k r1]|]; [|discriminate].
    destruct (starts_with 58 (skip_ws r1)) as [r2|]; [|discriminate].
    destruct (dec1 (skip_ws r2)) as [[v1 r3]| |] eqn:E1; try discriminate.
    cbn [dbind fst snd] in H.
    apply (IH false _ _ _ _ (map_put_mshape Q k v1 m (Hd _ _ _ E1) Hm) H).
Qed.

Lemma struct_loop_shape (I : list jval -> Prop)
    (decf : bytes -> list jval -> bytes -> dres (option (list jval * bytes))) names gf :
  (forall k curs b curs' r, I curs -> decf k curs b = DOk (Some (curs', r)) -> I curs') ->
  forall f first curs b l r, I curs ->
    dec_struct_loop decf names gf f first curs b = DOk (l, r) -> I l.
Proof.
  intros Hd. induction f as [|f IH]; intros first curs b l r Hc H; [discriminate|].
  cbn [dec_struct_loop] in H.
  destruct (starts_with 125 (skip_ws b)) as [r0|].
  - injection H as H _. subst l. exact Hc.
  - destruct (if first then DOk (skip_ws b)
              else match starts_with 44 (skip_ws b) with Some r0 => DOk (skip_ws r0) | None => DErr end)
      as [b1| |]; try discriminate.
    cbn [dbind] in H.
    destruct (uq_lit b1) as [[k r1]|]; [|discriminate].
    destruct (starts_with 58 (skip_ws r1)) as [r2|]; [|discriminate].
    destruct (resolve_key names k) as [k'|]; [|discriminate].
    destruct (decf k' curs (skip_ws r2)) as [[[curs' r3]|]| |] eqn:E1; try discriminate; cbn [dbind] in H.
    + apply (IH false curs' r3 l r (Hd _ _ _ _ _ Hc E1) H).
    + destruct (g_value gf (skip_ws r2)) as [r3|]; [|discriminate].
      apply (IH false curs r3 l r Hc H).
Qed.

(* ================================ every type ================================ *)
Definition SP (t : jty) : Prop :=
  ty_ok t = true -> forall fuel cur b v r, jshape t cur = true -> dec t fuel cur b = DOk (v, r) -> jshape t v = true.
Definition SF (fs : jfields) : Prop :=
  fields_ok fs = true -> forall fuel k curs b curs' r,
    jshapes fs curs = true -> dec_field fs fuel k curs b = DOk (Some (curs', r)) -> jshapes fs curs' = true.

Lemma wrap_ptr_inv x v r : wrap_ptr x = DOk (v, r) -> exists v', x = DOk (v', r) /\ v = VPtr v'.
Proof.
  unfold wrap_ptr. destruct x as [[v' r']| |]; try discriminate. cbn [dbind fst snd].
  intros H. injection H as H1 H2. subst. exists v'. split; reflexivity.
Qed.

Lemma dec_shape_all : forall t, SP t.
Proof.
  apply (jty_mut SP SF); unfold SP, SF.
  - (* bool *)
    intros _ fuel cur b v r Hc H. cbn [dec] in H.
    destruct (nullp b) as [r0|].
    + injection H as H _. subst v. exact Hc.
    + unfold dec_bool in H.
      repeat (match type of H with match ?x with _ => _ end = _ => destruct x; try discriminate end);
        injection H as H _; subst v; reflexivity.
  - (* integers *)
    intros s w _ fuel cur b v r Hc H. cbn [dec] in H.
    destruct (nullp b) as [r0|].
    + injection H as H _. subst v. exact Hc.
    + unfold dec_int in H.
      destruct (match starts_with 45 b with Some r1 => (true, r1) | None => (false, b) end) as [neg body].
      destruct (neg && negb s); [discriminate|].
      destruct (negb (no_leading_zero_b (take_digits body))); [discriminate|].
      destruct (match skip_digits body with c :: _ => (c =? 46) || (c =? 101) || (c =? 69) | [] => false end);
        [discriminate|].
      destruct (int_in s w (if neg then - digits_value (take_digits body) else digits_value (take_digits body)))
        eqn:E; [|discriminate].
      injection H as H _. subst v. cbn [jshape]. exact E.
  - (* strings *)
    intros _ fuel cur b v r Hc H. cbn [dec] in H.
    destruct (nullp b) as [r0|].
    + injection H as H _. subst v. exact Hc.
    + unfold dec_str in H. destruct (uq_lit b) as [[s r1]|]; [|discriminate].
      injection H as H _. subst v. reflexivity.
  - (* pointers *)
    intros t IH Hok fuel cur b v r Hc H. cbn [ty_ok] in Hok. cbn [dec] in H.
    destruct (nullp b) as [r0|].
    + destruct cur as [| | | |c| | |]; try (injection H as H _; subst v; reflexivity).
      cbn [jshape] in Hc.
      destruct t; try (injection H as H _; subst v; reflexivity).
      apply wrap_ptr_inv in H. destruct H as [v' [H E]]. subst v. cbn [jshape].
      apply (IH Hok fuel c b v' r Hc H).
    + apply wrap_ptr_inv in H. destruct H as [v' [H E]]. subst v. cbn [jshape].
      apply (IH Hok fuel _ b v' r) in H; [exact H|].
      destruct cur; try (apply tree_zero_shape, Hok). exact Hc.
  - (* slices *)
    intros t IH Hok fuel cur b v r Hc H. cbn [ty_ok] in Hok. apply andb_true_iff in Hok. destruct Hok as [Hok _].
    cbn [dec] in H.
    destruct (nullp b) as [r0|].
    + injection H as H _. subst v. reflexivity.
    + destruct (starts_with 91 b) as [r1|]; [|discriminate].
      destruct (dec_slice_loop (dec t fuel (jzero t)) fuel true r1) as [[l r2]| |] eqn:E; try discriminate.
      cbn [dbind fst snd] in H. injection H as H _. subst v. cbn [jshape].
      apply (slice_loop_shape (jshape t) _) in E; [exact E|].
      intros b0 v0 r0 H0. apply (IH Hok fuel (jzero t) b0 v0 r0 (tree_zero_shape t Hok) H0).
  - (* arrays *)
    intros n t IH Hok fuel cur b v r Hc H. cbn [ty_ok] in Hok. cbn [dec] in H.
    destruct (nullp b) as [r0|].
    + injection H as H _. subst v. exact Hc.
    + destruct (starts_with 91 b) as [r1|]; [|discriminate].
      destruct cur as [| | | | |lc| |]; try discriminate Hc.
      cbn [jshape] in Hc. apply andb_true_iff in Hc. destruct Hc as [Hn Hl]. apply Nat.eqb_eq in Hn.
      destruct (dec_arr_loop (dec t fuel) (jzero t) fuel true lc r1) as [[l r2]| |] eqn:E; try discriminate.
      cbn [dbind fst snd] in H. injection H as H _. subst v. cbn [jshape].
      apply (arr_loop_shape (jshape t) _ _ _ (tree_zero_shape t Hok)) in E; [|intros c b0 v0 r0; apply (IH Hok)|exact Hl].
      destruct E as [L F]. rewrite L, Hn, Nat.eqb_refl, F. reflexivity.
  - (* maps *)
    intros t IH Hok fuel cur b v r Hc H. cbn [ty_ok] in Hok. cbn [dec] in H.
    destruct (nullp b) as [r0|].
    + injection H as H _. subst v. reflexivity.
    + destruct (starts_with 123 b) as [r1|]; [|discriminate].
      destruct (dec_map_loop (dec t fuel (jzero t)) fuel true (match cur with VMap m => m | _ => [] end) r1)
        as [[m' r2]| |] eqn:E; try discriminate.
      cbn [dbind fst snd] in H. injection H as H _. subst v. cbn [jshape].
      apply (map_loop_shape (jshape t) _) in E; [exact E| |].
      * intros b0 v0 r0 H0. apply (IH Hok fuel (jzero t) b0 v0 r0 (tree_zero_shape t Hok) H0).
      * destruct cur; try reflexivity. exact Hc.
  - (* structs *)
    intros fs IH Hok fuel cur b v r Hc H. cbn [ty_ok] in Hok. apply andb_true_iff in Hok. destruct Hok as [Hok _].
    cbn [dec] in H.
    destruct (nullp b) as [r0|].
    + injection H as H _. subst v. exact Hc.
    + destruct (starts_with 123 b) as [r1|]; [|discriminate].
      destruct cur as [| | | | | | |lc]; try discriminate Hc.
      cbn [jshape] in Hc.
      destruct (dec_struct_loop (dec_field fs fuel) (jnames fs) fuel fuel true lc r1) as [[l r2]| |] eqn:E;
        try discriminate.
      cbn [dbind fst snd] in H. injection H as H _. subst v. cbn [jshape].
      apply (struct_loop_shape (fun l => jshapes fs l = true) _ _ _) in E; [exact E| |exact Hc].
      intros k curs b0 curs' r0. apply (IH Hok fuel).
  - (* no field *)
    intros _ fuel k curs b curs' r Hc H. cbn [dec_field] in H. discriminate.
  - (* a field *)
    intros name o t IHt rf IHr Hok fuel k curs b curs' r Hc H.
    cbn [fields_ok] in Hok. apply andb_true_iff in Hok. destruct Hok as [Hok Hr].
    apply andb_true_iff in Hok. destruct Hok as [_ Ht].
    destruct curs as [|c curs]; [discriminate|].
    cbn [jshapes] in Hc. apply andb_true_iff in Hc. destruct Hc as [Hc1 Hc2].
    cbn [dec_field] in H.
    destruct (bytes_eqb k name).
    + destruct (negb (jmergeable t) && negb (jis_zero t c)); [discriminate|].
      destruct (dec t fuel c b) as [[v1 r1]| |] eqn:E; try discriminate.
      cbn [dbind fst snd] in H. injection H as H _. subst curs'.
      cbn [jshapes]. rewrite (IHt Ht fuel c b v1 r1 Hc1 E), Hc2. reflexivity.
    + destruct (dec_field rf fuel k curs b) as [[[l1 r1]|]| |] eqn:E; try discriminate.
      cbn [dbind] in H. injection H as H _. subst curs'.
      cbn [jshapes]. rewrite Hc1, (IHr Hr fuel k curs b l1 r1 Hc2 E). reflexivity.
Qed.

(* ================================ the statements ================================ *)
Lemma tree_dec_shape_value : tree_dec_shape_value_statement.
Proof. intros t fuel cur b v r Hok Hc H. apply (dec_shape_all t Hok fuel cur b v r Hc H). Qed.

Lemma tree_dec_shape : tree_dec_shape_statement.
Proof.
  intros fuel t b v Hok H. unfold jdec in H.
  destruct (dec t fuel (jzero t) (skip_ws b)) as [[v' r]| |] eqn:E; try discriminate.
  destruct (skip_ws r); [|discriminate]. injection H as H. subst v'.
  apply (tree_dec_shape_value t fuel (jzero t) _ v r Hok (tree_zero_shape t Hok) E).
Qed.

Print Assumptions tree_dec_shape_value.
Print Assumptions tree_dec_shape.
Print Assumptions tree_zero_shape.
Print Assumptions tree_wf_shape.
Print Assumptions map_put_sorted.
Print Assumptions bytes_ltb_trans.
Print Assumptions bytes_ltb_total.
