(* C14 structural part: the decoder under any ParseFlags of the model on EVERY encoding in which each map occurrence
   is written in an order of its own (relation penc of Json/TreeFlagsSpec.v; statement parse_flags_rel_meaning).
   The proof is that of Json/TreeFlagsDecProofs.v with the token list of a value replaced by any token list related
   to it; what the oracle encoder writes is such a token list (penc_of_ord). *)
From Coq Require Import Lia ZifyBool ZifyNat Permutation.
From Verif Require Import Base.GoInt Json.Grammar Json.FlagsModel Json.FlagsSpec Json.StrModel Json.StrSpec Json.StrSpecProofs
  Json.NumModel Json.NumSpec Json.NumProofs Json.TreeModel Json.TreeSpec Json.TreeProofs
  Json.TreeShapeSpec Json.TreeShapeProofs Json.TreeFlagsModel Json.TreeFlagsSpec Json.TreeFlagsDecProofs.
Open Scope Z_scope.

Definition ment (html : bool) (t' : jty) (kv : bytes * jval) (g : list bytes) : Prop :=
  exists tv, penc html t' (snd kv) tv /\ g = [std_escape html (fst kv); [58]] ++ tv.

(* ================================ the oracle encoder writes such an encoding ================================ *)
Lemma Forall2_map_r {A B} (R : A -> B -> Prop) (f : A -> B) l : (forall x, In x l -> R x (f x)) -> Forall2 R l (map f l).
Proof.
  induction l as [|x l IH]; intros H; cbn [map]; constructor.
  - apply H. left. reflexivity.
  - apply IH. intros y Hy. apply H. right. exact Hy.
Qed.

Lemma penc_of_ord : penc_of_ord_statement.
Proof.
  intros html ord t v Hord. revert t v.
  apply (jty_mut (fun t => forall v, penc html t v (jtoks_f html ord t v))
                 (fun fs => forall l, pmembers html fs l (jmembers_f html ord fs l))).
  - intros v. destruct v; reflexivity.
  - intros s w v. destruct v; reflexivity.
  - intros v. destruct v; reflexivity.
  - intros t IH v. destruct v; try reflexivity. cbn [penc jtoks_f]. apply IH.
  - intros t IH v. destruct v; try reflexivity. cbn [penc jtoks_f].
    exists (map (jtoks_f html ord t) l). split; [|reflexivity]. apply Forall2_map_r. intros x _. apply IH.
  - intros n t IH v. destruct v; try reflexivity. cbn [penc jtoks_f].
    exists (map (jtoks_f html ord t) l). split; [|reflexivity]. apply Forall2_map_r. intros x _. apply IH.
  - intros t IH v. destruct v; try reflexivity. cbn [penc jtoks_f].
    exists (ord (sort_kv m)), (map (fun kv => [std_escape html (fst kv); [58]] ++ jtoks_f html ord t (snd kv)) (ord (sort_kv m))).
    split; [apply Hord|]. split; [|reflexivity].
    apply Forall2_map_r. intros kv _. exists (jtoks_f html ord t (snd kv)). split; [apply IH|reflexivity].
  - intros fs IH v. destruct v; try reflexivity. cbn [penc jtoks_f].
    exists (jmembers_f html ord fs l). split; [apply IH|reflexivity].
  - intros l. reflexivity.
  - intros name o t IHt r IHr l. destruct l as [|v l]; [reflexivity|]. cbn [pmembers jmembers_f].
    destruct (o && jempty v).
    + cbn [app]. apply IHr.
    + exists (jtoks_f html ord t v), (jmembers_f html ord r l). split; [apply IHt|]. split; [apply IHr|reflexivity].
Qed.

(* ================================ the decoder on such an encoding ================================ *)
Section Rel.
Variables (nocase strict html : bool).
Notation D := (dec_f nocase strict).

Lemma penc_nullish : forall t v toks, jnullish t v = true -> penc html t v toks -> toks = [tok_null].
Proof.
  induction t; intros v toks H Hp; destruct v; cbn [jnullish] in H; try discriminate; cbn [penc] in Hp; try exact Hp.
  apply (IHt v toks H Hp).
Qed.

Definition headp_r (toks : list bytes) (t : jty) (v : jval) : Prop :=
  exists c tkn rest, toks = (c :: tkn) :: rest /\ is_ws c = false /\ c <> 93 /\ (jnullish t v = false -> c <> 110).
Lemma headp_null_r t v : jnullish t v = true -> headp_r [tok_null] t v.
Proof.
  intros N. exists 110, [117; 108; 108], []. rewrite N.
  split; [reflexivity|]. repeat split; discriminate.
Qed.
Lemma penc_head : forall t v toks, ty_ok t = true -> jwf t v = true -> penc html t v toks -> headp_r toks t v.
Proof.
  induction t; intros v toks Hok Hwf Hp; destruct v; cbn [jwf] in Hwf; try discriminate; cbn [penc] in Hp;
    try (subst toks; apply headp_null_r; reflexivity).
  - subst toks. exists (if b then 116 else 102), (if b then [114; 117; 101] else [97; 108; 115; 101]), [].
    destruct b; (split; [reflexivity|]); repeat split; discriminate.
  - subst toks. cbn [ty_ok] in Hok. destruct (z_to_dec_head signed bits z Hok Hwf) as [c [tkn [E [A [B C]]]]].
    exists c, tkn, []. rewrite E. repeat split; auto.
  - subst toks. exists 34, (std_escape_body html 0 s ++ [34]), []. repeat split; discriminate.
  - cbn [ty_ok] in Hok. destruct (IHt v toks Hok Hwf Hp) as [c [tkn [rest [E [A [B C]]]]]].
    exists c, tkn, rest. cbn [jnullish]. repeat split; auto.
  - destruct Hp as [gs [_ ->]]. eexists 91, [], _. cbn [app]. repeat split; discriminate.
  - destruct Hp as [gs [_ ->]]. eexists 91, [], _. cbn [app]. repeat split; discriminate.
  - destruct Hp as [es [gs [_ [_ ->]]]]. eexists 123, [], _. cbn [app]. repeat split; discriminate.
  - destruct Hp as [gs [_ ->]]. eexists 123, [], _. cbn [app]. repeat split; discriminate.
Qed.

Definition Pr (t : jty) : Prop :=
  ty_ok t = true -> forall v toks fuel doc rest,
    jwf t v = true -> penc html t v toks -> inter toks doc rest -> stops rest -> (length doc < fuel)%nat ->
    D t fuel (jzero t) (skip_ws doc) = DOk (jnorm t v, rest).

Lemma value_then_r t v tv more doc rest c tkn toks :
  ty_ok t = true -> jwf t v = true -> penc html t v tv ->
  inter (tv ++ more) doc rest -> more = (c :: tkn) :: toks -> stopc c ->
  exists mid, inter tv doc mid /\ inter more mid rest /\ stops mid /\ (length mid < length doc)%nat.
Proof.
  intros Hok Hwf Hp Hi Hm Hc. apply inter_app in Hi. destruct Hi as [mid [H1 H2]].
  exists mid. split; [exact H1|]. split; [exact H2|]. split.
  - subst more. eapply inter_stops; eassumption.
  - destruct (penc_head t v tv Hok Hwf Hp) as [c' [tk' [toks' [E [A _]]]]]. rewrite E in H1.
    destruct (next_tok _ _ _ _ _ H1 A) as [doc' [_ [Hi' L]]]. apply inter_len in Hi'. lia.
Qed.

(* ---------------- slices ---------------- *)
Lemma slice_loop_ok_r t' fuel : Pr t' -> ty_ok t' = true ->
  forall l gs, Forall2 (penc html t') l gs ->
  forall first f doc rest, forallb (jwf t') l = true ->
    inter (seq_toks first gs ++ [[93]]) doc rest -> stops rest ->
    (length doc < f)%nat -> (length doc < fuel)%nat ->
    dec_slice_loop (D t' fuel (jzero t')) f first doc = DOk (map (jnorm t') l, rest).
Proof.
  intros IHP Hok. induction 1 as [|v g l gs Hp HF IH]; intros first f doc rest Hwf Hi Hst Hf Hfuel;
    (destruct f as [|f]; [lia|]).
  - cbn [seq_toks app] in Hi.
    destruct (next_tok 93 [] [] doc rest Hi eq_refl) as [doc' [E [Hi' _]]]. inversion Hi'; subst.
    cbn [dec_slice_loop]. rewrite E. cbn [app]. rewrite starts_with_hit. reflexivity.
  - cbn [forallb] in Hwf. apply andb_true_iff in Hwf. destruct Hwf as [Hv Hl].
    assert (Common : forall docE, (length docE <= length doc)%nat ->
      inter (g ++ sep_toks' gs ++ [[93]]) docE rest ->
      starts_with 93 (skip_ws docE) = None /\
      dbind (D t' fuel (jzero t') (skip_ws docE)) (fun vr =>
        dbind (dec_slice_loop (D t' fuel (jzero t')) f false (snd vr)) (fun lr => DOk (fst vr :: fst lr, snd lr)))
      = DOk (jnorm t' v :: map (jnorm t') l, rest)).
    { intros docE Le HiE.
      destruct (sep_close gs 93 (or_intror (or_introl eq_refl))) as [c [tkn [toks [Em Hc]]]].
      destruct (value_then_r t' v g _ docE rest c tkn toks Hok Hv Hp HiE Em Hc) as [mid [H1 [H2 [Hs Lm]]]].
      destruct (penc_head t' v g Hok Hv Hp) as [c' [tk' [toks' [E' [A [B _]]]]]].
      split.
      - rewrite E' in H1. destruct (next_tok _ _ _ _ _ H1 A) as [d' [Es _]]. rewrite Es.
        apply starts_with_miss, B.
      - rewrite (IHP Hok v g fuel docE mid Hv Hp H1 Hs ltac:(lia)). cbn [dbind fst snd].
        rewrite <- seq_toks_false in H2.
        rewrite (IH false f mid rest Hl H2 Hst ltac:(lia) ltac:(lia)). reflexivity. }
    cbn [seq_toks] in Hi. cbn [dec_slice_loop map].
    destruct first.
    + rewrite <- app_assoc in Hi. destruct (Common doc (le_n _) Hi) as [C1 C2].
      rewrite C1. cbn [dbind]. exact C2.
    + rewrite <- app_assoc in Hi. cbn [app] in Hi.
      destruct (next_tok 44 [] _ doc rest Hi eq_refl) as [doc' [E [Hi' L]]].
      rewrite E. cbn [app]. rewrite starts_with_miss by discriminate. rewrite starts_with_hit. cbn [dbind].
      assert (Ld : (length doc' <= length doc)%nat) by (clear - L; lia). destruct (Common doc' Ld Hi') as [_ C2]. exact C2.
Qed.

(* ---------------- arrays ---------------- *)
Lemma arr_loop_ok_r t' fuel : Pr t' -> ty_ok t' = true ->
  forall l gs, Forall2 (penc html t') l gs ->
  forall first doc rest, forallb (jwf t') l = true ->
    inter (seq_toks first gs ++ [[93]]) doc rest -> stops rest ->
    (length doc < fuel)%nat ->
    dec_arr_loop (D t' fuel) (jzero t') fuel first (repeat (jzero t') (length l)) doc
      = DOk (map (jnorm t') l, rest).
Proof.
  intros IHP Hok. induction 1 as [|v g l gs Hp HF IH]; intros first doc rest Hwf Hi Hst Hfuel.
  - cbn [seq_toks app] in Hi.
    destruct (next_tok 93 [] [] doc rest Hi eq_refl) as [doc' [E [Hi' _]]]. inversion Hi'; subst.
    cbn [length repeat dec_arr_loop]. destruct fuel as [|fuel]; [lia|].
    cbn [dec_surplus]. rewrite E. cbn [app dbind map]. reflexivity.
  - cbn [forallb] in Hwf. apply andb_true_iff in Hwf. destruct Hwf as [Hv Hl].
    assert (Common : forall docE, (length docE <= length doc)%nat ->
      inter (g ++ sep_toks' gs ++ [[93]]) docE rest ->
      starts_with 93 (skip_ws docE) = None /\
      dbind (D t' fuel (jzero t') (skip_ws docE)) (fun vr =>
        dbind (dec_arr_loop (D t' fuel) (jzero t') fuel false (repeat (jzero t') (length l)) (snd vr))
              (fun lr => DOk (fst vr :: fst lr, snd lr)))
      = DOk (jnorm t' v :: map (jnorm t') l, rest)).
    { intros docE Le HiE.
      destruct (sep_close gs 93 (or_intror (or_introl eq_refl))) as [c [tkn [toks [Em Hc]]]].
      destruct (value_then_r t' v g _ docE rest c tkn toks Hok Hv Hp HiE Em Hc) as [mid [H1 [H2 [Hs Lm]]]].
      destruct (penc_head t' v g Hok Hv Hp) as [c' [tk' [toks' [E' [A [B _]]]]]].
      split.
      - rewrite E' in H1. destruct (next_tok _ _ _ _ _ H1 A) as [d' [Es _]]. rewrite Es.
        apply starts_with_miss, B.
      - rewrite (IHP Hok v g fuel docE mid Hv Hp H1 Hs ltac:(lia)). cbn [dbind fst snd].
        rewrite <- seq_toks_false in H2.
        rewrite (IH false mid rest Hl H2 Hst ltac:(lia)). reflexivity. }
    cbn [seq_toks] in Hi. cbn [length repeat dec_arr_loop map].
    destruct first.
    + rewrite <- app_assoc in Hi. destruct (Common doc (le_n _) Hi) as [C1 C2].
      rewrite C1. exact C2.
    + rewrite <- app_assoc in Hi. cbn [app] in Hi.
      destruct (next_tok 44 [] _ doc rest Hi eq_refl) as [doc' [E [Hi' L]]].
      rewrite E. cbn [app]. rewrite starts_with_miss by discriminate. rewrite starts_with_hit.
      assert (Ld : (length doc' <= length doc)%nat) by (clear - L; lia). destruct (Common doc' Ld Hi') as [_ C2]. exact C2.
Qed.

(* ---------------- maps ---------------- *)
Lemma map_loop_ok_r t' fuel : Pr t' -> ty_ok t' = true ->
  forall es gs, Forall2 (ment html t') es gs ->
  forall first f doc rest m0,
    forallb key_ok (map fst es) = true ->
    forallb (fun kv => jwf t' (snd kv)) es = true ->
    inter (seq_toks first gs ++ [[125]]) doc rest -> stops rest ->
    (length doc < f)%nat -> (length doc < fuel)%nat ->
    dec_map_loop (D t' fuel (jzero t')) f first m0 doc = DOk (fold_left (putn (jnorm t')) es m0, rest).
Proof.
  intros IHP Hok. induction 1 as [|[k v] g es gs [tv [Hp Eg]] HF IH]; intros first f doc rest m0 Hk Hwf Hi Hst Hf Hfuel;
    (destruct f as [|f]; [lia|]).
  - cbn [seq_toks app] in Hi.
    destruct (next_tok 125 [] [] doc rest Hi eq_refl) as [doc' [E [Hi' _]]]. inversion Hi'; subst.
    cbn [dec_map_loop]. rewrite E. cbn [app]. rewrite starts_with_hit. reflexivity.
  - cbn [fst snd] in Hp, Eg. subst g.
    cbn [map fst forallb] in Hk. apply andb_true_iff in Hk. destruct Hk as [Hk1 Hk2].
    cbn [forallb snd] in Hwf. apply andb_true_iff in Hwf. destruct Hwf as [Hv Hl].
    destruct (key_ok_inv k Hk1) as [Kw Ks].
    assert (Common : forall docE, (length docE <= length doc)%nat ->
      inter (([std_escape html k; [58]] ++ tv) ++ sep_toks' gs ++ [[125]]) docE rest ->
      starts_with 125 (skip_ws docE) = None /\
      match uq_lit (skip_ws docE) with
      | None => DErr
      | Some (k0, r1) =>
        match starts_with 58 (skip_ws r1) with
        | Some r2 =>
          dbind (D t' fuel (jzero t') (skip_ws r2)) (fun vr =>
            dec_map_loop (D t' fuel (jzero t')) f false (map_put k0 (fst vr) m0) (snd vr))
        | None => DErr
        end
      end = DOk (fold_left (putn (jnorm t')) es (map_put k (jnorm t' v) m0), rest)).
    { intros docE Le HiE. cbn [app] in HiE.
      assert (Hq : std_escape html k = 34 :: (std_escape_body html 0 k ++ [34])) by reflexivity.
      rewrite Hq in HiE.
      destruct (next_tok 34 _ _ docE rest HiE eq_refl) as [d1 [E1 [Hi1 L1]]].
      destruct (next_tok 58 [] _ d1 rest Hi1 eq_refl) as [d2 [E2 [Hi2 L2]]].
      destruct (sep_close gs 125 (or_intror (or_intror eq_refl))) as [c [tkn [toks [Em Hc]]]].
      destruct (value_then_r t' v tv _ d2 rest c tkn toks Hok Hv Hp Hi2 Em Hc) as [mid [H1 [H2 [Hsm Lm]]]].
      assert (F1 : (length d2 < fuel)%nat) by (clear - L1 L2 Le Hfuel; lia).
      assert (F2 : (length mid < f)%nat) by (clear - L1 L2 Le Lm Hf; lia).
      assert (F3 : (length mid < fuel)%nat) by (clear - L1 L2 Le Lm Hfuel; lia).
      split.
      - rewrite E1. apply starts_with_miss. discriminate.
      - rewrite E1. change (34 :: (std_escape_body html 0 k ++ [34]) ++ d1) with (std_escape html k ++ d1).
        rewrite (unquote_escape html k d1 Kw). rewrite Ks.
        rewrite E2. cbn [app]. rewrite starts_with_hit.
        rewrite (IHP Hok v tv fuel d2 mid Hv Hp H1 Hsm F1). cbn [dbind fst snd].
        rewrite <- seq_toks_false in H2.
        apply (IH false f mid rest (map_put k (jnorm t' v) m0) Hk2 Hl H2 Hst F2 F3). }
    cbn [seq_toks] in Hi. cbn [dec_map_loop fold_left]. unfold putn at 2. cbn [fst snd].
    destruct first.
    + rewrite <- app_assoc in Hi. destruct (Common doc (le_n _) Hi) as [C1 C2].
      rewrite C1. cbn [dbind]. exact C2.
    + rewrite <- app_assoc in Hi. cbn [app] in Hi.
      destruct (next_tok 44 [] _ doc rest Hi eq_refl) as [doc' [E [Hi' L]]].
      rewrite E. cbn [app]. rewrite starts_with_miss by discriminate. rewrite starts_with_hit. cbn [dbind].
      assert (Ld : (length doc' <= length doc)%nat) by (clear - L; lia). destruct (Common doc' Ld Hi') as [_ C2]. exact C2.
Qed.

(* ---------------- structs ---------------- *)
Lemma struct_loop_ok_r fs_all fuel : distinct (jnames fs_all) = true ->
  forall fs pre l gs dvals first f doc rest,
    fs_all = fapp pre fs -> fields_ok fs = true -> fall Pr fs -> jwfs fs l = true -> length dvals = flen pre ->
    pmembers html fs l gs ->
    inter (seq_toks first gs ++ [[125]]) doc rest -> stops rest ->
    (length doc < f)%nat -> (length doc < fuel)%nat ->
    dec_struct_loop_f nocase strict (dec_field_f nocase strict fs_all fuel) (jnames fs_all) fuel f first (dvals ++ jzeros fs) doc
      = DOk (dvals ++ jnorms fs l, rest).
Proof.
  intros Hdis. induction fs as [|name o t r IH];
    intros pre l gs dvals first f doc rest Hall Hfok HP Hwf Hlen Hpm Hi Hst Hf Hfuel.
  - destruct l; [|discriminate]. cbn [pmembers] in Hpm. subst gs. cbn [seq_toks app] in Hi.
    destruct f as [|f]; [lia|].
    destruct (next_tok 125 [] [] doc rest Hi eq_refl) as [doc' [E [Hi' _]]].
    assert (doc' = rest) by (inversion Hi'; reflexivity). subst doc'.
    cbn [dec_struct_loop_f jzeros jnorms]. rewrite E. cbn [app]. rewrite starts_with_hit. reflexivity.
  - destruct l as [|v l]; [discriminate|].
    cbn [jwfs] in Hwf. apply andb_true_iff in Hwf. destruct Hwf as [Hv Hl].
    cbn [fields_ok] in Hfok. apply andb_true_iff in Hfok. destruct Hfok as [Hfok Hrok].
    apply andb_true_iff in Hfok. destruct Hfok as [Hname Htok].
    cbn [fall] in HP. destruct HP as [HPt HPr].
    cbn [pmembers] in Hpm. cbn [jzeros jnorms].
    destruct (o && jempty v) eqn:Om.
    + (* omitted *)
      replace (dvals ++ jzero t :: jzeros r) with ((dvals ++ [jzero t]) ++ jzeros r)
        by (rewrite <- app_assoc; reflexivity).
      replace (dvals ++ jzero t :: jnorms r l) with ((dvals ++ [jzero t]) ++ jnorms r l)
        by (rewrite <- app_assoc; reflexivity).
      apply (IH (fapp pre (FCons name o t FNil)) l gs); try assumption.
      * rewrite fapp_snoc. exact Hall.
      * rewrite app_length, flen_snoc. cbn [length]. clear - Hlen. lia.
    + (* written *)
      destruct Hpm as [tv [gs' [Hp [Hpm' Eg]]]]. subst gs.
      destruct f as [|f]; [clear - Hf; lia|].
      assert (Hnm : existsb (bytes_eqb name) (jnames pre) = false).
      { rewrite Hall, jnames_fapp in Hdis. cbn [jnames] in Hdis. eapply distinct_mid, Hdis. }
      assert (Hin : existsb (bytes_eqb name) (jnames fs_all) = true).
      { rewrite Hall, jnames_fapp, existsb_app. cbn [jnames existsb]. rewrite bytes_eqb_refl. apply orb_true_r. }
      assert (Common : forall docE, (length docE <= length doc)%nat ->
        inter (([quote name; [58]] ++ tv) ++ sep_toks' gs' ++ [[125]]) docE rest ->
        starts_with 125 (skip_ws docE) = None /\
        match uq_lit (skip_ws docE) with
        | None => DErr
        | Some (k, r1) =>
          match starts_with 58 (skip_ws r1) with
          | Some r2 =>
            match resolve_key_f nocase (jnames fs_all) k with
            | None => DOut
            | Some k' =>
              dbind (dec_field_f nocase strict fs_all fuel k' (dvals ++ jzero t :: jzeros r) (skip_ws r2)) (fun o0 =>
                match o0 with
                | Some (curs', r3) =>
                    dec_struct_loop_f nocase strict (dec_field_f nocase strict fs_all fuel) (jnames fs_all) fuel f false curs' r3
                | None =>
                  if strict then DErr
                  else
                    match g_value fuel (skip_ws r2) with
                    | None => DErr
                    | Some r3 => dec_struct_loop_f nocase strict (dec_field_f nocase strict fs_all fuel) (jnames fs_all) fuel f false
                                   (dvals ++ jzero t :: jzeros r) r3
                    end
                end)
            end
          | None => DErr
          end
        end = DOk (dvals ++ jnorm t v :: jnorms r l, rest)).
      { intros docE Le HiE. cbn [app] in HiE.
        assert (Hq : quote name = 34 :: (name ++ [34])) by reflexivity.
        rewrite Hq in HiE.
        destruct (next_tok 34 _ _ docE rest HiE eq_refl) as [d1 [E1 [Hi1 L1]]].
        destruct (next_tok 58 [] _ d1 rest Hi1 eq_refl) as [d2 [E2 [Hi2 L2]]].
        destruct (sep_close gs' 125 (or_intror (or_intror eq_refl))) as [c [tkn [toks [Em Hc]]]].
        destruct (value_then_r t v tv _ d2 rest c tkn toks Htok Hv Hp Hi2 Em Hc) as [mid [H1 [H2 [Hsm Lm]]]].
        assert (F1 : (length d2 < fuel)%nat) by (clear - L1 L2 Le Hfuel; lia).
        assert (F2 : (length mid < f)%nat) by (clear - L1 L2 Le Lm Hf; lia).
        assert (F3 : (length mid < fuel)%nat) by (clear - L1 L2 Le Lm Hfuel; lia).
        split.
        - rewrite E1. apply starts_with_miss. discriminate.
        - rewrite E1. change (34 :: (name ++ [34]) ++ d1) with (quote name ++ d1).
          rewrite (uq_quote name d1 Hname).
          rewrite E2. cbn [app]. rewrite starts_with_hit.
          rewrite (resolve_exact_f nocase _ _ Hin).
          rewrite Hall at 1. rewrite (dec_field_hit_f nocase strict fuel name o t r pre dvals (jzero t) (jzeros r) _ Hlen Hnm).
          rewrite jis_zero_zero. cbn [negb]. rewrite andb_false_r.
          rewrite (HPt Htok v tv fuel d2 mid Hv Hp H1 Hsm F1). cbn [dbind fst snd].
          replace (dvals ++ jnorm t v :: jzeros r) with ((dvals ++ [jnorm t v]) ++ jzeros r)
            by (rewrite <- app_assoc; reflexivity).
          replace (dvals ++ jnorm t v :: jnorms r l) with ((dvals ++ [jnorm t v]) ++ jnorms r l)
            by (rewrite <- app_assoc; reflexivity).
          rewrite <- seq_toks_false in H2.
          apply (IH (fapp pre (FCons name o t FNil)) l gs'); try assumption.
          + rewrite fapp_snoc. exact Hall.
          + rewrite app_length, flen_snoc. cbn [length]. clear - Hlen. lia. }
      cbn [seq_toks] in Hi. cbn [dec_struct_loop_f].
      destruct first.
      * rewrite <- app_assoc in Hi. destruct (Common doc (le_n _) Hi) as [C1 C2].
        rewrite C1. cbn [dbind]. exact C2.
      * rewrite <- app_assoc in Hi. cbn [app] in Hi.
        destruct (next_tok 44 [] _ doc rest Hi eq_refl) as [doc' [E [Hi' L]]].
        rewrite E. cbn [app]. rewrite starts_with_miss by discriminate. rewrite starts_with_hit. cbn [dbind].
        assert (Ld : (length doc' <= length doc)%nat) by (clear - L; lia). destruct (Common doc' Ld Hi') as [_ C2]. exact C2.
Qed.

(* ---------------- every type ---------------- *)
Lemma null_case_r t fuel doc rest : inter [tok_null] doc rest ->
  (forall r, D t fuel (jzero t) (tok_null ++ r) = DOk (VNil, r)) ->
  D t fuel (jzero t) (skip_ws doc) = DOk (VNil, rest).
Proof.
  intros Hi H. destruct (inter_single _ _ _ Hi) as [w [Hw E]]. subst doc.
  rewrite skip_ws_wsb by exact Hw. change (tok_null ++ rest) with (110 :: [117; 108; 108] ++ rest).
  rewrite skip_ws_nws by reflexivity. apply (H rest).
Qed.

Lemma dec_all_r : forall t, Pr t.
Proof.
  apply (jty_mut Pr (fall Pr)).
  - (* bool *)
    intros _ v toks fuel doc rest Hwf Hp Hi Hst Hfuel. destruct v; try discriminate.
    cbn [penc] in Hp. subst toks. destruct (inter_single _ _ _ Hi) as [w [Hw E]]. subst doc.
    rewrite skip_ws_wsb by exact Hw. destruct b; reflexivity.
  - (* integers *)
    intros s w Hok v toks fuel doc rest Hwf Hp Hi Hst Hfuel. destruct v; try discriminate.
    cbn [ty_ok] in Hok. cbn [jwf] in Hwf. cbn [penc] in Hp. subst toks.
    destruct (inter_single _ _ _ Hi) as [ww [Hw E]]. subst doc.
    rewrite skip_ws_wsb by exact Hw.
    destruct (z_to_dec_head s w z Hok Hwf) as [c [tkn [E [A [B _]]]]].
    rewrite E. cbn [app]. rewrite skip_ws_nws by exact A. cbn [dec_f]. rewrite nullp_ne by exact B.
    change (c :: tkn ++ rest) with ((c :: tkn) ++ rest). rewrite <- E.
    apply dec_int_ok; assumption.
  - (* strings *)
    intros _ v toks fuel doc rest Hwf Hp Hi Hst Hfuel. destruct v; try discriminate.
    cbn [jwf] in Hwf. cbn [penc] in Hp. subst toks.
    destruct (inter_single _ _ _ Hi) as [ww [Hw E]]. subst doc.
    rewrite skip_ws_wsb by exact Hw.
    assert (Hq : std_escape html s = 34 :: (std_escape_body html 0 s ++ [34])) by reflexivity.
    rewrite Hq at 1. cbn [app]. rewrite skip_ws_nws by reflexivity. cbn [dec_f nullp].
    change (34 :: (std_escape_body html 0 s ++ [34]) ++ rest) with (std_escape html s ++ rest).
    unfold dec_str. rewrite (unquote_escape html s rest Hwf). reflexivity.
  - (* pointers *)
    intros t IH Hok v toks fuel doc rest Hwf Hp Hi Hst Hfuel. cbn [ty_ok] in Hok.
    destruct v; try discriminate.
    + cbn [penc] in Hp. subst toks. cbn [jnorm]. apply null_case_r; [exact Hi|]. intros r. reflexivity.
    + cbn [jwf] in Hwf. cbn [penc] in Hp. cbn [jnorm].
      destruct (jnullish t v) eqn:N.
      * rewrite (penc_nullish t v toks N Hp) in Hi. apply null_case_r; [exact Hi|]. intros r. reflexivity.
      * destruct (penc_head t v toks Hok Hwf Hp) as [c [tkn [toks' [E [A [_ C]]]]]].
        pose proof Hi as Hi0. rewrite E in Hi0.
        destruct (next_tok _ _ _ _ _ Hi0 A) as [d' [Es _]].
        cbn [dec_f jzero]. rewrite Es at 1. rewrite nullp_ne by exact (C N).
        rewrite (IH Hok v toks fuel doc rest Hwf Hp Hi Hst Hfuel). reflexivity.
  - (* slices *)
    intros t IH Hok v toks fuel doc rest Hwf Hp Hi Hst Hfuel. cbn [ty_ok] in Hok.
    apply andb_true_iff in Hok. destruct Hok as [Hok _].
    destruct v; try discriminate.
    + cbn [penc] in Hp. subst toks. cbn [jnorm]. apply null_case_r; [exact Hi|]. intros r. reflexivity.
    + cbn [jwf] in Hwf. cbn [penc] in Hp. destruct Hp as [gs [HF ->]]. cbn [jnorm app] in *.
      destruct (next_tok 91 [] _ doc rest Hi eq_refl) as [d1 [E1 [Hi1 L1]]].
      rewrite E1. cbn [dec_f nullp app]. rewrite starts_with_hit.
      rewrite sep_toks_seq in Hi1.
      assert (F1 : (length d1 < fuel)%nat) by (clear - L1 Hfuel; lia).
      rewrite (slice_loop_ok_r t fuel IH Hok l gs HF true fuel d1 rest Hwf Hi1 Hst F1 F1). reflexivity.
  - (* arrays *)
    intros n t IH Hok v toks fuel doc rest Hwf Hp Hi Hst Hfuel. cbn [ty_ok] in Hok.
    destruct v; try discriminate.
    cbn [jwf] in Hwf. apply andb_true_iff in Hwf. destruct Hwf as [Hn Hwf]. apply Nat.eqb_eq in Hn.
    cbn [penc] in Hp. destruct Hp as [gs [HF ->]]. cbn [jnorm app] in *.
    destruct (next_tok 91 [] _ doc rest Hi eq_refl) as [d1 [E1 [Hi1 L1]]].
    rewrite E1. cbn [dec_f jzero nullp app]. rewrite starts_with_hit.
    rewrite sep_toks_seq in Hi1. rewrite <- Hn.
    assert (F1 : (length d1 < fuel)%nat) by (clear - L1 Hfuel; lia).
    rewrite (arr_loop_ok_r t fuel IH Hok l gs HF true d1 rest Hwf Hi1 Hst F1). reflexivity.
  - (* maps *)
    intros t IH Hok v toks fuel doc rest Hwf Hp Hi Hst Hfuel. cbn [ty_ok] in Hok.
    destruct v; try discriminate.
    + cbn [penc] in Hp. subst toks. cbn [jnorm]. apply null_case_r; [exact Hi|]. intros r. reflexivity.
    + cbn [jwf] in Hwf. apply andb_true_iff in Hwf. destruct Hwf as [Hk Hwf].
      apply andb_true_iff in Hk. destruct Hk as [Hk Hs].
      cbn [penc] in Hp. destruct Hp as [es [gs [Hperm [HF ->]]]].
      rewrite (sort_kv_sorted m Hs) in Hperm. cbn [jnorm app] in *.
      destruct (next_tok 123 [] _ doc rest Hi eq_refl) as [d1 [E1 [Hi1 L1]]].
      rewrite E1. cbn [dec_f jzero nullp app]. rewrite starts_with_hit.
      rewrite sep_toks_seq in Hi1.
      assert (F1 : (length d1 < fuel)%nat) by (clear - L1 Hfuel; lia).
      assert (Hk' : forallb key_ok (map fst es) = true).
      { apply (forallb_perm _ _ (map fst m)); [apply Permutation_map, Hperm|exact Hk]. }
      assert (Hwf' : forallb (fun kv => jwf t (snd kv)) es = true).
      { apply (forallb_perm _ _ m); [exact Hperm|exact Hwf]. }
      rewrite (map_loop_ok_r t fuel IH Hok es gs HF true fuel d1 rest [] Hk' Hwf' Hi1 Hst F1 F1).
      cbn [dbind fst snd]. rewrite (put_perm (jnorm t) es m Hperm Hs). reflexivity.
  - (* structs *)
    intros fs IH Hok v toks fuel doc rest Hwf Hp Hi Hst Hfuel. cbn [ty_ok] in Hok.
    apply andb_true_iff in Hok. destruct Hok as [Hfok Hdis].
    destruct v; try discriminate.
    cbn [jwf] in Hwf. cbn [penc] in Hp. destruct Hp as [gs [Hpm ->]]. cbn [jnorm app] in *.
    destruct (next_tok 123 [] _ doc rest Hi eq_refl) as [d1 [E1 [Hi1 L1]]].
    rewrite E1. cbn [dec_f jzero nullp app]. rewrite starts_with_hit.
    rewrite sep_toks_seq in Hi1.
    assert (F1 : (length d1 < fuel)%nat) by (clear - L1 Hfuel; lia).
    pose proof (struct_loop_ok_r fs fuel Hdis fs FNil l gs [] true fuel d1 rest eq_refl Hfok IH Hwf eq_refl Hpm Hi1 Hst F1 F1) as HS.
    cbn [app] in HS. rewrite HS. reflexivity.
  - exact I.
  - intros name o t IHt r IHr. split; assumption.
Qed.

End Rel.

(* ================================ the statements ================================ *)
Lemma parse_flags_rel_meaning : parse_flags_rel_meaning_statement.
Proof.
  intros nocase strict html ws t v toks fuel Hws Hok Hwf Hp Hfuel.
  destruct (render_inter ws Hws toks 0%nat (ws (0 + length toks)%nat)) as [body [E Hi]].
  rewrite E in *. unfold jdec_f.
  rewrite (dec_all_r nocase strict html t Hok v toks fuel _ _ Hwf Hp Hi (wsb_stops _ (Hws _)) Hfuel).
  rewrite skip_ws_all by apply Hws. reflexivity.
Qed.

Lemma penc_more_general : penc_more_general_statement.
Proof.
  split; [|split].
  - cbn [penc px_t px_v].
    exists [[[123]; [34; 97; 34]; [58]; tok_true; [44]; [34; 98; 34]; [58]; tok_false; [125]];
            [[123]; [34; 98; 34]; [58]; tok_false; [44]; [34; 97; 34]; [58]; tok_true; [125]]].
    split; [|reflexivity].
    constructor; [|constructor; [|constructor]].
    + exists px_m, [[[34; 97; 34]; [58]; tok_true]; [[34; 98; 34]; [58]; tok_false]].
      split; [apply Permutation_refl|]. split; [|reflexivity].
      constructor; [eexists; split; reflexivity|]. constructor; [eexists; split; reflexivity|constructor].
    + exists (rev px_m), [[[34; 98; 34]; [58]; tok_false]; [[34; 97; 34]; [58]; tok_true]].
      split; [apply Permutation_sym, Permutation_rev|]. split; [|reflexivity].
      constructor; [eexists; split; reflexivity|]. constructor; [eexists; split; reflexivity|constructor].
  - intros html ord Hord H. cbn [jtoks_f px_t px_v map] in H. unfold px_toks in H.
    change (sort_kv px_m) with px_m in H.
    pose proof (Permutation_length (Hord px_m)) as L.
    destruct (ord px_m) as [|[k1 v1] [|[k2 v2] [|e3 o]]]; cbn [length px_m] in L; try discriminate L.
    (* both maps are written in the same order: the first key would be a in the first map and b in the second *)
    destruct v1; destruct v2; cbn in H; try discriminate H; injection H; intros; congruence.
  - vm_compute. reflexivity.
Qed.

Print Assumptions parse_flags_rel_meaning.
Print Assumptions penc_of_ord.
Print Assumptions penc_more_general.
