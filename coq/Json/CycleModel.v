(* Model of the cycle detection of the json encoder (json/codec.go encoder.enterCycle / leaveCycle, called from
   json/encode.go encodePointer, encodeSlice, encodeMap, encodeMapStringInterface; interfaces go through
   encoder.appendAny with the SAME encoder value). Definitions only, no proofs.

   A heap graph is a finite map from node ids to nodes: the id of a node is its position in the list. A node is
   what the encoder meets when it descends: a pointer, a non-empty slice, a map (the three TRACKED kinds, identified
   in the code by the address they hold), an interface value or a struct/array (untracked: the encoder passes
   through them with the same encoder value), or a leaf (scalars, nil pointers, nil maps, empty slices, null).

   The encoder value is passed BY VALUE down the recursion, so its ptrDepth field is the number of tracked nodes on
   the current path; its ptrSeen field is a Go map, shared by reference and MUTATED: an entry is added when a tracked
   node is entered at depth >= startDetectingCyclesAfter and deleted (deferred leaveCycle) when the node has been
   encoded, whether that succeeded or not. [enc] threads that set through the traversal exactly so; Json/CycleSpec.v
   has the persistent reformulation and Json/CycleProofs.v proves that both agree.

   [thr] is startDetectingCyclesAfter (1000 in the code); fuel is a budget of RECURSION DEPTH (one unit per nested
   call, siblings share it), so a result other than OutOfFuel with fuel f means: at most f nested calls. *)
From Coq Require Import List Arith Bool.
Import ListNotations.

Inductive kind := KPtr | KSlice | KMap | KIface | KStruct | KLeaf.
Record node := mkNode { nkind : kind; nkids : list nat }.
Definition graph := list node.

Definition tracked (k : kind) : bool :=
  match k with KPtr | KSlice | KMap => true | _ => false end.

Inductive result := Ok | CycleAt (n : nat) | OutOfFuel.

Fixpoint mem (n : nat) (l : list nat) : bool :=
  match l with [] => false | x :: r => (x =? n) || mem n r end.
(* delete(e.ptrSeen, k) *)
Fixpoint del (n : nat) (l : list nat) : list nat :=
  match l with [] => [] | x :: r => if x =? n then del n r else x :: del n r end.

(* the elements of an array, the fields of a struct, the entries of a map: in order, stop at the first error *)
Fixpoint each (F : list nat -> nat -> result * list nat) (l : list nat) (seen : list nat) : result * list nat :=
  match l with
  | [] => (Ok, seen)
  | c :: r => match F seen c with
              | (Ok, s') => each F r s'
              | (e, s') => (e, s')
              end
  end.

Fixpoint enc (fuel : nat) (g : graph) (thr depth : nat) (seen : list nat) (n : nat) {struct fuel} : result * list nat :=
  match fuel with
  | O => (OutOfFuel, seen)
  | S f =>
      match nth_error g n with
      | None => (Ok, seen)
      | Some nd =>
          match nkind nd with
          | KLeaf => (Ok, seen)
          | KIface | KStruct => each (enc f g thr depth) (nkids nd) seen
          | _ =>
              (* enterCycle: e.ptrDepth++; if e.ptrDepth >= startDetectingCyclesAfter ... *)
              if thr <=? S depth then
                if mem n seen then (CycleAt n, seen)
                else let (r, s') := each (enc f g thr (S depth)) (nkids nd) (n :: seen) in
                     (r, del n s')               (* defer e.leaveCycle(k) *)
              else each (enc f g thr (S depth)) (nkids nd) seen
          end
      end
  end.

(* Marshal / Append / Encoder.Encode: a fresh encoder, depth 0, no set *)
Definition encode (fuel : nat) (g : graph) (thr : nat) (root : nat) : result :=
  fst (enc fuel g thr 0 [] root).
