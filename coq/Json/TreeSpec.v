(* C01/C02 structural part: the statements about the value-tree model of Json/TreeModel.v
   (proved in Json/TreeProofs.v and Json/TreeEncProofs.v). Definitions and examples only. *)
From Verif Require Import Base.GoInt Json.Grammar Json.FlagsModel Json.FlagsSpec Json.StrModel Json.StrSpec Json.NumModel Json.NumSpec Json.TreeModel.
Open Scope Z_scope.

(* a white-space oracle: the bytes written before token k; only space, tab, line feed, carriage return *)
Definition ws_ok (ws : nat -> bytes) : Prop := forall k : nat, forallb is_ws (ws k) = true.
Definition no_ws : nat -> bytes := fun _ => [].

(* values on which the round trip is the identity: every string is well-formed UTF-8, no omitempty field holds an
   EMPTY NON-NIL slice or map (which is dropped and comes back nil), no non-nil pointer points to a nil pointer,
   slice or map (which is written as null and comes back as a nil pointer) *)
Definition empty_non_nil (t : jty) (v : jval) : bool :=
  match t, v with
  | JSlice _, VList [] => true
  | JMap _, VMap [] => true
  | _, _ => false
  end.
Fixpoint jstable (t : jty) (v : jval) : bool :=
  match t, v with
  | JStr, VStr s => bytes_eqb (sanitize s) s
  | JPtr t', VPtr v' => negb (jnullish t' v') && jstable t' v'
  | JSlice t', VList l => forallb (jstable t') l
  | JArr _ t', VList l => forallb (jstable t') l
  | JMap t', VMap m => forallb (fun kv => jstable t' (snd kv)) m
  | JStruct fs, VStruct l => jstables fs l
  | _, _ => true
  end
with jstables (fs : jfields) (l : list jval) : bool :=
  match fs, l with
  | FCons _ omit t r, v :: l' => negb (omit && empty_non_nil t v) && jstable t v && jstables r l'
  | _, _ => true
  end.

(* what null does to a target holding cur *)
Fixpoint jnull (t : jty) (cur : jval) : jval :=
  match t with
  | JPtr t' => match cur, t' with VPtr c, JPtr _ => VPtr (jnull t' c) | _, _ => VNil end
  | JSlice _ | JMap _ => VNil
  | _ => cur
  end.

(* ========================================= statements ========================================= *)

(* the round trip, with white space: Unmarshal (Marshal v, with any white space between the tokens) = the
   normalised value, for every type of the universe, every value of the type and every sufficient fuel *)
Definition tree_dec_ws_roundtrip_statement : Prop :=
  forall (ws : nat -> bytes) (t : jty) (v : jval) (fuel : nat),
    ws_ok ws -> ty_ok t = true -> jwf t v = true -> (length (jenc_ws ws t v) < fuel)%nat ->
    jdec fuel t (jenc_ws ws t v) = DOk (jnorm t v).

(* Marshal is the token encoder without white space *)
Definition jenc_no_ws_statement : Prop := forall (t : jty) (v : jval), jenc t v = jenc_ws no_ws t v.

(* the round trip on what Marshal writes *)
Definition tree_roundtrip_statement : Prop :=
  forall (t : jty) (v : jval) (fuel : nat),
    ty_ok t = true -> jwf t v = true -> (length (jenc t v) < fuel)%nat ->
    jdec fuel t (jenc t v) = DOk (jnorm t v).

(* ... and the normalisation is the identity on stable values *)
Definition tree_norm_id_statement : Prop :=
  forall (t : jty) (v : jval), jwf t v = true -> jstable t v = true -> jnorm t v = v.
Definition tree_roundtrip_id_statement : Prop :=
  forall (t : jty) (v : jval),
    ty_ok t = true -> jwf t v = true -> jstable t v = true ->
    jdec (jdec_fuel (jenc t v)) t (jenc t v) = DOk v.

(* inserting white space between the tokens does not change what Unmarshal returns *)
Definition tree_dec_ws_statement : Prop :=
  forall (ws : nat -> bytes) (t : jty) (v : jval),
    ws_ok ws -> ty_ok t = true -> jwf t v = true ->
    jdec (jdec_fuel (jenc_ws ws t v)) t (jenc_ws ws t v) = jdec (jdec_fuel (jenc t v)) t (jenc t v).

(* equal encodings, equal normalised values (on stable values: equal values) *)
Definition tree_enc_injective_statement : Prop :=
  forall (t : jty) (v1 v2 : jval),
    ty_ok t = true -> jwf t v1 = true -> jwf t v2 = true -> jenc t v1 = jenc t v2 -> jnorm t v1 = jnorm t v2.
Definition tree_enc_injective_id_statement : Prop :=
  forall (t : jty) (v1 v2 : jval),
    ty_ok t = true -> jwf t v1 = true -> jwf t v2 = true -> jstable t v1 = true -> jstable t v2 = true ->
    jenc t v1 = jenc t v2 -> v1 = v2.

(* what Marshal writes is a JSON text of the RFC 8259 grammar (Json/Grammar.v, the recogniser C05 ties to the
   translated parser), with any white space between the tokens *)
Definition tree_enc_valid_statement : Prop :=
  forall (t : jty) (v : jval), ty_ok t = true -> jwf t v = true -> g_valid (jenc t v) = true.
Definition tree_enc_ws_valid_statement : Prop :=
  forall (ws : nat -> bytes) (t : jty) (v : jval),
    ws_ok ws -> ty_ok t = true -> jwf t v = true -> g_valid (jenc_ws ws t v) = true.

(* the document null (with white space around) decodes into the zero value of every type ... *)
Definition tree_null_statement : Prop :=
  forall (t : jty) (fuel : nat) (w1 w2 : bytes),
    forallb is_ws w1 = true -> forallb is_ws w2 = true ->
    jdec fuel t (w1 ++ tok_null ++ w2) = DOk (jzero t).
(* ... and inside a document null clears a pointer, slice or map and leaves every other target as it is
   (a non-nil pointer to a pointer hands the null to the inner pointer: decodePointer) *)
Definition tree_null_inner_statement : Prop :=
  forall (t : jty) (fuel : nat) (cur : jval) (rest : bytes),
    dec t fuel cur (tok_null ++ rest) = DOk (jnull t cur, rest).

(* ========================================= examples: the hypotheses are satisfiable ========================================= *)
(* struct { a int8; b []string omitempty; cd **bool omitempty; e map[string][2]uint16; f [0]bool omitempty } *)
Definition ex_t : jty :=
  JStruct (FCons [97] false (JInt true 8)
          (FCons [98] true (JSlice JStr)
          (FCons [99; 100] true (JPtr (JPtr JBool))
          (FCons [101] false (JMap (JArr 2 (JInt false 16)))
          (FCons [102] true (JArr 0 JBool) FNil))))).
Definition ex_v : jval :=
  VStruct [VInt (-5); VList [VStr [60; 104; 105; 34]; VStr []]; VPtr (VPtr (VBool true));
           VMap [([107], VList [VInt 1; VInt 2]); ([107; 49], VList [VInt 3; VInt 65535])]; VList []].
(* an omitted empty non-nil slice: not stable *)
Definition ex_v2 : jval := VStruct [VInt 0; VList []; VNil; VMap []; VList []].
Definition ex_ws (k : nat) : bytes := match Nat.modulo k 3 with O => [32] | 1%nat => [] | _ => [10; 9] end.
(* nested maps and pointers to pointers *)
Definition ex_t3 : jty := JMap (JMap (JPtr (JPtr (JSlice (JInt false 64))))).
Definition ex_v3 : jval :=
  VMap [([], VMap []); ([38], VNil); ([97], VMap [([98], VPtr VNil); ([99], VPtr (VPtr (VList [VInt 18446744073709551615])))])].

Example ex_ok : ty_ok ex_t = true /\ jwf ex_t ex_v = true /\ jstable ex_t ex_v = true.
Proof. vm_compute. auto. Qed.
Example ex_ok2 : jwf ex_t ex_v2 = true /\ jstable ex_t ex_v2 = false.
Proof. vm_compute. auto. Qed.
Example ex_ok3 : ty_ok ex_t3 = true /\ jwf ex_t3 ex_v3 = true /\ jstable ex_t3 ex_v3 = false.
Proof. vm_compute. auto. Qed.
Example ex_ws_ok : ws_ok ex_ws.
Proof. intros k. unfold ex_ws. destruct (Nat.modulo k 3) as [|[|n]]; reflexivity. Qed.
(* the document: a is -5, b the two strings, cd true, e the map of k and k1; f is dropped *)
Example ex_enc : jenc ex_t ex_v =
  [123; 34; 97; 34; 58; 45; 53; 44; 34; 98; 34; 58; 91; 34; 92; 117; 48; 48; 51; 99; 104; 105; 92; 34; 34; 44; 34; 34; 93;
   44; 34; 99; 100; 34; 58; 116; 114; 117; 101; 44; 34; 101; 34; 58; 123; 34; 107; 34; 58; 91; 49; 44; 50; 93; 44;
   34; 107; 49; 34; 58; 91; 51; 44; 54; 53; 53; 51; 53; 93; 125; 125].
Proof. vm_compute. reflexivity. Qed.
Example ex_rt : jdec (jdec_fuel (jenc ex_t ex_v)) ex_t (jenc ex_t ex_v) = DOk ex_v.
Proof. vm_compute. reflexivity. Qed.
Example ex_rt_ws : jdec (jdec_fuel (jenc_ws ex_ws ex_t ex_v)) ex_t (jenc_ws ex_ws ex_t ex_v) = DOk ex_v.
Proof. vm_compute. reflexivity. Qed.
(* only a and e are written; b comes back as a nil slice where the empty slice was *)
Example ex_rt2 : jdec (jdec_fuel (jenc ex_t ex_v2)) ex_t (jenc ex_t ex_v2) = DOk (VStruct [VInt 0; VNil; VNil; VMap []; VList []])
  /\ jnorm ex_t ex_v2 = VStruct [VInt 0; VNil; VNil; VMap []; VList []].
Proof. vm_compute. auto. Qed.
Example ex_rt3 : jdec (jdec_fuel (jenc ex_t3 ex_v3)) ex_t3 (jenc ex_t3 ex_v3) = DOk (jnorm ex_t3 ex_v3)
  /\ jnorm ex_t3 ex_v3 = VMap [([], VMap []); ([38], VNil); ([97], VMap [([98], VNil); ([99], VPtr (VPtr (VList [VInt 18446744073709551615])))])]
  /\ g_valid (jenc ex_t3 ex_v3) = true.
Proof. vm_compute. auto. Qed.
Example ex_valid : g_valid (jenc ex_t ex_v) = true /\ g_valid (jenc_ws ex_ws ex_t ex_v) = true.
Proof. vm_compute. auto. Qed.
(* duplicate key, null, unknown key, surplus array element, short array: a document with the members
   a = 1, zz = [1, {q: null}], a = null, e = {k: [7,8,9], j: [5]} *)
Example ex_doc : jdec 100 ex_t
  [123; 34; 97; 34; 58; 49; 44; 34; 122; 122; 34; 58; 91; 49; 44; 123; 34; 113; 34; 58; 110; 117; 108; 108; 125; 93; 44;
   34; 97; 34; 58; 110; 117; 108; 108; 44; 34; 101; 34; 58; 123; 34; 107; 34; 58; 91; 55; 44; 56; 44; 57; 93; 44;
   34; 106; 34; 58; 91; 53; 93; 125; 125]
  = DOk (VStruct [VInt 1; VNil; VNil; VMap [([106], VList [VInt 5; VInt 0]); ([107], VList [VInt 7; VInt 8])]; VList []]).
Proof. vm_compute. reflexivity. Qed.

(* keys are matched exactly, then up to the case of ASCII letters: the members CD = null, A = 7 select cd and a *)
Example ex_fold : jdec 100 ex_t [123; 34; 67; 68; 34; 58; 110; 117; 108; 108; 44; 34; 65; 34; 58; 55; 125]
  = DOk (VStruct [VInt 7; VNil; VNil; VNil; VList []]).
Proof. vm_compute. reflexivity. Qed.

(* ========================================= link to the translated integer scanners ========================================= *)
(* the integer reader of the tree model against the model of decodeInt8 .. decodeUint64 built on the MACHINE-TRANSLATED
   parseInt / parseUint (Json/NumModel.v decode_int): equal on every signed digit string without a superfluous leading
   zero followed by anything that ends an integer *)
Definition ity_of (signed : bool) (w : Z) : ity := if signed then ISigned w else IUnsigned w.
Definition sres_of (x : dres (jval * bytes)) : sres Z :=
  match x with
  | DOk (VInt v, r) => SOk v r
  | DOk _ => SErr
  | DErr => SErr
  | DOut => SFuel
  end.
Definition tree_dec_int_link_statement : Prop :=
  forall (signed : bool) (w : Z) (fuel : nat) (d : Z) (neg : bool) (ds rest : bytes),
    bits_ok w = true -> all_digits ds = true -> no_leading_zero ds -> stops_integer rest ->
    len (ds ++ rest) + 1 < 2 ^ 62 -> (length ds + length rest + 3 <= fuel)%nat ->
    let b := (if neg then [45] else []) ++ ds ++ rest in
    sres_of (dec_int signed w b) = decode_int (ity_of signed w) fuel d b.
