(* C14 structural part: the statements of Json/TreeFlagsSpec.v, collected. The encoder side is proved in
   Json/TreeFlagsEncProofs.v, the decoder on an encoding in Json/TreeFlagsDecProofs.v; here: Parse without flags is the
   decoder of Json/TreeModel.v, the corollaries, the boundary witnesses. *)
From Coq Require Import Lia ZifyBool ZifyNat Permutation.
From Verif Require Import Base.GoInt Json.Grammar Json.FlagsModel Json.FlagsSpec Json.StrModel Json.StrSpec
  Json.NumModel Json.NumSpec Json.TreeModel Json.TreeSpec Json.TreeProofs Json.TreeFlagsModel Json.TreeFlagsSpec.
From Verif Require Json.TreeFlagsEncProofs Json.TreeFlagsDecProofs Json.TreeFlagsStrictProofs Json.TreeFlagsRelProofs Json.TreeDecSpec Json.TreeDecProofs.
Open Scope Z_scope.

(* ================================ Parse with no flag = Unmarshal ================================ *)
Lemma dbind_ext {A B} (x : dres A) (f g : A -> dres B) : (forall a, f a = g a) -> dbind x f = dbind x g.
Proof. intros H. destruct x; cbn [dbind]; auto. Qed.

Lemma slice_loop_ext d1 d2 : (forall b, d1 b = d2 b) ->
  forall f first b, dec_slice_loop d1 f first b = dec_slice_loop d2 f first b.
Proof.
  intros H. induction f as [|f IH]; intros first b; [reflexivity|]. cbn [dec_slice_loop].
  destruct (starts_with 93 (skip_ws b)); [reflexivity|].
  apply dbind_ext. intros b1. rewrite H. apply dbind_ext. intros vr. rewrite IH. reflexivity.
Qed.

Lemma arr_loop_ext d1 d2 zero gf : (forall c b, d1 c b = d2 c b) ->
  forall curs first b, dec_arr_loop d1 zero gf first curs b = dec_arr_loop d2 zero gf first curs b.
Proof.
  intros H. induction curs as [|c curs IH]; intros first b; [reflexivity|]. cbn [dec_arr_loop]. cbv zeta.
  destruct (starts_with 93 (skip_ws b)); [reflexivity|].
  destruct first.
  - rewrite H. apply dbind_ext. intros vr. rewrite IH. reflexivity.
  - destruct (starts_with 44 (skip_ws b)); [|reflexivity].
    rewrite H. apply dbind_ext. intros vr. rewrite IH. reflexivity.
Qed.

Lemma map_loop_ext d1 d2 : (forall b, d1 b = d2 b) ->
  forall f first m b, dec_map_loop d1 f first m b = dec_map_loop d2 f first m b.
Proof.
  intros H. induction f as [|f IH]; intros first m b; [reflexivity|]. cbn [dec_map_loop].
  destruct (starts_with 125 (skip_ws b)); [reflexivity|].
  apply dbind_ext. intros b1. destruct (uq_lit b1) as [[k r1]|]; [|reflexivity].
  destruct (starts_with 58 (skip_ws r1)); [|reflexivity].
  rewrite H. apply dbind_ext. intros vr. apply IH.
Qed.

Lemma struct_loop_ext df1 df2 names gf : (forall k curs b, df1 k curs b = df2 k curs b) ->
  forall f first curs b,
    dec_struct_loop_f false false df1 names gf f first curs b = dec_struct_loop df2 names gf f first curs b.
Proof.
  intros H. induction f as [|f IH]; intros first curs b; [reflexivity|]. cbn [dec_struct_loop_f dec_struct_loop].
  destruct (starts_with 125 (skip_ws b)); [reflexivity|].
  apply dbind_ext. intros b1. destruct (uq_lit b1) as [[k r1]|]; [|reflexivity].
  destruct (starts_with 58 (skip_ws r1)) as [r2|]; [|reflexivity].
  unfold resolve_key_f. destruct (resolve_key names k) as [k'|]; [|reflexivity].
  rewrite H. apply dbind_ext. intros o. destruct o as [[curs' r3]|]; [apply IH|].
  destruct (g_value gf (skip_ws r2)); [apply IH|reflexivity].
Qed.

Lemma parse_default_inner : parse_default_inner_statement.
Proof.
  unfold parse_default_inner_statement.
  apply (jty_mut (fun t => forall fuel cur b, dec_f false false t fuel cur b = dec t fuel cur b)
                 (fun fs => forall fuel k curs b, dec_field_f false false fs fuel k curs b = dec_field fs fuel k curs b)).
  - reflexivity.
  - reflexivity.
  - reflexivity.
  - intros t IH fuel cur b. cbn [dec_f dec]. destruct (nullp b).
    + destruct cur; try reflexivity. destruct t; try reflexivity. rewrite IH. reflexivity.
    + rewrite IH. reflexivity.
  - intros t IH fuel cur b. cbn [dec_f dec]. destruct (nullp b); [reflexivity|].
    destruct (starts_with 91 b); [|reflexivity].
    rewrite (slice_loop_ext _ _ (IH fuel (jzero t))). reflexivity.
  - intros n t IH fuel cur b. cbn [dec_f dec]. destruct (nullp b); [reflexivity|].
    destruct (starts_with 91 b); [|reflexivity]. cbv zeta.
    rewrite (arr_loop_ext _ _ (jzero t) fuel (IH fuel)). reflexivity.
  - intros t IH fuel cur b. cbn [dec_f dec]. destruct (nullp b); [reflexivity|].
    destruct (starts_with 123 b); [|reflexivity]. cbv zeta.
    rewrite (map_loop_ext _ _ (IH fuel (jzero t))). reflexivity.
  - intros fs IH fuel cur b. cbn [dec_f dec]. destruct (nullp b); [reflexivity|].
    destruct (starts_with 123 b); [|reflexivity]. cbv zeta.
    rewrite (struct_loop_ext _ _ (jnames fs) fuel (IH fuel)). reflexivity.
  - reflexivity.
  - intros name o t IHt r IHr fuel k curs b. destruct curs as [|c curs]; [reflexivity|].
    cbn [dec_field_f dec_field]. destruct (bytes_eqb k name).
    + rewrite IHt. reflexivity.
    + rewrite IHr. reflexivity.
Qed.

Lemma parse_default : parse_default_statement.
Proof. intros fuel t b. unfold jdec_f, jdec. rewrite parse_default_inner. reflexivity. Qed.

(* ================================ the encoder statements ================================ *)
Lemma flags_default_toks : flags_default_toks_statement.
Proof. exact TreeFlagsEncProofs.flags_default_toks. Qed.
Lemma flags_default : flags_default_statement.
Proof. exact TreeFlagsEncProofs.flags_default. Qed.
Lemma key_fragment : key_fragment_statement.
Proof. exact TreeFlagsEncProofs.key_fragment. Qed.
Lemma ord_examples : ord_examples_statement.
Proof. exact TreeFlagsEncProofs.ord_examples. Qed.
Lemma append_flags_valid : append_flags_valid_statement.
Proof. exact TreeFlagsEncProofs.append_flags_valid. Qed.
Lemma escape_html_string : escape_html_string_statement.
Proof. exact TreeFlagsEncProofs.escape_html_string. Qed.
Lemma escape_html_only_strings : escape_html_only_strings_statement.
Proof. intros ord t v Hord T W. apply TreeFlagsEncProofs.escape_html_only_strings_all; assumption. Qed.
Lemma unsorted_is_permutation : unsorted_is_permutation_statement.
Proof. exact TreeFlagsEncProofs.unsorted_is_permutation. Qed.
Lemma unsorted_small_maps : unsorted_small_maps_statement.
Proof. exact TreeFlagsEncProofs.unsorted_small_maps. Qed.
Lemma no_html_same_bytes : no_html_same_bytes_statement.
Proof. exact TreeFlagsEncProofs.no_html_same_bytes. Qed.

(* ================================ the decoder on an encoding ================================ *)
Lemma parse_flags_ws_meaning : parse_flags_ws_meaning_statement.
Proof. exact TreeFlagsDecProofs.parse_flags_ws_meaning. Qed.

Lemma parse_flags_meaning : parse_flags_meaning_statement.
Proof.
  intros nocase strict html ord t v fuel Hord T W L. unfold jenc_f in *.
  rewrite <- (render_no_ws (jtoks_f html ord t v) 0%nat) in *.
  apply parse_flags_ws_meaning; try assumption. apply ws_ok_no_ws.
Qed.

Lemma append_flags_meaning : append_flags_meaning_statement.
Proof.
  intros html ord t v fuel Hord T W L. rewrite <- parse_default. apply parse_flags_meaning; assumption.
Qed.

Lemma append_flags_same_value : append_flags_same_value_statement.
Proof.
  intros html ord t v Hord T W.
  rewrite (append_flags_meaning html ord t v _ Hord T W) by (unfold jdec_fuel; lia).
  rewrite (tree_roundtrip t v _ T W) by (unfold jdec_fuel; lia). reflexivity.
Qed.

(* ================================ every map occurrence in an order of its own ================================ *)
Lemma penc_of_ord : penc_of_ord_statement.
Proof. exact TreeFlagsRelProofs.penc_of_ord. Qed.
Lemma parse_flags_rel_meaning : parse_flags_rel_meaning_statement.
Proof. exact TreeFlagsRelProofs.parse_flags_rel_meaning. Qed.
Lemma append_rel_meaning : append_rel_meaning_statement.
Proof.
  intros html ws t v toks fuel Hws T W Hp L.
  assert (E : jdec fuel t (render ws 0%nat toks) = DOk (jnorm t v)).
  { rewrite <- parse_default. apply (parse_flags_rel_meaning false false html ws t v toks fuel); assumption. }
  split; [exact E|]. apply (TreeDecProofs.tree_dec_valid fuel t _ _ E).
Qed.
Lemma penc_more_general : penc_more_general_statement.
Proof. exact TreeFlagsRelProofs.penc_more_general. Qed.

(* ================================ every document ================================ *)
Lemma strict_success_stable_inner : strict_success_stable_inner_statement.
Proof. exact TreeFlagsStrictProofs.strict_success_stable_inner. Qed.
Lemma strict_success_stable : strict_success_stable_statement.
Proof. exact TreeFlagsStrictProofs.strict_success_stable. Qed.
Lemma strict_only_rejects : strict_only_rejects_statement.
Proof. exact TreeFlagsStrictProofs.strict_only_rejects. Qed.
Lemma exact_strict_universal : exact_strict_universal_statement.
Proof.
  intros nocase strict fuel t b v H. split.
  - apply TreeFlagsStrictProofs.exact_strict_universal_half, H.
  - rewrite <- parse_default. apply TreeFlagsStrictProofs.exact_strict_universal_half, H.
Qed.
Lemma strict_success_not_stable : strict_success_not_stable_statement.
Proof. exact TreeFlagsStrictProofs.strict_success_not_stable. Qed.

(* ================================ boundary witnesses ================================ *)
Lemma nocase_changes_foreign_documents : nocase_changes_foreign_documents_statement.
Proof. vm_compute. repeat split. Qed.
Lemma strict_changes_foreign_documents : strict_changes_foreign_documents_statement.
Proof. vm_compute. repeat split. Qed.
Lemma parse_flags_all_documents_refuted : parse_flags_all_documents_refuted_statement.
Proof.
  intros H. specialize (H true false 100%nat bx_t bx_case_doc eq_refl). vm_compute in H. discriminate H.
Qed.
Lemma append_flags_bytes_refuted : append_flags_bytes_refuted_statement.
Proof.
  intros H. specialize (H false sorted_ord JStr (VStr [60]) (proj1 ord_examples) eq_refl eq_refl).
  vm_compute in H. discriminate H.
Qed.

Print Assumptions exact_strict_universal.
Print Assumptions append_rel_meaning.
Print Assumptions parse_default.
Print Assumptions parse_flags_meaning.
Print Assumptions append_flags_meaning.
Print Assumptions append_flags_same_value.
Print Assumptions parse_flags_all_documents_refuted.
Print Assumptions append_flags_bytes_refuted.
