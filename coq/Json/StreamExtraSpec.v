(* C11, the three clauses about positions: InputOffset after each Decode, Decoder.Buffered, the remainder of Parse.
   Definitions and statements only; proofs in Json/StreamExtraProofs.v. The Decoder model is Json/StreamModel.v
   (read_value, decode_all); positions are defined from the grammar-level framing of Json/StateSpec.v (frame, g_value). *)
From Verif Require Import Base.GoInt Generated.AsmAsciiGen Ascii.AsmTotal Generated.AsciiGen Json.Ext Generated.JsonParseGen Json.Grammar Json.StreamModel Json.StateSpec.
Open Scope Z_scope.

(* ================= positions of the values of a stream, from the grammar ================= *)
(* the rest of the stream after each value: the same recursion as StateSpec.frame, keeping what g_value leaves *)
Fixpoint frame_rests (fuel : nat) (b : bytes) : list bytes :=
  match fuel with
  | O => []
  | S f =>
      match skip_ws b with
      | [] => []
      | b' => match g_value (S (length b')) b' with
              | None => []
              | Some r => r :: frame_rests f r
              end
      end
  end.
(* frame's values are the bytes between consecutive rests (after the white space) *)
Fixpoint values_between (prev : bytes) (rests : list bytes) : list bytes :=
  match rests with
  | [] => []
  | r :: rs => consumed (skip_ws prev) r :: values_between r rs
  end.
Definition frame_rests_values_statement : Prop :=
  forall fuel b, fst (frame fuel b) = values_between b (frame_rests fuel b).

(* a rest r is a suffix of the data: the value before it ends at offset len data - len r (e_k), the next value (or the
   end of the data) starts after the white-space run, at offset len data - len (skip_ws r) (s_k+1) *)
Definition value_end (data r : bytes) : Z := len data - len r.
Definition next_start (data r : bytes) : Z := len data - len (skip_ws r).
(* sanity of these positions: every rest really is the suffix of the data at value_end, the white-space run lies
   between value_end and next_start *)
Definition frame_rests_positions_statement : Prop :=
  forall data r, wfb data = true -> len data < 2 ^ 62 -> In r (frame_rests (S (length data)) data) ->
    r = slice_from data (value_end data r) /\ skip_ws r = slice_from data (next_start data r) /\
    0 <= value_end data r <= next_start data r /\ next_start data r <= len data /\
    forallb is_ws (slice data (value_end data r) (next_start data r)) = true.

(* ================= (1) InputOffset after each successful Decode ================= *)
Fixpoint offsets_in_range (data : bytes) (offs : list Z) (rests : list bytes) : bool :=
  match offs, rests with
  | [], _ => true
  | o :: os, r :: rs => (value_end data r <=? o) && (o <=? next_start data r) && offsets_in_range data os rs
  | _ :: _, [] => false
  end.
(* every clean script (any chunking, zero-length reads), either terminal condition: one offset per value returned, and
   the k-th offset lies between the end of the k-th value and the start of the next one *)
Definition offset_range_statement : Prop :=
  forall s term, wfb (script_data s) = true -> len (script_data s) < 2 ^ 30 -> script_clean s ->
    let data := script_data s in
    let '(vals, _, offs) := all_values s term in
    length offs = length vals /\
    offsets_in_range data offs (frame_rests (S (length data)) data) = true.

(* ================= (2) Buffered ================= *)
(* the decoder states after each successful readValue: decode_all with the states kept *)
Fixpoint decode_states (steps : nat) (fuel pfuel : nat) (st : dstate) (acc : list dstate) : list dstate :=
  match steps with
  | O => rev acc
  | S k =>
      match read_value fuel pfuel 0 0 st with
      | (DValue v, st') => decode_states k fuel pfuel st' (st' :: acc)
      | (_, _) => rev acc
      end
  end.
Definition all_states (s : script) (term : rerr) : list dstate :=
  let n := length (script_data s) in
  decode_states (n + 2) (n + length s + 40) (2 * n + 8) (d_init s term) [].
(* the states are those decode_all goes through: their offsets are the offsets it reports *)
Definition all_states_offsets_statement : Prop :=
  forall s term, map d_offset (all_states s term) = snd (all_values s term).

(* Decoder.Buffered returns a reader over dec.remain; the reader still holds the data of the rest of the script *)
Definition buffered (st : dstate) : bytes := d_remain st.
Definition undelivered (st : dstate) : bytes := script_data (d_reader st).
(* after each successful Decode: Buffered followed by what the reader has not delivered is exactly the input from
   InputOffset on (and InputOffset is in the range of statement (1): the unconsumed input up to leading white space) *)
Definition buffered_statement : Prop :=
  forall s term, wfb (script_data s) = true -> len (script_data s) < 2 ^ 30 -> script_clean s ->
    Forall (fun st => 0 <= d_offset st <= len (script_data s) /\
                      buffered st ++ undelivered st = slice_from (script_data s) (d_offset st))
           (all_states s term).
(* and up to white space it is the rest of the data after the value just returned *)
Fixpoint buffered_after_rests (sts : list dstate) (rests : list bytes) : Prop :=
  match sts, rests with
  | [], _ => True
  | st :: ss, r :: rs => skip_ws (buffered st ++ undelivered st) = skip_ws r /\
                         (exists w, r = w ++ buffered st ++ undelivered st /\ forallb is_ws w = true) /\
                         buffered_after_rests ss rs
  | _ :: _, [] => False
  end.
Definition buffered_rest_statement : Prop :=
  forall s term, wfb (script_data s) = true -> len (script_data s) < 2 ^ 30 -> script_clean s ->
    buffered_after_rests (all_states s term) (frame_rests (S (length (script_data s))) (script_data s)).

(* ================= (3) the remainder returned by Parse ================= *)
(* json.Parse (json/json.go), the framing only: the flags of the whole input are or-ed to the caller's, leading white
   space is skipped, one value is parsed, trailing white space is skipped, the rest is returned with the error.
   This is literally the branch taken for a target that is not a non-nil pointer; with a valid target the value is
   consumed by the codec of the target type instead of parseValue (what that decodes is the subject of other
   properties), the white-space framing around it is the same. *)
Definition parse_frame (pfuel : nat) (flags : Z) (b : bytes) : option (bytes * option json_err) :=
  match json_internalParseFlags pfuel b with
  | None => None
  | Some d0 =>
      let d := or32 flags d0 in
      let b1 := json_skipSpaces b in
      match json_decoder_parseValue pfuel d b1 with
      | None => None
      | Some (_, r, _, err) => Some (json_skipSpaces r, err)
      end
  end.
(* the caller's flags must not claim the two internal whole-input facts *)
Definition user_flags (flags : Z) : Prop :=
  json_ParseFlags_has flags json_noBackslash = false /\ json_ParseFlags_has flags json_validAsciiPrint = false.
(* a grammatical first value: the remainder is exactly what follows the value and its trailing white space, no error;
   otherwise an error is returned *)
Definition parse_remainder_statement : Prop :=
  forall b flags pfuel, wfb b = true -> len b < 2 ^ 62 -> (2 * length b + 8 <= pfuel)%nat -> user_flags flags ->
    match g_value (S (length (skip_ws b))) (skip_ws b) with
    | Some r => parse_frame pfuel flags b = Some (skip_ws r, None) /\
                exists ws v ws', b = ws ++ v ++ ws' ++ skip_ws r /\ v <> [] /\ r = ws' ++ skip_ws r /\
                  forallb is_ws ws = true /\ forallb is_ws ws' = true
    | None => exists rest e, parse_frame pfuel flags b = Some (rest, Some e)
    end.
(* hence Unmarshal (which reports a syntax error when the remainder is not empty) accepts exactly g_valid *)
Definition parse_unmarshal_statement : Prop :=
  forall b flags pfuel, wfb b = true -> len b < 2 ^ 62 -> (2 * length b + 8 <= pfuel)%nat -> user_flags flags ->
    (g_valid b = true <-> parse_frame pfuel flags b = Some ([], None)).
