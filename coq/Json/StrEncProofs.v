(* C01 string core: the translated encoder.encodeString (Generated/JsonStringGen.v) writes the standard escaping
   of Json/StrSpec.v, for every string and every flags word; the fast path of escapeIndex. *)
From Coq Require Import Lia ZArith List Bool.
From Verif Require Import Base.GoInt Base.Lanes Base.LanesProofs Json.Ext Generated.JsonParseGen Json.Grammar Json.Spec
  Json.StrExt Generated.JsonStringGen Json.StrModel Json.StrSpec Json.ValidProofs Json.StrUtf8Proofs.
Import ListNotations.
Open Scope Z_scope.

(* ================= the loop of encodeString, named ================= *)
Definition hexl : bytes := [48; 49; 50; 51; 52; 53; 54; 55; 56; 57; 97; 98; 99; 100; 101; 102].
Definition fastb (escapeHTML : bool) (c : Z) : bool :=
  (((((c >=? 32) && (c <=? 127)) && (negb (c =? 92))) && (negb (c =? 34))) && ((negb escapeHTML) || (((negb (c =? 60)) && (negb (c =? 62))) && (negb (c =? 38))))).
Definition sw1 (c : Z) : bool := ((c =? 92) || (c =? 34) || (c =? 8) || (c =? 12) || (c =? 10) || (c =? 13) || (c =? 9)).
Definition sw2 (c : Z) : bool := ((c =? 60) || (c =? 62) || (c =? 38)).

Definition enc_loop (s : bytes) (escapeHTML : bool) : nat -> bytes -> Z -> Z -> option (bytes * option json_err) :=
      (fix loop2_ (f3_ : nat) (b : bytes) (i : Z) (j : Z) {struct f3_} : (option (bytes * (option json_err))) :=
        match f3_ with
        | O => None
        | S f4_ =>
          if (j <? (len s)) then
            (let c := at_ s j in
          if (((((c >=? 32) && (c <=? 127)) && (negb (c =? 92))) && (negb (c =? 34))) && ((negb escapeHTML) || (((negb (c =? 60)) && (negb (c =? 62))) && (negb (c =? 38))))) then
            (let j := addi64 j 1 in
            loop2_ f4_ b i j)
          else
            (let k7_ := fun (b : bytes) (i : Z) (j : Z) =>
              if (c <? 32) then
                (let b := (b ++ (slice s i j)) in
                let b := (b ++ [92; 117; 48; 48]) in
                let b := (b ++ [at_ [48; 49; 50; 51; 52; 53; 54; 55; 56; 57; 97; 98; 99; 100; 101; 102] (shr8 c 4); at_ [48; 49; 50; 51; 52; 53; 54; 55; 56; 57; 97; 98; 99; 100; 101; 102] (and8 c 15)]) in
                let i := addi64 j 1 in
                let j := addi64 j 1 in
                loop2_ f4_ b i j)
              else
                (let '(r, size) := utf8_decode_rune (slice_from s j) in
                if ((r =? 65533) && (size =? 1)) then
                  (let b := (b ++ (slice s i j)) in
                  let b := (b ++ [92; 117; 102; 102; 102; 100]) in
                  let i := addi64 j size in
                  let j := addi64 j size in
                  loop2_ f4_ b i j)
                else
                  (let k5_ := fun (b : bytes) (i : Z) (j : Z) =>
                    let j := addi64 j size in
                    loop2_ f4_ b i j in
                  let tag6_ := r in
                  if ((tag6_ =? 8232) || (tag6_ =? 8233)) then
                    (let b := (b ++ (slice s i j)) in
                    let b := (b ++ [92; 117; 50; 48; 50]) in
                    let b := (b ++ [at_ [48; 49; 50; 51; 52; 53; 54; 55; 56; 57; 97; 98; 99; 100; 101; 102] (andi32 r 15)]) in
                    let i := addi64 j size in
                    let j := addi64 j size in
                    loop2_ f4_ b i j)
                  else (k5_ b i j))) in
            let tag8_ := c in
            if ((tag8_ =? 92) || (tag8_ =? 34) || (tag8_ =? 8) || (tag8_ =? 12) || (tag8_ =? 10) || (tag8_ =? 13) || (tag8_ =? 9)) then
              (let b := (b ++ (slice s i j)) in
              let b := (b ++ [92; json_escapeByteRepr c]) in
              let i := addi64 j 1 in
              let j := addi64 j 1 in
              loop2_ f4_ b i j)
            else if ((tag8_ =? 60) || (tag8_ =? 62) || (tag8_ =? 38)) then
              (let b := (b ++ (slice s i j)) in
              let b := (b ++ [92; 117; 48; 48]) in
              let b := (b ++ [at_ [48; 49; 50; 51; 52; 53; 54; 55; 56; 57; 97; 98; 99; 100; 101; 102] (shr8 c 4); at_ [48; 49; 50; 51; 52; 53; 54; 55; 56; 57; 97; 98; 99; 100; 101; 102] (and8 c 15)]) in
              let i := addi64 j 1 in
              let j := addi64 j 1 in
              loop2_ f4_ b i j)
            else (k7_ b i j)))
          else Some ((((b ++ (slice_from s i)) ++ [34]), None))
        end).

Lemma encodeString_eq fuel e b s : json_encoder_encodeString fuel e b s =
  if len s =? 0 then Some (b ++ [34; 34], None)
  else
    if len s >=? 8 then
      (if escape_index_tot s (flags_html e) <? 0 then Some (((b ++ [34]) ++ s) ++ [34], None)
       else enc_loop s (flags_html e) fuel (b ++ [34]) 0 (escape_index_tot s (flags_html e)))
    else enc_loop s (flags_html e) fuel (b ++ [34]) 0 0.
Proof. reflexivity. Qed.

Lemma enc_loop_O s html b i j : enc_loop s html O b i j = None.
Proof. reflexivity. Qed.

Lemma enc_loop_S s html f b i j : enc_loop s html (S f) b i j =
  if j <? len s then
    let c := at_ s j in
    if fastb html c then enc_loop s html f b i (addi64 j 1)
    else if sw1 c then
      enc_loop s html f ((b ++ slice s i j) ++ [92; json_escapeByteRepr c]) (addi64 j 1) (addi64 j 1)
    else if sw2 c then
      enc_loop s html f (((b ++ slice s i j) ++ [92; 117; 48; 48]) ++ [at_ hexl (shr8 c 4); at_ hexl (and8 c 15)])
        (addi64 j 1) (addi64 j 1)
    else if c <? 32 then
      enc_loop s html f (((b ++ slice s i j) ++ [92; 117; 48; 48]) ++ [at_ hexl (shr8 c 4); at_ hexl (and8 c 15)])
        (addi64 j 1) (addi64 j 1)
    else
      let '(r, size) := utf8_decode_rune (slice_from s j) in
      if (r =? 65533) && (size =? 1) then
        enc_loop s html f ((b ++ slice s i j) ++ [92; 117; 102; 102; 102; 100]) (addi64 j size) (addi64 j size)
      else if (r =? 8232) || (r =? 8233) then
        enc_loop s html f (((b ++ slice s i j) ++ [92; 117; 50; 48; 50]) ++ [at_ hexl (andi32 r 15)])
          (addi64 j size) (addi64 j size)
      else enc_loop s html f b i (addi64 j size)
  else Some ((b ++ slice_from s i) ++ [34], None).
Proof. reflexivity. Qed.

(* ================= small facts on slices ================= *)
Lemma at_app_len' p c r : at_ (p ++ c :: r) (len p) = c.
Proof. rewrite at_hd by apply len_nonneg. rewrite sf_app. reflexivity. Qed.
Lemma sf_app_le {A} (p r : list A) i : 0 <= i <= len p -> slice_from (p ++ r) i = slice_from p i ++ r.
Proof.
  unfold slice_from, len. intros H. rewrite skipn_app.
  replace (Z.to_nat i - length p)%nat with 0%nat by lia. reflexivity.
Qed.
Lemma slice_pre (p r : bytes) i : 0 <= i <= len p -> slice (p ++ r) i (len p) = slice_from p i.
Proof.
  intros H. unfold slice. change (skipn (Z.to_nat i) (p ++ r)) with (slice_from (p ++ r) i).
  rewrite sf_app_le by assumption.
  assert (L : length (slice_from p i) = Z.to_nat (len p - i)).
  { unfold slice_from, len. rewrite skipn_length. unfold len in H. lia. }
  rewrite <- L. rewrite firstn_app, firstn_all, Nat.sub_diag. cbn [firstn]. apply app_nil_r.
Qed.
Lemma wfb_app_r a b : wfb (a ++ b) = true -> wfb b = true.
Proof. unfold wfb. rewrite forallb_app. intros H. apply andb_true_iff in H. tauto. Qed.
Lemma st_len (s : bytes) j : 0 <= j <= len s -> len (slice_to s j) = j.
Proof. unfold slice_to, len. intros H. rewrite firstn_length. lia. Qed.

(* ================= bytes that need no escape ================= *)
Definition plainb (html : bool) (c : Z) : bool := negb (needs_escape_json html c).

Lemma plain_safe html c : needs_escape_json html c = false -> c < 128 /\ std_safe html c = true.
Proof.
  unfold needs_escape_json, std_safe. intros H.
  apply orb_false_iff in H. destruct H as [H H5]. apply orb_false_iff in H. destruct H as [H H4].
  apply orb_false_iff in H. destruct H as [H H3]. apply orb_false_iff in H. destruct H as [H1 H2].
  rewrite H3, H4, H5. apply Z.ltb_ge in H1, H2. split; [lia|].
  destruct (Z.leb_spec 32 c); [reflexivity|lia].
Qed.

Lemma plain_escape html (p : bytes) : forall r, forallb (plainb html) p = true ->
  std_escape_body html 0 (p ++ r) = p ++ std_escape_body html 0 r.
Proof.
  induction p as [|c p IH]; intros r H; [reflexivity|]. cbn [forallb] in H. apply andb_true_iff in H.
  destruct H as [H1 H2]. unfold plainb in H1. apply negb_true_iff in H1. destruct (plain_safe _ _ H1) as [A B].
  cbn [app]. rewrite escape_ascii by assumption. rewrite B. cbn [app]. f_equal. apply IH. exact H2.
Qed.
Lemma plain_escape_all html (s : bytes) : forallb (plainb html) s = true -> std_escape_body html 0 s = s.
Proof.
  intros H. rewrite <- (app_nil_r s) at 1. rewrite plain_escape by assumption. cbn [std_escape_body]. apply app_nil_r.
Qed.

(* what escapeIndex tells encodeString *)
Lemma escape_index_cases s html : wfb s = true -> len s < 2 ^ 62 ->
  (escape_index_tot s html = -1 /\ forallb (plainb html) s = true) \/
  (0 <= escape_index_tot s html <= len s /\ forallb (plainb html) (slice_to s (escape_index_tot s html)) = true).
Proof.
  intros Hw Hl. unfold escape_index_tot.
  destruct (escape_index_exact s html (length s + 2) Hw Hl (le_n _)) as (r & Er & H). rewrite Er. clear Er.
  cbv zeta in H. rewrite first_index_find in H. destruct H as [H1 H2].
  pose proof (find_index_le (needs_escape_json html) s) as LE.
  destruct (Nat.ltb_spec (find_index (needs_escape_json html) s) (length s)) as [A|A].
  - right. destruct H2 as [H2 _]; [lia|]. split; [unfold len; lia|].
    unfold slice_to, plainb. apply find_index_ge_firstn. lia.
  - left. split; [apply H1; reflexivity|]. unfold plainb. apply find_index_none. lia.
Qed.

Lemma escape_fast_path : escape_fast_path_statement.
Proof.
  intros html s Hw Hl E. destruct (escape_index_cases s html Hw Hl) as [[_ P]|[R _]]; [|lia].
  split; [exact P|]. unfold std_escape. rewrite plain_escape_all by exact P. reflexivity.
Qed.

(* ================= one ASCII byte: enumeration of the 128 values ================= *)
Fixpoint beqb (a b : bytes) : bool :=
  match a, b with
  | [], [] => true
  | x :: a', y :: b' => (x =? y) && beqb a' b'
  | _, _ => false
  end.
Lemma beqb_eq a : forall b, beqb a b = true -> a = b.
Proof.
  induction a as [|x a IH]; intros [|y b] H; try discriminate H; [reflexivity|].
  cbn [beqb] in H. apply andb_true_iff in H. destruct H as [H1 H2]. apply Z.eqb_eq in H1. subst y.
  f_equal. apply IH. exact H2.
Qed.
Definition ascii_range : list Z := map Z.of_nat (seq 0 128).
Lemma ascii_enum (P : Z -> bool) : forallb P ascii_range = true -> forall c, 0 <= c < 128 -> P c = true.
Proof.
  intros H c Hc. rewrite forallb_forall in H. apply H. unfold ascii_range.
  replace c with (Z.of_nat (Z.to_nat c)) by lia. apply in_map. apply in_seq. lia.
Qed.

Lemma esc_short c : 0 <= c < 128 -> sw1 c = true -> [92; json_escapeByteRepr c] = std_escape_ascii c.
Proof.
  intros Hc H. apply beqb_eq.
  assert (E : forallb (fun c => implb (sw1 c) (beqb [92; json_escapeByteRepr c] (std_escape_ascii c))) ascii_range = true)
    by (vm_compute; reflexivity).
  pose proof (ascii_enum _ E c Hc) as X. cbv beta in X. rewrite H in X. exact X.
Qed.
Lemma esc_hex c : 0 <= c < 128 -> sw1 c = false ->
  [92; 117; 48; 48; at_ hexl (shr8 c 4); at_ hexl (and8 c 15)] = std_escape_ascii c.
Proof.
  intros Hc H. apply beqb_eq.
  assert (E : forallb (fun c => sw1 c || beqb [92; 117; 48; 48; at_ hexl (shr8 c 4); at_ hexl (and8 c 15)] (std_escape_ascii c))
                ascii_range = true) by (vm_compute; reflexivity).
  pose proof (ascii_enum _ E c Hc) as X. cbv beta in X. rewrite H in X. exact X.
Qed.

Lemma fast_safe html c : c < 128 -> fastb html c = std_safe html c.
Proof.
  intros A. unfold fastb, std_safe. rewrite Z.geb_leb. destruct (Z.leb_spec c 127); [|lia].
  destruct (32 <=? c), (c =? 92), (c =? 34), html, (c =? 60), (c =? 62), (c =? 38); reflexivity.
Qed.
Lemma unsafe_ascii_ctl html c : 0 <= c < 128 -> fastb html c = false -> sw1 c = false -> sw2 c = false -> c <? 32 = true.
Proof.
  intros Hc F S1 S2. destruct (Z.ltb_spec c 32) as [|G]; [reflexivity|]. exfalso.
  assert (E : forallb (fun c => (c <? 32) || fastb true c || sw1 c || sw2 c) ascii_range = true) by (vm_compute; reflexivity).
  pose proof (ascii_enum _ E c Hc) as X. cbv beta in X. rewrite S1, S2 in X.
  destruct (Z.ltb_spec c 32); [lia|]. cbn [orb] in X. rewrite !orb_false_r in X.
  unfold fastb in F, X. rewrite andb_false_iff in F. destruct F as [F|F]; [|].
  - apply andb_true_iff in X. destruct X as [X _]. congruence.
  - unfold sw2 in S2. destruct (c =? 60), (c =? 62), (c =? 38); try discriminate S2. destruct html; discriminate F.
Qed.
Lemma hi_tests html c : 128 <= c -> fastb html c = false /\ sw1 c = false /\ sw2 c = false /\ c <? 32 = false.
Proof.
  intros H. unfold fastb, sw1, sw2. destruct (Z.leb_spec c 127); [lia|]. rewrite andb_false_r. cbn [andb].
  destruct (Z.eqb_spec c 92); [lia|]. destruct (Z.eqb_spec c 34); [lia|]. destruct (Z.eqb_spec c 8); [lia|].
  destruct (Z.eqb_spec c 12); [lia|]. destruct (Z.eqb_spec c 10); [lia|]. destruct (Z.eqb_spec c 13); [lia|].
  destruct (Z.eqb_spec c 9); [lia|]. destruct (Z.eqb_spec c 60); [lia|]. destruct (Z.eqb_spec c 62); [lia|].
  destruct (Z.eqb_spec c 38); [lia|]. destruct (Z.ltb_spec c 32); [lia|]. auto.
Qed.

(* ================= the loop invariant ================= *)
Lemma esc_seq_lsps w rune : utf8_encode_rune rune = w -> 128 <= rune -> (rune =? 8232) || (rune =? 8233) = true ->
  esc_seq w = [92; 117; 50; 48; 50] ++ [at_ hexl (andi32 rune 15)].
Proof.
  intros EN RN H. apply orb_true_iff in H. destruct H as [H|H]; apply Z.eqb_eq in H; subst rune;
    vm_compute in EN; subst w; reflexivity.
Qed.
Lemma esc_seq_other w rune : utf8_encode_rune rune = w -> 128 <= rune -> (rune =? 8232) || (rune =? 8233) = false ->
  esc_seq w = w.
Proof.
  intros EN RN H. pose proof (ls_ps_bytes w rune EN RN) as LS. rewrite H in LS.
  unfold esc_seq. destruct w as [|a [|y [|x [|z w']]]]; try reflexivity.
  destruct ((y =? 128) && ((a =? 226) && ((x =? 168) || (x =? 169)))) eqn:C; [|reflexivity]. exfalso.
  apply andb_true_iff in C. destruct C as [C0 C]. apply andb_true_iff in C. destruct C as [C1 C2].
  apply Z.eqb_eq in C0, C1. subst y a. apply orb_true_iff in C2. rewrite !Z.eqb_eq in C2.
  assert (F : false = true); [|discriminate F]. apply LS. exists x. auto.
Qed.

Section Loop.
Variables (s : bytes) (html : bool).
Hypothesis Hl : len s < 2 ^ 62.

Lemma enc_loop_inv : forall suffix, wfb suffix = true -> forall pre b i f,
  s = pre ++ suffix -> 0 <= i <= len pre -> (length suffix < f)%nat ->
  enc_loop s html f b i (len pre) = Some (b ++ slice_from pre i ++ std_escape_body html 0 suffix ++ [34], None).
Proof.
  apply (rune_ind (fun suffix => wfb suffix = true -> forall pre b i f,
    s = pre ++ suffix -> 0 <= i <= len pre -> (length suffix < f)%nat ->
    enc_loop s html f b i (len pre) = Some (b ++ slice_from pre i ++ std_escape_body html 0 suffix ++ [34], None))).
  - (* end of the string *)
    intros _ pre b i f Hs Hi Hf. destruct f as [|f]; [cbn in Hf; lia|]. rewrite app_nil_r in Hs. subst pre.
    rewrite enc_loop_S. destruct (Z.ltb_spec (len s) (len s)); [lia|]. cbn [std_escape_body app].
    rewrite <- app_assoc. reflexivity.
  - (* an ASCII byte *)
    intros c r A D IH Hwf pre b i f Hs Hi Hf. apply wfb_cons in Hwf. destruct Hwf as [Hc Hr].
    destruct f as [|f]; [cbn in Hf; lia|]. cbn [length] in Hf.
    assert (AT : at_ s (len pre) = c) by (rewrite Hs; apply at_app_len').
    assert (Ls : len s = len pre + len r + 1) by (rewrite Hs, len_app, len_cons; lia).
    pose proof (len_nonneg pre) as P0. pose proof (len_nonneg r) as R0.
    assert (Hs' : s = (pre ++ [c]) ++ r) by (rewrite <- app_assoc; exact Hs).
    assert (L1 : len (pre ++ [c]) = len pre + 1) by (rewrite len_app; reflexivity).
    assert (SL : slice s i (len pre) = slice_from pre i) by (rewrite Hs; apply slice_pre; lia).
    rewrite enc_loop_S. destruct (Z.ltb_spec (len pre) (len s)); [|lia]. cbv zeta. rewrite AT, SL.
    rewrite addi64_small by lia. rewrite <- L1. rewrite escape_ascii by lia. rewrite <- (fast_safe html c) by lia.
    destruct (fastb html c) eqn:F.
    + rewrite (IH Hr (pre ++ [c]) b i f Hs' ltac:(lia) ltac:(lia)). rewrite sf_app_le by lia.
      rewrite <- !app_assoc. reflexivity.
    + assert (STEP : forall X, X = std_escape_ascii c ->
        enc_loop s html f ((b ++ slice_from pre i) ++ X) (len (pre ++ [c])) (len (pre ++ [c])) =
        Some (b ++ slice_from pre i ++ (std_escape_ascii c ++ std_escape_body html 0 r) ++ [34], None)).
      { intros X ->. rewrite (IH Hr (pre ++ [c]) _ (len (pre ++ [c])) f Hs' ltac:(lia) ltac:(lia)). rewrite sf_all.
        rewrite <- !app_assoc. reflexivity. }
      destruct (sw1 c) eqn:S1; [apply STEP, esc_short; [lia|exact S1]|].
      assert (HX : forall x : bytes, (x ++ [92; 117; 48; 48]) ++ [at_ hexl (shr8 c 4); at_ hexl (and8 c 15)] =
                         x ++ [92; 117; 48; 48; at_ hexl (shr8 c 4); at_ hexl (and8 c 15)])
        by (intros x; rewrite <- app_assoc; reflexivity).
      rewrite HX.
      destruct (sw2 c) eqn:S2; [apply STEP, esc_hex; [lia|exact S1]|].
      rewrite (unsafe_ascii_ctl html c ltac:(lia) F S1 S2). apply STEP, esc_hex; [lia|exact S1].
  - (* a byte that is not part of well-formed UTF-8 *)
    intros c r A D IH Hwf pre b i f Hs Hi Hf. apply wfb_cons in Hwf. destruct Hwf as [Hc Hr].
    destruct f as [|f]; [cbn in Hf; lia|]. cbn [length] in Hf.
    assert (AT : at_ s (len pre) = c) by (rewrite Hs; apply at_app_len').
    assert (Ls : len s = len pre + len r + 1) by (rewrite Hs, len_app, len_cons; lia).
    pose proof (len_nonneg pre) as P0. pose proof (len_nonneg r) as R0.
    assert (Hs' : s = (pre ++ [c]) ++ r) by (rewrite <- app_assoc; exact Hs).
    assert (L1 : len (pre ++ [c]) = len pre + 1) by (rewrite len_app; reflexivity).
    assert (SL : slice s i (len pre) = slice_from pre i) by (rewrite Hs; apply slice_pre; lia).
    assert (SF : slice_from s (len pre) = c :: r) by (rewrite Hs; apply sf_app).
    destruct (hi_tests html c A) as (T1 & T2 & T3 & T4).
    rewrite enc_loop_S. destruct (Z.ltb_spec (len pre) (len s)); [|lia]. cbv zeta. rewrite AT, SL, SF, T1, T2, T3, T4, D.
    change ((65533 =? 65533) && (1 =? 1)) with true. cbv iota.
    rewrite addi64_small by lia. rewrite <- L1.
    rewrite (IH Hr (pre ++ [c]) _ (len (pre ++ [c])) f Hs' ltac:(lia) ltac:(lia)). rewrite sf_all.
    rewrite escape_bad by assumption. rewrite <- !app_assoc. reflexivity.
  - (* a well-formed sequence of 2 to 4 bytes *)
    intros w r rune LW D HB EN RN IH Hwf pre b i f Hs Hi Hf. apply wfb_app_r in Hwf.
    destruct f as [|f]; [cbn in Hf; lia|]. rewrite app_length in Hf.
    assert (HC : exists c w', w = c :: w' /\ 128 <= c).
    { destruct w as [|c w']; [cbn in LW; lia|]. exists c, w'. split; [reflexivity|].
      cbn [forallb] in HB. apply andb_true_iff in HB. destruct HB as [HB _]. unfold hi_byte in HB. lia. }
    destruct HC as (c & w' & EW & Hc).
    assert (AT : at_ s (len pre) = c) by (rewrite Hs, EW; apply (at_app_len' pre c (w' ++ r))).
    assert (Ls : len s = len pre + len w + len r) by (rewrite Hs, !len_app; lia).
    pose proof (len_nonneg pre) as P0. pose proof (len_nonneg r) as R0.
    assert (Hs' : s = (pre ++ w) ++ r) by (rewrite <- app_assoc; exact Hs).
    assert (L1 : len (pre ++ w) = len pre + len w) by apply len_app.
    assert (SL : slice s i (len pre) = slice_from pre i) by (rewrite Hs; apply slice_pre; lia).
    assert (SF : slice_from s (len pre) = w ++ r) by (rewrite Hs; apply sf_app).
    assert (LN : (length w + length r < S f)%nat -> (length r < f)%nat) by (unfold len in LW; lia).
    destruct (hi_tests html c Hc) as (T1 & T2 & T3 & T4).
    rewrite enc_loop_S. destruct (Z.ltb_spec (len pre) (len s)); [|lia]. cbv zeta. rewrite AT, SL, SF, T1, T2, T3, T4, D.
    destruct (Z.eqb_spec (len w) 1) as [X|_]; [lia|]. rewrite andb_false_r.
    rewrite addi64_small by lia. rewrite <- L1.
    rewrite (escape_multi html w r rune LW D HB).
    destruct ((rune =? 8232) || (rune =? 8233)) eqn:LS.
    + rewrite (esc_seq_lsps w rune EN RN LS).
      rewrite (IH Hwf (pre ++ w) _ (len (pre ++ w)) f Hs' ltac:(lia) (LN Hf)). rewrite sf_all.
      rewrite <- !app_assoc. reflexivity.
    + rewrite (esc_seq_other w rune EN RN LS).
      rewrite (IH Hwf (pre ++ w) b i f Hs' ltac:(lia) (LN Hf)). rewrite sf_app_le by lia.
      rewrite <- !app_assoc. reflexivity.
Qed.
End Loop.

(* ================= the statements of Json/StrSpec.v ================= *)
Lemma encode_string_std : encode_string_std_statement.
Proof.
  intros flags out s fuel Hw Hl _ Hf. rewrite encodeString_eq. set (html := flags_html flags).
  destruct (Z.eqb_spec (len s) 0) as [E0|E0].
  { apply len_0_nil in E0. subst s. reflexivity. }
  assert (LOOP : forall j, 0 <= j <= len s -> forallb (plainb html) (slice_to s j) = true ->
    enc_loop s html fuel (out ++ [34]) 0 j = Some (out ++ std_escape html s, None)).
  { intros j Hj Hp.
    pose proof (enc_loop_inv s html Hl (slice_from s j) (wfb_sf _ _ Hw) (slice_to s j) (out ++ [34]) 0 fuel) as X.
    rewrite (st_len s j Hj) in X. rewrite X.
    - rewrite sf_0. unfold std_escape.
      assert (B : std_escape_body html 0 s = slice_to s j ++ std_escape_body html 0 (slice_from s j)).
      { rewrite <- plain_escape by exact Hp. rewrite st_sf. reflexivity. }
      rewrite B. rewrite <- !app_assoc. reflexivity.
    - symmetry. apply st_sf.
    - lia.
    - unfold slice_from. rewrite skipn_length. lia. }
  destruct (len s >=? 8) eqn:G.
  - destruct (escape_index_cases s html Hw Hl) as [[E P]|[R P]].
    + rewrite E. change (-1 <? 0) with true. cbv iota. unfold std_escape.
      rewrite plain_escape_all by exact P. rewrite <- !app_assoc. reflexivity.
    + destruct (Z.ltb_spec (escape_index_tot s html) 0); [lia|]. apply LOOP; assumption.
  - apply LOOP; [pose proof (len_nonneg s); lia|reflexivity].
Qed.

Lemma escape_string_std : escape_string_std_statement.
Proof.
  intros html s Hw Hl. unfold escape_string, escape_flags.
  rewrite (encode_string_std (if html then json_EscapeHTML else 0) [] s (S (length s)) Hw Hl);
    [|destruct html; cbv; split; congruence|lia].
  cbn [app]. destruct html; reflexivity.
Qed.

