(* C14 structural part: the value-tree model of Json/TreeModel.v with the AppendFlags and ParseFlags that change the
   bytes written or the documents accepted.

   Encoder [jenc_f html ord] = json.Append(nil, v, flags):
     EscapeHTML   (html): strings and map keys are written with [std_escape html] (json/encode.go encodeString; the
                  bytes 3c 3e 26 are escaped only when the flag is set; U+2028 / U+2029 are escaped either way).
                  Struct keys are the precomputed fragments of json/codec.go encodeKeyFragment; for the names of the
                  universe (ASCII letters and digits) the plain and the HTML fragment are both [quote name]
                  (lemma key_fragment of Json/TreeFlagsProofs.v), so [jmembers_f] writes [quote name].
     SortMapKeys  when set the members of a map are written in key order ([sorted_ord]); when clear they are written
                  in the order of Go's map iteration, which is ARBITRARY: the model takes an order oracle [ord] that
                  is applied to the sorted member list of every map and must return a permutation of it ([ord_ok]).
     TrustRawMessage has no effect on this universe (there is no json.RawMessage in it): the model ignores it.

   Decoder [jdec_f nocase strict] = json.Parse(b, &x, flags), x a fresh zero value (json/decode.go decodeStruct):
     DontMatchCaseInsensitiveStructFields (nocase): a key selects the field of exactly that name only;
     DisallowUnknownFields (strict): a key that selects no field is an error instead of being skipped.
     DontCopyString / DontCopyNumber / DontCopyRawMessage / ZeroCopy change the ALIASING between the input buffer and
     the decoded strings, not the decoded VALUE; the value tree cannot express aliasing, so the model ignores them.
     (UseNumber / UseBigInt / UseInt64 / UseUint64 act on numbers stored in interfaces, which are not in the universe;
     they are the subject of Properties/C14.v.)

   Tied to /repo and to encoding/json by the cases f.tree.enc / f.tree.dec of harness/c14tree.go.
   No proofs in this file. *)
From Coq Require Import Permutation.
From Verif Require Import Base.GoInt Json.Grammar Json.FlagsModel Json.StrSpec Json.NumSpec Json.TreeModel.
Open Scope Z_scope.

(* ------------------------------------------------ the order oracle ------------------------------------------------ *)
Definition ord_t : Type := list (bytes * jval) -> list (bytes * jval).
(* admissible: the oracle returns a permutation of the members it is given *)
Definition ord_ok (ord : ord_t) : Prop := forall m : list (bytes * jval), Permutation (ord m) m.
(* SortMapKeys set: the sorted order *)
Definition sorted_ord : ord_t := fun m => m.
(* two concrete unsorted orders, for the examples and the extraction *)
Definition rev_ord : ord_t := fun m => rev m.
Definition rot_ord : ord_t := fun m => match m with [] => [] | x :: r => r ++ [x] end.

(* ------------------------------------------------ encoder ------------------------------------------------ *)
Fixpoint jtoks_f (html : bool) (ord : ord_t) (t : jty) (v : jval) : list bytes :=
  match t, v with
  | JBool, VBool b => [if b then tok_true else tok_false]
  | JInt _ _, VInt z => [z_to_dec z]
  | JStr, VStr s => [std_escape html s]
  | JPtr t', VPtr v' => jtoks_f html ord t' v'
  | JSlice t', VList l => [[91]] ++ sep_toks (map (jtoks_f html ord t') l) ++ [[93]]
  | JArr _ t', VList l => [[91]] ++ sep_toks (map (jtoks_f html ord t') l) ++ [[93]]
  | JMap t', VMap m =>
      [[123]] ++ sep_toks (map (fun kv => [std_escape html (fst kv); [58]] ++ jtoks_f html ord t' (snd kv))
                               (ord (sort_kv m))) ++ [[125]]
  | JStruct fs, VStruct l => [[123]] ++ sep_toks (jmembers_f html ord fs l) ++ [[125]]
  | _, _ => [tok_null]
  end
with jmembers_f (html : bool) (ord : ord_t) (fs : jfields) (l : list jval) : list (list bytes) :=
  match fs, l with
  | FCons name omit t r, v :: l' =>
      (if omit && jempty v then [] else [[quote name; [58]] ++ jtoks_f html ord t v]) ++ jmembers_f html ord r l'
  | _, _ => []
  end.

Definition jenc_f (html : bool) (ord : ord_t) (t : jty) (v : jval) : bytes := concat (jtoks_f html ord t v).

(* every map of the value has at most one entry: then the order oracle has nothing to permute *)
Fixpoint small_maps (t : jty) (v : jval) : bool :=
  match t, v with
  | JPtr t', VPtr v' => small_maps t' v'
  | JSlice t', VList l => forallb (small_maps t') l
  | JArr _ t', VList l => forallb (small_maps t') l
  | JMap t', VMap m => (length m <=? 1)%nat && forallb (fun kv => small_maps t' (snd kv)) m
  | JStruct fs, VStruct l => small_maps_fs fs l
  | _, _ => true
  end
with small_maps_fs (fs : jfields) (l : list jval) : bool :=
  match fs, l with
  | FCons _ _ t r, v :: l' => small_maps t v && small_maps_fs r l'
  | _, _ => true
  end.

(* ------------------------------------------------ decoder ------------------------------------------------ *)
(* the field a key selects: with DontMatchCaseInsensitiveStructFields the key itself (the field of exactly that name,
   or no field), otherwise [resolve_key] *)
Definition resolve_key_f (nocase : bool) (names : list bytes) (k : bytes) : option bytes :=
  if nocase then Some k else resolve_key names k.

(* decodeStruct: as [dec_struct_loop], with the two flags *)
Fixpoint dec_struct_loop_f (nocase strict : bool)
    (decf : bytes -> list jval -> bytes -> dres (option (list jval * bytes)))
    (names : list bytes) (gf fuel : nat) (first : bool) (curs : list jval) (b : bytes)
  : dres (list jval * bytes) :=
  match fuel with
  | O => DOut
  | S f =>
    let b0 := skip_ws b in
    match starts_with 125 b0 with
    | Some r => DOk (curs, r)
    | None =>
      dbind (if first then DOk b0 else match starts_with 44 b0 with Some r => DOk (skip_ws r) | None => DErr end) (fun b1 =>
      match uq_lit b1 with
      | None => DErr
      | Some (k, r1) =>
        match starts_with 58 (skip_ws r1) with
        | Some r2 =>
          let b2 := skip_ws r2 in
          match resolve_key_f nocase names k with
          | None => DOut
          | Some k' =>
            dbind (decf k' curs b2) (fun o =>
            match o with
            | Some (curs', r3) => dec_struct_loop_f nocase strict decf names gf f false curs' r3
            | None =>
              if strict then DErr
              else
                match g_value gf b2 with
                | None => DErr
                | Some r3 => dec_struct_loop_f nocase strict decf names gf f false curs r3
                end
            end)
          end
        | None => DErr
        end
      end)
    end
  end.

(* the decode function of a type under the flags: [dec] with [dec_struct_loop_f] *)
Fixpoint dec_f (nocase strict : bool) (t : jty) (fuel : nat) (cur : jval) (b : bytes) {struct t} : dres (jval * bytes) :=
  match t with
  | JBool => match nullp b with Some r => DOk (cur, r) | None => dec_bool b end
  | JInt s w => match nullp b with Some r => DOk (cur, r) | None => dec_int s w b end
  | JStr => match nullp b with Some r => DOk (cur, r) | None => dec_str b end
  | JPtr t' =>
    match nullp b with
    | Some r =>
      match cur, t' with
      | VPtr c, JPtr _ => wrap_ptr (dec_f nocase strict t' fuel c b)
      | _, _ => DOk (VNil, r)
      end
    | None => wrap_ptr (dec_f nocase strict t' fuel (match cur with VPtr c => c | _ => jzero t' end) b)
    end
  | JSlice t' =>
    match nullp b with
    | Some r => DOk (VNil, r)
    | None =>
      match starts_with 91 b with
      | Some r => dbind (dec_slice_loop (dec_f nocase strict t' fuel (jzero t')) fuel true r)
                        (fun lr => DOk (VList (fst lr), snd lr))
      | None => DErr
      end
    end
  | JArr n t' =>
    match nullp b with
    | Some r => DOk (cur, r)
    | None =>
      match starts_with 91 b with
      | Some r =>
        let curs := match cur with VList l => l | _ => repeat (jzero t') n end in
        dbind (dec_arr_loop (dec_f nocase strict t' fuel) (jzero t') fuel true curs r)
              (fun lr => DOk (VList (fst lr), snd lr))
      | None => DErr
      end
    end
  | JMap t' =>
    match nullp b with
    | Some r => DOk (VNil, r)
    | None =>
      match starts_with 123 b with
      | Some r =>
        let m := match cur with VMap m => m | _ => [] end in
        dbind (dec_map_loop (dec_f nocase strict t' fuel (jzero t')) fuel true m r)
              (fun mr => DOk (VMap (fst mr), snd mr))
      | None => DErr
      end
    end
  | JStruct fs =>
    match nullp b with
    | Some r => DOk (cur, r)
    | None =>
      match starts_with 123 b with
      | Some r =>
        let curs := match cur with VStruct l => l | _ => jzeros fs end in
        dbind (dec_struct_loop_f nocase strict (dec_field_f nocase strict fs fuel) (jnames fs) fuel fuel true curs r)
              (fun lr => DOk (VStruct (fst lr), snd lr))
      | None => DErr
      end
    end
  end
with dec_field_f (nocase strict : bool) (fs : jfields) (fuel : nat) (k : bytes) (curs : list jval) (b : bytes) {struct fs}
  : dres (option (list jval * bytes)) :=
  match fs, curs with
  | FCons name _ t r, c :: curs' =>
    if bytes_eqb k name then
      if negb (jmergeable t) && negb (jis_zero t c) then DOut
      else dbind (dec_f nocase strict t fuel c b) (fun vr => DOk (Some (fst vr :: curs', snd vr)))
    else
      dbind (dec_field_f nocase strict r fuel k curs' b) (fun o =>
      match o with
      | Some (l, rest) => DOk (Some (c :: l, rest))
      | None => DOk None
      end)
  | _, _ => DOk None
  end.

(* json.Parse(b, &x, flags), x a fresh zero value of type t *)
Definition jdec_f (nocase strict : bool) (fuel : nat) (t : jty) (b : bytes) : dres jval :=
  match dec_f nocase strict t fuel (jzero t) (skip_ws b) with
  | DOk (v, r) => match skip_ws r with [] => DOk v | _ => DErr end
  | DErr => DErr
  | DOut => DOut
  end.
