(* Hand models of the standard-library functions called by the string code of json/encode.go and json/parse.go
   (unicode/utf8 DecodeRune, DecodeRuneInString, EncodeRune; unicode/utf16 IsSurrogate, DecodeRune; the rune loop of
   a range over a string), of the two three-line wrappers of the package around them (appendRune,
   appendCoerceInvalidUTF8), and the wrappers that give the fuel-taking translated scanners (Generated/JsonParseGen.v)
   the fuel that their theorems prove sufficient. Referenced from the extern map of the translation unit
   JsonStringGen.v (gen/config.json). Definitions only.

   The UTF-8 functions are written from Table 3-7 of the Unicode standard (well-formed byte sequences) with plain
   arithmetic; they are tied to the real unicode/utf8 and unicode/utf16 by the correspondence cases s.utf8dec,
   s.utf8enc, s.utf16 of harness/c01s.go on every run. *)
From Verif Require Import Base.GoInt Json.Ext Generated.JsonParseGen.
Open Scope Z_scope.

Definition in_rng (lo hi c : Z) : bool := (lo <=? c) && (c <=? hi).
Definition is_cont (c : Z) : bool := in_rng 128 191 c.

(* utf8.DecodeRune / DecodeRuneInString: the rune and its width; (RuneError, 1) for every byte that does not start a
   well-formed sequence (overlong forms, surrogates, values above U+10FFFF, truncated sequences), (RuneError, 0) for
   the empty input *)
Definition utf8_decode_rune (s : bytes) : Z * Z :=
  match s with
  | [] => (65533, 0)
  | c0 :: r =>
    if c0 <? 128 then (c0, 1)
    else if in_rng 194 223 c0 then
      match r with
      | c1 :: _ => if is_cont c1 then ((c0 - 192) * 64 + (c1 - 128), 2) else (65533, 1)
      | _ => (65533, 1)
      end
    else if in_rng 224 239 c0 then
      match r with
      | c1 :: c2 :: _ =>
        if in_rng (if c0 =? 224 then 160 else 128) (if c0 =? 237 then 159 else 191) c1 && is_cont c2
        then ((c0 - 224) * 4096 + (c1 - 128) * 64 + (c2 - 128), 3) else (65533, 1)
      | _ => (65533, 1)
      end
    else if in_rng 240 244 c0 then
      match r with
      | c1 :: c2 :: c3 :: _ =>
        if in_rng (if c0 =? 240 then 144 else 128) (if c0 =? 244 then 143 else 191) c1 && is_cont c2 && is_cont c3
        then ((c0 - 240) * 262144 + (c1 - 128) * 4096 + (c2 - 128) * 64 + (c3 - 128), 4) else (65533, 1)
      | _ => (65533, 1)
      end
    else (65533, 1)
  end.

(* utf8.EncodeRune / AppendRune: negative runes, surrogates and runes above U+10FFFF are written as U+FFFD *)
Definition utf8_encode_rune (r : Z) : bytes :=
  if (0 <=? r) && (r <? 128) then [r]
  else if (128 <=? r) && (r <? 2048) then [192 + r / 64; 128 + r mod 64]
  else if ((2048 <=? r) && (r <? 55296)) || ((57344 <=? r) && (r <? 65536)) then
    [224 + r / 4096; 128 + (r / 64) mod 64; 128 + r mod 64]
  else if (65536 <=? r) && (r <=? 1114111) then
    [240 + r / 262144; 128 + (r / 4096) mod 64; 128 + (r / 64) mod 64; 128 + r mod 64]
  else [239; 191; 189].

(* utf16.IsSurrogate, utf16.DecodeRune *)
Definition utf16_is_surrogate (r : Z) : bool := (55296 <=? r) && (r <? 57344).
Definition utf16_decode_rune (r1 r2 : Z) : Z :=
  if (55296 <=? r1) && (r1 <? 56320) && (56320 <=? r2) && (r2 <? 57344)
  then (r1 - 55296) * 1024 + (r2 - 56320) + 65536 else 65533.

(* json/parse.go appendRune: append(b, 0, 0, 0, 0) then EncodeRune into the new room *)
Definition append_rune (b : bytes) (r : Z) : bytes := b ++ utf8_encode_rune r.

(* json/parse.go appendCoerceInvalidUTF8: for _, r := range string(s) { b = append(b, EncodeRune(r)...) }.
   The range clause over a string decodes one rune after the other exactly as DecodeRuneInString does. *)
Fixpoint coerce_utf8_fuel (fuel : nat) (s : bytes) : bytes :=
  match fuel with
  | O => []
  | S f =>
    match s with
    | [] => []
    | _ :: _ => let '(r, n) := utf8_decode_rune s in utf8_encode_rune r ++ coerce_utf8_fuel f (slice_from s n)
    end
  end.
Definition coerce_utf8 (s : bytes) : bytes := coerce_utf8_fuel (length s) s.
Definition append_coerce_utf8 (b s : bytes) : bytes := b ++ coerce_utf8 s.

(* r == nil on a byte slice: nil and the empty slice are the same list *)
Definition nil_bytes (r : bytes) : bool := len r =? 0.

(* the translated escapeIndex and parseString with the fuel their theorems (Json/ValidProofs.v escape_index_spec,
   parseString_spec) prove sufficient; the default is never produced *)
Definition escape_index_tot (s : bytes) (html : bool) : Z :=
  match json_escapeIndex (length s + 2) s html with Some r => r | None => 0 end.
Definition parse_string_tot (d : Z) (b : bytes) : bytes * bytes * Z * option json_err :=
  match json_decoder_parseString (S (length b)) d b with
  | Some r => r
  | None => ([], [], 0, Some JErrOther)
  end.
