(* Statements of C05 about the machine-translated parser (Generated/JsonParseGen.v). Definitions only. *)
From Verif Require Import Base.GoInt Generated.AsmAsciiGen Ascii.AsmTotal Generated.AsciiGen Json.Ext Generated.JsonParseGen Json.Grammar.
Open Scope Z_scope.

(* the whole-input flags that let parseString skip per-byte checks must be sound for the input they are used on *)
Definition flags_sound (d : Z) (b : bytes) : Prop :=
  (json_ParseFlags_has d json_noBackslash = true -> forallb (fun c => negb (c =? 92)) b = true) /\
  (json_ParseFlags_has d json_validAsciiPrint = true ->
     (* every byte is printable ASCII, except possibly for trailing white space of the whole input *)
     exists p t, b = p ++ t /\ forallb (fun c => (32 <=? c) && (c <=? 126)) p = true /\ forallb is_ws t = true).

Definition err_is_none (e : option json_err) : bool := match e with None => true | Some _ => false end.

(* parseValue recognises exactly the grammar, consumes exactly the value, for every flags word that is sound *)
Definition parse_value_grammar_statement : Prop :=
  forall b d fuel, wfb b = true -> len b < 2 ^ 62 -> flags_sound d b -> (2 * length b + 4 <= fuel)%nat ->
    exists v r k e, json_decoder_parseValue fuel d b = Some (v, r, k, e) /\
      (e = None <-> exists r', g_value (S (length b)) b = Some r') /\
      (e = None -> g_value (S (length b)) b = Some r /\ b = v ++ r).
(* the flags json.Valid computes on its (left-trimmed) input are sound for it and for every suffix of it.
   Without the left-trim hypothesis the statement is false: see internal_flags_sound_untrimmed_statement below. *)
Definition internal_flags_sound_statement : Prop :=
  forall b fuel d, wfb b = true -> len b < 2 ^ 62 -> (length b + 2 <= fuel)%nat -> skip_ws b = b ->
    json_internalParseFlags fuel b = Some d -> flags_sound d b /\ forall suffix pre, b = pre ++ suffix -> flags_sound d suffix.
Definition internal_flags_sound_untrimmed_statement : Prop :=
  forall b fuel d, wfb b = true -> len b < 2 ^ 62 -> (length b + 2 <= fuel)%nat ->
    json_internalParseFlags fuel b = Some d -> flags_sound d b /\ forall suffix pre, b = pre ++ suffix -> flags_sound d suffix.
Definition valid_agrees_statement : Prop :=
  forall b fuel, wfb b = true -> len b < 2 ^ 62 -> (2 * length b + 8 <= fuel)%nat ->
    json_Valid fuel b = Some (g_valid b).
(* hence Valid = encoding/json.Valid whenever at most 10000 containers are open at once;
   beyond that the repository accepts what the standard library rejects (known finding, C05/C06) *)
Definition valid_std_statement : Prop :=
  forall b fuel, wfb b = true -> len b < 2 ^ 62 -> (2 * length b + 8 <= fuel)%nat -> max_depth b <= 10000 ->
    json_Valid fuel b = Some (std_valid b).
(* json escapeIndex: index of the first byte needing an escape, or -1 *)
Definition needs_escape_json (html : bool) (c : Z) : bool :=
  (c <? 32) || (127 <? c) || (c =? 34) || (c =? 92) || (html && ((c =? 60) || (c =? 62) || (c =? 38))).
Fixpoint first_index (p : Z -> bool) (i : Z) (s : bytes) : Z :=
  match s with [] => -1 | c :: r => if p c then i else first_index p (i + 1) r end.
(* What escapeIndex guarantees (and all its caller encodeString needs): -1 exactly when no byte needs an escape,
   otherwise a position at or before the first such byte. It does NOT return the index of that byte, contrary to
   its documentation: inside the word loop the chunk offset is not added (escape_index_doc_statement is refuted). *)
Definition escape_index_statement : Prop :=
  forall s html fuel, wfb s = true -> len s < 2 ^ 62 -> (length s + 2 <= fuel)%nat ->
    exists r, json_escapeIndex fuel s html = Some r /\
      let fi := first_index (needs_escape_json html) 0 s in
      (fi = -1 -> r = -1) /\
      (0 <= fi -> 0 <= r <= fi /\ r = if fi <? 8 * (len s / 8) then fi mod 8 else fi).
Definition escape_index_doc_statement : Prop :=
  forall s html fuel, wfb s = true -> len s < 2 ^ 62 -> (length s + 2 <= fuel)%nat ->
    json_escapeIndex fuel s html = Some (first_index (needs_escape_json html) 0 s).
