(* Proofs for C17 (Tokenizer). *)
From Verif Require Import Base.GoInt Generated.AsmAsciiGen Ascii.AsmTotal Generated.AsciiGen Json.Ext Generated.JsonParseGen Json.Grammar Json.Spec Json.ValidProofs Json.StreamModel Json.StateSpec.
From Coq Require Import ZifyBool.
Open Scope Z_scope.

Lemma err_sticky : err_sticky_statement.
Admitted.
Lemma tok_total : tok_total_statement.
Admitted.
Lemma tokens_concat : tokens_concat_statement.
Admitted.
Lemma tokens_exact : tokens_exact_statement.
Admitted.
