(* Proofs for C17 (Tokenizer). *)
From Verif Require Import Base.GoInt Generated.AsmAsciiGen Ascii.AsmTotal Generated.AsciiGen Json.Ext Generated.JsonParseGen Json.Grammar Json.Spec Json.ValidProofs Json.StreamModel Json.StateSpec.
From Coq Require Import ZifyBool.
Open Scope Z_scope.

(* ================= err_sticky ================= *)
Lemma err_sticky : err_sticky_statement.
Proof. intros pfuel d st H. unfold t_next. rewrite H. reflexivity. Qed.

(* ================= small facts ================= *)
Local Tactic Notation "zdeep" ident(c) :=
  destruct c as [|c|c];
  [ | do 7 (try (destruct c as [c|c|])) | ].

Lemma wfb_app' a b : wfb (a ++ b) = true -> wfb a = true /\ wfb b = true.
Proof. unfold wfb. rewrite forallb_app. intros H. apply andb_true_iff in H. exact H. Qed.
Lemma bytes_eqb_refl a : bytes_eqb a a = true.
Proof. induction a as [|x a IH]; [reflexivity|]. cbn [bytes_eqb]. rewrite Z.eqb_refl. exact IH. Qed.
Lemma slice_mid (p v t : bytes) :
  slice (p ++ v ++ t) (len (p ++ v ++ t) - len t - len v) (len (p ++ v ++ t) - len t) = v.
Proof.
  rewrite !len_app. unfold slice.
  replace (len p + (len v + len t) - len t - (len p + (len v + len t) - len t - len v)) with (len v) by lia.
  replace (len p + (len v + len t) - len t - len v) with (len p) by lia.
  unfold len. rewrite !Nat2Z.id. rewrite skipn_app, skipn_all, Nat.sub_diag. cbn [skipn app].
  rewrite firstn_app, firstn_all, Nat.sub_diag. cbn [firstn]. apply app_nil_r.
Qed.

(* ================= t_next in two phases: the scan of one lexeme, then the delimiter state machine ================= *)
Definition sc_state (st : tstate) (r : option (bytes * bytes * Z * option json_err)) : option (tstate * Z) :=
  match r with
  | None => None
  | Some (v, rest, k, e) =>
      Some ({| t_delim := 0; t_value := v; t_err := negb (isnil e); t_depth := t_depth st; t_index := t_index st;
               t_iskey := t_iskey st; t_iskey_next := t_iskey_next st; t_json := rest; t_stack := t_stack st; t_kind := t_kind st |}, k)
  end.
Definition is_delim (c : Z) : bool := (c =? 123) || (c =? 125) || (c =? 91) || (c =? 93) || (c =? 58) || (c =? 44).
Definition t_scan (pfuel : nat) (d : Z) (st : tstate) (c : Z) (j : bytes) : option (tstate * Z) :=
  if c =? 34 then sc_state st (json_decoder_parseString pfuel d j)
  else if c =? 110 then sc_state st (Some (json_decoder_parseNull d j))
  else if c =? 116 then sc_state st (Some (json_decoder_parseTrue d j))
  else if c =? 102 then sc_state st (Some (json_decoder_parseFalse d j))
  else if (c =? 45) || ((48 <=? c) && (c <=? 57)) then sc_state st (json_decoder_parseNumber pfuel d j)
  else if is_delim c then
    Some ({| t_delim := c; t_value := [c]; t_err := false; t_depth := t_depth st; t_index := t_index st;
             t_iskey := t_iskey st; t_iskey_next := t_iskey_next st; t_json := slice_from j 1; t_stack := t_stack st; t_kind := t_kind st |},
          if c =? 123 then json_Object else if c =? 91 then json_Array else 0)
  else
    Some ({| t_delim := 0; t_value := [c]; t_err := true; t_depth := t_depth st; t_index := t_index st;
             t_iskey := t_iskey st; t_iskey_next := t_iskey_next st; t_json := slice_from j 1; t_stack := t_stack st; t_kind := t_kind st |}, 0).
Definition t_mach (s1 : tstate) (kind : Z) : option (bool * tstate) :=
  let depth := stack_depth (t_stack s1) in
  let index := stack_index (t_stack s1) in
  let upd (delim : Z) (iskey iskn : bool) (stack : list (Z * Z)) (err : bool) (depth index : Z) : tstate :=
    {| t_delim := delim; t_value := t_value s1; t_err := err; t_depth := depth; t_index := index; t_iskey := iskey;
       t_iskey_next := iskn; t_json := t_json s1; t_stack := stack; t_kind := kind |} in
  let s2 : tstate * bool :=
    if t_delim s1 =? 0 then (upd 0 (t_iskey_next s1) (t_iskey_next s1) (t_stack s1) (t_err s1) depth index, false)
    else
      let dl := t_delim s1 in
      if dl =? 123 then (upd dl false true (t_stack s1 ++ [(1, 1)]) (t_err s1) depth index, false)
      else if dl =? 91 then (upd dl false (t_iskey_next s1) (t_stack s1 ++ [(0, 1)]) (t_err s1) depth index, false)
      else if dl =? 125 then
        match stack_pop (t_stack s1) 1 with
        | Some stk => (upd dl false false stk false (depth - 1) (stack_index stk), false)
        | None => (upd dl false false (t_stack s1) true (depth - 1) (stack_index (t_stack s1)), false)
        end
      else if dl =? 93 then
        match stack_pop (t_stack s1) 0 with
        | Some stk => (upd dl false (t_iskey_next s1) stk false (depth - 1) (stack_index stk), false)
        | None => (upd dl false (t_iskey_next s1) (t_stack s1) true (depth - 1) (stack_index (t_stack s1)), false)
        end
      else if dl =? 58 then (upd dl false false (t_stack s1) (t_err s1) depth index, false)
      else
        if len (t_stack s1) =? 0 then (upd dl false (t_iskey_next s1) (t_stack s1) true depth index, true)
        else (upd dl false (if stack_top_is (t_stack s1) 1 then true else t_iskey_next s1) (stack_incr (t_stack s1)) (t_err s1) depth index, false) in
  let '(s3, early) := s2 in
  if early then Some (false, s3)
  else Some ((negb (t_delim s3 =? 0) || negb (len (t_value s3) =? 0)) && negb (t_err s3), s3).
Lemma t_next_eq pfuel d st : t_next pfuel d st =
  if t_err st then Some (false, st) else
  let j := json_skipSpaces (t_json st) in
  match j with
  | [] => Some (false, t_init [])
  | c :: _ => match t_scan pfuel d st c j with None => None | Some (s1, kind) => t_mach s1 kind end
  end.
Proof. reflexivity. Qed.

(* the state machine never fails, keeps the lexeme and the rest of the input, and a scalar is reported only without error *)
Lemma mach_scalar s1 kind : t_delim s1 = 0 ->
  t_mach s1 kind = Some (negb (len (t_value s1) =? 0) && negb (t_err s1),
    {| t_delim := 0; t_value := t_value s1; t_err := t_err s1; t_depth := len (t_stack s1); t_index := stack_index (t_stack s1);
       t_iskey := t_iskey_next s1; t_iskey_next := t_iskey_next s1; t_json := t_json s1; t_stack := t_stack s1; t_kind := kind |}).
Proof. intros H. unfold t_mach. rewrite H. reflexivity. Qed.
Lemma mach_gen s1 kind : exists r s3, t_mach s1 kind = Some (r, s3) /\ t_value s3 = t_value s1 /\ t_json s3 = t_json s1.
Proof.
  unfold t_mach. cbv zeta.
  repeat match goal with
  | |- context [match stack_pop ?a ?b with _ => _ end] => destruct (stack_pop a b)
  | |- context [if ?c then _ else _] => destruct c
  end; eexists; eexists; (split; [reflexivity|]); split; reflexivity.
Qed.
(* ================= the scan phase ================= *)
Lemma sc_state_ok st j G res : ok_at j G res ->
  exists s1 k, sc_state st res = Some (s1, k) /\ t_stack s1 = t_stack st /\ t_iskey_next s1 = t_iskey_next st /\
    t_delim s1 = 0 /\ exists e, t_err s1 = negb (isnil e) /\ ok_at j G (Some (t_value s1, t_json s1, k, e)).
Proof.
  intros (v & r & k & e & E & H). subst res. cbn [sc_state]. eexists. eexists. split; [reflexivity|].
  cbn [t_stack t_iskey_next t_delim t_err t_value t_json]. repeat (split; [reflexivity|]).
  exists e. split; [reflexivity|]. exists v, r, k, e. split; [reflexivity|exact H].
Qed.

Lemma scan_gen pfuel d st c r f : wfb (c :: r) = true -> len (c :: r) < 2 ^ 62 -> flags_sound d (c :: r) ->
  (length (c :: r) < pfuel)%nat ->
  exists s1 k, t_scan pfuel d st c (c :: r) = Some (s1, k) /\ t_stack s1 = t_stack st /\ t_iskey_next s1 = t_iskey_next st /\
   ((is_delim c = true /\ t_delim s1 = c /\ t_value s1 = [c] /\ t_json s1 = r /\ t_err s1 = false)
    \/ (is_delim c = false /\ t_delim s1 = 0 /\
        exists e, t_err s1 = negb (isnil e) /\ ok_at (c :: r) (g_value (S f) (c :: r)) (Some (t_value s1, t_json s1, k, e)))).
Proof.
  intros Hw Hl Hfs Hp. unfold t_scan.
  assert (SC : forall res, is_delim c = false -> ok_at (c :: r) (g_value (S f) (c :: r)) res ->
    exists s1 k, sc_state st res = Some (s1, k) /\ t_stack s1 = t_stack st /\ t_iskey_next s1 = t_iskey_next st /\
   ((is_delim c = true /\ t_delim s1 = c /\ t_value s1 = [c] /\ t_json s1 = r /\ t_err s1 = false)
    \/ (is_delim c = false /\ t_delim s1 = 0 /\
        exists e, t_err s1 = negb (isnil e) /\ ok_at (c :: r) (g_value (S f) (c :: r)) (Some (t_value s1, t_json s1, k, e))))).
  { intros res D H. destruct (sc_state_ok st _ _ _ H) as (s1 & k & E1 & E2 & E3 & E4 & E5).
    exists s1, k. repeat (split; [assumption|]). right. auto. }
  destruct (Z.eqb_spec c 34) as [C3|C3].
  { subst c. apply SC; [reflexivity|]. rewrite g_value_string.
    change (g_string r) with (g_str_tok (34 :: r)). apply parseString_spec; auto. lia. }
  destruct (Z.eqb_spec c 110) as [C4|C4].
  { subst c. apply SC; [reflexivity|]. rewrite g_value_null.
    change (strip_prefix [117; 108; 108] r) with (strip_prefix [110; 117; 108; 108] (110 :: r)).
    pose proof (lit_spec [110; 117; 108; 108] (110 :: r) json_Null ltac:(discriminate)) as L.
    unfold json_decoder_parseNull, json_hasNullPrefix.
    change (len [110; 117; 108; 108]) with 4 in L.
    destruct ((len (110 :: r) >=? 4) && bytes_eqb (slice_to (110 :: r) 4) [110; 117; 108; 108]); [exact L|].
    destruct (len (110 :: r) <? 4); exact L. }
  destruct (Z.eqb_spec c 116) as [C5|C5].
  { subst c. apply SC; [reflexivity|]. rewrite g_value_true.
    change (strip_prefix [114; 117; 101] r) with (strip_prefix [116; 114; 117; 101] (116 :: r)).
    pose proof (lit_spec [116; 114; 117; 101] (116 :: r) json_True ltac:(discriminate)) as L.
    unfold json_decoder_parseTrue, json_hasTruePrefix.
    change (len [116; 114; 117; 101]) with 4 in L.
    destruct ((len (116 :: r) >=? 4) && bytes_eqb (slice_to (116 :: r) 4) [116; 114; 117; 101]); [exact L|].
    destruct (len (116 :: r) <? 4); exact L. }
  destruct (Z.eqb_spec c 102) as [C6|C6].
  { subst c. apply SC; [reflexivity|]. rewrite g_value_false.
    change (strip_prefix [97; 108; 115; 101] r) with (strip_prefix [102; 97; 108; 115; 101] (102 :: r)).
    pose proof (lit_spec [102; 97; 108; 115; 101] (102 :: r) json_False ltac:(discriminate)) as L.
    unfold json_decoder_parseFalse, json_hasFalsePrefix.
    change (len [102; 97; 108; 115; 101]) with 5 in L.
    destruct ((len (102 :: r) >=? 5) && bytes_eqb (slice_to (102 :: r) 5) [102; 97; 108; 115; 101]); [exact L|].
    destruct (len (102 :: r) <? 5); exact L. }
  clear Hw Hfs.
  destruct ((c =? 45) || ((48 <=? c) && (c <=? 57))) eqn:T.
  { apply SC; [unfold is_delim; lia|]. rewrite g_value_other by lia. apply parseNumber_spec; auto. }
  destruct (is_delim c) eqn:D.
  { eexists. eexists. split; [reflexivity|]. cbn [t_stack t_iskey_next t_delim t_err t_value t_json].
    repeat (split; [reflexivity|]). left. repeat split. }
  eexists. eexists. split; [reflexivity|]. cbn [t_stack t_iskey_next t_delim t_err t_value t_json].
  repeat (split; [reflexivity|]). right. repeat (split; [reflexivity|]).
  exists (Some JErrSyntax). split; [reflexivity|].
  unfold is_delim in D. rewrite g_value_other by lia. rewrite g_number_bad; [apply ok_at_err|lia|unfold is_digit; lia].
Qed.

(* ================= invariants of a run ================= *)
Section Run.
  Variables (n : nat) (d : Z) (pfuel : nat).
  Hypothesis Hn : Z.of_nat n < 2 ^ 62.
  Hypothesis Hp : (n < pfuel)%nat.

  (* the rest of the input: well formed, not longer than the input, and the flags are sound for what a scanner sees of it *)
  Definition okj (t : bytes) : Prop := wfb t = true /\ (length t <= n)%nat /\ flags_sound d (skip_ws t).
  Lemma okj_head t : okj t ->
    wfb (skip_ws t) = true /\ len (skip_ws t) < 2 ^ 62 /\ flags_sound d (skip_ws t) /\ (length (skip_ws t) < pfuel)%nat.
  Proof.
    intros (W & L & F). destruct (skip_ws_suffix t) as (pre & E & _). pose proof (skip_ws_length t) as SL.
    split; [rewrite E in W; apply wfb_app' in W; tauto|]. split; [unfold len; lia|]. split; [assumption|lia].
  Qed.
  Lemma okj_suffix t p t' : okj t -> skip_ws t = p ++ t' -> okj t'.
  Proof.
    intros H E. destruct (okj_head t H) as (W & _ & F & _). destruct H as (_ & L & _).
    pose proof (skip_ws_length t) as SL. rewrite E in W, F, SL. rewrite app_length in SL.
    apply wfb_app' in W. apply flags_sound_suffix in F.
    split; [tauto|]. split; [lia|]. destruct (skip_ws_suffix t') as (pre & E' & _). rewrite E' in F.
    apply flags_sound_suffix in F. exact F.
  Qed.

  (* one call of Next: it never runs out of fuel, and a reported token is a non-empty prefix of the trimmed rest *)
  Lemma next_gen st : okj (t_json st) ->
    exists r st', t_next pfuel d st = Some (r, st') /\
      (r = true -> t_value st' <> [] /\ skip_ws (t_json st) = t_value st' ++ t_json st').
  Proof.
    intros H. rewrite t_next_eq. destruct (t_err st).
    { eexists. eexists. split; [reflexivity|discriminate]. }
    cbv zeta. rewrite skipSpaces_spec. destruct (okj_head _ H) as (W & L & F & P).
    destruct (skip_ws (t_json st)) as [|c r] eqn:J.
    { eexists. eexists. split; [reflexivity|discriminate]. }
    destruct (scan_gen pfuel d st c r 0 W L F P) as (s1 & k & E & _ & _ & [D|S]); rewrite E.
    - destruct D as (_ & _ & D1 & D2 & _). destruct (mach_gen s1 k) as (r0 & s3 & E3 & V & Jn). rewrite E3.
      eexists. eexists. split; [reflexivity|]. intros _. rewrite V, Jn, D1, D2. split; [discriminate|reflexivity].
    - destruct S as (_ & S1 & e & S2 & S3). rewrite mach_scalar by assumption.
      eexists. eexists. split; [reflexivity|]. intros R. cbn [t_value t_json].
      apply andb_true_iff in R. destruct R as [R1 R2].
      destruct S3 as (v' & r' & k' & e' & Eq & Hok & _). injection Eq as <- <- <- <-.
      assert (e = None) as -> by (destruct e; [rewrite S2 in R2; discriminate R2|reflexivity]).
      destruct (Hok eq_refl) as (_ & i & I1 & I2 & I3). split.
      + intros N. rewrite N in R1. discriminate R1.
      + rewrite I2, I3. symmetry. apply st_sf.
  Qed.

  Lemma okj_next st st' : okj (t_json st) -> t_next pfuel d st = Some (true, st') -> okj (t_json st').
  Proof.
    intros H E. destruct (next_gen st H) as (r & st2 & E2 & H2). rewrite E in E2. injection E2 as <- <-.
    destruct (H2 eq_refl) as [_ J]. apply (okj_suffix _ _ _ H J).
  Qed.

  (* ================= tok_total ================= *)
  Definition tok_of (st' : tstate) : token :=
    {| k_value := t_value st'; k_delim := t_delim st'; k_depth := t_depth st'; k_index := t_index st';
       k_iskey := t_iskey st'; k_kind := t_kind st'; k_remaining := len (t_json st') |}.
  Definition tok_chk (b : bytes) (k : token) : bool :=
    (k_remaining k + len (k_value k) <=? len b) &&
    bytes_eqb (k_value k) (slice b (len b - k_remaining k - len (k_value k)) (len b - k_remaining k)).

  Lemma run_total b : forall m st, (length (t_json st) <= m)%nat -> okj (t_json st) -> (exists pre, b = pre ++ t_json st) ->
    forall fuel acc, (m < fuel)%nat ->
    exists ks stf, t_run fuel pfuel d st acc = Some (rev acc ++ ks, stf) /\ forallb (tok_chk b) ks = true.
  Proof.
    induction m as [|m IH]; intros st Lm H (pre & Eb) fuel acc Hf; (destruct fuel as [|fuel]; [lia|]); cbn [t_run];
      destruct (next_gen st H) as (r & st' & E & Hr); rewrite E; destruct r.
    - destruct (Hr eq_refl) as [V J]. exfalso. pose proof (skip_ws_length (t_json st)) as SL.
      rewrite J, app_length in SL. destruct (t_value st'); [congruence|]. cbn [length] in SL. lia.
    - exists [], st'. rewrite app_nil_r. split; reflexivity.
    - destruct (Hr eq_refl) as [V J]. pose proof (skip_ws_length (t_json st)) as SL.
      rewrite J, app_length in SL.
      assert (1 <= length (t_value st'))%nat by (destruct (t_value st'); [congruence|cbn [length]; lia]).
      destruct (skip_ws_suffix (t_json st)) as (ws & Ews & _).
      assert (Eb' : b = (pre ++ ws) ++ t_value st' ++ t_json st').
      { rewrite Eb, Ews, J, app_assoc. reflexivity. }
      assert (Ex : exists pre', b = pre' ++ t_json st').
      { exists ((pre ++ ws) ++ t_value st'). rewrite Eb', <- !app_assoc. reflexivity. }
      destruct (IH st' ltac:(lia) (okj_next _ _ H E) Ex fuel (tok_of st' :: acc) ltac:(lia)) as (ks & stf & R & C).
      exists (tok_of st' :: ks), stf. fold (tok_of st'). rewrite R. split.
      + cbn [rev]. rewrite <- app_assoc. reflexivity.
      + cbn [forallb]. rewrite C, andb_true_r. unfold tok_chk, tok_of. cbn [k_remaining k_value].
        assert (SM : slice b (len b - len (t_json st') - len (t_value st')) (len b - len (t_json st')) = t_value st').
        { rewrite Eb'. apply slice_mid. }
        rewrite SM, bytes_eqb_refl, andb_true_r.
        rewrite Eb', !len_app. pose proof (len_nonneg pre). pose proof (len_nonneg ws). apply Z.leb_le. clear - H1 H2. lia.
    - exists [], st'. rewrite app_nil_r. split; reflexivity.
  Qed.
End Run.

(* the flags of the whole input: computed on the input as it is, they are those of the left-trimmed input *)
Lemma ipf_untrimmed fuel b : json_internalParseFlags fuel b = json_internalParseFlags fuel (skip_ws b).
Proof. unfold json_internalParseFlags. cbv zeta. rewrite !skipSpaces_spec, skip_ws_idem. reflexivity. Qed.
Lemma tokenize_flags b : wfb b = true -> len b < 2 ^ 62 ->
  exists d, json_internalParseFlags (2 * length b + 8) b = Some d /\ okj (length b) d b.
Proof.
  intros Hw Hl. rewrite ipf_untrimmed. pose proof (skip_ws_length b) as SL.
  destruct (skip_ws_suffix b) as (pre & Epre & _).
  assert (W1 : wfb (skip_ws b) = true) by (rewrite Epre in Hw; apply wfb_app' in Hw; tauto).
  assert (L1 : len (skip_ws b) < 2 ^ 62) by (unfold len in *; lia).
  destruct (ipf_spec (2 * length b + 8) (skip_ws b) W1 L1 ltac:(lia) (skip_ws_idem b)) as (d & E & FS).
  exists d. split; [assumption|]. split; [assumption|]. split; [lia|assumption].
Qed.

Lemma tok_total : tok_total_statement.
Proof.
  intros b Hw Hl. unfold tokenize. destruct (tokenize_flags b Hw Hl) as (d & E & H). rewrite E.
  destruct (run_total (length b) d (2 * length b + 8) Hl ltac:(lia) b (length b) (t_init b) (le_n _) H
              (ex_intro _ [] eq_refl) (S (length b)) [] ltac:(lia)) as (ks & stf & R & C).
  exists ks, stf. split; [exact R|exact C].
Qed.

(* ================= g_tokens, equation by equation ================= *)
Definition gt_elems (f : nat) (depth : Z) : nat -> bytes -> Z -> list stoken -> option (list stoken * bytes) :=
  fix elems (n : nat) (b : bytes) (i : Z) (acc : list stoken) {struct n} : option (list stoken * bytes) :=
    match n with
    | O => None
    | S n' =>
        match g_tokens f b (depth + 1) i false with
        | None => None
        | Some (ts, r) =>
            match skip_ws r with
            | 44 :: r' => elems n' (skip_ws r') (i + 1) (acc ++ ts ++ [mk_punct 44])
            | 93 :: r' => Some (acc ++ ts ++ [mk_punct 93], r')
            | _ => None
            end
        end
    end.
Definition gt_after_elem (f : nat) (depth : Z) (n' : nat) (i : Z) (acc ts : list stoken) (r : bytes) : option (list stoken * bytes) :=
  match skip_ws r with
  | [] => None
  | c :: r' => if c =? 44 then gt_elems f depth n' (skip_ws r') (i + 1) (acc ++ ts ++ [mk_punct 44])
               else if c =? 93 then Some (acc ++ ts ++ [mk_punct 93], r') else None
  end.
Lemma gt_elems_eq f depth n' b i acc : gt_elems f depth (S n') b i acc =
  match g_tokens f b (depth + 1) i false with None => None | Some (ts, r) => gt_after_elem f depth n' i acc ts r end.
Proof.
  cbn [gt_elems]. destruct (g_tokens f b (depth + 1) i false) as [[ts r]|]; [|reflexivity]. unfold gt_after_elem.
  destruct (skip_ws r) as [|c r']; [reflexivity|]. zdeep c; reflexivity.
Qed.
Lemma g_tokens_array f r depth index iskey : g_tokens (S f) (91 :: r) depth index iskey =
  match skip_ws r with
  | [] => gt_elems f depth f [] 0 [mk_scalar [91] depth index iskey]
  | c :: r' => if c =? 93 then Some ([mk_scalar [91] depth index iskey; mk_punct 93], r')
               else gt_elems f depth f (c :: r') 0 [mk_scalar [91] depth index iskey]
  end.
Proof.
  change (g_tokens (S f) (91 :: r) depth index iskey) with
    (match skip_ws r with
     | 93 :: r' => Some ([mk_scalar [91] depth index iskey; mk_punct 93], r')
     | r1 => gt_elems f depth f r1 0 [mk_scalar [91] depth index iskey]
     end).
  destruct (skip_ws r) as [|c r']; [reflexivity|]. zdeep c; reflexivity.
Qed.

Definition gt_members (f : nat) (depth : Z) : nat -> bytes -> Z -> list stoken -> option (list stoken * bytes) :=
  fix members (n : nat) (b : bytes) (i : Z) (acc : list stoken) {struct n} : option (list stoken * bytes) :=
    match n with
    | O => None
    | S n' =>
        match b with
        | 34 :: k =>
            match g_string k with
            | None => None
            | Some r =>
                let key := mk_scalar (consumed b r) (depth + 1) i true in
                match skip_ws r with
                | 58 :: r' =>
                    match g_tokens f (skip_ws r') (depth + 1) i false with
                    | None => None
                    | Some (ts, r) =>
                        match skip_ws r with
                        | 44 :: r' => members n' (skip_ws r') (i + 1) (acc ++ [key; mk_punct 58] ++ ts ++ [mk_punct 44])
                        | 125 :: r' => Some (acc ++ [key; mk_punct 58] ++ ts ++ [mk_punct 125], r')
                        | _ => None
                        end
                    end
                | _ => None
                end
            end
        | _ => None
        end
    end.
Definition gt_after_member (f : nat) (depth : Z) (n' : nat) (i : Z) (acc : list stoken) (key : stoken) (ts : list stoken) (r : bytes)
  : option (list stoken * bytes) :=
  match skip_ws r with
  | [] => None
  | c :: r' => if c =? 44 then gt_members f depth n' (skip_ws r') (i + 1) (acc ++ [key; mk_punct 58] ++ ts ++ [mk_punct 44])
               else if c =? 125 then Some (acc ++ [key; mk_punct 58] ++ ts ++ [mk_punct 125], r') else None
  end.
Definition gt_after_key (f : nat) (depth : Z) (n' : nat) (i : Z) (acc : list stoken) (key : stoken) (r : bytes)
  : option (list stoken * bytes) :=
  match skip_ws r with
  | [] => None
  | c :: r' => if c =? 58 then
                 match g_tokens f (skip_ws r') (depth + 1) i false with
                 | None => None
                 | Some (ts, r) => gt_after_member f depth n' i acc key ts r
                 end
               else None
  end.
Lemma gt_members_eq f depth n' b i acc : gt_members f depth (S n') b i acc =
  match g_str_tok b with
  | None => None
  | Some r => gt_after_key f depth n' i acc (mk_scalar (consumed b r) (depth + 1) i true) r
  end.
Proof.
  cbn [gt_members]. unfold g_str_tok. destruct b as [|c k]; [reflexivity|].
  zdeep c; try reflexivity. cbv beta iota delta [Z.eqb Pos.eqb].
  destruct (g_string k) as [r|]; [|reflexivity]. cbv zeta. unfold gt_after_key.
  destruct (skip_ws r) as [|x r']; [reflexivity|]. zdeep x; try reflexivity.
  cbv beta iota delta [Z.eqb Pos.eqb].
  destruct (g_tokens f (skip_ws r') (depth + 1) i false) as [[ts r2]|]; [|reflexivity].
  unfold gt_after_member. destruct (skip_ws r2) as [|y r3]; [reflexivity|]. zdeep y; reflexivity.
Qed.
Lemma g_tokens_object f r depth index iskey : g_tokens (S f) (123 :: r) depth index iskey =
  match skip_ws r with
  | [] => gt_members f depth f [] 0 [mk_scalar [123] depth index iskey]
  | c :: r' => if c =? 125 then Some ([mk_scalar [123] depth index iskey; mk_punct 125], r')
               else gt_members f depth f (c :: r') 0 [mk_scalar [123] depth index iskey]
  end.
Proof.
  change (g_tokens (S f) (123 :: r) depth index iskey) with
    (match skip_ws r with
     | 125 :: r' => Some ([mk_scalar [123] depth index iskey; mk_punct 125], r')
     | r1 => gt_members f depth f r1 0 [mk_scalar [123] depth index iskey]
     end).
  destruct (skip_ws r) as [|c r']; [reflexivity|]. zdeep c; reflexivity.
Qed.
Lemma g_tokens_other f c r depth index iskey : (c =? 91) || (c =? 123) = false ->
  g_tokens (S f) (c :: r) depth index iskey =
  match g_value (S f) (c :: r) with
  | Some r' => Some ([mk_scalar (consumed (c :: r) r') depth index iskey], r')
  | None => None
  end.
Proof. zdeep c; try reflexivity; intros H; discriminate H. Qed.
Lemma g_tokens_nil f depth index iskey : g_tokens f [] depth index iskey = None.
Proof. destruct f; reflexivity. Qed.
Lemma gt_elems_nil f depth n i acc : gt_elems f depth n [] i acc = None.
Proof. destruct n; [reflexivity|]. rewrite gt_elems_eq, g_tokens_nil. reflexivity. Qed.
Lemma gt_members_nil f depth n i acc : gt_members f depth n [] i acc = None.
Proof. destruct n; reflexivity. Qed.

(* ================= the scope stack ================= *)
Lemma stack_index_snoc s t n0 : stack_index (s ++ [(t, n0)]) = n0 - 1.
Proof. unfold stack_index. rewrite rev_app_distr. reflexivity. Qed.
Lemma stack_pop_snoc s t n0 : stack_pop (s ++ [(t, n0)]) t = Some s.
Proof. unfold stack_pop. rewrite rev_app_distr. cbn [rev app]. rewrite Z.eqb_refl, rev_involutive. reflexivity. Qed.
Lemma stack_incr_snoc s t n0 : stack_incr (s ++ [(t, n0)]) = s ++ [(t, n0 + 1)].
Proof. unfold stack_incr. rewrite rev_app_distr. cbn [rev app]. rewrite rev_involutive. reflexivity. Qed.
Lemma stack_top_snoc s t n0 t' : stack_top_is (s ++ [(t, n0)]) t' = (t =? t').
Proof. unfold stack_top_is. rewrite rev_app_distr. reflexivity. Qed.
Lemma len_snoc {A} (s : list A) x : len (s ++ [x]) = len s + 1.
Proof. rewrite len_app. reflexivity. Qed.
Lemma len_snoc_nz {A} (s : list A) x : (len (s ++ [x]) =? 0) = false.
Proof. rewrite len_snoc. pose proof (len_nonneg s). lia. Qed.

(* ================= the state machine, delimiter by delimiter ================= *)
Definition mk_st (dl : Z) (v : bytes) (depth index : Z) (iskn : bool) (json : bytes) (stk : list (Z * Z)) (k : Z) : tstate :=
  {| t_delim := dl; t_value := v; t_err := false; t_depth := depth; t_index := index; t_iskey := false;
     t_iskey_next := iskn; t_json := json; t_stack := stk; t_kind := k |}.
Lemma mach_open_arr s1 k : t_delim s1 = 91 -> t_err s1 = false ->
  t_mach s1 k = Some (true, mk_st 91 (t_value s1) (len (t_stack s1)) (stack_index (t_stack s1)) (t_iskey_next s1) (t_json s1)
                               (t_stack s1 ++ [(0, 1)]) k).
Proof. intros H1 H2. unfold t_mach. rewrite H1, H2. reflexivity. Qed.
Lemma mach_open_obj s1 k : t_delim s1 = 123 -> t_err s1 = false ->
  t_mach s1 k = Some (true, mk_st 123 (t_value s1) (len (t_stack s1)) (stack_index (t_stack s1)) true (t_json s1)
                               (t_stack s1 ++ [(1, 1)]) k).
Proof. intros H1 H2. unfold t_mach. rewrite H1, H2. reflexivity. Qed.
Lemma mach_close_arr s1 k stk n0 : t_delim s1 = 93 -> t_stack s1 = stk ++ [(0, n0)] ->
  t_mach s1 k = Some (true, mk_st 93 (t_value s1) (len (stk ++ [(0, n0)]) - 1) (stack_index stk) (t_iskey_next s1) (t_json s1) stk k).
Proof. intros H1 H2. unfold t_mach. rewrite H1, H2, stack_pop_snoc. reflexivity. Qed.
Lemma mach_close_obj s1 k stk n0 : t_delim s1 = 125 -> t_stack s1 = stk ++ [(1, n0)] ->
  t_mach s1 k = Some (true, mk_st 125 (t_value s1) (len (stk ++ [(1, n0)]) - 1) (stack_index stk) false (t_json s1) stk k).
Proof. intros H1 H2. unfold t_mach. rewrite H1, H2, stack_pop_snoc. reflexivity. Qed.
Lemma mach_colon s1 k : t_delim s1 = 58 -> t_err s1 = false ->
  t_mach s1 k = Some (true, mk_st 58 (t_value s1) (len (t_stack s1)) (stack_index (t_stack s1)) false (t_json s1) (t_stack s1) k).
Proof. intros H1 H2. unfold t_mach. rewrite H1, H2. reflexivity. Qed.
Lemma mach_comma s1 k stk t n0 : t_delim s1 = 44 -> t_err s1 = false -> t_stack s1 = stk ++ [(t, n0)] ->
  t_mach s1 k = Some (true, mk_st 44 (t_value s1) (len (stk ++ [(t, n0)])) (stack_index (stk ++ [(t, n0)]))
                               (if t =? 1 then true else t_iskey_next s1) (t_json s1) (stk ++ [(t, n0 + 1)]) k).
Proof.
  intros H1 H2 H3. unfold t_mach. rewrite H1, H2, H3, len_snoc_nz, stack_top_snoc, stack_incr_snoc. reflexivity.
Qed.

(* ================= runs of the tokenizer ================= *)
Lemma consumed_sf (j : bytes) i : 0 <= i <= len j -> consumed j (slice_from j i) = slice_to j i.
Proof.
  intros H. unfold consumed, slice_from, slice_to. f_equal. rewrite skipn_length. unfold len in H. lia.
Qed.
Lemma token_matches_punct st' c : t_value st' = [c] -> token_matches (tok_of st') (mk_punct c) = true.
Proof. intros H. unfold token_matches, tok_of. cbn. rewrite H. cbn. rewrite Z.eqb_refl. reflexivity. Qed.
Lemma token_matches_scalar st' v depth index iskey :
  t_value st' = v -> t_depth st' = depth -> t_index st' = index -> t_iskey st' = iskey ->
  token_matches (tok_of st') (mk_scalar v depth index iskey) = true.
Proof.
  intros H1 H2 H3 H4. unfold token_matches, tok_of. cbn. rewrite H1, H2, H3, H4, bytes_eqb_refl, !Z.eqb_refl.
  destruct iskey; reflexivity.
Qed.

Section Exact.
  Variables (n : nat) (d : Z) (pfuel : nat).
  Hypothesis Hn : Z.of_nat n < 2 ^ 62.
  Hypothesis Hp : (n < pfuel)%nat.

  Definition tmatch (k : token) (s : stoken) : Prop := token_matches k s = true.
  Inductive steps : tstate -> list token -> tstate -> Prop :=
  | steps_nil st : steps st [] st
  | steps_cons st st' st'' ks : t_next pfuel d st = Some (true, st') -> steps st' ks st'' -> steps st (tok_of st' :: ks) st''.
  Lemma steps_app a k1 b k2 c : steps a k1 b -> steps b k2 c -> steps a (k1 ++ k2) c.
  Proof. induction 1; intros H2; [exact H2|]. cbn [app]. econstructor; eauto. Qed.
  Lemma steps_len st ks st' : okj n d (t_json st) -> steps st ks st' ->
    okj n d (t_json st') /\ (length ks + length (t_json st') <= length (t_json st))%nat.
  Proof.
    intros H S. induction S as [st|st st' st'' ks E S IH]; [split; [assumption|cbn; lia]|].
    destruct (next_gen n d pfuel Hn Hp st H) as (r & st2 & E2 & H2). rewrite E in E2. injection E2 as <- <-.
    destruct (H2 eq_refl) as [V J]. destruct (IH (okj_next n d pfuel Hn Hp _ _ H E)) as [O L]. split; [exact O|].
    pose proof (skip_ws_length (t_json st)) as SL. rewrite J, app_length in SL.
    destruct (t_value st'); [congruence|]. cbn [length] in *. lia.
  Qed.
  Lemma t_run_steps st ks st' stf : steps st ks st' -> t_next pfuel d st' = Some (false, stf) ->
    forall fuel acc, (length ks < fuel)%nat -> t_run fuel pfuel d st acc = Some (rev acc ++ ks, stf).
  Proof.
    intros S F. induction S as [st|st st' st'' ks E S IH]; intros fuel acc Hf; (destruct fuel as [|fuel]; [cbn [length] in Hf; lia|]); cbn [t_run].
    - rewrite F, app_nil_r. reflexivity.
    - rewrite E. fold (tok_of st'). rewrite (IH F) by (cbn [length] in Hf; lia). cbn [rev]. rewrite <- app_assoc. reflexivity.
  Qed.

  (* where the tokenizer stands: rest of the input, scope stack, the isKey field; no error *)
  Definition tk_at (st : tstate) (r : bytes) (stk : list (Z * Z)) (k : bool) : Prop :=
    t_json st = r /\ t_stack st = stk /\ t_iskey_next st = k /\ t_err st = false /\ okj n d (t_json st).
  Definition runs (st : tstate) (ts : list stoken) (r : bytes) (stk : list (Z * Z)) (k : bool) : Prop :=
    exists ks st', steps st ks st' /\ Forall2 tmatch ks ts /\ tk_at st' r stk k.
  Lemma runs_seq st ts1 ts2 r1 stk1 k1 r stk k : runs st ts1 r1 stk1 k1 ->
    (forall st1, tk_at st1 r1 stk1 k1 -> runs st1 ts2 r stk k) -> runs st (ts1 ++ ts2) r stk k.
  Proof.
    intros (ks1 & st1 & S1 & M1 & A1) H. destruct (H st1 A1) as (ks2 & st2 & S2 & M2 & A2).
    exists (ks1 ++ ks2), st2. split; [eapply steps_app; eassumption|]. split; [apply Forall2_app; assumption|assumption].
  Qed.
  Lemma runs_one st st' s r stk k : okj n d (t_json st) -> t_next pfuel d st = Some (true, st') -> tmatch (tok_of st') s ->
    t_json st' = r -> t_stack st' = stk -> t_iskey_next st' = k -> t_err st' = false -> runs st [s] r stk k.
  Proof.
    intros O E M H1 H2 H3 H4. exists [tok_of st'], st'. split; [econstructor; [exact E|constructor]|].
    split; [constructor; [exact M|constructor]|]. repeat (split; [assumption|]). apply (okj_next n d pfuel Hn Hp _ _ O E).
  Qed.

  (* a delimiter goes through the scan phase unchanged *)
  Lemma next_delim st c r : t_err st = false -> skip_ws (t_json st) = c :: r -> is_delim c = true ->
    exists s1 k, t_next pfuel d st = t_mach s1 k /\ t_delim s1 = c /\ t_value s1 = [c] /\ t_json s1 = r /\ t_err s1 = false /\
      t_stack s1 = t_stack st /\ t_iskey_next s1 = t_iskey_next st.
  Proof.
    intros H1 H2 H3. rewrite t_next_eq, H1. cbv zeta. rewrite skipSpaces_spec, H2. unfold t_scan.
    destruct (Z.eqb_spec c 34); [subst c; discriminate H3|].
    destruct (Z.eqb_spec c 110); [subst c; discriminate H3|].
    destruct (Z.eqb_spec c 116); [subst c; discriminate H3|].
    destruct (Z.eqb_spec c 102); [subst c; discriminate H3|].
    destruct ((c =? 45) || ((48 <=? c) && (c <=? 57))) eqn:T; [unfold is_delim in H3; clear - H3 T; lia|].
    rewrite H3. eexists. eexists. split; [reflexivity|]. cbn [t_delim t_value t_json t_err t_stack t_iskey_next].
    repeat split.
  Qed.

  Lemma run_open_arr st j0 stk k r : tk_at st j0 stk k -> skip_ws j0 = 91 :: r ->
    runs st [mk_scalar [91] (len stk) (stack_index stk) false] r (stk ++ [(0, 1)]) k.
  Proof.
    intros (A1 & A2 & A3 & A4 & A5) J. rewrite <- A1 in J.
    destruct (next_delim st 91 r A4 J eq_refl) as (s1 & k1 & E & D1 & D2 & D3 & D4 & D5 & D6).
    rewrite (mach_open_arr s1 k1 D1 D4) in E. eapply runs_one; [exact A5|exact E| | | | |]; cbn; try congruence.
    apply token_matches_scalar; cbn; congruence.
  Qed.
  Lemma run_open_obj st j0 stk k r : tk_at st j0 stk k -> skip_ws j0 = 123 :: r ->
    runs st [mk_scalar [123] (len stk) (stack_index stk) false] r (stk ++ [(1, 1)]) true.
  Proof.
    intros (A1 & A2 & A3 & A4 & A5) J. rewrite <- A1 in J.
    destruct (next_delim st 123 r A4 J eq_refl) as (s1 & k1 & E & D1 & D2 & D3 & D4 & D5 & D6).
    rewrite (mach_open_obj s1 k1 D1 D4) in E. eapply runs_one; [exact A5|exact E| | | | |]; cbn; try congruence.
    apply token_matches_scalar; cbn; congruence.
  Qed.
  Lemma run_close_arr st j0 stk n0 k r : tk_at st j0 (stk ++ [(0, n0)]) k -> skip_ws j0 = 93 :: r ->
    runs st [mk_punct 93] r stk k.
  Proof.
    intros (A1 & A2 & A3 & A4 & A5) J. rewrite <- A1 in J.
    destruct (next_delim st 93 r A4 J eq_refl) as (s1 & k1 & E & D1 & D2 & D3 & D4 & D5 & D6).
    rewrite (mach_close_arr s1 k1 stk n0 D1 ltac:(congruence)) in E.
    eapply runs_one; [exact A5|exact E| | | | |]; cbn; try congruence.
    apply token_matches_punct; cbn; congruence.
  Qed.
  Lemma run_close_obj st j0 stk n0 k r : tk_at st j0 (stk ++ [(1, n0)]) k -> skip_ws j0 = 125 :: r ->
    runs st [mk_punct 125] r stk false.
  Proof.
    intros (A1 & A2 & A3 & A4 & A5) J. rewrite <- A1 in J.
    destruct (next_delim st 125 r A4 J eq_refl) as (s1 & k1 & E & D1 & D2 & D3 & D4 & D5 & D6).
    rewrite (mach_close_obj s1 k1 stk n0 D1 ltac:(congruence)) in E.
    eapply runs_one; [exact A5|exact E| | | | |]; cbn; try congruence.
    apply token_matches_punct; cbn; congruence.
  Qed.
  Lemma run_colon st j0 stk k r : tk_at st j0 stk k -> skip_ws j0 = 58 :: r -> runs st [mk_punct 58] r stk false.
  Proof.
    intros (A1 & A2 & A3 & A4 & A5) J. rewrite <- A1 in J.
    destruct (next_delim st 58 r A4 J eq_refl) as (s1 & k1 & E & D1 & D2 & D3 & D4 & D5 & D6).
    rewrite (mach_colon s1 k1 D1 D4) in E. eapply runs_one; [exact A5|exact E| | | | |]; cbn; try congruence.
    apply token_matches_punct; cbn; congruence.
  Qed.
  Lemma run_comma st j0 stk t n0 k r : tk_at st j0 (stk ++ [(t, n0)]) k -> skip_ws j0 = 44 :: r ->
    runs st [mk_punct 44] r (stk ++ [(t, n0 + 1)]) (if t =? 1 then true else k).
  Proof.
    intros (A1 & A2 & A3 & A4 & A5) J. rewrite <- A1 in J.
    destruct (next_delim st 44 r A4 J eq_refl) as (s1 & k1 & E & D1 & D2 & D3 & D4 & D5 & D6).
    rewrite (mach_comma s1 k1 stk t n0 D1 D4 ltac:(congruence)) in E.
    eapply runs_one; [exact A5|exact E| | | | |]; cbn; try congruence.
    - apply token_matches_punct; cbn; congruence.
    - rewrite D6, A3. reflexivity.
  Qed.
  (* a scalar: the scanner chosen by the first byte consumes exactly what the grammar consumes *)
  Lemma run_scalar st j0 stk k c r r' f : tk_at st j0 stk k -> skip_ws j0 = c :: r -> (c =? 91) || (c =? 123) = false ->
    g_value (S f) (c :: r) = Some r' ->
    runs st [mk_scalar (consumed (c :: r) r') (len stk) (stack_index stk) k] r' stk k.
  Proof.
    intros (A1 & A2 & A3 & A4 & A5) J C G. rewrite <- A1 in J.
    destruct (okj_head n d pfuel Hn Hp _ A5) as (W & L & F & P).
    pose proof (okj_next n d pfuel Hn Hp st) as ON.
    rewrite t_next_eq, A4 in ON. cbv zeta in ON. rewrite skipSpaces_spec in ON.
    assert (TN : t_next pfuel d st = match t_scan pfuel d st c (c :: r) with None => None | Some (s1, kind) => t_mach s1 kind end).
    { rewrite t_next_eq, A4. cbv zeta. rewrite skipSpaces_spec, J. reflexivity. }
    rewrite J in W, L, F, P, ON.
    destruct (scan_gen pfuel d st c r f W L F P) as (s1 & k1 & E & S1 & S2 & [D|S]).
    - exfalso. destruct D as (D & _). rewrite (g_value_bad (S f) c r) in G; [discriminate G|].
      unfold is_delim in D. clear - D C. lia.
    - destruct S as (_ & S3 & e & S4 & (v' & r2 & k' & e' & Eq & Hok & Herr)). injection Eq as <- <- <- <-.
      assert (e = None) as -> by (destruct e as [e|]; [|reflexivity]; rewrite Herr in G by discriminate; discriminate G).
      destruct (Hok eq_refl) as (G2 & i & I1 & I2 & I3). rewrite G in G2. injection G2 as G2.
      rewrite E in TN, ON. rewrite (mach_scalar s1 k1 S3) in TN, ON.
      assert (LV : (len (t_value s1) =? 0) = false).
      { rewrite I2. unfold slice_to, len. rewrite firstn_length. unfold len in I1. lia. }
      rewrite LV, S4 in TN, ON. cbn [isnil negb andb] in TN, ON.
      eexists. eexists. split; [econstructor; [exact TN|constructor]|].
      split; [constructor; [|constructor]|].
      + apply token_matches_scalar; cbn [t_value t_depth t_index t_iskey]; try congruence.
        rewrite I2, G2, I3. symmetry. apply consumed_sf. lia.
      + split; [cbn; congruence|]. split; [cbn; congruence|]. split; [cbn; congruence|]. split; [reflexivity|].
        apply ON; [assumption|reflexivity].
  Qed.

  (* ================= a whole value ================= *)
  Definition value_ok (f : nat) : Prop :=
    forall j depth index ts r, g_tokens f j depth index false = Some (ts, r) ->
    forall st j0 stk, tk_at st j0 stk false -> skip_ws j0 = j -> len stk = depth -> stack_index stk = index ->
    runs st ts r stk false.

  Lemma elems_ok f depth stk : value_ok f -> len stk = depth ->
    forall m b i acc tsall r, gt_elems f depth m b i acc = Some (tsall, r) ->
    exists ts', tsall = acc ++ ts' /\
      forall st j0, tk_at st j0 (stk ++ [(0, i + 1)]) false -> skip_ws j0 = b -> runs st ts' r stk false.
  Proof.
    intros IHv Hd. induction m as [|m IHm]; intros b i acc tsall r G; [discriminate G|].
    rewrite gt_elems_eq in G. destruct (g_tokens f b (depth + 1) i false) as [[ts1 r1]|] eqn:G1; [|discriminate G].
    unfold gt_after_elem in G. destruct (skip_ws r1) as [|c r'] eqn:J1; [discriminate G|].
    assert (R1 : forall st j0, tk_at st j0 (stk ++ [(0, i + 1)]) false -> skip_ws j0 = b ->
                 runs st ts1 r1 (stk ++ [(0, i + 1)]) false).
    { intros st j0 A J. apply (IHv _ _ _ _ _ G1 st j0 _ A J).
      - rewrite len_snoc, Hd. reflexivity.
      - rewrite stack_index_snoc. lia. }
    destruct (Z.eqb_spec c 44) as [->|C1].
    - destruct (IHm _ _ _ _ _ G) as (ts2 & E2 & R2).
      exists (ts1 ++ [mk_punct 44] ++ ts2). split; [rewrite E2, <- !app_assoc; reflexivity|].
      intros st j0 A J. apply (runs_seq _ _ _ _ _ _ _ _ _ (R1 st j0 A J)). intros st1 A1.
      apply (runs_seq _ _ _ _ _ _ _ _ _ (run_comma st1 r1 stk 0 (i + 1) false r' A1 J1)). intros st2 A2.
      apply (R2 st2 r' A2 eq_refl).
    - destruct (Z.eqb_spec c 93) as [->|C2]; [|discriminate G]. injection G as <- <-.
      exists (ts1 ++ [mk_punct 93]). split; [reflexivity|].
      intros st j0 A J. apply (runs_seq _ _ _ _ _ _ _ _ _ (R1 st j0 A J)). intros st1 A1.
      apply (run_close_arr st1 r1 stk (i + 1) false _ A1 J1).
  Qed.

  Lemma members_ok f depth stk : value_ok f -> len stk = depth ->
    forall m b i acc tsall r, gt_members f depth m b i acc = Some (tsall, r) ->
    exists ts', tsall = acc ++ ts' /\
      forall st j0, tk_at st j0 (stk ++ [(1, i + 1)]) true -> skip_ws j0 = b -> runs st ts' r stk false.
  Proof.
    intros IHv Hd. induction m as [|m IHm]; intros b i acc tsall r G; [discriminate G|].
    rewrite gt_members_eq in G. destruct (g_str_tok b) as [rk|] eqn:GK; [|discriminate G].
    unfold g_str_tok in GK. destruct b as [|c k]; [discriminate GK|].
    destruct (Z.eqb_spec c 34) as [->|C0]; [|discriminate GK].
    set (key := mk_scalar (consumed (34 :: k) rk) (depth + 1) i true) in *.
    unfold gt_after_key in G. destruct (skip_ws rk) as [|c2 r2] eqn:J2; [discriminate G|].
    destruct (Z.eqb_spec c2 58) as [->|C2]; [|discriminate G].
    destruct (g_tokens f (skip_ws r2) (depth + 1) i false) as [[ts1 r1]|] eqn:G1; [|discriminate G].
    unfold gt_after_member in G. destruct (skip_ws r1) as [|c3 r3] eqn:J3; [discriminate G|].
    assert (R1 : forall st j0, tk_at st j0 (stk ++ [(1, i + 1)]) true -> skip_ws j0 = 34 :: k ->
                 runs st ([key] ++ [mk_punct 58] ++ ts1) r1 (stk ++ [(1, i + 1)]) false).
    { intros st j0 A J.
      pose proof (run_scalar st j0 _ true 34 k rk 0 A J eq_refl GK) as RK.
      rewrite len_snoc, stack_index_snoc, Hd in RK. replace (i + 1 - 1) with i in RK by lia. fold key in RK.
      apply (runs_seq _ _ _ _ _ _ _ _ _ RK). intros st1 A1.
      apply (runs_seq _ _ _ _ _ _ _ _ _ (run_colon st1 rk _ true r2 A1 J2)). intros st2 A2.
      apply (IHv _ _ _ _ _ G1 st2 r2 _ A2 eq_refl).
      - rewrite len_snoc, Hd. reflexivity.
      - rewrite stack_index_snoc. lia. }
    destruct (Z.eqb_spec c3 44) as [->|C3].
    - destruct (IHm _ _ _ _ _ G) as (ts2 & E2 & R2).
      exists (([key] ++ [mk_punct 58] ++ ts1) ++ [mk_punct 44] ++ ts2). split; [rewrite E2, <- !app_assoc; reflexivity|].
      intros st j0 A J. apply (runs_seq _ _ _ _ _ _ _ _ _ (R1 st j0 A J)). intros st1 A1.
      apply (runs_seq _ _ _ _ _ _ _ _ _ (run_comma st1 r1 stk 1 (i + 1) false r3 A1 J3)). intros st2 A2.
      apply (R2 st2 r3 A2 eq_refl).
    - destruct (Z.eqb_spec c3 125) as [->|C4]; [|discriminate G]. injection G as <- <-.
      exists (([key] ++ [mk_punct 58] ++ ts1) ++ [mk_punct 125]). split; [rewrite <- !app_assoc; reflexivity|].
      intros st j0 A J. apply (runs_seq _ _ _ _ _ _ _ _ _ (R1 st j0 A J)). intros st1 A1.
      apply (run_close_obj st1 r1 stk (i + 1) false _ A1 J3).
  Qed.

  Lemma run_value : forall f, value_ok f.
  Proof.
    induction f as [|f IH]; intros j depth index ts r G st j0 stk A J D I; [discriminate G|].
    destruct j as [|c r0]; [rewrite g_tokens_nil in G; discriminate G|]. subst depth index.
    destruct (Z.eqb_spec c 91) as [->|C1].
    { rewrite g_tokens_array in G. pose proof (run_open_arr st j0 stk false r0 A J) as R0.
      destruct (skip_ws r0) as [|c' r'] eqn:J1; [rewrite gt_elems_nil in G; discriminate G|].
      destruct (Z.eqb_spec c' 93) as [->|C'].
      - injection G as <- <-.
        apply (runs_seq _ [_] [_] _ _ _ _ _ _ R0). intros st1 A1. apply (run_close_arr st1 r0 stk 1 false _ A1 J1).
      - destruct (elems_ok f (len stk) stk IH eq_refl _ _ _ _ _ _ G) as (ts' & E & R). subst ts.
        apply (runs_seq _ _ _ _ _ _ _ _ _ R0). intros st1 A1. apply (R st1 r0 A1 J1). }
    destruct (Z.eqb_spec c 123) as [->|C2].
    { rewrite g_tokens_object in G. pose proof (run_open_obj st j0 stk false r0 A J) as R0.
      destruct (skip_ws r0) as [|c' r'] eqn:J1; [rewrite gt_members_nil in G; discriminate G|].
      destruct (Z.eqb_spec c' 125) as [->|C'].
      - injection G as <- <-.
        apply (runs_seq _ [_] [_] _ _ _ _ _ _ R0). intros st1 A1. apply (run_close_obj st1 r0 stk 1 true _ A1 J1).
      - destruct (members_ok f (len stk) stk IH eq_refl _ _ _ _ _ _ G) as (ts' & E & R). subst ts.
        apply (runs_seq _ _ _ _ _ _ _ _ _ R0). intros st1 A1. apply (R st1 r0 A1 J1). }
    assert (C : (c =? 91) || (c =? 123) = false) by lia.
    rewrite (g_tokens_other f c r0 _ _ _ C) in G.
    destruct (g_value (S f) (c :: r0)) as [r'|] eqn:GV; [|discriminate G]. injection G as <- <-.
    apply (run_scalar st j0 stk false c r0 r' f A J C GV).
  Qed.
End Exact.

Lemma tokens_match_Forall2 ks : forall ss, Forall2 tmatch ks ss -> tokens_match ks ss = true.
Proof. induction 1 as [|k s kr sr M _ IH]; [reflexivity|]. cbn [tokens_match]. rewrite M, IH. reflexivity. Qed.

Lemma tokens_exact : tokens_exact_statement.
Proof.
  intros b ss Hw Hl Hs. unfold spec_tokens in Hs.
  destruct (g_tokens (S (length b)) (skip_ws b) 0 0 false) as [[ts r]|] eqn:G; [|discriminate Hs].
  destruct (skip_ws r) as [|x l] eqn:Jr; [|discriminate Hs]. injection Hs as ->.
  unfold tokenize. destruct (tokenize_flags b Hw Hl) as (d & E & H). rewrite E.
  assert (Hp : (length b < 2 * length b + 8)%nat) by lia.
  assert (A : tk_at (length b) d (t_init b) b [] false) by (do 4 (split; [reflexivity|]); exact H).
  destruct (run_value (length b) d (2 * length b + 8) Hl Hp _ _ _ _ _ _ G (t_init b) b [] A eq_refl eq_refl eq_refl)
    as (ks & st' & Sts & M & (A1 & A2 & A3 & A4 & A5)).
  assert (F : t_next (2 * length b + 8) d st' = Some (false, t_init [])).
  { rewrite t_next_eq, A4. cbv zeta. rewrite skipSpaces_spec, A1, Jr. reflexivity. }
  destruct (steps_len (length b) d (2 * length b + 8) Hl Hp (t_init b) ks st' H Sts) as [_ L]. cbn [t_json t_init] in L.
  exists ks, (t_init []). split.
  - eapply t_run_steps with (acc := []); try eassumption; lia.
  - split; [reflexivity|]. apply tokens_match_Forall2. exact M.
Qed.

(* ================= tokens_concat: the specification tokens are the compacted document ================= *)
Local Notation sws := strip_ws_outside_strings.
Definition cval (ts : list stoken) : bytes := concat (map st_value ts).
Lemma cval_app a b : cval (a ++ b) = cval a ++ cval b.
Proof. unfold cval. rewrite map_app, concat_app. reflexivity. Qed.
Lemma cval_scalar v depth index iskey : cval [mk_scalar v depth index iskey] = v.
Proof. unfold cval. cbn [map concat st_value mk_scalar]. apply app_nil_r. Qed.
Lemma consumed_app (p r : bytes) : consumed (p ++ r) r = p.
Proof.
  unfold consumed. rewrite app_length. replace (length p + length r - length r)%nat with (length p) by lia.
  rewrite firstn_app, firstn_all, Nat.sub_diag. cbn [firstn]. apply app_nil_r.
Qed.
Lemma sws_skip_ws x : sws false false x = sws false false (skip_ws x).
Proof.
  induction x as [|c r IH]; [reflexivity|]. cbn [skip_ws sws]. destruct (is_ws c) eqn:W; [exact IH|].
  cbn [sws]. rewrite W. reflexivity.
Qed.
(* bytes that are copied outside a string: neither white space nor a quote *)
Definition numch (c : Z) : bool := negb (is_ws c) && negb (c =? 34).
Definition numsplit (b r : bytes) : Prop := exists p, b = p ++ r /\ forallb numch p = true.
Lemma numsplit_refl b : numsplit b b.
Proof. exists []. split; reflexivity. Qed.
Lemma numsplit_cons c b r : numch c = true -> numsplit b r -> numsplit (c :: b) r.
Proof. intros H (p & E & F). exists (c :: p). split; [rewrite E; reflexivity|]. cbn [forallb]. rewrite H, F. reflexivity. Qed.
Lemma numsplit_trans a b c : numsplit a b -> numsplit b c -> numsplit a c.
Proof.
  intros (p & E1 & F1) (q & E2 & F2). exists (p ++ q). split; [rewrite E1, E2, app_assoc; reflexivity|].
  rewrite forallb_app, F1, F2. reflexivity.
Qed.
Lemma numsplit_sws b r : numsplit b r -> exists p, b = p ++ r /\ forall x, sws false false (p ++ x) = p ++ sws false false x.
Proof.
  intros (p & E & F). exists p. split; [exact E|]. intros x. clear E. induction p as [|c p IH]; [reflexivity|].
  cbn [forallb] in F. apply andb_true_iff in F. destruct F as [F1 F2]. unfold numch in F1.
  apply andb_true_iff in F1. destruct F1 as [N1 N2]. apply negb_true_iff in N1, N2.
  cbn [app sws]. rewrite N1, N2, (IH F2). reflexivity.
Qed.
Lemma digit_numch c : is_digit c = true -> numch c = true.
Proof. unfold is_digit, numch, is_ws. lia. Qed.
Lemma skip_digits_split r : numsplit r (skip_digits r).
Proof.
  induction r as [|c r IH]; [apply numsplit_refl|]. cbn [skip_digits]. destruct (is_digit c) eqn:D; [|apply numsplit_refl].
  apply numsplit_cons; [apply digit_numch; exact D|exact IH].
Qed.
Lemma g_frac_split b r : g_frac b = Some r -> numsplit b r.
Proof.
  rewrite g_frac_eq. destruct b as [|c b]; [intros H; injection H as <-; apply numsplit_refl|].
  destruct (Z.eqb_spec c 46) as [->|C].
  - destruct b as [|x b]; [discriminate|]. destruct (is_digit x) eqn:D; [|discriminate]. intros H. injection H as <-.
    apply numsplit_cons; [reflexivity|]. apply numsplit_cons; [apply digit_numch; exact D|]. apply skip_digits_split.
  - intros H. injection H as <-. apply numsplit_refl.
Qed.
Lemma g_exp_split b r : g_exp b = Some r -> numsplit b r.
Proof.
  unfold g_exp. destruct b as [|e b]; [intros H; injection H as <-; apply numsplit_refl|].
  destruct ((e =? 101) || (e =? 69)) eqn:E; [|intros H; injection H as <-; apply numsplit_refl].
  assert (Ne : numch e = true) by (unfold numch, is_ws; lia).
  assert (T : forall b', match b' with x :: r' => if is_digit x then Some (skip_digits r') else None | [] => None end = Some r ->
              numsplit b' r).
  { intros [|x r'] H; [discriminate H|]. destruct (is_digit x) eqn:D; [|discriminate H]. injection H as <-.
    apply numsplit_cons; [apply digit_numch; exact D|apply skip_digits_split]. }
  destruct b as [|s b].
  - intros H. discriminate H.
  - destruct ((s =? 43) || (s =? 45)) eqn:Sg; intros H; apply numsplit_cons; try exact Ne.
    + apply numsplit_cons; [unfold numch, is_ws; lia|]. apply T. exact H.
    + apply T. exact H.
Qed.
Lemma g_number_split b r : g_number b = Some r -> numsplit b r.
Proof.
  rewrite g_number_eq.
  assert (B : forall b', g_number_body b' = Some r -> numsplit b' r).
  { intros [|c b'] H; [discriminate H|]. cbn [g_number_body] in H.
    assert (FE : forall x, match g_frac x with Some r0 => g_exp r0 | None => None end = Some r -> numsplit x r).
    { intros x Hx. destruct (g_frac x) as [r0|] eqn:Fx; [|discriminate Hx].
      eapply numsplit_trans; [apply g_frac_split; exact Fx|apply g_exp_split; exact Hx]. }
    destruct (Z.eqb_spec c 48) as [->|C].
    - apply numsplit_cons; [reflexivity|]. apply FE. exact H.
    - destruct (is_digit c) eqn:D; [|discriminate H]. apply numsplit_cons; [apply digit_numch; exact D|].
      eapply numsplit_trans; [apply skip_digits_split|apply FE; exact H]. }
  destruct b as [|c b]; [intros H; apply B; exact H|].
  destruct (Z.eqb_spec c 45) as [->|C]; intros H; [|apply B; exact H].
  apply numsplit_cons; [reflexivity|]. apply B. exact H.
Qed.

(* a string body is copied as it is, and the copy ends outside the string just after the closing quote *)
Lemma sws_in_cons c r : sws true false (c :: r) =
  c :: (if c =? 92 then sws true true r else if c =? 34 then sws false false r else sws true false r).
Proof. reflexivity. Qed.
Lemma sws_esc_cons c r : sws true true (c :: r) = c :: sws true false r.
Proof. reflexivity. Qed.
Lemma hex_plain h r : is_hex h = true -> sws true false (h :: r) = h :: sws true false r.
Proof.
  intros H. rewrite sws_in_cons. unfold is_hex, is_digit in H.
  destruct (Z.eqb_spec h 92); [lia|]. destruct (Z.eqb_spec h 34); [lia|]. reflexivity.
Qed.
Lemma g_string_split : forall m k r, (length k <= m)%nat -> g_string k = Some r ->
  exists p, k = p ++ r /\ forall x, sws true false (p ++ x) = p ++ sws false false x.
Proof.
  induction m as [|m IH]; intros k r Lk G; (destruct k as [|c k]; [discriminate G|]); [cbn [length] in Lk; lia|].
  cbn [length] in Lk. rewrite g_string_eq in G.
  destruct (Z.eqb_spec c 34) as [->|C1].
  { injection G as <-. exists [34]. split; [reflexivity|]. intros x. reflexivity. }
  destruct (Z.eqb_spec c 92) as [->|C2].
  { destruct k as [|e k]; [discriminate G|]. cbn [length] in Lk. destruct (is_escape_letter e).
    - destruct (IH k r ltac:(lia) G) as (p & E & F). exists (92 :: e :: p). split; [rewrite E; reflexivity|].
      intros x. cbn [app]. rewrite sws_in_cons. cbn [Z.eqb Pos.eqb]. rewrite sws_esc_cons, F. reflexivity.
    - destruct (Z.eqb_spec e 117) as [->|C3]; [|discriminate G].
      destruct k as [|h1 [|h2 [|h3 [|h4 k]]]]; try discriminate G. cbn [length] in Lk.
      destruct (is_hex h1) eqn:X1; [|discriminate G]. destruct (is_hex h2) eqn:X2; [|discriminate G].
      destruct (is_hex h3) eqn:X3; [|discriminate G]. destruct (is_hex h4) eqn:X4; [|discriminate G].
      cbn [andb] in G. destruct (IH k r ltac:(lia) G) as (p & E & F).
      exists (92 :: 117 :: h1 :: h2 :: h3 :: h4 :: p). split; [rewrite E; reflexivity|].
      intros x. cbn [app]. rewrite sws_in_cons. cbn [Z.eqb Pos.eqb]. rewrite sws_esc_cons.
      rewrite (hex_plain h1) by assumption. rewrite (hex_plain h2) by assumption.
      rewrite (hex_plain h3) by assumption. rewrite (hex_plain h4) by assumption. rewrite F. reflexivity. }
  destruct (c <? 32); [discriminate G|].
  destruct (IH k r ltac:(lia) G) as (p & E & F). exists (c :: p). split; [rewrite E; reflexivity|].
  intros x. cbn [app]. rewrite sws_in_cons.
  destruct (Z.eqb_spec c 92); [contradiction|]. destruct (Z.eqb_spec c 34); [contradiction|]. rewrite F. reflexivity.
Qed.

(* a scalar is copied as it is *)
Lemma scalar_split f c r0 r' : (c =? 91) || (c =? 123) = false -> g_value (S f) (c :: r0) = Some r' ->
  exists p, c :: r0 = p ++ r' /\ forall x, sws false false (p ++ x) = p ++ sws false false x.
Proof.
  intros C G.
  destruct (Z.eqb_spec c 34) as [->|C3].
  { rewrite g_value_string in G. destruct (g_string_split _ _ _ (le_n _) G) as (p & E & F).
    exists (34 :: p). split; [rewrite E; reflexivity|]. intros x. cbn [app sws]. cbn. rewrite F. reflexivity. }
  destruct (Z.eqb_spec c 110) as [->|C4].
  { rewrite g_value_null in G. apply strip_prefix_app in G. exists [110; 117; 108; 108]. split; [rewrite G; reflexivity|].
    intros x. reflexivity. }
  destruct (Z.eqb_spec c 116) as [->|C5].
  { rewrite g_value_true in G. apply strip_prefix_app in G. exists [116; 114; 117; 101]. split; [rewrite G; reflexivity|].
    intros x. reflexivity. }
  destruct (Z.eqb_spec c 102) as [->|C6].
  { rewrite g_value_false in G. apply strip_prefix_app in G. exists [102; 97; 108; 115; 101]. split; [rewrite G; reflexivity|].
    intros x. reflexivity. }
  rewrite g_value_other in G by lia. apply numsplit_sws. apply g_number_split. exact G.
Qed.
Lemma scalar_sws f c r0 r' : (c =? 91) || (c =? 123) = false -> g_value (S f) (c :: r0) = Some r' ->
  sws false false (c :: r0) = consumed (c :: r0) r' ++ sws false false r'.
Proof.
  intros C G. destruct (scalar_split f c r0 r' C G) as (p & E & F). rewrite E, consumed_app. apply F.
Qed.

Definition concat_ok (f : nat) : Prop :=
  forall j depth index iskey ts r, g_tokens f j depth index iskey = Some (ts, r) ->
    sws false false j = cval ts ++ sws false false r.
Lemma sws_punct c r0 r : is_ws c = false -> (c =? 34) = false -> skip_ws r0 = c :: r ->
  sws false false r0 = [c] ++ sws false false r.
Proof. intros W Q J. rewrite sws_skip_ws, J. cbn [sws app]. rewrite W, Q. reflexivity. Qed.
Lemma elems_concat f depth : concat_ok f ->
  forall m b i acc tsall r, gt_elems f depth m b i acc = Some (tsall, r) ->
  exists ts', tsall = acc ++ ts' /\ sws false false b = cval ts' ++ sws false false r.
Proof.
  intros IHv. induction m as [|m IHm]; intros b i acc tsall r G; [discriminate G|].
  rewrite gt_elems_eq in G. destruct (g_tokens f b (depth + 1) i false) as [[ts1 r1]|] eqn:G1; [|discriminate G].
  unfold gt_after_elem in G. destruct (skip_ws r1) as [|c r'] eqn:J1; [discriminate G|].
  pose proof (IHv _ _ _ _ _ _ G1) as E1.
  destruct (Z.eqb_spec c 44) as [->|C1].
  - destruct (IHm _ _ _ _ _ G) as (ts2 & E2 & R2).
    exists (ts1 ++ [mk_punct 44] ++ ts2). split; [rewrite E2, <- !app_assoc; reflexivity|].
    rewrite E1, (sws_punct 44 r1 r' eq_refl eq_refl J1), (sws_skip_ws r'), R2, !cval_app, <- !app_assoc. reflexivity.
  - destruct (Z.eqb_spec c 93) as [->|C2]; [|discriminate G]. injection G as <- <-.
    exists (ts1 ++ [mk_punct 93]). split; [reflexivity|].
    rewrite E1, (sws_punct 93 r1 r' eq_refl eq_refl J1), !cval_app, <- !app_assoc. reflexivity.
Qed.
Lemma members_concat f depth : concat_ok f ->
  forall m b i acc tsall r, gt_members f depth m b i acc = Some (tsall, r) ->
  exists ts', tsall = acc ++ ts' /\ sws false false b = cval ts' ++ sws false false r.
Proof.
  intros IHv. induction m as [|m IHm]; intros b i acc tsall r G; [discriminate G|].
  rewrite gt_members_eq in G. destruct (g_str_tok b) as [rk|] eqn:GK; [|discriminate G].
  unfold g_str_tok in GK. destruct b as [|c k]; [discriminate GK|].
  destruct (Z.eqb_spec c 34) as [->|C0]; [|discriminate GK].
  set (key := mk_scalar (consumed (34 :: k) rk) (depth + 1) i true) in *.
  unfold gt_after_key in G. destruct (skip_ws rk) as [|c2 r2] eqn:J2; [discriminate G|].
  destruct (Z.eqb_spec c2 58) as [->|C2]; [|discriminate G].
  destruct (g_tokens f (skip_ws r2) (depth + 1) i false) as [[ts1 r1]|] eqn:G1; [|discriminate G].
  unfold gt_after_member in G. destruct (skip_ws r1) as [|c3 r3] eqn:J3; [discriminate G|].
  pose proof (IHv _ _ _ _ _ _ G1) as E1.
  pose proof (scalar_sws 0 34 k rk eq_refl GK) as EK.
  assert (EM : sws false false (34 :: k) = cval ([key] ++ [mk_punct 58] ++ ts1) ++ sws false false r1).
  { rewrite EK, (sws_punct 58 rk r2 eq_refl eq_refl J2), (sws_skip_ws r2), E1, !cval_app, <- !app_assoc.
    unfold key. rewrite cval_scalar. reflexivity. }
  destruct (Z.eqb_spec c3 44) as [->|C3].
  - destruct (IHm _ _ _ _ _ G) as (ts2 & E2 & R2).
    exists (([key] ++ [mk_punct 58] ++ ts1) ++ [mk_punct 44] ++ ts2). split; [rewrite E2, <- !app_assoc; reflexivity|].
    rewrite EM, (sws_punct 44 r1 r3 eq_refl eq_refl J3), (sws_skip_ws r3), R2.
    rewrite (cval_app (_ ++ _ ++ _)), (cval_app [mk_punct 44]), <- !app_assoc. reflexivity.
  - destruct (Z.eqb_spec c3 125) as [->|C4]; [|discriminate G]. injection G as <- <-.
    exists (([key] ++ [mk_punct 58] ++ ts1) ++ [mk_punct 125]). split; [rewrite <- !app_assoc; reflexivity|].
    rewrite EM, (sws_punct 125 r1 r3 eq_refl eq_refl J3).
    rewrite (cval_app (_ ++ _ ++ _)), <- !app_assoc. reflexivity.
Qed.
Lemma concat_value : forall f, concat_ok f.
Proof.
  induction f as [|f IH]; intros j depth index iskey ts r G; [discriminate G|].
  destruct j as [|c r0]; [rewrite g_tokens_nil in G; discriminate G|].
  destruct (Z.eqb_spec c 91) as [->|C1].
  { rewrite g_tokens_array in G. change (sws false false (91 :: r0)) with ([91] ++ sws false false r0).
    destruct (skip_ws r0) as [|c' r'] eqn:J1; [rewrite gt_elems_nil in G; discriminate G|].
    destruct (Z.eqb_spec c' 93) as [->|C'].
    - injection G as <- <-. rewrite (sws_punct 93 r0 r' eq_refl eq_refl J1). reflexivity.
    - destruct (elems_concat f depth IH _ _ _ _ _ _ G) as (ts' & E & R). subst ts.
      rewrite cval_app, sws_skip_ws, J1, R, <- app_assoc. reflexivity. }
  destruct (Z.eqb_spec c 123) as [->|C2].
  { rewrite g_tokens_object in G. change (sws false false (123 :: r0)) with ([123] ++ sws false false r0).
    destruct (skip_ws r0) as [|c' r'] eqn:J1; [rewrite gt_members_nil in G; discriminate G|].
    destruct (Z.eqb_spec c' 125) as [->|C'].
    - injection G as <- <-. rewrite (sws_punct 125 r0 r' eq_refl eq_refl J1). reflexivity.
    - destruct (members_concat f depth IH _ _ _ _ _ _ G) as (ts' & E & R). subst ts.
      rewrite cval_app, sws_skip_ws, J1, R, <- app_assoc. reflexivity. }
  assert (C : (c =? 91) || (c =? 123) = false) by lia.
  rewrite (g_tokens_other f c r0 _ _ _ C) in G.
  destruct (g_value (S f) (c :: r0)) as [r'|] eqn:GV; [|discriminate G]. injection G as <- <-.
  rewrite (scalar_sws f c r0 r' C GV), cval_scalar. reflexivity.
Qed.

Lemma tokens_concat : tokens_concat_statement.
Proof.
  intros b ss _ Hs. unfold spec_tokens in Hs.
  destruct (g_tokens (S (length b)) (skip_ws b) 0 0 false) as [[ts r]|] eqn:G; [|discriminate Hs].
  destruct (skip_ws r) as [|x l] eqn:Jr; [|discriminate Hs]. injection Hs as ->.
  rewrite sws_skip_ws, (concat_value _ _ _ _ _ _ _ G), (sws_skip_ws r), Jr. cbn [strip_ws_outside_strings]. symmetry. apply app_nil_r.
Qed.
