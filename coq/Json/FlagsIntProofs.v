(* C14: the integer scanners of json/parse.go (machine translations parseUint / parseInt of Generated/JsonParseGen.v)
   return exactly the value of a digit string, or JErrOverflow when it does not fit uint64 / int64.
   Statements: Json/FlagsSpec.v (parse_uint_exact_statement, parse_int_exact_statement). *)
From Coq Require Import ZArith List Bool Lia.
From Verif Require Import Base.GoInt Json.Ext Json.Grammar Generated.JsonParseGen Json.FlagsModel Json.FlagsSpec.
From Verif Require Import Json.ValidProofs.
Import ListNotations.
Open Scope Z_scope.

Local Ltac zlia := Z.div_mod_to_equations; lia.

Definition scan_res : Type := option (Z * bytes * option json_err).

(* ================= digit strings ================= *)
Lemma all_digits_cons c r : all_digits (c :: r) = true -> 48 <= c <= 57 /\ all_digits r = true.
Proof.
  unfold all_digits. cbn [forallb]. intros H. apply andb_true_iff in H. destruct H as [H1 H2].
  apply andb_true_iff in H1. destruct H1 as [H1 H3]. split; [|exact H2].
  destruct (Z.leb_spec 48 c); [|discriminate]. destruct (Z.leb_spec c 57); [|discriminate]. lia.
Qed.
Lemma all_digits_hd_digit c r : all_digits (c :: r) = true -> is_digit c = true.
Proof.
  unfold all_digits, is_digit. cbn [forallb]. intros H. apply andb_true_iff in H. tauto.
Qed.
Lemma dvf_mono r : forall a a', a <= a' -> digits_value_from a r <= digits_value_from a' r.
Proof.
  induction r as [|c r IH]; intros a a' H; cbn [digits_value_from]; [exact H|]. apply IH. lia.
Qed.
Lemma dvf_ge r : all_digits r = true -> forall a, 0 <= a -> a <= digits_value_from a r.
Proof.
  induction r as [|c r IH]; intros H a Ha; cbn [digits_value_from]; [lia|].
  apply all_digits_cons in H. destruct H as [H1 H2]. specialize (IH H2 (a * 10 + (c - 48))). lia.
Qed.
Lemma dvf_app a p r : digits_value_from a (p ++ r) = digits_value_from (digits_value_from a p) r.
Proof. revert a. induction p as [|c p IH]; intros a; cbn [app digits_value_from]; [reflexivity|]. apply IH. Qed.

Lemma sub8_digit c : 48 <= c <= 57 -> sub8 c 48 = c - 48.
Proof. intros H. unfold sub8, w8. change (2 ^ 8) with 256. apply Z.mod_small. lia. Qed.
Lemma w64_small' x : 0 <= x <= 18446744073709551615 -> w64 x = x.
Proof. intros H. unfold w64. change (2 ^ 64) with 18446744073709551616. apply Z.mod_small. lia. Qed.
Lemma s64_small' x : - 9223372036854775808 <= x <= 9223372036854775807 -> s64 x = x.
Proof. intros H. apply s64_small. change (2 ^ 63) with 9223372036854775808. lia. Qed.

Lemma geb_digit c : ((c >=? 48) && (c <=? 57)) = is_digit c.
Proof. unfold is_digit. rewrite Z.geb_leb. reflexivity. Qed.

Lemma at_app_len p c r : at_ (p ++ c :: r) (len p) = c.
Proof. rewrite at_hd by apply len_nonneg. rewrite sf_app. reflexivity. Qed.
Lemma at_cons1 c l : at_ (c :: l) 1 = at_ l 0.
Proof. reflexivity. Qed.
Lemma at_cons2 c l : at_ (c :: l) 2 = at_ l 1.
Proof. reflexivity. Qed.

(* ================= the arithmetic of one step ================= *)
Lemma uint_step_test value x : 0 <= value -> 0 <= x <= 9 ->
  (value >? div64 (sub64 18446744073709551615 x) 10) = negb (value * 10 + x <=? 18446744073709551615).
Proof.
  intros Hv Hx. unfold div64, sub64. rewrite w64_small' by lia. rewrite Z.gtb_ltb.
  destruct (Z.ltb_spec ((18446744073709551615 - x) / 10) value);
    destruct (Z.leb_spec (value * 10 + x) 18446744073709551615); cbn [negb]; try reflexivity; zlia.
Qed.
Lemma uint_step_val value x : 0 <= value -> 0 <= x -> value * 10 + x <= 18446744073709551615 ->
  add64 (mul64 value 10) x = value * 10 + x.
Proof.
  intros Hv Hx H. unfold add64, mul64. rewrite (w64_small' (value * 10)) by lia. apply w64_small'. lia.
Qed.
Lemma int_step_test value x : 0 <= value -> 0 <= x <= 9 ->
  (value >? divi64 (subi64 9223372036854775807 x) 10) = negb (value * 10 + x <=? 9223372036854775807).
Proof.
  intros Hv Hx. unfold divi64, subi64. rewrite (s64_small' (9223372036854775807 - x)) by lia.
  rewrite Z.quot_div_nonneg by lia. rewrite s64_small' by zlia. rewrite Z.gtb_ltb.
  destruct (Z.ltb_spec ((9223372036854775807 - x) / 10) value);
    destruct (Z.leb_spec (value * 10 + x) 9223372036854775807); cbn [negb]; try reflexivity; zlia.
Qed.
Lemma int_step_val value x : 0 <= value -> 0 <= x -> value * 10 + x <= 9223372036854775807 ->
  addi64 (muli64 value 10) x = value * 10 + x.
Proof.
  intros Hv Hx H. unfold addi64, muli64. rewrite (s64_small' (value * 10)) by lia. apply s64_small'. lia.
Qed.

(* ================= the common tail: a fraction or exponent mark makes it a type error ================= *)
Definition int_k4 (fuel : nat) (d : Z) (b : bytes) (value count : Z) : scan_res :=
  let k1_ := fun (_ : unit) =>
    Some ((value, slice_from b count, None)) in
  if (count <? (len b)) then
    (let tag2_ := at_ b count in
    if ((tag2_ =? 46) || (tag2_ =? 101) || (tag2_ =? 69)) then
      (dlet (v, r, _, err) <- json_decoder_parseNumber fuel d b in
      let k3_ := fun (v : bytes) (r : bytes) =>
        Some ((0, r, (Some JErrType))) in
      if negb (isnil err) then
        (let '(v, r) := (slice_to b (addi64 count 1), slice_from b (addi64 count 1)) in
        k3_ v r)
      else
        (k3_ v r))
    else (k1_ tt))
  else
    (k1_ tt).

Definition scan_k (fuel : nat) (d : Z) (b : bytes) (t : unit) (value count : Z) : scan_res :=
  if (count =? 0) then
    (dlet (b_1, err_1) <- json_decoder_inputError fuel d b t in
    Some ((0, b_1, err_1)))
  else int_k4 fuel d b value count.

Lemma int_k4_spec fuel d p rest value : stops_integer rest ->
  int_k4 fuel d (p ++ rest) value (len p) = Some (value, rest, None).
Proof.
  intros Hs. unfold int_k4. cbv zeta. rewrite sf_app. destruct rest as [|c r].
  - rewrite app_nil_r, Z.ltb_irrefl. reflexivity.
  - rewrite at_app_len. cbn [stops_integer] in Hs. destruct Hs as (_ & H1 & H2 & H3).
    destruct (Z.eqb_spec c 46); [contradiction|]. destruct (Z.eqb_spec c 101); [contradiction|].
    destruct (Z.eqb_spec c 69); [contradiction|]. cbn [orb].
    destruct (len p <? len (p ++ c :: r)); reflexivity.
Qed.
Lemma scan_k_spec fuel d t p rest value : stops_integer rest -> p <> [] ->
  scan_k fuel d (p ++ rest) t value (len p) = Some (value, rest, None).
Proof.
  intros Hs Hp. unfold scan_k. destruct (Z.eqb_spec (len p) 0) as [E|E].
  - apply len_0_nil in E. contradiction.
  - apply int_k4_spec. exact Hs.
Qed.

Definition stops_digit (tail : bytes) : Prop :=
  match tail with [] => True | c :: _ => is_digit c = false end.
Lemma stops_integer_digit rest : stops_integer rest -> stops_digit rest.
Proof. destruct rest as [|c r]; cbn; tauto. Qed.

(* no superfluous leading zero: the syntax test in front of the loops fails *)
Lemma leading_zero_false (A : bool) ds rest : no_leading_zero ds -> stops_integer rest ->
  (((A && (at_ (ds ++ rest) 0 =? 48)) && (48 <=? at_ (ds ++ rest) 1)) && (at_ (ds ++ rest) 1 <=? 57)) = false.
Proof.
  intros Hz Hs. destruct ds as [|c [|c2 ds']]; [contradiction| |].
  - cbn [app]. destruct rest as [|x r].
    + change (at_ [c] 1) with 0. rewrite <- !andb_assoc. change (48 <=? 0) with false.
      cbn [andb]. rewrite !andb_false_r. reflexivity.
    + change (at_ (c :: x :: r) 1) with x. cbn [stops_integer] in Hs. destruct Hs as (Hd & _).
      unfold is_digit in Hd. rewrite <- !andb_assoc. rewrite Hd. rewrite !andb_false_r. reflexivity.
  - cbn [app]. rewrite at_0. destruct (Z.eqb_spec c 48) as [E|E].
    + subst c. cbn in Hz. contradiction.
    + rewrite andb_false_r. reflexivity.
Qed.

(* ================= parseUint ================= *)
Definition uint_loop (b : bytes) (K : Z -> Z -> scan_res) : nat -> Z -> Z -> scan_res :=
  fix loop5_ (f6_ : nat) (value : Z) (count : Z) {struct f6_} : scan_res :=
    match f6_ with
    | O => None
    | S f7_ =>
      if (((count <? (len b)) && ((at_ b count) >=? 48)) && ((at_ b count) <=? 57)) then
        (let x := sub8 (at_ b count) 48 in
      if (value >? (div64 (sub64 18446744073709551615 x) 10)) then
        (Some ((0, b, (Some JErrOverflow))))
      else
        (let value := add64 (mul64 value 10) x in
        let count := addi64 count 1 in
      loop5_ f7_ value count))
      else K value count
    end.

Lemma parseUint_eq fuel d b t : json_decoder_parseUint fuel d b t =
  if ((len b) =? 0) then Some (0, b, Some JErrSyntax)
  else if (((((len b) >? 1) && ((at_ b 0) =? 48)) && (48 <=? (at_ b 1))) && ((at_ b 1) <=? 57)) then
    Some (0, b, Some JErrSyntax)
  else uint_loop b (scan_k fuel d b t) fuel 0 0.
Proof. reflexivity. Qed.

Lemma uint_loop_spec b K : len b < 2 ^ 62 ->
  forall r tail i fuel value, 0 <= i -> slice_from b i = r ++ tail -> all_digits r = true -> stops_digit tail ->
    (length r < fuel)%nat -> 0 <= value <= 18446744073709551615 ->
    uint_loop b K fuel value i =
      if digits_value_from value r <=? 18446744073709551615 then K (digits_value_from value r) (i + len r)
      else Some (0, b, Some JErrOverflow).
Proof.
  intros Hb. change (2 ^ 62) with 4611686018427387904 in Hb.
  induction r as [|c r IH]; intros tail i fuel value Hi E0 Hd Ht Hf Hv.
  - destruct fuel as [|f]; [cbn in Hf; lia|]. cbn [uint_loop digits_value_from app] in *.
    change (len (@nil Z)) with 0. rewrite Z.add_0_r. destruct (Z.leb_spec value 18446744073709551615); [|lia].
    destruct tail as [|c tl].
    + pose proof (sf_nil _ _ Hi E0). destruct (Z.ltb_spec i (len b)); [lia|]. reflexivity.
    + pose proof (sf_cons _ _ _ _ Hi E0) as (E1 & E2 & E3). rewrite E2. rewrite <- andb_assoc, geb_digit.
      cbn [stops_digit] in Ht. rewrite Ht, andb_false_r. reflexivity.
  - destruct fuel as [|f]; [cbn in Hf; lia|]. cbn [uint_loop digits_value_from app] in *.
    pose proof (sf_cons _ _ _ _ Hi E0) as (E1 & E2 & E3). rewrite E2. rewrite <- andb_assoc, geb_digit.
    rewrite (all_digits_hd_digit _ _ Hd). destruct (Z.ltb_spec i (len b)); [|lia]. cbn [andb]. cbv zeta.
    apply all_digits_cons in Hd. destruct Hd as [Hc Hd]. rewrite sub8_digit by exact Hc.
    rewrite uint_step_test by lia. rewrite len_cons.
    destruct (Z.leb_spec (value * 10 + (c - 48)) 18446744073709551615) as [L|L]; cbn [negb].
    + rewrite uint_step_val by lia. rewrite addi64_small by (change (2 ^ 63) with 9223372036854775808; lia).
      rewrite (IH tail (i + 1) f (value * 10 + (c - 48))); [|lia|exact E3|exact Hd|exact Ht|cbn [length] in Hf; lia|lia].
      replace (i + 1 + len r) with (i + (len r + 1)) by lia. reflexivity.
    + pose proof (dvf_ge r Hd (value * 10 + (c - 48)) ltac:(lia)).
      destruct (Z.leb_spec (digits_value_from (value * 10 + (c - 48)) r) 18446744073709551615); [lia|]. reflexivity.
Qed.

Lemma parse_uint_exact : parse_uint_exact_statement.
Proof.
  intros fuel d ds rest Hd Hz Hs Hl Hf. rewrite parseUint_eq.
  assert (Hne : ds <> []) by (destruct ds; [contradiction|discriminate]).
  destruct (Z.eqb_spec (len (ds ++ rest)) 0) as [E|E].
  { apply len_0_nil in E. apply app_eq_nil in E. destruct E; contradiction. }
  rewrite leading_zero_false by assumption.
  rewrite (uint_loop_spec (ds ++ rest) _ Hl ds rest 0 fuel 0);
    [|lia|apply sf_0|exact Hd|apply stops_integer_digit; exact Hs|exact Hf|lia].
  unfold digits_value. change max_uint64 with 18446744073709551615.
  destruct (digits_value_from 0 ds <=? 18446744073709551615); [|reflexivity].
  rewrite Z.add_0_l. apply scan_k_spec; assumption.
Qed.

(* ================= parseInt ================= *)
Definition int_pos_loop (b : bytes) (K : Z -> Z -> scan_res) : nat -> Z -> Z -> scan_res :=
  fix loop12_ (f13_ : nat) (value : Z) (count : Z) {struct f13_} : scan_res :=
    match f13_ with
    | O => None
    | S f14_ =>
      if (((count <? (len b)) && ((at_ b count) >=? 48)) && ((at_ b count) <=? 57)) then
        (let x_1 := sub8 (at_ b count) 48 in
      if (value >? (divi64 (subi64 9223372036854775807 x_1) 10)) then
        (Some ((0, b, (Some JErrOverflow))))
      else
        (let value := addi64 (muli64 value 10) x_1 in
        let count := addi64 count 1 in
      loop12_ f14_ value count))
      else K value count
    end.

Definition int_neg_loop (b : bytes) (E : scan_res) (K5 : Z -> Z -> scan_res) : list Z -> Z -> Z -> Z -> scan_res :=
  fix loop6_ (l7_ : list Z) (i8_ : Z) (value : Z) (count : Z) {struct l7_} : scan_res :=
    match l7_ with
    | [] => K5 value count
    | h9_ :: t10_ =>
      let c := h9_ in
      if ((c <? 48) || (c >? 57)) then
        (if (count =? 0) then E
        else
          (K5 value count))
      else
        (if (value <? (-922337203685477580)) then
          (Some ((0, b, (Some JErrOverflow))))
        else
          (let value := muli64 value 10 in
          let x := sub8 c 48 in
          if (value <? (addi64 (-9223372036854775808) x)) then
            (Some ((0, b, (Some JErrOverflow))))
          else
            (let value := subi64 value x in
            let count := addi64 count 1 in
            loop6_ t10_ (i8_ + 1) value count)))
    end.

Lemma parseInt_eq fuel d b t : json_decoder_parseInt fuel d b t =
  if ((len b) =? 0) then Some (0, b, Some JErrSyntax)
  else if ((at_ b 0) =? 45) then
    (if ((len b) =? 1) then Some (0, b, Some JErrSyntax)
     else if (((((len b) >? 2) && ((at_ b 1) =? 48)) && (48 <=? (at_ b 2))) && ((at_ b 2) <=? 57)) then
       Some (0, b, Some JErrSyntax)
     else int_neg_loop b
            (dlet (b_1, err_1) <- json_decoder_inputError fuel d b t in Some ((0, b_1, err_1)))
            (fun value count => int_k4 fuel d b value (addi64 count 1))
            (slice_from b 1) 0 0 0)
  else if (((((len b) >? 1) && ((at_ b 0) =? 48)) && (48 <=? (at_ b 1))) && ((at_ b 1) <=? 57)) then
    Some (0, b, Some JErrSyntax)
  else int_pos_loop b (scan_k fuel d b t) fuel 0 0.
Proof. reflexivity. Qed.

Lemma int_pos_loop_spec b K : len b < 2 ^ 62 ->
  forall r tail i fuel value, 0 <= i -> slice_from b i = r ++ tail -> all_digits r = true -> stops_digit tail ->
    (length r < fuel)%nat -> 0 <= value <= 9223372036854775807 ->
    int_pos_loop b K fuel value i =
      if digits_value_from value r <=? 9223372036854775807 then K (digits_value_from value r) (i + len r)
      else Some (0, b, Some JErrOverflow).
Proof.
  intros Hb. change (2 ^ 62) with 4611686018427387904 in Hb.
  induction r as [|c r IH]; intros tail i fuel value Hi E0 Hd Ht Hf Hv.
  - destruct fuel as [|f]; [cbn in Hf; lia|]. cbn [int_pos_loop digits_value_from app] in *.
    change (len (@nil Z)) with 0. rewrite Z.add_0_r. destruct (Z.leb_spec value 9223372036854775807); [|lia].
    destruct tail as [|c tl].
    + pose proof (sf_nil _ _ Hi E0). destruct (Z.ltb_spec i (len b)); [lia|]. reflexivity.
    + pose proof (sf_cons _ _ _ _ Hi E0) as (E1 & E2 & E3). rewrite E2. rewrite <- andb_assoc, geb_digit.
      cbn [stops_digit] in Ht. rewrite Ht, andb_false_r. reflexivity.
  - destruct fuel as [|f]; [cbn in Hf; lia|]. cbn [int_pos_loop digits_value_from app] in *.
    pose proof (sf_cons _ _ _ _ Hi E0) as (E1 & E2 & E3). rewrite E2. rewrite <- andb_assoc, geb_digit.
    rewrite (all_digits_hd_digit _ _ Hd). destruct (Z.ltb_spec i (len b)); [|lia]. cbn [andb]. cbv zeta.
    apply all_digits_cons in Hd. destruct Hd as [Hc Hd]. rewrite sub8_digit by exact Hc.
    rewrite int_step_test by lia. rewrite len_cons.
    destruct (Z.leb_spec (value * 10 + (c - 48)) 9223372036854775807) as [L|L]; cbn [negb].
    + rewrite int_step_val by lia. rewrite addi64_small by (change (2 ^ 63) with 9223372036854775808; lia).
      rewrite (IH tail (i + 1) f (value * 10 + (c - 48))); [|lia|exact E3|exact Hd|exact Ht|cbn [length] in Hf; lia|lia].
      replace (i + 1 + len r) with (i + (len r + 1)) by lia. reflexivity.
    + pose proof (dvf_ge r Hd (value * 10 + (c - 48)) ltac:(lia)).
      destruct (Z.leb_spec (digits_value_from (value * 10 + (c - 48)) r) 9223372036854775807); [lia|]. reflexivity.
Qed.

(* the negative branch accumulates - a, with 0 <= a <= 2^63 *)
Lemma int_neg_loop_spec b E K5 :
  forall r tail i8 a count, all_digits r = true -> stops_digit tail ->
    0 <= a <= 9223372036854775808 -> 0 <= count -> count + len r < 4611686018427387904 -> (count = 0 -> r <> []) ->
    int_neg_loop b E K5 (r ++ tail) i8 (- a) count =
      if digits_value_from a r <=? 9223372036854775808 then K5 (- digits_value_from a r) (count + len r)
      else Some (0, b, Some JErrOverflow).
Proof.
  induction r as [|c r IH]; intros tail i8 a count Hd Ht Ha Hc Hl Hn.
  - cbn [app digits_value_from]. change (len (@nil Z)) with 0. rewrite Z.add_0_r.
    destruct (Z.leb_spec a 9223372036854775808); [|lia].
    destruct tail as [|x tl]; [reflexivity|]. cbn [int_neg_loop]. cbv zeta.
    cbn [stops_digit] in Ht. rewrite nondigit_ltb, Ht. cbn [negb].
    destruct (Z.eqb_spec count 0) as [C|C]; [|reflexivity]. exfalso. apply (Hn C). reflexivity.
  - cbn [app digits_value_from int_neg_loop]. cbv zeta.
    rewrite nondigit_ltb, (all_digits_hd_digit _ _ Hd). cbn [negb].
    apply all_digits_cons in Hd. destruct Hd as [Hx Hd]. rewrite sub8_digit by exact Hx.
    rewrite len_cons in *. pose proof (len_nonneg r) as Hr.
    destruct (Z.ltb_spec (- a) (-922337203685477580)) as [L|L].
    + pose proof (dvf_ge r Hd (a * 10 + (c - 48)) ltac:(lia)).
      destruct (Z.leb_spec (digits_value_from (a * 10 + (c - 48)) r) 9223372036854775808); [lia|]. reflexivity.
    + unfold muli64 at 1 2. rewrite (s64_small' (- a * 10)) by lia.
      unfold addi64 at 1. rewrite (s64_small' (-9223372036854775808 + (c - 48))) by lia.
      destruct (Z.ltb_spec (- a * 10) (-9223372036854775808 + (c - 48))) as [M|M].
      * pose proof (dvf_ge r Hd (a * 10 + (c - 48)) ltac:(lia)).
        destruct (Z.leb_spec (digits_value_from (a * 10 + (c - 48)) r) 9223372036854775808); [lia|]. reflexivity.
      * unfold subi64. rewrite (s64_small' (- a * 10 - (c - 48))) by lia.
        rewrite addi64_small by (change (2 ^ 63) with 9223372036854775808; lia).
        replace (- a * 10 - (c - 48)) with (- (a * 10 + (c - 48))) by lia.
        rewrite (IH tail (i8 + 1) (a * 10 + (c - 48)) (count + 1)); [|exact Hd|exact Ht|lia|lia|lia|lia].
        replace (count + 1 + len r) with (count + (len r + 1)) by lia. reflexivity.
Qed.

Lemma parse_int_exact : parse_int_exact_statement.
Proof.
  intros fuel d neg ds rest Hd Hz Hs Hl Hf. cbv zeta. rewrite parseInt_eq.
  assert (Hne : ds <> []) by (destruct ds; [contradiction|discriminate]).
  change (2 ^ 62) with 4611686018427387904 in Hl.
  change min_int64 with (- 9223372036854775808). change max_int64 with 9223372036854775807.
  pose proof (dvf_ge ds Hd 0 ltac:(lia)) as Hpos. fold (digits_value ds) in Hpos.
  destruct neg; cbn [app].
  - (* a minus sign *)
    rewrite len_cons, at_0, Z.eqb_refl, at_cons1, at_cons2, sf_1.
    pose proof (len_nonneg (ds ++ rest)) as Hn.
    destruct (Z.eqb_spec (len (ds ++ rest) + 1) 0) as [E|E]; [lia|].
    destruct (Z.eqb_spec (len (ds ++ rest) + 1) 1) as [E1|E1].
    { assert (E2 : len (ds ++ rest) = 0) by lia. apply len_0_nil in E2. apply app_eq_nil in E2.
      destruct E2; contradiction. }
    rewrite leading_zero_false by assumption.
    rewrite len_app in Hl. pose proof (len_nonneg rest). pose proof (len_nonneg ds).
    rewrite (int_neg_loop_spec (45 :: ds ++ rest) _ _ ds rest 0 0 0);
      [|exact Hd|apply stops_integer_digit; exact Hs|lia|lia|lia|intros _; exact Hne].
    fold (digits_value ds). rewrite Z.add_0_l.
    destruct (Z.leb_spec (- digits_value ds) 9223372036854775807); [|lia]. rewrite andb_true_r.
    destruct (Z.leb_spec (digits_value ds) 9223372036854775808);
      destruct (Z.leb_spec (- 9223372036854775808) (- digits_value ds)); try lia; [|reflexivity].
    rewrite addi64_small by (change (2 ^ 63) with 9223372036854775808; lia).
    change (45 :: ds ++ rest) with ((45 :: ds) ++ rest). rewrite <- (len_cons 45 ds).
    apply int_k4_spec. exact Hs.
  - (* no sign *)
    destruct (Z.eqb_spec (len (ds ++ rest)) 0) as [E|E].
    { apply len_0_nil in E. apply app_eq_nil in E. destruct E; contradiction. }
    assert (H45 : (at_ (ds ++ rest) 0 =? 45) = false).
    { destruct ds as [|c ds']; [contradiction|]. cbn [app]. rewrite at_0.
      apply all_digits_cons in Hd. destruct (Z.eqb_spec c 45); [lia|reflexivity]. }
    rewrite H45. rewrite leading_zero_false by assumption.
    rewrite (int_pos_loop_spec (ds ++ rest) _ Hl ds rest 0 fuel 0);
      [|lia|apply sf_0|exact Hd|apply stops_integer_digit; exact Hs|exact Hf|lia].
    fold (digits_value ds). rewrite Z.add_0_l.
    destruct (Z.leb_spec (- 9223372036854775808) (digits_value ds)); [|lia]. cbn [andb].
    destruct (digits_value ds <=? 9223372036854775807); [|reflexivity].
    apply scan_k_spec; assumption.
Qed.
