(* C02 structural part: the fuel of the value-tree decoder of Json/TreeModel.v is immaterial once it exceeds the
   length of the document, so the outcome DOut never comes from fuel exhaustion when jdec is run with
   jdec_fuel (proved in Json/TreeFuelProofs.v). Definitions only. *)
From Verif Require Import Base.GoInt Json.Grammar Json.TreeModel.
Open Scope Z_scope.

(* the recogniser used for skipped values: two fuels that are at least the length of the input give the same answer *)
Definition g_value_fuel_statement : Prop :=
  forall (f1 f2 : nat) (b : bytes), (length b <= f1)%nat -> (length b <= f2)%nat -> g_value f1 b = g_value f2 b.

(* the decode function of a type: all three outcomes DOk / DErr / DOut agree, with the same value and rest *)
Definition tree_dec_fuel_value_statement : Prop :=
  forall (t : jty) (f1 f2 : nat) (cur : jval) (b : bytes),
    (length b < f1)%nat -> (length b < f2)%nat -> dec t f1 cur b = dec t f2 cur b.

Definition tree_dec_fuel_statement : Prop :=
  forall (t : jty) (f1 f2 : nat) (b : bytes),
    (length b < f1)%nat -> (length b < f2)%nat -> jdec f1 t b = jdec f2 t b.

(* in particular every fuel above the length of the document gives the outcome of the canonical fuel *)
Definition tree_dec_fuel_canonical_statement : Prop :=
  forall (t : jty) (f : nat) (b : bytes), (length b < f)%nat -> jdec f t b = jdec (jdec_fuel b) t b.
