(* Statements of C06 about the cycle detection of the json encoder (model: Json/CycleModel.v). Definitions only. *)
From Coq Require Import List Arith Bool.
From Verif Require Import Json.CycleModel.
Import ListNotations.

(* ---------- persistent reformulation: the set is passed down and never handed back ---------- *)
Fixpoint eachp (F : nat -> result) (l : list nat) : result :=
  match l with
  | [] => Ok
  | c :: r => match F c with Ok => eachp F r | e => e end
  end.

Fixpoint encp (fuel : nat) (g : graph) (thr depth : nat) (seen : list nat) (n : nat) {struct fuel} : result :=
  match fuel with
  | O => OutOfFuel
  | S f =>
      match nth_error g n with
      | None => Ok
      | Some nd =>
          match nkind nd with
          | KLeaf => Ok
          | KIface | KStruct => eachp (encp f g thr depth seen) (nkids nd)
          | _ =>
              if thr <=? S depth then
                if mem n seen then CycleAt n
                else eachp (encp f g thr (S depth) (n :: seen)) (nkids nd)
              else eachp (encp f g thr (S depth) seen) (nkids nd)
          end
      end
  end.

(* ---------- instrumented: the largest value the ptrDepth counter takes in the traversal ---------- *)
Fixpoint eachd (F : nat -> result * nat) (l : list nat) (m : nat) : result * nat :=
  match l with
  | [] => (Ok, m)
  | c :: r => let (res, m1) := F c in
              match res with Ok => eachd F r (Nat.max m m1) | e => (e, Nat.max m m1) end
  end.

Fixpoint encd (fuel : nat) (g : graph) (thr depth : nat) (seen : list nat) (n : nat) {struct fuel} : result * nat :=
  match fuel with
  | O => (OutOfFuel, depth)
  | S f =>
      match nth_error g n with
      | None => (Ok, depth)
      | Some nd =>
          match nkind nd with
          | KLeaf => (Ok, depth)
          | KIface | KStruct => eachd (encd f g thr depth seen) (nkids nd) depth
          | _ =>
              if thr <=? S depth then
                if mem n seen then (CycleAt n, S depth)
                else eachd (encd f g thr (S depth) (n :: seen)) (nkids nd) (S depth)
              else eachd (encd f g thr (S depth) seen) (nkids nd) (S depth)
          end
      end
  end.

(* ---------- the graph ---------- *)
Definition succs (g : graph) (n : nat) : list nat :=
  match nth_error g n with
  | Some nd => match nkind nd with KLeaf => [] | _ => nkids nd end
  | None => []
  end.
Definition edge (g : graph) (a b : nat) : Prop := In b (succs g a).
Inductive reach (g : graph) : nat -> nat -> Prop :=
  | reach_refl : forall a, reach g a a
  | reach_step : forall a b c, edge g a b -> reach g b c -> reach g a c.
(* n lies on a cycle: a path of at least one edge leads from n back to n *)
Definition on_cycle (g : graph) (n : nat) : Prop := exists m, edge g n m /\ reach g m n.
Definition cyclic_from (g : graph) (r : nat) : Prop := exists n, reach g r n /\ on_cycle g n.

Definition is_tracked (g : graph) (n : nat) : bool :=
  match nth_error g n with Some nd => tracked (nkind nd) | None => false end.
Definition is_inner (g : graph) (n : nat) : bool :=    (* interface, struct or array: descended into without a key *)
  match nth_error g n with
  | Some nd => match nkind nd with KIface | KStruct => true | _ => false end
  | None => false
  end.
Definition tracked_ids (g : graph) : list nat := filter (is_tracked g) (seq 0 (length g)).
Definition ntracked (g : graph) : nat := length (tracked_ids g).

(* Go values are finite: between two references (pointer, slice, map) lies a finite tree of structs, arrays and
   interface values. In the flat graph: an untracked inner node that refers to another untracked inner node refers
   to one with a smaller id (the harness numbers them in post-order; every cycle therefore passes through a
   tracked node). *)
Definition wf (g : graph) : Prop :=
  forall n c, is_inner g n = true -> edge g n c -> is_inner g c = true -> c < n.
Definition wfb (g : graph) : bool :=
  forallb (fun n => if is_inner g n then forallb (fun c => negb (is_inner g c) || (c <? n)) (succs g n) else true)
          (seq 0 (length g)).

(* enough recursion depth for EVERY graph of this size, cyclic or not *)
Definition fuel_bound (g : graph) (thr : nat) : nat := (thr + length g + 1) * (length g + 2).

(* ---------- statements ---------- *)

(* the mutable set with deferred deletion behaves as a set passed down the recursion: on return it is what it was *)
Definition refine_statement : Prop :=
  forall fuel g thr depth seen n, enc fuel g thr depth seen n = (encp fuel g thr depth seen n, seen).
Definition instrument_statement : Prop :=
  forall fuel g thr depth seen n, fst (encd fuel g thr depth seen n) = encp fuel g thr depth seen n.

(* (a) termination with an explicit bound on the recursion depth, for every well-formed graph, every root, every threshold *)
Definition total_statement : Prop :=
  forall g thr root fuel, wf g -> fuel_bound g thr <= fuel -> encode fuel g thr root <> OutOfFuel.
(* more fuel never changes an answer *)
Definition fuel_irrelevant_statement : Prop :=
  forall g thr root f1 f2, f1 <= f2 -> encode f1 g thr root <> OutOfFuel -> encode f2 g thr root = encode f1 g thr root.

(* (b) soundness: a reported cycle exists, is reachable from the root, and is reported at a tracked node *)
Definition sound_statement : Prop :=
  forall fuel g thr root n, encode fuel g thr root = CycleAt n ->
    reach g root n /\ on_cycle g n /\ is_tracked g n = true.
(* (c) completeness: the traversal only completes on graphs without a reachable cycle *)
Definition complete_statement : Prop :=
  forall fuel g thr root, encode fuel g thr root = Ok -> ~ cyclic_from g root.
(* together: with the bound of (a) the answer is the graph property, nothing else *)
Definition decides_statement : Prop :=
  forall g thr root fuel, wf g -> fuel_bound g thr <= fuel ->
    (cyclic_from g root -> exists n, encode fuel g thr root = CycleAt n) /\
    (~ cyclic_from g root -> encode fuel g thr root = Ok).

(* the stack-safety statement for cyclic inputs: whatever the graph, the depth counter (number of pointers, slices
   and maps on the path being encoded) never exceeds the threshold plus the number of tracked objects plus one *)
Definition depth_bound_statement : Prop :=
  forall fuel g thr root, snd (encd fuel g thr 0 [] root) <= thr + ntracked g + 1.

(* what remains unbounded (known finding F41): acyclic nesting. chain n is a pointer to a pointer to ... a leaf *)
Fixpoint chain (n : nat) : graph :=
  match n with O => [mkNode KLeaf []] | S k => chain k ++ [mkNode KPtr [k]] end.
Definition chain_depth_statement : Prop :=
  forall n thr, encd (S n) (chain n) thr 0 [] n = (Ok, n) /\ ~ cyclic_from (chain n) n /\
                forall fuel, fuel <= n -> encode fuel (chain n) thr n = OutOfFuel.
(* a bound on the recursion depth of acyclic values that does not depend on the value *)
Definition acyclic_depth_bounded_statement : Prop :=
  exists B, forall g thr root fuel, ~ cyclic_from g root -> snd (encd fuel g thr 0 [] root) <= B.
