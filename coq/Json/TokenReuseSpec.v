(* Statements for the Reset / pooled-stack-reuse half of C17: the concrete-stack tokenizer of Json/TokenReuseModel.v
   refines the abstract one of Json/StreamModel.v, whatever the stale part of the backing array holds. Definitions only. *)
From Verif Require Import Base.GoInt Generated.AsmAsciiGen Ascii.AsmTotal Generated.AsciiGen Json.Ext Generated.JsonParseGen
  Json.StreamModel Json.StateSpec Json.TokenReuseModel.
Open Scope Z_scope.

(* the abstraction: the live frames = the first len slots of the backing array; a nil stack is the empty stack;
   the pool, the capacity and every slot beyond the length are forgotten *)
Definition abs_stack (s : option cstack) : list (Z * Z) :=
  match s with None => [] | Some s => firstn (cs_len s) (cs_arr s) end.
Definition abs (st : cstate) : tstate :=
  {| t_delim := c_delim st; t_value := c_value st; t_err := c_err st; t_depth := c_depth st; t_index := c_index st;
     t_iskey := c_iskey st; t_iskey_next := c_iskey_next st; t_json := c_json st; t_stack := abs_stack (c_stack st);
     t_kind := c_kind st |}.
Definition abs_step (r : option (bool * cstate)) : option (bool * tstate) :=
  match r with None => None | Some (b, st) => Some (b, abs st) end.
Definition abs_run (r : option (list token * cstate)) : option (list token * tstate) :=
  match r with None => None | Some (ks, st) => Some (ks, abs st) end.

(* the only well-formedness a Go slice has: len <= cap. Nothing is assumed about the contents, nor about the pool. *)
Definition wf_stack (s : option cstack) : Prop :=
  match s with None => True | Some s => (cs_len s <= length (cs_arr s))%nat end.
Definition wf_c (st : cstate) : Prop := wf_stack (c_stack st).

(* (a) refinement, one call of Next: for every runtime (pool policy, growth policy), every pool, every concrete state --
   in particular EVERY content of the slots beyond the length -- the concrete step abstracts to the abstract step on the
   abstraction, the slice stays well formed, and as long as Next returns true the parse flags do not change *)
Definition next_refines_statement : Prop :=
  forall rt step pfuel st, wf_c st ->
    abs_step (c_next rt step pfuel st) = t_next pfuel (c_flags st) (abs st) /\
    (forall r st', c_next rt step pfuel st = Some (r, st') -> wf_c st' /\ (r = true -> c_flags st' = c_flags st)).
(* the stale part is never read: two states that differ only beyond the length (and in the pool) take the same step *)
Definition same_live (s1 s2 : cstate) : Prop :=
  abs s1 = abs s2 /\ c_flags s1 = c_flags s2.
Definition stale_irrelevant_statement : Prop :=
  forall rt1 rt2 step1 step2 pfuel s1 s2, wf_c s1 -> wf_c s2 -> same_live s1 s2 ->
    abs_step (c_next rt1 step1 pfuel s1) = abs_step (c_next rt2 step2 pfuel s2).
(* a whole run *)
Definition run_refines_statement : Prop :=
  forall rt fuel pfuel st acc, wf_c st ->
    abs_run (c_run rt fuel pfuel st acc) = t_run fuel pfuel (c_flags st) (abs st) acc.

(* (b) Reset: whatever the tokenizer went through before -- ANY state: any stack pointer, array contents, length (not even
   len <= cap is needed), error set or not, isKey set or not, leftover input, stale Depth/Index/Value/kind, any pool --
   after Reset(b) the tokens (Value, Delim, Depth, Index, IsKey, Kind, Remaining of each) and the final state (Err, isKey,
   live stack, ...) are those of a new tokenizer on b in the abstract model *)
Definition reset_like_new_statement : Prop :=
  forall rt st b, abs_run (tokenize_reset rt st b) = tokenize b.
(* (c) NewTokenizer with the pool in ANY condition: stacks of any capacity, with any contents and any length (releaseStack
   does not truncate), or a pool emptied by the GC: the stack handed out on the first push behaves as an empty one *)
Definition pooled_like_new_statement : Prop :=
  forall rt pool b, abs_run (tokenize_new rt pool b) = tokenize b.
Definition acquire_empty_statement : Prop :=
  forall rt step pool, let '(s, _) := acquire_stack rt step pool in abs_stack (Some s) = [] /\ wf_stack (Some s).
(* every sequence of Reset / partial use / reuse of one tokenizer value, starting from any state, then Reset(b) *)
Definition history_like_new_statement : Prop :=
  forall rt h st0 st b, c_history rt h st0 = Some st -> abs_run (tokenize_reset rt st b) = tokenize b.
(* Reset and new agree on the concrete level too, up to the pool *)
Definition reset_is_new_statement : Prop :=
  forall pfuel st b, exists pool, reset_c pfuel b st = new_c pfuel b pool.

(* (d) once Err is set Next returns false and changes NOTHING (fields, stack, pool), for ever, until Reset;
   Reset clears the error and the state after it does not depend on the error having been set *)
Definition err_sticky_c_statement : Prop :=
  forall rt step pfuel st, c_err st = true -> c_next rt step pfuel st = Some (false, st).
Definition err_sticky_steps_statement : Prop :=
  forall rt n pfuel st, c_err st = true -> c_steps rt n pfuel st = Some st.
Definition reset_clears_err_statement : Prop :=
  forall pfuel b st st', reset_c pfuel b st = Some st' ->
    c_err st' = false /\ c_iskey_next st' = false /\ c_stack st' = None /\ c_json st' = b /\
    c_delim st' = 0 /\ c_value st' = [] /\ c_depth st' = 0 /\ c_index st' = 0 /\ c_iskey st' = false /\ c_kind st' = 0 /\
    json_internalParseFlags pfuel b = Some (c_flags st').
(* the error can only go away through Reset: Next never clears it (a corollary of stickiness, stated on its own) *)
Definition err_only_reset_statement : Prop :=
  forall rt step pfuel st r st', c_err st = true -> c_next rt step pfuel st = Some (r, st') -> r = false /\ c_err st' = true.

(* hence everything Properties/C17.v states of a new tokenizer holds of a Reset one, in whatever condition it was:
   exact token stream for valid documents, termination and sub-slice positions for every byte string *)
Definition reset_tokens_exact_statement : Prop :=
  forall rt st b ss, wfb b = true -> len b < 2 ^ 62 -> spec_tokens b = Some ss ->
    exists ks stf, tokenize_reset rt st b = Some (ks, stf) /\ c_err stf = false /\ tokens_match ks ss = true.
Definition reset_total_statement : Prop :=
  forall rt st b, wfb b = true -> len b < 2 ^ 62 ->
    exists ks stf, tokenize_reset rt st b = Some (ks, stf) /\ wf_c stf /\
      forallb (fun k => (k_remaining k + len (k_value k) <=? len b) &&
                        bytes_eqb (k_value k) (slice b (len b - k_remaining k - len (k_value k)) (len b - k_remaining k))) ks = true.
