(* C02 structural part: a fixed-size array takes what fits (decodeArray of json/decode.go, on the value-tree
   model of Json/TreeModel.v): a JSON array of k elements decoded into [n]T sets the first min(k,n) elements,
   sets the missing ones to zero and skips the surplus ones, which may be values of any type.
   Proved in Json/TreeArrProofs.v. Definitions and examples only. *)
From Verif Require Import Base.GoInt Json.Grammar Json.FlagsModel Json.StrSpec Json.NumSpec Json.TreeModel Json.TreeSpec.
Open Scope Z_scope.

(* the tokens of a JSON array: the encodings of the values l of type t', then the encodings of the values extra,
   each of its own type *)
Definition arr_doc_toks (t' : jty) (l : list jval) (extra : list (jty * jval)) : list bytes :=
  [[91]] ++ sep_toks (map (jtoks t') l ++ map (fun tv => jtoks (fst tv) (snd tv)) extra) ++ [[93]].

(* [n]T takes what fits: l are the elements that fit (at most n of them), extra the surplus elements
   (present only when the array is full); with any white space between the tokens and any sufficient fuel *)
Definition tree_arr_fit_statement : Prop :=
  forall (ws : nat -> bytes) (n : nat) (t' : jty) (l : list jval) (extra : list (jty * jval)) (fuel : nat),
    ws_ok ws -> ty_ok t' = true -> forallb (jwf t') l = true ->
    forallb (fun tv => ty_ok (fst tv) && jwf (fst tv) (snd tv)) extra = true ->
    ((length l <= n)%nat /\ (extra = [] \/ length l = n)) ->
    (length (render ws 0%nat (arr_doc_toks t' l extra)) < fuel)%nat ->
    jdec fuel (JArr n t') (render ws 0%nat (arr_doc_toks t' l extra))
      = DOk (VList (map (jnorm t') l ++ repeat (jzero t') (n - length l))).

(* the two halves, without white space, on what Marshal writes for a slice and for a longer array *)
Definition tree_arr_short_statement : Prop :=
  forall (n : nat) (t' : jty) (l : list jval),
    ty_ok t' = true -> forallb (jwf t') l = true -> (length l <= n)%nat ->
    jdec (jdec_fuel (jenc (JSlice t') (VList l))) (JArr n t') (jenc (JSlice t') (VList l))
      = DOk (VList (map (jnorm t') l ++ repeat (jzero t') (n - length l))).
Definition tree_arr_long_statement : Prop :=
  forall (n : nat) (t' : jty) (l : list jval),
    ty_ok t' = true -> forallb (jwf t') l = true -> (n <= length l)%nat ->
    jdec (jdec_fuel (jenc (JSlice t') (VList l))) (JArr n t') (jenc (JSlice t') (VList l))
      = DOk (VList (map (jnorm t') (firstn n l))).

(* ========================================= examples ========================================= *)
Definition arr_doc (ws : nat -> bytes) (t' : jty) (l : list jval) (extra : list (jty * jval)) : bytes :=
  render ws 0%nat (arr_doc_toks t' l extra).
Definition arr_expect (n : nat) (t' : jty) (l : list jval) : dres jval :=
  DOk (VList (map (jnorm t') l ++ repeat (jzero t') (n - length l))).

(* [3]int16 from [7]: 7, 0, 0 *)
Example arr_ex1 :
  arr_doc no_ws (JInt true 16) [VInt 7] [] = [91; 55; 93] /\
  jdec 10 (JArr 3 (JInt true 16)) (arr_doc no_ws (JInt true 16) [VInt 7] []) = DOk (VList [VInt 7; VInt 0; VInt 0]) /\
  arr_expect 3 (JInt true 16) [VInt 7] = DOk (VList [VInt 7; VInt 0; VInt 0]).
Proof. vm_compute. auto. Qed.

(* [2]string from two strings followed by a struct (the example of TreeSpec.v) and a bool: the surplus is skipped;
   the first string holds an ill-formed byte and comes back sanitised *)
Definition arr_ex2_l : list jval := [VStr [97; 255]; VStr []].
Definition arr_ex2_extra : list (jty * jval) := [(ex_t, ex_v); (JBool, VBool true)].
Example arr_ex2 :
  jdec (jdec_fuel (arr_doc no_ws JStr arr_ex2_l arr_ex2_extra)) (JArr 2 JStr) (arr_doc no_ws JStr arr_ex2_l arr_ex2_extra)
    = DOk (VList [VStr [97; 239; 191; 189]; VStr []]) /\
  arr_expect 2 JStr arr_ex2_l = DOk (VList [VStr [97; 239; 191; 189]; VStr []]) /\
  jdec (jdec_fuel (arr_doc ex_ws JStr arr_ex2_l arr_ex2_extra)) (JArr 2 JStr) (arr_doc ex_ws JStr arr_ex2_l arr_ex2_extra)
    = DOk (VList [VStr [97; 239; 191; 189]; VStr []]).
Proof. vm_compute. auto. Qed.

(* [0]bool from an array of two surplus elements, with white space; from the empty array *)
Example arr_ex3 :
  jdec (jdec_fuel (arr_doc ex_ws JBool [] arr_ex2_extra)) (JArr 0 JBool) (arr_doc ex_ws JBool [] arr_ex2_extra) = DOk (VList []) /\
  arr_doc ex_ws JBool [] [] = [32; 91; 93; 10; 9] /\
  jdec 6 (JArr 0 JBool) (arr_doc ex_ws JBool [] []) = DOk (VList []).
Proof. vm_compute. auto. Qed.

(* surplus elements before the array is full are NOT skipped: they are decoded as elements (here an error) *)
Example arr_ex4 :
  jdec 20 (JArr 2 JBool) (arr_doc no_ws JBool [VBool true] [(JStr, VStr [])]) = DErr.
Proof. vm_compute. reflexivity. Qed.
