(* C14: specification of the number flags (UseNumber / UseBigInt / UseInt64 / UseUint64) as the decision table of
   their documentation in json/json.go, the value of a number literal, the exactness of the integer scanners, and
   the member-order property of the map encoders. Statements only; proofs in FlagsProofs.v. *)
From Coq Require Import ZArith List Bool Permutation.
From Verif Require Import Base.GoInt Json.Ext Json.Grammar Generated.JsonParseGen Json.FlagsModel.
Import ListNotations.
Open Scope Z_scope.

(* a number literal: the whole byte string is one number of the RFC 8259 grammar (Json/Grammar.v) *)
Definition valid_number (b : bytes) : Prop := g_number b = Some [].

(* an integer literal has neither fraction nor exponent *)
Definition is_int_literal (b : bytes) : bool := negb (existsb (fun c => (c =? 46) || (c =? 101) || (c =? 69)) b).
Definition is_neg_literal (b : bytes) : bool := match b with 45 :: _ => true | _ => false end.
(* the integer denoted by an integer literal *)
Definition int_value (b : bytes) : Z := match b with 45 :: r => - digits_value r | _ => digits_value b end.

Definition max_uint64 : Z := 2 ^ 64 - 1.
Definition max_int64 : Z := 2 ^ 63 - 1.
Definition min_int64 : Z := - 2 ^ 63.

(* the four flags as bit positions of the flag word: UseNumber = 1<<1, UseBigInt = 1<<6, UseInt64 = 1<<7, UseUint64 = 1<<8 *)
Definition use_number (d : Z) : bool := Z.testbit d 1.
Definition use_bigint (d : Z) : bool := Z.testbit d 6.
Definition use_int64 (d : Z) : bool := Z.testbit d 7.
Definition use_uint64 (d : Z) : bool := Z.testbit d 8.

Section Spec.
  Variable parse_float : bytes -> option Z.

  (* without any of the integer rules: Number when UseNumber, else the float64 chosen by strconv.ParseFloat
     (a range error of ParseFloat is the only way a valid literal is refused) *)
  Definition generic_number (d : Z) (b : bytes) : numres :=
    if use_number d then RNumber b
    else match parse_float b with Some f => RFloat64 f | None => RErr end.

  (* The documented precedence:
       UseUint64: in-range positive (unsigned) integers -> uint64, before UseInt64, UseBigInt, UseNumber
       UseInt64 : in-range integers -> int64, before UseBigInt, UseNumber
       UseBigInt: integers -> *big.Int, before UseNumber
       UseNumber: any number -> Number; otherwise float64 *)
  Definition num_spec (d : Z) (b : bytes) : numres :=
    if is_int_literal b then
      let v := int_value b in
      if use_uint64 d && negb (is_neg_literal b) && (v <=? max_uint64) then RUint64 v
      else if use_int64 d && (min_int64 <=? v) && (v <=? max_int64) then RInt64 v
      else if use_bigint d then RBigInt v
      else generic_number d b
    else generic_number d b.
End Spec.

(* (a) refinement: for every valid number literal and every flag word the model of decodeInterface's number case
   produces exactly what the decision table says (which also fixes the values: (b)) *)
Definition number_kind_refines_statement : Prop :=
  forall (parse_float : bytes -> option Z) (d : Z) (b : bytes),
    valid_number b -> len b < 2 ^ 62 ->
    decode_number_literal parse_float d b = num_spec parse_float d b.

(* (b) the numeric value never changes: read off the result *)
Definition number_value_statement : Prop :=
  forall (parse_float : bytes -> option Z) (d : Z) (b : bytes),
    valid_number b -> len b < 2 ^ 62 ->
    match decode_number_literal parse_float d b with
    | RUint64 v => is_int_literal b = true /\ v = int_value b /\ 0 <= v <= max_uint64
    | RInt64 v => is_int_literal b = true /\ v = int_value b /\ min_int64 <= v <= max_int64
    | RBigInt v => is_int_literal b = true /\ v = int_value b
    | RNumber s => s = b
    | RFloat64 f => parse_float b = Some f
    | RErr => parse_float b = None /\ use_number d = false
    | RFuel => False
    end.

(* (c) only the four flags matter *)
Definition same_number_flags (d d' : Z) : Prop :=
  use_number d = use_number d' /\ use_bigint d = use_bigint d' /\ use_int64 d = use_int64 d' /\ use_uint64 d = use_uint64 d'.
Definition number_flags_frame_statement : Prop :=
  forall (parse_float : bytes -> option Z) (d d' : Z) (b : bytes),
    valid_number b -> len b < 2 ^ 62 -> same_number_flags d d' ->
    decode_number_literal parse_float d b = decode_number_literal parse_float d' b.

(* the integer scanners of json/parse.go (machine translations) are exact on every digit string, whatever follows:
   [ds] digits without a superfluous leading zero, [rest] not starting with a digit, '.', 'e' or 'E' *)
Definition no_leading_zero (ds : bytes) : Prop := match ds with 48 :: _ :: _ => False | [] => False | _ => True end.
Definition stops_integer (rest : bytes) : Prop :=
  match rest with
  | [] => True
  | c :: _ => is_digit c = false /\ c <> 46 /\ c <> 101 /\ c <> 69
  end.

Definition parse_uint_exact_statement : Prop :=
  forall (fuel : nat) (d : Z) (ds rest : bytes),
    all_digits ds = true -> no_leading_zero ds -> stops_integer rest ->
    len (ds ++ rest) < 2 ^ 62 -> (length ds < fuel)%nat ->
    json_decoder_parseUint fuel d (ds ++ rest) tt =
      Some (if digits_value ds <=? max_uint64 then (digits_value ds, rest, None)
            else (0, ds ++ rest, Some JErrOverflow)).

Definition parse_int_exact_statement : Prop :=
  forall (fuel : nat) (d : Z) (neg : bool) (ds rest : bytes),
    all_digits ds = true -> no_leading_zero ds -> stops_integer rest ->
    len (ds ++ rest) < 2 ^ 62 -> (length ds < fuel)%nat ->
    let b := (if neg then [45] else []) ++ ds ++ rest in
    let v := if neg then - digits_value ds else digits_value ds in
    json_decoder_parseInt fuel d b tt =
      Some (if (min_int64 <=? v) && (v <=? max_int64) then (v, rest, None)
            else (0, b, Some JErrOverflow)).

(* the kind parseNumber reports for a valid literal *)
Definition lit_kind (b : bytes) : Z :=
  if is_int_literal b then (if is_neg_literal b then json_Int else json_Uint) else json_Float.
Definition parse_number_kind_statement : Prop :=
  forall (fuel : nat) (d : Z) (b : bytes),
    valid_number b -> len b < 2 ^ 62 -> (length b < fuel)%nat ->
    json_decoder_parseNumber fuel d b = Some (b, [], lit_kind b, None).

(* ---- maps: without SortMapKeys the members are only permuted, and a decoder sees the same object ---- *)
Definition map_order_permutation_statement : Prop :=
  forall (K V : Type) (key_leb : K -> K -> bool) (enc_key : K -> bytes) (enc_val : V -> bytes)
         (iter1 iter2 : list (K * V)),
    Permutation iter1 iter2 ->       (* two iteration orders of the same map *)
    Permutation (map_members K V key_leb enc_key enc_val false iter1)
                (map_members K V key_leb enc_key enc_val true iter2).

Definition map_order_same_object_statement : Prop :=
  forall (K V : Type) (key_leb : K -> K -> bool) (enc_key : K -> bytes) (enc_val : V -> bytes)
         (iter1 iter2 : list (K * V)),
    Permutation iter1 iter2 ->
    NoDup (map (fun e => enc_key (fst e)) iter1) ->     (* distinct keys have distinct encodings *)
    forall k, lookup_member k (map_members K V key_leb enc_key enc_val false iter1)
            = lookup_member k (map_members K V key_leb enc_key enc_val true iter2).

(* an encoder that stops at the first failing value fails for one iteration order iff it fails for every other one
   (in particular: without SortMapKeys iff with it), and when it succeeds the members are permuted *)
Definition map_error_order_statement : Prop :=
  forall (K V : Type) (enc_key : K -> bytes) (enc_val_err : V -> option bytes) (iter1 iter2 : list (K * V)),
    Permutation iter1 iter2 ->
    match encode_members K V enc_key enc_val_err iter1, encode_members K V enc_key enc_val_err iter2 with
    | None, None => True
    | Some m1, Some m2 => Permutation m1 m2
    | _, _ => False
    end.
