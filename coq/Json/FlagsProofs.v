(* C14 proofs: the model of the number-kind selection refines the decision table of the documentation for every
   valid number literal and every flag word; values are exact; only four flag bits matter; map member order.
   The scanner lemmas (parseUint / parseInt exactness, parseNumber kind) are proved in FlagsIntProofs.v and
   FlagsKindProofs.v and enter here as section hypotheses that are discharged at the end of the file. *)
From Coq Require Import ZArith List Bool Lia Permutation.
From Verif Require Import Base.GoInt Json.Ext Json.Grammar Generated.JsonParseGen Json.ValidProofs Json.FlagsModel Json.FlagsSpec.
From Verif Require Json.FlagsIntProofs Json.FlagsKindProofs.
Import ListNotations.
Open Scope Z_scope.

(* ---------------- flag bits ---------------- *)
Lemma land_pow2 d n : 0 <= n -> Z.land d (2 ^ n) = if Z.testbit d n then 2 ^ n else 0.
Proof.
  intros Hn. apply Z.bits_inj'. intros m Hm. rewrite Z.land_spec, Z.pow2_bits_eqb by assumption.
  destruct (Z.testbit d n) eqn:T.
  - rewrite Z.pow2_bits_eqb by assumption.
    destruct (Z.eqb_spec n m) as [E|E]; [subst m; rewrite T; reflexivity|apply andb_false_r].
  - rewrite Z.bits_0. destruct (Z.eqb_spec n m) as [E|E]; [subst m; rewrite T; reflexivity|apply andb_false_r].
Qed.

Lemma any_bit d n : 0 <= n -> any_flags_set d (2 ^ n) = Z.testbit d n.
Proof.
  intros Hn. unfold any_flags_set. rewrite land_pow2 by assumption. destruct (Z.testbit d n); [|reflexivity].
  assert (N : 2 ^ n <> 0) by (apply Z.pow_nonzero; lia).
  destruct (Z.eqb_spec (2 ^ n) 0); [contradiction|reflexivity].
Qed.

Lemma any_number d : any_flags_set d json_UseNumber = use_number d.
Proof. exact (any_bit d 1 ltac:(lia)). Qed.
Lemma any_bigint d : any_flags_set d json_UseBigInt = use_bigint d.
Proof. exact (any_bit d 6 ltac:(lia)). Qed.
Lemma any_int64 d : any_flags_set d json_UseInt64 = use_int64 d.
Proof. exact (any_bit d 7 ltac:(lia)). Qed.
Lemma any_uint64 d : any_flags_set d json_UseUint64 = use_uint64 d.
Proof. exact (any_bit d 8 ltac:(lia)). Qed.
Lemma any_three d : any_flags_set d three_flags = use_bigint d || use_int64 d || use_uint64 d.
Proof.
  unfold any_flags_set, use_bigint, use_int64, use_uint64.
  change three_flags with (Z.lor (2 ^ 6) (Z.lor (2 ^ 7) (2 ^ 8))).
  rewrite !Z.land_lor_distr_r, !land_pow2 by lia.
  destruct (Z.testbit d 6), (Z.testbit d 7), (Z.testbit d 8); reflexivity.
Qed.

(* ---------------- digits ---------------- *)
Lemma all_digits_cons c t : all_digits (c :: t) = is_digit c && all_digits t.
Proof. reflexivity. Qed.

Lemma is_digit_range c : is_digit c = true -> 48 <= c <= 57.
Proof. unfold is_digit. intros H. apply andb_prop in H as [A B]. apply Z.leb_le in A, B. lia. Qed.

Lemma digit_enum c : is_digit c = true ->
  c = 48 \/ c = 49 \/ c = 50 \/ c = 51 \/ c = 52 \/ c = 53 \/ c = 54 \/ c = 55 \/ c = 56 \/ c = 57.
Proof. intros H. apply is_digit_range in H. lia. Qed.

Ltac digit_cases c H :=
  let E := fresh "E" in
  pose proof (digit_enum c H) as E;
  destruct E as [E|[E|[E|[E|[E|[E|[E|[E|[E|E]]]]]]]]]; subst c.

Lemma digits_value_from_ge acc r : all_digits r = true -> 0 <= acc -> acc <= digits_value_from acc r.
Proof.
  revert acc. induction r as [|c t IH]; intros acc A H; cbn [digits_value_from]; [lia|].
  rewrite all_digits_cons in A. apply andb_prop in A as [D A]. apply is_digit_range in D.
  specialize (IH (acc * 10 + (c - 48)) A ltac:(lia)). lia.
Qed.
Lemma digits_value_nonneg r : all_digits r = true -> 0 <= digits_value r.
Proof. intros A. unfold digits_value. apply (digits_value_from_ge 0 r A). lia. Qed.

Lemma skip_digits_split r : exists pre, r = pre ++ skip_digits r /\ all_digits pre = true.
Proof.
  induction r as [|c t (pre & E & A)]; [exists []; auto|]. cbn [skip_digits].
  destruct (is_digit c) eqn:D.
  - exists (c :: pre). cbn [app]. rewrite <- E. split; [reflexivity|]. rewrite all_digits_cons, D, A. reflexivity.
  - exists []. auto.
Qed.

(* ---------------- the shape of a valid integer literal ---------------- *)
Definition expc (c : Z) : bool := (c =? 46) || (c =? 101) || (c =? 69).
Lemma is_int_literal_eq b : is_int_literal b = negb (existsb expc b).
Proof. reflexivity. Qed.

Lemma tail_empty t : existsb expc t = false ->
  match g_frac t with Some r => g_exp r | None => None end = Some [] -> t = [].
Proof.
  intros N H. destruct t as [|x t']; [reflexivity|]. exfalso.
  cbn [existsb] in N. apply orb_false_elim in N as [N _]. unfold expc in N.
  apply orb_false_elim in N as [N N3]. apply orb_false_elim in N as [N1 N2].
  rewrite g_frac_eq, N1 in H. cbn [g_exp] in H. rewrite N2, N3 in H. cbn [orb] in H. discriminate.
Qed.

Lemma no_leading_zero_cons c t : (c = 48 -> t = []) -> is_digit c = true -> no_leading_zero (c :: t).
Proof.
  intros H D. digit_cases c D; cbn [no_leading_zero]; try exact I.
  rewrite (H eq_refl). exact I.
Qed.

Lemma body_int r : g_number_body r = Some [] -> existsb expc r = false ->
  all_digits r = true /\ no_leading_zero r.
Proof.
  intros H N. destruct r as [|c t]; [discriminate|]. cbn [g_number_body] in H.
  cbn [existsb] in N. apply orb_false_elim in N as [Nc N].
  destruct (Z.eqb_spec c 48) as [C|C].
  - subst c. apply tail_empty in H; [|assumption]. subst t. split; [reflexivity|exact I].
  - destruct (is_digit c) eqn:D; [|discriminate].
    destruct (skip_digits_split t) as (pre & E & A).
    assert (S0 : skip_digits t = []).
    { apply tail_empty; [|assumption]. rewrite E in N. rewrite existsb_app in N. apply orb_false_elim in N as [_ N]. exact N. }
    rewrite S0, app_nil_r in E. subst pre. split.
    + rewrite all_digits_cons, D, A. reflexivity.
    + apply no_leading_zero_cons; [intros X; contradiction|assumption].
Qed.

Lemma int_literal_shape b : valid_number b -> is_int_literal b = true ->
  exists ds, all_digits ds = true /\ no_leading_zero ds /\ (b = ds \/ b = 45 :: ds).
Proof.
  unfold valid_number. intros V I0. rewrite is_int_literal_eq in I0. apply negb_true_iff in I0.
  rewrite g_number_eq in V. destruct b as [|c r]; [discriminate|].
  destruct (Z.eqb_spec c 45) as [C|C].
  - subst c. cbn [existsb] in I0. apply orb_false_elim in I0 as [_ I0].
    destruct (body_int r V I0) as [A L]. exists r. auto.
  - destruct (body_int (c :: r) V I0) as [A L]. exists (c :: r). auto.
Qed.

Lemma valid_head b : valid_number b -> exists c r, b = c :: r /\ (c = 45 \/ is_digit c = true).
Proof.
  unfold valid_number. intros V. rewrite g_number_eq in V. destruct b as [|c r]; [discriminate|].
  exists c, r. split; [reflexivity|]. destruct (Z.eqb_spec c 45) as [C|C]; [left; assumption|right].
  cbn [g_number_body] in V. destruct (Z.eqb_spec c 48) as [C0|C0]; [subst c; reflexivity|].
  destruct (is_digit c); [reflexivity|discriminate].
Qed.

(* head of a digit string *)
Lemma digits_head ds : all_digits ds = true -> no_leading_zero ds ->
  exists c t, ds = c :: t /\ is_digit c = true /\ all_digits t = true.
Proof.
  intros A L. destruct ds as [|c t]; [destruct L|]. rewrite all_digits_cons in A. apply andb_prop in A as [D A].
  exists c, t. auto.
Qed.

Lemma is_neg_digits ds : all_digits ds = true -> no_leading_zero ds -> is_neg_literal ds = false.
Proof. intros A L. destruct (digits_head ds A L) as (c & t & -> & D & _). digit_cases c D; reflexivity. Qed.
Lemma int_value_digits ds : all_digits ds = true -> no_leading_zero ds -> int_value ds = digits_value ds.
Proof. intros A L. destruct (digits_head ds A L) as (c & t & -> & D & _). digit_cases c D; reflexivity. Qed.
Lemma int_value_neg ds : int_value (45 :: ds) = - digits_value ds.
Proof. reflexivity. Qed.

Lemma is_int_literal_neg ds : is_int_literal (45 :: ds) = is_int_literal ds.
Proof. reflexivity. Qed.

(* ---------------- the pieces of the model on a literal ---------------- *)
Lemma no_null_prefix c r : c <> 110 -> json_hasNullPrefix (c :: r) = false.
Proof.
  intros N. unfold json_hasNullPrefix. destruct (len (c :: r) >=? 4); [|reflexivity]. cbn [andb].
  unfold slice_to. change (Z.to_nat 4) with 4%nat. cbn [firstn bytes_eqb].
  destruct (Z.eqb_spec c 110); [contradiction|reflexivity].
Qed.

Lemma literal_no_null b : valid_number b -> json_hasNullPrefix b = false.
Proof.
  intros V. destruct (valid_head b V) as (c & r & -> & [C|D]).
  - subst c. apply no_null_prefix. lia.
  - apply is_digit_range in D. apply no_null_prefix. lia.
Qed.

Lemma parseValue_number f d b : valid_number b ->
  json_decoder_parseValue (S f) d b = json_decoder_parseNumber f d b.
Proof.
  intros V. destruct (valid_head b V) as (c & r & -> & H).
  rewrite parseValue_eq, len_cons_nz, at_0. cbv zeta.
  assert (R : c = 45 \/ 48 <= c <= 57) by (destruct H as [H|H]; [left; assumption|right; apply is_digit_range; assumption]).
  destruct (Z.eqb_spec c 123); [lia|]. destruct (Z.eqb_spec c 91); [lia|]. destruct (Z.eqb_spec c 34); [lia|].
  destruct (Z.eqb_spec c 110); [lia|]. destruct (Z.eqb_spec c 116); [lia|]. destruct (Z.eqb_spec c 102); [lia|].
  assert (E : (c =? 45) || (c =? 48) || (c =? 49) || (c =? 50) || (c =? 51) || (c =? 52) || (c =? 53) || (c =? 54)
              || (c =? 55) || (c =? 56) || (c =? 57) = true).
  { assert (X : c = 45 \/ c = 48 \/ c = 49 \/ c = 50 \/ c = 51 \/ c = 52 \/ c = 53 \/ c = 54 \/ c = 55 \/ c = 56 \/ c = 57) by lia.
    destruct X as [X|[X|[X|[X|[X|[X|[X|[X|[X|[X|X]]]]]]]]]]; subst c; reflexivity. }
  rewrite E. apply dlet_id.
Qed.

Lemma big_unmarshal_int b ds : all_digits ds = true -> no_leading_zero ds -> (b = ds \/ b = 45 :: ds) ->
  big_unmarshal b = Some (int_value b).
Proof.
  intros A L [E|E]; subst b.
  - rewrite (int_value_digits ds A L). destruct (digits_head ds A L) as (c & t & -> & D & At).
    unfold big_unmarshal. digit_cases c D; cbn [bytes_eqb Z.eqb Pos.eqb andb];
      try (rewrite A; reflexivity).
    destruct t as [|x t']; [reflexivity|destruct L].
  - rewrite int_value_neg. destruct (digits_head ds A L) as (c & t & -> & D & At).
    unfold big_unmarshal. cbn [bytes_eqb Z.eqb Pos.eqb andb].
    digit_cases c D; try (rewrite A; reflexivity).
    destruct t as [|x t']; [reflexivity|destruct L].
Qed.

Section WithScanners.
  Hypothesis parse_uint_exact : parse_uint_exact_statement.
  Hypothesis parse_int_exact : parse_int_exact_statement.
  Hypothesis parse_number_kind : parse_number_kind_statement.

  Variable parse_float : bytes -> option Z.

  Lemma fuel_ok b : (length b < num_fuel b)%nat.
  Proof. unfold num_fuel. lia. Qed.

  Lemma pn_lit d b : valid_number b -> len b < 2 ^ 62 ->
    json_decoder_parseNumber (num_fuel b) d b = Some (b, [], lit_kind b, None).
  Proof. intros V L. apply parse_number_kind; [assumption|assumption|apply fuel_ok]. Qed.

  Lemma decode_number_lit d b : valid_number b -> len b < 2 ^ 62 ->
    decode_number (num_fuel b) d b = DOk b [].
  Proof. intros V L. unfold decode_number. rewrite (literal_no_null b V), (pn_lit d b V L). reflexivity. Qed.

  Lemma decode_float64_lit d b : valid_number b -> len b < 2 ^ 62 ->
    decode_float64 parse_float (num_fuel b) d b = match parse_float b with Some f => DOk f [] | None => DErr end.
  Proof. intros V L. unfold decode_float64. rewrite (literal_no_null b V), (pn_lit d b V L). reflexivity. Qed.

  Lemma decode_bigint_lit d b ds : valid_number b -> len b < 2 ^ 62 ->
    all_digits ds = true -> no_leading_zero ds -> (b = ds \/ b = 45 :: ds) ->
    decode_bigint (num_fuel b) d b = DOk (int_value b) [].
  Proof.
    intros V L A N E. unfold decode_bigint, num_fuel.
    replace (length b + 3)%nat with (S (length b + 2)) by lia.
    rewrite (parseValue_number _ d b V).
    rewrite (parse_number_kind (length b + 2)%nat d b V L ltac:(lia)).
    rewrite (big_unmarshal_int b ds A N E). reflexivity.
  Qed.

  Lemma decode_uint64_lit d ds : valid_number ds -> len ds < 2 ^ 62 ->
    all_digits ds = true -> no_leading_zero ds ->
    decode_uint64 (num_fuel ds) d ds =
      if digits_value ds <=? max_uint64 then DOk (digits_value ds) [] else DErr.
  Proof.
    intros V L A N. unfold decode_uint64. rewrite (literal_no_null ds V).
    pose proof (parse_uint_exact (num_fuel ds) d ds [] A N I) as P. rewrite app_nil_r in P.
    rewrite (P L (fuel_ok ds)). destruct (digits_value ds <=? max_uint64); reflexivity.
  Qed.

  Definition in_int64 (v : Z) : bool := (min_int64 <=? v) && (v <=? max_int64).

  Lemma decode_int64_lit d b ds : valid_number b -> len b < 2 ^ 62 ->
    all_digits ds = true -> no_leading_zero ds -> (b = ds \/ b = 45 :: ds) ->
    decode_int64 (num_fuel b) d b = if in_int64 (int_value b) then DOk (int_value b) [] else DErr.
  Proof.
    intros V L A N E. unfold decode_int64. rewrite (literal_no_null b V). destruct E as [E|E]; subst b.
    - pose proof (parse_int_exact (num_fuel ds) d false ds [] A N I) as P. cbv zeta in P.
      cbn [app] in P. rewrite app_nil_r in P. rewrite (P L (fuel_ok ds)).
      rewrite (int_value_digits ds A N). unfold in_int64.
      destruct ((min_int64 <=? digits_value ds) && (digits_value ds <=? max_int64)); reflexivity.
    - assert (L' : len ds < 2 ^ 62) by (rewrite len_cons in L; lia).
      pose proof (parse_int_exact (num_fuel (45 :: ds)) d true ds [] A N I) as P. cbv zeta in P.
      rewrite app_nil_r in P. cbn [app] in P.
      rewrite (P L' ltac:(unfold num_fuel; cbn [length]; lia)).
      rewrite int_value_neg. unfold in_int64.
      destruct ((min_int64 <=? - digits_value ds) && (- digits_value ds <=? max_int64)); reflexivity.
  Qed.

  Lemma skip_nil : len (json_skipSpaces []) =? 0 = true.
  Proof. reflexivity. Qed.

  (* (a) *)
  Lemma number_kind_refines_pf d b : valid_number b -> len b < 2 ^ 62 ->
    decode_number_literal parse_float d b = num_spec parse_float d b.
  Proof.
    intros V L. unfold decode_number_literal, decode_interface_number, decode_dynamic_number.
    rewrite any_three, any_uint64, any_int64, any_bigint, any_number.
    rewrite (pn_lit d b V L), (decode_number_lit d b V L), (decode_float64_lit d b V L).
    unfold num_spec, generic_number, lit_kind.
    destruct (is_int_literal b) eqn:II.
    - destruct (int_literal_shape b V II) as (ds & A & N & E).
      rewrite (decode_bigint_lit d b ds V L A N E), (decode_int64_lit d b ds V L A N E).
      unfold in_int64.
      destruct E as [E|E]; subst b.
      + rewrite (is_neg_digits ds A N), (decode_uint64_lit d ds V L A N), (int_value_digits ds A N).
        cbv iota.
        change (json_Uint =? json_Uint) with true. change (json_Uint =? json_Int) with false.
        change (json_Float =? json_Uint) with false. change (json_Float =? json_Int) with false.
        cbn [negb andb orb].
        destruct (use_uint64 d), (use_int64 d), (use_bigint d), (use_number d); cbn [andb orb negb];
          destruct (Z.leb_spec (digits_value ds) max_uint64) as [H1|H1];
          destruct (Z.leb_spec min_int64 (digits_value ds)) as [H2|H2];
          destruct (Z.leb_spec (digits_value ds) max_int64) as [H3|H3]; cbn [andb orb];
          try destruct (parse_float ds); try reflexivity;
          exfalso; unfold max_uint64, max_int64, min_int64 in *; lia.
      + change (is_neg_literal (45 :: ds)) with true. rewrite int_value_neg.
        cbv iota.
        change (json_Int =? json_Uint) with false. change (json_Int =? json_Int) with true.
        change (json_Float =? json_Uint) with false. change (json_Float =? json_Int) with false.
        cbn [negb andb orb].
        destruct (use_uint64 d), (use_int64 d), (use_bigint d), (use_number d); cbn [andb orb negb];
          destruct (Z.leb_spec min_int64 (- digits_value ds)) as [H2|H2];
          destruct (Z.leb_spec (- digits_value ds) max_int64) as [H3|H3]; cbn [andb orb];
          try destruct (parse_float (45 :: ds)); reflexivity.
    - change (json_Float =? json_Uint) with false. change (json_Float =? json_Int) with false.
      cbn [andb orb].
      destruct (use_uint64 d), (use_int64 d), (use_bigint d), (use_number d); cbn [andb orb negb];
        try destruct (parse_float b); reflexivity.
  Qed.
End WithScanners.

(* ---------------- the statements ---------------- *)
Lemma number_kind_refines : number_kind_refines_statement.
Proof.
  intros pf d b V L.
  exact (number_kind_refines_pf FlagsIntProofs.parse_uint_exact FlagsIntProofs.parse_int_exact
           FlagsKindProofs.parse_number_kind pf d b V L).
Qed.

Lemma number_value : number_value_statement.
Proof.
  intros pf d b V L. rewrite (number_kind_refines pf d b V L). unfold num_spec, generic_number.
  destruct (is_int_literal b) eqn:II.
  - destruct (int_literal_shape b V II) as (ds & A & N & E).
    assert (NN : is_neg_literal b = false -> 0 <= int_value b).
    { destruct E as [E|E]; subst b; [|discriminate]. intros _. rewrite (int_value_digits ds A N). apply digits_value_nonneg, A. }
    destruct (use_uint64 d && negb (is_neg_literal b) && (int_value b <=? max_uint64)) eqn:C1.
    + apply andb_prop in C1 as [C1 C3]. apply andb_prop in C1 as [_ C2]. apply negb_true_iff in C2.
      apply Z.leb_le in C3. specialize (NN C2). repeat split; auto; lia.
    + destruct (use_int64 d && (min_int64 <=? int_value b) && (int_value b <=? max_int64)) eqn:C2.
      * apply andb_prop in C2 as [C2 C4]. apply andb_prop in C2 as [_ C3]. apply Z.leb_le in C3, C4. repeat split; auto; lia.
      * destruct (use_bigint d); [split; auto|].
        destruct (use_number d); [reflexivity|]. destruct (pf b); [reflexivity|split; reflexivity].
  - destruct (use_number d); [reflexivity|]. destruct (pf b); [reflexivity|split; reflexivity].
Qed.

Lemma number_flags_frame : number_flags_frame_statement.
Proof.
  intros pf d d' b V L (E1 & E2 & E3 & E4).
  rewrite (number_kind_refines pf d b V L), (number_kind_refines pf d' b V L).
  unfold num_spec, generic_number. rewrite E1, E2, E3, E4. reflexivity.
Qed.

(* ---------------- map member order ---------------- *)
Section MapProofs.
  Variables K V : Type.
  Variable key_leb : K -> K -> bool.
  Variable enc_key : K -> bytes.
  Variable enc_val : V -> bytes.

  Lemma insert_perm e l : Permutation (insert_entry K V key_leb e l) (e :: l).
  Proof.
    induction l as [|x r IH]; cbn [insert_entry]; [reflexivity|].
    destruct (key_leb (fst e) (fst x)); [reflexivity|].
    etransitivity; [apply perm_skip, IH|apply perm_swap].
  Qed.
  Lemma sort_perm l : Permutation (sort_entries K V key_leb l) l.
  Proof.
    induction l as [|e r IH]; cbn [sort_entries]; [reflexivity|].
    etransitivity; [apply insert_perm|apply perm_skip, IH].
  Qed.
  Lemma members_perm l1 l2 : Permutation l1 l2 ->
    Permutation (map_members K V key_leb enc_key enc_val false l1) (map_members K V key_leb enc_key enc_val true l2).
  Proof.
    intros P. unfold map_members, members. apply Permutation_map.
    etransitivity; [exact P|symmetry; apply sort_perm].
  Qed.
End MapProofs.

Lemma bytes_eqb_eq a : forall b, bytes_eqb a b = true -> a = b.
Proof.
  induction a as [|x a IH]; intros [|y b] H; try discriminate; [reflexivity|].
  cbn [bytes_eqb] in H. apply andb_prop in H as [H1 H2]. apply Z.eqb_eq in H1. rewrite H1, (IH b H2). reflexivity.
Qed.

Lemma lookup_perm ms ms' : Permutation ms ms' -> NoDup (map fst ms) ->
  forall k, lookup_member k ms = lookup_member k ms'.
Proof.
  induction 1 as [|[kx vx] l l' P IH|[kx vx] [ky vy] l|l1 l2 l3 P1 IH1 P2 IH2]; intros ND k.
  - reflexivity.
  - cbn [lookup_member]. cbn [map fst] in ND. inversion ND as [|? ? _ ND']; subst. rewrite (IH ND' k). reflexivity.
  - cbn [lookup_member]. destruct (lookup_member k l); [reflexivity|].
    cbn [map fst] in ND. inversion ND as [|? ? NI _]; subst.
    destruct (bytes_eqb k kx) eqn:Ex, (bytes_eqb k ky) eqn:Ey; try reflexivity.
    exfalso. apply bytes_eqb_eq in Ex, Ey. subst kx ky. apply NI. left. reflexivity.
  - rewrite (IH1 ND k). apply IH2. apply (Permutation_NoDup (Permutation_map fst P1) ND).
Qed.

Lemma map_order_permutation : map_order_permutation_statement.
Proof. intros K V leb ek ev i1 i2 P. apply members_perm, P. Qed.

Lemma map_order_same_object : map_order_same_object_statement.
Proof.
  intros K V leb ek ev i1 i2 P ND k. apply lookup_perm.
  - apply members_perm, P.
  - unfold map_members, members. rewrite map_map. cbn [fst]. exact ND.
Qed.

(* ---------------- errors of the map encoders ---------------- *)
Lemma encode_members_spec K V (ek : K -> bytes) (ev : V -> option bytes) l :
  match encode_members K V ek ev l with
  | None => exists e, In e l /\ ev (snd e) = None
  | Some ms => Forall2 (fun e m => ev (snd e) = Some (snd m) /\ fst m = ek (fst e)) l ms
  end.
Proof.
  induction l as [|e r IH]; cbn [encode_members]; [constructor|].
  destruct (ev (snd e)) as [v|] eqn:E.
  - destruct (encode_members K V ek ev r) as [ms|].
    + constructor; [split; [assumption|reflexivity]|assumption].
    + destruct IH as (x & I1 & I2). exists x. split; [right; assumption|assumption].
  - exists e. split; [left; reflexivity|assumption].
Qed.

Lemma encode_members_none K V (ek : K -> bytes) (ev : V -> option bytes) l e :
  In e l -> ev (snd e) = None -> encode_members K V ek ev l = None.
Proof.
  induction l as [|x r IH]; intros I0 E; [destruct I0|]. cbn [encode_members]. destruct I0 as [I0|I0].
  - subst x. rewrite E. reflexivity.
  - rewrite (IH I0 E). destruct (ev (snd x)); reflexivity.
Qed.

Lemma encode_members_perm K V (ek : K -> bytes) (ev : V -> option bytes) l1 l2 : Permutation l1 l2 ->
  forall m1 m2, encode_members K V ek ev l1 = Some m1 -> encode_members K V ek ev l2 = Some m2 -> Permutation m1 m2.
Proof.
  induction 1 as [|x l l' P IH|x y l|l1 l2 l3 P1 IH1 P2 IH2]; intros m1 m2 E1 E2.
  - cbn in E1, E2. injection E1 as <-. injection E2 as <-. constructor.
  - cbn [encode_members] in E1, E2. destruct (ev (snd x)) as [v|]; [|discriminate].
    destruct (encode_members K V ek ev l) as [a|]; [|discriminate].
    destruct (encode_members K V ek ev l') as [b|]; [|discriminate].
    injection E1 as <-. injection E2 as <-. apply perm_skip. apply IH; reflexivity.
  - cbn [encode_members] in E1, E2. destruct (ev (snd x)) as [vx|]; [|destruct (ev (snd y)); discriminate].
    destruct (ev (snd y)) as [vy|]; [|discriminate].
    destruct (encode_members K V ek ev l) as [a|]; [|discriminate].
    injection E1 as <-. injection E2 as <-. apply perm_swap.
  - destruct (encode_members K V ek ev l2) as [m|] eqn:E.
    + etransitivity; [apply (IH1 m1 m E1 eq_refl)|apply (IH2 m m2 eq_refl E2)].
    + exfalso. pose proof (encode_members_spec K V ek ev l2) as S. rewrite E in S. destruct S as (e & I1 & I2).
      rewrite (encode_members_none K V ek ev l1 e) in E1; [discriminate| |assumption].
      apply (Permutation_in e (Permutation_sym P1) I1).
Qed.

Lemma map_error_order : map_error_order_statement.
Proof.
  intros K V ek ev i1 i2 P.
  destruct (encode_members K V ek ev i1) as [m1|] eqn:E1, (encode_members K V ek ev i2) as [m2|] eqn:E2.
  - apply (encode_members_perm K V ek ev i1 i2 P m1 m2 E1 E2).
  - pose proof (encode_members_spec K V ek ev i2) as S. rewrite E2 in S. destruct S as (e & I1 & I2).
    rewrite (encode_members_none K V ek ev i1 e) in E1; [discriminate| |assumption].
    apply (Permutation_in e (Permutation_sym P) I1).
  - pose proof (encode_members_spec K V ek ev i1) as S. rewrite E1 in S. destruct S as (e & I1 & I2).
    rewrite (encode_members_none K V ek ev i2 e) in E2; [discriminate| |assumption].
    apply (Permutation_in e P I1).
  - exact I.
Qed.
