(* C01/C02 integer core: hand-written models (following the Go text line by line) of
     json/int.go formatInteger, appendInt, appendUint -- the table-driven integer formatting used by every
       encodeInt*/encodeUint* of json/encode.go. The lookup table intLELookup is machine-translated
       (Generated/JsonStringGen.v json_intLELookup); the function itself aliases a [22]byte array as [11]uint16
       through unsafe.Pointer, which is outside the translated subset, so it is transcribed: a store u[i] = v of the
       little-endian platform writes v's low byte to b[2i] and its high byte to b[2i+1];
     json/decode.go decodeInt, decodeInt8/16/32/64, decodeUint, decodeUint8/16/32/64, decodeUintptr -- null prefix,
       the machine-translated parseInt / parseUint (Generated/JsonParseGen.v), the range test of the Go type.
   Tied to the code by the correspondence cases s.int.enc / s.int.dec of harness/c01s.go. No proofs in this file. *)
From Verif Require Import Base.GoInt Json.Ext Generated.JsonParseGen Json.StrExt Generated.JsonStringGen Json.StrModel.
Open Scope Z_scope.

(* u[i] = v on the [11]uint16 view of the byte array *)
Definition put_u16 (b : bytes) (i v : Z) : bytes := upd (upd b (2 * i) (v mod 256)) (2 * i + 1) (v / 256).

(* for n >= 100 { j := n % 100; n /= 100; i--; u[i] = lookup[j] } *)
Fixpoint fmt_loop (fuel : nat) (n i : Z) (b : bytes) : option (Z * Z * bytes) :=
  match fuel with
  | O => None
  | S f =>
    if n >=? 100 then
      let j := rem64 n 100 in
      let n := div64 n 100 in
      let i := i - 1 in
      fmt_loop f n i (put_u16 b i (at_ json_intLELookup j))
    else Some (n, i, b)
  end.

(* json/int.go formatInteger(out, n, negative); n is a uint64 *)
Definition format_integer (out : bytes) (n : Z) (negative : bool) : option bytes :=
  if negb negative && (n <? 10) then Some (out ++ [w8 (add64 n 48)])
  else if negb negative && (n <? 100) then
    let u := at_ json_intLELookup n in Some (out ++ [w8 u; w8 (shr16 u 8)])
  else
    let n := if negative then neg64 n else n in
    let b := repeat 0 22 in
    match fmt_loop 11 n 11 b with
    | None => None
    | Some (n, i, b) =>
      let i := i - 1 in
      let b := put_u16 b i (at_ json_intLELookup n) in
      let i := i * 2 in
      let i := if n <? 10 then i + 1 else i in
      let '(i, b) := if negative then (i - 1, upd b (i - 1) 45) else (i, b) in
      Some (out ++ slice_from b i)
    end.

(* appendInt(b, n int64) = formatInteger(b, uint64(n), n < 0); appendUint(b, n) = formatInteger(b, n, false) *)
Definition append_int (out : bytes) (n : Z) : option bytes := format_integer out (w64 n) (n <? 0).
Definition append_uint (out : bytes) (n : Z) : option bytes := format_integer out n false.

(* ---- typed integer decoders of json/decode.go ---- *)
(* Go integer types: signedness and width *)
Inductive ity : Set := ISigned (bits : Z) | IUnsigned (bits : Z).
Definition ity_min (t : ity) : Z := match t with ISigned w => - 2 ^ (w - 1) | IUnsigned _ => 0 end.
Definition ity_max (t : ity) : Z := match t with ISigned w => 2 ^ (w - 1) - 1 | IUnsigned w => 2 ^ w - 1 end.

(* decodeInt8/16/32: parseInt then  if v < math.MinIntN || v > math.MaxIntN  overflow;  decodeInt/decodeInt64: no test.
   decodeUint8/16/32: parseUint then  if v > math.MaxUintN  overflow;  decodeUint/Uint64/Uintptr: no test. *)
Definition decode_int (t : ity) (fuel : nat) (d : Z) (b : bytes) : sres Z :=
  if json_hasNullPrefix b then SNull (slice_from b 4)
  else
    match t with
    | ISigned w =>
      match json_decoder_parseInt fuel d b tt with
      | None => SFuel
      | Some (_, _, Some _) => SErr
      | Some (v, r, None) =>
        if (w <? 64) && ((v <? ity_min t) || (v >? ity_max t)) then SErr else SOk v r
      end
    | IUnsigned w =>
      match json_decoder_parseUint fuel d b tt with
      | None => SFuel
      | Some (_, _, Some _) => SErr
      | Some (v, r, None) =>
        if (w <? 64) && (v >? ity_max t) then SErr else SOk v r
      end
    end.

(* json.Unmarshal(b, &x) for an integer x *)
Definition int_fuel (b : bytes) : nat := (length b + 3)%nat.
Definition unmarshal_int (t : ity) (b : bytes) : sres Z :=
  unmarshal_with (fun d b' => decode_int t (int_fuel b) d b') b.
