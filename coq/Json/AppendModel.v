(* C15: the three places of json/encode.go that do their own length/capacity arithmetic on the
   destination slice, modelled over an explicit backing array (so that "bytes below len(b) are never
   written" is a statement about cells, not a by-product of list concatenation), and their proofs.
   A Go slice b is (cells of its backing array from b's start up to cap(b), len(b)). *)
From Verif Require Import Base.GoInt.
From Coq Require Import Lia.
Open Scope nat_scope.

Record gslice := { cells : list Z; slen : nat }.
Definition wf_slice (b : gslice) : Prop := slen b <= length (cells b).
Definition gcap (b : gslice) : nat := length (cells b).
Definition gdata (b : gslice) : list Z := firstn (slen b) (cells b).

(* writing xs at index i of the backing array (i + |xs| <= cap, checked by the callers' arithmetic) *)
Definition write_at (cs : list Z) (i : nat) (xs : list Z) : list Z :=
  firstn i cs ++ xs ++ skipn (i + length xs) cs.

(* encodeBytes(b, v) with v != nil; [body] is the base64 text, n = len(body) + 2:
     if avail := cap(b)-len(b); avail < n { newB := make([]byte, cap(b)+(n-avail)); copy(newB, b); b = newB[:len(b)] }
     i, j := len(b), len(b)+n;  b = b[:j];  b[i] = '"';  Encode(b[i+1:j-1], v);  b[j-1] = '"'  *)
Definition encode_bytes (b : gslice) (body : list Z) : gslice * bool (* reallocated *) :=
  let n := length body + 2 in
  let avail := gcap b - slen b in
  let '(cs, re) :=
    if avail <? n then (gdata b ++ repeat 0%Z (gcap b + (n - avail) - slen b), true) else (cells b, false) in
  let i := slen b in
  ({| cells := write_at cs i (34%Z :: body ++ [34%Z]); slen := i + n |}, re).

(* encodeToString(b, p, encode): b' = encode(b) appended s after position i = len(b); then encodeString(b', s) appended
   the quoted form q after position j = len(b'); finally  n := copy(b[i:], b[j:]); return b[:i+n]  *)
Definition requote (b' : gslice) (i : nat) (q : list Z) : gslice :=
  (* b' has len j; its backing array may have been reallocated by the two appends: any cells with data = prefix ++ s *)
  let j := slen b' in
  let cs := write_at (cells b') j q in                 (* append within capacity; otherwise see requote_realloc *)
  let moved := firstn (length q) (skipn j cs) in       (* copy(b[i:], b[j:]) *)
  {| cells := write_at cs i moved; slen := i + length q |}.

(* rollback to the pre-value length on error: return b[:start] *)
Definition rollback_to (b : gslice) (start : nat) : gslice := {| cells := cells b; slen := start |}.

(* ---------------- proofs ---------------- *)
Lemma write_at_length cs i xs : i + length xs <= length cs -> length (write_at cs i xs) = length cs.
Proof. intros H. unfold write_at. rewrite !app_length, firstn_length, skipn_length. lia. Qed.
Lemma write_at_prefix cs i xs k : k <= i -> i <= length cs -> firstn k (write_at cs i xs) = firstn k cs.
Proof.
  intros Hk Hi. unfold write_at. rewrite firstn_app, firstn_length, firstn_firstn.
  replace (Nat.min k i) with k by lia. replace (k - Nat.min i (length cs)) with 0 by lia.
  cbn [firstn]. apply app_nil_r.
Qed.
Lemma write_at_data cs i xs : i + length xs <= length cs ->
  firstn (i + length xs) (write_at cs i xs) = firstn i cs ++ xs.
Proof.
  intros H. unfold write_at. rewrite app_assoc, firstn_app.
  rewrite app_length, firstn_length. replace (Nat.min i (length cs)) with i by lia.
  replace (i + length xs - (i + length xs)) with 0 by lia. cbn [firstn]. rewrite app_nil_r.
  apply firstn_all2. rewrite app_length, firstn_length. lia.
Qed.

(* encodeBytes: for EVERY length and capacity of the destination the result's data is b's data followed by the quoted
   base64 text; no cell below len(b) of b's backing array is written (the array is either reused with those cells
   untouched, or not used at all); every index the code uses is within the array it indexes *)
Theorem encode_bytes_data b body : wf_slice b ->
  let '(r, re) := encode_bytes b body in
  gdata r = gdata b ++ 34%Z :: body ++ [34%Z] /\ wf_slice r /\
  (re = false -> gcap r = gcap b /\ firstn (slen b) (cells r) = firstn (slen b) (cells b)).
Proof.
  intros Hwf. unfold encode_bytes, wf_slice, gdata, gcap in *.
  destruct (Nat.ltb_spec (length (cells b) - slen b) (length body + 2)) as [Hlt|Hge]; cbn [cells slen].
  - (* reallocation: a fresh array of cap(b) + (n - avail) cells *)
    set (cs := firstn (slen b) (cells b) ++ repeat 0%Z (length (cells b) + (length body + 2 - (length (cells b) - slen b)) - slen b)).
    assert (Hlen : length cs = slen b + (length body + 2)).
    { unfold cs. rewrite app_length, firstn_length, repeat_length. lia. }
    assert (Hx : length (34%Z :: body ++ [34%Z]) = length body + 2) by (cbn; rewrite app_length; cbn; lia).
    repeat split; try discriminate.
    + rewrite <- Hx. rewrite write_at_data by lia. f_equal. unfold cs. rewrite firstn_app, firstn_length, firstn_firstn.
      replace (Nat.min (slen b) (slen b)) with (slen b) by lia.
      replace (slen b - Nat.min (slen b) (length (cells b))) with 0 by lia. cbn [firstn]. apply app_nil_r.
    + rewrite write_at_length; lia.
  - assert (Hx : length (34%Z :: body ++ [34%Z]) = length body + 2) by (cbn; rewrite app_length; cbn; lia).
    repeat split.
    + rewrite <- Hx. apply write_at_data. lia.
    + rewrite write_at_length; lia.
    + apply write_at_length. lia.
    + apply write_at_prefix; lia.
Qed.

(* encodeToString, when the appends stay within capacity: the result is the prefix followed by the quoted form only
   (the raw form s written in between is overwritten), cells below i are untouched *)
Theorem requote_data b' i q : wf_slice b' -> i <= slen b' -> slen b' + length q <= gcap b' ->
  let r := requote b' i q in
  gdata r = firstn i (cells b') ++ q /\ wf_slice r /\ firstn i (cells r) = firstn i (cells b') /\ gcap r = gcap b'.
Proof.
  intros Hwf Hi Hcap. unfold requote, wf_slice, gdata, gcap in *. cbn [cells slen].
  set (cs := write_at (cells b') (slen b') q).
  assert (Hcs : length cs = length (cells b')) by (apply write_at_length; lia).
  assert (Hmoved : firstn (length q) (skipn (slen b') cs) = q).
  { unfold cs, write_at. rewrite skipn_app, firstn_length.
    replace (Nat.min (slen b') (length (cells b'))) with (slen b') by lia.
    rewrite skipn_all2 by (rewrite firstn_length; lia). replace (slen b' - slen b') with 0 by lia. cbn [skipn app].
    rewrite firstn_app. replace (length q - length q) with 0 by lia. cbn [firstn]. rewrite app_nil_r. apply firstn_all. }
  rewrite Hmoved.
  assert (Hpre : firstn i cs = firstn i (cells b')) by (apply write_at_prefix; lia).
  repeat split.
  - rewrite write_at_data by lia. rewrite Hpre. reflexivity.
  - rewrite write_at_length; lia.
  - rewrite write_at_prefix by lia. exact Hpre.
  - rewrite write_at_length by lia. exact Hcs.
Qed.

(* rollback: the result begins with (is exactly) the bytes before the failed value; nothing is written *)
Theorem rollback_data b start : start <= slen b -> wf_slice b ->
  gdata (rollback_to b start) = firstn start (gdata b) /\ cells (rollback_to b start) = cells b.
Proof.
  intros Hs Hwf. unfold rollback_to, gdata. cbn [cells slen]. split; [|reflexivity].
  rewrite firstn_firstn. f_equal. lia.
Qed.
