(* Specifications and statements for C11 (Decoder) and C17 (Tokenizer). Definitions only. *)
From Verif Require Import Base.GoInt Generated.AsmAsciiGen Ascii.AsmTotal Generated.AsciiGen Json.Ext Generated.JsonParseGen Json.Grammar Json.StreamModel.
Open Scope Z_scope.

(* ================= C17: the token stream of a valid document, from the grammar ================= *)
(* a specification token: raw value, depth, index, key flag; [st_constrained] = scalar or opening delimiter
   (the property constrains Depth/Index/IsKey only for those) *)
Record stoken := { st_value : bytes; st_depth : Z; st_index : Z; st_iskey : bool; st_constrained : bool }.
Definition mk_scalar (v : bytes) (depth index : Z) (iskey : bool) : stoken :=
  {| st_value := v; st_depth := depth; st_index := index; st_iskey := iskey; st_constrained := true |}.
Definition mk_punct (c : Z) : stoken :=
  {| st_value := [c]; st_depth := 0; st_index := 0; st_iskey := false; st_constrained := false |}.
(* the bytes consumed by a recogniser step: b = consumed ++ rest *)
Definition consumed (b rest : bytes) : bytes := firstn (length b - length rest) b.

(* tokens of the value at the head of b (no leading white space), with its rest; mirrors Json/Grammar.v g_value *)
Fixpoint g_tokens (fuel : nat) (b : bytes) (depth index : Z) (iskey : bool) {struct fuel} : option (list stoken * bytes) :=
  match fuel with
  | O => None
  | S f =>
      match b with
      | 91 :: r =>                                             (* [ *)
          let open_ := mk_scalar [91] depth index iskey in
          match skip_ws r with
          | 93 :: r' => Some ([open_; mk_punct 93], r')
          | r1 =>
              (fix elems (n : nat) (b : bytes) (i : Z) (acc : list stoken) {struct n} : option (list stoken * bytes) :=
                 match n with
                 | O => None
                 | S n' =>
                     match g_tokens f b (depth + 1) i false with
                     | None => None
                     | Some (ts, r) =>
                         match skip_ws r with
                         | 44 :: r' => elems n' (skip_ws r') (i + 1) (acc ++ ts ++ [mk_punct 44])
                         | 93 :: r' => Some (acc ++ ts ++ [mk_punct 93], r')
                         | _ => None
                         end
                     end
                 end) f r1 0 [open_]
          end
      | 123 :: r =>                                            (* { *)
          let open_ := mk_scalar [123] depth index iskey in
          match skip_ws r with
          | 125 :: r' => Some ([open_; mk_punct 125], r')
          | r1 =>
              (fix members (n : nat) (b : bytes) (i : Z) (acc : list stoken) {struct n} : option (list stoken * bytes) :=
                 match n with
                 | O => None
                 | S n' =>
                     match b with
                     | 34 :: k =>
                         match g_string k with
                         | None => None
                         | Some r =>
                             let key := mk_scalar (consumed b r) (depth + 1) i true in
                             match skip_ws r with
                             | 58 :: r' =>
                                 match g_tokens f (skip_ws r') (depth + 1) i false with
                                 | None => None
                                 | Some (ts, r) =>
                                     match skip_ws r with
                                     | 44 :: r' => members n' (skip_ws r') (i + 1) (acc ++ [key; mk_punct 58] ++ ts ++ [mk_punct 44])
                                     | 125 :: r' => Some (acc ++ [key; mk_punct 58] ++ ts ++ [mk_punct 125], r')
                                     | _ => None
                                     end
                                 end
                             | _ => None
                             end
                         end
                     | _ => None
                     end
                 end) f r1 0 [open_]
          end
      | _ =>
          match g_value (S f) b with                           (* a scalar: one token *)
          | Some r => Some ([mk_scalar (consumed b r) depth index iskey], r)
          | None => None
          end
      end
  end.
Definition spec_tokens (b : bytes) : option (list stoken) :=
  match g_tokens (S (length b)) (skip_ws b) 0 0 false with
  | Some (ts, r) => match skip_ws r with [] => Some ts | _ => None end
  | None => None
  end.

(* what the property compares *)
Definition token_matches (k : token) (s : stoken) : bool :=
  bytes_eqb (k_value k) (st_value s) &&
  (negb (st_constrained s) || ((k_depth k =? st_depth s) && (k_index k =? st_index s) && Bool.eqb (k_iskey k) (st_iskey s))).
Fixpoint tokens_match (ks : list token) (ss : list stoken) : bool :=
  match ks, ss with
  | [], [] => true
  | k :: kr, s :: sr => token_matches k s && tokens_match kr sr
  | _, _ => false
  end.

(* for every valid document the tokenizer yields exactly the specification's tokens, without error *)
Definition tokens_exact_statement : Prop :=
  forall b ss, wfb b = true -> len b < 2 ^ 62 -> spec_tokens b = Some ss ->
    exists ks st, tokenize b = Some (ks, st) /\ t_err st = false /\ tokens_match ks ss = true.
(* the concatenation of the specification tokens is the compacted document (white space between tokens removed) *)
Fixpoint strip_ws_outside_strings (instr esc : bool) (b : bytes) : bytes :=
  match b with
  | [] => []
  | c :: r =>
      if instr then c :: (if esc then strip_ws_outside_strings true false r
                          else if c =? 92 then strip_ws_outside_strings true true r
                          else if c =? 34 then strip_ws_outside_strings false false r
                          else strip_ws_outside_strings true false r)
      else if is_ws c then strip_ws_outside_strings false false r
      else c :: strip_ws_outside_strings (c =? 34) false r
  end.
Definition tokens_concat_statement : Prop :=
  forall b ss, wfb b = true -> spec_tokens b = Some ss ->
    concat (map st_value ss) = strip_ws_outside_strings false false b.
(* every byte string: the tokenizer terminates (fuel S (length b) is enough), each Value is the sub-slice of the input
   that ends Remaining bytes before its end, and after an error Next keeps returning false *)
Definition tok_total_statement : Prop :=
  forall b, wfb b = true -> len b < 2 ^ 62 ->
    exists ks st, tokenize b = Some (ks, st) /\
      forallb (fun k => (k_remaining k + len (k_value k) <=? len b) &&
                        bytes_eqb (k_value k) (slice b (len b - k_remaining k - len (k_value k)) (len b - k_remaining k))) ks = true.
Definition err_sticky_statement : Prop :=
  forall pfuel d st, t_err st = true -> t_next pfuel d st = Some (false, st).

(* ================= C11: the value stream of a byte stream, from the grammar ================= *)
(* the values of a stream: repeatedly skip white space and take one value; [None] when the stream does not end cleanly *)
Fixpoint frame (fuel : nat) (b : bytes) : list bytes * bool (* clean end *) :=
  match fuel with
  | O => ([], false)
  | S f =>
      match skip_ws b with
      | [] => ([], true)
      | b' => match g_value (S (length b')) b' with
              | None => ([], false)
              | Some r =>
                  (* a top-level number (or literal) must be followed by a delimiter or the end of the stream: the
                     recogniser's maximal munch guarantees it for numbers; true2 is a syntax error for the next value *)
                  let '(vs, ok) := frame f r in (consumed b' r :: vs, ok)
              end
      end
  end.
Definition script_data (s : script) : bytes := concat (map fst s).
Definition script_clean (s : script) : Prop := forall d e, In (d, e) s -> e = None.   (* no error inside the script *)
Definition all_values (s : script) (term : rerr) : list bytes * dresult * list Z :=
  let n := length (script_data s) in
  decode_all (n + 2) (n + length s + 40) (2 * n + 8) (d_init s term) [] [].

(* however the bytes arrive (any chunking, zero-length reads), a stream that ends with io.EOF yields exactly the values of
   the concatenated bytes, then io.EOF at a clean end and an error other than io.EOF otherwise *)
Definition stream_independent_statement : Prop :=
  forall s, wfb (script_data s) = true -> len (script_data s) < 2 ^ 30 -> script_clean s ->
    let '(vals, fin, _) := all_values s REOF in
    let '(spec_vals, clean) := frame (S (length (script_data s))) (script_data s) in
    vals = spec_vals /\ (clean = true -> fin = DError REOF) /\ (clean = false -> fin <> DError REOF /\ fin <> DOutOfFuel).
(* the same values whatever the chunking: two scripts with the same data *)
Definition chunking_irrelevant_statement : Prop :=
  forall s1 s2, script_data s1 = script_data s2 -> wfb (script_data s1) = true -> len (script_data s1) < 2 ^ 30 ->
    script_clean s1 -> script_clean s2 ->
    fst (fst (all_values s1 REOF)) = fst (fst (all_values s2 REOF)) /\ snd (fst (all_values s1 REOF)) = snd (fst (all_values s2 REOF)).
(* a reader that fails: a prefix of the values, then the reader's error (or a syntax error met earlier) *)
Definition stream_failing_statement : Prop :=
  forall s, wfb (script_data s) = true -> len (script_data s) < 2 ^ 30 -> script_clean s ->
    let '(vals, fin, _) := all_values s RFail in
    let '(spec_vals, _) := frame (S (length (script_data s))) (script_data s) in
    (exists k, vals = firstn k spec_vals) /\ (fin = DError RFail \/ fin = DSyntax).
(* InputOffset never decreases and after each value lies between its end and the start of the next *)
Fixpoint nondecreasing (l : list Z) : bool :=
  match l with x :: ((y :: _) as r) => (x <=? y) && nondecreasing r | _ => true end.
Definition offset_monotone_statement : Prop :=
  forall s term, wfb (script_data s) = true -> len (script_data s) < 2 ^ 30 ->
    nondecreasing (snd (all_values s term)) = true.
