(* Proofs for the Reset / pooled-stack-reuse half of C17 (statements in Json/TokenReuseSpec.v). *)
From Verif Require Import Base.GoInt Generated.AsmAsciiGen Ascii.AsmTotal Generated.AsciiGen Json.Ext Generated.JsonParseGen
  Json.StreamModel Json.StateSpec Json.TokenProofs Json.TokenReuseModel Json.TokenReuseSpec.
Open Scope Z_scope.

(* ================= lists: a slice seen through its backing array ================= *)
Lemma firstn_S_nth {A} (d : A) : forall (n : nat) (l : list A), (n < length l)%nat ->
  firstn (S n) l = firstn n l ++ [nth n l d].
Proof.
  induction n as [|n IH]; intros [|x l] H; cbn [length] in H; try lia.
  - reflexivity.
  - cbn [firstn nth app]. f_equal. apply IH. lia.
Qed.
Lemma length_set_nth {A} (x : A) : forall (l : list A) (n : nat), length (set_nth l n x) = length l.
Proof. induction l as [|y l IH]; intros [|n]; cbn [set_nth length]; auto. Qed.
Lemma firstn_set_nth {A} (x : A) : forall (n : nat) (l : list A), firstn n (set_nth l n x) = firstn n l.
Proof.
  induction n as [|n IH]; intros [|y l]; try reflexivity.
  cbn [set_nth firstn]. f_equal. apply IH.
Qed.
Lemma nth_set_nth {A} (d x : A) : forall (n : nat) (l : list A), (n < length l)%nat -> nth n (set_nth l n x) d = x.
Proof.
  induction n as [|n IH]; intros [|y l] H; cbn [length] in H; try lia.
  - reflexivity.
  - cbn [set_nth nth]. apply IH. lia.
Qed.
(* writing slot n and looking at the first n+1 slots: the first n are untouched, whatever slot n held before is gone *)
Lemma firstn_S_set_nth {A} (x : A) (n : nat) (l : list A) : (n < length l)%nat ->
  firstn (S n) (set_nth l n x) = firstn n l ++ [x].
Proof.
  intros H. rewrite (firstn_S_nth x) by (rewrite length_set_nth; exact H).
  rewrite firstn_set_nth, nth_set_nth by exact H. reflexivity.
Qed.
Lemma len_firstn {A} (n : nat) (l : list A) : (n <= length l)%nat -> len (firstn n l) = Z.of_nat n.
Proof. intros H. unfold len. rewrite firstn_length_le by exact H. reflexivity. Qed.

(* the abstract stack operations on a stack with a known top *)
Lemma stack_pop_snoc' s t n0 e : stack_pop (s ++ [(t, n0)]) e = if t =? e then Some s else None.
Proof. unfold stack_pop. rewrite rev_unit. destruct (t =? e); [rewrite rev_involutive|]; reflexivity. Qed.
Lemma abs_top (s : cstack) i : cs_len s = S i -> (i < length (cs_arr s))%nat ->
  abs_stack (Some s) = firstn i (cs_arr s) ++ [nth i (cs_arr s) zero_frame].
Proof. intros E H. cbn [abs_stack]. rewrite E. apply firstn_S_nth. exact H. Qed.

(* ================= the stack operations, one by one ================= *)
Lemma abs_depth s : wf_stack s -> stack_depth (abs_stack s) = tk_depth s.
Proof.
  destruct s as [s|]; cbn [wf_stack abs_stack tk_depth]; [|reflexivity].
  intros H. unfold stack_depth, cs_depth. apply len_firstn. exact H.
Qed.
Lemma abs_index s : wf_stack s -> stack_index (abs_stack s) = tk_index s.
Proof.
  destruct s as [s|]; cbn [wf_stack tk_index]; [|reflexivity].
  intros H. unfold cs_index. destruct (cs_len s) as [|i] eqn:E.
  - cbn [abs_stack]. rewrite E. reflexivity.
  - rewrite (abs_top s i E H). destruct (nth i (cs_arr s) zero_frame) as [t c]. apply stack_index_snoc.
Qed.
Lemma abs_cs_push rt s typ : (cs_len s <= length (cs_arr s))%nat ->
  abs_stack (Some (cs_push rt s typ)) = abs_stack (Some s) ++ [(typ, 1)] /\ wf_stack (Some (cs_push rt s typ)).
Proof.
  intros H. unfold cs_push, cs_cap. destruct (Nat.ltb_spec (cs_len s) (length (cs_arr s))) as [L|L];
    cbn [abs_stack wf_stack cs_arr cs_len].
  - split; [apply firstn_S_set_nth; exact L|]. rewrite length_set_nth. lia.
  - (* a full array: append reallocates; only the live frames are copied *)
    assert (E : length (firstn (cs_len s) (cs_arr s)) = cs_len s) by (apply firstn_length_le; exact H).
    split.
    + rewrite firstn_app, E. rewrite firstn_all2 by lia.
      replace (S (cs_len s) - cs_len s)%nat with 1%nat by lia. reflexivity.
    + rewrite !app_length, E. cbn [length]. lia.
Qed.
Lemma abs_acquire : acquire_empty_statement.
Proof.
  intros rt step pool. unfold acquire_stack. destruct (rt_get rt step pool) as [[s|] pool'];
    cbn [abs_stack wf_stack cs_len cs_arr firstn]; split; try reflexivity; lia.
Qed.
Lemma abs_push rt step s pool typ : wf_stack s ->
  abs_stack (fst (tk_push rt step s pool typ)) = abs_stack s ++ [(typ, 1)] /\ wf_stack (fst (tk_push rt step s pool typ)).
Proof.
  intros H. unfold tk_push. destruct s as [s0|].
  - cbn [fst]. apply abs_cs_push. exact H.
  - pose proof (abs_acquire rt step pool) as A. destruct (acquire_stack rt step pool) as [s0 pool'].
    destruct A as [A1 A2]. cbn [fst]. destruct (abs_cs_push rt s0 typ A2) as [P1 P2].
    rewrite P1, A1. split; [reflexivity|exact P2].
Qed.
Lemma abs_pop s e : wf_stack s ->
  wf_stack (snd (tk_pop s e)) /\
  match stack_pop (abs_stack s) e with
  | Some stk => fst (tk_pop s e) = false /\ abs_stack (snd (tk_pop s e)) = stk
  | None => fst (tk_pop s e) = true /\ abs_stack (snd (tk_pop s e)) = abs_stack s
  end.
Proof.
  destruct s as [s|]; cbn [wf_stack tk_pop]; [|intros _; cbn; auto].
  intros H. unfold cs_pop. destruct (cs_len s) as [|i] eqn:E.
  - cbn [fst snd negb wf_stack abs_stack]. rewrite E. cbn. auto.
  - rewrite (abs_top s i E H). destruct (nth i (cs_arr s) zero_frame) as [t c] eqn:N. rewrite stack_pop_snoc'.
    cbn [fst]. rewrite (Z.eqb_sym e t). destruct (t =? e); cbn [negb fst snd wf_stack abs_stack cs_len cs_arr].
    + split; [lia|]. split; reflexivity.
    + split; [lia|]. split; [reflexivity|]. rewrite E, (firstn_S_nth zero_frame i) by exact H. rewrite N. reflexivity.
Qed.
Lemma abs_comma (s : cstack) : wf_stack (Some s) ->
  (len (abs_stack (Some s)) =? 0) = (cs_len s =? 0)%nat /\
  ((cs_len s =? 0)%nat = false ->
     stack_top_is (abs_stack (Some s)) 1 = cs_is s 1 /\
     stack_incr (abs_stack (Some s)) = abs_stack (Some (cs_incr s)) /\ wf_stack (Some (cs_incr s))).
Proof.
  cbn [wf_stack]. intros H. split.
  - cbn [abs_stack]. rewrite len_firstn by exact H. destruct (cs_len s); reflexivity.
  - intros N. unfold cs_is, cs_incr. destruct (cs_len s) as [|i] eqn:E; [discriminate N|].
    rewrite (abs_top s i E H). destruct (nth i (cs_arr s) zero_frame) as [t c]. cbn [fst snd].
    rewrite stack_top_snoc, stack_incr_snoc. cbn [abs_stack wf_stack cs_arr cs_len].
    split; [reflexivity|]. rewrite length_set_nth. split; [|exact H].
    symmetry. apply firstn_S_set_nth. exact H.
Qed.

(* ================= the two halves of Next ================= *)
Lemma scan_refines pfuel st c j : c_err st = false ->
  match c_scan pfuel st c j with
  | None => t_scan pfuel (c_flags st) (abs st) c j = None
  | Some (s1, k) => t_scan pfuel (c_flags st) (abs st) c j = Some (abs s1, k) /\
                    c_stack s1 = c_stack st /\ c_flags s1 = c_flags st
  end.
Proof.
  intros He. unfold c_scan, t_scan, is_delim, c_scalar, sc_state.
  repeat match goal with
  | |- context [if ?c then _ else _] => destruct c
  end;
  repeat match goal with
  | |- context [match ?x with Some _ => _ | None => _ end] => destruct x as [[[[? ?] ?] ?]|]
  | |- context [let '(_, _) := ?x in _] => destruct x as [[[? ?] ?] ?]
  end; try reflexivity; unfold c_lex, abs; cbn; try rewrite He; repeat split; reflexivity.
Qed.

Local Ltac fin := repeat split; first [reflexivity | assumption].
Lemma mach_refines rt step s1 kind : wf_c s1 ->
  t_mach (abs s1) kind = Some (fst (c_mach rt step s1 kind), abs (snd (c_mach rt step s1 kind))) /\
  wf_c (snd (c_mach rt step s1 kind)) /\ c_flags (snd (c_mach rt step s1 kind)) = c_flags s1.
Proof.
  destruct s1 as [dl v err dp ix ik ikn js stk fl kd pool]. unfold wf_c. cbn [c_stack]. intros W.
  unfold t_mach, c_mach, abs.
  cbn [c_delim c_value c_err c_depth c_index c_iskey c_iskey_next c_json c_stack c_flags c_kind c_pool
       t_delim t_value t_err t_depth t_index t_iskey t_iskey_next t_json t_stack t_kind].
  rewrite (abs_depth stk W), (abs_index stk W).
  destruct (dl =? 0) eqn:D0.
  { apply Z.eqb_eq in D0. subst dl. cbn. fin. }
  destruct (dl =? 123) eqn:D1.
  { destruct (abs_push rt step stk pool 1 W) as [P1 P2]. destruct (tk_push rt step stk pool 1) as [stk' pool'].
    cbn [fst] in P1, P2. cbn. rewrite D0, P1. fin. }
  destruct (dl =? 91) eqn:D2.
  { destruct (abs_push rt step stk pool 0 W) as [P1 P2]. destruct (tk_push rt step stk pool 0) as [stk' pool'].
    cbn [fst] in P1, P2. cbn. rewrite D0, P1. fin. }
  destruct (dl =? 125) eqn:D3.
  { destruct (abs_pop stk 1 W) as [P1 P2]. destruct (tk_pop stk 1) as [e stk']. cbn [fst snd] in P1, P2.
    destruct (stack_pop (abs_stack stk) 1) as [a|]; destruct P2 as [-> P3]; cbn; rewrite D0;
      [subst a; rewrite (abs_index stk' P1)|rewrite <- (abs_index stk W), <- P3, (abs_index stk' P1)]; fin. }
  destruct (dl =? 93) eqn:D4.
  { destruct (abs_pop stk 0 W) as [P1 P2]. destruct (tk_pop stk 0) as [e stk']. cbn [fst snd] in P1, P2.
    destruct (stack_pop (abs_stack stk) 0) as [a|]; destruct P2 as [-> P3]; cbn; rewrite D0;
      [subst a; rewrite (abs_index stk' P1)|rewrite <- (abs_index stk W), <- P3, (abs_index stk' P1)]; fin. }
  destruct (dl =? 58) eqn:D5.
  { cbn. rewrite D0. fin. }
  destruct stk as [s|].
  - destruct (abs_comma s W) as [C1 C2]. rewrite C1. destruct (cs_len s =? 0)%nat eqn:N.
    + cbn. fin.
    + destruct (C2 eq_refl) as (C3 & C4 & C5). rewrite C3, C4. cbn. rewrite D0. fin.
  - cbn. repeat split.
Qed.

Lemma ipf_nil pfuel : json_internalParseFlags pfuel [] = Some (Z.lor (Z.lor 0 json_validAsciiPrint) json_noBackslash).
Proof. reflexivity. Qed.

(* ================= (a) refinement ================= *)
Lemma next_refines : next_refines_statement.
Proof.
  intros rt step pfuel st W. rewrite t_next_eq. unfold c_next.
  change (t_err (abs st)) with (c_err st). change (t_json (abs st)) with (c_json st).
  destruct (c_err st) eqn:He.
  { split; [reflexivity|]. intros r st' E. injection E as <- <-. split; [exact W|discriminate]. }
  cbv zeta. destruct (json_skipSpaces (c_json st)) as [|c j] eqn:J.
  { unfold reset_c. rewrite ipf_nil. split; [reflexivity|]. intros r st' E. injection E as <- <-.
    split; [exact I|discriminate]. }
  pose proof (scan_refines pfuel st c (c :: j) He) as S.
  destruct (c_scan pfuel st c (c :: j)) as [[s1 k]|].
  - destruct S as (S1 & S2 & S3). rewrite S1.
    assert (W1 : wf_c s1) by (unfold wf_c; rewrite S2; exact W).
    destruct (mach_refines rt step s1 k W1) as (M1 & M2 & M3). rewrite M1.
    destruct (c_mach rt step s1 k) as [r s3]. cbn [fst snd] in *. split; [reflexivity|].
    intros r' st' E. injection E as <- <-. split; [exact M2|]. intros _. rewrite M3. exact S3.
  - rewrite S. split; [reflexivity|]. intros r st' E. discriminate E.
Qed.

Lemma stale_irrelevant : stale_irrelevant_statement.
Proof.
  intros rt1 rt2 step1 step2 pfuel s1 s2 W1 W2 [A F].
  destruct (next_refines rt1 step1 pfuel s1 W1) as [R1 _]. destruct (next_refines rt2 step2 pfuel s2 W2) as [R2 _].
  rewrite R1, R2, A, F. reflexivity.
Qed.

Lemma run_refines : run_refines_statement.
Proof.
  intros rt fuel pfuel. induction fuel as [|f IH]; intros st acc W; [reflexivity|].
  cbn [c_run t_run]. destruct (next_refines rt (S f) pfuel st W) as [R P]. rewrite <- R.
  destruct (c_next rt (S f) pfuel st) as [[[|] st']|]; cbn [abs_step abs_run]; try reflexivity.
  destruct (P true st' eq_refl) as [W' F]. rewrite <- (F eq_refl). apply (IH st' _ W').
Qed.

(* ================= (b) (c) Reset and pooled reuse ================= *)
Lemma reset_like_new : reset_like_new_statement.
Proof.
  intros rt st b. unfold tokenize_reset, tokenize, reset_c.
  destruct (json_internalParseFlags (2 * length b + 8)%nat b) as [d|]; [|reflexivity].
  apply (run_refines rt (S (length b)) (2 * length b + 8)%nat). exact I.
Qed.
Lemma pooled_like_new : pooled_like_new_statement.
Proof.
  intros rt pool b. unfold tokenize_new, tokenize, new_c.
  destruct (json_internalParseFlags (2 * length b + 8)%nat b) as [d|]; [|reflexivity].
  apply (run_refines rt (S (length b)) (2 * length b + 8)%nat). exact I.
Qed.
Lemma history_like_new : history_like_new_statement.
Proof. intros rt h st0 st b _. apply reset_like_new. Qed.
Lemma reset_is_new : reset_is_new_statement.
Proof.
  intros pfuel st b. unfold reset_c, new_c.
  exists (match c_stack st with Some s => release_stack s (c_pool st) | None => c_pool st end). reflexivity.
Qed.

(* ================= (d) the error is sticky until Reset ================= *)
Lemma err_sticky_c : err_sticky_c_statement.
Proof. intros rt step pfuel st H. unfold c_next. rewrite H. reflexivity. Qed.
Lemma err_sticky_steps : err_sticky_steps_statement.
Proof.
  intros rt n pfuel. induction n as [|n IH]; intros st H; [reflexivity|].
  cbn [c_steps]. rewrite (err_sticky_c rt (S n) pfuel st H). apply IH. exact H.
Qed.
Lemma reset_clears_err : reset_clears_err_statement.
Proof.
  intros pfuel b st st'. unfold reset_c. destruct (json_internalParseFlags pfuel b) as [d|]; [|discriminate].
  intros E. injection E as <-. cbn. repeat split; reflexivity.
Qed.
Lemma err_only_reset : err_only_reset_statement.
Proof.
  intros rt step pfuel st r st' H E. rewrite (err_sticky_c rt step pfuel st H) in E. injection E as <- <-.
  split; [reflexivity|exact H].
Qed.

(* ================= the C17 theorems carried over to a Reset tokenizer ================= *)
Lemma run_wf rt pfuel : forall fuel st acc ks stf, wf_c st -> c_run rt fuel pfuel st acc = Some (ks, stf) -> wf_c stf.
Proof.
  induction fuel as [|f IH]; intros st acc ks stf W E; [discriminate E|]. cbn [c_run] in E.
  destruct (next_refines rt (S f) pfuel st W) as [_ P].
  destruct (c_next rt (S f) pfuel st) as [[[|] st']|]; [| |discriminate E].
  - apply (IH st' _ ks stf (proj1 (P true st' eq_refl)) E).
  - injection E as _ <-. apply (P false st' eq_refl).
Qed.
Lemma reset_run_inv rt st b ks s : tokenize b = Some (ks, s) ->
  exists stf, tokenize_reset rt st b = Some (ks, stf) /\ abs stf = s /\ wf_c stf.
Proof.
  intros E. pose proof (reset_like_new rt st b) as R. rewrite E in R.
  destruct (tokenize_reset rt st b) as [[ks' stf]|] eqn:T; [|discriminate R].
  cbn [abs_run] in R. injection R as -> <-. exists stf. split; [reflexivity|]. split; [reflexivity|].
  unfold tokenize_reset, reset_c in T. destruct (json_internalParseFlags (2 * length b + 8)%nat b); [|discriminate T].
  refine (run_wf _ _ _ _ _ _ _ _ T). exact I.
Qed.
Lemma reset_tokens_exact : reset_tokens_exact_statement.
Proof.
  intros rt st b ss Hw Hl Hs. destruct (tokens_exact b ss Hw Hl Hs) as (ks & s & E & He & Hm).
  destruct (reset_run_inv rt st b ks s E) as (stf & T & A & _). exists ks, stf.
  split; [exact T|]. split; [|exact Hm]. rewrite <- A in He. exact He.
Qed.
Lemma reset_total : reset_total_statement.
Proof.
  intros rt st b Hw Hl. destruct (tok_total b Hw Hl) as (ks & s & E & C).
  destruct (reset_run_inv rt st b ks s E) as (stf & T & _ & W). exists ks, stf. auto.
Qed.
