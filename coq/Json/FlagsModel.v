(* C14: executable model of the number-kind selection of json/decode.go (decodeInterface's number case,
   decodeDynamicNumber, decodeInto and the five decode functions it can call) and of the member order of the
   map encoders of json/encode.go.

   The scanners are the machine translations of json/parse.go (Generated/JsonParseGen.v: parseNumber, parseInt,
   parseUint, parseValue, skipSpaces, hasNullPrefix), regenerated from /repo on every run. Hand-written here:
   the glue of decode.go (anyFlagsSet, decodeUint64, decodeInt64, decodeNumber, decodeFloat64, the bigIntDecoder,
   decodeDynamicNumber, the trailing-bytes test of decodeInterface).

   External code is a Section variable: strconv.ParseFloat(s, 64) as [parse_float] (IEEE-754 bits of the result,
   None for a range error). math/big's Int.UnmarshalJSON is modelled by its specification on the inputs that can
   reach it (JSON values): [big_unmarshal]. No proofs in this file. *)
From Coq Require Import ZArith List Bool.
From Verif Require Import Base.GoInt Json.Ext Generated.JsonParseGen.
Import ListNotations.
Open Scope Z_scope.

(* what is stored in the interface: dynamic type and payload *)
Inductive numres : Type :=
| RUint64 (v : Z)        (* uint64 *)
| RInt64 (v : Z)         (* int64 *)
| RBigInt (v : Z)        (* *big.Int *)
| RNumber (s : bytes)    (* json.Number: the literal text *)
| RFloat64 (bits : Z)    (* float64, as math.Float64bits *)
| RErr                   (* Parse returns an error *)
| RFuel.                 (* the model ran out of fuel (excluded by the theorems) *)

(* result of one decodeFunc: value and remaining input, or an error (the remainder returned with an error is never
   looked at by decodeDynamicNumber / decodeInterface, so it is not modelled) *)
Inductive dres (A : Type) : Type :=
| DOk (v : A) (rem : bytes)
| DErr
| DFuel.
Arguments DOk {A} _ _.
Arguments DErr {A}.
Arguments DFuel {A}.

(* decode.go anyFlagsSet: d.flags&flags != 0 *)
Definition any_flags_set (d mask : Z) : bool := negb (Z.land d mask =? 0).

(* decimal digits, most significant first *)
Fixpoint digits_value_from (acc : Z) (b : bytes) : Z :=
  match b with
  | [] => acc
  | c :: r => digits_value_from (acc * 10 + (c - 48)) r
  end.
Definition digits_value (b : bytes) : Z := digits_value_from 0 b.
Definition all_digits (b : bytes) : bool := forallb (fun c => (48 <=? c) && (c <=? 57)) b.

(* math/big Int.UnmarshalJSON (pointer receiver) on a JSON value v: the text null leaves the (fresh, zero) Int alone; otherwise
   UnmarshalText = SetString(text, 0): on a JSON value this succeeds exactly for [-]digits without a leading zero
   (base prefixes, underscores and a plus sign cannot occur in a JSON value; a fraction or exponent is rejected) *)
Definition big_unmarshal (v : bytes) : option Z :=
  if bytes_eqb v [110; 117; 108; 108] then Some 0
  else
    let '(neg, ds) := match v with 45 :: r => (true, r) | _ => (false, v) end in
    match ds with
    | [] => None
    | 48 :: _ :: _ => None
    | _ => if all_digits ds then Some (if neg then - digits_value ds else digits_value ds) else None
    end.

Section Decode.
  Variable parse_float : bytes -> option Z.   (* strconv.ParseFloat(string(v), 64) *)

  (* decode.go decodeUint64 *)
  Definition decode_uint64 (fuel : nat) (d : Z) (b : bytes) : dres Z :=
    if json_hasNullPrefix b then DOk 0 (slice_from b 4)
    else match json_decoder_parseUint fuel d b tt with
         | None => DFuel
         | Some (v, r, None) => DOk v r
         | Some (_, _, Some _) => DErr
         end.

  (* decode.go decodeInt64 *)
  Definition decode_int64 (fuel : nat) (d : Z) (b : bytes) : dres Z :=
    if json_hasNullPrefix b then DOk 0 (slice_from b 4)
    else match json_decoder_parseInt fuel d b tt with
         | None => DFuel
         | Some (v, r, None) => DOk v r
         | Some (_, _, Some _) => DErr
         end.

  (* decode.go decodeNumber (DontCopyNumber only chooses between aliasing and copying the same bytes) *)
  Definition decode_number (fuel : nat) (d : Z) (b : bytes) : dres bytes :=
    if json_hasNullPrefix b then DOk [] (slice_from b 4)
    else match json_decoder_parseNumber fuel d b with
         | None => DFuel
         | Some (v, r, _, None) => DOk v r
         | Some (_, _, _, Some _) => DErr
         end.

  (* decode.go decodeFloat64 *)
  Definition decode_float64 (fuel : nat) (d : Z) (b : bytes) : dres Z :=
    if json_hasNullPrefix b then DOk 0 (slice_from b 4)
    else match json_decoder_parseNumber fuel d b with
         | None => DFuel
         | Some (v, r, _, None) => match parse_float v with Some f => DOk f r | None => DErr end
         | Some (_, _, _, Some _) => DErr
         end.

  (* codec.go bigIntDecoder = decodeJSONUnmarshaler for *big.Int: parseValue, then UnmarshalJSON on the value *)
  Definition decode_bigint (fuel : nat) (d : Z) (b : bytes) : dres Z :=
    match json_decoder_parseValue fuel d b with
    | None => DFuel
    | Some (v, r, _, None) => match big_unmarshal v with Some z => DOk z r | None => DErr end
    | Some (_, _, _, Some _) => DErr
    end.

  Definition three_flags : Z := Z.lor json_UseBigInt (Z.lor json_UseInt64 json_UseUint64).

  (* decode.go decodeDynamicNumber *)
  Definition decode_dynamic_number (fuel : nat) (d : Z) (b : bytes) : dres numres :=
    let kind_r : dres Z :=
      if any_flags_set d three_flags then
        match json_decoder_parseNumber fuel d b with
        | None => DFuel
        | Some (_, _, kind, None) => DOk kind []
        | Some (_, _, _, Some _) => DErr
        end
      else DOk json_Float [] in
    match kind_r with
    | DFuel => DFuel
    | DErr => DErr
    | DOk kind _ =>
      (* the second switch: fallback cases, also reached after an overflow in the first switch *)
      let fallback (_ : unit) : dres numres :=
        if ((kind =? json_Uint) && any_flags_set d json_UseBigInt) || ((kind =? json_Int) && any_flags_set d json_UseBigInt) then
          match decode_bigint fuel d b with DOk z r => DOk (RBigInt z) r | DErr => DErr | DFuel => DFuel end
        else if any_flags_set d json_UseNumber then
          match decode_number fuel d b with DOk s r => DOk (RNumber s) r | DErr => DErr | DFuel => DFuel end
        else
          match decode_float64 fuel d b with DOk f r => DOk (RFloat64 f) r | DErr => DErr | DFuel => DFuel end in
      (* the first switch: mutually exclusive integer cases *)
      if (kind =? json_Uint) && any_flags_set d json_UseUint64 then
        match decode_uint64 fuel d b with DOk v r => DOk (RUint64 v) r | DErr => fallback tt | DFuel => DFuel end
      else if ((kind =? json_Uint) && any_flags_set d json_UseInt64) || ((kind =? json_Int) && any_flags_set d json_UseInt64) then
        match decode_int64 fuel d b with DOk v r => DOk (RInt64 v) r | DErr => fallback tt | DFuel => DFuel end
      else fallback tt
    end.

  (* decode.go decodeInterface, case Num, on the number literal v that parseValue cut out of the input:
     decodeDynamicNumber, then nothing but white space may remain *)
  Definition decode_interface_number (fuel : nat) (d : Z) (v : bytes) : numres :=
    match decode_dynamic_number fuel d v with
    | DFuel => RFuel
    | DErr => RErr
    | DOk res rem => if len (json_skipSpaces rem) =? 0 then res else RErr
    end.

  Definition num_fuel (v : bytes) : nat := (length v + 3)%nat.
  Definition decode_number_literal (d : Z) (v : bytes) : numres := decode_interface_number (num_fuel v) d v.
End Decode.

(* ---- member order of the map encoders (encode.go encodeMap and the five specialised encoders) ----
   A Go map is a list of entries with pairwise distinct keys; the runtime hands them out in some order (a
   parameter). With SortMapKeys the encoders sort the entries by key before writing, without it they write them in
   iteration order. A member is the encoded key and the encoded value. *)
Section MapOrder.
  Variables K V : Type.
  Variable key_leb : K -> K -> bool.          (* the order used by sort.Sort / sortKeys *)
  Variable enc_key : K -> bytes.
  Variable enc_val : V -> bytes.

  Fixpoint insert_entry (e : K * V) (l : list (K * V)) : list (K * V) :=
    match l with
    | [] => [e]
    | x :: r => if key_leb (fst e) (fst x) then e :: l else x :: insert_entry e r
    end.
  Fixpoint sort_entries (l : list (K * V)) : list (K * V) :=
    match l with
    | [] => []
    | e :: r => insert_entry e (sort_entries r)
    end.

  Definition members (order : list (K * V)) : list (bytes * bytes) :=
    map (fun e => (enc_key (fst e), enc_val (snd e))) order.

  (* the output for an iteration order of the runtime *)
  Definition map_members (sorted : bool) (iteration : list (K * V)) : list (bytes * bytes) :=
    if sorted then members (sort_entries iteration) else members iteration.

  (* text of an object from its members *)
  Fixpoint join_members (ms : list (bytes * bytes)) : bytes :=
    match ms with
    | [] => []
    | [(k, v)] => k ++ [58] ++ v
    | (k, v) :: r => k ++ [58] ++ v ++ [44] ++ join_members r
    end.
  Definition object_text (ms : list (bytes * bytes)) : bytes := [123] ++ join_members ms ++ [125].
End MapOrder.

(* Errors: the value encoder may fail (None). Every map encoder runs the loop below over its order (sorted or not)
   and gives up at the first failing value (encodeMap, the sorted branches of the five specialised encoders, the
   unsorted branches of encodeMapStringInterface and encodeMapStringStringSlice; string and bool values cannot fail). *)
Section MapErrors.
  Variables K V : Type.
  Variable enc_key : K -> bytes.
  Variable enc_val_err : V -> option bytes.
  Fixpoint encode_members (order : list (K * V)) : option (list (bytes * bytes)) :=
    match order with
    | [] => Some []
    | e :: r =>
        match enc_val_err (snd e) with
        | None => None
        | Some v => match encode_members r with
                    | None => None
                    | Some ms => Some ((enc_key (fst e), v) :: ms)
                    end
        end
    end.
End MapErrors.

(* what a decoder makes of a member list: the last member with a given key wins *)
Fixpoint lookup_member (k : bytes) (ms : list (bytes * bytes)) : option bytes :=
  match ms with
  | [] => None
  | (k', v) :: r => match lookup_member k r with
                    | Some v' => Some v'
                    | None => if bytes_eqb k k' then Some v else None
                    end
  end.
