(* C01/C02 integer core: proofs of the statements of Json/NumSpec.v about the models of Json/NumModel.v
   (formatInteger / appendInt / appendUint of json/int.go; the typed integer decoders of json/decode.go). *)
From Coq Require Import Lia ZArith List Bool.
From Verif Require Import Base.GoInt Json.Ext Generated.JsonParseGen Json.Grammar Json.Spec Json.StrExt
  Generated.JsonStringGen Json.StrModel Json.NumModel Json.FlagsModel Json.FlagsSpec Json.NumSpec
  Json.ValidProofs Json.FlagsIntProofs.
Import ListNotations.
Open Scope Z_scope.

Local Ltac zlia := Z.div_mod_to_equations; lia.

(* ================= the lookup table ================= *)
Definition table_ok (j : Z) : bool :=
  at_ json_intLELookup j =? (48 + j / 10) + 256 * (48 + j mod 10).

Lemma table_all : forallb table_ok (map Z.of_nat (seq 0 100)) = true.
Proof. vm_compute. reflexivity. Qed.

Lemma table_spec j : 0 <= j < 100 -> at_ json_intLELookup j = (48 + j / 10) + 256 * (48 + j mod 10).
Proof.
  intros H. pose proof table_all as T. rewrite forallb_forall in T.
  specialize (T j). unfold table_ok in T. apply Z.eqb_eq. apply T.
  replace j with (Z.of_nat (Z.to_nat j)) by lia. apply in_map. apply in_seq. lia.
Qed.

Lemma table_lo j : 0 <= j < 100 -> at_ json_intLELookup j mod 256 = 48 + j / 10.
Proof. intros H. rewrite table_spec by exact H. zlia. Qed.
Lemma table_hi j : 0 <= j < 100 -> at_ json_intLELookup j / 256 = 48 + j mod 10.
Proof. intros H. rewrite table_spec by exact H. zlia. Qed.

(* ================= stores into the byte array ================= *)
Lemma to_nat_len {A} (l : list A) : Z.to_nat (len l) = length l.
Proof. unfold len. apply Nat2Z.id. Qed.

Lemma upd_app (p : bytes) x r v : upd (p ++ x :: r) (len p) v = p ++ v :: r.
Proof.
  unfold upd. rewrite to_nat_len. rewrite firstn_app, skipn_app, Nat.sub_diag, firstn_all, skipn_all.
  cbn [firstn skipn app]. rewrite app_nil_r. reflexivity.
Qed.

Lemma put_u16_app (p : bytes) x y r i v : 2 * i = len p ->
  put_u16 (p ++ x :: y :: r) i v = p ++ (v mod 256) :: (v / 256) :: r.
Proof.
  intros E. unfold put_u16. rewrite E. rewrite upd_app.
  replace (p ++ v mod 256 :: y :: r) with ((p ++ [v mod 256]) ++ y :: r) by (rewrite <- app_assoc; reflexivity).
  replace (len p + 1) with (len (p ++ [v mod 256])) by (rewrite len_app; reflexivity).
  rewrite upd_app. rewrite <- app_assoc. reflexivity.
Qed.

Lemma split_last1 (l : bytes) k : length l = S k -> exists l1 x, l = l1 ++ [x] /\ length l1 = k.
Proof.
  intros H. destruct (exists_last (l := l)) as (l1 & x & E); [intros E; subst l; discriminate|].
  exists l1, x. split; [exact E|]. subst l. rewrite app_length in H. cbn [length] in H. lia.
Qed.
Lemma split_last2 (l : bytes) k : length l = S (S k) -> exists l1 x y, l = l1 ++ [x; y] /\ length l1 = k.
Proof.
  intros H. destruct (split_last1 l (S k) H) as (l2 & y & E2 & L2).
  destruct (split_last1 l2 k L2) as (l1 & x & E1 & L1).
  exists l1, x, y. split; [|exact L1]. subst l l2. rewrite <- app_assoc. reflexivity.
Qed.

(* ================= powers of ten by structural recursion (lia sees them as atoms) ================= *)
Fixpoint pow10 (k : nat) : Z := match k with O => 1 | S k => 10 * pow10 k end.
Fixpoint pow100 (k : nat) : Z := match k with O => 1 | S k => 100 * pow100 k end.

(* ================= two digits at a time ================= *)
Lemma dec_digits_1 f n acc : 0 <= n < 10 -> dec_digits (S f) n acc = (48 + n) :: acc.
Proof.
  intros H. cbn [dec_digits]. destruct (Z.ltb_spec n 10); [|lia]. rewrite Z.mod_small by lia. reflexivity.
Qed.
Lemma dec_digits_2 f n acc : 10 <= n < 100 ->
  dec_digits (S (S f)) n acc = (48 + n / 10) :: (48 + n mod 10) :: acc.
Proof.
  intros H. cbn [dec_digits]. destruct (Z.ltb_spec n 10); [lia|].
  destruct (Z.ltb_spec (n / 10) 10); [|zlia]. rewrite (Z.mod_small (n / 10)) by zlia. reflexivity.
Qed.
Lemma dec_digits_step2 f n acc : 100 <= n ->
  dec_digits (S (S f)) n acc = dec_digits f (n / 100) ((48 + (n mod 100) / 10) :: (48 + n mod 10) :: acc).
Proof.
  intros H. cbn [dec_digits]. destruct (Z.ltb_spec n 10); [lia|].
  destruct (Z.ltb_spec (n / 10) 10); [zlia|].
  replace (n / 10 / 10) with (n / 100) by zlia.
  replace ((n / 10) mod 10) with ((n mod 100) / 10) by zlia. reflexivity.
Qed.

(* what formatInteger does after its loop *)
Definition fmt_finish (n i : Z) (b : bytes) (negative : bool) : bytes :=
  let i := i - 1 in
  let b := put_u16 b i (at_ json_intLELookup n) in
  let i := i * 2 in
  let i := if n <? 10 then i + 1 else i in
  let '(i, b) := if negative then (i - 1, upd b (i - 1) 45) else (i, b) in
  slice_from b i.

Lemma sf_app' {A} (p r : list A) i : i = len p -> slice_from (p ++ r) i = r.
Proof. intros ->. apply sf_app. Qed.

Lemma fmt_finish_spec (negative : bool) (k : nat) (n : Z) (pre suf : bytes) (fd : nat) :
  length pre = (2 * S k)%nat -> 0 <= n < 100 ->
  n * (if negative then 10 else 1) < pow100 k -> n < pow10 (S fd) ->
  fmt_finish n (Z.of_nat (S k)) (pre ++ suf) negative =
    (if negative then [45] else []) ++ dec_digits (S fd) n suf.
Proof.
  intros Lp Hn Hk Hd.
  replace (2 * S k)%nat with (S (S (2 * k))) in Lp by lia.
  destruct (split_last2 pre _ Lp) as (p1 & x & y & E & L1). subst pre.
  unfold fmt_finish. cbv zeta.
  rewrite <- app_assoc. cbn [app].
  rewrite put_u16_app by (unfold len; lia).
  rewrite table_lo, table_hi by exact Hn.
  destruct (Z.ltb_spec n 10) as [N|N].
  - rewrite dec_digits_1 by lia. rewrite Z.mod_small by lia.
    destruct negative.
    + replace (Z.of_nat (S k) - 1) with (Z.of_nat k) by lia.
      replace (Z.of_nat k * 2 + 1 - 1) with (len p1) by (unfold len; lia).
      rewrite upd_app. rewrite sf_app. reflexivity.
    + cbn [app].
      replace (p1 ++ 48 + n / 10 :: 48 + n :: suf) with ((p1 ++ [48 + n / 10]) ++ (48 + n) :: suf)
        by (rewrite <- app_assoc; reflexivity).
      apply sf_app'. rewrite len_app. unfold len. cbn [length]. lia.
  - destruct fd as [|fd]; [cbn [pow10] in Hd; lia|].
    rewrite dec_digits_2 by lia.
    destruct negative.
    + destruct k as [|k]; [cbn [pow100] in Hk; lia|].
      replace (2 * S k)%nat with (S (2 * k + 1)) in L1 by lia.
      destruct (split_last1 p1 _ L1) as (p2 & z & E2 & L2). subst p1.
      rewrite <- app_assoc. cbn [app].
      replace ((Z.of_nat (S (S k)) - 1) * 2 - 1) with (len p2) by (unfold len; lia).
      rewrite upd_app. rewrite sf_app. reflexivity.
    + cbn [app]. apply sf_app'. unfold len. lia.
Qed.

Lemma fmt_loop_spec (negative : bool) : forall (fuel k : nat) (n : Z) (pre suf : bytes) (fd : nat),
  length pre = (2 * S k)%nat -> 0 <= n ->
  n * (if negative then 10 else 1) < pow100 k -> n < pow10 (S fd) -> (k < fuel)%nat ->
  exists n' i' b', fmt_loop fuel n (Z.of_nat (S k)) (pre ++ suf) = Some (n', i', b') /\
    fmt_finish n' i' b' negative = (if negative then [45] else []) ++ dec_digits (S fd) n suf.
Proof.
  induction fuel as [|fuel IH]; intros k n pre suf fd Lp Hn Hk Hd Hf; [lia|].
  cbn [fmt_loop]. destruct (Z.geb_spec n 100) as [G|G].
  - cbv zeta. unfold rem64, div64.
    destruct k as [|k]; [cbn [pow100] in Hk; destruct negative; lia|].
    destruct fd as [|[|fd]]; [cbn [pow10] in Hd; lia|cbn [pow10] in Hd; lia|].
    replace (2 * S (S k))%nat with (S (S (2 * S k))) in Lp by lia.
    destruct (split_last2 pre _ Lp) as (p1 & x & y & E & L1). subst pre.
    rewrite <- app_assoc. cbn [app].
    rewrite put_u16_app by (unfold len; lia).
    assert (Hj : 0 <= n mod 100 < 100) by zlia.
    rewrite table_lo, table_hi by exact Hj.
    replace (Z.of_nat (S (S k)) - 1) with (Z.of_nat (S k)) by lia.
    rewrite dec_digits_step2 by lia.
    replace ((n mod 100) mod 10) with (n mod 10) by zlia.
    apply (IH k (n / 100) p1 _ fd L1).
    + zlia.
    + cbn [pow100] in Hk. destruct negative; zlia.
    + cbn [pow10] in Hd |- *. zlia.
    + lia.
  - exists n, (Z.of_nat (S k)), (pre ++ suf). split; [reflexivity|].
    apply fmt_finish_spec; try assumption. lia.
Qed.

(* ================= formatInteger ================= *)
Lemma pow10_20 : pow10 20 = 100000000000000000000.
Proof. reflexivity. Qed.
Lemma pow100_10 : pow100 10 = 100000000000000000000.
Proof. reflexivity. Qed.

(* magnitude m, printed with a minus sign when [negative] *)
Lemma format_integer_spec (out : bytes) (m : Z) (negative : bool) :
  0 <= m -> m * (if negative then 10 else 1) < 100000000000000000000 ->
  format_integer out (if negative then neg64 m else m) negative =
    Some (out ++ (if negative then [45] else []) ++ dec_digits 20 m []).
Proof.
  intros Hm Hb. unfold format_integer.
  assert (Hneg : negative = true -> neg64 (neg64 m) = m).
  { intros ->. unfold neg64, w64. change (2 ^ 64) with 18446744073709551616. zlia. }
  destruct negative.
  - cbn [negb andb]. rewrite (Hneg eq_refl).
    destruct (fmt_loop_spec true 11 10 m (repeat 0 22) [] 19) as (n' & i' & b' & E & F).
    + reflexivity.
    + exact Hm.
    + rewrite pow100_10. exact Hb.
    + rewrite pow10_20. lia.
    + lia.
    + rewrite app_nil_r in E. change (Z.of_nat 11) with 11 in E. rewrite E.
      fold (fmt_finish n' i' b' true). rewrite F. reflexivity.
  - cbn [negb andb app]. destruct (Z.ltb_spec m 10) as [A|A].
    + rewrite dec_digits_1 by lia. unfold add64, w8, w64.
      change (2 ^ 64) with 18446744073709551616. change (2 ^ 8) with 256.
      rewrite (Z.mod_small (m + 48)) by lia. rewrite Z.mod_small by lia.
      rewrite Z.add_comm. reflexivity.
    + destruct (Z.ltb_spec m 100) as [B|B].
      * rewrite dec_digits_2 by lia. unfold shr16, w8. change (8 <? 16) with true. cbv iota.
        rewrite Z.shiftr_div_pow2 by lia. change (2 ^ 8) with 256.
        rewrite table_spec by lia.
        replace (((48 + m / 10) + 256 * (48 + m mod 10)) mod 256) with (48 + m / 10) by zlia.
        replace ((((48 + m / 10) + 256 * (48 + m mod 10)) / 256) mod 256) with (48 + m mod 10) by zlia.
        reflexivity.
      * destruct (fmt_loop_spec false 11 10 m (repeat 0 22) [] 19) as (n' & i' & b' & E & F).
        -- reflexivity.
        -- exact Hm.
        -- rewrite pow100_10. exact Hb.
        -- rewrite pow10_20. lia.
        -- lia.
        -- rewrite app_nil_r in E. change (Z.of_nat 11) with 11 in E. rewrite E.
           fold (fmt_finish n' i' b' false). rewrite F. reflexivity.
Qed.

Lemma append_uint_exact : append_uint_statement.
Proof.
  intros out v Hv. change (2 ^ 64) with 18446744073709551616 in Hv. unfold append_uint.
  rewrite (format_integer_spec out v false) by lia.
  unfold z_to_dec. destruct (Z.ltb_spec v 0); [lia|]. rewrite Z.abs_eq by lia. reflexivity.
Qed.

Lemma append_int_exact : append_int_statement.
Proof.
  intros out v Hv. change (2 ^ 63) with 9223372036854775808 in Hv. unfold append_int, z_to_dec.
  destruct (Z.ltb_spec v 0) as [N|N].
  - replace (w64 v) with (neg64 (- v)).
    + rewrite (format_integer_spec out (- v) true) by lia. rewrite Z.abs_neq by lia. reflexivity.
    + unfold neg64. rewrite Z.opp_involutive. reflexivity.
  - unfold w64. change (2 ^ 64) with 18446744073709551616. rewrite Z.mod_small by lia.
    rewrite (format_integer_spec out v false) by lia. rewrite Z.abs_eq by lia. reflexivity.
Qed.

(* ================= the decimal text is canonical ================= *)
Lemma all_digits_app a b : all_digits (a ++ b) = all_digits a && all_digits b.
Proof. unfold all_digits. apply forallb_app. Qed.

Lemma dec_digits_props : forall f n acc, 0 <= n < pow10 (S f) ->
  exists p, dec_digits (S f) n acc = p ++ acc /\ all_digits p = true /\ digits_value p = n /\
    (length p <= S f)%nat /\ p <> [] /\ (0 < n -> hd 0 p <> 48) /\ (n = 0 -> p = [48]).
Proof.
  induction f as [|f IH]; intros n acc Hn.
  - cbn [pow10] in Hn. exists [48 + n]. rewrite dec_digits_1 by lia.
    split; [reflexivity|]. split; [unfold all_digits; cbn [forallb]; lia|].
    split; [unfold digits_value; cbn [digits_value_from]; lia|].
    split; [cbn [length]; lia|]. split; [discriminate|]. split; [cbn [hd]; lia|]. intros ->. reflexivity.
  - destruct (Z.ltb_spec n 10) as [A|A].
    + exists [48 + n]. rewrite dec_digits_1 by lia.
      split; [reflexivity|]. split; [unfold all_digits; cbn [forallb]; lia|].
      split; [unfold digits_value; cbn [digits_value_from]; lia|].
      split; [cbn [length]; lia|]. split; [discriminate|]. split; [cbn [hd]; lia|]. intros ->. reflexivity.
    + assert (E : dec_digits (S (S f)) n acc = dec_digits (S f) (n / 10) ((48 + n mod 10) :: acc)).
      { cbn [dec_digits]. destruct (Z.ltb_spec n 10); [lia|]. reflexivity. }
      assert (Hq : 0 <= n / 10 < pow10 (S f)) by (cbn [pow10] in Hn |- *; zlia).
      destruct (IH (n / 10) ((48 + n mod 10) :: acc) Hq) as (p & E1 & D & V & L & NE & H0 & _).
      exists (p ++ [48 + n mod 10]). rewrite E, E1.
      split; [rewrite <- app_assoc; reflexivity|].
      split.
      { rewrite all_digits_app, D. unfold all_digits. cbn [forallb]. zlia. }
      split.
      { unfold digits_value in *. rewrite dvf_app, V. cbn [digits_value_from]. zlia. }
      split; [rewrite app_length; cbn [length]; lia|].
      split; [destruct p; discriminate|].
      split; [|intros ->; lia].
      intros _. destruct p as [|c p]; [contradiction|]. cbn [app hd] in *. apply H0. zlia.
Qed.

Lemma no_leading_zero_of p n : p <> [] -> (0 < n -> hd 0 p <> 48) -> (n = 0 -> p = [48]) -> 0 <= n ->
  no_leading_zero p.
Proof.
  intros NE H1 H0 Hn. destruct p as [|c [|c2 r]]; [contradiction| |].
  - destruct c as [|q|q]; try exact I. repeat (destruct q as [q|q|]; try exact I).
  - cbn [hd] in H1. assert (C : c <> 48).
    { intros ->. destruct (Z.eq_dec n 0) as [Z0|Z0]; [specialize (H0 Z0); discriminate|]. apply H1; lia. }
    destruct c as [|q|q]; try exact I.
    repeat (destruct q as [q|q|]; try exact I). contradiction.
Qed.

(* the digits of a magnitude below 10^20 *)
Lemma dec20_props m : 0 <= m < 100000000000000000000 ->
  exists ds, dec_digits 20 m [] = ds /\ all_digits ds = true /\ no_leading_zero ds /\ digits_value ds = m /\
    (length ds <= 20)%nat.
Proof.
  intros Hm. destruct (dec_digits_props 19 m []) as (p & E & D & V & L & NE & H1 & H0).
  { rewrite pow10_20. exact Hm. }
  rewrite app_nil_r in E. exists p. split; [exact E|]. split; [exact D|].
  split; [apply (no_leading_zero_of p m); auto; lia|]. split; [exact V|exact L].
Qed.

Lemma z_to_dec_canonical : z_to_dec_canonical_statement.
Proof.
  intros v Hv. change (2 ^ 64) with 18446744073709551616 in Hv.
  destruct (dec20_props (Z.abs v)) as (ds & E & D & NZ & V & _); [lia|].
  exists ds. unfold z_to_dec. rewrite E. auto.
Qed.

(* ================= the typed decoders ================= *)
Lemma no_null_prefix c r : c <> 110 -> json_hasNullPrefix (c :: r) = false.
Proof.
  intros H. unfold json_hasNullPrefix, slice_to. change (Z.to_nat 4) with 4%nat. cbn [firstn bytes_eqb].
  destruct (Z.eqb_spec c 110); [contradiction|]. cbn [andb]. apply andb_false_r.
Qed.

(* parseUint on a minus sign: the error path through inputError / parseValue / parseNumber *)
Lemma parse_uint_minus fuel d r : len (45 :: r) < 2 ^ 62 -> (length r + 3 <= fuel)%nat ->
  exists b1 e, json_decoder_parseUint fuel d (45 :: r) tt = Some (0, b1, Some e).
Proof.
  intros Hl Hf. rewrite parseUint_eq. rewrite len_cons_nz. rewrite at_0.
  change (45 =? 48) with false. rewrite andb_false_r. cbn [andb].
  destruct fuel as [|f]; [lia|]. cbn [uint_loop]. rewrite at_0. change (45 >=? 48) with false.
  rewrite andb_false_r. cbn [andb]. unfold scan_k. rewrite Z.eqb_refl.
  unfold json_decoder_inputError. rewrite len_cons_nz. rewrite parseValue_eq. rewrite len_cons_nz.
  cbv zeta. rewrite at_0.
  change (45 =? 123) with false. change (45 =? 91) with false. change (45 =? 34) with false.
  change (45 =? 110) with false. change (45 =? 116) with false. change (45 =? 102) with false.
  change (45 =? 45) with true. cbn [orb]. cbv iota. rewrite dlet_id.
  destruct (parseNumber_spec f d (45 :: r) Hl) as (v & r2 & k & e & E & _).
  { cbn [length]. lia. }
  rewrite E. cbn [obind]. destruct e as [e|]; cbn [isnil negb obind].
  - exists r2, e. reflexivity.
  - exists (json_skipSpaces r2), JErrType. reflexivity.
Qed.

Local Ltac pow2 :=
  repeat match goal with
  | |- context [2 ^ ?e] => let x := eval vm_compute in (2 ^ e) in change (2 ^ e) with x
  end.
Local Ltac cases :=
  repeat match goal with
  | |- context [?a <=? ?b] => destruct (Z.leb_spec a b)
  | |- context [?a <? ?b] => destruct (Z.ltb_spec a b)
  | |- context [?a >? ?b] => rewrite (Z.gtb_ltb a b)
  end.

(* the general form: the scanners need fuel for the digits only, except for the error path of parseUint on a
   minus sign, which scans the whole input again *)
Lemma decode_int_gen (t : ity) (fuel : nat) (d : Z) (neg : bool) (ds rest : bytes) :
  ity_ok t -> all_digits ds = true -> no_leading_zero ds -> stops_integer rest ->
  len (ds ++ rest) < 2 ^ 62 -> (length ds < fuel)%nat ->
  match t with
  | IUnsigned _ => neg = true -> len (ds ++ rest) + 1 < 2 ^ 62 /\ (length ds + length rest + 3 <= fuel)%nat
  | ISigned _ => True
  end ->
  let b := (if neg then [45] else []) ++ ds ++ rest in
  let v := if neg then - digits_value ds else digits_value ds in
  decode_int t fuel d b =
    match t with
    | ISigned _ => if in_ity t v then SOk v rest else SErr
    | IUnsigned _ => if neg then SErr else if in_ity t v then SOk v rest else SErr
    end.
Proof.
  intros Ht Hd Hz Hs Hl Hf Hx. cbv zeta.
  pose proof (dvf_ge ds Hd 0 ltac:(lia)) as Hpos. fold (digits_value ds) in Hpos.
  assert (Hn : json_hasNullPrefix ((if neg then [45] else []) ++ ds ++ rest) = false).
  { destruct neg; cbn [app]; [apply no_null_prefix; lia|].
    destruct ds as [|c ds']; [contradiction|]. cbn [app]. apply no_null_prefix.
    apply all_digits_cons in Hd. lia. }
  unfold decode_int. rewrite Hn. destruct t as [w|w]; cbn [ity_ok] in Ht.
  - (* signed *)
    pose proof (parse_int_exact fuel d neg ds rest Hd Hz Hs Hl Hf) as P. cbv zeta in P. rewrite P. clear P.
    set (v := if neg then - digits_value ds else digits_value ds).
    unfold in_ity, ity_min, ity_max, min_int64, max_int64.
    destruct Ht as [W|[W|[W|W]]]; subst w; pow2;
      repeat (progress (cases; cbn [andb orb])); try reflexivity; lia.
  - (* unsigned *)
    destruct neg; cbn [app].
    + destruct (Hx eq_refl) as [Hl2 Hf2].
      destruct (parse_uint_minus fuel d (ds ++ rest)) as (b1 & e & E).
      * rewrite len_cons. lia.
      * rewrite app_length. lia.
      * rewrite E. reflexivity.
    + rewrite (parse_uint_exact fuel d ds rest Hd Hz Hs Hl Hf).
      unfold in_ity, ity_min, ity_max, max_uint64.
      destruct Ht as [W|[W|[W|W]]]; subst w; pow2;
        repeat (progress (cases; cbn [andb orb])); try reflexivity; lia.
Qed.

Lemma decode_int_exact : decode_int_statement.
Proof.
  intros t fuel d neg ds rest Ht Hd Hz Hs Hl Hf.
  apply decode_int_gen; try assumption; try lia.
  destruct t; [exact I|]. intros _. split; [exact Hl|exact Hf].
Qed.

(* ================= formatting then decoding ================= *)
Lemma all_digits_wfb ds : all_digits ds = true -> wfb ds = true.
Proof.
  induction ds as [|c r IH]; intros H; [reflexivity|].
  apply all_digits_cons in H. destruct H as [Hc Hr]. cbn [wfb forallb]. fold (wfb r). rewrite (IH Hr).
  unfold is_byte. lia.
Qed.

Lemma int_round_trip : int_round_trip_statement.
Proof.
  intros t v text Ht Hin Happ.
  (* the range of the type, and the text *)
  assert (Hr : (match t with ISigned _ => - 2 ^ 63 <= v < 2 ^ 63 | IUnsigned _ => 0 <= v < 2 ^ 64 end)).
  { unfold in_ity, ity_min, ity_max in Hin. apply andb_true_iff in Hin. destruct Hin as [H1 H2].
    apply Z.leb_le in H1, H2.
    destruct t as [w|w]; cbn [ity_ok] in Ht; destruct Ht as [W|[W|[W|W]]]; subst w; revert H1 H2; pow2; lia. }
  assert (Ht' : text = z_to_dec v /\ - 18446744073709551616 < v < 18446744073709551616 /\
                (match t with IUnsigned _ => 0 <= v | ISigned _ => True end)).
  { destruct t as [w|w].
    - rewrite (append_int_exact [] v Hr) in Happ. injection Happ as <-.
      revert Hr. pow2. intros Hr. split; [reflexivity|]. split; [lia|exact I].
    - rewrite (append_uint_exact [] v Hr) in Happ. injection Happ as <-.
      revert Hr. pow2. intros Hr. split; [reflexivity|]. split; lia. }
  destruct Ht' as (-> & Hv & Hu). clear Happ Hr.
  destruct (dec20_props (Z.abs v)) as (ds & E & D & NZ & V & L); [lia|].
  unfold z_to_dec. rewrite E. set (neg := v <? 0).
  set (text := (if neg then [45] else []) ++ ds).
  assert (Hne : ds <> []) by (destruct ds; [contradiction|discriminate]).
  assert (Hlen : (length text <= 21)%nat).
  { unfold text. rewrite app_length. destruct neg; cbn [length]; lia. }
  assert (Hl62 : len text < 2 ^ 62).
  { unfold len. pow2. lia. }
  assert (Hw : wfb text = true).
  { unfold text. unfold wfb. rewrite forallb_app. fold (wfb ds). rewrite (all_digits_wfb ds D).
    destruct neg; reflexivity. }
  assert (Hs : skip_ws text = text).
  { unfold text. destruct neg; cbn [app]; [reflexivity|].
    destruct ds as [|c r]; [contradiction|]. apply all_digits_cons in D. destruct D as [Hc _].
    cbn [skip_ws]. replace (is_ws c) with false; [reflexivity|]. unfold is_ws. lia. }
  unfold unmarshal_int, unmarshal_with.
  destruct (ipf_spec (ipf_fuel text) text Hw Hl62) as (d & Ed & _).
  { unfold ipf_fuel. lia. }
  { exact Hs. }
  rewrite Ed. rewrite skipSpaces_spec, Hs.
  assert (Hdec : decode_int t (int_fuel text) d text = SOk v []).
  { pose proof (decode_int_gen t (int_fuel text) d neg ds [] Ht D NZ I) as G. cbv zeta in G.
    rewrite app_nil_r in G. fold text in G. rewrite G.
    - assert (Ev : (if neg then - digits_value ds else digits_value ds) = v).
      { rewrite V. unfold neg. destruct (Z.ltb_spec v 0); lia. }
      rewrite Ev, Hin. destruct t; [reflexivity|].
      unfold neg. destruct (Z.ltb_spec v 0); [lia|reflexivity].
    - unfold len. pow2. lia.
    - unfold int_fuel, text. rewrite app_length. lia.
    - destruct t; [exact I|]. unfold neg. destruct (Z.ltb_spec v 0); [lia|discriminate]. }
  rewrite Hdec. reflexivity.
Qed.
