(* C01/C02 string core: the round trip that links the two directions. What the machine-translated encodeString
   writes for a string is decoded by the model of json.Unmarshal (machine-translated parseStringUnquote inside)
   to the same string with every ill-formed byte replaced by U+FFFD. *)
From Coq Require Import Lia ZArith List Bool.
From Verif Require Import Base.GoInt Base.LanesProofs Json.Ext Generated.JsonParseGen Json.Grammar Json.Spec Json.StrExt
  Generated.JsonStringGen Json.StrModel Json.StrSpec Ascii.Proofs Json.ValidProofs Json.StrUtf8Proofs Json.StrSpecProofs
  Json.StrEncProofs Json.StrDecProofs.
Import ListNotations.
Open Scope Z_scope.

Lemma is_byte_hexdigit k : 0 <= k < 16 -> is_byte (hexdigit k) = true.
Proof. intros H. unfold hexdigit, is_byte. destruct (k <? 10); lia. Qed.

Lemma wfb_escape_ascii c : 0 <= c < 128 -> wfb (std_escape_ascii c) = true.
Proof.
  intros H. unfold std_escape_ascii.
  destruct ((c =? 92) || (c =? 34)). { cbn. unfold is_byte. lia. }
  repeat (match goal with |- context [if ?a =? ?b then _ else _] => destruct (a =? b); [reflexivity|] end).
  cbn [wfb forallb]. rewrite !is_byte_hexdigit by (Z.div_mod_to_equations; lia). reflexivity.
Qed.

Lemma wfb_escape_body html : forall s, wfb s = true -> wfb (std_escape_body html 0 s) = true.
Proof.
  intros s. pattern s. apply rune_ind; clear s.
  - reflexivity.
  - intros c r A D IH W. apply wfb_cons in W. destruct W as [W0 W]. rewrite escape_ascii by assumption.
    apply wfb_app. split; [|auto]. destruct (std_safe html c).
    + cbn. unfold is_byte. lia.
    + apply wfb_escape_ascii. lia.
  - intros c r A D IH W. apply wfb_cons in W. destruct W as [W0 W]. rewrite escape_bad by assumption.
    apply wfb_app. split; [reflexivity|auto].
  - intros w r rune LW D HB EN RN IH W. apply wfb_app in W. destruct W as [W1 W2].
    rewrite (escape_multi html w r rune) by assumption. apply wfb_app. split; [|auto].
    unfold esc_seq. destruct w as [|c [|y [|x [|z w]]]]; try assumption.
    destruct ((y =? 128) && ((c =? 226) && ((x =? 168) || (x =? 169)))) eqn:C; [|assumption].
    apply andb_true_iff in C. destruct C as [_ C]. apply andb_true_iff in C. destruct C as [_ C].
    apply orb_true_iff in C. destruct C as [C|C]; apply Z.eqb_eq in C; subst x; reflexivity.
Qed.

Lemma wfb_std_escape html s : wfb s = true -> wfb (std_escape html s) = true.
Proof.
  intros W. unfold std_escape. apply wfb_app. split; [reflexivity|]. apply wfb_app. split; [|reflexivity].
  apply wfb_escape_body. exact W.
Qed.

Lemma string_round_trip : string_round_trip_statement.
Proof.
  intros html s e W L E LE. rewrite escape_string_std in E by assumption. injection E as <-.
  rewrite unmarshal_string_spec by (auto using wfb_std_escape).
  unfold spec_unmarshal_string. cbv zeta.
  assert (SK : skip_ws (std_escape html s) = std_escape html s) by reflexivity. rewrite SK.
  rewrite (null_match (std_escape html s) (fun r => match skip_ws r with [] => SNull [] | _ => SErr end)).
  assert (NP : json_hasNullPrefix (std_escape html s) = false).
  { unfold json_hasNullPrefix, std_escape. destruct (len ([34] ++ std_escape_body html 0 s ++ [34]) >=? 4); [|reflexivity].
    cbn [andb app]. destruct (std_escape_body html 0 s ++ [34]) as [|a [|b [|c r]]]; reflexivity. }
  rewrite NP. pose proof (unquote_escape html s [] W) as U. rewrite app_nil_r in U. rewrite U. reflexivity.
Qed.
