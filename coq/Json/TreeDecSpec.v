(* C02 structural part: the value-tree decoder of Json/TreeModel.v accepts only JSON texts of the grammar of
   Json/Grammar.v (proved in Json/TreeDecProofs.v). Definitions only.

   [gval b r]: the input b (without leading white space) starts with one value of the grammar, r is what follows it,
   the value is not empty, and every fuel that is at least the length of b is enough for the recogniser to see it. *)
From Verif Require Import Base.GoInt Json.Grammar Json.TreeModel.
Open Scope Z_scope.

Definition gval (b r : bytes) : Prop :=
  (length r < length b)%nat /\ forall f : nat, (length b <= f)%nat -> g_value f b = Some r.

(* a successful parse of the recogniser never needs more fuel than the input is long *)
Definition g_value_sufficient_statement : Prop :=
  forall (f : nat) (b r : bytes), g_value f b = Some r -> gval b r.

(* the decode function of a type, whatever its fuel and the current value of the target: when it succeeds
   it has consumed exactly one value of the grammar (skipped values, unknown keys and surplus array elements included) *)
Definition tree_dec_value_statement : Prop :=
  forall (t : jty) (fuel : nat) (cur : jval) (b : bytes) (v : jval) (r : bytes),
    dec t fuel cur b = DOk (v, r) ->
    (length r < length b)%nat /\ forall f : nat, (length b <= f)%nat -> g_value f b = Some r.

(* Unmarshal of the model succeeds only on JSON texts *)
Definition tree_dec_valid_statement : Prop :=
  forall (fuel : nat) (t : jty) (b : bytes) (v : jval), jdec fuel t b = DOk v -> g_valid b = true.

(* contrapositive reading: a text that is not JSON is never decoded (the model answers DErr or DOut) *)
Definition tree_dec_invalid_statement : Prop :=
  forall (fuel : nat) (t : jty) (b : bytes), g_valid b = false -> forall v : jval, jdec fuel t b <> DOk v.
