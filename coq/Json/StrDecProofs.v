(* C02 string core: the machine-translated parseStringUnquote (Generated/JsonStringGen.v, over the translated
   parseString / parseUnicode / parseUintHex of Generated/JsonParseGen.v) computes the standard unquoting
   uq_lit of Json/StrSpec.v on every input, and json.Unmarshal into a string (Json/StrModel.v) behaves as
   encoding/json does. *)
From Coq Require Import Lia ZArith List Bool.
From Verif Require Import Base.GoInt Base.Lanes Base.LanesProofs Generated.AsmAsciiGen Ascii.AsmTotal Generated.AsciiGen Ascii.Spec
  Json.Ext Generated.JsonParseGen Json.Grammar Json.Spec Json.StrExt
  Generated.JsonStringGen Json.StrModel Json.StrSpec Ascii.Proofs Json.ValidProofs Json.StrUtf8Proofs Json.StrSpecProofs.
Import ListNotations.
Open Scope Z_scope.

(* ---------- appendCoerceInvalidUTF8 = sanitize ---------- *)
Lemma coerce_step f s : s <> [] ->
  coerce_utf8_fuel (S f) s =
    let '(r, n) := utf8_decode_rune s in utf8_encode_rune r ++ coerce_utf8_fuel f (slice_from s n).
Proof. destruct s; [congruence|reflexivity]. Qed.
Lemma coerce_fuel_sanitize : forall s fuel, wfb s = true -> (length s <= fuel)%nat ->
  coerce_utf8_fuel fuel s = sanitize_from 0 s.
Proof.
  intros s. pattern s. apply rune_ind; clear s.
  - intros [|f] _ _; reflexivity.
  - intros c r A D IH fuel W L. destruct fuel as [|f]; [cbn in L; lia|]. cbn [length] in L.
    apply wfb_cons in W. destruct W as [W0 W].
    cbn [coerce_utf8_fuel]. rewrite D. rewrite sanitize_ascii by assumption.
    change (slice_from (c :: r) 1) with r. rewrite IH by (auto; lia).
    unfold utf8_encode_rune. destruct (Z.leb_spec 0 c), (Z.ltb_spec c 128); cbn [andb]; try reflexivity; exfalso; lia.
  - intros c r A D IH fuel W L. destruct fuel as [|f]; [cbn in L; lia|]. cbn [length] in L.
    apply wfb_cons in W. destruct W as [W0 W].
    cbn [coerce_utf8_fuel]. rewrite D. rewrite sanitize_bad by assumption.
    change (slice_from (c :: r) 1) with r. rewrite IH by (auto; lia). reflexivity.
  - intros w r rune LW D HB EN RN IH fuel W L. apply wfb_app in W. destruct W as [W1 W2].
    rewrite app_length in L.
    destruct (copy_count w ltac:(lia)) as (x & w' & E & CC).
    destruct fuel as [|f]; [unfold len in LW; lia|].
    rewrite (sanitize_multi w r rune) by assumption.
    rewrite coerce_step by (rewrite E; discriminate). rewrite D, EN.
    rewrite sf_app. rewrite IH; [reflexivity|assumption|]. unfold len in LW. lia.
Qed.
Lemma coerce_sanitize s : wfb s = true -> coerce_utf8 s = sanitize s.
Proof. intros W. apply coerce_fuel_sanitize; auto. Qed.

(* ---------- a chunk without quote and backslash ---------- *)
Definition ge32 (c : Z) : bool := 32 <=? c.
Lemma forallb_hi_ge32 w : forallb hi_byte w = true -> forallb ge32 w = true.
Proof.
  induction w as [|x w IH]; [reflexivity|]. cbn [forallb]. rewrite !andb_true_iff. unfold hi_byte, ge32.
  intros [H1 H2]. split; [lia|auto].
Qed.

Lemma uq_chunk : forall p t tail, t < 128 ->
  forallb (fun c => negb (eqc 34 c)) p = true -> forallb (fun c => negb (eqc 92 c)) p = true ->
  uq_body 0 (p ++ t :: tail) = if forallb ge32 p then pre (sanitize_from 0 p) (uq_body 0 (t :: tail)) else None.
Proof.
  intros p t tail T. pattern p. apply rune_ind; clear p.
  - intros _ _. cbn [app forallb sanitize_from]. rewrite pre_nil. reflexivity.
  - intros c r A D IH Q B. cbn [forallb] in Q, B. apply andb_true_iff in Q, B. destruct Q as [Q1 Q2], B as [B1 B2].
    unfold eqc in Q1, B1. cbn [app forallb]. unfold ge32 at 1.
    destruct (Z.leb_spec 32 c) as [G|G]; cbn [andb].
    + rewrite uq_ascii by lia. rewrite IH by assumption. rewrite sanitize_ascii by assumption.
      destruct (forallb ge32 r); [|reflexivity]. rewrite pre_pre. reflexivity.
    + destruct (uq_ctl c (r ++ t :: tail) ltac:(lia)) as [E|[E|E]]; [exact E|lia|lia].
  - intros c r A D IH Q B. cbn [forallb] in Q, B. apply andb_true_iff in Q, B. destruct Q as [Q1 Q2], B as [B1 B2].
    cbn [app forallb]. unfold ge32 at 1. destruct (Z.leb_spec 32 c) as [G|G]; [|lia]. cbn [andb].
    rewrite uq_bad; [|assumption|].
    2:{ change (c :: r ++ t :: tail) with ((c :: r) ++ t :: tail). rewrite decode_before_ascii by (auto; discriminate).
        exact D. }
    rewrite IH by assumption. rewrite sanitize_bad by assumption.
    destruct (forallb ge32 r); [|reflexivity]. rewrite pre_pre. reflexivity.
  - intros w r rune LW D HB EN RN IH Q B. rewrite forallb_app in Q, B. apply andb_true_iff in Q, B.
    destruct Q as [Q1 Q2], B as [B1 B2]. rewrite forallb_app, (forallb_hi_ge32 w HB). cbn [andb].
    rewrite <- app_assoc. rewrite (uq_multi w (r ++ t :: tail) rune); auto.
    2:{ rewrite app_assoc. rewrite decode_before_ascii; auto. destruct w; [cbn in LW; lia|discriminate]. }
    rewrite IH by assumption. rewrite (sanitize_multi w r rune) by assumption.
    destruct (forallb ge32 r); [|reflexivity]. rewrite pre_pre. reflexivity.
Qed.

(* the look-ahead for a low surrogate, with boolean tests instead of patterns *)
Definition low_sur (u : Z) (r2 : bytes) : option (Z * bytes) :=
  match r2 with
  | a1 :: a2 :: l1 :: l2 :: l3 :: l4 :: r3 =>
    if (a1 =? 92) && (a2 =? 117) && (is_hex l1 && is_hex l2 && is_hex l3 && is_hex l4
       && negb (utf16_decode_rune u (hex4val l1 l2 l3 l4) =? 65533))
    then Some (utf16_decode_rune u (hex4val l1 l2 l3 l4), r3) else None
  | _ => None
  end.
Lemma match92_ne {T} (y : Z) (A B : T) : y <> 92 -> match y with 92 => A | _ => B end = B.
Proof.
  intros N. destruct y as [|p|p]; try reflexivity.
  repeat (match goal with q : positive |- _ => destruct q; try reflexivity end). congruence.
Qed.
Lemma match117_ne {T} (y : Z) (A B : T) : y <> 117 -> match y with 117 => A | _ => B end = B.
Proof.
  intros N. destruct y as [|p|p]; try reflexivity.
  repeat (match goal with q : positive |- _ => destruct q; try reflexivity end). congruence.
Qed.
Lemma uq_u h1 h2 h3 h4 r2 : is_hex h1 && is_hex h2 && is_hex h3 && is_hex h4 = true ->
  uq_body 0 (92 :: 117 :: h1 :: h2 :: h3 :: h4 :: r2) =
    if utf16_is_surrogate (hex4val h1 h2 h3 h4) then
      match low_sur (hex4val h1 h2 h3 h4) r2 with
      | Some (rune, r3) => pre (utf8_encode_rune rune) (uq_body 0 r3)
      | None => pre [239; 191; 189] (uq_body 0 r2)
      end
    else pre (utf8_encode_rune (hex4val h1 h2 h3 h4)) (uq_body 0 r2).
Proof.
  intros H. cbn [uq_body]. change (92 =? 34) with false. change (92 =? 92) with true.
  change (is_escape_letter 117) with false. change (117 =? 117) with true. cbv iota. rewrite H.
  destruct (utf16_is_surrogate (hex4val h1 h2 h3 h4)); [|reflexivity].
  destruct r2 as [|a1 r2]; [reflexivity|].
  destruct (Z.eqb_spec a1 92) as [->|N1].
  2:{ unfold low_sur. destruct r2 as [|a2 [|l1 [|l2 [|l3 [|l4 r3]]]]];
        try (rewrite match92_ne by assumption; reflexivity).
      rewrite match92_ne by assumption. destruct (Z.eqb_spec a1 92); [congruence|]. cbn [andb]. cbv iota. reflexivity. }
  destruct r2 as [|a2 r2]; [reflexivity|].
  destruct (Z.eqb_spec a2 117) as [->|N2].
  2:{ unfold low_sur. destruct r2 as [|l1 [|l2 [|l3 [|l4 r3]]]];
        try (rewrite match117_ne by assumption; reflexivity).
      rewrite match117_ne by assumption. destruct (Z.eqb_spec a2 117); [congruence|].
      rewrite andb_false_r. cbn [andb]. cbv iota. reflexivity. }
  destruct r2 as [|l1 [|l2 [|l3 [|l4 r3]]]]; try reflexivity.
  unfold low_sur. change (92 =? 92) with true. change (117 =? 117) with true. cbn [andb].
  destruct (is_hex l1 && is_hex l2 && is_hex l3 && is_hex l4 &&
            negb (utf16_decode_rune (hex4val h1 h2 h3 h4) (hex4val l1 l2 l3 l4) =? 65533)); reflexivity.
Qed.
Lemma uq_bad_escape e r : is_escape_letter e = false -> e <> 117 -> uq_body 0 (92 :: e :: r) = None.
Proof.
  intros A N. cbn [uq_body]. change (92 =? 34) with false. change (92 =? 92) with true. cbv iota. rewrite A.
  destruct (Z.eqb_spec e 117); [congruence|reflexivity].
Qed.
Lemma uq_bad_u r : hex4 r = false -> uq_body 0 (92 :: 117 :: r) = None.
Proof.
  intros A. cbn [uq_body]. change (92 =? 34) with false. change (92 =? 92) with true.
  change (is_escape_letter 117) with false. change (117 =? 117) with true. cbv iota.
  destruct r as [|h1 [|h2 [|h3 [|h4 r2]]]]; try reflexivity. cbn [hex4] in A. rewrite A. reflexivity.
Qed.

(* what the unquoting returns is a proper suffix of its input *)
Lemma pre_some p o v r : pre p o = Some (v, r) -> exists v', o = Some (v', r) /\ v = p ++ v'.
Proof. destruct o as [[v' r']|]; cbn; [|discriminate]. intros E. injection E as <- <-. eauto. Qed.

Lemma low_sur_len u r2 rune r3 : low_sur u r2 = Some (rune, r3) -> (length r3 < length r2)%nat.
Proof.
  unfold low_sur. destruct r2 as [|a1 [|a2 [|l1 [|l2 [|l3 [|l4 r]]]]]]; try discriminate.
  match goal with |- context [if ?c then _ else _] => destruct c end; [|discriminate].
  intros E. injection E as _ <-. cbn [length]. lia.
Qed.

Lemma uq_suffix : forall n b k v r, (length b <= n)%nat -> uq_body k b = Some (v, r) -> (length r < length b)%nat.
Proof.
  induction n as [|n IH]; intros b k v r L H.
  - destruct b; [destruct k; discriminate H|cbn in L; lia].
  - destruct b as [|c b1]; [destruct k; discriminate H|]. cbn [length] in *.
    assert (G : forall p b', (length b' <= n)%nat -> pre p (uq_body 0 b') = Some (v, r) -> (length r < length b')%nat).
    { intros p b' L' HH. apply pre_some in HH. destruct HH as (v' & HH & _). apply IH in HH; lia. }
    destruct k as [|k].
    2:{ cbn [uq_body] in H. apply pre_some in H. destruct H as (v' & H & _). apply IH in H; lia. }
    destruct (Z.eqb_spec c 34) as [->|N34]. { rewrite uq_quote in H. injection H as _ <-. lia. }
    destruct (Z.eqb_spec c 92) as [->|N92].
    + destruct b1 as [|e b2]; [discriminate H|]. cbn [length] in *.
      destruct (is_escape_letter e) eqn:EL.
      { rewrite uq_escape in H by assumption. apply G in H; lia. }
      destruct (Z.eqb_spec e 117) as [->|N117]; [|rewrite uq_bad_escape in H by assumption; discriminate H].
      destruct (hex4 b2) eqn:H4; [|rewrite uq_bad_u in H by assumption; discriminate H].
      destruct b2 as [|h1 [|h2 [|h3 [|h4 b3]]]]; try discriminate H4. cbn [hex4] in H4. cbn [length] in *.
      rewrite uq_u in H by assumption.
      destruct (utf16_is_surrogate (hex4val h1 h2 h3 h4)); [|apply G in H; lia].
      destruct (low_sur (hex4val h1 h2 h3 h4) b3) as [[rune r3]|] eqn:LS; [|apply G in H; lia].
      apply low_sur_len in LS. apply G in H; lia.
    + destruct (Z.ltb_spec c 32) as [C|C].
      { destruct (uq_ctl c b1 C) as [E|[E|E]]; [rewrite E in H; discriminate H|lia|lia]. }
      destruct (Z.ltb_spec c 128) as [C2|C2].
      { rewrite uq_ascii in H by lia. apply G in H; lia. }
      rewrite uq_hi in H by assumption. destruct (utf8_decode_rune (c :: b1)) as [rn sz].
      destruct (sz =? 1); [apply G in H; lia|].
      apply pre_some in H. destruct H as (v' & H & _). apply IH in H; lia.
Qed.

(* no backslash before the closing quote: the content is the sanitized text *)
Lemma find34_split (s : bytes) : (find_index (eqc 34) s < length s)%nat ->
  exists p1 p2, s = p1 ++ 34 :: p2 /\ forallb (fun c => negb (eqc 34 c)) p1 = true.
Proof.
  intros H. destruct (find_index_split (eqc 34) s H) as (c & r & E & Pc & F).
  unfold eqc in Pc. apply Z.eqb_eq in Pc. subst c. eauto.
Qed.
Lemma forallb_app_l {A} (f : A -> bool) a b : forallb f (a ++ b) = true -> forallb f a = true.
Proof. rewrite forallb_app. intros H. apply andb_true_iff in H. tauto. Qed.

Lemma no_quote_inside s t tail out rest :
  forallb (fun c => negb (eqc 92 c)) s = true -> t < 128 ->
  uq_body 0 (s ++ t :: tail) = Some (out, rest) -> (length rest <= length tail)%nat ->
  forallb (fun c => negb (eqc 34 c)) s = true.
Proof.
  intros B T H L.
  destruct (Nat.ltb_spec (find_index (eqc 34) s) (length s)) as [Q|Q].
  - exfalso. destruct (find34_split s Q) as (p1 & p2 & E & F). subst s.
    rewrite <- app_assoc in H. cbn [app] in H.
    rewrite uq_chunk in H; [|lia|assumption|apply (forallb_app_l _ _ _ B)].
    destruct (forallb ge32 p1); [|discriminate]. rewrite uq_quote in H. cbn [pre] in H. injection H as _ <-.
    rewrite app_length in L. cbn [length] in L. lia.
  - pose proof (find_index_le (eqc 34) s). apply find_index_none. lia.
Qed.

Lemma uq_no_backslash s out rest :
  forallb (fun c => negb (eqc 92 c)) s = true ->
  uq_body 0 (s ++ 34 :: rest) = Some (out, rest) -> out = sanitize_from 0 s.
Proof.
  intros B H. pose proof (no_quote_inside s 34 rest out rest B ltac:(lia) H ltac:(lia)) as Q.
  rewrite uq_chunk in H by (auto; lia). destruct (forallb ge32 s); [|discriminate].
  rewrite uq_quote in H. cbn [pre] in H. injection H as <-. rewrite app_nil_r. reflexivity.
Qed.

Lemma uq_at_backslash p s1 out rest :
  forallb (fun c => negb (eqc 92 c)) p = true ->
  uq_body 0 ((p ++ 92 :: s1) ++ 34 :: rest) = Some (out, rest) ->
  exists out1, out = sanitize_from 0 p ++ out1 /\ uq_body 0 (92 :: s1 ++ 34 :: rest) = Some (out1, rest).
Proof.
  intros B H. rewrite <- app_assoc in H. cbn [app] in H.
  pose proof (no_quote_inside p 92 (s1 ++ 34 :: rest) out rest B ltac:(lia) H) as Q.
  rewrite uq_chunk in H; [|lia|apply Q; rewrite app_length; cbn [length]; lia|assumption].
  destruct (forallb ge32 p); [|discriminate]. apply pre_some in H. destruct H as (v' & H & E). eauto.
Qed.

(* ---------- parseUnicode returns the value of the four digits ---------- *)
Lemma hexval_agree c : is_hex c = true -> ValidProofs.hexval c = StrSpec.hexval c.
Proof.
  rewrite is_hex_unfold. unfold ValidProofs.hexval, StrSpec.hexval. rewrite !Z.geb_leb.
  unfold sub8, add64, w8, w64. change (2 ^ 8) with 256. change (2 ^ 64) with 18446744073709551616.
  destruct (Z.leb_spec 48 c), (Z.leb_spec c 57), (Z.leb_spec 65 c), (Z.leb_spec c 70),
    (Z.leb_spec 97 c), (Z.leb_spec c 102); cbn [andb orb]; intros HH; try discriminate HH;
    Z.div_mod_to_equations; lia.
Qed.

Lemma parseUnicode_value d h1 h2 h3 h4 r :
  is_hex h1 && is_hex h2 && is_hex h3 && is_hex h4 = true ->
  json_decoder_parseUnicode d (h1 :: h2 :: h3 :: h4 :: r) = (hex4val h1 h2 h3 h4, 4, None).
Proof.
  intros H. apply andb_true_iff in H. destruct H as [H X4]. apply andb_true_iff in H. destruct H as [H X3].
  apply andb_true_iff in H. destruct H as [X1 X2].
  unfold json_decoder_parseUnicode.
  assert (L : (len (h1 :: h2 :: h3 :: h4 :: r) <? 4) = false).
  { rewrite !len_cons. pose proof (len_nonneg r). lia. }
  rewrite L. change (slice_to (h1 :: h2 :: h3 :: h4 :: r) 4) with [h1; h2; h3; h4].
  rewrite parseUintHex_eq. change (len [h1; h2; h3; h4] =? 0) with false. cbv iota.
  pose proof (hexval_bound h1 X1) as B1. pose proof (hexval_bound h2 X2) as B2.
  pose proof (hexval_bound h3 X3) as B3. pose proof (hexval_bound h4 X4) as B4.
  rewrite hex_step by (cbn; lia). rewrite X1.
  rewrite hex_step by (change (2 ^ 56) with 72057594037927936; change (2 ^ 60) with 1152921504606846976; lia). rewrite X2.
  rewrite hex_step by (change (2 ^ 56) with 72057594037927936; change (2 ^ 60) with 1152921504606846976; lia). rewrite X3.
  rewrite hex_step by (change (2 ^ 56) with 72057594037927936; change (2 ^ 60) with 1152921504606846976; lia). rewrite X4.
  cbn [hex_loop]. change (slice_from [h1; h2; h3; h4] (0 + 1 + 1 + 1 + 1)) with (@nil Z).
  cbn [isnil negb len length Z.of_nat Z.eqb].
  unfold hex4val. rewrite <- !hexval_agree by assumption.
  set (u := ((ValidProofs.hexval h1 * 16 + ValidProofs.hexval h2) * 16 + ValidProofs.hexval h3) * 16 + ValidProofs.hexval h4).
  replace (0 * 16 + ValidProofs.hexval h1) with (ValidProofs.hexval h1) by lia. fold u.
  assert (U : 0 <= u < 65536) by (unfold u; lia).
  unfold s32, w32. change (2 ^ 32) with 4294967296. change (2 ^ 31) with 2147483648. cbv zeta.
  rewrite Z.mod_small by lia. destruct (Z.ltb_spec u 2147483648); [reflexivity|lia].
Qed.

(* ---------- the loop of parseStringUnquote ---------- *)
Definition uq_loop (B : bytes) : nat -> bytes -> bytes -> option (bytes * bytes * bool * option json_err) :=
  fix loop2_ (f3_ : nat) (r : bytes) (s : bytes) {struct f3_} : (option (bytes * bytes * bool * (option json_err))) :=
    match f3_ with
    | O => None
    | S f4_ =>
      if negb ((len s) =? 0) then
        (let i := index_byte s 92 in
      if (i <? 0) then
        (let r := append_coerce_utf8 r s in
        Some ((r, B, true, None)))
      else
        (let r := append_coerce_utf8 r (slice_to s i) in
        let s := slice_from s (addi64 i 1) in
        let c := at_ s 0 in
        let k5_ := fun (r : bytes) (s : bytes) (c : Z) =>
          let r := (r ++ [c]) in
          let s := slice_from s 1 in
          loop2_ f4_ r s in
        let tag6_ := c in
        if ((tag6_ =? 34) || (tag6_ =? 92) || (tag6_ =? 47)) then
          (k5_ r s c)
        else if (tag6_ =? 110) then
          (let c := 10 in
          k5_ r s c)
        else if (tag6_ =? 114) then
          (let c := 13 in
          k5_ r s c)
        else if (tag6_ =? 116) then
          (let c := 9 in
          k5_ r s c)
        else if (tag6_ =? 98) then
          (let c := 8 in
          k5_ r s c)
        else if (tag6_ =? 102) then
          (let c := 12 in
          k5_ r s c)
        else if (tag6_ =? 117) then
          (let s := slice_from s 1 in
          let '(r1, n1, err_1) := (json_decoder_parseUnicode 0) s in
          if negb (isnil err_1) then
            (Some ((r, B, true, err_1)))
          else
            (let s := slice_from s n1 in
            let k7_ := fun (s : bytes) (r1 : Z) =>
              let r := append_rune r r1 in
              loop2_ f4_ r s in
            if utf16_is_surrogate r1 then
              (if negb (json_hasPrefix s [92; 117]) then
                (let r1 := 65533 in
                k7_ s r1)
              else
                (let '(r2, n2, err_2) := (json_decoder_parseUnicode 0) (slice_from s 2) in
                if negb (isnil err_2) then
                  (Some ((r, B, true, err_2)))
                else
                  (let r1 := utf16_decode_rune r1 r2 in
                  if negb (r1 =? 65533) then
                    (let s := slice_from s (addi64 2 n2) in
                    k7_ s r1)
                  else
                    (k7_ s r1))))
            else
              (k7_ s r1)))
        else (Some ((r, B, false, (Some JErrSyntax))))))
      else Some ((r, B, true, None))
    end.

Lemma parseStringUnquote_eq fuel d b r : json_decoder_parseStringUnquote fuel d b r =
  let '(s, B, k, err) := parse_string_tot d b in
  if negb (isnil err) then Some (s, B, false, err)
  else
    let s := slice s 1 (subi64 (len s) 1) in
    if k =? 9 then Some (s, B, false, None)
    else if nil_bytes r then uq_loop B fuel [] s else uq_loop B fuel r s.
Proof.
  unfold json_decoder_parseStringUnquote. destruct (parse_string_tot d b) as [[[s B] k] err].
  (* the two sides are the same text when the translation is unchanged; bounded so that a changed source fails at once *)
  Timeout 30 reflexivity.
Qed.

(* one iteration, at the first backslash *)
Lemma uq_loop_plain B f r s : s <> [] -> forallb (fun c => negb (eqc 92 c)) s = true ->
  uq_loop B (S f) r s = Some (append_coerce_utf8 r s, B, true, None).
Proof.
  intros NE NB. cbn [uq_loop]. destruct s as [|x s]; [congruence|]. rewrite len_cons_nz. cbn [negb].
  rewrite index_byte_find. apply find_index_none in NB. rewrite NB.
  destruct (Nat.ltb_spec (length (x :: s)) (length (x :: s))); [lia|]. reflexivity.
Qed.

Definition after_escape (B : bytes) (f : nat) (r : bytes) (s : bytes) : option (bytes * bytes * bool * option json_err) :=
  let c := at_ s 0 in
  if ((c =? 34) || (c =? 92) || (c =? 47)) then uq_loop B f (r ++ [c]) (slice_from s 1)
  else if (c =? 110) then uq_loop B f (r ++ [10]) (slice_from s 1)
  else if (c =? 114) then uq_loop B f (r ++ [13]) (slice_from s 1)
  else if (c =? 116) then uq_loop B f (r ++ [9]) (slice_from s 1)
  else if (c =? 98) then uq_loop B f (r ++ [8]) (slice_from s 1)
  else if (c =? 102) then uq_loop B f (r ++ [12]) (slice_from s 1)
  else if (c =? 117) then
    (let s := slice_from s 1 in
    let '(r1, n1, err_1) := (json_decoder_parseUnicode 0) s in
    if negb (isnil err_1) then
      (Some ((r, B, true, err_1)))
    else
      (let s := slice_from s n1 in
      if utf16_is_surrogate r1 then
        (if negb (json_hasPrefix s [92; 117]) then uq_loop B f (append_rune r 65533) s
        else
          (let '(r2, n2, err_2) := (json_decoder_parseUnicode 0) (slice_from s 2) in
          if negb (isnil err_2) then
            (Some ((r, B, true, err_2)))
          else
            (if negb (utf16_decode_rune r1 r2 =? 65533) then
               uq_loop B f (append_rune r (utf16_decode_rune r1 r2)) (slice_from s (addi64 2 n2))
            else uq_loop B f (append_rune r (utf16_decode_rune r1 r2)) s)))
      else uq_loop B f (append_rune r r1) s))
  else (Some ((r, B, false, (Some JErrSyntax)))).

Lemma uq_loop_escape B f r p s1 : forallb (fun c => negb (eqc 92 c)) p = true -> len (p ++ 92 :: s1) < 2 ^ 62 ->
  uq_loop B (S f) r (p ++ 92 :: s1) = after_escape B f (append_coerce_utf8 r p) s1.
Proof.
  intros NB LB. cbn [uq_loop].
  assert (NZ : (len (p ++ 92 :: s1) =? 0) = false).
  { rewrite len_app, len_cons. pose proof (len_nonneg p). pose proof (len_nonneg s1). lia. }
  rewrite NZ. cbn [negb]. rewrite index_byte_find.
  assert (FI : find_index (eqc 92) (p ++ 92 :: s1) = length p).
  { rewrite find_index_app_none by assumption. cbn [find_index]. unfold eqc. rewrite Z.eqb_refl. lia. }
  rewrite FI. rewrite app_length. cbn [length].
  destruct (Nat.ltb_spec (length p) (length p + S (length s1))); [|lia].
  destruct (Z.ltb_spec (Z.of_nat (length p)) 0); [lia|]. cbv zeta.
  change (Z.of_nat (length p)) with (len p). rewrite st_app.
  rewrite len_app, len_cons in LB. pose proof (len_nonneg p). pose proof (len_nonneg s1).
  rewrite addi64_small by (change (2 ^ 63) with 9223372036854775808; change (2 ^ 62) with 4611686018427387904 in LB; lia).
  replace (slice_from (p ++ 92 :: s1) (len p + 1)) with s1.
  2:{ change (p ++ 92 :: s1) with (p ++ [92] ++ s1). rewrite app_assoc.
      replace (len p + 1) with (len (p ++ [92])) by (rewrite len_app; reflexivity). rewrite sf_app. reflexivity. }
  reflexivity.
Qed.

Lemma hex4_app34 s rest : hex4 (s ++ 34 :: rest) = hex4 s.
Proof.
  destruct s as [|h1 [|h2 [|h3 [|h4 s]]]]; cbn [app hex4]; try reflexivity.
  - destruct rest as [|a [|b [|c r]]]; reflexivity.
  - destruct rest as [|a [|b r]]; cbn [hex4]; try reflexivity. change (is_hex 34) with false. rewrite andb_false_r. reflexivity.
  - destruct rest as [|a r]; cbn [hex4]; try reflexivity. change (is_hex 34) with false.
    rewrite andb_false_r. reflexivity.
  - change (is_hex 34) with false. rewrite andb_false_r. reflexivity.
Qed.

Lemma has_prefix_u (s : bytes) : json_hasPrefix s [92; 117] =
  match s with a1 :: a2 :: _ => (a1 =? 92) && (a2 =? 117) | _ => false end.
Proof.
  unfold json_hasPrefix. change (len [92; 117]) with 2.
  destruct s as [|a1 [|a2 s]]; try reflexivity.
  rewrite !len_cons. pose proof (len_nonneg s). destruct (Z.geb_spec (len s + 1 + 1) 2); [|lia].
  change (slice_to (a1 :: a2 :: s) 2) with [a1; a2]. cbn [bytes_eqb andb].
  rewrite (Z.eqb_sym 92 a1), (Z.eqb_sym 117 a2), andb_true_r. reflexivity.
Qed.

Lemma sanitize_ascii_all p : forallb (fun c => c <? 128) p = true -> sanitize_from 0 p = p.
Proof.
  induction p as [|c p IH]; [reflexivity|]. cbn [forallb]. intros H. apply andb_true_iff in H. destruct H as [H1 H2].
  apply Z.ltb_lt in H1. rewrite sanitize_ascii by assumption. rewrite IH by assumption. reflexivity.
Qed.

Lemma wfb_cons_inv c r : wfb (c :: r) = true -> wfb r = true.
Proof. intros H. apply wfb_cons in H. tauto. Qed.

Lemma low_sur_no_prefix u (s : bytes) rest :
  match s with a1 :: a2 :: _ => (a1 =? 92) && (a2 =? 117) | _ => false end = false ->
  low_sur u (s ++ 34 :: rest) = None.
Proof.
  intros H. destruct s as [|a1 [|a2 s4]]; cbn [app low_sur].
  - destruct rest as [|y1 [|y2 [|y3 [|y4 [|y5 rest']]]]]; reflexivity.
  - destruct rest as [|y1 [|y2 [|y3 [|y4 rest']]]]; try reflexivity.
    change (34 =? 117) with false. rewrite andb_false_r. reflexivity.
  - destruct (s4 ++ 34 :: rest) as [|l1 [|l2 [|l3 [|l4 r3]]]]; try reflexivity. rewrite H. reflexivity.
Qed.

Lemma uq_loop_spec B rest : forall fuel s racc out, (length s < fuel)%nat -> wfb s = true -> len s < 2 ^ 62 ->
  uq_body 0 (s ++ 34 :: rest) = Some (out, rest) -> uq_loop B fuel racc s = Some (racc ++ out, B, true, None).
Proof.
  induction fuel as [|f IH]; intros s racc out LF W LB H; [lia|].
  destruct s as [|x0 s0] eqn:ES.
  { cbn [app] in H. rewrite uq_quote in H. injection H as <-. rewrite app_nil_r. reflexivity. }
  rewrite <- ES in *. assert (NE : s <> []) by (rewrite ES; discriminate). clear ES x0 s0.
  destruct (Nat.ltb_spec (find_index (eqc 92) s) (length s)) as [Q|Q].
  2:{ pose proof (find_index_le (eqc 92) s). assert (NB : forallb (fun c => negb (eqc 92 c)) s = true)
        by (apply find_index_none; lia).
      rewrite uq_loop_plain by assumption. rewrite (uq_no_backslash s out rest NB H).
      unfold append_coerce_utf8. rewrite coerce_sanitize by assumption. reflexivity. }
  destruct (find_index_split (eqc 92) s Q) as (c & s1 & E & Pc & NB).
  unfold eqc in Pc. apply Z.eqb_eq in Pc. subst c. set (p := firstn (find_index (eqc 92) s) s) in *.
  rewrite E in H. destruct (uq_at_backslash p s1 out rest NB H) as (out1 & Eo & H1).
  rewrite E at 1. rewrite uq_loop_escape by (auto; rewrite <- E; assumption).
  assert (Wp : wfb p = true /\ wfb s1 = true).
  { rewrite E in W. apply wfb_app in W. destruct W as [W1 W2]. split; [assumption|]. apply wfb_cons_inv in W2. exact W2. }
  destruct Wp as [Wp W1].
  assert (Ls : length s = (length p + S (length s1))%nat) by (rewrite E at 1; rewrite app_length; reflexivity).
  unfold append_coerce_utf8. rewrite coerce_sanitize by assumption. fold (sanitize_from 0 p). unfold sanitize.
  subst out. rewrite app_assoc. set (racc' := racc ++ sanitize_from 0 p).
  assert (LB1 : len s1 < 2 ^ 62).
  { unfold len in *. rewrite Ls in LB. lia. }
  clear H E. unfold after_escape.
  destruct s1 as [|e s2].
  { exfalso. cbn [app] in H1. rewrite uq_escape in H1 by reflexivity. apply pre_some in H1.
    destruct H1 as (v' & H1 & _). apply (uq_suffix (length rest)) in H1; lia. }
  cbn [app] in H1. rewrite at_0. change (slice_from (e :: s2) 1) with s2. cbn [length] in Ls.
  assert (W2 : wfb s2 = true) by (apply wfb_cons_inv in W1; exact W1).
  assert (LB2 : len s2 < 2 ^ 62) by (clear - LB1; rewrite len_cons in LB1; lia).
  assert (STEP : forall c', is_escape_letter e = true -> unescape_letter e = c' ->
     uq_loop B f (racc' ++ [c']) s2 = Some (racc' ++ out1, B, true, None)).
  { intros c' EL UL. rewrite uq_escape in H1 by assumption. apply pre_some in H1. destruct H1 as (v' & H1 & ->).
    assert (F2 : (length s2 < f)%nat) by (clear - Ls LF; lia).
    rewrite UL. rewrite (IH s2 (racc' ++ [c']) v'); [|exact F2|assumption|assumption|assumption].
    rewrite <- app_assoc. reflexivity. }
  destruct (Z.eqb_spec e 34) as [->|N1]; [apply STEP; reflexivity|].
  destruct (Z.eqb_spec e 92) as [->|N2]; [apply STEP; reflexivity|].
  destruct (Z.eqb_spec e 47) as [->|N3]; [apply STEP; reflexivity|]. cbn [orb].
  destruct (Z.eqb_spec e 110) as [->|N4]; [apply STEP; reflexivity|].
  destruct (Z.eqb_spec e 114) as [->|N5]; [apply STEP; reflexivity|].
  destruct (Z.eqb_spec e 116) as [->|N6]; [apply STEP; reflexivity|].
  destruct (Z.eqb_spec e 98) as [->|N7]; [apply STEP; reflexivity|].
  destruct (Z.eqb_spec e 102) as [->|N8]; [apply STEP; reflexivity|].
  assert (EL : is_escape_letter e = false).
  { unfold is_escape_letter. repeat (match goal with |- context [?a =? ?b] => destruct (Z.eqb_spec a b); [lia|] end). reflexivity. }
  destruct (Z.eqb_spec e 117) as [->|N9]; [|rewrite uq_bad_escape in H1 by assumption; discriminate H1].
  change (slice_from (117 :: s2) 1) with s2.
  destruct (hex4 s2) eqn:H4.
  2:{ rewrite uq_bad_u in H1; [discriminate H1|]. rewrite hex4_app34. exact H4. }
  destruct s2 as [|h1 [|h2 [|h3 [|h4 s3]]]]; try discriminate H4. cbn [hex4] in H4.
  rewrite parseUnicode_value by assumption. cbn [isnil negb]. change (slice_from (h1 :: h2 :: h3 :: h4 :: s3) 4) with s3.
  cbn [app] in H1. rewrite uq_u in H1 by assumption. set (u := hex4val h1 h2 h3 h4) in *.
  cbn [length] in Ls.
  assert (W3 : wfb s3 = true) by (do 4 apply wfb_cons_inv in W2; exact W2).
  assert (LB3 : len s3 < 2 ^ 62) by (clear - LB2; rewrite !len_cons in LB2; lia).
  assert (STEP2 : forall rune, pre (utf8_encode_rune rune) (uq_body 0 (s3 ++ 34 :: rest)) = Some (out1, rest) ->
     uq_loop B f (append_rune racc' rune) s3 = Some (racc' ++ out1, B, true, None)).
  { intros rune HH. apply pre_some in HH. destruct HH as (v' & HH & ->). unfold append_rune.
    assert (F3 : (length s3 < f)%nat) by (clear - Ls LF; lia).
    rewrite (IH s3 (racc' ++ utf8_encode_rune rune) v'); [|exact F3|assumption|assumption|assumption].
    rewrite <- app_assoc. reflexivity. }
  destruct (utf16_is_surrogate u); [|apply STEP2; exact H1].
  rewrite has_prefix_u.
  destruct (match s3 with a1 :: a2 :: _ => (a1 =? 92) && (a2 =? 117) | _ => false end) eqn:PF; cbn [negb].
  2:{ rewrite (low_sur_no_prefix u s3 rest PF) in H1. apply STEP2. change (utf8_encode_rune 65533) with [239; 191; 189].
      exact H1. }
  destruct s3 as [|a1 [|a2 s4]]; try discriminate PF.
    apply andb_true_iff in PF. destruct PF as [P1 P2]. apply Z.eqb_eq in P1, P2. subst a1 a2.
    change (slice_from (92 :: 117 :: s4) 2) with s4.
    destruct (hex4 s4) eqn:H5.
    2:{ exfalso. assert (LS : low_sur u ((92 :: 117 :: s4) ++ 34 :: rest) = None).
        { cbn [app low_sur]. pose proof (hex4_app34 s4 rest) as HX. rewrite H5 in HX.
          destruct (s4 ++ 34 :: rest) as [|l1 [|l2 [|l3 [|l4 r3]]]]; try reflexivity.
          cbn [hex4] in HX. rewrite HX. cbn [andb]. reflexivity. }
        rewrite LS in H1. apply pre_some in H1. destruct H1 as (v' & H1 & _). cbn [app] in H1.
        rewrite uq_bad_u in H1; [discriminate H1|]. rewrite hex4_app34. exact H5. }
    destruct s4 as [|l1 [|l2 [|l3 [|l4 s5]]]]; try discriminate H5. cbn [hex4] in H5.
    rewrite parseUnicode_value by assumption. cbn [isnil negb].
    cbn [app low_sur] in H1. change (92 =? 92) with true in H1. change (117 =? 117) with true in H1.
    rewrite H5 in H1. cbn [andb] in H1.
    rewrite addi64_small by (clear; change (2 ^ 63) with 9223372036854775808; lia). change (slice_from (92 :: 117 :: l1 :: l2 :: l3 :: l4 :: s5) (2 + 4)) with s5.
    destruct (utf16_decode_rune u (hex4val l1 l2 l3 l4) =? 65533) eqn:DR; cbn [negb] in *.
    + apply Z.eqb_eq in DR. rewrite DR. apply STEP2. exact H1.
    + apply pre_some in H1. destruct H1 as (v' & H1 & ->). unfold append_rune.
      cbn [length] in Ls.
      assert (W5 : wfb s5 = true) by (do 6 apply wfb_cons_inv in W3; exact W3).
      assert (LB5 : len s5 < 2 ^ 62) by (clear - LB3; rewrite !len_cons in LB3; lia).
      assert (F5 : (length s5 < f)%nat) by (clear - Ls LF; lia).
      rewrite (IH s5 (racc' ++ utf8_encode_rune (utf16_decode_rune u (hex4val l1 l2 l3 l4))) v');
        [|exact F5|assumption|assumption|assumption].
      rewrite <- app_assoc. reflexivity.
Qed.

(* what the unquoting consumed ends with the closing quote *)
Lemma low_sur_split u r2 rune r3 : low_sur u r2 = Some (rune, r3) -> exists x, r2 = x ++ r3.
Proof.
  unfold low_sur. destruct r2 as [|a1 [|a2 [|l1 [|l2 [|l3 [|l4 r]]]]]]; try discriminate.
  match goal with |- context [if ?c then _ else _] => destruct c end; [|discriminate].
  intros E. injection E as _ <-. exists [a1; a2; l1; l2; l3; l4]. reflexivity.
Qed.

Lemma uq_closing : forall n b k v r, (length b <= n)%nat -> uq_body k b = Some (v, r) -> exists body, b = body ++ 34 :: r.
Proof.
  induction n as [|n IH]; intros b k v r L H.
  - destruct b; [destruct k; discriminate H|cbn in L; lia].
  - destruct b as [|c b1]; [destruct k; discriminate H|]. cbn [length] in *.
    assert (G : forall p b', (length b' <= n)%nat -> pre p (uq_body 0 b') = Some (v, r) -> exists body, b' = body ++ 34 :: r).
    { intros p b' L' HH. apply pre_some in HH. destruct HH as (v' & HH & _). apply IH in HH; auto. }
    destruct k as [|k].
    2:{ cbn [uq_body] in H. apply pre_some in H. destruct H as (v' & H & _). apply IH in H; [|lia].
        destruct H as (body & ->). exists (c :: body). reflexivity. }
    destruct (Z.eqb_spec c 34) as [->|N34]. { rewrite uq_quote in H. injection H as _ <-. exists []. reflexivity. }
    destruct (Z.eqb_spec c 92) as [->|N92].
    + destruct b1 as [|e b2]; [discriminate H|]. cbn [length] in *.
      destruct (is_escape_letter e) eqn:EL.
      { rewrite uq_escape in H by assumption. apply G in H; [|lia]. destruct H as (body & ->).
        exists (92 :: e :: body). reflexivity. }
      destruct (Z.eqb_spec e 117) as [->|N117]; [|rewrite uq_bad_escape in H by assumption; discriminate H].
      destruct (hex4 b2) eqn:H4; [|rewrite uq_bad_u in H by assumption; discriminate H].
      destruct b2 as [|h1 [|h2 [|h3 [|h4 b3]]]]; try discriminate H4. cbn [hex4] in H4. cbn [length] in *.
      rewrite uq_u in H by assumption.
      assert (G3 : forall p, pre p (uq_body 0 b3) = Some (v, r) ->
                   exists body, 92 :: 117 :: h1 :: h2 :: h3 :: h4 :: b3 = body ++ 34 :: r).
      { intros p HH. apply G in HH; [|lia]. destruct HH as (body & ->).
        exists (92 :: 117 :: h1 :: h2 :: h3 :: h4 :: body). reflexivity. }
      destruct (utf16_is_surrogate (hex4val h1 h2 h3 h4)); [|apply G3 in H; exact H].
      destruct (low_sur (hex4val h1 h2 h3 h4) b3) as [[rune r3]|] eqn:LS; [|apply G3 in H; exact H].
      pose proof (low_sur_len _ _ _ _ LS) as LL. apply low_sur_split in LS. destruct LS as (x & ->).
      apply G in H; [|lia]. destruct H as (body & ->).
      exists (92 :: 117 :: h1 :: h2 :: h3 :: h4 :: x ++ body). cbn [app]. rewrite <- app_assoc. reflexivity.
    + destruct (Z.ltb_spec c 32) as [C|C].
      { destruct (uq_ctl c b1 C) as [E|[E|E]]; [rewrite E in H; discriminate H|lia|lia]. }
      destruct (Z.ltb_spec c 128) as [C2|C2].
      { rewrite uq_ascii in H by lia. apply G in H; [|lia]. destruct H as (body & ->). exists (c :: body). reflexivity. }
      rewrite uq_hi in H by assumption. destruct (utf8_decode_rune (c :: b1)) as [rn sz].
      destruct (sz =? 1).
      * apply G in H; [|lia]. destruct H as (body & ->). exists (c :: body). reflexivity.
      * apply pre_some in H. destruct H as (v' & H & _). apply IH in H; [|lia]. destruct H as (body & ->).
        exists (c :: body). reflexivity.
Qed.

(* ---------- the kind parseString reports ---------- *)
Definition PR := option (bytes * bytes * Z * option json_err).
Lemma ps_loop_kind d b : forall fuel i v r k, ps_loop d b fuel i = Some (v, r, k, None) -> k = json_String.
Proof.
  induction fuel as [|f IH]; intros i v r k H; [discriminate H|].
  cbn [ps_loop] in H. destruct (i <? len b); [|discriminate H]. cbv zeta in H.
  destruct (at_ b i =? 92).
  - destruct (addi64 i 1 <? len b); [|apply IH in H; exact H].
    match type of H with context [if ?c then _ else _] => destruct c end; [apply IH in H; exact H|].
    destruct (at_ b (addi64 i 1) =? 117); [|discriminate H].
    destruct (json_decoder_parseUnicode d (slice_from b (addi64 (addi64 i 1) 1))) as [[u n] er].
    destruct er as [er|]; cbn [isnil negb] in H; [discriminate H|apply IH in H; exact H].
  - destruct (at_ b i =? 34); [injection H as _ _ <-; reflexivity|].
    destruct (at_ b i <? 32); [discriminate H|apply IH in H; exact H].
Qed.

Definition plainb (c : Z) : bool := (32 <=? c) && (c <=? 126) && negb (c =? 92).

Lemma printable_prefix' (P rest p t : bytes) x :
  (P ++ [x]) ++ rest = p ++ t -> is_ws x = false ->
  forallb (fun c => (32 <=? c) && (c <=? 126)) p = true -> forallb is_ws t = true ->
  forallb (fun c => (32 <=? c) && (c <=? 126)) (P ++ [x]) = true.
Proof.
  intros E Wx Hp Ht.
  apply app_eq_app in E. destruct E as (l & [[E1 E2]|[E1 E2]]).
  - destruct l as [|y l] using rev_ind.
    + rewrite app_nil_r in E1. rewrite E1. assumption.
    + clear IHl. rewrite app_assoc in E1. apply app_inj_tail in E1. destruct E1 as [_ E1]. subst y.
      rewrite E2 in Ht. rewrite !forallb_app in Ht. cbn [forallb] in Ht. rewrite Wx in Ht.
      destruct (forallb is_ws l); cbn in Ht; discriminate Ht.
  - rewrite E1 in Hp. rewrite forallb_app in Hp. apply andb_true_iff in Hp. tauto.
Qed.

Lemma ps_k8_kind fuel d b s v r k : b = 34 :: s -> wfb b = true -> len b < 2 ^ 62 -> flags_sound d b ->
  (find_index (eqc 34) s < length s)%nat ->
  ps_k8 fuel d b (Z.of_nat (find_index (eqc 34) s) + 2) = Some (v, r, k, None) ->
  k = json_String \/ (k = json_Unescaped /\ exists span, v = (34 :: span) ++ [34] /\ forallb plainb span = true).
Proof.
  intros Eb Hw Hb [FS1 FS2] Hq H.
  destruct (find_index_split (eqc 34) s Hq) as (c & rest & Es & Pc & Hspan).
  set (span := firstn (find_index (eqc 34) s) s) in *.
  assert (Lspan : length span = find_index (eqc 34) s).
  { unfold span. rewrite firstn_length. lia. }
  unfold eqc in Pc. apply Z.eqb_eq in Pc. subst c.
  assert (Eb2 : b = ((34 :: span) ++ [34]) ++ rest).
  { rewrite Eb, Es at 1. cbn [app]. rewrite <- app_assoc. reflexivity. }
  assert (En : Z.of_nat (find_index (eqc 34) s) + 2 = len ((34 :: span) ++ [34])).
  { rewrite len_app, len_cons. unfold len. cbn [length]. lia. }
  assert (S1 : slice b 1 (Z.of_nat (find_index (eqc 34) s) + 2) = span ++ [34]).
  { unfold slice. replace (Z.to_nat (Z.of_nat (find_index (eqc 34) s) + 2 - 1)) with (length span + 1)%nat by lia.
    rewrite Eb. change (skipn (Z.to_nat 1) (34 :: s)) with s. rewrite Es. rewrite firstn_app.
    rewrite firstn_all2 by lia. replace (length span + 1 - length span)%nat with 1%nat by lia. reflexivity. }
  unfold ps_k8 in H. rewrite S1, !has_id in H.
  match type of H with context [if ?c then _ else _] => destruct c eqn:C end.
  2:{ left. eapply ps_loop_kind. exact H. }
  right. injection H as <- _ <-. split; [reflexivity|].
  apply andb_true_iff in C. destruct C as [C1 C2].
  assert (A : forallb (fun c => negb (eqc 92 c)) span = true).
  { apply orb_true_iff in C1. destruct C1 as [C1|C1].
    - specialize (FS1 C1). rewrite Eb2 in FS1. cbn [app forallb] in FS1. rewrite !forallb_app in FS1.
      apply andb_true_iff in FS1. destruct FS1 as [_ FS1]. apply andb_true_iff in FS1. destruct FS1 as [FS1 _].
      apply andb_true_iff in FS1. destruct FS1 as [FS1 _]. exact FS1.
    - rewrite index_byte_find in C1. pose proof (find_index_le (eqc 92) (span ++ [34])) as LE.
      destruct (Nat.ltb_spec (find_index (eqc 92) (span ++ [34])) (length (span ++ [34]))) as [X|X]; [lia|].
      assert (Y : find_index (eqc 92) (span ++ [34]) = length (span ++ [34])) by lia.
      apply find_index_none in Y. rewrite forallb_app in Y. apply andb_true_iff in Y. tauto. }
  assert (B : forallb (fun c => (32 <=? c) && (c <=? 126)) span = true).
  { apply orb_true_iff in C2. destruct C2 as [C2|C2].
    - destruct (FS2 C2) as (p & t & E1 & E2 & E3). rewrite Eb2 in E1.
      pose proof (printable_prefix' (34 :: span) rest p t 34 E1 eq_refl E2 E3) as PP.
      cbn [app forallb] in PP. rewrite forallb_app in PP. apply andb_true_iff in PP. destruct PP as [_ PP].
      apply andb_true_iff in PP. tauto.
    - assert (W : wfb (span ++ [34]) = true).
      { rewrite Eb2 in Hw. cbn [app] in Hw. apply wfb_cons in Hw. destruct Hw as [_ Hw].
        apply wfb_app in Hw. tauto. }
      assert (LL : len (span ++ [34]) < 2 ^ 63).
      { rewrite En in *. rewrite Eb2 in Hb. rewrite !len_app, !len_cons in *. pose proof (len_nonneg rest).
        change (2 ^ 62) with 4611686018427387904 in Hb. change (2 ^ 63) with 9223372036854775808. lia. }
      destruct (valid_print_spec (span ++ [34]) W LL) as [_ VP]. rewrite VP in C2.
      rewrite forallb_app in C2. apply andb_true_iff in C2. destruct C2 as [C2 _]. exact C2. }
  rewrite En, Eb2, st_app. exists span. split; [reflexivity|].
  clear - A B. induction span as [|x l IH]; [reflexivity|]. cbn [forallb] in *.
  apply andb_true_iff in A, B. destruct A as [A1 A2], B as [B1 B2]. rewrite IH by assumption.
  unfold plainb. unfold eqc in A1. rewrite B1. rewrite (Z.eqb_sym x 92) in *. rewrite A1. reflexivity.
Qed.

Lemma parseString_kind fuel d b v r k : wfb b = true -> len b < 2 ^ 62 -> flags_sound d b ->
  json_decoder_parseString fuel d b = Some (v, r, k, None) ->
  k = json_String \/ (k = json_Unescaped /\ exists span, v = (34 :: span) ++ [34] /\ forallb plainb span = true).
Proof.
  intros Hw Hb FS H. rewrite parseString_eq in H.
  destruct b as [|c s]; [discriminate H|].
  rewrite len_cons, at_0 in H. destruct (len s + 1 <? 2); [discriminate H|].
  destruct (Z.eqb_spec c 34) as [C|C]; cbn [negb] in H; [|discriminate H]. subst c.
  assert (Hw' : wfb s = true) by (apply wfb_cons in Hw; tauto).
  rewrite (ps_find_spec _ s _ eq_refl Hw' Hb) in H.
  destruct (Nat.ltb_spec (find_index (eqc 34) s) (length s)) as [Q|Q]; [|discriminate H].
  eapply ps_k8_kind; eauto.
Qed.

(* ---------- parseStringUnquote = the standard unquoting ---------- *)
Lemma match34_ne {T} (y : Z) (A B : T) : y <> 34 -> match y with 34 => A | _ => B end = B.
Proof.
  intros N. destruct y as [|p|p]; try reflexivity.
  repeat (match goal with q : positive |- _ => destruct q; try reflexivity end). congruence.
Qed.
Lemma uq_lit_eq c s : uq_lit (c :: s) = if c =? 34 then uq_body 0 s else None.
Proof.
  unfold uq_lit. destruct (Z.eqb_spec c 34) as [->|N]; [reflexivity|]. apply match34_ne. exact N.
Qed.

Lemma plainb_facts span : forallb plainb span = true ->
  forallb (fun c => negb (eqc 92 c)) span = true /\ forallb (fun c => c <? 128) span = true.
Proof.
  induction span as [|x l IH]; [auto|]. cbn [forallb]. intros H. apply andb_true_iff in H. destruct H as [H1 H2].
  destruct (IH H2) as [I1 I2]. rewrite I1, I2. unfold plainb in H1. unfold eqc.
  split; apply andb_true_iff; split; auto; lia.
Qed.

Lemma slice_body (body : bytes) : len body < 2 ^ 62 ->
  slice ((34 :: body) ++ [34]) 1 (subi64 (len ((34 :: body) ++ [34])) 1) = body.
Proof.
  intros L. rewrite len_app, len_cons. change (len [34]) with 1. pose proof (len_nonneg body).
  rewrite subi64_small by (change (2 ^ 63) with 9223372036854775808; change (2 ^ 62) with 4611686018427387904 in L; lia).
  unfold slice. change (skipn (Z.to_nat 1) ((34 :: body) ++ [34])) with (body ++ [34]).
  replace (Z.to_nat (len body + 1 + 1 - 1 - 1)) with (length body) by (unfold len; lia).
  rewrite firstn_app, firstn_all, Nat.sub_diag. cbn [firstn]. apply app_nil_r.
Qed.

Lemma parse_string_unquote_spec : parse_string_unquote_statement.
Proof.
  intros d b Hw Hb FS. unfold parse_string_unquote, unquote_fuel.
  remember (json_decoder_parseStringUnquote (S (length b)) d b []) as X eqn:EX.
  rewrite parseStringUnquote_eq in EX. unfold parse_string_tot in EX.
  destruct (parseString_spec (S (length b)) d b Hw Hb FS ltac:(lia)) as (v0 & r0 & k & e & E & OK1 & OK2).
  rewrite E in EX. destruct e as [err|].
  - cbn [isnil negb] in EX. do 4 eexists. split; [exact EX|].
    specialize (OK2 ltac:(discriminate)). unfold g_str_tok in OK2.
    destruct b as [|c s]; [discriminate|]. rewrite uq_lit_eq. destruct (c =? 34); [|discriminate].
    pose proof (unquote_grammar_all s) as AG. rewrite OK2 in AG. unfold agree in AG.
    destruct (uq_body 0 s) as [[v' r']|]; [contradiction|discriminate].
  - cbn [isnil negb] in EX. destruct (OK1 eq_refl) as (G & j & Hj & Ev & Er). clear OK1 OK2.
    unfold g_str_tok in G. destruct b as [|c s]; [discriminate G|].
    destruct (Z.eqb_spec c 34) as [->|N]; [|discriminate G].
    rewrite uq_lit_eq. change (34 =? 34) with true. cbv iota.
    pose proof (unquote_grammar_all s) as AG. rewrite G in AG. unfold agree in AG.
    destruct (uq_body 0 s) as [[out r']|] eqn:U; [|contradiction]. subst r'.
    destruct (uq_closing (length s) s 0 out r0 ltac:(lia) U) as (body & Es).
    assert (Ev0 : v0 = (34 :: body) ++ [34]).
    { pose proof (st_sf (34 :: s) j) as SS. rewrite <- Ev, <- Er in SS. rewrite Es in SS.
      change (34 :: body ++ 34 :: r0) with ((34 :: body) ++ [34] ++ r0) in SS. rewrite app_assoc in SS.
      apply app_inv_tail in SS. exact SS. }
    assert (Ws : wfb s = true) by (apply wfb_cons_inv in Hw; exact Hw).
    assert (Wb : wfb body = true) by (rewrite Es in Ws; apply wfb_app in Ws; tauto).
    assert (Lb : len body < 2 ^ 62).
    { rewrite Es in Hb. rewrite len_cons, len_app, len_cons in Hb. pose proof (len_nonneg r0). lia. }
    cbv zeta in EX. rewrite Ev0 in EX. rewrite slice_body in EX by assumption. rewrite Es in U.
    destruct (Z.eqb_spec k 9) as [K|K].
    + do 4 eexists. split; [exact EX|]. split; [reflexivity|]. split; [|reflexivity].
      destruct (parseString_kind _ _ _ _ _ _ Hw Hb FS E) as [K8|(_ & span & Es2 & PL)].
      { rewrite K in K8. discriminate K8. }
      rewrite Ev0 in Es2. apply app_inj_tail in Es2. destruct Es2 as [Es2 _]. injection Es2 as ->.
      destruct (plainb_facts span PL) as [P1 P2].
      rewrite (uq_no_backslash span out r0 P1 U). rewrite sanitize_ascii_all by assumption. reflexivity.
    + change (nil_bytes []) with true in EX. cbv iota in EX.
      rewrite (uq_loop_spec r0 r0 (S (length (34 :: s))) body [] out) in EX; auto.
      * do 4 eexists. split; [exact EX|]. auto.
      * rewrite Es. cbn [length]. rewrite app_length. cbn [length]. lia.
Qed.

(* ---------- json.Unmarshal into a string ---------- *)
Lemma ipf_skip fuel b : json_internalParseFlags fuel b = json_internalParseFlags fuel (skip_ws b).
Proof. unfold json_internalParseFlags. rewrite !skipSpaces_spec, skip_ws_idem. reflexivity. Qed.

Lemma match110_ne {T} (y : Z) (A B : T) : y <> 110 -> match y with 110 => A | _ => B end = B.
Proof.
  intros N. destruct y as [|p|p]; try reflexivity.
  repeat (match goal with q : positive |- _ => destruct q; try reflexivity end). congruence.
Qed.
Lemma match108_ne {T} (y : Z) (A B : T) : y <> 108 -> match y with 108 => A | _ => B end = B.
Proof.
  intros N. destruct y as [|p|p]; try reflexivity.
  repeat (match goal with q : positive |- _ => destruct q; try reflexivity end). congruence.
Qed.

(* the literal pattern of the specification, as the boolean test of the code *)
Lemma len4_ge (c0 c1 c2 c3 : Z) (r : bytes) : (len (c0 :: c1 :: c2 :: c3 :: r) >=? 4) = true.
Proof. rewrite !len_cons. pose proof (len_nonneg r). lia. Qed.
Lemma null_match {T} (t : bytes) (F : bytes -> T) (D : T) :
  match t with 110 :: 117 :: 108 :: 108 :: r => F r | _ => D end =
  if json_hasNullPrefix t then F (slice_from t 4) else D.
Proof.
  unfold json_hasNullPrefix.
  destruct t as [|c0 t]; [reflexivity|].
  destruct (Z.eqb_spec c0 110) as [->|N0].
  2:{ rewrite match110_ne by assumption.
      destruct t as [|c1 [|c2 [|c3 r]]]; try reflexivity. rewrite len4_ge.
      change (slice_to (c0 :: c1 :: c2 :: c3 :: r) 4) with [c0; c1; c2; c3]. cbn [bytes_eqb andb].
      destruct (Z.eqb_spec c0 110); [congruence|]. reflexivity. }
  destruct t as [|c1 t]; [reflexivity|].
  destruct (Z.eqb_spec c1 117) as [->|N1].
  2:{ rewrite match117_ne by assumption.
      destruct t as [|c2 [|c3 r]]; try reflexivity. rewrite len4_ge.
      change (slice_to (110 :: c1 :: c2 :: c3 :: r) 4) with [110; c1; c2; c3]. cbn [bytes_eqb andb].
      destruct (Z.eqb_spec c1 117); [congruence|]. rewrite andb_false_r. reflexivity. }
  destruct t as [|c2 t]; [reflexivity|].
  destruct (Z.eqb_spec c2 108) as [->|N2].
  2:{ rewrite match108_ne by assumption.
      destruct t as [|c3 r]; try reflexivity. rewrite len4_ge.
      change (slice_to (110 :: 117 :: c2 :: c3 :: r) 4) with [110; 117; c2; c3]. cbn [bytes_eqb andb].
      destruct (Z.eqb_spec c2 108); [congruence|]. rewrite !andb_false_r. reflexivity. }
  destruct t as [|c3 r]; [reflexivity|].
  rewrite len4_ge. change (slice_to (110 :: 117 :: 108 :: c3 :: r) 4) with [110; 117; 108; c3].
  change (slice_from (110 :: 117 :: 108 :: c3 :: r) 4) with r. cbn [andb bytes_eqb].
  change (110 =? 110) with true. change (117 =? 117) with true. change (108 =? 108) with true. cbn [andb].
  destruct (Z.eqb_spec c3 108) as [->|N3]; [reflexivity|]. rewrite match108_ne by assumption. reflexivity.
Qed.

Lemma nil_test {T} (r : bytes) (A B : T) : (if len r =? 0 then A else B) = match r with [] => A | _ => B end.
Proof. destruct r; [reflexivity|]. rewrite len_cons_nz. reflexivity. Qed.

Lemma flags_for (b : bytes) : wfb b = true -> len b < 2 ^ 62 ->
  exists d, json_internalParseFlags (ipf_fuel b) b = Some d /\ flags_sound d (skip_ws b) /\
            wfb (skip_ws b) = true /\ len (skip_ws b) < 2 ^ 62.
Proof.
  intros Hw Hb. destruct (skip_ws_suffix b) as (pre & E & _).
  assert (W : wfb (skip_ws b) = true) by (rewrite E in Hw; apply wfb_app in Hw; tauto).
  assert (L : len (skip_ws b) < 2 ^ 62).
  { rewrite E in Hb. rewrite len_app in Hb. pose proof (len_nonneg pre). lia. }
  pose proof (skip_ws_length b) as SL.
  destruct (ipf_spec (ipf_fuel b) (skip_ws b) W L ltac:(unfold ipf_fuel; lia) (skip_ws_idem b)) as (d & E1 & FS).
  exists d. rewrite ipf_skip. auto.
Qed.

Lemma unmarshal_string_spec : unmarshal_string_statement.
Proof.
  intros b Hw Hb. unfold unmarshal_string, unmarshal_with, spec_unmarshal_string.
  destruct (flags_for b Hw Hb) as (d & E & FS & W & L). rewrite E, skipSpaces_spec.
  cbv zeta. set (t := skip_ws b) in *.
  rewrite (null_match t (fun r => match skip_ws r with [] => SNull [] | _ => SErr end)).
  unfold decode_string. destruct (json_hasNullPrefix t).
  - rewrite skipSpaces_spec, nil_test. reflexivity.
  - destruct (parse_string_unquote_spec d t W L FS) as (v & r & nw & e & EP & M). rewrite EP.
    destruct (uq_lit t) as [[v' r']|].
    + destruct M as (-> & -> & ->). rewrite skipSpaces_spec, nil_test. reflexivity.
    + destruct e as [err|]; [reflexivity|congruence].
Qed.
