(* C01/C02 structural part: proofs of the decoder statements of Json/TreeSpec.v (round trip with white space,
   null, injectivity). The validity of the encoding is proved in Json/TreeEncProofs.v. *)
From Coq Require Import Lia ZifyBool ZifyNat.
From Verif Require Import Base.GoInt Json.Grammar Json.FlagsModel Json.FlagsSpec Json.StrModel Json.StrSpec Json.StrSpecProofs
  Json.NumModel Json.NumSpec Json.NumProofs Json.TreeModel Json.TreeSpec.
Open Scope Z_scope.

Scheme jty_mut := Induction for jty Sort Prop
  with jfields_mut := Induction for jfields Sort Prop.

(* ================================ white space and token streams ================================ *)
Definition wsb (w : bytes) : Prop := forallb is_ws w = true.

Lemma skip_ws_wsb w x : wsb w -> skip_ws (w ++ x) = skip_ws x.
Proof.
  unfold wsb. induction w as [|c w IH]; intros H; [reflexivity|].
  cbn [forallb] in H. apply andb_true_iff in H. destruct H as [H1 H2].
  cbn [app skip_ws]. rewrite H1. apply IH, H2.
Qed.
Lemma skip_ws_nws c r : is_ws c = false -> skip_ws (c :: r) = c :: r.
Proof. intros H. cbn [skip_ws]. rewrite H. reflexivity. Qed.
Lemma skip_ws_all w : wsb w -> skip_ws w = [].
Proof. intros H. rewrite <- (app_nil_r w). rewrite skip_ws_wsb by exact H. reflexivity. Qed.

(* doc is the tokens, each preceded by white space, followed by rest *)
Inductive inter : list bytes -> bytes -> bytes -> Prop :=
| inter_nil rest : inter [] rest rest
| inter_cons w tok toks doc rest :
    wsb w -> inter toks doc rest -> inter (tok :: toks) (w ++ tok ++ doc) rest.

Lemma inter_app a : forall b doc rest,
  inter (a ++ b) doc rest <-> exists mid, inter a doc mid /\ inter b mid rest.
Proof.
  induction a as [|tok a IH]; intros b doc rest; cbn [app].
  - split.
    + intros H. exists doc. split; [constructor|exact H].
    + intros [mid [H1 H2]]. inversion H1; subst. exact H2.
  - split.
    + intros H. inversion H as [|w tok' toks' doc' rest' Hw Hi]; subst.
      apply IH in Hi. destruct Hi as [mid [Ha Hb]].
      exists mid. split; [constructor; assumption|exact Hb].
    + intros [mid [H1 H2]]. inversion H1 as [|w tok' toks' doc' rest' Hw Hi]; subst.
      constructor; [exact Hw|]. apply IH. exists mid. split; assumption.
Qed.

Lemma inter_len toks doc rest : inter toks doc rest -> (length rest <= length doc)%nat.
Proof.
  induction 1 as [|w tok toks doc rest Hw Hi IH]; [lia|].
  rewrite !app_length. lia.
Qed.

(* reading the next token *)
Lemma next_tok c tk toks doc rest :
  inter ((c :: tk) :: toks) doc rest -> is_ws c = false ->
  exists doc', skip_ws doc = c :: tk ++ doc' /\ inter toks doc' rest /\ (length doc' < length doc)%nat.
Proof.
  intros H Hc. inversion H as [|w tok' toks' doc' rest' Hw Hi]; subst.
  exists doc'. split; [|split].
  - rewrite skip_ws_wsb by exact Hw. cbn [app]. apply skip_ws_nws, Hc.
  - exact Hi.
  - rewrite !app_length. cbn [length]. lia.
Qed.
Lemma inter_single tok doc rest : inter [tok] doc rest -> exists w, wsb w /\ doc = w ++ tok ++ rest.
Proof.
  intros H. inversion H as [|w tok' toks' doc' rest' Hw Hi]; subst. inversion Hi; subst.
  exists w. split; [exact Hw|reflexivity].
Qed.

(* what may follow a number *)
Definition stops (r : bytes) : Prop :=
  match r with
  | [] => True
  | c :: _ => is_digit c = false /\ c <> 46 /\ c <> 101 /\ c <> 69
  end.
Definition stopc (c : Z) : Prop := c = 44 \/ c = 93 \/ c = 125.
Lemma is_ws_stops c r : is_ws c = true -> stops (c :: r).
Proof.
  unfold is_ws, stops, is_digit. intros H.
  destruct (Z.eqb_spec c 32); [subst; cbn; repeat split; discriminate|].
  destruct (Z.eqb_spec c 9); [subst; cbn; repeat split; discriminate|].
  destruct (Z.eqb_spec c 10); [subst; cbn; repeat split; discriminate|].
  destruct (Z.eqb_spec c 13); [subst; cbn; repeat split; discriminate|].
  discriminate H.
Qed.
Lemma stopc_stops c r : stopc c -> stops (c :: r).
Proof. unfold stopc, stops, is_digit. intros [H|[H|H]]; subst; cbn; repeat split; discriminate. Qed.
Lemma inter_stops c tk toks mid rest : inter ((c :: tk) :: toks) mid rest -> stopc c -> stops mid.
Proof.
  intros H Hc. inversion H as [|w tok' toks' doc' rest' Hw Hi]; subst.
  destruct w as [|x w]; cbn [app].
  - apply stopc_stops, Hc.
  - unfold wsb in Hw. cbn [forallb] in Hw. apply andb_true_iff in Hw. apply is_ws_stops, Hw.
Qed.

Lemma starts_with_hit c r : starts_with c (c :: r) = Some r.
Proof. unfold starts_with. rewrite Z.eqb_refl. reflexivity. Qed.
Lemma starts_with_miss c x r : x <> c -> starts_with c (x :: r) = None.
Proof. unfold starts_with. intros H. destruct (Z.eqb_spec x c); [contradiction|reflexivity]. Qed.

Lemma nullp_ne c r : c <> 110 -> nullp (c :: r) = None.
Proof.
  intros H. unfold nullp.
  destruct c as [|p|p]; try reflexivity.
  do 7 (destruct p as [p|p|]; try reflexivity). congruence.
Qed.

(* ================================ scalars ================================ *)
Lemma take_digits_app ds r : all_digits ds = true -> (match r with [] => True | c :: _ => is_digit c = false end) ->
  take_digits (ds ++ r) = ds /\ skip_digits (ds ++ r) = r.
Proof.
  intros Hd Hr. induction ds as [|d ds IH]; cbn [app].
  - destruct r as [|c r]; [split; reflexivity|]. cbn [take_digits skip_digits]. rewrite Hr. split; reflexivity.
  - unfold all_digits in Hd. cbn [forallb] in Hd. apply andb_true_iff in Hd. destruct Hd as [H1 H2].
    cbn [take_digits skip_digits]. unfold is_digit. rewrite H1.
    destruct (IH H2) as [A B]. rewrite A, B. split; reflexivity.
Qed.

Lemma int_in_range s w z : bits_ok w = true -> int_in s w z = true -> - 2 ^ 64 < z < 2 ^ 64.
Proof.
  unfold bits_ok, int_in. intros Hw Hz.
  assert (W : w = 8 \/ w = 16 \/ w = 32 \/ w = 64) by lia.
  destruct W as [W|[W|[W|W]]]; subst w; destruct s; cbn in Hz; lia.
Qed.

Lemma nlz_b ds : no_leading_zero ds -> no_leading_zero_b ds = true.
Proof.
  unfold no_leading_zero, no_leading_zero_b. destruct ds as [|c r]; [contradiction|].
  intros H. destruct c as [|p|p]; try reflexivity.
  do 6 (destruct p as [p|p|]; try reflexivity). destruct r; [reflexivity|contradiction].
Qed.

Lemma digits_hd c ds : all_digits (c :: ds) = true -> is_ws c = false /\ c <> 45 /\ c <> 110 /\ c <> 93.
Proof.
  unfold all_digits. cbn [forallb]. intros H. apply andb_true_iff in H. destruct H as [H _].
  unfold is_ws. repeat split; lia.
Qed.

Lemma dec_int_ok s w z r : bits_ok w = true -> int_in s w z = true -> stops r ->
  dec_int s w (z_to_dec z ++ r) = DOk (VInt z, r).
Proof.
  intros Hw Hz Hr.
  destruct (z_to_dec_canonical z (int_in_range s w z Hw Hz)) as [ds [E [Hd [Hn Hv]]]].
  assert (Hr' : match r with [] => True | c :: _ => is_digit c = false end).
  { destruct r; [exact I|]. apply Hr. }
  destruct (take_digits_app ds r Hd Hr') as [TD SD].
  assert (Hrc : match r with c :: _ => (c =? 46) || (c =? 101) || (c =? 69) | [] => false end = false).
  { destruct r as [|c r']; [reflexivity|]. cbn in Hr. lia. }
  rewrite E. unfold dec_int.
  destruct (Z.ltb_spec z 0) as [Neg|Pos].
  - cbn [app]. rewrite starts_with_hit. rewrite TD, SD. cbn [andb].
    assert (s = true). { destruct s; [reflexivity|]. unfold int_in in Hz. lia. } subst s. cbn [negb].
    rewrite (nlz_b ds Hn). cbn [negb]. rewrite Hrc.
    replace (- digits_value ds) with z by lia. rewrite Hz. reflexivity.
  - cbn [app]. destruct ds as [|c ds']; [contradiction|].
    destruct (digits_hd c ds' Hd) as [_ [H45 _]].
    cbn [app]. rewrite starts_with_miss by exact H45.
    change (c :: ds' ++ r) with ((c :: ds') ++ r). rewrite TD, SD. cbn [andb].
    rewrite (nlz_b _ Hn). cbn [negb]. rewrite Hrc.
    replace (digits_value (c :: ds')) with z by lia. rewrite Hz. reflexivity.
Qed.

(* the first byte of the decimal text *)
Lemma z_to_dec_head s w z : bits_ok w = true -> int_in s w z = true ->
  exists c tk, z_to_dec z = c :: tk /\ is_ws c = false /\ c <> 110 /\ c <> 93.
Proof.
  intros Hw Hz.
  destruct (z_to_dec_canonical z (int_in_range s w z Hw Hz)) as [ds [E [Hd [Hn Hv]]]].
  rewrite E. destruct (z <? 0).
  - exists 45, ds. repeat split; discriminate.
  - destruct ds as [|c ds']; [contradiction|]. exists c, ds'. cbn [app].
    destruct (digits_hd c ds' Hd) as [A [_ [B C]]]. repeat split; assumption.
Qed.

Lemma dec_str_ok s r : wfb s = true -> dec_str (std_escape true s ++ r) = DOk (VStr (sanitize s), r).
Proof. intros H. unfold dec_str. rewrite (unquote_escape true s r H). reflexivity. Qed.

(* field names *)
Lemma uq_alnum name T : forallb is_alnum name = true -> uq_body 0 (name ++ 34 :: T) = Some (name, T).
Proof.
  induction name as [|c name IH]; intros H; [reflexivity|].
  cbn [forallb] in H. apply andb_true_iff in H. destruct H as [H1 H2].
  cbn [app]. unfold is_alnum in H1.
  assert (R : 48 <= c <= 122 /\ c <> 92) by lia.
  cbn [uq_body].
  destruct (Z.eqb_spec c 34); [lia|]. destruct (Z.eqb_spec c 92); [lia|].
  destruct (Z.ltb_spec c 32); [lia|]. destruct (Z.ltb_spec c 128); [|lia].
  rewrite (IH H2). reflexivity.
Qed.
Lemma uq_quote name T : name_ok name = true -> uq_lit (quote name ++ T) = Some (name, T).
Proof.
  unfold name_ok. intros H. apply andb_true_iff in H. destruct H as [_ H].
  unfold quote. cbn [app uq_lit]. rewrite <- app_assoc. cbn [app]. apply uq_alnum, H.
Qed.

(* ================================ small facts about the model ================================ *)
Lemma bytes_eqb_refl a : bytes_eqb a a = true.
Proof. induction a as [|x a IH]; [reflexivity|]. cbn [bytes_eqb]. rewrite Z.eqb_refl, IH. reflexivity. Qed.
Lemma bytes_eqb_eq a : forall b, bytes_eqb a b = true -> a = b.
Proof.
  induction a as [|x a IH]; intros [|y b] H; try discriminate; [reflexivity|].
  cbn [bytes_eqb] in H. apply andb_true_iff in H. destruct H as [H1 H2].
  apply Z.eqb_eq in H1. subst. f_equal. apply IH, H2.
Qed.
Lemma bytes_eqb_sym_false a b : bytes_eqb a b = false -> bytes_eqb b a = false.
Proof.
  intros H. destruct (bytes_eqb b a) eqn:E; [|reflexivity].
  apply bytes_eqb_eq in E. subst. rewrite bytes_eqb_refl in H. discriminate.
Qed.
Lemma bytes_ltb_asym a : forall b, bytes_ltb a b = true -> bytes_ltb b a = false /\ bytes_eqb b a = false.
Proof.
  induction a as [|x a IH]; intros [|y b] H; try discriminate.
  - split; reflexivity.
  - cbn [bytes_ltb bytes_eqb] in *.
    destruct (Z.ltb_spec x y) as [L|L].
    + destruct (Z.ltb_spec y x); [lia|]. destruct (Z.eqb_spec y x); [lia|]. split; reflexivity.
    + destruct (Z.eqb_spec x y) as [E|E]; [|discriminate]. subst y.
      destruct (Z.ltb_spec x x); [lia|]. rewrite Z.eqb_refl.
      destruct (IH b H) as [A B]. rewrite A, B. split; reflexivity.
Qed.

Lemma map_put_end k v : forall m, forallb (fun k0 => bytes_ltb k0 k) (map fst m) = true -> map_put k v m = m ++ [(k, v)].
Proof.
  induction m as [|[k' v'] m IH]; intros H; [reflexivity|].
  cbn [map fst forallb] in H. apply andb_true_iff in H. destruct H as [H1 H2].
  destruct (bytes_ltb_asym k' k H1) as [A B].
  cbn [map_put app]. rewrite A, B, (IH H2). reflexivity.
Qed.
Lemma sort_kv_sorted : forall m, keys_sorted (map fst m) = true -> sort_kv m = m.
Proof.
  induction m as [|[k v] m IH]; intros H; [reflexivity|].
  cbn [map fst keys_sorted] in H. apply andb_true_iff in H. destruct H as [H1 H2].
  unfold sort_kv in *. cbn [fold_right fst snd]. rewrite (IH H2).
  destruct m as [|[k' v'] m']; [reflexivity|].
  cbn [map fst forallb] in H1. apply andb_true_iff in H1. destruct H1 as [H1 _].
  cbn [map_put]. rewrite H1. reflexivity.
Qed.

Lemma jis_zero_zero : forall t, jis_zero t (jzero t) = true.
Proof.
  apply (jty_mut (fun t => jis_zero t (jzero t) = true) (fun fs => jare_zero fs (jzeros fs) = true));
    try reflexivity.
  - intros n t IH. cbn [jzero jis_zero]. induction n as [|n IHn]; [reflexivity|].
    cbn [repeat forallb]. rewrite IH, IHn. reflexivity.
  - intros fs IH. exact IH.
  - intros name o t IH r IHr. cbn [jzeros jare_zero]. rewrite IH, IHr. reflexivity.
Qed.

Lemma jnullish_toks : forall t v, jnullish t v = true -> jtoks t v = [tok_null].
Proof.
  induction t; intros v H; destruct v; cbn [jnullish] in H; try discriminate; try reflexivity.
  cbn [jtoks]. apply IHt, H.
Qed.

(* the first byte of an encoding *)
Definition headp (t : jty) (v : jval) : Prop :=
  exists c tk toks, jtoks t v = (c :: tk) :: toks /\ is_ws c = false /\ c <> 93 /\ (jnullish t v = false -> c <> 110).
Lemma headp_null t v : jtoks t v = [tok_null] -> jnullish t v = true -> headp t v.
Proof.
  intros E N. exists 110, [117; 108; 108], []. rewrite E, N.
  split; [reflexivity|]. repeat split; discriminate.
Qed.
Lemma jtoks_head : forall t v, ty_ok t = true -> jwf t v = true -> headp t v.
Proof.
  induction t; intros v Hok Hwf; destruct v; cbn [jwf] in Hwf; try discriminate;
    try (apply headp_null; reflexivity).
  - exists (if b then 116 else 102), (if b then [114; 117; 101] else [97; 108; 115; 101]), [].
    destruct b; (split; [reflexivity|]); repeat split; discriminate.
  - cbn [ty_ok] in Hok. destruct (z_to_dec_head signed bits z Hok Hwf) as [c [tk [E [A [B C]]]]].
    exists c, tk, []. cbn [jtoks]. rewrite E. repeat split; auto.
  - exists 34, (std_escape_body true 0 s ++ [34]), []. repeat split; discriminate.
  - cbn [ty_ok] in Hok. destruct (IHt v Hok Hwf) as [c [tk [toks [E [A [B C]]]]]].
    exists c, tk, toks. cbn [jtoks jnullish]. repeat split; auto.
  - eexists 91, [], _. cbn [jtoks app]. repeat split; discriminate.
  - eexists 91, [], _. cbn [jtoks app]. repeat split; discriminate.
  - eexists 123, [], _. cbn [jtoks app]. repeat split; discriminate.
  - eexists 123, [], _. cbn [jtoks app]. repeat split; discriminate.
Qed.

(* separators *)
Definition sep_toks' (ms : list (list bytes)) : list bytes := concat (map (fun m => [44] :: m) ms).
Definition seq_toks (first : bool) (ms : list (list bytes)) : list bytes :=
  match ms with [] => [] | m :: r => (if first then m else [44] :: m) ++ sep_toks' r end.
Lemma sep_toks_seq ms : sep_toks ms = seq_toks true ms.
Proof.
  induction ms as [|m r IH]; [reflexivity|].
  destruct r as [|m' r'].
  - cbn. rewrite app_nil_r. reflexivity.
  - change (sep_toks (m :: m' :: r')) with (m ++ [[44]] ++ sep_toks (m' :: r')). rewrite IH.
    cbn [seq_toks sep_toks' map concat app]. reflexivity.
Qed.
Lemma seq_toks_false ms : seq_toks false ms = sep_toks' ms.
Proof. destruct ms; reflexivity. Qed.
Lemma sep_close ms cl : stopc cl -> exists c tk toks, sep_toks' ms ++ [[cl]] = (c :: tk) :: toks /\ stopc c.
Proof.
  intros H. destruct ms as [|m r].
  - exists cl, [], []. split; [reflexivity|exact H].
  - eexists 44, [], _. cbn [sep_toks' map concat app]. split; [reflexivity|left; reflexivity].
Qed.

(* ================================ the decoder on an encoding ================================ *)
Definition P (t : jty) : Prop :=
  ty_ok t = true -> forall v fuel doc rest,
    jwf t v = true -> inter (jtoks t v) doc rest -> stops rest -> (length doc < fuel)%nat ->
    dec t fuel (jzero t) (skip_ws doc) = DOk (jnorm t v, rest).
Fixpoint fall (Q : jty -> Prop) (fs : jfields) : Prop :=
  match fs with FNil => True | FCons _ _ t r => Q t /\ fall Q r end.

(* a value followed by more tokens: where it ends *)
Lemma value_then t v more doc rest c tk toks :
  ty_ok t = true -> jwf t v = true ->
  inter (jtoks t v ++ more) doc rest -> more = (c :: tk) :: toks -> stopc c ->
  exists mid, inter (jtoks t v) doc mid /\ inter more mid rest /\ stops mid /\ (length mid < length doc)%nat.
Proof.
  intros Hok Hwf Hi Hm Hc. apply inter_app in Hi. destruct Hi as [mid [H1 H2]].
  exists mid. split; [exact H1|]. split; [exact H2|]. split.
  - subst more. eapply inter_stops; eassumption.
  - destruct (jtoks_head t v Hok Hwf) as [c' [tk' [toks' [E [A _]]]]]. rewrite E in H1.
    destruct (next_tok _ _ _ _ _ H1 A) as [doc' [_ [Hi' L]]]. apply inter_len in Hi'. lia.
Qed.

(* ---------------- slices ---------------- *)
Lemma slice_loop_ok t' fuel : P t' -> ty_ok t' = true ->
  forall l first f doc rest, forallb (jwf t') l = true ->
    inter (seq_toks first (map (jtoks t') l) ++ [[93]]) doc rest -> stops rest ->
    (length doc < f)%nat -> (length doc < fuel)%nat ->
    dec_slice_loop (dec t' fuel (jzero t')) f first doc = DOk (map (jnorm t') l, rest).
Proof.
  intros IHP Hok. induction l as [|v l IH]; intros first f doc rest Hwf Hi Hst Hf Hfuel;
    (destruct f as [|f]; [lia|]).
  - cbn [map seq_toks app] in Hi.
    destruct (next_tok 93 [] [] doc rest Hi eq_refl) as [doc' [E [Hi' _]]]. inversion Hi'; subst.
    cbn [dec_slice_loop]. rewrite E. cbn [app]. rewrite starts_with_hit. reflexivity.
  - cbn [forallb] in Hwf. apply andb_true_iff in Hwf. destruct Hwf as [Hv Hl].
    assert (Common : forall docE, (length docE <= length doc)%nat ->
      inter (jtoks t' v ++ sep_toks' (map (jtoks t') l) ++ [[93]]) docE rest ->
      starts_with 93 (skip_ws docE) = None /\
      dbind (dec t' fuel (jzero t') (skip_ws docE)) (fun vr =>
        dbind (dec_slice_loop (dec t' fuel (jzero t')) f false (snd vr)) (fun lr => DOk (fst vr :: fst lr, snd lr)))
      = DOk (jnorm t' v :: map (jnorm t') l, rest)).
    { intros docE Le HiE.
      destruct (sep_close (map (jtoks t') l) 93 (or_intror (or_introl eq_refl))) as [c [tk [toks [Em Hc]]]].
      destruct (value_then t' v _ docE rest c tk toks Hok Hv HiE Em Hc) as [mid [H1 [H2 [Hs Lm]]]].
      destruct (jtoks_head t' v Hok Hv) as [c' [tk' [toks' [E' [A [B _]]]]]].
      split.
      - rewrite E' in H1. destruct (next_tok _ _ _ _ _ H1 A) as [d' [Es _]]. rewrite Es.
        apply starts_with_miss, B.
      - rewrite (IHP Hok v fuel docE mid Hv H1 Hs ltac:(lia)). cbn [dbind fst snd].
        rewrite <- seq_toks_false in H2.
        rewrite (IH false f mid rest Hl H2 Hst ltac:(lia) ltac:(lia)). reflexivity. }
    cbn [map seq_toks] in Hi. cbn [dec_slice_loop].
    destruct first.
    + rewrite <- app_assoc in Hi. destruct (Common doc (le_n _) Hi) as [C1 C2].
      rewrite C1. cbn [dbind]. exact C2.
    + rewrite <- app_assoc in Hi. cbn [app] in Hi.
      destruct (next_tok 44 [] _ doc rest Hi eq_refl) as [doc' [E [Hi' L]]].
      rewrite E. cbn [app]. rewrite starts_with_miss by discriminate. rewrite starts_with_hit. cbn [dbind].
      assert (Ld : (length doc' <= length doc)%nat) by (clear - L; lia). destruct (Common doc' Ld Hi') as [_ C2]. exact C2.
Qed.

(* ---------------- arrays ---------------- *)
Lemma arr_loop_ok t' fuel : P t' -> ty_ok t' = true ->
  forall l first doc rest, forallb (jwf t') l = true ->
    inter (seq_toks first (map (jtoks t') l) ++ [[93]]) doc rest -> stops rest ->
    (length doc < fuel)%nat ->
    dec_arr_loop (dec t' fuel) (jzero t') fuel first (repeat (jzero t') (length l)) doc
      = DOk (map (jnorm t') l, rest).
Proof.
  intros IHP Hok. induction l as [|v l IH]; intros first doc rest Hwf Hi Hst Hfuel.
  - cbn [map seq_toks app] in Hi.
    destruct (next_tok 93 [] [] doc rest Hi eq_refl) as [doc' [E [Hi' _]]]. inversion Hi'; subst.
    cbn [length repeat dec_arr_loop]. destruct fuel as [|fuel]; [lia|].
    cbn [dec_surplus]. rewrite E. cbn [app dbind map]. reflexivity.
  - cbn [forallb] in Hwf. apply andb_true_iff in Hwf. destruct Hwf as [Hv Hl].
    assert (Common : forall docE, (length docE <= length doc)%nat ->
      inter (jtoks t' v ++ sep_toks' (map (jtoks t') l) ++ [[93]]) docE rest ->
      starts_with 93 (skip_ws docE) = None /\
      dbind (dec t' fuel (jzero t') (skip_ws docE)) (fun vr =>
        dbind (dec_arr_loop (dec t' fuel) (jzero t') fuel false (repeat (jzero t') (length l)) (snd vr))
              (fun lr => DOk (fst vr :: fst lr, snd lr)))
      = DOk (jnorm t' v :: map (jnorm t') l, rest)).
    { intros docE Le HiE.
      destruct (sep_close (map (jtoks t') l) 93 (or_intror (or_introl eq_refl))) as [c [tk [toks [Em Hc]]]].
      destruct (value_then t' v _ docE rest c tk toks Hok Hv HiE Em Hc) as [mid [H1 [H2 [Hs Lm]]]].
      destruct (jtoks_head t' v Hok Hv) as [c' [tk' [toks' [E' [A [B _]]]]]].
      split.
      - rewrite E' in H1. destruct (next_tok _ _ _ _ _ H1 A) as [d' [Es _]]. rewrite Es.
        apply starts_with_miss, B.
      - rewrite (IHP Hok v fuel docE mid Hv H1 Hs ltac:(lia)). cbn [dbind fst snd].
        rewrite <- seq_toks_false in H2.
        rewrite (IH false mid rest Hl H2 Hst ltac:(lia)). reflexivity. }
    cbn [map seq_toks] in Hi. cbn [length repeat dec_arr_loop].
    destruct first.
    + rewrite <- app_assoc in Hi. destruct (Common doc (le_n _) Hi) as [C1 C2].
      rewrite C1. exact C2.
    + rewrite <- app_assoc in Hi. cbn [app] in Hi.
      destruct (next_tok 44 [] _ doc rest Hi eq_refl) as [doc' [E [Hi' L]]].
      rewrite E. cbn [app]. rewrite starts_with_miss by discriminate. rewrite starts_with_hit.
      assert (Ld : (length doc' <= length doc)%nat) by (clear - L; lia). destruct (Common doc' Ld Hi') as [_ C2]. exact C2.
Qed.

(* ---------------- maps ---------------- *)
Definition ent (t' : jty) (kv : bytes * jval) : list bytes := [std_escape true (fst kv); [58]] ++ jtoks t' (snd kv).
Definition nent (t' : jty) (kv : bytes * jval) : bytes * jval := (fst kv, jnorm t' (snd kv)).

Lemma key_ok_inv k : key_ok k = true -> wfb k = true /\ sanitize k = k.
Proof.
  unfold key_ok. intros H. apply andb_true_iff in H. destruct H as [H1 H2].
  split; [exact H1|]. apply bytes_eqb_eq, H2.
Qed.

Lemma map_loop_ok t' fuel : P t' -> ty_ok t' = true ->
  forall es first f doc rest m0,
    forallb key_ok (map fst es) = true -> keys_sorted (map fst es) = true ->
    forallb (fun kv => jwf t' (snd kv)) es = true ->
    (forall k, In k (map fst es) -> forallb (fun k0 => bytes_ltb k0 k) (map fst m0) = true) ->
    inter (seq_toks first (map (ent t') es) ++ [[125]]) doc rest -> stops rest ->
    (length doc < f)%nat -> (length doc < fuel)%nat ->
    dec_map_loop (dec t' fuel (jzero t')) f first m0 doc = DOk (m0 ++ map (nent t') es, rest).
Proof.
  intros IHP Hok. induction es as [|[k v] es IH]; intros first f doc rest m0 Hk Hs Hwf Hlt Hi Hst Hf Hfuel;
    (destruct f as [|f]; [lia|]).
  - cbn [map seq_toks app] in Hi.
    destruct (next_tok 125 [] [] doc rest Hi eq_refl) as [doc' [E [Hi' _]]]. inversion Hi'; subst.
    cbn [dec_map_loop]. rewrite E. cbn [app]. rewrite starts_with_hit. rewrite app_nil_r. reflexivity.
  - cbn [map fst forallb] in Hk. apply andb_true_iff in Hk. destruct Hk as [Hk1 Hk2].
    cbn [map fst keys_sorted] in Hs. apply andb_true_iff in Hs. destruct Hs as [Hs1 Hs2].
    cbn [forallb snd] in Hwf. apply andb_true_iff in Hwf. destruct Hwf as [Hv Hl].
    destruct (key_ok_inv k Hk1) as [Kw Ks].
    assert (Common : forall docE, (length docE <= length doc)%nat ->
      inter (ent t' (k, v) ++ sep_toks' (map (ent t') es) ++ [[125]]) docE rest ->
      starts_with 125 (skip_ws docE) = None /\
      match uq_lit (skip_ws docE) with
      | None => DErr
      | Some (k0, r1) =>
        match starts_with 58 (skip_ws r1) with
        | Some r2 =>
          dbind (dec t' fuel (jzero t') (skip_ws r2)) (fun vr =>
            dec_map_loop (dec t' fuel (jzero t')) f false (map_put k0 (fst vr) m0) (snd vr))
        | None => DErr
        end
      end = DOk (m0 ++ nent t' (k, v) :: map (nent t') es, rest)).
    { intros docE Le HiE. unfold ent in HiE at 1. cbn [fst snd app] in HiE.
      assert (Hq : std_escape true k = 34 :: (std_escape_body true 0 k ++ [34])) by reflexivity.
      rewrite Hq in HiE.
      destruct (next_tok 34 _ _ docE rest HiE eq_refl) as [d1 [E1 [Hi1 L1]]].
      destruct (next_tok 58 [] _ d1 rest Hi1 eq_refl) as [d2 [E2 [Hi2 L2]]].
      destruct (sep_close (map (ent t') es) 125 (or_intror (or_intror eq_refl))) as [c [tk [toks [Em Hc]]]].
      destruct (value_then t' v _ d2 rest c tk toks Hok Hv Hi2 Em Hc) as [mid [H1 [H2 [Hsm Lm]]]].
      assert (F1 : (length d2 < fuel)%nat) by (clear - L1 L2 Le Hfuel; lia).
      assert (F2 : (length mid < f)%nat) by (clear - L1 L2 Le Lm Hf; lia).
      assert (F3 : (length mid < fuel)%nat) by (clear - L1 L2 Le Lm Hfuel; lia).
      split.
      - rewrite E1. apply starts_with_miss. discriminate.
      - rewrite E1. change (34 :: (std_escape_body true 0 k ++ [34]) ++ d1) with (std_escape true k ++ d1).
        rewrite (unquote_escape true k d1 Kw). rewrite Ks.
        rewrite E2. cbn [app]. rewrite starts_with_hit.
        rewrite (IHP Hok v fuel d2 mid Hv H1 Hsm F1). cbn [dbind fst snd].
        rewrite (map_put_end k (jnorm t' v) m0 (Hlt k (or_introl eq_refl))).
        rewrite <- seq_toks_false in H2.
        rewrite (IH false f mid rest (m0 ++ [(k, jnorm t' v)]) Hk2 Hs2 Hl); try assumption.
        + rewrite <- app_assoc. reflexivity.
        + intros k' Hin. rewrite map_app, forallb_app. cbn [map fst forallb].
          rewrite (Hlt k' (or_intror Hin)). cbn [andb]. rewrite andb_true_r.
          rewrite forallb_forall in Hs1. apply Hs1, Hin. }
    cbn [map seq_toks] in Hi. cbn [dec_map_loop].
    destruct first.
    + rewrite <- app_assoc in Hi. destruct (Common doc (le_n _) Hi) as [C1 C2].
      rewrite C1. cbn [dbind]. exact C2.
    + rewrite <- app_assoc in Hi. cbn [app] in Hi.
      destruct (next_tok 44 [] _ doc rest Hi eq_refl) as [doc' [E [Hi' L]]].
      rewrite E. cbn [app]. rewrite starts_with_miss by discriminate. rewrite starts_with_hit. cbn [dbind].
      assert (Ld : (length doc' <= length doc)%nat) by (clear - L; lia). destruct (Common doc' Ld Hi') as [_ C2]. exact C2.
Qed.

(* ---------------- structs ---------------- *)
Fixpoint fapp (a b : jfields) : jfields :=
  match a with FNil => b | FCons n o t r => FCons n o t (fapp r b) end.
Fixpoint flen (a : jfields) : nat := match a with FNil => O | FCons _ _ _ r => S (flen r) end.
Lemma fapp_snoc pre n o t r : fapp (fapp pre (FCons n o t FNil)) r = fapp pre (FCons n o t r).
Proof. induction pre as [|n' o' t' pre IH]; cbn [fapp]; [reflexivity|]. rewrite IH. reflexivity. Qed.
Lemma flen_snoc pre n o t : flen (fapp pre (FCons n o t FNil)) = S (flen pre).
Proof. induction pre as [|n' o' t' pre IH]; cbn [fapp flen]; [reflexivity|]. rewrite IH. reflexivity. Qed.
Lemma jnames_fapp a b : jnames (fapp a b) = jnames a ++ jnames b.
Proof. induction a as [|n o t a IH]; cbn [fapp jnames app]; [reflexivity|]. rewrite IH. reflexivity. Qed.

Lemma distinct_mid pre name rest_names :
  distinct (pre ++ name :: rest_names) = true -> existsb (bytes_eqb name) pre = false.
Proof.
  induction pre as [|p pre IH]; intros H; [reflexivity|].
  cbn [app distinct] in H. apply andb_true_iff in H. destruct H as [H1 H2].
  cbn [existsb]. rewrite (IH H2), orb_false_r.
  apply negb_true_iff in H1. rewrite existsb_app in H1. apply orb_false_iff in H1. destruct H1 as [_ H1].
  cbn [existsb] in H1. apply orb_false_iff in H1. destruct H1 as [H1 _].
  apply bytes_eqb_sym_false, H1.
Qed.

Lemma dec_field_hit fuel name o t r : forall pre dvals c cr b,
  length dvals = flen pre -> existsb (bytes_eqb name) (jnames pre) = false ->
  dec_field (fapp pre (FCons name o t r)) fuel name (dvals ++ c :: cr) b =
    if negb (jmergeable t) && negb (jis_zero t c) then DOut
    else dbind (dec t fuel c b) (fun vr => DOk (Some (dvals ++ fst vr :: cr, snd vr))).
Proof.
  induction pre as [|n' o' t' pre IH]; intros dvals c cr b Hl Hn.
  - destruct dvals; [|discriminate]. cbn [fapp app dec_field]. rewrite bytes_eqb_refl. reflexivity.
  - destruct dvals as [|d dvals]; [discriminate|]. cbn [flen length] in Hl.
    cbn [jnames existsb] in Hn. apply orb_false_iff in Hn. destruct Hn as [Hn1 Hn2].
    cbn [fapp app dec_field]. rewrite Hn1. rewrite (IH dvals c cr b ltac:(lia) Hn2).
    destruct (negb (jmergeable t) && negb (jis_zero t c)); [reflexivity|].
    destruct (dec t fuel c b) as [[v' r']| |]; reflexivity.
Qed.

Lemma resolve_exact names k : existsb (bytes_eqb k) names = true -> resolve_key names k = Some k.
Proof. intros H. unfold resolve_key. rewrite H. reflexivity. Qed.
Lemma resolve_unknown names k : existsb (bytes_eqb k) names = false -> fold_hit names k = false ->
  resolve_key names k = Some k.
Proof.
  unfold resolve_key, fold_hit. intros H1 H2. apply orb_false_iff in H2. destruct H2 as [H2 H3].
  rewrite H1, H2.
  destruct (find (fun n => bytes_eqb (map lower n) (map lower k)) names) as [n|] eqn:F; [|reflexivity].
  apply find_some in F. destruct F as [Fi Fe].
  assert (existsb (fun n => bytes_eqb (map lower n) (map lower k)) names = true).
  { apply existsb_exists. exists n. split; assumption. }
  congruence.
Qed.

Lemma struct_loop_ok fs_all fuel : distinct (jnames fs_all) = true ->
  forall fs pre l dvals first f doc rest,
    fs_all = fapp pre fs -> fields_ok fs = true -> fall P fs -> jwfs fs l = true -> length dvals = flen pre ->
    inter (seq_toks first (jmembers fs l) ++ [[125]]) doc rest -> stops rest ->
    (length doc < f)%nat -> (length doc < fuel)%nat ->
    dec_struct_loop (dec_field fs_all fuel) (jnames fs_all) fuel f first (dvals ++ jzeros fs) doc
      = DOk (dvals ++ jnorms fs l, rest).
Proof.
  intros Hdis. induction fs as [|name o t r IH];
    intros pre l dvals first f doc rest Hall Hfok HP Hwf Hlen Hi Hst Hf Hfuel.
  - destruct l; [|discriminate]. cbn [jmembers seq_toks app] in Hi.
    destruct f as [|f]; [lia|].
    destruct (next_tok 125 [] [] doc rest Hi eq_refl) as [doc' [E [Hi' _]]].
    assert (doc' = rest) by (inversion Hi'; reflexivity). subst doc'.
    cbn [dec_struct_loop jzeros jnorms]. rewrite E. cbn [app]. rewrite starts_with_hit. reflexivity.
  - destruct l as [|v l]; [discriminate|].
    cbn [jwfs] in Hwf. apply andb_true_iff in Hwf. destruct Hwf as [Hv Hl].
    cbn [fields_ok] in Hfok. apply andb_true_iff in Hfok. destruct Hfok as [Hfok Hrok].
    apply andb_true_iff in Hfok. destruct Hfok as [Hname Htok].
    cbn [fall] in HP. destruct HP as [HPt HPr].
    cbn [jmembers] in Hi. cbn [jzeros jnorms].
    destruct (o && jempty v) eqn:Om.
    + (* omitted *)
      cbn [app] in Hi.
      replace (dvals ++ jzero t :: jzeros r) with ((dvals ++ [jzero t]) ++ jzeros r)
        by (rewrite <- app_assoc; reflexivity).
      replace (dvals ++ jzero t :: jnorms r l) with ((dvals ++ [jzero t]) ++ jnorms r l)
        by (rewrite <- app_assoc; reflexivity).
      apply (IH (fapp pre (FCons name o t FNil))); try assumption.
      * rewrite fapp_snoc. exact Hall.
      * rewrite app_length, flen_snoc. cbn [length]. clear - Hlen. lia.
    + (* written *)
      destruct f as [|f]; [clear - Hf; lia|].
      assert (Hnm : existsb (bytes_eqb name) (jnames pre) = false).
      { rewrite Hall, jnames_fapp in Hdis. cbn [jnames] in Hdis. eapply distinct_mid, Hdis. }
      assert (Hin : existsb (bytes_eqb name) (jnames fs_all) = true).
      { rewrite Hall, jnames_fapp, existsb_app. cbn [jnames existsb]. rewrite bytes_eqb_refl. apply orb_true_r. }
      assert (Common : forall docE, (length docE <= length doc)%nat ->
        inter (([quote name; [58]] ++ jtoks t v) ++ sep_toks' (jmembers r l) ++ [[125]]) docE rest ->
        starts_with 125 (skip_ws docE) = None /\
        match uq_lit (skip_ws docE) with
        | None => DErr
        | Some (k, r1) =>
          match starts_with 58 (skip_ws r1) with
          | Some r2 =>
            match resolve_key (jnames fs_all) k with
            | None => DOut
            | Some k' =>
              dbind (dec_field fs_all fuel k' (dvals ++ jzero t :: jzeros r) (skip_ws r2)) (fun o0 =>
                match o0 with
                | Some (curs', r3) => dec_struct_loop (dec_field fs_all fuel) (jnames fs_all) fuel f false curs' r3
                | None =>
                  match g_value fuel (skip_ws r2) with
                  | None => DErr
                  | Some r3 => dec_struct_loop (dec_field fs_all fuel) (jnames fs_all) fuel f false
                                 (dvals ++ jzero t :: jzeros r) r3
                  end
                end)
            end
          | None => DErr
          end
        end = DOk (dvals ++ jnorm t v :: jnorms r l, rest)).
      { intros docE Le HiE. cbn [app] in HiE.
        assert (Hq : quote name = 34 :: (name ++ [34])) by reflexivity.
        rewrite Hq in HiE.
        destruct (next_tok 34 _ _ docE rest HiE eq_refl) as [d1 [E1 [Hi1 L1]]].
        destruct (next_tok 58 [] _ d1 rest Hi1 eq_refl) as [d2 [E2 [Hi2 L2]]].
        destruct (sep_close (jmembers r l) 125 (or_intror (or_intror eq_refl))) as [c [tk [toks [Em Hc]]]].
        destruct (value_then t v _ d2 rest c tk toks Htok Hv Hi2 Em Hc) as [mid [H1 [H2 [Hsm Lm]]]].
        assert (F1 : (length d2 < fuel)%nat) by (clear - L1 L2 Le Hfuel; lia).
        assert (F2 : (length mid < f)%nat) by (clear - L1 L2 Le Lm Hf; lia).
        assert (F3 : (length mid < fuel)%nat) by (clear - L1 L2 Le Lm Hfuel; lia).
        split.
        - rewrite E1. apply starts_with_miss. discriminate.
        - rewrite E1. change (34 :: (name ++ [34]) ++ d1) with (quote name ++ d1).
          rewrite (uq_quote name d1 Hname).
          rewrite E2. cbn [app]. rewrite starts_with_hit.
          rewrite (resolve_exact _ _ Hin).
          rewrite Hall at 1. rewrite (dec_field_hit fuel name o t r pre dvals (jzero t) (jzeros r) _ Hlen Hnm).
          rewrite jis_zero_zero. cbn [negb]. rewrite andb_false_r.
          rewrite (HPt Htok v fuel d2 mid Hv H1 Hsm F1). cbn [dbind fst snd].
          replace (dvals ++ jnorm t v :: jzeros r) with ((dvals ++ [jnorm t v]) ++ jzeros r)
            by (rewrite <- app_assoc; reflexivity).
          replace (dvals ++ jnorm t v :: jnorms r l) with ((dvals ++ [jnorm t v]) ++ jnorms r l)
            by (rewrite <- app_assoc; reflexivity).
          rewrite <- seq_toks_false in H2.
          apply (IH (fapp pre (FCons name o t FNil))); try assumption.
          + rewrite fapp_snoc. exact Hall.
          + rewrite app_length, flen_snoc. cbn [length]. clear - Hlen. lia. }
      cbn [app seq_toks] in Hi. cbn [dec_struct_loop].
      destruct first.
      * rewrite <- app_assoc in Hi. destruct (Common doc (le_n _) Hi) as [C1 C2].
        rewrite C1. cbn [dbind]. exact C2.
      * rewrite <- app_assoc in Hi. cbn [app] in Hi.
        destruct (next_tok 44 [] _ doc rest Hi eq_refl) as [doc' [E [Hi' L]]].
        rewrite E. cbn [app]. rewrite starts_with_miss by discriminate. rewrite starts_with_hit. cbn [dbind].
        assert (Ld : (length doc' <= length doc)%nat) by (clear - L; lia). destruct (Common doc' Ld Hi') as [_ C2]. exact C2.
Qed.

(* ---------------- every type ---------------- *)
Lemma null_case t fuel doc rest : inter [tok_null] doc rest ->
  (forall r, dec t fuel (jzero t) (tok_null ++ r) = DOk (VNil, r)) ->
  dec t fuel (jzero t) (skip_ws doc) = DOk (VNil, rest).
Proof.
  intros Hi H. destruct (inter_single _ _ _ Hi) as [w [Hw E]]. subst doc.
  rewrite skip_ws_wsb by exact Hw. change (tok_null ++ rest) with (110 :: [117; 108; 108] ++ rest).
  rewrite skip_ws_nws by reflexivity. apply (H rest).
Qed.

Lemma dec_all : forall t, P t.
Proof.
  apply (jty_mut P (fall P)).
  - (* bool *)
    intros _ v fuel doc rest Hwf Hi Hst Hfuel. destruct v; try discriminate.
    cbn [jtoks] in Hi. destruct (inter_single _ _ _ Hi) as [w [Hw E]]. subst doc.
    rewrite skip_ws_wsb by exact Hw. destruct b; reflexivity.
  - (* integers *)
    intros s w Hok v fuel doc rest Hwf Hi Hst Hfuel. destruct v; try discriminate.
    cbn [ty_ok] in Hok. cbn [jwf] in Hwf. cbn [jtoks] in Hi.
    destruct (inter_single _ _ _ Hi) as [ww [Hw E]]. subst doc.
    rewrite skip_ws_wsb by exact Hw.
    destruct (z_to_dec_head s w z Hok Hwf) as [c [tk [E [A [B _]]]]].
    rewrite E. cbn [app]. rewrite skip_ws_nws by exact A. cbn [dec]. rewrite nullp_ne by exact B.
    change (c :: tk ++ rest) with ((c :: tk) ++ rest). rewrite <- E.
    apply dec_int_ok; assumption.
  - (* strings *)
    intros _ v fuel doc rest Hwf Hi Hst Hfuel. destruct v; try discriminate.
    cbn [jwf] in Hwf. cbn [jtoks] in Hi.
    destruct (inter_single _ _ _ Hi) as [ww [Hw E]]. subst doc.
    rewrite skip_ws_wsb by exact Hw.
    assert (Hq : std_escape true s = 34 :: (std_escape_body true 0 s ++ [34])) by reflexivity.
    rewrite Hq at 1. cbn [app]. rewrite skip_ws_nws by reflexivity. cbn [dec nullp].
    change (34 :: (std_escape_body true 0 s ++ [34]) ++ rest) with (std_escape true s ++ rest).
    apply dec_str_ok, Hwf.
  - (* pointers *)
    intros t IH Hok v fuel doc rest Hwf Hi Hst Hfuel. cbn [ty_ok] in Hok.
    destruct v; try discriminate.
    + cbn [jtoks] in Hi. cbn [jnorm]. apply null_case; [exact Hi|]. intros r. reflexivity.
    + cbn [jwf] in Hwf. cbn [jtoks] in Hi. cbn [jnorm].
      destruct (jnullish t v) eqn:N.
      * rewrite (jnullish_toks t v N) in Hi. apply null_case; [exact Hi|]. intros r. reflexivity.
      * destruct (jtoks_head t v Hok Hwf) as [c [tk [toks [E [A [_ C]]]]]].
        pose proof Hi as Hi0. rewrite E in Hi0.
        destruct (next_tok _ _ _ _ _ Hi0 A) as [d' [Es _]].
        cbn [dec jzero]. rewrite Es at 1. rewrite nullp_ne by exact (C N).
        rewrite (IH Hok v fuel doc rest Hwf Hi Hst Hfuel). reflexivity.
  - (* slices *)
    intros t IH Hok v fuel doc rest Hwf Hi Hst Hfuel. cbn [ty_ok] in Hok.
    apply andb_true_iff in Hok. destruct Hok as [Hok _].
    destruct v; try discriminate.
    + cbn [jtoks] in Hi. cbn [jnorm]. apply null_case; [exact Hi|]. intros r. reflexivity.
    + cbn [jwf] in Hwf. cbn [jtoks] in Hi. cbn [jnorm app] in *.
      destruct (next_tok 91 [] _ doc rest Hi eq_refl) as [d1 [E1 [Hi1 L1]]].
      rewrite E1. cbn [dec nullp app]. rewrite starts_with_hit.
      rewrite sep_toks_seq in Hi1.
      assert (F1 : (length d1 < fuel)%nat) by (clear - L1 Hfuel; lia).
      rewrite (slice_loop_ok t fuel IH Hok l true fuel d1 rest Hwf Hi1 Hst F1 F1). reflexivity.
  - (* arrays *)
    intros n t IH Hok v fuel doc rest Hwf Hi Hst Hfuel. cbn [ty_ok] in Hok.
    destruct v; try discriminate.
    cbn [jwf] in Hwf. apply andb_true_iff in Hwf. destruct Hwf as [Hn Hwf]. apply Nat.eqb_eq in Hn.
    cbn [jtoks] in Hi. cbn [jnorm app] in *.
    destruct (next_tok 91 [] _ doc rest Hi eq_refl) as [d1 [E1 [Hi1 L1]]].
    rewrite E1. cbn [dec jzero nullp app]. rewrite starts_with_hit.
    rewrite sep_toks_seq in Hi1. rewrite <- Hn.
    assert (F1 : (length d1 < fuel)%nat) by (clear - L1 Hfuel; lia).
    rewrite (arr_loop_ok t fuel IH Hok l true d1 rest Hwf Hi1 Hst F1). reflexivity.
  - (* maps *)
    intros t IH Hok v fuel doc rest Hwf Hi Hst Hfuel. cbn [ty_ok] in Hok.
    destruct v; try discriminate.
    + cbn [jtoks] in Hi. cbn [jnorm]. apply null_case; [exact Hi|]. intros r. reflexivity.
    + cbn [jwf] in Hwf. apply andb_true_iff in Hwf. destruct Hwf as [Hk Hwf].
      apply andb_true_iff in Hk. destruct Hk as [Hk Hs].
      cbn [jtoks] in Hi. rewrite (sort_kv_sorted m Hs) in Hi. cbn [jnorm app] in *.
      destruct (next_tok 123 [] _ doc rest Hi eq_refl) as [d1 [E1 [Hi1 L1]]].
      rewrite E1. cbn [dec jzero nullp app]. rewrite starts_with_hit.
      rewrite sep_toks_seq in Hi1.
      assert (F1 : (length d1 < fuel)%nat) by (clear - L1 Hfuel; lia).
      rewrite (map_loop_ok t fuel IH Hok m true fuel d1 rest [] Hk Hs Hwf (fun _ _ => eq_refl) Hi1 Hst F1 F1).
      reflexivity.
  - (* structs *)
    intros fs IH Hok v fuel doc rest Hwf Hi Hst Hfuel. cbn [ty_ok] in Hok.
    apply andb_true_iff in Hok. destruct Hok as [Hfok Hdis].
    destruct v; try discriminate.
    cbn [jwf] in Hwf. cbn [jtoks] in Hi. cbn [jnorm app] in *.
    destruct (next_tok 123 [] _ doc rest Hi eq_refl) as [d1 [E1 [Hi1 L1]]].
    rewrite E1. cbn [dec jzero nullp app]. rewrite starts_with_hit.
    rewrite sep_toks_seq in Hi1.
    assert (F1 : (length d1 < fuel)%nat) by (clear - L1 Hfuel; lia).
    pose proof (struct_loop_ok fs fuel Hdis fs FNil l [] true fuel d1 rest eq_refl Hfok IH Hwf eq_refl Hi1 Hst F1 F1) as HS.
    cbn [app] in HS. rewrite HS. reflexivity.
  - exact I.
  - intros name o t IHt r IHr. split; assumption.
Qed.

(* ================================ the statements ================================ *)
Lemma render_inter ws : ws_ok ws -> forall toks k rest,
  exists body, render ws k toks = body ++ ws (k + length toks)%nat /\ inter toks (body ++ rest) rest.
Proof.
  intros Hws. induction toks as [|tok toks IH]; intros k rest.
  - exists []. cbn [render length app]. rewrite Nat.add_0_r. split; [reflexivity|constructor].
  - destruct (IH (S k) rest) as [body [E Hi]].
    exists (ws k ++ tok ++ body). cbn [render length]. rewrite E.
    replace (k + S (length toks))%nat with (S k + length toks)%nat by lia.
    split; [rewrite <- !app_assoc; reflexivity|].
    rewrite <- !app_assoc. constructor; [apply Hws|exact Hi].
Qed.

Lemma wsb_stops w : wsb w -> stops w.
Proof.
  destruct w as [|c w]; [intros _; exact I|]. unfold wsb. cbn [forallb]. intros H.
  apply andb_true_iff in H. apply is_ws_stops, H.
Qed.

Lemma tree_dec_ws_roundtrip : tree_dec_ws_roundtrip_statement.
Proof.
  intros ws t v fuel Hws Hok Hwf Hfuel. unfold jenc_ws in *.
  destruct (render_inter ws Hws (jtoks t v) 0%nat (ws (0 + length (jtoks t v))%nat)) as [body [E Hi]].
  rewrite E in *. unfold jdec.
  rewrite (dec_all t Hok v fuel _ _ Hwf Hi (wsb_stops _ (Hws _)) Hfuel).
  rewrite skip_ws_all by apply Hws. reflexivity.
Qed.

Lemma render_no_ws toks : forall k, render no_ws k toks = concat toks.
Proof. induction toks as [|tok toks IH]; intros k; [reflexivity|]. cbn [render concat no_ws app]. rewrite IH. reflexivity. Qed.
Lemma jenc_no_ws : jenc_no_ws_statement.
Proof. intros t v. unfold jenc, jenc_ws. rewrite render_no_ws. reflexivity. Qed.
Lemma ws_ok_no_ws : ws_ok no_ws.
Proof. intros k. reflexivity. Qed.

Lemma tree_roundtrip : tree_roundtrip_statement.
Proof.
  intros t v fuel Hok Hwf Hfuel. rewrite jenc_no_ws in *.
  apply tree_dec_ws_roundtrip; try assumption. apply ws_ok_no_ws.
Qed.

Lemma tree_dec_ws : tree_dec_ws_statement.
Proof.
  intros ws t v Hws Hok Hwf.
  rewrite (tree_dec_ws_roundtrip ws t v _ Hws Hok Hwf) by (unfold jdec_fuel; lia).
  rewrite (tree_roundtrip t v _ Hok Hwf) by (unfold jdec_fuel; lia). reflexivity.
Qed.

Lemma tree_enc_injective : tree_enc_injective_statement.
Proof.
  intros t v1 v2 Hok H1 H2 E.
  pose proof (tree_roundtrip t v1 (jdec_fuel (jenc t v1)) Hok H1 ltac:(unfold jdec_fuel; lia)) as R1.
  pose proof (tree_roundtrip t v2 (jdec_fuel (jenc t v2)) Hok H2 ltac:(unfold jdec_fuel; lia)) as R2.
  rewrite E in R1. rewrite R1 in R2. congruence.
Qed.

(* the normalisation is the identity on stable values *)
Lemma map_id_forall {A} (f : A -> A) (l : list A) : (forall x, In x l -> f x = x) -> map f l = l.
Proof.
  induction l as [|x l IH]; intros H; [reflexivity|]. cbn [map].
  rewrite (H x (or_introl eq_refl)), IH; [reflexivity|]. intros y Hy. apply H. right. exact Hy.
Qed.

Lemma jempty_zero : forall t v, jwf t v = true -> jempty v = true -> empty_non_nil t v = false -> jzero t = v.
Proof.
  intros t v Hwf He Hn. destruct t; destruct v; cbn [jwf] in Hwf; try discriminate; cbn [jempty] in He;
    cbn [jzero].
  - destruct b; [discriminate|reflexivity].
  - f_equal. lia.
  - destruct s; [reflexivity|discriminate].
  - reflexivity.
  - reflexivity.
  - destruct l; [discriminate Hn|discriminate He].
  - destruct l; [|discriminate He]. apply andb_true_iff in Hwf. destruct Hwf as [Hl _].
    apply Nat.eqb_eq in Hl. cbn [length] in Hl. subst n. reflexivity.
  - reflexivity.
  - destruct m; [discriminate Hn|discriminate He].
Qed.

Lemma tree_norm_id : tree_norm_id_statement.
Proof.
  unfold tree_norm_id_statement.
  apply (jty_mut (fun t => forall v, jwf t v = true -> jstable t v = true -> jnorm t v = v)
                 (fun fs => forall l, jwfs fs l = true -> jstables fs l = true -> jnorms fs l = l)).
  - intros v _ _. destruct v; reflexivity.
  - intros s w v _ _. destruct v; reflexivity.
  - intros v Hwf Hs. destruct v; try reflexivity. cbn [jstable] in Hs. cbn [jnorm].
    apply bytes_eqb_eq in Hs. rewrite Hs. reflexivity.
  - intros t IH v Hwf Hs. destruct v; try reflexivity. cbn [jwf] in Hwf. cbn [jstable] in Hs.
    apply andb_true_iff in Hs. destruct Hs as [Hn Hs]. apply negb_true_iff in Hn.
    cbn [jnorm]. rewrite Hn, (IH v Hwf Hs). reflexivity.
  - intros t IH v Hwf Hs. destruct v; try reflexivity. cbn [jwf] in Hwf. cbn [jstable] in Hs. cbn [jnorm].
    f_equal. apply map_id_forall. intros x Hx. rewrite forallb_forall in Hwf, Hs. apply IH; auto.
  - intros n t IH v Hwf Hs. destruct v; try reflexivity. cbn [jwf] in Hwf. cbn [jstable] in Hs. cbn [jnorm].
    apply andb_true_iff in Hwf. destruct Hwf as [_ Hwf].
    f_equal. apply map_id_forall. intros x Hx. rewrite forallb_forall in Hwf, Hs. apply IH; auto.
  - intros t IH v Hwf Hs. destruct v; try reflexivity. cbn [jwf] in Hwf. cbn [jstable] in Hs. cbn [jnorm].
    apply andb_true_iff in Hwf. destruct Hwf as [_ Hwf].
    f_equal. apply map_id_forall. intros [k x] Hx. rewrite forallb_forall in Hwf, Hs. cbn [fst snd].
    f_equal. apply IH; [apply (Hwf (k, x) Hx)|apply (Hs (k, x) Hx)].
  - intros fs IH v Hwf Hs. destruct v; try reflexivity. cbn [jwf] in Hwf. cbn [jstable] in Hs. cbn [jnorm].
    f_equal. apply IH; assumption.
  - intros l _ _. reflexivity.
  - intros name o t IHt r IHr l Hwf Hs. destruct l as [|v l]; [reflexivity|].
    cbn [jwfs] in Hwf. apply andb_true_iff in Hwf. destruct Hwf as [Hv Hl].
    cbn [jstables] in Hs. apply andb_true_iff in Hs. destruct Hs as [Hs Hsl].
    apply andb_true_iff in Hs. destruct Hs as [Ho Hsv]. apply negb_true_iff in Ho.
    cbn [jnorms]. rewrite (IHr l Hl Hsl). f_equal.
    destruct (o && jempty v) eqn:Om.
    + apply andb_true_iff in Om. destruct Om as [Oo Oe]. rewrite Oo in Ho. cbn [andb] in Ho.
      apply jempty_zero; assumption.
    + apply IHt; assumption.
Qed.

Lemma tree_roundtrip_id : tree_roundtrip_id_statement.
Proof.
  intros t v Hok Hwf Hs. rewrite (tree_roundtrip t v _ Hok Hwf) by (unfold jdec_fuel; lia).
  rewrite (tree_norm_id t v Hwf Hs). reflexivity.
Qed.

Lemma tree_enc_injective_id : tree_enc_injective_id_statement.
Proof.
  intros t v1 v2 Hok H1 H2 S1 S2 E. pose proof (tree_enc_injective t v1 v2 Hok H1 H2 E) as N.
  rewrite (tree_norm_id t v1 H1 S1), (tree_norm_id t v2 H2 S2) in N. exact N.
Qed.

(* null *)
Lemma tree_null_inner : tree_null_inner_statement.
Proof.
  intros t. induction t; intros fuel cur rest; try reflexivity.
  cbn [dec jnull]. change (nullp (tok_null ++ rest)) with (Some rest). cbv iota.
  destruct cur; try reflexivity. destruct t; try reflexivity.
  rewrite IHt. reflexivity.
Qed.

Lemma jnull_zero : forall t, jnull t (jzero t) = jzero t.
Proof. destruct t; reflexivity. Qed.

Lemma tree_null : tree_null_statement.
Proof.
  intros t fuel w1 w2 H1 H2. unfold jdec. rewrite skip_ws_wsb by exact H1.
  change (tok_null ++ w2) with (110 :: [117; 108; 108] ++ w2). rewrite skip_ws_nws by reflexivity.
  change (110 :: [117; 108; 108] ++ w2) with (tok_null ++ w2).
  rewrite tree_null_inner, jnull_zero. rewrite skip_ws_all by exact H2. reflexivity.
Qed.

(* ================================ link to the translated integer scanners ================================ *)
Lemma tree_dec_int_link : tree_dec_int_link_statement.
Proof.
  intros s w fuel d neg ds rest Hw Hd Hn Hst Hlen Hfuel b.
  assert (Hok : ity_ok (ity_of s w)).
  { unfold bits_ok in Hw. destruct s; cbn [ity_of ity_ok]; lia. }
  subst b.
  rewrite (decode_int_exact (ity_of s w) fuel d neg ds rest Hok Hd Hn Hst Hlen Hfuel).
  assert (Hr' : match rest with [] => True | c :: _ => is_digit c = false end).
  { destruct rest; [exact I|]. apply Hst. }
  destruct (take_digits_app ds rest Hd Hr') as [TD SD].
  assert (Hrc : match rest with c :: _ => (c =? 46) || (c =? 101) || (c =? 69) | [] => false end = false).
  { destruct rest as [|c r']; [reflexivity|]. cbn in Hst. lia. }
  assert (Hin : forall v, int_in s w v = in_ity (ity_of s w) v).
  { intros v. destruct s; reflexivity. }
  unfold dec_int. destruct neg.
  - cbn [app]. rewrite starts_with_hit, TD, SD. cbn [andb]. rewrite (nlz_b ds Hn). cbn [negb]. rewrite Hrc.
    destruct s; cbn [negb ity_of].
    + rewrite Hin. cbn [ity_of]. destruct (in_ity (ISigned w) (- digits_value ds)); reflexivity.
    + reflexivity.
  - cbn [app]. destruct ds as [|c ds']; [contradiction|].
    destruct (digits_hd c ds' Hd) as [_ [H45 _]].
    cbn [app]. rewrite starts_with_miss by exact H45.
    change (c :: ds' ++ rest) with ((c :: ds') ++ rest). rewrite TD, SD. cbn [andb].
    rewrite (nlz_b _ Hn). cbn [negb]. rewrite Hrc. rewrite Hin.
    destruct s; cbn [ity_of]; destruct (in_ity _ (digits_value (c :: ds'))); reflexivity.
Qed.

Print Assumptions tree_dec_ws_roundtrip.
Print Assumptions tree_dec_int_link.
Print Assumptions tree_roundtrip.
Print Assumptions tree_null.
