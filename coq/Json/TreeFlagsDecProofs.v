(* C14 structural part: the decoder under any ParseFlags of the model on the encoding under any AppendFlags of the model
   (statement parse_flags_ws_meaning of Json/TreeFlagsSpec.v). The proof follows Json/TreeProofs.v (dec_all), with
   three differences: string tokens are written with either escaping; the members of a map come in any order that is a
   permutation of the sorted one (they are merged into the map one by one, and a key-sorted association list is
   determined by its entries); the struct loop takes the two flags (the keys the encoder writes are exact names, so
   neither flag is ever consulted with effect). *)
From Coq Require Import Lia ZifyBool ZifyNat Permutation.
From Verif Require Import Base.GoInt Json.Grammar Json.FlagsModel Json.FlagsSpec Json.StrModel Json.StrSpec Json.StrSpecProofs
  Json.NumModel Json.NumSpec Json.NumProofs Json.TreeModel Json.TreeSpec Json.TreeProofs
  Json.TreeShapeSpec Json.TreeShapeProofs Json.TreeFlagsModel Json.TreeFlagsSpec.
From Verif Require Json.TreeEncProofs.
Open Scope Z_scope.

(* ================================ key-sorted association lists ================================ *)
Definition putn (g : jval -> jval) (acc : list (bytes * jval)) (kv : bytes * jval) : list (bytes * jval) :=
  map_put (fst kv) (g (snd kv)) acc.
Definition gent (g : jval -> jval) (kv : bytes * jval) : bytes * jval := (fst kv, g (snd kv)).

Lemma bytes_ltb_irrefl a : bytes_ltb a a = false.
Proof. destruct (bytes_ltb a a) eqn:E; [|reflexivity]. destruct (bytes_ltb_asym a a E). congruence. Qed.

Lemma map_put_has k v m : In (k, v) (map_put k v m).
Proof.
  induction m as [|[k' v'] m IH]; cbn [map_put]; [left; reflexivity|].
  destruct (bytes_ltb k k'); [left; reflexivity|]. destruct (bytes_eqb k k'); [left; reflexivity|]. right. exact IH.
Qed.
Lemma map_put_keeps k v x m : In x m -> fst x <> k -> In x (map_put k v m).
Proof.
  induction m as [|[k' v'] m IH]; intros Hin Hne; [destruct Hin|]. cbn [map_put].
  destruct (bytes_ltb k k'); [right; exact Hin|].
  destruct (bytes_eqb k k') eqn:E.
  - apply bytes_eqb_eq in E. subst k'. destruct Hin as [H|H]; [subst x; cbn [fst] in Hne; congruence|right; exact H].
  - destruct Hin as [H|H]; [left; exact H|right; apply IH; assumption].
Qed.

Lemma fold_put_sorted g es : forall m0, keys_sorted (map fst m0) = true ->
  keys_sorted (map fst (fold_left (putn g) es m0)) = true.
Proof.
  induction es as [|kv es IH]; intros m0 H; cbn [fold_left]; [exact H|]. apply IH. unfold putn. apply map_put_sorted, H.
Qed.
Lemma fold_put_in g es : forall m0 x, In x (fold_left (putn g) es m0) -> In x (map (gent g) es) \/ In x m0.
Proof.
  induction es as [|kv es IH]; intros m0 x H; cbn [fold_left] in H; [right; exact H|].
  apply IH in H. destruct H as [H|H]; [left; right; exact H|].
  unfold putn in H. apply TreeEncProofs.map_put_in in H.
  destruct H as [H|H]; [left; left; symmetry; exact H|right; exact H].
Qed.
Lemma fold_put_has g es : NoDup (map fst es) -> forall m0 x,
  In x (map (gent g) es) \/ (In x m0 /\ ~ In (fst x) (map fst es)) -> In x (fold_left (putn g) es m0).
Proof.
  induction es as [|kv es IH]; intros ND m0 x H; cbn [fold_left].
  - destruct H as [[]|[H _]]. exact H.
  - cbn [map] in ND. inversion ND as [|k ks Hnin ND']; subst. apply (IH ND').
    destruct H as [[H|H]|[H Hn]].
    + right. subst x. unfold gent, putn. cbn [fst]. split; [apply map_put_has|exact Hnin].
    + left. exact H.
    + right. split.
      * unfold putn. apply map_put_keeps; [exact H|]. intros E. apply Hn. left. symmetry. exact E.
      * intros Hi. apply Hn. right. exact Hi.
Qed.

Lemma sorted_nodup ks : keys_sorted ks = true -> NoDup ks.
Proof.
  induction ks as [|k ks IH]; intros H; constructor; cbn [keys_sorted] in H; apply andb_true_iff in H; destruct H as [H1 H2].
  - intros Hin. rewrite forallb_forall in H1. specialize (H1 k Hin). rewrite bytes_ltb_irrefl in H1. discriminate.
  - apply IH, H2.
Qed.

(* a key-sorted association list is determined by its entries *)
Lemma sorted_ext (a : list (bytes * jval)) : forall b : list (bytes * jval), keys_sorted (map fst a) = true -> keys_sorted (map fst b) = true ->
  (forall x, In x a <-> In x b) -> a = b.
Proof.
  induction a as [|[k v] a IH]; intros [|[k' v'] b] Sa Sb E.
  - reflexivity.
  - exfalso. apply (proj2 (E (k', v'))). left. reflexivity.
  - exfalso. apply (proj1 (E (k, v))). left. reflexivity.
  - cbn [map fst keys_sorted] in Sa, Sb.
    apply andb_true_iff in Sa. destruct Sa as [Ha1 Ha2]. apply andb_true_iff in Sb. destruct Sb as [Hb1 Hb2].
    rewrite forallb_forall in Ha1, Hb1.
    assert (HE : (k, v) = (k', v')).
    { destruct (proj1 (E (k, v)) (or_introl eq_refl)) as [H|H]; [symmetry; exact H|].
      destruct (proj2 (E (k', v')) (or_introl eq_refl)) as [H'|H']; [exact H'|].
      exfalso.
      pose proof (Hb1 k (in_map (@fst bytes jval) b (k, v) H)) as L1. pose proof (Ha1 k' (in_map (@fst bytes jval) a (k', v') H')) as L2.
      destruct (bytes_ltb_asym _ _ L1) as [A _]. congruence. }
    injection HE as <- <-. f_equal. apply IH; try assumption. intros x. split; intros Hx.
    + destruct (proj1 (E x) (or_intror Hx)) as [H|H]; [|exact H]. exfalso. subst x.
      pose proof (Ha1 k (in_map (@fst bytes jval) a (k, v) Hx)) as L. rewrite bytes_ltb_irrefl in L. discriminate.
    + destruct (proj2 (E x) (or_intror Hx)) as [H|H]; [|exact H]. exfalso. subst x.
      pose proof (Hb1 k (in_map (@fst bytes jval) b (k, v) Hx)) as L. rewrite bytes_ltb_irrefl in L. discriminate.
Qed.

(* merging the entries of a key-sorted list one by one, in any order, gives the list back *)
Lemma put_perm g es m : Permutation es m -> keys_sorted (map fst m) = true ->
  fold_left (putn g) es [] = map (gent g) m.
Proof.
  intros Hp Hs.
  assert (ND : NoDup (map fst es)).
  { apply (Permutation_NoDup (l := map fst m)); [apply Permutation_map, Permutation_sym, Hp|apply sorted_nodup, Hs]. }
  apply sorted_ext.
  - apply fold_put_sorted. reflexivity.
  - rewrite map_map. unfold gent. cbn [fst]. exact Hs.
  - intros x. split; intros H.
    + apply fold_put_in in H. destruct H as [H|[]].
      eapply Permutation_in; [apply Permutation_map, Hp|exact H].
    + apply fold_put_has; [exact ND|]. left.
      eapply Permutation_in; [apply Permutation_map, Permutation_sym, Hp|exact H].
Qed.

Lemma forallb_perm {A} (p : A -> bool) l l' : Permutation l l' -> forallb p l' = true -> forallb p l = true.
Proof.
  intros Hp H. rewrite forallb_forall in *. intros x Hx. apply H. eapply Permutation_in; [exact Hp|exact Hx].
Qed.

(* ================================ the decoder on an encoding, under flags ================================ *)
Section Flags.
Variables (nocase strict html : bool) (ord : ord_t).
Hypothesis Hord : ord_ok ord.

Notation tk := (jtoks_f html ord).
Notation mb := (jmembers_f html ord).
Notation D := (dec_f nocase strict).

Lemma jnullish_toks_f : forall t v, jnullish t v = true -> tk t v = [tok_null].
Proof.
  induction t; intros v H; destruct v; cbn [jnullish] in H; try discriminate; try reflexivity.
  cbn [jtoks_f]. apply IHt, H.
Qed.

Definition headp_f (t : jty) (v : jval) : Prop :=
  exists c tkn toks, tk t v = (c :: tkn) :: toks /\ is_ws c = false /\ c <> 93 /\ (jnullish t v = false -> c <> 110).
Lemma headp_null_f t v : tk t v = [tok_null] -> jnullish t v = true -> headp_f t v.
Proof.
  intros E N. exists 110, [117; 108; 108], []. rewrite E, N.
  split; [reflexivity|]. repeat split; discriminate.
Qed.
Lemma jtoks_head_f : forall t v, ty_ok t = true -> jwf t v = true -> headp_f t v.
Proof.
  induction t; intros v Hok Hwf; destruct v; cbn [jwf] in Hwf; try discriminate;
    try (apply headp_null_f; reflexivity).
  - exists (if b then 116 else 102), (if b then [114; 117; 101] else [97; 108; 115; 101]), [].
    destruct b; (split; [reflexivity|]); repeat split; discriminate.
  - cbn [ty_ok] in Hok. destruct (z_to_dec_head signed bits z Hok Hwf) as [c [tkn [E [A [B C]]]]].
    exists c, tkn, []. cbn [jtoks_f]. rewrite E. repeat split; auto.
  - exists 34, (std_escape_body html 0 s ++ [34]), []. repeat split; discriminate.
  - cbn [ty_ok] in Hok. destruct (IHt v Hok Hwf) as [c [tkn [toks [E [A [B C]]]]]].
    exists c, tkn, toks. cbn [jtoks_f jnullish]. repeat split; auto.
  - eexists 91, [], _. cbn [jtoks_f app]. repeat split; discriminate.
  - eexists 91, [], _. cbn [jtoks_f app]. repeat split; discriminate.
  - eexists 123, [], _. cbn [jtoks_f app]. repeat split; discriminate.
  - eexists 123, [], _. cbn [jtoks_f app]. repeat split; discriminate.
Qed.

Definition Pf (t : jty) : Prop :=
  ty_ok t = true -> forall v fuel doc rest,
    jwf t v = true -> inter (tk t v) doc rest -> stops rest -> (length doc < fuel)%nat ->
    D t fuel (jzero t) (skip_ws doc) = DOk (jnorm t v, rest).

Lemma value_then_f t v more doc rest c tkn toks :
  ty_ok t = true -> jwf t v = true ->
  inter (tk t v ++ more) doc rest -> more = (c :: tkn) :: toks -> stopc c ->
  exists mid, inter (tk t v) doc mid /\ inter more mid rest /\ stops mid /\ (length mid < length doc)%nat.
Proof.
  intros Hok Hwf Hi Hm Hc. apply inter_app in Hi. destruct Hi as [mid [H1 H2]].
  exists mid. split; [exact H1|]. split; [exact H2|]. split.
  - subst more. eapply inter_stops; eassumption.
  - destruct (jtoks_head_f t v Hok Hwf) as [c' [tk' [toks' [E [A _]]]]]. rewrite E in H1.
    destruct (next_tok _ _ _ _ _ H1 A) as [doc' [_ [Hi' L]]]. apply inter_len in Hi'. lia.
Qed.

(* ---------------- slices ---------------- *)
Lemma slice_loop_ok_f t' fuel : Pf t' -> ty_ok t' = true ->
  forall l first f doc rest, forallb (jwf t') l = true ->
    inter (seq_toks first (map (tk t') l) ++ [[93]]) doc rest -> stops rest ->
    (length doc < f)%nat -> (length doc < fuel)%nat ->
    dec_slice_loop (D t' fuel (jzero t')) f first doc = DOk (map (jnorm t') l, rest).
Proof.
  intros IHP Hok. induction l as [|v l IH]; intros first f doc rest Hwf Hi Hst Hf Hfuel;
    (destruct f as [|f]; [lia|]).
  - cbn [map seq_toks app] in Hi.
    destruct (next_tok 93 [] [] doc rest Hi eq_refl) as [doc' [E [Hi' _]]]. inversion Hi'; subst.
    cbn [dec_slice_loop]. rewrite E. cbn [app]. rewrite starts_with_hit. reflexivity.
  - cbn [forallb] in Hwf. apply andb_true_iff in Hwf. destruct Hwf as [Hv Hl].
    assert (Common : forall docE, (length docE <= length doc)%nat ->
      inter (tk t' v ++ sep_toks' (map (tk t') l) ++ [[93]]) docE rest ->
      starts_with 93 (skip_ws docE) = None /\
      dbind (D t' fuel (jzero t') (skip_ws docE)) (fun vr =>
        dbind (dec_slice_loop (D t' fuel (jzero t')) f false (snd vr)) (fun lr => DOk (fst vr :: fst lr, snd lr)))
      = DOk (jnorm t' v :: map (jnorm t') l, rest)).
    { intros docE Le HiE.
      destruct (sep_close (map (tk t') l) 93 (or_intror (or_introl eq_refl))) as [c [tkn [toks [Em Hc]]]].
      destruct (value_then_f t' v _ docE rest c tkn toks Hok Hv HiE Em Hc) as [mid [H1 [H2 [Hs Lm]]]].
      destruct (jtoks_head_f t' v Hok Hv) as [c' [tk' [toks' [E' [A [B _]]]]]].
      split.
      - rewrite E' in H1. destruct (next_tok _ _ _ _ _ H1 A) as [d' [Es _]]. rewrite Es.
        apply starts_with_miss, B.
      - rewrite (IHP Hok v fuel docE mid Hv H1 Hs ltac:(lia)). cbn [dbind fst snd].
        rewrite <- seq_toks_false in H2.
        rewrite (IH false f mid rest Hl H2 Hst ltac:(lia) ltac:(lia)). reflexivity. }
    cbn [map seq_toks] in Hi. cbn [dec_slice_loop].
    destruct first.
    + rewrite <- app_assoc in Hi. destruct (Common doc (le_n _) Hi) as [C1 C2].
      rewrite C1. cbn [dbind]. exact C2.
    + rewrite <- app_assoc in Hi. cbn [app] in Hi.
      destruct (next_tok 44 [] _ doc rest Hi eq_refl) as [doc' [E [Hi' L]]].
      rewrite E. cbn [app]. rewrite starts_with_miss by discriminate. rewrite starts_with_hit. cbn [dbind].
      assert (Ld : (length doc' <= length doc)%nat) by (clear - L; lia). destruct (Common doc' Ld Hi') as [_ C2]. exact C2.
Qed.

(* ---------------- arrays ---------------- *)
Lemma arr_loop_ok_f t' fuel : Pf t' -> ty_ok t' = true ->
  forall l first doc rest, forallb (jwf t') l = true ->
    inter (seq_toks first (map (tk t') l) ++ [[93]]) doc rest -> stops rest ->
    (length doc < fuel)%nat ->
    dec_arr_loop (D t' fuel) (jzero t') fuel first (repeat (jzero t') (length l)) doc
      = DOk (map (jnorm t') l, rest).
Proof.
  intros IHP Hok. induction l as [|v l IH]; intros first doc rest Hwf Hi Hst Hfuel.
  - cbn [map seq_toks app] in Hi.
    destruct (next_tok 93 [] [] doc rest Hi eq_refl) as [doc' [E [Hi' _]]]. inversion Hi'; subst.
    cbn [length repeat dec_arr_loop]. destruct fuel as [|fuel]; [lia|].
    cbn [dec_surplus]. rewrite E. cbn [app dbind map]. reflexivity.
  - cbn [forallb] in Hwf. apply andb_true_iff in Hwf. destruct Hwf as [Hv Hl].
    assert (Common : forall docE, (length docE <= length doc)%nat ->
      inter (tk t' v ++ sep_toks' (map (tk t') l) ++ [[93]]) docE rest ->
      starts_with 93 (skip_ws docE) = None /\
      dbind (D t' fuel (jzero t') (skip_ws docE)) (fun vr =>
        dbind (dec_arr_loop (D t' fuel) (jzero t') fuel false (repeat (jzero t') (length l)) (snd vr))
              (fun lr => DOk (fst vr :: fst lr, snd lr)))
      = DOk (jnorm t' v :: map (jnorm t') l, rest)).
    { intros docE Le HiE.
      destruct (sep_close (map (tk t') l) 93 (or_intror (or_introl eq_refl))) as [c [tkn [toks [Em Hc]]]].
      destruct (value_then_f t' v _ docE rest c tkn toks Hok Hv HiE Em Hc) as [mid [H1 [H2 [Hs Lm]]]].
      destruct (jtoks_head_f t' v Hok Hv) as [c' [tk' [toks' [E' [A [B _]]]]]].
      split.
      - rewrite E' in H1. destruct (next_tok _ _ _ _ _ H1 A) as [d' [Es _]]. rewrite Es.
        apply starts_with_miss, B.
      - rewrite (IHP Hok v fuel docE mid Hv H1 Hs ltac:(lia)). cbn [dbind fst snd].
        rewrite <- seq_toks_false in H2.
        rewrite (IH false mid rest Hl H2 Hst ltac:(lia)). reflexivity. }
    cbn [map seq_toks] in Hi. cbn [length repeat dec_arr_loop].
    destruct first.
    + rewrite <- app_assoc in Hi. destruct (Common doc (le_n _) Hi) as [C1 C2].
      rewrite C1. exact C2.
    + rewrite <- app_assoc in Hi. cbn [app] in Hi.
      destruct (next_tok 44 [] _ doc rest Hi eq_refl) as [doc' [E [Hi' L]]].
      rewrite E. cbn [app]. rewrite starts_with_miss by discriminate. rewrite starts_with_hit.
      assert (Ld : (length doc' <= length doc)%nat) by (clear - L; lia). destruct (Common doc' Ld Hi') as [_ C2]. exact C2.
Qed.

(* ---------------- maps: the members in ANY order ---------------- *)
Definition ent_f (t' : jty) (kv : bytes * jval) : list bytes := [std_escape html (fst kv); [58]] ++ tk t' (snd kv).

Lemma map_loop_ok_f t' fuel : Pf t' -> ty_ok t' = true ->
  forall es first f doc rest m0,
    forallb key_ok (map fst es) = true ->
    forallb (fun kv => jwf t' (snd kv)) es = true ->
    inter (seq_toks first (map (ent_f t') es) ++ [[125]]) doc rest -> stops rest ->
    (length doc < f)%nat -> (length doc < fuel)%nat ->
    dec_map_loop (D t' fuel (jzero t')) f first m0 doc = DOk (fold_left (putn (jnorm t')) es m0, rest).
Proof.
  intros IHP Hok. induction es as [|[k v] es IH]; intros first f doc rest m0 Hk Hwf Hi Hst Hf Hfuel;
    (destruct f as [|f]; [lia|]).
  - cbn [map seq_toks app] in Hi.
    destruct (next_tok 125 [] [] doc rest Hi eq_refl) as [doc' [E [Hi' _]]]. inversion Hi'; subst.
    cbn [dec_map_loop]. rewrite E. cbn [app]. rewrite starts_with_hit. reflexivity.
  - cbn [map fst forallb] in Hk. apply andb_true_iff in Hk. destruct Hk as [Hk1 Hk2].
    cbn [forallb snd] in Hwf. apply andb_true_iff in Hwf. destruct Hwf as [Hv Hl].
    destruct (key_ok_inv k Hk1) as [Kw Ks].
    assert (Common : forall docE, (length docE <= length doc)%nat ->
      inter (ent_f t' (k, v) ++ sep_toks' (map (ent_f t') es) ++ [[125]]) docE rest ->
      starts_with 125 (skip_ws docE) = None /\
      match uq_lit (skip_ws docE) with
      | None => DErr
      | Some (k0, r1) =>
        match starts_with 58 (skip_ws r1) with
        | Some r2 =>
          dbind (D t' fuel (jzero t') (skip_ws r2)) (fun vr =>
            dec_map_loop (D t' fuel (jzero t')) f false (map_put k0 (fst vr) m0) (snd vr))
        | None => DErr
        end
      end = DOk (fold_left (putn (jnorm t')) es (map_put k (jnorm t' v) m0), rest)).
    { intros docE Le HiE. unfold ent_f in HiE at 1. cbn [fst snd app] in HiE.
      assert (Hq : std_escape html k = 34 :: (std_escape_body html 0 k ++ [34])) by reflexivity.
      rewrite Hq in HiE.
      destruct (next_tok 34 _ _ docE rest HiE eq_refl) as [d1 [E1 [Hi1 L1]]].
      destruct (next_tok 58 [] _ d1 rest Hi1 eq_refl) as [d2 [E2 [Hi2 L2]]].
      destruct (sep_close (map (ent_f t') es) 125 (or_intror (or_intror eq_refl))) as [c [tkn [toks [Em Hc]]]].
      destruct (value_then_f t' v _ d2 rest c tkn toks Hok Hv Hi2 Em Hc) as [mid [H1 [H2 [Hsm Lm]]]].
      assert (F1 : (length d2 < fuel)%nat) by (clear - L1 L2 Le Hfuel; lia).
      assert (F2 : (length mid < f)%nat) by (clear - L1 L2 Le Lm Hf; lia).
      assert (F3 : (length mid < fuel)%nat) by (clear - L1 L2 Le Lm Hfuel; lia).
      split.
      - rewrite E1. apply starts_with_miss. discriminate.
      - rewrite E1. change (34 :: (std_escape_body html 0 k ++ [34]) ++ d1) with (std_escape html k ++ d1).
        rewrite (unquote_escape html k d1 Kw). rewrite Ks.
        rewrite E2. cbn [app]. rewrite starts_with_hit.
        rewrite (IHP Hok v fuel d2 mid Hv H1 Hsm F1). cbn [dbind fst snd].
        rewrite <- seq_toks_false in H2.
        apply (IH false f mid rest (map_put k (jnorm t' v) m0) Hk2 Hl H2 Hst F2 F3). }
    cbn [map seq_toks] in Hi. cbn [dec_map_loop fold_left]. unfold putn at 2. cbn [fst snd].
    destruct first.
    + rewrite <- app_assoc in Hi. destruct (Common doc (le_n _) Hi) as [C1 C2].
      rewrite C1. cbn [dbind]. exact C2.
    + rewrite <- app_assoc in Hi. cbn [app] in Hi.
      destruct (next_tok 44 [] _ doc rest Hi eq_refl) as [doc' [E [Hi' L]]].
      rewrite E. cbn [app]. rewrite starts_with_miss by discriminate. rewrite starts_with_hit. cbn [dbind].
      assert (Ld : (length doc' <= length doc)%nat) by (clear - L; lia). destruct (Common doc' Ld Hi') as [_ C2]. exact C2.
Qed.

(* ---------------- structs ---------------- *)
Lemma dec_field_hit_f fuel name o t r : forall pre dvals c cr b,
  length dvals = flen pre -> existsb (bytes_eqb name) (jnames pre) = false ->
  dec_field_f nocase strict (fapp pre (FCons name o t r)) fuel name (dvals ++ c :: cr) b =
    if negb (jmergeable t) && negb (jis_zero t c) then DOut
    else dbind (D t fuel c b) (fun vr => DOk (Some (dvals ++ fst vr :: cr, snd vr))).
Proof.
  induction pre as [|n' o' t' pre IH]; intros dvals c cr b Hl Hn.
  - destruct dvals; [|discriminate]. cbn [fapp app dec_field_f]. rewrite bytes_eqb_refl. reflexivity.
  - destruct dvals as [|d dvals]; [discriminate|]. cbn [flen length] in Hl.
    cbn [jnames existsb] in Hn. apply orb_false_iff in Hn. destruct Hn as [Hn1 Hn2].
    cbn [fapp app dec_field_f]. rewrite Hn1. rewrite (IH dvals c cr b ltac:(lia) Hn2).
    destruct (negb (jmergeable t) && negb (jis_zero t c)); [reflexivity|].
    destruct (D t fuel c b) as [[v' r']| |]; reflexivity.
Qed.

Lemma resolve_exact_f names k : existsb (bytes_eqb k) names = true -> resolve_key_f nocase names k = Some k.
Proof. intros H. unfold resolve_key_f. destruct nocase; [reflexivity|]. apply resolve_exact, H. Qed.

Lemma struct_loop_ok_f fs_all fuel : distinct (jnames fs_all) = true ->
  forall fs pre l dvals first f doc rest,
    fs_all = fapp pre fs -> fields_ok fs = true -> fall Pf fs -> jwfs fs l = true -> length dvals = flen pre ->
    inter (seq_toks first (mb fs l) ++ [[125]]) doc rest -> stops rest ->
    (length doc < f)%nat -> (length doc < fuel)%nat ->
    dec_struct_loop_f nocase strict (dec_field_f nocase strict fs_all fuel) (jnames fs_all) fuel f first (dvals ++ jzeros fs) doc
      = DOk (dvals ++ jnorms fs l, rest).
Proof.
  intros Hdis. induction fs as [|name o t r IH];
    intros pre l dvals first f doc rest Hall Hfok HP Hwf Hlen Hi Hst Hf Hfuel.
  - destruct l; [|discriminate]. cbn [jmembers_f seq_toks app] in Hi.
    destruct f as [|f]; [lia|].
    destruct (next_tok 125 [] [] doc rest Hi eq_refl) as [doc' [E [Hi' _]]].
    assert (doc' = rest) by (inversion Hi'; reflexivity). subst doc'.
    cbn [dec_struct_loop_f jzeros jnorms]. rewrite E. cbn [app]. rewrite starts_with_hit. reflexivity.
  - destruct l as [|v l]; [discriminate|].
    cbn [jwfs] in Hwf. apply andb_true_iff in Hwf. destruct Hwf as [Hv Hl].
    cbn [fields_ok] in Hfok. apply andb_true_iff in Hfok. destruct Hfok as [Hfok Hrok].
    apply andb_true_iff in Hfok. destruct Hfok as [Hname Htok].
    cbn [fall] in HP. destruct HP as [HPt HPr].
    cbn [jmembers_f] in Hi. cbn [jzeros jnorms].
    destruct (o && jempty v) eqn:Om.
    + (* omitted *)
      cbn [app] in Hi.
      replace (dvals ++ jzero t :: jzeros r) with ((dvals ++ [jzero t]) ++ jzeros r)
        by (rewrite <- app_assoc; reflexivity).
      replace (dvals ++ jzero t :: jnorms r l) with ((dvals ++ [jzero t]) ++ jnorms r l)
        by (rewrite <- app_assoc; reflexivity).
      apply (IH (fapp pre (FCons name o t FNil))); try assumption.
      * rewrite fapp_snoc. exact Hall.
      * rewrite app_length, flen_snoc. cbn [length]. clear - Hlen. lia.
    + (* written *)
      destruct f as [|f]; [clear - Hf; lia|].
      assert (Hnm : existsb (bytes_eqb name) (jnames pre) = false).
      { rewrite Hall, jnames_fapp in Hdis. cbn [jnames] in Hdis. eapply distinct_mid, Hdis. }
      assert (Hin : existsb (bytes_eqb name) (jnames fs_all) = true).
      { rewrite Hall, jnames_fapp, existsb_app. cbn [jnames existsb]. rewrite bytes_eqb_refl. apply orb_true_r. }
      assert (Common : forall docE, (length docE <= length doc)%nat ->
        inter (([quote name; [58]] ++ tk t v) ++ sep_toks' (mb r l) ++ [[125]]) docE rest ->
        starts_with 125 (skip_ws docE) = None /\
        match uq_lit (skip_ws docE) with
        | None => DErr
        | Some (k, r1) =>
          match starts_with 58 (skip_ws r1) with
          | Some r2 =>
            match resolve_key_f nocase (jnames fs_all) k with
            | None => DOut
            | Some k' =>
              dbind (dec_field_f nocase strict fs_all fuel k' (dvals ++ jzero t :: jzeros r) (skip_ws r2)) (fun o0 =>
                match o0 with
                | Some (curs', r3) =>
                    dec_struct_loop_f nocase strict (dec_field_f nocase strict fs_all fuel) (jnames fs_all) fuel f false curs' r3
                | None =>
                  if strict then DErr
                  else
                    match g_value fuel (skip_ws r2) with
                    | None => DErr
                    | Some r3 => dec_struct_loop_f nocase strict (dec_field_f nocase strict fs_all fuel) (jnames fs_all) fuel f false
                                   (dvals ++ jzero t :: jzeros r) r3
                    end
                end)
            end
          | None => DErr
          end
        end = DOk (dvals ++ jnorm t v :: jnorms r l, rest)).
      { intros docE Le HiE. cbn [app] in HiE.
        assert (Hq : quote name = 34 :: (name ++ [34])) by reflexivity.
        rewrite Hq in HiE.
        destruct (next_tok 34 _ _ docE rest HiE eq_refl) as [d1 [E1 [Hi1 L1]]].
        destruct (next_tok 58 [] _ d1 rest Hi1 eq_refl) as [d2 [E2 [Hi2 L2]]].
        destruct (sep_close (mb r l) 125 (or_intror (or_intror eq_refl))) as [c [tkn [toks [Em Hc]]]].
        destruct (value_then_f t v _ d2 rest c tkn toks Htok Hv Hi2 Em Hc) as [mid [H1 [H2 [Hsm Lm]]]].
        assert (F1 : (length d2 < fuel)%nat) by (clear - L1 L2 Le Hfuel; lia).
        assert (F2 : (length mid < f)%nat) by (clear - L1 L2 Le Lm Hf; lia).
        assert (F3 : (length mid < fuel)%nat) by (clear - L1 L2 Le Lm Hfuel; lia).
        split.
        - rewrite E1. apply starts_with_miss. discriminate.
        - rewrite E1. change (34 :: (name ++ [34]) ++ d1) with (quote name ++ d1).
          rewrite (uq_quote name d1 Hname).
          rewrite E2. cbn [app]. rewrite starts_with_hit.
          rewrite (resolve_exact_f _ _ Hin).
          rewrite Hall at 1. rewrite (dec_field_hit_f fuel name o t r pre dvals (jzero t) (jzeros r) _ Hlen Hnm).
          rewrite jis_zero_zero. cbn [negb]. rewrite andb_false_r.
          rewrite (HPt Htok v fuel d2 mid Hv H1 Hsm F1). cbn [dbind fst snd].
          replace (dvals ++ jnorm t v :: jzeros r) with ((dvals ++ [jnorm t v]) ++ jzeros r)
            by (rewrite <- app_assoc; reflexivity).
          replace (dvals ++ jnorm t v :: jnorms r l) with ((dvals ++ [jnorm t v]) ++ jnorms r l)
            by (rewrite <- app_assoc; reflexivity).
          rewrite <- seq_toks_false in H2.
          apply (IH (fapp pre (FCons name o t FNil))); try assumption.
          + rewrite fapp_snoc. exact Hall.
          + rewrite app_length, flen_snoc. cbn [length]. clear - Hlen. lia. }
      cbn [app seq_toks] in Hi. cbn [dec_struct_loop_f].
      destruct first.
      * rewrite <- app_assoc in Hi. destruct (Common doc (le_n _) Hi) as [C1 C2].
        rewrite C1. cbn [dbind]. exact C2.
      * rewrite <- app_assoc in Hi. cbn [app] in Hi.
        destruct (next_tok 44 [] _ doc rest Hi eq_refl) as [doc' [E [Hi' L]]].
        rewrite E. cbn [app]. rewrite starts_with_miss by discriminate. rewrite starts_with_hit. cbn [dbind].
        assert (Ld : (length doc' <= length doc)%nat) by (clear - L; lia). destruct (Common doc' Ld Hi') as [_ C2]. exact C2.
Qed.

(* ---------------- every type ---------------- *)
Lemma null_case_f t fuel doc rest : inter [tok_null] doc rest ->
  (forall r, D t fuel (jzero t) (tok_null ++ r) = DOk (VNil, r)) ->
  D t fuel (jzero t) (skip_ws doc) = DOk (VNil, rest).
Proof.
  intros Hi H. destruct (inter_single _ _ _ Hi) as [w [Hw E]]. subst doc.
  rewrite skip_ws_wsb by exact Hw. change (tok_null ++ rest) with (110 :: [117; 108; 108] ++ rest).
  rewrite skip_ws_nws by reflexivity. apply (H rest).
Qed.

Lemma dec_all_f : forall t, Pf t.
Proof.
  apply (jty_mut Pf (fall Pf)).
  - (* bool *)
    intros _ v fuel doc rest Hwf Hi Hst Hfuel. destruct v; try discriminate.
    cbn [jtoks_f] in Hi. destruct (inter_single _ _ _ Hi) as [w [Hw E]]. subst doc.
    rewrite skip_ws_wsb by exact Hw. destruct b; reflexivity.
  - (* integers *)
    intros s w Hok v fuel doc rest Hwf Hi Hst Hfuel. destruct v; try discriminate.
    cbn [ty_ok] in Hok. cbn [jwf] in Hwf. cbn [jtoks_f] in Hi.
    destruct (inter_single _ _ _ Hi) as [ww [Hw E]]. subst doc.
    rewrite skip_ws_wsb by exact Hw.
    destruct (z_to_dec_head s w z Hok Hwf) as [c [tkn [E [A [B _]]]]].
    rewrite E. cbn [app]. rewrite skip_ws_nws by exact A. cbn [dec_f]. rewrite nullp_ne by exact B.
    change (c :: tkn ++ rest) with ((c :: tkn) ++ rest). rewrite <- E.
    apply dec_int_ok; assumption.
  - (* strings *)
    intros _ v fuel doc rest Hwf Hi Hst Hfuel. destruct v; try discriminate.
    cbn [jwf] in Hwf. cbn [jtoks_f] in Hi.
    destruct (inter_single _ _ _ Hi) as [ww [Hw E]]. subst doc.
    rewrite skip_ws_wsb by exact Hw.
    assert (Hq : std_escape html s = 34 :: (std_escape_body html 0 s ++ [34])) by reflexivity.
    rewrite Hq at 1. cbn [app]. rewrite skip_ws_nws by reflexivity. cbn [dec_f nullp].
    change (34 :: (std_escape_body html 0 s ++ [34]) ++ rest) with (std_escape html s ++ rest).
    unfold dec_str. rewrite (unquote_escape html s rest Hwf). reflexivity.
  - (* pointers *)
    intros t IH Hok v fuel doc rest Hwf Hi Hst Hfuel. cbn [ty_ok] in Hok.
    destruct v; try discriminate.
    + cbn [jtoks_f] in Hi. cbn [jnorm]. apply null_case_f; [exact Hi|]. intros r. reflexivity.
    + cbn [jwf] in Hwf. cbn [jtoks_f] in Hi. cbn [jnorm].
      destruct (jnullish t v) eqn:N.
      * rewrite (jnullish_toks_f t v N) in Hi. apply null_case_f; [exact Hi|]. intros r. reflexivity.
      * destruct (jtoks_head_f t v Hok Hwf) as [c [tkn [toks [E [A [_ C]]]]]].
        pose proof Hi as Hi0. rewrite E in Hi0.
        destruct (next_tok _ _ _ _ _ Hi0 A) as [d' [Es _]].
        cbn [dec_f jzero]. rewrite Es at 1. rewrite nullp_ne by exact (C N).
        rewrite (IH Hok v fuel doc rest Hwf Hi Hst Hfuel). reflexivity.
  - (* slices *)
    intros t IH Hok v fuel doc rest Hwf Hi Hst Hfuel. cbn [ty_ok] in Hok.
    apply andb_true_iff in Hok. destruct Hok as [Hok _].
    destruct v; try discriminate.
    + cbn [jtoks_f] in Hi. cbn [jnorm]. apply null_case_f; [exact Hi|]. intros r. reflexivity.
    + cbn [jwf] in Hwf. cbn [jtoks_f] in Hi. cbn [jnorm app] in *.
      destruct (next_tok 91 [] _ doc rest Hi eq_refl) as [d1 [E1 [Hi1 L1]]].
      rewrite E1. cbn [dec_f nullp app]. rewrite starts_with_hit.
      rewrite sep_toks_seq in Hi1.
      assert (F1 : (length d1 < fuel)%nat) by (clear - L1 Hfuel; lia).
      rewrite (slice_loop_ok_f t fuel IH Hok l true fuel d1 rest Hwf Hi1 Hst F1 F1). reflexivity.
  - (* arrays *)
    intros n t IH Hok v fuel doc rest Hwf Hi Hst Hfuel. cbn [ty_ok] in Hok.
    destruct v; try discriminate.
    cbn [jwf] in Hwf. apply andb_true_iff in Hwf. destruct Hwf as [Hn Hwf]. apply Nat.eqb_eq in Hn.
    cbn [jtoks_f] in Hi. cbn [jnorm app] in *.
    destruct (next_tok 91 [] _ doc rest Hi eq_refl) as [d1 [E1 [Hi1 L1]]].
    rewrite E1. cbn [dec_f jzero nullp app]. rewrite starts_with_hit.
    rewrite sep_toks_seq in Hi1. rewrite <- Hn.
    assert (F1 : (length d1 < fuel)%nat) by (clear - L1 Hfuel; lia).
    rewrite (arr_loop_ok_f t fuel IH Hok l true d1 rest Hwf Hi1 Hst F1). reflexivity.
  - (* maps *)
    intros t IH Hok v fuel doc rest Hwf Hi Hst Hfuel. cbn [ty_ok] in Hok.
    destruct v; try discriminate.
    + cbn [jtoks_f] in Hi. cbn [jnorm]. apply null_case_f; [exact Hi|]. intros r. reflexivity.
    + cbn [jwf] in Hwf. apply andb_true_iff in Hwf. destruct Hwf as [Hk Hwf].
      apply andb_true_iff in Hk. destruct Hk as [Hk Hs].
      cbn [jtoks_f] in Hi. rewrite (sort_kv_sorted m Hs) in Hi. cbn [jnorm app] in *.
      destruct (next_tok 123 [] _ doc rest Hi eq_refl) as [d1 [E1 [Hi1 L1]]].
      rewrite E1. cbn [dec_f jzero nullp app]. rewrite starts_with_hit.
      rewrite sep_toks_seq in Hi1.
      assert (F1 : (length d1 < fuel)%nat) by (clear - L1 Hfuel; lia).
      assert (Hk' : forallb key_ok (map fst (ord m)) = true).
      { apply (forallb_perm _ _ (map fst m)); [apply Permutation_map, Hord|exact Hk]. }
      assert (Hwf' : forallb (fun kv => jwf t (snd kv)) (ord m) = true).
      { apply (forallb_perm _ _ m); [apply Hord|exact Hwf]. }
      rewrite (map_loop_ok_f t fuel IH Hok (ord m) true fuel d1 rest [] Hk' Hwf' Hi1 Hst F1 F1).
      cbn [dbind fst snd]. rewrite (put_perm (jnorm t) (ord m) m (Hord m) Hs). reflexivity.
  - (* structs *)
    intros fs IH Hok v fuel doc rest Hwf Hi Hst Hfuel. cbn [ty_ok] in Hok.
    apply andb_true_iff in Hok. destruct Hok as [Hfok Hdis].
    destruct v; try discriminate.
    cbn [jwf] in Hwf. cbn [jtoks_f] in Hi. cbn [jnorm app] in *.
    destruct (next_tok 123 [] _ doc rest Hi eq_refl) as [d1 [E1 [Hi1 L1]]].
    rewrite E1. cbn [dec_f jzero nullp app]. rewrite starts_with_hit.
    rewrite sep_toks_seq in Hi1.
    assert (F1 : (length d1 < fuel)%nat) by (clear - L1 Hfuel; lia).
    pose proof (struct_loop_ok_f fs fuel Hdis fs FNil l [] true fuel d1 rest eq_refl Hfok IH Hwf eq_refl Hi1 Hst F1 F1) as HS.
    cbn [app] in HS. rewrite HS. reflexivity.
  - exact I.
  - intros name o t IHt r IHr. split; assumption.
Qed.

End Flags.

(* ================================ the statement ================================ *)
Lemma parse_flags_ws_meaning : parse_flags_ws_meaning_statement.
Proof.
  intros nocase strict html ord ws t v fuel Hord Hws Hok Hwf Hfuel.
  destruct (render_inter ws Hws (jtoks_f html ord t v) 0%nat (ws (0 + length (jtoks_f html ord t v))%nat)) as [body [E Hi]].
  rewrite E in *. unfold jdec_f.
  rewrite (dec_all_f nocase strict html ord Hord t Hok v fuel _ _ Hwf Hi (wsb_stops _ (Hws _)) Hfuel).
  rewrite skip_ws_all by apply Hws. reflexivity.
Qed.

Print Assumptions parse_flags_ws_meaning.
