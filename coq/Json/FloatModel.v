(* C01 float core: hand-written model (following the Go text line by line) of
     json/encode.go  encoder.encodeFloat32 / encodeFloat64 / encodeFloat
   the glue that the package puts around strconv.AppendFloat: the NaN / Inf test, the choice of the strconv format
   byte from the magnitude, the call, the rewriting of a two-digit negative exponent e-0d to e-d.
   strconv.AppendFloat itself is NOT modelled: it is a Section Variable [append_float], every definition of the
   section is a function of it and every theorem of Json/FloatProofs.v quantifies over it.
   The float is represented by what the glue inspects (record [float_repr]): the results of math.IsNaN, math.IsInf,
   abs != 0 and of the four comparisons with the constants 1e-6 and 1e21 (as float64 and after conversion to
   float32), plus an opaque payload that only append_float looks at.
   For the correspondence check [float_repr_of_bits] computes that record from the IEEE-754 bit patterns
   (math.Float64bits(f), math.Float32bits(float32(f))) that the harness prints.
   Tied to the code by the cases s.float of harness/c01s.go. No proofs in this file. *)
From Verif Require Import Base.GoInt.
Open Scope Z_scope.

Record float_repr : Set := mk_float_repr {
  fr_nan : bool;       (* math.IsNaN(f) *)
  fr_inf : bool;       (* math.IsInf(f, 0) *)
  fr_nonzero : bool;   (* abs != 0                  where abs := math.Abs(f) *)
  fr_lt64 : bool;      (* abs < 1e-6                float64 comparison *)
  fr_ge64 : bool;      (* abs >= 1e21               float64 comparison *)
  fr_lt32 : bool;      (* float32(abs) < 1e-6       float32 comparison *)
  fr_ge32 : bool;      (* float32(abs) >= 1e21      float32 comparison *)
  fr_payload : Z       (* the value itself: opaque, handed to append_float *)
}.

(* result of an encoder step: the buffer, or the buffer and an *UnsupportedValueError with its Str field *)
Inductive fres : Set :=
| FOk (b : bytes)
| FUnsupported (b : bytes) (str : bytes).

(* the observable compared by C01: the bytes, or the fact that there is an error *)
Definition fres_obs (r : fres) : option bytes :=
  match r with FOk b => Some b | FUnsupported _ _ => None end.

(* byte constants *)
Definition ch_e : Z := 101.      (* 'e' *)
Definition ch_f : Z := 102.      (* 'f' *)
Definition ch_g : Z := 103.      (* 'g' *)
Definition ch_minus : Z := 45.   (* '-' *)
Definition ch_plus : Z := 43.    (* '+' *)
Definition ch_0 : Z := 48.       (* '0' *)
Definition ch_quote : Z := 34.   (* the double quote *)

(* the block under  if fmt == 'e'  of encodeFloat:
     n := len(b)
     if n >= 4 && b[n-4] == 'e' && b[n-3] == '-' && b[n-2] == '0' {
         b[n-2] = b[n-1]
         b = b[:n-1]
     }                                                                 *)
Definition pkg_clean_exp (b : bytes) : bytes :=
  let n := len b in
  if (n >=? 4) && (at_ b (n - 4) =? ch_e) && (at_ b (n - 3) =? ch_minus) && (at_ b (n - 2) =? ch_0) then
    let b := upd b (n - 2) (at_ b (n - 1)) in
    slice_to b (n - 1)
  else b.

Section PkgGlue.
  (* strconv.AppendFloat(dst, f, fmt, -1, bitSize); the precision argument is the constant -1 at every call *)
  Variable append_float : bytes -> float_repr -> Z -> Z -> bytes.

  (* func (e encoder) encodeFloat(b []byte, f float64, bits int) ([]byte, error) *)
  Definition pkg_encode_float (b : bytes) (f : float_repr) (bits : Z) : fres :=
    (* switch { case math.IsNaN(f): return b, &UnsupportedValueError{.., Str: NaN}
                case math.IsInf(f, 0): return b, &UnsupportedValueError{.., Str: inf} } *)
    if fr_nan f then FUnsupported b [78; 97; 78]
    else if fr_inf f then FUnsupported b [105; 110; 102]
    else
      (* abs := math.Abs(f); fmt := byte('f') *)
      let fmt := ch_f in
      (* if abs != 0 { if bits == 64 && (abs < 1e-6 || abs >= 1e21) ||
                          bits == 32 && (float32(abs) < 1e-6 || float32(abs) >= 1e21) { fmt = 'e' } } *)
      let fmt :=
        if fr_nonzero f then
          if ((bits =? 64) && (fr_lt64 f || fr_ge64 f)) || ((bits =? 32) && (fr_lt32 f || fr_ge32 f))
          then ch_e else fmt
        else fmt in
      (* b = strconv.AppendFloat(b, f, fmt, -1, int(bits)) *)
      let b := append_float b f fmt bits in
      (* if fmt == 'e' { clean up e-09 to e-9 } *)
      let b := if fmt =? ch_e then pkg_clean_exp b else b in
      (* return b, nil *)
      FOk b.

  (* encodeFloat32(b, p) = e.encodeFloat(b, float64( *( *float32)(p)), 32): the widening conversion is exact, the
     payload stands for the widened value; encodeFloat64(b, p) = e.encodeFloat(b, *( *float64)(p), 64) *)
  Definition pkg_encode_float32 (b : bytes) (f : float_repr) : fres := pkg_encode_float b f 32.
  Definition pkg_encode_float64 (b : bytes) (f : float_repr) : fres := pkg_encode_float b f 64.
End PkgGlue.

(* ---- the IEEE-754 reading of the record, for the correspondence check ----
   u64 = math.Float64bits(f), u32 = math.Float32bits(float32(f)). math.Abs clears the sign bit. Among non-NaN values
   of one sign the order of the values is the order of the bit patterns; every comparison with a NaN is false.
   The four thresholds are the bit patterns of the constants after Go's conversion of the untyped constants 1e-6 and
   1e21 to float64 / float32 (round to nearest even; FloatProofs.v proves that they are the nearest values). *)
Definition f64_exp_mask : Z := 0x7FF0000000000000.
Definition f32_exp_mask : Z := 0x7F800000.
Definition f64_1e_6 : Z := 0x3EB0C6F7A0B5ED8D.
Definition f64_1e21 : Z := 0x444B1AE4D6E2EF50.
Definition f32_1e_6 : Z := 0x358637BD.
Definition f32_1e21 : Z := 0x6258D727.

Definition float_repr_of_bits (u64 u32 : Z) : float_repr :=
  let a64 := Z.land u64 (2 ^ 63 - 1) in
  let a32 := Z.land u32 (2 ^ 31 - 1) in
  let nan64 := a64 >? f64_exp_mask in
  let nan32 := a32 >? f32_exp_mask in
  {| fr_nan := nan64;
     fr_inf := a64 =? f64_exp_mask;
     fr_nonzero := negb (a64 =? 0);
     fr_lt64 := negb nan64 && (a64 <? f64_1e_6);
     fr_ge64 := negb nan64 && (a64 >=? f64_1e21);
     fr_lt32 := negb nan32 && (a32 <? f32_1e_6);
     fr_ge32 := negb nan32 && (a32 >=? f32_1e21);
     fr_payload := u64 |}.

(* the value of a finite positive float64 / float32 bit pattern as a dyadic rational  m * 2^e  (returned as (m, e)) *)
Definition f64_decode (a : Z) : Z * Z :=
  let ex := Z.shiftr a 52 in
  let mant := Z.land a (2 ^ 52 - 1) in
  if ex =? 0 then (mant, -1074) else (2 ^ 52 + mant, ex - 1075).
Definition f32_decode (a : Z) : Z * Z :=
  let ex := Z.shiftr a 23 in
  let mant := Z.land a (2 ^ 23 - 1) in
  if ex =? 0 then (mant, -149) else (2 ^ 23 + mant, ex - 150).
