(* C02 structural part: proofs of the statements of Json/TreeObjSpec.v: a struct is decoded from an object whose
   members come in any order, with unknown members anywhere, absent fields keeping their zero value.
   Built on Json/TreeProofs.v (the decoder on the encoding of a value: dec_all) and on Json/TreeEncProofs.v
   (the encoding of a value is accepted by the skipper g_value: tree_toks_value). *)
From Coq Require Import Lia ZifyBool ZifyNat.
From Verif Require Import Base.GoInt Json.Grammar Json.FlagsModel Json.FlagsSpec Json.StrModel Json.StrSpec Json.StrSpecProofs
  Json.NumModel Json.NumSpec Json.NumProofs Json.TreeModel Json.TreeSpec Json.TreeProofs Json.TreeObjSpec.
From Verif Require Json.TreeEncProofs.
Open Scope Z_scope.

(* ================================ the two copies of inter / stop ================================ *)
Lemma inter_enc toks doc rest : inter toks doc rest -> TreeEncProofs.inter toks doc rest.
Proof. induction 1 as [|w tok toks doc rest Hw Hi IH]; constructor; assumption. Qed.

Lemma inter_stop_b c tk toks mid rest :
  inter ((c :: tk) :: toks) mid rest -> stopc c -> TreeEncProofs.stop mid = true.
Proof.
  intros H Hc. inversion H as [|w tok' toks' doc' rest' Hw Hi]; subst.
  destruct w as [|x w]; cbn [app].
  - unfold TreeEncProofs.stop. destruct Hc as [Hc|[Hc|Hc]]; subst c; reflexivity.
  - unfold wsb in Hw. cbn [forallb] in Hw. apply andb_true_iff in Hw. destruct Hw as [Hx _].
    unfold TreeEncProofs.stop. rewrite Hx. reflexivity.
Qed.

(* ================================ fields by position ================================ *)
Lemma fcount_flen fs : fcount fs = flen fs.
Proof. induction fs as [|n o t r IH]; cbn [fcount flen]; [reflexivity|]. rewrite IH. reflexivity. Qed.
Lemma length_jzeros fs : length (jzeros fs) = flen fs.
Proof. induction fs as [|n o t r IH]; cbn [jzeros length flen]; [reflexivity|]. rewrite IH. reflexivity. Qed.

Lemma fnth_names : forall fs i name o t, fnth fs i = Some (name, o, t) -> In name (jnames fs).
Proof.
  induction fs as [|n' o' t' r IH]; intros i name o t H; [discriminate|].
  destruct i as [|j]; cbn [fnth] in H; cbn [jnames].
  - inversion H; subst. left. reflexivity.
  - right. eapply IH, H.
Qed.
Lemma fnth_ok : forall fs i name o t, fields_ok fs = true -> fnth fs i = Some (name, o, t) ->
  name_ok name = true /\ ty_ok t = true.
Proof.
  induction fs as [|n' o' t' r IH]; intros i name o t Hok H; [discriminate|].
  cbn [fields_ok] in Hok. apply andb_true_iff in Hok. destruct Hok as [Hok Hr].
  apply andb_true_iff in Hok. destruct Hok as [Hn Ht].
  destruct i as [|j]; cbn [fnth] in H.
  - inversion H; subst. split; assumption.
  - eapply IH; eassumption.
Qed.
Lemma fnth_zeros : forall fs i name o t, fnth fs i = Some (name, o, t) -> nth i (jzeros fs) VNil = jzero t.
Proof.
  induction fs as [|n' o' t' r IH]; intros i name o t H; [discriminate|].
  destruct i as [|j]; cbn [fnth] in H; cbn [jzeros nth].
  - inversion H; subst. reflexivity.
  - eapply IH, H.
Qed.
Lemma fnth_lt : forall fs i name o t, fnth fs i = Some (name, o, t) -> (i < flen fs)%nat.
Proof.
  induction fs as [|n' o' t' r IH]; intros i name o t H; [discriminate|].
  destruct i as [|j]; cbn [fnth] in H; cbn [flen]; [lia|].
  apply IH in H. lia.
Qed.
Lemma fnth_some : forall fs i, (i < flen fs)%nat -> exists name o t, fnth fs i = Some (name, o, t).
Proof.
  induction fs as [|n' o' t' r IH]; intros i H; cbn [flen] in H; [lia|].
  destruct i as [|j]; cbn [fnth]; [eauto|]. apply IH. lia.
Qed.

(* list update *)
Lemma upd_length x : forall l i, length (upd i x l) = length l.
Proof.
  induction l as [|y l IH]; intros i; [reflexivity|].
  destruct i as [|j]; cbn [upd length]; [reflexivity|]. rewrite IH. reflexivity.
Qed.
Lemma nth_upd_same x : forall l i, (i < length l)%nat -> nth i (upd i x l) VNil = x.
Proof.
  induction l as [|y l IH]; intros i H; cbn [length] in H; [lia|].
  destruct i as [|j]; cbn [upd nth]; [reflexivity|]. apply IH. lia.
Qed.
Lemma nth_upd_other x : forall l i j, i <> j -> nth j (upd i x l) VNil = nth j l VNil.
Proof.
  induction l as [|y l IH]; intros i j H; [reflexivity|].
  destruct i as [|i']; destruct j as [|j']; cbn [upd nth]; try reflexivity; [congruence|].
  apply IH. congruence.
Qed.

Lemma existsb_false_in {A} (f : A -> bool) l x : existsb f l = false -> In x l -> f x = false.
Proof.
  intros H Hin. destruct (f x) eqn:E; [|reflexivity].
  rewrite <- H. symmetry. apply existsb_exists. exists x. split; assumption.
Qed.

Lemma in_existsb k l : In k l -> existsb (bytes_eqb k) l = true.
Proof. intros H. apply existsb_exists. exists k. split; [exact H|apply bytes_eqb_refl]. Qed.

(* decoding into the field number i *)
Lemma dec_field_nth fuel : forall fs i name o t curs b,
  fnth fs i = Some (name, o, t) -> distinct (jnames fs) = true -> length curs = flen fs ->
  dec_field fs fuel name curs b =
    if negb (jmergeable t) && negb (jis_zero t (nth i curs VNil)) then DOut
    else dbind (dec t fuel (nth i curs VNil) b) (fun vr => DOk (Some (upd i (fst vr) curs, snd vr))).
Proof.
  induction fs as [|n' o' t' r IH]; intros i name o t curs b Hn Hd Hl; [discriminate|].
  destruct curs as [|c curs]; [discriminate|]. cbn [flen length] in Hl.
  cbn [jnames distinct] in Hd. apply andb_true_iff in Hd. destruct Hd as [Hd1 Hd2]. apply negb_true_iff in Hd1.
  destruct i as [|j]; cbn [fnth] in Hn.
  - inversion Hn; subst. cbn [dec_field nth upd]. rewrite bytes_eqb_refl. reflexivity.
  - pose proof (fnth_names r j name o t Hn) as Hin.
    pose proof (existsb_false_in _ _ _ Hd1 Hin) as Hne. apply bytes_eqb_sym_false in Hne.
    assert (Hl' : length curs = flen r) by (clear - Hl; lia).
    cbn [dec_field nth upd]. rewrite Hne. rewrite (IH j name o t curs b Hn Hd2 Hl').
    destruct (negb (jmergeable t) && negb (jis_zero t (nth j curs VNil))); [reflexivity|].
    destruct (dec t fuel (nth j curs VNil) b) as [[v' r']| |]; reflexivity.
Qed.

(* a key that selects a field case-insensitively *)
Lemma name_ok_ascii k : name_ok k = true -> existsb (fun c => 128 <=? c) k = false.
Proof.
  unfold name_ok. intros H. apply andb_true_iff in H. destruct H as [_ H].
  induction k as [|c k IH]; [reflexivity|].
  cbn [forallb] in H. apply andb_true_iff in H. destruct H as [H1 H2].
  cbn [existsb]. rewrite (IH H2), orb_false_r. unfold is_alnum in H1. clear - H1. lia.
Qed.
Lemma resolve_fold names k name :
  existsb (bytes_eqb k) names = false -> existsb (fun c => 128 <=? c) k = false ->
  fold_find names k = Some name -> resolve_key names k = Some name.
Proof. unfold resolve_key, fold_find. intros H1 H2 H3. rewrite H1, H2, H3. reflexivity. Qed.

(* a key that is the name of no field *)
Lemma dec_field_miss fuel k : forall fs curs b,
  existsb (bytes_eqb k) (jnames fs) = false -> dec_field fs fuel k curs b = DOk None.
Proof.
  induction fs as [|n o t r IH]; intros curs b H; [reflexivity|].
  destruct curs as [|c curs]; [reflexivity|].
  cbn [jnames existsb] in H. apply orb_false_iff in H. destruct H as [H1 H2].
  cbn [dec_field]. rewrite H1, (IH curs b H2). reflexivity.
Qed.

(* ================================ the member loop ================================ *)
(* the fields that are still to come hold their zero value *)
Definition inv (fs : jfields) (ids : list nat) (curs : list jval) : Prop :=
  forall i name o t, In i ids -> fnth fs i = Some (name, o, t) -> nth i curs VNil = jzero t.

Lemma obj_loop_ok fs fuel : fields_ok fs = true -> distinct (jnames fs) = true ->
  forall ms curs first f doc rest,
    length curs = flen fs -> forallb (member_ok fs) ms = true -> NoDup (field_ids ms) ->
    inv fs (field_ids ms) curs ->
    inter (seq_toks first (map (member_toks fs) ms) ++ [[125]]) doc rest -> stops rest ->
    (length doc < f)%nat -> (length doc < fuel)%nat ->
    dec_struct_loop (dec_field fs fuel) (jnames fs) fuel f first curs doc
      = DOk (fold_left (apply_member fs) ms curs, rest).
Proof.
  intros Hfok Hdis. induction ms as [|m ms IH];
    intros curs first f doc rest Hlen Hok Hnd Hinv Hi Hst Hf Hfuel;
    (destruct f as [|f]; [clear - Hf; lia|]).
  - cbn [map seq_toks app] in Hi.
    destruct (next_tok 125 [] [] doc rest Hi eq_refl) as [doc' [E [Hi' _]]].
    assert (doc' = rest) by (inversion Hi'; reflexivity). subst doc'.
    cbn [dec_struct_loop fold_left]. rewrite E. cbn [app]. rewrite starts_with_hit. reflexivity.
  - cbn [forallb] in Hok. apply andb_true_iff in Hok. destruct Hok as [Hm Hok].
    assert (Common : forall docE, (length docE <= length doc)%nat ->
      inter (member_toks fs m ++ sep_toks' (map (member_toks fs) ms) ++ [[125]]) docE rest ->
      starts_with 125 (skip_ws docE) = None /\
      match uq_lit (skip_ws docE) with
      | None => DErr
      | Some (k, r1) =>
        match starts_with 58 (skip_ws r1) with
        | Some r2 =>
          match resolve_key (jnames fs) k with
          | None => DOut
          | Some k' =>
            dbind (dec_field fs fuel k' curs (skip_ws r2)) (fun o0 =>
              match o0 with
              | Some (curs', r3) => dec_struct_loop (dec_field fs fuel) (jnames fs) fuel f false curs' r3
              | None =>
                match g_value fuel (skip_ws r2) with
                | None => DErr
                | Some r3 => dec_struct_loop (dec_field fs fuel) (jnames fs) fuel f false curs r3
                end
              end)
          end
        | None => DErr
        end
      end = DOk (fold_left (apply_member fs) ms (apply_member fs curs m), rest)).
    { intros docE Le HiE.
      destruct (sep_close (map (member_toks fs) ms) 125 (or_intror (or_intror eq_refl))) as [c [tk [toks [Em Hc]]]].
      destruct m as [i v|i k v|k t v].
      - (* a field *)
        cbn [member_ok] in Hm. cbn [member_toks] in HiE. cbn [apply_member].
        destruct (fnth fs i) as [[[name o] t]|] eqn:En; [|discriminate Hm].
        destruct (fnth_ok fs i name o t Hfok En) as [Hname Htok].
        cbn [field_ids] in Hnd, Hinv.
        assert (Hni : ~ In i (field_ids ms)) by (inversion Hnd; assumption).
        assert (Hnd' : NoDup (field_ids ms)) by (inversion Hnd; assumption).
        cbn [app] in HiE.
        assert (Hq : quote name = 34 :: (name ++ [34])) by reflexivity.
        rewrite Hq in HiE.
        destruct (next_tok 34 _ _ docE rest HiE eq_refl) as [d1 [E1 [Hi1 L1]]].
        destruct (next_tok 58 [] _ d1 rest Hi1 eq_refl) as [d2 [E2 [Hi2 L2]]].
        destruct (value_then t v _ d2 rest c tk toks Htok Hm Hi2 Em Hc) as [mid [H1 [H2 [Hsm Lm]]]].
        assert (F1 : (length d2 < fuel)%nat) by (clear - L1 L2 Le Hfuel; lia).
        assert (F2 : (length mid < f)%nat) by (clear - L1 L2 Le Lm Hf; lia).
        assert (F3 : (length mid < fuel)%nat) by (clear - L1 L2 Le Lm Hfuel; lia).
        split.
        + rewrite E1. apply starts_with_miss. discriminate.
        + rewrite E1. change (34 :: (name ++ [34]) ++ d1) with (quote name ++ d1).
          rewrite (uq_quote name d1 Hname).
          rewrite E2. cbn [app]. rewrite starts_with_hit.
          rewrite (resolve_exact _ _ (in_existsb _ _ (fnth_names fs i name o t En))).
          rewrite (dec_field_nth fuel fs i name o t curs _ En Hdis Hlen).
          rewrite (Hinv i name o t (or_introl eq_refl) En).
          rewrite jis_zero_zero. cbn [negb]. rewrite andb_false_r.
          rewrite (dec_all t Htok v fuel d2 mid Hm H1 Hsm F1). cbn [dbind fst snd].
          rewrite <- seq_toks_false in H2.
          apply IH; try assumption.
          * rewrite upd_length. exact Hlen.
          * intros j n' o' t' Hj Ej. rewrite nth_upd_other.
            -- apply (Hinv j n' o' t' (or_intror Hj) Ej).
            -- intros Hij. subst j. contradiction.
      - (* a field under a key that differs in the case of letters *)
        cbn [member_ok] in Hm. cbn [member_toks] in HiE. cbn [apply_member].
        destruct (fnth fs i) as [[[name o] t]|] eqn:En; [|discriminate Hm].
        destruct (fnth_ok fs i name o t Hfok En) as [Hname Htok].
        apply andb_true_iff in Hm. destruct Hm as [Hm Hfind].
        apply andb_true_iff in Hm. destruct Hm as [Hm Hex].
        apply andb_true_iff in Hm. destruct Hm as [Hkok Hv].
        apply negb_true_iff in Hex.
        assert (Hres : resolve_key (jnames fs) k = Some name).
        { apply resolve_fold; [exact Hex|apply name_ok_ascii, Hkok|].
          destruct (fold_find (jnames fs) k) as [n|]; [|discriminate Hfind].
          apply bytes_eqb_eq in Hfind. subst n. reflexivity. }
        cbn [field_ids] in Hnd, Hinv.
        assert (Hni : ~ In i (field_ids ms)) by (inversion Hnd; assumption).
        assert (Hnd' : NoDup (field_ids ms)) by (inversion Hnd; assumption).
        cbn [app] in HiE.
        assert (Hq : quote k = 34 :: (k ++ [34])) by reflexivity.
        rewrite Hq in HiE.
        destruct (next_tok 34 _ _ docE rest HiE eq_refl) as [d1 [E1 [Hi1 L1]]].
        destruct (next_tok 58 [] _ d1 rest Hi1 eq_refl) as [d2 [E2 [Hi2 L2]]].
        destruct (value_then t v _ d2 rest c tk toks Htok Hv Hi2 Em Hc) as [mid [H1 [H2 [Hsm Lm]]]].
        assert (F1 : (length d2 < fuel)%nat) by (clear - L1 L2 Le Hfuel; lia).
        assert (F2 : (length mid < f)%nat) by (clear - L1 L2 Le Lm Hf; lia).
        assert (F3 : (length mid < fuel)%nat) by (clear - L1 L2 Le Lm Hfuel; lia).
        split.
        + rewrite E1. apply starts_with_miss. discriminate.
        + rewrite E1. change (34 :: (k ++ [34]) ++ d1) with (quote k ++ d1).
          rewrite (uq_quote k d1 Hkok).
          rewrite E2. cbn [app]. rewrite starts_with_hit.
          rewrite Hres.
          rewrite (dec_field_nth fuel fs i name o t curs _ En Hdis Hlen).
          rewrite (Hinv i name o t (or_introl eq_refl) En).
          rewrite jis_zero_zero. cbn [negb]. rewrite andb_false_r.
          rewrite (dec_all t Htok v fuel d2 mid Hv H1 Hsm F1). cbn [dbind fst snd].
          rewrite <- seq_toks_false in H2.
          apply IH; try assumption.
          * rewrite upd_length. exact Hlen.
          * intros j n' o' t' Hj Ej. rewrite nth_upd_other.
            -- apply (Hinv j n' o' t' (or_intror Hj) Ej).
            -- intros Hij. subst j. contradiction.
      - (* an unknown member *)
        cbn [member_ok] in Hm.
        apply andb_true_iff in Hm. destruct Hm as [Hm Hfold].
        apply andb_true_iff in Hm. destruct Hm as [Hm Hex].
        apply andb_true_iff in Hm. destruct Hm as [Hm Hv].
        apply andb_true_iff in Hm. destruct Hm as [Hk Htok].
        apply negb_true_iff in Hfold. apply negb_true_iff in Hex.
        cbn [member_toks app] in HiE. cbn [apply_member]. cbn [field_ids] in Hnd, Hinv.
        assert (Hq : std_escape true k = 34 :: (std_escape_body true 0 k ++ [34])) by reflexivity.
        rewrite Hq in HiE.
        destruct (next_tok 34 _ _ docE rest HiE eq_refl) as [d1 [E1 [Hi1 L1]]].
        destruct (next_tok 58 [] _ d1 rest Hi1 eq_refl) as [d2 [E2 [Hi2 L2]]].
        destruct (value_then t v _ d2 rest c tk toks Htok Hv Hi2 Em Hc) as [mid [H1 [H2 [Hsm Lm]]]].
        assert (F1 : (length d2 < fuel)%nat) by (clear - L1 L2 Le Hfuel; lia).
        assert (F2 : (length mid < f)%nat) by (clear - L1 L2 Le Lm Hf; lia).
        assert (F3 : (length mid < fuel)%nat) by (clear - L1 L2 Le Lm Hfuel; lia).
        assert (Hsb : TreeEncProofs.stop mid = true).
        { pose proof H2 as H2c. rewrite Em in H2c. eapply inter_stop_b; eassumption. }
        split.
        + rewrite E1. apply starts_with_miss. discriminate.
        + rewrite E1. change (34 :: (std_escape_body true 0 k ++ [34]) ++ d1) with (std_escape true k ++ d1).
          rewrite (unquote_escape true k d1 Hk).
          rewrite E2. cbn [app]. rewrite starts_with_hit.
          rewrite (resolve_unknown _ _ Hex Hfold).
          rewrite (dec_field_miss fuel (sanitize k) fs curs _ Hex). cbn [dbind].
          rewrite (TreeEncProofs.tree_toks_value t v Htok Hv d2 mid fuel (inter_enc _ _ _ H1) Hsb F1).
          rewrite <- seq_toks_false in H2.
          apply IH; assumption. }
    cbn [map seq_toks] in Hi. cbn [dec_struct_loop fold_left].
    destruct first.
    + rewrite <- app_assoc in Hi. destruct (Common doc (le_n _) Hi) as [C1 C2].
      rewrite C1. cbn [dbind]. exact C2.
    + rewrite <- app_assoc in Hi. cbn [app] in Hi.
      destruct (next_tok 44 [] _ doc rest Hi eq_refl) as [doc' [E [Hi' L]]].
      rewrite E. cbn [app]. rewrite starts_with_miss by discriminate. rewrite starts_with_hit. cbn [dbind].
      assert (Ld : (length doc' <= length doc)%nat) by (clear - L; lia).
      destruct (Common doc' Ld Hi') as [_ C2]. exact C2.
Qed.

(* ================================ the statement ================================ *)
Lemma inv_zeros fs ids : inv fs ids (jzeros fs).
Proof. intros i name o t _ E. eapply fnth_zeros, E. Qed.

Lemma tree_obj_any_order : tree_obj_any_order_statement.
Proof.
  intros ws fs ms fuel Hws Hok Hms Hnd Hfuel.
  remember (ws (0 + length (obj_toks fs ms))%nat) as wend eqn:Ew.
  assert (Hwend : wsb wend) by (subst wend; apply Hws).
  destruct (render_inter ws Hws (obj_toks fs ms) 0%nat wend) as [body [E Hi]].
  rewrite <- Ew in E. rewrite E in *. unfold jdec.
  cbn [ty_ok] in Hok. apply andb_true_iff in Hok. destruct Hok as [Hfok Hdis].
  unfold obj_toks in Hi. cbn [app] in Hi.
  destruct (next_tok 123 [] _ _ _ Hi eq_refl) as [d1 [E1 [Hi1 L1]]].
  rewrite E1. cbn [dec jzero nullp app]. rewrite starts_with_hit.
  rewrite sep_toks_seq in Hi1.
  assert (F1 : (length d1 < fuel)%nat) by (clear - L1 Hfuel; lia).
  rewrite (obj_loop_ok fs fuel Hfok Hdis ms (jzeros fs) true fuel d1 wend (length_jzeros fs) Hms Hnd
             (inv_zeros fs _) Hi1 (wsb_stops _ Hwend) F1 F1).
  cbn [dbind fst snd]. rewrite skip_ws_all by exact Hwend. reflexivity.
Qed.

(* ================================ what apply_members is ================================ *)
Lemma apply_member_length fs curs m : length (apply_member fs curs m) = length curs.
Proof.
  destruct m as [i v|i k v|k t v]; cbn [apply_member]; [| |reflexivity];
    (destruct (fnth fs i) as [[[n o] t]|]; [apply upd_length|reflexivity]).
Qed.
Lemma fold_apply_length fs : forall ms curs, length (fold_left (apply_member fs) ms curs) = length curs.
Proof.
  induction ms as [|m ms IH]; intros curs; [reflexivity|].
  cbn [fold_left]. rewrite IH. apply apply_member_length.
Qed.
Lemma fold_apply_out fs : forall ms curs i, ~ In i (field_ids ms) ->
  nth i (fold_left (apply_member fs) ms curs) VNil = nth i curs VNil.
Proof.
  induction ms as [|m ms IH]; intros curs i Hn; [reflexivity|].
  cbn [fold_left]. destruct m as [j v|j k v|k t v]; cbn [field_ids] in Hn.
  - rewrite IH by (intros H; apply Hn; right; exact H).
    cbn [apply_member]. destruct (fnth fs j) as [[[n o] t]|]; [|reflexivity].
    apply nth_upd_other. intros Hij. subst j. apply Hn. left. reflexivity.
  - rewrite IH by (intros H; apply Hn; right; exact H).
    cbn [apply_member]. destruct (fnth fs j) as [[[n o] t]|]; [|reflexivity].
    apply nth_upd_other. intros Hij. subst j. apply Hn. left. reflexivity.
  - rewrite IH by exact Hn. reflexivity.
Qed.
Definition sets (i : nat) (v : jval) (m : member) : Prop := m = MField i v \/ exists k, m = MFold i k v.
Lemma fold_apply_in fs : forall ms curs i v name o t,
  NoDup (field_ids ms) -> (exists m, In m ms /\ sets i v m) -> fnth fs i = Some (name, o, t) -> (i < length curs)%nat ->
  nth i (fold_left (apply_member fs) ms curs) VNil = jnorm t v.
Proof.
  induction ms as [|m ms IH]; intros curs i v name o t Hnd Hin En Hl;
    [destruct Hin as [m0 [Hin _]]; contradiction|].
  cbn [fold_left]. destruct Hin as [m0 [[Hm|Hin] Hs]].
  - subst m0. assert (Hni : ~ In i (field_ids ms)).
    { destruct Hs as [Hs|[k Hs]]; subst m; cbn [field_ids] in Hnd; inversion Hnd; assumption. }
    rewrite fold_apply_out by exact Hni.
    destruct Hs as [Hs|[k Hs]]; subst m; cbn [apply_member]; rewrite En; apply nth_upd_same, Hl.
  - apply (IH _ i v name o t).
    + destruct m as [j w|j k w|k t' w]; cbn [field_ids] in Hnd;
        [inversion Hnd; assumption|inversion Hnd; assumption|exact Hnd].
    + exists m0. split; assumption.
    + exact En.
    + rewrite apply_member_length. exact Hl.
Qed.

Lemma apply_members_spec : apply_members_spec_statement.
Proof.
  intros fs ms Hnd. unfold apply_members. split.
  - rewrite fold_apply_length. rewrite length_jzeros. symmetry. apply fcount_flen.
  - intros i name o t En.
    assert (Hl : (i < length (jzeros fs))%nat) by (rewrite length_jzeros; eapply fnth_lt, En).
    split; [|split].
    + intros v Hin. apply (fold_apply_in fs ms (jzeros fs) i v name o t Hnd); [|exact En|exact Hl].
      exists (MField i v). split; [exact Hin|left; reflexivity].
    + intros k v Hin. apply (fold_apply_in fs ms (jzeros fs) i v name o t Hnd); [|exact En|exact Hl].
      exists (MFold i k v). split; [exact Hin|right; exists k; reflexivity].
    + intros Hn. rewrite fold_apply_out by exact Hn. eapply fnth_zeros, En.
Qed.

(* ================================ the order of the members does not matter ================================ *)
Lemma field_ids_in i : forall ms, In i (field_ids ms) <-> exists v m, In m ms /\ sets i v m.
Proof.
  induction ms as [|m ms IH]; cbn [field_ids].
  - split; [contradiction|]. intros [v [m [H _]]]. exact H.
  - destruct m as [j w|j k w|k t w]; cbn [field_ids]; split.
    + intros [H|H]; [subst j; exists w, (MField i w); split; [left; reflexivity|left; reflexivity]|].
      apply IH in H. destruct H as [v [m [H S]]]. exists v, m. split; [right; exact H|exact S].
    + intros [v [m [[H|H] S]]].
      * subst m. destruct S as [S|[k S]]; inversion S; subst. left. reflexivity.
      * right. apply IH. exists v, m. split; assumption.
    + intros [H|H]; [subst j; exists w, (MFold i k w); split; [left; reflexivity|right; exists k; reflexivity]|].
      apply IH in H. destruct H as [v [m [H S]]]. exists v, m. split; [right; exact H|exact S].
    + intros [v [m [[H|H] S]]].
      * subst m. destruct S as [S|[k' S]]; inversion S; subst. left. reflexivity.
      * right. apply IH. exists v, m. split; assumption.
    + intros H. apply IH in H. destruct H as [v [m [H S]]]. exists v, m. split; [right; exact H|exact S].
    + intros [v [m [[H|H] S]]].
      * subst m. destruct S as [S|[k' S]]; discriminate S.
      * apply IH. exists v, m. split; assumption.
Qed.

Lemma apply_members_perm fs ms1 ms2 :
  NoDup (field_ids ms1) -> NoDup (field_ids ms2) -> (forall m, In m ms1 <-> In m ms2) ->
  apply_members fs ms1 = apply_members fs ms2.
Proof.
  intros N1 N2 Hp.
  destruct (apply_members_spec fs ms1 N1) as [L1 S1].
  destruct (apply_members_spec fs ms2 N2) as [L2 S2].
  apply (nth_ext _ _ VNil VNil); [rewrite L1, L2; reflexivity|].
  intros i Hi. rewrite L1, fcount_flen in Hi.
  destruct (fnth_some fs i Hi) as [name [o [t En]]].
  destruct (S1 i name o t En) as [A1 [C1 B1]]. destruct (S2 i name o t En) as [A2 [C2 B2]].
  destruct (in_dec Nat.eq_dec i (field_ids ms1)) as [Hin|Hout].
  - apply field_ids_in in Hin. destruct Hin as [v [m [Hm [S|[k S]]]]]; subst m.
    + rewrite (A1 v Hm). rewrite (A2 v (proj1 (Hp _) Hm)). reflexivity.
    + rewrite (C1 k v Hm). rewrite (C2 k v (proj1 (Hp _) Hm)). reflexivity.
  - rewrite (B1 Hout). rewrite B2; [reflexivity|].
    intros H2. apply Hout. apply field_ids_in in H2. destruct H2 as [v [m [Hm S]]].
    apply field_ids_in. exists v, m. split; [apply Hp, Hm|exact S].
Qed.

Lemma tree_obj_permutation : tree_obj_permutation_statement.
Proof.
  intros ws1 ws2 fs ms1 ms2 fuel W1 W2 Hok M1 N1 Hp N2 F1 F2.
  assert (M2 : forallb (member_ok fs) ms2 = true).
  { apply forallb_forall. intros m Hm. rewrite forallb_forall in M1. apply M1, Hp, Hm. }
  rewrite (tree_obj_any_order ws1 fs ms1 fuel W1 Hok M1 N1 F1).
  rewrite (tree_obj_any_order ws2 fs ms2 fuel W2 Hok M2 N2 F2).
  rewrite (apply_members_perm fs ms1 ms2 N1 N2 Hp). reflexivity.
Qed.

Print Assumptions tree_obj_any_order.
Print Assumptions apply_members_spec.
Print Assumptions tree_obj_permutation.
