(* Proofs of the C06 statements about the encoder's cycle detection (Json/CycleSpec.v). *)
From Coq Require Import List Arith Bool Lia.
From Verif Require Import Json.CycleModel Json.CycleSpec.
Import ListNotations.

(* ---------- unfolding ---------- *)
Lemma enc_S : forall f g thr depth seen n,
  enc (S f) g thr depth seen n =
  match nth_error g n with
  | None => (Ok, seen)
  | Some nd =>
      match nkind nd with
      | KLeaf => (Ok, seen)
      | KIface | KStruct => each (enc f g thr depth) (nkids nd) seen
      | _ => if thr <=? S depth then
               if mem n seen then (CycleAt n, seen)
               else let (r, s') := each (enc f g thr (S depth)) (nkids nd) (n :: seen) in (r, del n s')
             else each (enc f g thr (S depth)) (nkids nd) seen
      end
  end.
Proof. reflexivity. Qed.

Lemma encp_S : forall f g thr depth seen n,
  encp (S f) g thr depth seen n =
  match nth_error g n with
  | None => Ok
  | Some nd =>
      match nkind nd with
      | KLeaf => Ok
      | KIface | KStruct => eachp (encp f g thr depth seen) (nkids nd)
      | _ => if thr <=? S depth then
               if mem n seen then CycleAt n
               else eachp (encp f g thr (S depth) (n :: seen)) (nkids nd)
             else eachp (encp f g thr (S depth) seen) (nkids nd)
      end
  end.
Proof. reflexivity. Qed.

Lemma encd_S : forall f g thr depth seen n,
  encd (S f) g thr depth seen n =
  match nth_error g n with
  | None => (Ok, depth)
  | Some nd =>
      match nkind nd with
      | KLeaf => (Ok, depth)
      | KIface | KStruct => eachd (encd f g thr depth seen) (nkids nd) depth
      | _ => if thr <=? S depth then
               if mem n seen then (CycleAt n, S depth)
               else eachd (encd f g thr (S depth) (n :: seen)) (nkids nd) (S depth)
             else eachd (encd f g thr (S depth) seen) (nkids nd) (S depth)
      end
  end.
Proof. reflexivity. Qed.

(* ---------- sets as lists ---------- *)
Lemma mem_In : forall n l, mem n l = true <-> In n l.
Proof.
  induction l as [|x r IH]; simpl.
  - split; [discriminate | tauto].
  - rewrite orb_true_iff, Nat.eqb_eq, IH. tauto.
Qed.

Lemma mem_notin : forall n l, mem n l = false -> ~ In n l.
Proof. intros n l H HI. apply mem_In in HI. congruence. Qed.

Lemma del_notin : forall n l, mem n l = false -> del n l = l.
Proof.
  induction l as [|x r IH]; simpl; intros H; auto.
  apply orb_false_iff in H as [H1 H2]. rewrite H1. f_equal; auto.
Qed.

Lemma del_cons_same : forall n l, del n (n :: l) = del n l.
Proof. intros; simpl. rewrite Nat.eqb_refl. reflexivity. Qed.

(* ---------- the mutable set is a set passed down ---------- *)
Lemma each_refine : forall (F : list nat -> nat -> result * list nat) (Fp : nat -> result) seen,
  (forall c, F seen c = (Fp c, seen)) -> forall l, each F l seen = (eachp Fp l, seen).
Proof.
  intros F Fp seen H l. induction l as [|c r IH]; simpl; auto.
  rewrite H. destruct (Fp c); auto.
Qed.

Lemma enc_refine : refine_statement.
Proof.
  unfold refine_statement. induction fuel as [|f IH]; intros g thr depth seen n.
  - reflexivity.
  - rewrite enc_S, encp_S. destruct (nth_error g n) as [nd|]; auto.
    assert (T : (if thr <=? S depth
                 then if mem n seen then (CycleAt n, seen)
                      else let (r, s') := each (enc f g thr (S depth)) (nkids nd) (n :: seen) in (r, del n s')
                 else each (enc f g thr (S depth)) (nkids nd) seen) =
                ((if thr <=? S depth
                  then if mem n seen then CycleAt n else eachp (encp f g thr (S depth) (n :: seen)) (nkids nd)
                  else eachp (encp f g thr (S depth) seen) (nkids nd)), seen)).
    { destruct (thr <=? S depth).
      - destruct (mem n seen) eqn:M; auto.
        rewrite (each_refine _ (encp f g thr (S depth) (n :: seen))) by (intros; apply IH).
        rewrite del_cons_same, del_notin by assumption. reflexivity.
      - apply each_refine. intros; apply IH. }
    destruct (nkind nd); auto; apply each_refine; intros; apply IH.
Qed.

Lemma encode_encp : forall fuel g thr root, encode fuel g thr root = encp fuel g thr 0 [] root.
Proof. intros. unfold encode. rewrite enc_refine. reflexivity. Qed.

Lemma eachd_fst : forall (F : nat -> result * nat) (Fp : nat -> result),
  (forall c, fst (F c) = Fp c) -> forall l m, fst (eachd F l m) = eachp Fp l.
Proof.
  intros F Fp H l. induction l as [|c r IH]; intros m; simpl; auto.
  specialize (H c). destruct (F c) as [res m1]. simpl in H. subst. destruct (Fp c); simpl; auto.
Qed.

Lemma encd_fst : instrument_statement.
Proof.
  unfold instrument_statement. induction fuel as [|f IH]; intros g thr depth seen n.
  - reflexivity.
  - rewrite encd_S, encp_S. destruct (nth_error g n) as [nd|]; auto.
    destruct (nkind nd); auto;
      try (destruct (thr <=? S depth); [destruct (mem n seen); auto|]);
      apply eachd_fst; intros; apply IH.
Qed.

(* ---------- facts about eachp ---------- *)
Lemma eachp_cycle : forall (F : nat -> result) l m, eachp F l = CycleAt m -> exists c, In c l /\ F c = CycleAt m.
Proof.
  induction l as [|c r IH]; simpl; intros m H; [discriminate|].
  destruct (F c) eqn:E.
  - destruct (IH _ H) as [c' [Hi Hc]]. eauto.
  - inversion H; subst. eauto.
  - discriminate.
Qed.

Lemma eachp_ok : forall (F : nat -> result) l, eachp F l = Ok -> forall c, In c l -> F c = Ok.
Proof.
  induction l as [|c r IH]; simpl; intros H c' Hi; [tauto|].
  destruct (F c) eqn:E; try discriminate.
  destruct Hi as [<-|Hi]; auto.
Qed.

Lemma eachp_total : forall (F : nat -> result) l, (forall c, In c l -> F c <> OutOfFuel) -> eachp F l <> OutOfFuel.
Proof.
  induction l as [|c r IH]; simpl; intros H; [discriminate|].
  destruct (F c) eqn:E.
  - apply IH. intros; apply H; auto.
  - discriminate.
  - exfalso. apply (H c); auto.
Qed.

Lemma eachp_mono : forall (F G : nat -> result) l,
  (forall c, In c l -> F c <> OutOfFuel -> G c = F c) -> eachp F l <> OutOfFuel -> eachp G l = eachp F l.
Proof.
  induction l as [|c r IH]; simpl; intros H N; auto.
  destruct (F c) eqn:E.
  - rewrite (H c) by (auto; congruence). rewrite E. apply IH; auto.
  - rewrite (H c) by (auto; congruence). rewrite E. reflexivity.
  - congruence.
Qed.

(* ---------- more fuel never changes an answer ---------- *)
Lemma encp_mono : forall f g thr depth seen n f', f <= f' ->
  encp f g thr depth seen n <> OutOfFuel -> encp f' g thr depth seen n = encp f g thr depth seen n.
Proof.
  induction f as [|f IH]; intros g thr depth seen n f' L N.
  - simpl in N. congruence.
  - destruct f' as [|f']; [lia|]. rewrite (encp_S f'). rewrite (encp_S f) in *.
    destruct (nth_error g n) as [nd|]; auto.
    destruct (nkind nd); auto;
      try (destruct (thr <=? S depth); [destruct (mem n seen); auto|]);
      apply eachp_mono; auto; intros; apply IH; auto; lia.
Qed.

Lemma fuel_irrelevant : fuel_irrelevant_statement.
Proof.
  unfold fuel_irrelevant_statement. intros. rewrite !encode_encp in *. apply encp_mono; auto.
Qed.

(* ---------- the graph ---------- *)
Lemma succs_kids : forall g n nd, nth_error g n = Some nd -> nkind nd <> KLeaf -> succs g n = nkids nd.
Proof. intros g n nd E K. unfold succs. rewrite E. destruct (nkind nd); congruence. Qed.

Lemma reach_trans : forall g a b c, reach g a b -> reach g b c -> reach g a c.
Proof. intros g a b c H. induction H; intros; auto. econstructor; eauto. Qed.

Lemma reach_edge_r : forall g a b c, reach g a b -> edge g b c -> reach g a c.
Proof. intros. eapply reach_trans; eauto. econstructor; eauto. constructor. Qed.

(* a path of at least one edge *)
Definition pathp (g : graph) (a b : nat) : Prop := exists m, edge g a m /\ reach g m b.

Lemma pathp_edge_r : forall g a b c, pathp g a b -> edge g b c -> pathp g a c.
Proof. intros g a b c [m [E R]] Hc. exists m. split; auto. eapply reach_edge_r; eauto. Qed.

(* ---------- soundness ---------- *)
Lemma sound_gen : forall g thr fuel depth seen cur m,
  (forall s, In s seen -> pathp g s cur) ->
  encp fuel g thr depth seen cur = CycleAt m ->
  reach g cur m /\ on_cycle g m /\ is_tracked g m = true.
Proof.
  intros g thr. induction fuel as [|f IH]; intros depth seen cur m Inv H.
  - discriminate.
  - rewrite encp_S in H. destruct (nth_error g cur) as [nd|] eqn:En; [|discriminate].
    assert (Step : forall d s, (forall x, In x s -> forall c, In c (nkids nd) -> pathp g x c) ->
                   nkind nd <> KLeaf ->
                   eachp (encp f g thr d s) (nkids nd) = CycleAt m ->
                   reach g cur m /\ on_cycle g m /\ is_tracked g m = true).
    { intros d s Hs K He. apply eachp_cycle in He as [c [Hi Hc]].
      assert (Ed : edge g cur c) by (unfold edge; rewrite (succs_kids _ _ _ En K); auto).
      destruct (IH d s c m) as [R [C T]]; auto.
      split; [econstructor; eauto | auto]. }
    assert (Down : forall x, In x seen -> forall c, In c (nkids nd) -> nkind nd <> KLeaf -> pathp g x c).
    { intros x Hx c Hc K. eapply pathp_edge_r; [apply Inv; auto|].
      unfold edge; rewrite (succs_kids _ _ _ En K); auto. }
    assert (Tr : tracked (nkind nd) = true -> (if thr <=? S depth
                  then if mem cur seen then CycleAt cur else eachp (encp f g thr (S depth) (cur :: seen)) (nkids nd)
                  else eachp (encp f g thr (S depth) seen) (nkids nd)) = CycleAt m ->
                 reach g cur m /\ on_cycle g m /\ is_tracked g m = true).
    { intros Tk H'. assert (K : nkind nd <> KLeaf) by (intro K; rewrite K in Tk; discriminate).
      destruct (thr <=? S depth).
      - destruct (mem cur seen) eqn:M.
        + inversion H'; subst. apply mem_In in M. split; [constructor|]. split.
          * apply Inv; auto.
          * unfold is_tracked. rewrite En. auto.
        + apply (Step (S depth) (cur :: seen)); [| exact K | exact H'].
          intros x [<-|Hx] c Hc.
          * exists c. split; [|constructor]. unfold edge; rewrite (succs_kids _ _ _ En K); auto.
          * apply Down; auto.
      - apply (Step (S depth) seen); [| exact K | exact H']. intros; apply Down; auto. }
    destruct (nkind nd) eqn:Ek; try discriminate;
      try (apply Tr; [reflexivity | exact H]);
      (apply (Step depth seen); [intros; apply Down; auto; congruence | congruence | exact H]).
Qed.

Lemma sound : sound_statement.
Proof.
  unfold sound_statement. intros fuel g thr root n H. rewrite encode_encp in H.
  eapply sound_gen; eauto. intros s [].
Qed.

(* ---------- completeness: a traversal that completes has seen everything below it ---------- *)
Lemma cyclic_child : forall g cur, cyclic_from g cur -> exists c, edge g cur c /\ cyclic_from g c.
Proof.
  intros g cur [n [R C]]. inversion R; subst.
  - destruct C as [m [E Rm]]. exists m. split; auto. exists n. split; auto. exists m; auto.
  - exists b. split; auto. exists n; auto.
Qed.

Lemma ok_acyclic : forall g thr fuel depth seen cur, encp fuel g thr depth seen cur = Ok -> ~ cyclic_from g cur.
Proof.
  intros g thr. induction fuel as [|f IH]; intros depth seen cur H Cy.
  - discriminate.
  - apply cyclic_child in Cy as [c [E Cc]].
    unfold edge, succs in E. rewrite encp_S in H.
    destruct (nth_error g cur) as [nd|]; [|destruct E].
    assert (Step : forall d s, eachp (encp f g thr d s) (nkids nd) = Ok -> In c (nkids nd) -> False).
    { intros d s He Hi. eapply IH; [eapply eachp_ok; eauto | exact Cc]. }
    destruct (nkind nd); try (destruct E; fail);
      try (destruct (thr <=? S depth); [destruct (mem cur seen); [discriminate|]|]); eapply Step; eauto.
Qed.

Lemma complete : complete_statement.
Proof.
  unfold complete_statement. intros fuel g thr root H. rewrite encode_encp in H. eapply ok_acyclic; eauto.
Qed.

(* ---------- counting tracked nodes ---------- *)
Lemma filter_len : forall (A : Type) (f : A -> bool) l, length (filter f l) <= length l.
Proof. induction l; simpl; auto. destruct (f a); simpl; lia. Qed.

Lemma ntracked_le : forall g, ntracked g <= length g.
Proof. intros. unfold ntracked, tracked_ids. rewrite <- (seq_length (length g) 0) at 2. apply filter_len. Qed.

Lemma tracked_in_ids : forall g s, is_tracked g s = true -> In s (tracked_ids g).
Proof.
  intros g s H. unfold tracked_ids. apply filter_In. split; auto.
  apply in_seq. split; [lia|]. simpl. unfold is_tracked in H.
  destruct (nth_error g s) eqn:E; [|discriminate]. apply nth_error_Some. congruence.
Qed.

Lemma seen_bound : forall g seen, NoDup seen -> (forall s, In s seen -> is_tracked g s = true) -> length seen <= ntracked g.
Proof. intros. apply NoDup_incl_length; auto. intros s Hs. apply tracked_in_ids; auto. Qed.

(* ---------- termination with an explicit recursion-depth bound ---------- *)
Definition Wd (g : graph) : nat := length g + 2.
Definition rank (g : graph) (n : nat) : nat := if is_inner g n then n + 2 else 1.
Definition need (g : graph) (thr depth : nat) (seen : list nat) (n : nat) : nat :=
  ((thr - depth) + (ntracked g - length seen)) * Wd g + rank g n.

Lemma rank_le : forall g n, rank g n <= Wd g.
Proof.
  intros. unfold rank, Wd, is_inner. destruct (nth_error g n) as [nd|] eqn:E; [|lia].
  assert (n < length g) by (apply nth_error_Some; congruence).
  destruct (nkind nd); lia.
Qed.

Lemma rank_pos : forall g n, 1 <= rank g n.
Proof. intros. unfold rank. destruct (is_inner g n); lia. Qed.

Lemma need_step : forall room room' w r f, room' + 1 <= room -> r <= w -> room * w + 1 <= S f -> room' * w + r <= f.
Proof. intros. nia. Qed.

Lemma total_gen : forall g thr, wf g -> forall fuel depth seen n,
  NoDup seen -> (forall s, In s seen -> is_tracked g s = true) ->
  need g thr depth seen n <= fuel -> encp fuel g thr depth seen n <> OutOfFuel.
Proof.
  intros g thr WF. induction fuel as [|f IH]; intros depth seen n ND TR NE.
  - exfalso. unfold need in NE. pose proof (rank_pos g n). nia.
  - rewrite encp_S. destruct (nth_error g n) as [nd|] eqn:En; [|discriminate].
    assert (Tr : tracked (nkind nd) = true ->
                 (if thr <=? S depth
                  then if mem n seen then CycleAt n else eachp (encp f g thr (S depth) (n :: seen)) (nkids nd)
                  else eachp (encp f g thr (S depth) seen) (nkids nd)) <> OutOfFuel).
    { intros Tk.
      assert (Rk : rank g n = 1).
      { unfold rank, is_inner. rewrite En. destruct (nkind nd); try reflexivity; discriminate. }
      assert (It : is_tracked g n = true) by (unfold is_tracked; rewrite En; auto).
      unfold need in NE. rewrite Rk in NE.
      destruct (thr <=? S depth) eqn:T.
      - destruct (mem n seen) eqn:M; [discriminate|].
        apply Nat.leb_le in T.
        assert (ND' : NoDup (n :: seen)) by (constructor; [apply mem_notin; auto | auto]).
        assert (TR' : forall s, In s (n :: seen) -> is_tracked g s = true) by (intros s [<-|Hs]; auto).
        pose proof (seen_bound g (n :: seen) ND' TR') as SB. simpl in SB.
        apply eachp_total. intros c Hc. apply IH; auto.
        unfold need. eapply need_step; [| apply rank_le | exact NE]. simpl. lia.
      - apply Nat.leb_gt in T.
        apply eachp_total. intros c Hc. apply IH; auto.
        unfold need. eapply need_step; [| apply rank_le | exact NE]. lia. }
    assert (Inn : nkind nd = KIface \/ nkind nd = KStruct ->
                  eachp (encp f g thr depth seen) (nkids nd) <> OutOfFuel).
    { intros K.
      assert (In_n : is_inner g n = true) by (unfold is_inner; rewrite En; destruct K as [K|K]; rewrite K; auto).
      assert (KL : nkind nd <> KLeaf) by (destruct K as [K|K]; rewrite K; discriminate).
      apply eachp_total. intros c Hc. apply IH; auto.
      unfold need in *. unfold rank in NE at 1. rewrite In_n in NE.
      assert (rank g c <= n + 1).
      { unfold rank. destruct (is_inner g c) eqn:Ic; [|lia].
        assert (c < n); [|lia]. apply WF; auto. unfold edge. rewrite (succs_kids _ _ _ En KL). auto. }
      lia. }
    destruct (nkind nd) eqn:Ek; try discriminate; try (apply Tr; reflexivity); apply Inn; auto.
Qed.

Lemma total : total_statement.
Proof.
  unfold total_statement. intros g thr root fuel WF B. rewrite encode_encp.
  apply total_gen; [exact WF | apply NoDup_nil | intros s [] |].
  unfold need, fuel_bound in *. simpl.
  pose proof (ntracked_le g). pose proof (rank_le g root). unfold Wd in *. nia.
Qed.

Lemma decides : decides_statement.
Proof.
  unfold decides_statement. intros g thr root fuel WF B.
  pose proof (total g thr root fuel WF B) as T.
  split.
  - intros Cy. destruct (encode fuel g thr root) eqn:E.
    + exfalso. eapply complete; eauto.
    + eauto.
    + congruence.
  - intros NCy. destruct (encode fuel g thr root) eqn:E; auto.
    + exfalso. apply NCy. apply sound in E as [R [C _]]. exists n; auto.
    + congruence.
Qed.

(* ---------- the depth counter is bounded by the threshold plus the number of tracked nodes ---------- *)
Lemma eachd_bound : forall (F : nat -> result * nat) l m B,
  (forall c, In c l -> snd (F c) <= B) -> m <= B -> snd (eachd F l m) <= B.
Proof.
  induction l as [|c r IH]; simpl; intros m B H Hm; auto.
  assert (Hc : snd (F c) <= B) by (apply H; auto).
  destruct (F c) as [res m1]. simpl in Hc.
  assert (Nat.max m m1 <= B) by (apply Nat.max_lub; auto).
  destruct res; simpl; auto.
Qed.

Lemma depth_gen : forall g thr fuel depth seen n,
  NoDup seen -> (forall s, In s seen -> is_tracked g s = true) -> depth <= thr + length seen ->
  snd (encd fuel g thr depth seen n) <= thr + ntracked g + 1.
Proof.
  intros g thr. induction fuel as [|f IH]; intros depth seen n ND TR DL;
    pose proof (seen_bound g seen ND TR) as SB.
  - simpl. lia.
  - rewrite encd_S. destruct (nth_error g n) as [nd|] eqn:En; [|simpl; lia].
    assert (Tr : tracked (nkind nd) = true ->
                 snd (if thr <=? S depth
                      then if mem n seen then (CycleAt n, S depth)
                           else eachd (encd f g thr (S depth) (n :: seen)) (nkids nd) (S depth)
                      else eachd (encd f g thr (S depth) seen) (nkids nd) (S depth)) <= thr + ntracked g + 1).
    { intros Tk.
      assert (It : is_tracked g n = true) by (unfold is_tracked; rewrite En; auto).
      destruct (thr <=? S depth) eqn:T.
      - destruct (mem n seen) eqn:M; [simpl; lia|].
        assert (ND' : NoDup (n :: seen)) by (constructor; [apply mem_notin; auto | auto]).
        assert (TR' : forall s, In s (n :: seen) -> is_tracked g s = true) by (intros s [<-|Hs]; auto).
        apply eachd_bound; [|lia]. intros c Hc. apply IH; auto. simpl. lia.
      - apply Nat.leb_gt in T. apply eachd_bound; [|lia]. intros c Hc. apply IH; auto. lia. }
    destruct (nkind nd) eqn:Ek; try (apply Tr; reflexivity); try (simpl; lia);
      (apply eachd_bound; [|lia]; intros c Hc; apply IH; auto).
Qed.

Lemma depth_bound : depth_bound_statement.
Proof.
  unfold depth_bound_statement. intros. apply depth_gen; [apply NoDup_nil | intros s [] | simpl; lia].
Qed.

(* ---------- what stays unbounded: acyclic nesting ---------- *)
Lemma chain_length : forall n, length (chain n) = S n.
Proof. induction n; simpl; auto. rewrite app_length, IHn. simpl. lia. Qed.

Lemma chain_nth_0 : forall n, nth_error (chain n) 0 = Some (mkNode KLeaf []).
Proof.
  induction n; [reflexivity|]. cbn [chain]. rewrite nth_error_app1; auto. rewrite chain_length. lia.
Qed.

Lemma chain_nth_S : forall n i, i < n -> nth_error (chain n) (S i) = Some (mkNode KPtr [i]).
Proof.
  induction n; intros i H; [lia|]. cbn [chain].
  destruct (Nat.eq_dec i n) as [->|Ne].
  - rewrite nth_error_app2 by (rewrite chain_length; lia). rewrite chain_length, Nat.sub_diag. reflexivity.
  - rewrite nth_error_app1 by (rewrite chain_length; lia). apply IHn. lia.
Qed.

Lemma mem_above : forall i seen, (forall s, In s seen -> i < s) -> mem i seen = false.
Proof.
  intros i seen H. destruct (mem i seen) eqn:M; auto. apply mem_In in M. apply H in M. lia.
Qed.

Lemma chain_encd : forall n thr i, i <= n -> forall fuel d seen,
  (forall s, In s seen -> i < s) -> i < fuel -> encd fuel (chain n) thr d seen i = (Ok, d + i).
Proof.
  intros n thr. induction i as [|j IH]; intros Hi fuel d seen Hs Hf; (destruct fuel as [|f]; [lia|]); rewrite encd_S.
  - rewrite chain_nth_0. simpl. f_equal. lia.
  - rewrite chain_nth_S by lia. simpl nkind. simpl nkids.
    assert (E1 : forall s', (forall s, In s s' -> j < s) ->
                 eachd (encd f (chain n) thr (S d) s') [j] (S d) = (Ok, d + S j)).
    { intros s' Hs'. cbn [eachd]. rewrite IH by (auto; lia). cbn [eachd]. rewrite Nat.max_r by lia. f_equal. lia. }
    destruct (thr <=? S d).
    + rewrite mem_above by auto. apply E1. intros s [<-|H]; [lia|]. apply Hs in H. lia.
    + apply E1. intros s H. apply Hs in H. lia.
Qed.

Lemma chain_needs_fuel : forall n thr i, i <= n -> forall fuel d seen,
  (forall s, In s seen -> i < s) -> fuel <= i -> encp fuel (chain n) thr d seen i = OutOfFuel.
Proof.
  intros n thr. induction i as [|j IH]; intros Hi fuel d seen Hs Hf; (destruct fuel as [|f]; [reflexivity|]); [lia|].
  rewrite encp_S. rewrite chain_nth_S by lia. simpl nkind. simpl nkids.
  assert (E1 : forall s', (forall s, In s s' -> j < s) ->
               eachp (encp f (chain n) thr (S d) s') [j] = OutOfFuel).
  { intros s' Hs'. cbn [eachp]. rewrite IH by (auto; lia). reflexivity. }
  destruct (thr <=? S d).
  - rewrite mem_above by auto. apply E1. intros s [<-|H]; [lia|]. apply Hs in H. lia.
  - apply E1. intros s H. apply Hs in H. lia.
Qed.

Lemma chain_depth : chain_depth_statement.
Proof.
  unfold chain_depth_statement. intros n thr.
  assert (E : encd (S n) (chain n) thr 0 [] n = (Ok, n)).
  { rewrite chain_encd; auto. intros s []. }
  split; [exact E|]. split.
  - apply (complete (S n) (chain n) thr n). rewrite encode_encp, <- encd_fst, E. reflexivity.
  - intros fuel Hf. rewrite encode_encp. apply chain_needs_fuel; auto. intros s [].
Qed.

Lemma acyclic_depth_bounded_refuted : ~ acyclic_depth_bounded_statement.
Proof.
  intros [B H]. destruct (chain_depth (S B) 0) as [E [A _]].
  specialize (H (chain (S B)) 0 (S B) (S (S B)) A). rewrite E in H. simpl in H. lia.
Qed.

(* ---------- the boolean well-formedness check of the driver is the proposition ---------- *)
Lemma wfb_wf : forall g, wfb g = true -> wf g.
Proof.
  intros g H n c In_n E Ic. unfold wfb in H. rewrite forallb_forall in H.
  assert (Hn : In n (seq 0 (length g))).
  { apply in_seq. split; [lia|]. simpl. unfold is_inner in In_n.
    destruct (nth_error g n) eqn:En; [|discriminate]. apply nth_error_Some. congruence. }
  specialize (H n Hn). rewrite In_n in H. rewrite forallb_forall in H.
  specialize (H c E). rewrite Ic in H. simpl in H. apply Nat.ltb_lt. exact H.
Qed.
