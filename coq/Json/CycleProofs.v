(* C06: under construction *)
