(* C01/C02 string core: the specification side. Transcriptions of what encoding/json (go1.23) documents and does
   for ONE string, written as plain structural recursions over the bytes, sharing nothing with the repository's
   code (no word tricks, no index arithmetic, no flags), and the statements proved in Json/StrProofs.v.
   The spec functions are tied to the real encoding/json by the model-of-oracle column of the correspondence
   cases of harness/c01s.go (s.esc, s.unq, s.sanitize) on every run. Definitions only. *)
From Verif Require Import Base.GoInt Json.Ext Generated.JsonParseGen Json.Grammar Json.Spec Json.StrExt
  Generated.JsonStringGen Json.StrModel.
Open Scope Z_scope.

(* ---------------------------------------------------------------------------------------------------------
   string([]rune(s)): every byte that does not start a well-formed UTF-8 sequence becomes U+FFFD (EF BF BD),
   well-formed sequences are kept. [copy] counts the continuation bytes still to be copied. *)
Fixpoint sanitize_from (copy : nat) (s : bytes) : bytes :=
  match s with
  | [] => []
  | c :: r =>
    match copy with
    | S k => c :: sanitize_from k r
    | O =>
      let '(_, size) := utf8_decode_rune s in
      if (128 <=? c) && (size =? 1) then [239; 191; 189] ++ sanitize_from 0 r
      else c :: sanitize_from (Z.to_nat (size - 1)) r
    end
  end.
Definition sanitize (s : bytes) : bytes := sanitize_from 0 s.

(* ---------------------------------------------------------------------------------------------------------
   encoding/json string escaping (encode.go appendString; documented at Marshal and SetEscapeHTML):
   the string is wrapped in quotes; quote and backslash get a backslash; \b \f \n \r \t use the short forms;
   other control bytes are backslash-u-00XX; with EscapeHTML also < > & are backslash-u-00XX; U+2028 and U+2029 are
   always backslash-u-2028 / backslash-u-2029; a byte that is not part of well-formed UTF-8 is backslash-u-fffd;
   everything else (0x7f included) verbatim. *)
Definition hexdigit (n : Z) : Z := if n <? 10 then 48 + n else 87 + n.
Definition std_safe (html : bool) (c : Z) : bool :=
  (32 <=? c) && negb (c =? 34) && negb (c =? 92) && negb (html && ((c =? 60) || (c =? 62) || (c =? 38))).
Definition std_escape_ascii (c : Z) : bytes :=
  if (c =? 92) || (c =? 34) then [92; c]
  else if c =? 8 then [92; 98]
  else if c =? 12 then [92; 102]
  else if c =? 10 then [92; 110]
  else if c =? 13 then [92; 114]
  else if c =? 9 then [92; 116]
  else [92; 117; 48; 48; hexdigit (c / 16); hexdigit (c mod 16)].
Fixpoint std_escape_body (html : bool) (copy : nat) (s : bytes) : bytes :=
  match s with
  | [] => []
  | c :: r =>
    match copy with
    | S k => c :: std_escape_body html k r
    | O =>
      if c <? 128 then (if std_safe html c then [c] else std_escape_ascii c) ++ std_escape_body html 0 r
      else
        let generic :=
          let '(_, size) := utf8_decode_rune s in
          if size =? 1 then [92; 117; 102; 102; 102; 100] ++ std_escape_body html 0 r
          else c :: std_escape_body html (Z.to_nat (size - 1)) r in
        match r with
        | 128 :: x :: r' =>
          (* E2 80 A8 = U+2028, E2 80 A9 = U+2029 *)
          if (c =? 226) && ((x =? 168) || (x =? 169)) then [92; 117; 50; 48; 50; x - 112] ++ std_escape_body html 0 r'
          else generic
        | _ => generic
        end
    end
  end.
Definition std_escape (html : bool) (s : bytes) : bytes := [34] ++ std_escape_body html 0 s ++ [34].

(* ---------------------------------------------------------------------------------------------------------
   encoding/json string unquoting (decode.go unquoteBytes, on what its scanner lets through = the RFC 8259
   string grammar): simple escapes; \uXXXX as UTF-8; a high surrogate followed by \u + low surrogate is one rune;
   every other surrogate is U+FFFD (and a following \uXXXX is read on its own); a raw byte that is not part of
   well-formed UTF-8 is U+FFFD; control bytes, unknown escapes, a missing closing quote are errors.
   [uq_body] is applied after the opening quote and returns the content and what follows the closing quote. *)
Definition hexval (c : Z) : Z := if c <=? 57 then c - 48 else if c <=? 70 then c - 55 else c - 87.
Definition hex4val (h1 h2 h3 h4 : Z) : Z := ((hexval h1 * 16 + hexval h2) * 16 + hexval h3) * 16 + hexval h4.
Definition unescape_letter (e : Z) : Z :=
  if e =? 98 then 8 else if e =? 102 then 12 else if e =? 110 then 10 else if e =? 114 then 13
  else if e =? 116 then 9 else e.
Definition pre (p : bytes) (o : option (bytes * bytes)) : option (bytes * bytes) :=
  match o with Some (v, r) => Some (p ++ v, r) | None => None end.
Fixpoint uq_body (copy : nat) (b : bytes) : option (bytes * bytes) :=
  match b with
  | [] => None
  | c :: r =>
    match copy with
    | S k => pre [c] (uq_body k r)
    | O =>
      if c =? 34 then Some ([], r)
      else if c =? 92 then
        match r with
        | [] => None
        | e :: r1 =>
          if is_escape_letter e then pre [unescape_letter e] (uq_body 0 r1)
          else if e =? 117 then
            match r1 with
            | h1 :: h2 :: h3 :: h4 :: r2 =>
              if is_hex h1 && is_hex h2 && is_hex h3 && is_hex h4 then
                let u := hex4val h1 h2 h3 h4 in
                if utf16_is_surrogate u then
                  match r2 with
                  | 92 :: 117 :: l1 :: l2 :: l3 :: l4 :: r3 =>
                    if is_hex l1 && is_hex l2 && is_hex l3 && is_hex l4
                       && negb (utf16_decode_rune u (hex4val l1 l2 l3 l4) =? 65533)
                    then pre (utf8_encode_rune (utf16_decode_rune u (hex4val l1 l2 l3 l4))) (uq_body 0 r3)
                    else pre [239; 191; 189] (uq_body 0 r2)
                  | _ => pre [239; 191; 189] (uq_body 0 r2)
                  end
                else pre (utf8_encode_rune u) (uq_body 0 r2)
              else None
            | _ => None
            end
          else None
        end
      else if c <? 32 then None
      else if c <? 128 then pre [c] (uq_body 0 r)
      else
        let '(_, size) := utf8_decode_rune b in
        if size =? 1 then pre [239; 191; 189] (uq_body 0 r)
        else pre [c] (uq_body (Z.to_nat (size - 1)) r)
    end
  end.
Definition uq_lit (b : bytes) : option (bytes * bytes) :=
  match b with
  | 34 :: r => uq_body 0 r
  | _ => None
  end.

(* encoding/json.Unmarshal(b, &s) for a string s: white space, then null (target unchanged) or a string literal,
   then white space only *)
Definition spec_unmarshal_string (b : bytes) : sres bytes :=
  let t := skip_ws b in
  match t with
  | 110 :: 117 :: 108 :: 108 :: r => match skip_ws r with [] => SNull [] | _ => SErr end
  | _ =>
    match uq_lit t with
    | Some (v, r) => match skip_ws r with [] => SOk v [] | _ => SErr end
    | None => SErr
    end
  end.

(* ========================================= statements: C01 ========================================= *)

(* (a) the translated encodeString writes, for EVERY string and EVERY flag word, exactly the standard escaping
   selected by the EscapeHTML bit (nothing else in the flags matters), after whatever is already in the buffer *)
Definition flags_html (flags : Z) : bool := negb (Z.land flags json_EscapeHTML =? 0).
Definition encode_string_std_statement : Prop :=
  forall (flags : Z) (out s : bytes) (fuel : nat),
    wfb s = true -> len s < 2 ^ 62 -> 0 <= flags < 2 ^ 32 -> (length s < fuel)%nat ->
    json_encoder_encodeString fuel flags out s = Some (out ++ std_escape (flags_html flags) s, None).
Definition escape_string_std_statement : Prop :=
  forall (html : bool) (s : bytes), wfb s = true -> len s < 2 ^ 62 ->
    escape_string html s = Some (std_escape html s).

(* the standard escaping is a JSON string literal by the RFC 8259 grammar, and a complete JSON text *)
Definition g_lit (b : bytes) : option bytes := match b with 34 :: r => g_string r | _ => None end.
Definition escape_is_json_statement : Prop :=
  forall (html : bool) (s : bytes), wfb s = true ->
    g_lit (std_escape html s) = Some [] /\ g_valid (std_escape html s) = true.

(* ... which the standard unquoting maps back to the string with every ill-formed byte replaced by U+FFFD *)
Definition unquote_escape_statement : Prop :=
  forall (html : bool) (s rest : bytes), wfb s = true ->
    uq_lit (std_escape html s ++ rest) = Some (sanitize s, rest).

(* a string is unchanged by sanitize exactly when it is well-formed UTF-8 *)
Definition sanitize_fixed_statement : Prop :=
  forall s : bytes, wfb s = true -> sanitize (sanitize s) = sanitize s.

(* (b) the fast path: when escapeIndex reports -1 no byte needs an escape, and then the standard escaping is the
   string between two quotes -- what encodeString's early return writes *)
Definition escape_fast_path_statement : Prop :=
  forall (html : bool) (s : bytes), wfb s = true -> len s < 2 ^ 62 ->
    escape_index_tot s html = -1 ->
    forallb (fun c => negb (needs_escape_json html c)) s = true /\ std_escape html s = [34] ++ s ++ [34].

(* ========================================= statements: C02 ========================================= *)

(* the standard unquoting accepts exactly the string literals of the RFC 8259 grammar and leaves the same rest *)
Definition unquote_grammar_statement : Prop :=
  forall b : bytes, wfb b = true ->
    match g_string b, uq_body 0 b with
    | Some r, Some (_, r') => r = r'
    | None, None => True
    | _, _ => False
    end.

(* (b) the translated parseStringUnquote: for EVERY input and EVERY sound flags word, no error exactly on the inputs
   that start with a string literal, and then the content is the standard unquoting and the rest is what follows *)
Definition parse_string_unquote_statement : Prop :=
  forall (d : Z) (b : bytes), wfb b = true -> len b < 2 ^ 62 -> flags_sound d b ->
    exists v r nw e, parse_string_unquote d b = Some (v, r, nw, e) /\
      match uq_lit b with
      | Some (v', r') => e = None /\ v = v' /\ r = r'
      | None => e <> None
      end.

(* json.Unmarshal into a string = the standard behaviour, for every input *)
Definition unmarshal_string_statement : Prop :=
  forall b : bytes, wfb b = true -> len b < 2 ^ 62 -> unmarshal_string b = spec_unmarshal_string b.

(* the round trip that links C01 and C02: decoding what the encoder wrote gives the sanitized string *)
Definition string_round_trip_statement : Prop :=
  forall (html : bool) (s e : bytes), wfb s = true -> len s < 2 ^ 62 ->
    escape_string html s = Some e -> len e < 2 ^ 62 -> unmarshal_string e = SOk (sanitize s) [].
