(* C01/C02 string core: proofs about the SPECIFICATION functions of Json/StrSpec.v only (std_escape, sanitize,
   uq_body / uq_lit) and the grammar of Json/Grammar.v (g_string, g_valid):
     unquote_grammar   the standard unquoting accepts exactly the string literals of the grammar, same rest
     escape_is_json    the standard escaping is a string literal of the grammar and a complete JSON text
     unquote_escape    unquoting the standard escaping gives the sanitized string
     sanitize_fixed    sanitize is idempotent *)
From Coq Require Import Lia ZArith List Bool.
From Verif Require Import Base.GoInt Json.Ext Generated.JsonParseGen Json.Grammar Json.Spec Json.StrExt
  Generated.JsonStringGen Json.StrModel Json.ValidProofs Json.StrSpec Json.StrUtf8Proofs.
Import ListNotations.
Open Scope Z_scope.

(* ================= decoding a well-formed sequence does not look behind it ================= *)
Ltac dp_step :=
  match goal with
  | |- (if ?c then _ else _) = _ -> _ => destruct c; cbv beta iota
  | |- match ?l with nil => _ | cons _ _ => _ end = _ -> _ => destruct l; cbv beta iota
  | |- (_, _) = _ -> _ => let D := fresh in intros D; first [discriminate D | exact D]
  end.

Lemma decode_prefix w r rune : 2 <= len w <= 4 -> utf8_decode_rune (w ++ r) = (rune, len w) ->
  forall r', utf8_decode_rune (w ++ r') = (rune, len w).
Proof.
  intros LW D r'. destruct w as [|c0 [|c1 [|c2 [|c3 [|c4 w]]]]].
  - cbn in LW. lia.
  - cbn in LW. lia.
  - change (len [c0; c1]) with 2 in *. cbn [app] in *. revert D. unfold utf8_decode_rune. repeat dp_step.
  - change (len [c0; c1; c2]) with 3 in *. cbn [app] in *. revert D. unfold utf8_decode_rune. repeat dp_step.
  - change (len [c0; c1; c2; c3]) with 4 in *. cbn [app] in *. revert D. unfold utf8_decode_rune. repeat dp_step.
  - rewrite !len_cons in LW. pose proof (len_nonneg w). lia.
Qed.

(* ================= step equations for the unicode escape ================= *)
Lemma g_string_u6 h1 h2 h3 h4 T : is_hex h1 = true -> is_hex h2 = true -> is_hex h3 = true -> is_hex h4 = true ->
  g_string (92 :: 117 :: h1 :: h2 :: h3 :: h4 :: T) = g_string T.
Proof.
  intros H1 H2 H3 H4. rewrite g_string_eq. change (92 =? 34) with false. change (92 =? 92) with true. cbv iota.
  change (is_escape_letter 117) with false. change (117 =? 117) with true. cbv iota.
  rewrite H1, H2, H3, H4. reflexivity.
Qed.

Lemma uq_bs_other e r : is_escape_letter e = false -> e <> 117 -> uq_body 0 (92 :: e :: r) = None.
Proof.
  intros A N. cbn [uq_body]. change (92 =? 34) with false. change (92 =? 92) with true. cbv iota. rewrite A.
  destruct (Z.eqb_spec e 117); [congruence|reflexivity].
Qed.

(* the unicode escape of the standard unquoting, the look-ahead for a low surrogate with boolean tests *)
Lemma uq_u_eq h1 h2 h3 h4 r2 :
  uq_body 0 (92 :: 117 :: h1 :: h2 :: h3 :: h4 :: r2) =
  if is_hex h1 && is_hex h2 && is_hex h3 && is_hex h4 then
    if utf16_is_surrogate (hex4val h1 h2 h3 h4) then
      match r2 with
      | a :: b :: l1 :: l2 :: l3 :: l4 :: r3 =>
        if (a =? 92) && (b =? 117) &&
           (is_hex l1 && is_hex l2 && is_hex l3 && is_hex l4
            && negb (utf16_decode_rune (hex4val h1 h2 h3 h4) (hex4val l1 l2 l3 l4) =? 65533))
        then pre (utf8_encode_rune (utf16_decode_rune (hex4val h1 h2 h3 h4) (hex4val l1 l2 l3 l4))) (uq_body 0 r3)
        else pre [239; 191; 189] (uq_body 0 r2)
      | _ => pre [239; 191; 189] (uq_body 0 r2)
      end
    else pre (utf8_encode_rune (hex4val h1 h2 h3 h4)) (uq_body 0 r2)
  else None.
Proof.
  cbn [uq_body]. change (92 =? 34) with false. change (92 =? 92) with true. cbv iota.
  change (is_escape_letter 117) with false. change (117 =? 117) with true. cbv iota.
  destruct (is_hex h1 && is_hex h2 && is_hex h3 && is_hex h4); [|reflexivity]. cbv zeta.
  destruct (utf16_is_surrogate (hex4val h1 h2 h3 h4)); [|reflexivity].
  generalize (pre [239; 191; 189] (uq_body 0 r2)). intros X.
  generalize (hex4val h1 h2 h3 h4). intros u.
  destruct r2 as [|a r2]; [reflexivity|].
  destruct a as [|p|p]; try (destruct r2 as [|b [|l1 [|l2 [|l3 [|l4 r3]]]]]; reflexivity).
  do 7 (destruct p as [p|p|]; try (destruct r2 as [|b [|l1 [|l2 [|l3 [|l4 r3]]]]]; reflexivity)).
  change (92 =? 92) with true. cbn [andb].
  destruct r2 as [|b r2]; [reflexivity|].
  destruct b as [|p|p]; try (destruct r2 as [|l1 [|l2 [|l3 [|l4 r3]]]]; reflexivity).
  do 7 (destruct p as [p|p|]; try (destruct r2 as [|l1 [|l2 [|l3 [|l4 r3]]]]; reflexivity)).
Qed.

Lemma uq_u_plain h1 h2 h3 h4 T : is_hex h1 = true -> is_hex h2 = true -> is_hex h3 = true -> is_hex h4 = true ->
  utf16_is_surrogate (hex4val h1 h2 h3 h4) = false ->
  uq_body 0 (92 :: 117 :: h1 :: h2 :: h3 :: h4 :: T) = pre (utf8_encode_rune (hex4val h1 h2 h3 h4)) (uq_body 0 T).
Proof. intros H1 H2 H3 H4 S. rewrite uq_u_eq, H1, H2, H3, H4, S. reflexivity. Qed.

(* ================= (A) the standard unquoting accepts exactly the grammar's string literals ================= *)
Definition agree (g : option bytes) (u : option (bytes * bytes)) : Prop :=
  match g, u with
  | Some r, Some (_, r') => r = r'
  | None, None => True
  | _, _ => False
  end.
Lemma agree_pre p g u : agree g u -> agree g (pre p u).
Proof. destruct u as [[v r]|], g; cbn; auto. Qed.

Lemma unquote_grammar_len : forall (n : nat) (b : bytes), (length b <= n)%nat -> agree (g_string b) (uq_body 0 b).
Proof.
  induction n as [|n IH]; intros b L.
  { destruct b; [exact I|cbn in L; lia]. }
  destruct b as [|c r]; [exact I|]. cbn [length] in L.
  destruct (Z.ltb_spec c 128) as [A|A].
  - rewrite g_string_eq.
    destruct (Z.eqb_spec c 34) as [->|N34]; [reflexivity|].
    destruct (Z.eqb_spec c 92) as [->|N92].
    + destruct r as [|e r1]; [exact I|]. cbn [length] in L.
      destruct (is_escape_letter e) eqn:EL.
      { rewrite uq_escape by exact EL. apply agree_pre, IH. lia. }
      destruct (Z.eqb_spec e 117) as [->|N117].
      2:{ rewrite uq_bs_other by assumption. exact I. }
      destruct r1 as [|h1 [|h2 [|h3 [|h4 r2]]]]; try exact I. cbn [length] in L.
      rewrite uq_u_eq. destruct (is_hex h1 && is_hex h2 && is_hex h3 && is_hex h4); [|exact I].
      destruct (utf16_is_surrogate (hex4val h1 h2 h3 h4)).
      2:{ apply agree_pre, IH. lia. }
      destruct r2 as [|a [|b' [|l1 [|l2 [|l3 [|l4 r3]]]]]]; try (apply agree_pre, IH; cbn [length] in *; lia).
      match goal with |- context [if ?c then _ else _] => destruct c eqn:C end.
      2:{ apply agree_pre, IH. cbn [length] in *. lia. }
      apply andb_true_iff in C. destruct C as [C1 C2]. apply andb_true_iff in C1. destruct C1 as [Ca Cb].
      apply Z.eqb_eq in Ca, Cb. subst a b'.
      apply andb_true_iff in C2. destruct C2 as [C2 _]. apply andb_true_iff in C2. destruct C2 as [C2 X4].
      apply andb_true_iff in C2. destruct C2 as [C2 X3]. apply andb_true_iff in C2. destruct C2 as [X1 X2].
      rewrite g_string_u6 by assumption. apply agree_pre, IH. cbn [length] in *. lia.
    + destruct (Z.ltb_spec c 32) as [B|B].
      * destruct (uq_ctl c r B) as [E|[E|E]]; [rewrite E; exact I|lia|lia].
      * rewrite uq_ascii by lia. apply agree_pre, IH. lia.
  - destruct (rune_cases c r) as [c' r' E A' D|c' r' E A' D|w r' rune E LW D HB EN RN].
    + injection E as -> ->. lia.
    + injection E as -> ->. rewrite uq_bad by assumption. rewrite g_string_ge32 by lia. apply agree_pre, IH. lia.
    + assert (LL : length (c :: r) = (length w + length r')%nat) by (rewrite E; apply app_length).
      rewrite E in D |- *. rewrite (uq_multi w r' rune) by assumption. rewrite g_string_hi by assumption.
      apply agree_pre, IH. cbn [length] in LL. unfold len in LW. lia.
Qed.

Lemma unquote_grammar : unquote_grammar_statement.
Proof. intros b _. apply (unquote_grammar_len (length b)). lia. Qed.

(* ================= (B) what the standard escaping writes for one rune is read back as that rune ================= *)
Lemma hexdigit_ok k : 0 <= k < 16 -> is_hex (hexdigit k) = true /\ StrSpec.hexval (hexdigit k) = k.
Proof.
  intros K.
  assert (E : k = 0 \/ k = 1 \/ k = 2 \/ k = 3 \/ k = 4 \/ k = 5 \/ k = 6 \/ k = 7 \/ k = 8 \/ k = 9 \/ k = 10 \/
              k = 11 \/ k = 12 \/ k = 13 \/ k = 14 \/ k = 15) by lia.
  repeat (destruct E as [->|E]; [split; reflexivity|]). subst k. split; reflexivity.
Qed.

Lemma encode_ascii c : 0 <= c < 128 -> utf8_encode_rune c = [c].
Proof.
  intros C. unfold utf8_encode_rune. destruct (Z.leb_spec 0 c); [|lia]. destruct (Z.ltb_spec c 128); [reflexivity|lia].
Qed.
Lemma not_surrogate_small c : c < 55296 -> utf16_is_surrogate c = false.
Proof. intros C. unfold utf16_is_surrogate. destruct (Z.leb_spec 55296 c); [lia|reflexivity]. Qed.

Lemma esc_ascii_unit html c T : 0 <= c < 128 ->
  g_string ((if std_safe html c then [c] else std_escape_ascii c) ++ T) = g_string T /\
  uq_body 0 ((if std_safe html c then [c] else std_escape_ascii c) ++ T) = pre [c] (uq_body 0 T).
Proof.
  intros C. destruct (std_safe html c) eqn:S.
  - unfold std_safe in S. apply andb_true_iff in S. destruct S as [S _]. apply andb_true_iff in S. destruct S as [S N92].
    apply andb_true_iff in S. destruct S as [S N34]. apply Z.leb_le in S.
    apply negb_true_iff, Z.eqb_neq in N92, N34. cbn [app].
    split; [apply g_string_ge32; lia|apply uq_ascii; lia].
  - clear S. unfold std_escape_ascii.
    destruct (Z.eqb_spec c 92) as [->|N1]; [split; reflexivity|].
    destruct (Z.eqb_spec c 34) as [->|N2]; [split; reflexivity|]. cbn [orb].
    destruct (Z.eqb_spec c 8) as [->|N3]; [split; reflexivity|].
    destruct (Z.eqb_spec c 12) as [->|N4]; [split; reflexivity|].
    destruct (Z.eqb_spec c 10) as [->|N5]; [split; reflexivity|].
    destruct (Z.eqb_spec c 13) as [->|N6]; [split; reflexivity|].
    destruct (Z.eqb_spec c 9) as [->|N7]; [split; reflexivity|].
    cbn [app].
    assert (D1 : 0 <= c / 16 < 16) by (Z.div_mod_to_equations; lia).
    assert (D2 : 0 <= c mod 16 < 16) by (Z.div_mod_to_equations; lia).
    destruct (hexdigit_ok _ D1) as [X1 V1]. destruct (hexdigit_ok _ D2) as [X2 V2].
    assert (V : hex4val 48 48 (hexdigit (c / 16)) (hexdigit (c mod 16)) = c).
    { unfold hex4val. rewrite V1, V2. change (StrSpec.hexval 48) with 0. Z.div_mod_to_equations. lia. }
    split.
    + apply g_string_u6; auto.
    + rewrite uq_u_plain; auto.
      * rewrite V, encode_ascii by lia. reflexivity.
      * rewrite V. apply not_surrogate_small. lia.
Qed.

Lemma esc_bad_unit T :
  g_string ([92; 117; 102; 102; 102; 100] ++ T) = g_string T /\
  uq_body 0 ([92; 117; 102; 102; 102; 100] ++ T) = pre [239; 191; 189] (uq_body 0 T).
Proof.
  cbn [app]. split.
  - apply g_string_u6; reflexivity.
  - rewrite uq_u_plain; reflexivity.
Qed.

Lemma esc_multi_unit w r rune T : 2 <= len w <= 4 -> utf8_decode_rune (w ++ r) = (rune, len w) ->
  forallb hi_byte w = true ->
  g_string (esc_seq w ++ T) = g_string T /\ uq_body 0 (esc_seq w ++ T) = pre w (uq_body 0 T).
Proof.
  intros LW D HB.
  assert (PL : g_string (w ++ T) = g_string T /\ uq_body 0 (w ++ T) = pre w (uq_body 0 T)).
  { split; [apply g_string_hi; exact HB|]. apply (uq_multi w T rune); auto. apply (decode_prefix w r); auto. }
  unfold esc_seq. destruct w as [|c [|y [|x [|z w]]]]; try exact PL.
  destruct ((y =? 128) && ((c =? 226) && ((x =? 168) || (x =? 169)))) eqn:C; [|exact PL].
  apply andb_true_iff in C. destruct C as [C0 C]. apply andb_true_iff in C. destruct C as [C1 C2].
  apply Z.eqb_eq in C0, C1. subst y c. cbn [app].
  apply orb_true_iff in C2. destruct C2 as [C2|C2]; apply Z.eqb_eq in C2; subst x.
  - change (168 - 112) with 56. split; [apply g_string_u6; reflexivity|rewrite uq_u_plain; reflexivity].
  - change (169 - 112) with 57. split; [apply g_string_u6; reflexivity|rewrite uq_u_plain; reflexivity].
Qed.

Lemma wfb_cons c r : wfb (c :: r) = true -> 0 <= c < 256 /\ wfb r = true.
Proof.
  unfold wfb. cbn [forallb]. intros H. apply andb_true_iff in H. destruct H as [H1 H2]. split; [|exact H2].
  unfold is_byte in H1. apply andb_true_iff in H1. destruct H1 as [A B]. apply Z.leb_le in A. apply Z.ltb_lt in B. lia.
Qed.
Lemma wfb_app_r w r : wfb (w ++ r) = true -> wfb r = true.
Proof. unfold wfb. rewrite forallb_app. intros H. apply andb_true_iff in H. apply H. Qed.

Lemma escape_body_ok html : forall s, wfb s = true -> forall T,
  g_string (std_escape_body html 0 s ++ 34 :: T) = Some T /\
  uq_body 0 (std_escape_body html 0 s ++ 34 :: T) = Some (sanitize_from 0 s, T).
Proof.
  apply (rune_ind (fun s => wfb s = true -> forall T,
    g_string (std_escape_body html 0 s ++ 34 :: T) = Some T /\
    uq_body 0 (std_escape_body html 0 s ++ 34 :: T) = Some (sanitize_from 0 s, T))).
  - intros _ T. split; reflexivity.
  - intros c r A D IH W T. apply wfb_cons in W. destruct W as [B W]. destruct (IH W T) as [G U].
    rewrite escape_ascii by assumption. rewrite <- app_assoc.
    destruct (esc_ascii_unit html c (std_escape_body html 0 r ++ 34 :: T) ltac:(lia)) as [G1 U1].
    rewrite G1, U1, G, U, sanitize_ascii by assumption. split; reflexivity.
  - intros c r A D IH W T. apply wfb_cons in W. destruct W as [B W]. destruct (IH W T) as [G U].
    rewrite escape_bad by assumption. rewrite <- app_assoc.
    destruct (esc_bad_unit (std_escape_body html 0 r ++ 34 :: T)) as [G1 U1].
    rewrite G1, U1, G, U, sanitize_bad by assumption. split; reflexivity.
  - intros w r rune LW D HB EN RN IH W T. apply wfb_app_r in W. destruct (IH W T) as [G U].
    rewrite (escape_multi html w r rune) by assumption. rewrite <- app_assoc.
    destruct (esc_multi_unit w r rune (std_escape_body html 0 r ++ 34 :: T) LW D HB) as [G1 U1].
    rewrite G1, U1, G, U, (sanitize_multi w r rune) by assumption. split; reflexivity.
Qed.

Lemma unquote_escape : unquote_escape_statement.
Proof.
  intros html s rest W. unfold std_escape. cbn [app]. rewrite <- app_assoc. cbn [app uq_lit].
  apply (escape_body_ok html s W rest).
Qed.

Lemma escape_is_json : escape_is_json_statement.
Proof.
  intros html s W. destruct (escape_body_ok html s W []) as [G _].
  unfold std_escape. cbn [app g_lit]. split; [exact G|].
  unfold g_valid. cbn [skip_ws]. change (is_ws 34) with false. cbv iota.
  rewrite g_value_string, G. reflexivity.
Qed.

(* ================= (C) sanitize is idempotent ================= *)
Lemma sanitize_from_fixed : forall s, sanitize_from 0 (sanitize_from 0 s) = sanitize_from 0 s.
Proof.
  apply rune_ind.
  - reflexivity.
  - intros c r A D IH. rewrite !sanitize_ascii by assumption. rewrite IH. reflexivity.
  - intros c r A D IH. rewrite sanitize_bad by assumption.
    rewrite (sanitize_multi [239; 191; 189] _ 65533); [rewrite IH; reflexivity|cbn; lia|reflexivity].
  - intros w r rune LW D HB EN RN IH. rewrite (sanitize_multi w r rune) by assumption.
    rewrite (sanitize_multi w _ rune); [rewrite IH; reflexivity|assumption|].
    apply (decode_prefix w r); assumption.
Qed.

Lemma sanitize_fixed : sanitize_fixed_statement.
Proof. intros s _. apply sanitize_from_fixed. Qed.

(* the hypothesis wfb is not used by unquote_grammar and sanitize_fixed: both hold for every list of integers *)
Lemma unquote_grammar_all (b : bytes) : agree (g_string b) (uq_body 0 b).
Proof. apply (unquote_grammar_len (length b)). lia. Qed.
