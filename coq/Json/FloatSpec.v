(* C01 float core: specification side and statements (proved in Json/FloatProofs.v). Definitions only.
   [std_float_encode] is an independent transcription of go1.23.5 encoding/json  floatEncoder.encode  (encode.go),
   the glue that the standard library puts around strconv.AppendFloat; strconv.AppendFloat is the same Section
   Variable as in Json/FloatModel.v, the float is the same record of observations.
   Tied to the real standard library by the model-of-oracle column of the cases s.float / s.floatq of harness/c01s.go. *)
From Verif Require Import Base.GoInt Json.FloatModel.
Open Scope Z_scope.

(* func mayAppendQuote(b []byte, quoted bool) []byte { if quoted { b = append(b, the quote) }; return b } *)
Definition may_append_quote (b : bytes) (quoted : bool) : bytes := if quoted then b ++ [ch_quote] else b.

(* the clean-up block of floatEncoder.encode:
     n := len(b)
     if n >= 4 && b[n-4] == 'e' && b[n-3] == '-' && b[n-2] == '0' {
         b[n-2] = b[n-1]
         b = b[:n-1]
     }                                                                 *)
Definition std_clean_exp (b : bytes) : bytes :=
  let n := len b in
  if n >=? 4 then
    if at_ b (n - 4) =? ch_e then
      if at_ b (n - 3) =? ch_minus then
        if at_ b (n - 2) =? ch_0 then
          slice_to (upd b (n - 2) (at_ b (n - 1))) (n - 1)
        else b
      else b
    else b
  else b.

Section StdGlue.
  Variable append_float : bytes -> float_repr -> Z -> Z -> bytes.

  (* func (bits floatEncoder) encode(e *encodeState, v reflect.Value, opts encOpts); [ebuf] is the content of the
     encodeState's buffer before the call, the result is its content after e.Write(b), or the error that e.error
     raises (Marshal then returns no bytes and that error) *)
  Definition std_float_encode (ebuf : bytes) (f : float_repr) (bits : Z) (quoted : bool) : fres :=
    (* if math.IsInf(f, 0) || math.IsNaN(f) { e.error(&UnsupportedValueError{v, strconv.FormatFloat(f, 'g', -1, int(bits))}) } *)
    if fr_inf f || fr_nan f then FUnsupported ebuf (append_float [] f ch_g bits)
    else
      (* b := e.AvailableBuffer(): an empty slice;  b = mayAppendQuote(b, opts.quoted) *)
      let b := may_append_quote [] quoted in
      (* abs := math.Abs(f); fmt := byte('f'); if abs != 0 { if bits == 64 && .. || bits == 32 && .. { fmt = 'e' } } *)
      let e64 := (bits =? 64) && (fr_lt64 f || fr_ge64 f) in
      let e32 := (bits =? 32) && (fr_lt32 f || fr_ge32 f) in
      let fmt := if fr_nonzero f then (if e64 || e32 then ch_e else ch_f) else ch_f in
      (* b = strconv.AppendFloat(b, f, fmt, -1, int(bits)) *)
      let b := append_float b f fmt bits in
      (* if fmt == 'e' { clean up e-09 to e-9 } *)
      let b := if fmt =? ch_e then std_clean_exp b else b in
      (* b = mayAppendQuote(b, opts.quoted); e.Write(b) *)
      let b := may_append_quote b quoted in
      FOk (ebuf ++ b).
End StdGlue.

(* ---- vocabulary of the statements ---- *)

Definition af_type : Type := bytes -> float_repr -> Z -> Z -> bytes.

(* what strconv.AppendFloat is documented to do with its first argument: it appends *)
Definition af_appends (af : af_type) : Prop :=
  forall dst f fmt bits, af dst f fmt bits = dst ++ af [] f fmt bits.

(* the text that AppendFloat produces for the format 'e' ends in an exponent: e, a sign, at least two digits
   (strconv's %e writes e[+-]dd or e[+-]ddd) *)
Definition exp_shaped (out : bytes) : Prop :=
  exists mant sgn ds, out = mant ++ ch_e :: sgn :: ds /\ (sgn = ch_plus \/ sgn = ch_minus) /\ 2 <= len ds.

(* the three tested bytes e - 0 sit before the last byte of b *)
Definition ends_e_minus_0 (b : bytes) : bool :=
  let n := len b in
  (n >=? 4) && (at_ b (n - 4) =? ch_e) && (at_ b (n - 3) =? ch_minus) && (at_ b (n - 2) =? ch_0).

(* ========================================= statements ========================================= *)

(* the two clean-up blocks are the same function of the slice they are applied to *)
Definition clean_exp_same_statement : Prop :=
  forall b : bytes, pkg_clean_exp b = std_clean_exp b.

(* what the clean-up does to a text ending in an exponent: e-0d becomes e-d, everything else is left alone
   (a two-digit exponent not starting with 0, a positive exponent, a three-digit exponent; mant has no constraint) *)
Definition clean_exp_cases_statement : Prop :=
  (forall mant d, std_clean_exp (mant ++ [ch_e; ch_minus; ch_0; d]) = mant ++ [ch_e; ch_minus; d]) /\
  (forall mant d1 d2, d1 <> ch_0 -> std_clean_exp (mant ++ [ch_e; ch_minus; d1; d2]) = mant ++ [ch_e; ch_minus; d1; d2]) /\
  (forall mant d1 d2, std_clean_exp (mant ++ [ch_e; ch_plus; d1; d2]) = mant ++ [ch_e; ch_plus; d1; d2]) /\
  (forall mant s d1 d2 d3, s <> ch_e ->
     std_clean_exp (mant ++ [ch_e; s; d1; d2; d3]) = mant ++ [ch_e; s; d1; d2; d3]).

(* The package applies the clean-up to the WHOLE destination buffer (prefix and number), encoding/json to the number
   alone (its scratch buffer is empty before the call). Exactly when they agree: *)
Definition clean_exp_prefix_iff_statement : Prop :=
  forall dst out : bytes,
    pkg_clean_exp (dst ++ out) = dst ++ std_clean_exp out <->
    (4 <= len out \/ ends_e_minus_0 (dst ++ out) = false).

(* an exponent-shaped text has at least four bytes *)
Definition exp_shaped_len_statement : Prop :=
  forall out, exp_shaped out -> 4 <= len out.

(* MAIN: for every float description, bit size, destination buffer and EVERY appending function whose 'e' output for
   this float has at least four bytes, the package glue and the encoding/json glue give the same result: both an
   unsupported-value error (NaN, Inf) or the same bytes *)
Definition float_glue_equal_statement : Prop :=
  forall (af : af_type) (dst : bytes) (f : float_repr) (bits : Z),
    af_appends af ->
    4 <= len (af [] f ch_e bits) ->
    fres_obs (pkg_encode_float af dst f bits) = fres_obs (std_float_encode af dst f bits false).

(* the same under the hypothesis that the 'e' output ends in e[+-]dd.. *)
Definition float_glue_equal_shaped_statement : Prop :=
  forall (af : af_type) (dst : bytes) (f : float_repr) (bits : Z),
    af_appends af ->
    exp_shaped (af [] f ch_e bits) ->
    fres_obs (pkg_encode_float af dst f bits) = fres_obs (std_float_encode af dst f bits false).

(* with an empty destination (json.Marshal of a bare float) no hypothesis on the text is needed at all *)
Definition float_glue_equal_nil_statement : Prop :=
  forall (af : af_type) (f : float_repr) (bits : Z),
    fres_obs (pkg_encode_float af [] f bits) = fres_obs (std_float_encode af [] f bits false).

(* whenever the format is 'f' (zero, or magnitude inside [1e-6, 1e21) at the given size, or a bit size other than
   32 / 64) no hypothesis on the text is needed either *)
Definition float_glue_equal_f_statement : Prop :=
  forall (af : af_type) (dst : bytes) (f : float_repr) (bits : Z),
    af_appends af ->
    (fr_nonzero f = false \/
     ((bits =? 64) && (fr_lt64 f || fr_ge64 f)) || ((bits =? 32) && (fr_lt32 f || fr_ge32 f)) = false) ->
    fres_obs (pkg_encode_float af dst f bits) = fres_obs (std_float_encode af dst f bits false).

(* the unrestricted statement (every appending function, no hypothesis on the length of its output) ... *)
Definition float_glue_equal_unrestricted_statement : Prop :=
  forall (af : af_type) (dst : bytes) (f : float_repr) (bits : Z),
    af_appends af ->
    fres_obs (pkg_encode_float af dst f bits) = fres_obs (std_float_encode af dst f bits false).
(* ... is false: an appending function that returns the two bytes 07 after the destination e- ; the package
   rewrites the buffer e-07 to e-7, encoding/json leaves its two-byte scratch buffer alone *)
Definition float_glue_unrestricted_refuted_statement : Prop :=
  ~ float_glue_equal_unrestricted_statement.

(* the error TEXT differs (not observable through C01, which compares the presence of an error): for an infinity
   the package sets Str to inf, encoding/json to strconv.FormatFloat(f, 'g', ..), which is +Inf or -Inf *)
Definition float_error_str_statement : Prop :=
  forall (af : af_type) (dst : bytes) (f : float_repr) (bits : Z),
    fr_nan f = false -> fr_inf f = true ->
    pkg_encode_float af dst f bits = FUnsupported dst [105; 110; 102] /\
    std_float_encode af dst f bits false = FUnsupported dst (af [] f ch_g bits).

(* the string option of encoding/json (opts.quoted) puts the same text between two quotes: the quote in front of the
   number never completes the pattern e-0 *)
Definition std_quoted_statement : Prop :=
  forall (af : af_type) (ebuf : bytes) (f : float_repr) (bits : Z),
    af_appends af ->
    fr_nan f = false -> fr_inf f = false ->
    exists text,
      std_float_encode af [] f bits false = FOk text /\
      std_float_encode af ebuf f bits true = FOk (ebuf ++ [ch_quote] ++ text ++ [ch_quote]).

(* the threshold bit patterns of FloatModel.v are the floating-point numbers nearest to 10^-6 and 10^21:
   for a pattern with value m * 2^e the distance to the real number is at most half a unit in the last place,
   | m * 2^e - q | * 2 <= 2^e, written without fractions; 10^21 is a float64 exactly *)
Definition thresholds_nearest_statement : Prop :=
  (let '(m, e) := f64_decode f64_1e_6 in Z.abs (m * 10 ^ 6 - 2 ^ (- e)) * 2 < 10 ^ 6) /\
  (let '(m, e) := f64_decode f64_1e21 in m * 2 ^ e = 10 ^ 21) /\
  (let '(m, e) := f32_decode f32_1e_6 in Z.abs (m * 10 ^ 6 - 2 ^ (- e)) * 2 < 10 ^ 6) /\
  (let '(m, e) := f32_decode f32_1e21 in Z.abs (m * 2 ^ e - 10 ^ 21) * 2 < 2 ^ e).
