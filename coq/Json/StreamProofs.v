(* Proofs for C11 (Decoder). *)
From Verif Require Import Base.GoInt Generated.AsmAsciiGen Ascii.AsmTotal Generated.AsciiGen Json.Ext Generated.JsonParseGen Json.Grammar Json.Spec Json.ValidProofs Json.StreamModel Json.StateSpec.
From Coq Require Import ZifyBool.
Open Scope Z_scope.

Lemma offset_monotone : offset_monotone_statement.
Admitted.
Lemma stream_independent : stream_independent_statement.
Admitted.
Lemma chunking_irrelevant : chunking_irrelevant_statement.
Admitted.
Lemma stream_failing : stream_failing_statement.
Admitted.
