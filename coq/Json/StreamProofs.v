(* Proofs for C11 (Decoder): json.Decoder framing (Json/StreamModel.v) against the grammar (Json/StateSpec.v).
   Structure:
     A. grammar lemmas: fuel monotonicity of g_value, stability of an accepted value under extension of the input;
     B. second pass over the machine-translated parser: the rest returned with an error, the kind of numbers;
     D. skipSpacesN, io.ReadFull on a script, the equation of one iteration of readValue, offset_monotone;
     E. the invariant of the decoder state, refill, readValue, Decode to the end, simulation of two readers. *)
From Verif Require Import Base.GoInt Generated.AsmAsciiGen Ascii.AsmTotal Generated.AsciiGen Json.Ext Generated.JsonParseGen Json.Grammar Json.Spec Json.ValidProofs Json.StreamModel Json.StateSpec.
From Coq Require Import ZifyBool.
Open Scope Z_scope.

(* ================= A. grammar: fuel monotonicity and stability under extension ================= *)
Definition num_start (b : bytes) : bool := match b with c :: _ => (c =? 45) || is_digit c | [] => false end.

Lemma skip_ws_app s m : skip_ws s <> [] -> skip_ws (s ++ m) = skip_ws s ++ m.
Proof.
  induction s as [|c r IH]; cbn [skip_ws app]; [congruence|]. destruct (is_ws c); [assumption|reflexivity].
Qed.
Lemma skip_digits_app s m : skip_digits s <> [] -> skip_digits (s ++ m) = skip_digits s ++ m.
Proof.
  induction s as [|c r IH]; cbn [skip_digits app]; [congruence|]. destruct (is_digit c); [assumption|reflexivity].
Qed.

Lemma g_elems_0 f b : g_elems f 0 b = None.
Proof. reflexivity. Qed.
Lemma g_members_0 f b : g_members f 0 b = None.
Proof. reflexivity. Qed.
Lemma g_elems_nil f n : g_elems f n [] = None.
Proof. destruct n; [reflexivity|]. rewrite g_elems_eq, g_value_nil. reflexivity. Qed.
Lemma g_members_nil f n : g_members f n [] = None.
Proof. destruct n; reflexivity. Qed.

Lemma g_elems_mono f f' : (forall b r, g_value f b = Some r -> g_value f' b = Some r) ->
  forall n n' b r, g_elems f n b = Some r -> (n <= n')%nat -> g_elems f' n' b = Some r.
Proof.
  intros IH. induction n as [|n IHn]; intros n' b r H L; [discriminate H|].
  destruct n' as [|n']; [lia|]. rewrite g_elems_eq in *.
  destruct (g_value f b) as [r1|] eqn:G; [|discriminate]. rewrite (IH _ _ G).
  unfold g_after_elem in *. destruct (skip_ws r1) as [|c r']; [discriminate|].
  destruct (c =? 44); [apply IHn; [assumption|lia]|assumption].
Qed.
Lemma g_members_mono f f' : (forall b r, g_value f b = Some r -> g_value f' b = Some r) ->
  forall n n' b r, g_members f n b = Some r -> (n <= n')%nat -> g_members f' n' b = Some r.
Proof.
  intros IH. induction n as [|n IHn]; intros n' b r H L; [discriminate H|].
  destruct n' as [|n']; [lia|]. rewrite g_members_eq in *.
  destruct (g_str_tok b) as [r1|]; [|discriminate].
  unfold g_after_key in *. destruct (skip_ws r1) as [|c r']; [discriminate|].
  destruct (c =? 58); [|discriminate].
  destruct (g_value f (skip_ws r')) as [r2|] eqn:G; [|discriminate]. rewrite (IH _ _ G).
  unfold g_after_member in *. destruct (skip_ws r2) as [|c2 r2']; [discriminate|].
  destruct (c2 =? 44); [apply IHn; [assumption|lia]|assumption].
Qed.

Lemma g_value_mono f f' b r : g_value f b = Some r -> (f <= f')%nat -> g_value f' b = Some r.
Proof.
  revert f' b r. induction f as [|f IH]; intros f' b r H L; [discriminate H|].
  destruct f' as [|f']; [lia|]. destruct b as [|c r0]; [rewrite g_value_nil in H; discriminate|].
  assert (IH' : forall b r, g_value f b = Some r -> g_value f' b = Some r) by (intros; apply IH; [assumption|lia]).
  destruct (Z.eqb_spec c 110); [subst c; rewrite g_value_null in *; assumption|].
  destruct (Z.eqb_spec c 116); [subst c; rewrite g_value_true in *; assumption|].
  destruct (Z.eqb_spec c 102); [subst c; rewrite g_value_false in *; assumption|].
  destruct (Z.eqb_spec c 34); [subst c; rewrite g_value_string in *; assumption|].
  destruct (Z.eqb_spec c 91).
  { subst c. rewrite g_value_array in *. destruct (skip_ws r0) as [|c r'].
    - rewrite g_elems_nil in H. discriminate.
    - destruct (c =? 93); [assumption|]. apply (g_elems_mono f f' IH' f f'); [assumption|lia]. }
  destruct (Z.eqb_spec c 123).
  { subst c. rewrite g_value_object in *. destruct (skip_ws r0) as [|c r'].
    - rewrite g_members_nil in H. discriminate.
    - destruct (c =? 125); [assumption|]. apply (g_members_mono f f' IH' f f'); [assumption|lia]. }
  rewrite g_value_other in * by lia. assumption.
Qed.

Lemma g_string_ext_n : forall n s r m, (length s <= n)%nat -> g_string s = Some r -> g_string (s ++ m) = Some (r ++ m).
Proof.
  induction n as [|n IH]; intros s r m L H.
  { destruct s; [discriminate H|cbn in L; lia]. }
  destruct s as [|c s]; [discriminate H|]. cbn [app length] in *. rewrite g_string_eq in *.
  destruct (c =? 34); [injection H as H; subst; reflexivity|].
  destruct (c =? 92).
  - destruct s as [|e s]; [discriminate|]. cbn [app length] in *.
    destruct (is_escape_letter e); [apply IH; [lia|assumption]|].
    destruct (e =? 117); [|discriminate].
    destruct s as [|h1 [|h2 [|h3 [|h4 s]]]]; try discriminate. cbn [app length] in *.
    destruct (is_hex h1 && is_hex h2 && is_hex h3 && is_hex h4); [|discriminate]. apply IH; [lia|assumption].
  - destruct (c <? 32); [discriminate|]. apply IH; [lia|assumption].
Qed.
Lemma g_string_ext s r m : g_string s = Some r -> g_string (s ++ m) = Some (r ++ m).
Proof. apply (g_string_ext_n (length s)). lia. Qed.

Lemma strip_prefix_ext p : forall b r m, strip_prefix p b = Some r -> strip_prefix p (b ++ m) = Some (r ++ m).
Proof.
  induction p as [|x p IH]; intros b r m H; cbn [strip_prefix] in *.
  - injection H as H. subst. reflexivity.
  - destruct b as [|y b]; [discriminate|]. cbn [app]. destruct (y =? x); [apply IH; assumption|discriminate].
Qed.

Lemma g_exp_ext x r m : g_exp x = Some r -> r <> [] -> g_exp (x ++ m) = Some (r ++ m).
Proof.
  intros H N. destruct x as [|e t]; [cbn in H; injection H as H; congruence|].
  cbn [app]. unfold g_exp in *. destruct ((e =? 101) || (e =? 69)).
  - assert (K : forall t', match t' with d :: r' => if is_digit d then Some (skip_digits r') else None | [] => None end = Some r ->
              match t' ++ m with d :: r' => if is_digit d then Some (skip_digits r') else None | [] => None end = Some (r ++ m)).
    { intros [|d t'] K; [discriminate|]. cbn [app]. destruct (is_digit d); [|discriminate].
      injection K as K. subst r. rewrite skip_digits_app by assumption. reflexivity. }
    destruct t as [|s t']; [discriminate|]. cbn [app].
    destruct ((s =? 43) || (s =? 45)); [apply K; assumption|]. apply (K (s :: t')). assumption.
  - injection H as H. subst r. reflexivity.
Qed.
Definition g_fe (x : bytes) : option bytes := match g_frac x with Some r => g_exp r | None => None end.
Lemma g_fe_ext x r m : g_fe x = Some r -> r <> [] -> g_fe (x ++ m) = Some (r ++ m).
Proof.
  unfold g_fe. intros H N. rewrite g_frac_eq in *. destruct x as [|c t].
  { cbn in H. injection H as H. congruence. }
  cbn [app]. destruct (c =? 46).
  - destruct t as [|d t']; [discriminate|]. cbn [app]. destruct (is_digit d); [|discriminate].
    assert (skip_digits t' <> []).
    { intros E. rewrite E in H. cbn in H. injection H as H. congruence. }
    rewrite skip_digits_app by assumption. apply g_exp_ext; assumption.
  - apply (g_exp_ext (c :: t)); assumption.
Qed.
Lemma g_number_body_ext x r m : g_number_body x = Some r -> r <> [] -> g_number_body (x ++ m) = Some (r ++ m).
Proof.
  intros H N. destruct x as [|c t]; [discriminate|]. cbn [app g_number_body] in *.
  fold (g_fe t) in H. fold (g_fe (t ++ m)). fold (g_fe (skip_digits t)) in H. fold (g_fe (skip_digits (t ++ m))).
  destruct (c =? 48); [apply g_fe_ext; assumption|].
  destruct (is_digit c); [|discriminate].
  assert (skip_digits t <> []).
  { intros E. rewrite E in H. cbn in H. injection H as H. congruence. }
  rewrite skip_digits_app by assumption. apply g_fe_ext; assumption.
Qed.
Lemma g_number_ext x r m : g_number x = Some r -> r <> [] -> g_number (x ++ m) = Some (r ++ m).
Proof.
  rewrite !g_number_eq. intros H N. destruct x as [|c t]; [discriminate|]. cbn [app].
  destruct (c =? 45); [apply g_number_body_ext; assumption|]. apply (g_number_body_ext (c :: t)); assumption.
Qed.

Lemma g_elems_ext f m : (forall b r, g_value f b = Some r -> r <> [] -> g_value f (b ++ m) = Some (r ++ m)) ->
  forall n b r, g_elems f n b = Some r -> g_elems f n (b ++ m) = Some (r ++ m).
Proof.
  intros IH. induction n as [|n IHn]; intros b r H; [discriminate H|].
  rewrite g_elems_eq in *. destruct (g_value f b) as [r1|] eqn:G; [|discriminate].
  unfold g_after_elem in *. destruct (skip_ws r1) as [|c r'] eqn:W; [discriminate|].
  assert (N1 : r1 <> []) by (intros E; subst r1; discriminate W).
  rewrite (IH _ _ G N1). unfold g_after_elem. rewrite skip_ws_app by (rewrite W; discriminate). rewrite W. cbn [app].
  destruct (c =? 44).
  - destruct (skip_ws r') as [|c2 r2] eqn:W2; [rewrite g_elems_nil in H; discriminate|].
    rewrite skip_ws_app by (rewrite W2; discriminate). rewrite W2. apply IHn. assumption.
  - destruct (c =? 93); [|discriminate]. injection H as H. subst. reflexivity.
Qed.
Lemma g_members_ext f m : (forall b r, g_value f b = Some r -> r <> [] -> g_value f (b ++ m) = Some (r ++ m)) ->
  forall n b r, g_members f n b = Some r -> g_members f n (b ++ m) = Some (r ++ m).
Proof.
  intros IH. induction n as [|n IHn]; intros b r H; [discriminate H|].
  rewrite g_members_eq in *. unfold g_str_tok in *. destruct b as [|q k]; [discriminate|]. cbn [app].
  destruct (q =? 34); [|discriminate]. destruct (g_string k) as [r1|] eqn:GS; [|discriminate].
  rewrite (g_string_ext _ _ m GS). unfold g_after_key in *.
  destruct (skip_ws r1) as [|c r'] eqn:W; [discriminate|].
  rewrite skip_ws_app by (rewrite W; discriminate). rewrite W. cbn [app].
  destruct (c =? 58); [|discriminate].
  destruct (g_value f (skip_ws r')) as [r2|] eqn:G; [|discriminate].
  destruct (skip_ws r') as [|c1 r1'] eqn:W1; [rewrite g_value_nil in G; discriminate|].
  rewrite skip_ws_app by (rewrite W1; discriminate). rewrite W1.
  unfold g_after_member in *. destruct (skip_ws r2) as [|c2 r2'] eqn:W2; [discriminate|].
  assert (N2 : r2 <> []) by (intros E; subst r2; discriminate W2).
  rewrite (IH _ _ G N2). rewrite skip_ws_app by (rewrite W2; discriminate). rewrite W2. cbn [app].
  destruct (c2 =? 44).
  - destruct (skip_ws r2') as [|c3 r3] eqn:W3; [rewrite g_members_nil in H; discriminate|].
    rewrite skip_ws_app by (rewrite W3; discriminate). rewrite W3. apply IHn. assumption.
  - destruct (c2 =? 125); [|discriminate]. injection H as H. subst. reflexivity.
Qed.

Lemma g_value_ext f : forall b r m, g_value f b = Some r -> (r <> [] \/ num_start b = false) ->
  g_value f (b ++ m) = Some (r ++ m).
Proof.
  induction f as [|f IH]; intros b r m H N; [discriminate H|].
  destruct b as [|c r0]; [rewrite g_value_nil in H; discriminate|]. cbn [app].
  assert (IH' : forall b r, g_value f b = Some r -> r <> [] -> g_value f (b ++ m) = Some (r ++ m)).
  { intros b' r' G' N'. apply IH; [assumption|left; assumption]. }
  destruct (Z.eqb_spec c 110); [subst c; rewrite g_value_null in *; apply strip_prefix_ext; assumption|].
  destruct (Z.eqb_spec c 116); [subst c; rewrite g_value_true in *; apply strip_prefix_ext; assumption|].
  destruct (Z.eqb_spec c 102); [subst c; rewrite g_value_false in *; apply strip_prefix_ext; assumption|].
  destruct (Z.eqb_spec c 34); [subst c; rewrite g_value_string in *; apply g_string_ext; assumption|].
  destruct (Z.eqb_spec c 91).
  { subst c. rewrite g_value_array in *. destruct (skip_ws r0) as [|c r'] eqn:W.
    - rewrite g_elems_nil in H. discriminate.
    - rewrite skip_ws_app by (rewrite W; discriminate). rewrite W. cbn [app].
      destruct (c =? 93); [injection H as H; subst; reflexivity|].
      apply (g_elems_ext f m IH' f (c :: r')). assumption. }
  destruct (Z.eqb_spec c 123).
  { subst c. rewrite g_value_object in *. destruct (skip_ws r0) as [|c r'] eqn:W.
    - rewrite g_members_nil in H. discriminate.
    - rewrite skip_ws_app by (rewrite W; discriminate). rewrite W. cbn [app].
      destruct (c =? 125); [injection H as H; subst; reflexivity|].
      apply (g_members_ext f m IH' f (c :: r')). assumption. }
  rewrite g_value_other in * by lia.
  apply (g_number_ext (c :: r0)); [assumption|].
  destruct N as [N|N]; [assumption|]. cbn [num_start] in N.
  rewrite g_number_bad in H; [discriminate|lia|lia].
Qed.
Lemma g_value_ext_any f b r : g_value f b = Some r -> (r <> [] \/ num_start b = false) ->
  forall f' m r', g_value f' (b ++ m) = Some r' -> r' = r ++ m.
Proof.
  intros G H f' m r' G'.
  pose proof (g_value_ext f b r m G H) as G2.
  apply (g_value_mono _ (Nat.max f f')) in G2; [|lia].
  apply (g_value_mono _ (Nat.max f f')) in G'; [|lia]. congruence.
Qed.

(* ================= B. second pass over the parser: kind of numbers, rest on errors ================= *)
Local Notation PR := (option (bytes * bytes * Z * option json_err)).

(* ---------- B.1 every successful return of parseNumber carries a number kind ---------- *)
Definition numk (res : PR) : Prop := forall v r k, res = Some (v, r, k, None) -> is_num_kind k = true.
Lemma numk_ret v r k e : is_num_kind k = true -> numk (Some (v, r, k, e)).
Proof. intros H v' r' k' E. injection E as _ _ <- _. exact H. Qed.
Lemma numk_none : numk None.
Proof. intros v r k E. discriminate E. Qed.
Lemma numk_err v r k e : numk (Some (v, r, k, Some e)).
Proof. intros v' r' k' E. discriminate E. Qed.

Lemma pn_k1_numk b r kind err i : is_num_kind kind = true -> numk (pn_k1 b r kind err i).
Proof. intros H. unfold pn_k1. apply numk_ret, H. Qed.
Lemma pn_loop3_numk b v r kind start k2 : is_num_kind kind = true -> (forall err i, numk (k2 err i)) ->
  forall fuel err i, numk (pn_loop3 b v r kind start k2 fuel err i).
Proof.
  intros Hk H2. induction fuel as [|f IH]; intros err i; [apply numk_none|].
  cbn [pn_loop3]. destruct (i <? len b); [|apply H2]. cbv zeta.
  destruct ((48 >? at_ b i) || (at_ b i >? 57)); [|apply IH].
  destruct (i =? start); [apply numk_ret, Hk|apply H2].
Qed.
Lemma pn_k6_numk b v r kind err fuel i : is_num_kind kind = true -> numk (pn_k6 b v r kind err fuel i).
Proof.
  intros Hk. unfold pn_k6. destruct (i =? len b); [apply numk_ret, Hk|]. cbv zeta.
  apply pn_loop3_numk; [exact Hk|]. intros err' i'. apply pn_k1_numk, Hk.
Qed.
Lemma pn_k7_numk b v fuel r kind err i : is_num_kind kind = true -> numk (pn_k7 b v fuel r kind err i).
Proof.
  intros Hk. unfold pn_k7. destruct ((i <? len b) && ((at_ b i =? 101) || (at_ b i =? 69))); [|apply pn_k1_numk, Hk].
  cbv zeta. destruct (addi64 i 1 <? len b); [|apply pn_k6_numk; reflexivity].
  destruct ((at_ b (addi64 i 1) =? 43) || (at_ b (addi64 i 1) =? 45)); apply pn_k6_numk; reflexivity.
Qed.
Lemma pn_loop9_numk b v kind start k8 : is_num_kind kind = true -> (forall r err i, numk (k8 r err i)) ->
  forall fuel r err i, numk (pn_loop9 b v kind start k8 fuel r err i).
Proof.
  intros Hk H8. induction fuel as [|f IH]; intros r err i; [apply numk_none|].
  cbn [pn_loop9]. destruct (i <? len b); [|apply H8]. cbv zeta.
  destruct ((48 >? at_ b i) || (at_ b i >? 57)); [|apply IH].
  destruct (i =? start); [apply numk_ret, Hk|apply H8].
Qed.
Lemma pn_k12_numk b v r err fuel kind i : is_num_kind kind = true -> numk (pn_k12 b v r err fuel kind i).
Proof.
  intros Hk. unfold pn_k12. destruct ((i <? len b) && (at_ b i =? 46)); [|apply pn_k7_numk, Hk].
  cbv zeta. apply pn_loop9_numk; [reflexivity|]. intros r' err' i'.
  destruct (i' =? addi64 i 1); [apply numk_ret; reflexivity|apply pn_k7_numk; reflexivity].
Qed.
Lemma pn_loop13_numk b k12 : (forall i, numk (k12 i)) -> forall fuel i, numk (pn_loop13 b k12 fuel i).
Proof.
  intros H. induction fuel as [|f IH]; intros i; [apply numk_none|]. cbn [pn_loop13].
  destruct (((i <? len b) && (48 <=? at_ b i)) && (at_ b i <=? 57)); [apply IH|apply H].
Qed.
Lemma pn_k16_numk b fuel kind v r err i : is_num_kind kind = true -> numk (pn_k16 b fuel kind v r err i).
Proof. intros Hk. unfold pn_k16. apply pn_loop13_numk. intros j. apply pn_k12_numk, Hk. Qed.
Lemma pn_k17_numk b fuel v r err kind i : is_num_kind kind = true -> numk (pn_k17 b fuel v r err kind i).
Proof.
  intros Hk. unfold pn_k17. destruct (i =? len b); [apply numk_ret, Hk|].
  destruct ((at_ b i <? 48) || (at_ b i >? 57)); [apply numk_ret, Hk|].
  destruct (at_ b i =? 48); [|apply pn_k16_numk, Hk]. cbv zeta.
  match goal with |- context [if ?c then _ else _] => destruct c end; [apply numk_ret, Hk|].
  match goal with |- context [if ?c then _ else _] => destruct c end; [apply numk_ret, Hk|apply pn_k16_numk, Hk].
Qed.
Lemma parseNumber_numk fuel d b : numk (json_decoder_parseNumber fuel d b).
Proof.
  rewrite parseNumber_eq. destruct (len b =? 0); [apply numk_err|].
  destruct (at_ b 0 =? 45); apply pn_k17_numk; reflexivity.
Qed.

Lemma pv_kind : forall fuel d b v r k, json_decoder_parseValue fuel d b = Some (v, r, k, None) -> num_start b = true -> is_num_kind k = true.
Proof.
  intros fuel d b v r k E Hn. destruct fuel as [|f]; [discriminate E|]. rewrite parseValue_eq in E.
  destruct b as [|c s]; [discriminate Hn|]. rewrite len_cons_nz, at_0 in E. cbv zeta in E.
  cbn [num_start] in Hn. unfold is_digit in Hn.
  destruct (Z.eqb_spec c 123); [lia|]. destruct (Z.eqb_spec c 91); [lia|]. destruct (Z.eqb_spec c 34); [lia|].
  destruct (Z.eqb_spec c 110); [lia|]. destruct (Z.eqb_spec c 116); [lia|]. destruct (Z.eqb_spec c 102); [lia|].
  match type of E with context [if ?t then _ else _] => destruct t end; [|discriminate E].
  rewrite dlet_id in E. exact (parseNumber_numk f d (c :: s) v r k E).
Qed.

(* ---------- B.2 rest returned with an error ---------- *)
Definition bad (res : PR) (P : Prop) : Prop := forall v r k e, res = Some (v, r, k, Some e) -> r <> [] -> P.
Lemma bad_ok v r k P : bad (Some (v, r, k, None)) P.
Proof. intros v' r' k' e E. discriminate E. Qed.
Lemma bad_nil v k e P : bad (Some (v, [], k, e)) P.
Proof. intros v' r' k' e' E N. injection E as _ <- _ _. congruence. Qed.
Lemma bad_none P : bad None P.
Proof. intros v r k e E. discriminate E. Qed.
Lemma bad_P res (P : Prop) : P -> bad res P.
Proof. intros H v r k e _ _. exact H. Qed.
Lemma bad_imp res (P Q : Prop) : bad res P -> (P -> Q) -> bad res Q.
Proof. intros H HI v r k e E N. exact (HI (H v r k e E N)). Qed.
Lemma bad_err v r k e (P : Prop) : (r <> [] -> P) -> bad (Some (v, r, k, e)) P.
Proof. intros H v' r' k' e' E N. injection E as _ <- _ _. exact (H N). Qed.
Lemma bad_dlet (res : PR) (K : bytes -> option json_err -> PR) (P : Prop) :
  bad res P -> (forall v r k, res = Some (v, r, k, None) -> bad (K r None) P) ->
  bad (dlet (_, b, _, err) <- res in
       if negb (isnil err) then Some ([], b, json_Undefined, err) else K b err) P.
Proof.
  intros H HK. destruct res as [[[[v r] k] e]|]; [|apply bad_none]. cbn [obind]. destruct e as [e|]; cbn [isnil negb].
  - apply bad_err. intros N. exact (H v r k e eq_refl N).
  - exact (HK v r k eq_refl).
Qed.

(* numbers: the exponent part never returns a non-empty rest with an error *)
Lemma pn_loop3_bad b kind start P : forall fuel i,
  bad (pn_loop3 b [] [] kind start (fun err i => pn_k1 b [] kind err i) fuel None i) P.
Proof.
  induction fuel as [|f IH]; intros i; [apply bad_none|]. cbn [pn_loop3].
  destruct (i <? len b); [|apply bad_ok]. cbv zeta.
  destruct ((48 >? at_ b i) || (at_ b i >? 57)); [|apply IH].
  destruct (i =? start); [apply bad_nil|apply bad_ok].
Qed.
Lemma pn_k6_bad b kind fuel i P : bad (pn_k6 b [] [] kind None fuel i) P.
Proof.
  unfold pn_k6. destruct (Z.eqb_spec i (len b)) as [X|X].
  - subst i. rewrite sf_all. apply bad_nil.
  - cbv zeta. apply pn_loop3_bad.
Qed.
Lemma pn_k7_bad b kind fuel i P : bad (pn_k7 b [] fuel [] kind None i) P.
Proof.
  unfold pn_k7. destruct ((i <? len b) && ((at_ b i =? 101) || (at_ b i =? 69))); [|apply bad_ok].
  cbv zeta. destruct (addi64 i 1 <? len b); [|apply pn_k6_bad].
  destruct ((at_ b (addi64 i 1) =? 43) || (at_ b (addi64 i 1) =? 45)); apply pn_k6_bad.
Qed.


Lemma pn_k12_bad b kind fuel i rest : len b < 2 ^ 62 -> (length b < fuel)%nat ->
  0 < i <= len b -> slice_from b i = rest ->
  bad (pn_k12 b [] [] None fuel kind i) (rest <> [] /\ forall m, g_fe (rest ++ m) = None).
Proof.
  intros Hb Hf Hi E. unfold pn_k12. destruct rest as [|c r].
  - pose proof (sf_nil' _ _ E ltac:(lia)). destruct (Z.ltb_spec i (len b)); [lia|]. cbn [andb]. apply pn_k7_bad.
  - pose proof (sf_cons' _ _ _ _ E ltac:(lia)) as (E1 & E2 & E3).
    destruct (Z.ltb_spec i (len b)); [|lia]. rewrite E2. clear E2. cbn [andb].
    destruct (Z.eqb_spec c 46) as [C|C]; [|apply pn_k7_bad]. subst c.
    cbv zeta. rewrite addi64_small by lia. rewrite pn_loop9_scan.
    assert (Lr : (length r <= length b)%nat).
    { rewrite <- E3. unfold slice_from. rewrite skipn_length. lia. }
    destruct r as [|d r'].
    + destruct fuel as [|f]; [lia|]. rewrite (pn_scan_fail b (i + 1) _ _ f []); [|lia|assumption|exact I].
      rewrite Z.eqb_refl. rewrite E3. apply bad_nil.
    + destruct (is_digit d) eqn:D.
      * match goal with |- context [pn_scan b ?s ?EE ?kk fuel _] =>
          destruct (pn_scan_spec b s EE kk Hb (d :: r') (i + 1) fuel) as (j & J1 & J2 & J3 & J4) end;
          [lia|assumption|lia|intros _; exists d, r'; auto|].
        rewrite J4. destruct (Z.eqb_spec j (i + 1)); [lia|]. apply pn_k7_bad.
      * destruct fuel as [|f]; [lia|]. rewrite (pn_scan_fail b (i + 1) _ _ f (d :: r')); [|lia|assumption|assumption].
        apply bad_P. split; [discriminate|]. intros m. unfold g_fe. rewrite g_frac_eq. cbn [app].
        change (46 =? 46) with true. cbv iota. rewrite D. reflexivity.
Qed.

Lemma pn_k16_bad b kind fuel i rest : len b < 2 ^ 62 -> (length b < fuel)%nat ->
  0 <= i <= len b -> slice_from b i = rest ->
  (0 < i \/ match rest with d :: _ => is_digit d = true | [] => False end) ->
  bad (pn_k16 b fuel kind [] [] None i) (forall m, g_fe (skip_digits (rest ++ m)) = None).
Proof.
  intros Hb Hf Hi E Hd. unfold pn_k16.
  assert (Lr : (length rest <= length b)%nat).
  { subst rest. unfold slice_from. rewrite skipn_length. lia. }
  destruct (pn_loop13_spec b (pn_k12 b [] [] None fuel kind) Hb rest i fuel) as (j & J1 & J2 & J3 & J4);
    [lia|assumption|lia|].
  rewrite J4. eapply bad_imp.
  - apply (pn_k12_bad b kind fuel j (skip_digits rest)); auto. destruct Hd as [Hd|Hd]; [lia|]. apply J2 in Hd. lia.
  - intros [N H] m. rewrite skip_digits_app by assumption. apply H.
Qed.

Lemma pn_k17_bad b kind fuel i rest : len b < 2 ^ 62 -> (length b < fuel)%nat ->
  0 <= i <= len b -> slice_from b i = rest ->
  bad (pn_k17 b fuel [] [] None kind i) (forall m, g_number_body (rest ++ m) = None).
Proof.
  intros Hb Hf Hi E. unfold pn_k17. destruct rest as [|c r].
  - pose proof (sf_nil' _ _ E ltac:(lia)). destruct (Z.eqb_spec i (len b)); [|lia]. rewrite E. apply bad_nil.
  - pose proof (sf_cons' _ _ _ _ E ltac:(lia)) as (E1 & E2 & E3).
    destruct (Z.eqb_spec i (len b)); [lia|]. rewrite E2, nondigit_ltb. clear E2.
    destruct (Z.eqb_spec c 48) as [C0|C0].
    + subst c. change (negb (is_digit 48)) with false. cbv iota. cbv zeta.
      rewrite addi64_small by lia.
      destruct r as [|x r'].
      * pose proof (sf_nil' _ _ E3 ltac:(lia)). destruct (Z.eqb_spec (i + 1) (len b)); [|lia]. cbn [orb]. apply bad_ok.
      * pose proof (sf_cons' _ _ _ _ E3 ltac:(lia)) as (F1 & F2 & F3).
        destruct (Z.eqb_spec (i + 1) (len b)); [lia|]. cbn [orb]. rewrite F2. clear F2.
        assert (K : is_digit x = false ->
          bad (pn_k16 b fuel kind [] [] None (i + 1)) (forall m, g_number_body ((48 :: x :: r') ++ m) = None)).
        { intros Dx. eapply bad_imp; [apply (pn_k16_bad b kind fuel (i + 1) (x :: r') Hb Hf ltac:(lia) E3 ltac:(lia))|].
          intros H m. specialize (H m). cbn [app skip_digits] in H. rewrite Dx in H.
          cbn [app g_number_body]. change (48 =? 48) with true. cbv iota. exact H. }
        destruct (Z.eqb_spec x 46) as [X1|X1].
        -- subst x. cbn [negb andb]. change ((48 <=? 46) && (46 <=? 57)) with false. cbv iota. apply K. reflexivity.
        -- cbn [negb andb]. destruct (Z.eqb_spec x 101) as [X2|X2].
           ++ subst x. cbn [negb andb]. change ((48 <=? 101) && (101 <=? 57)) with false. cbv iota. apply K. reflexivity.
           ++ cbn [negb andb]. destruct (Z.eqb_spec x 69) as [X3|X3].
              ** subst x. cbn [negb]. change ((48 <=? 69) && (69 <=? 57)) with false. cbv iota. apply K. reflexivity.
              ** cbn [negb]. apply bad_ok.
    + destruct (is_digit c) eqn:D; cbn [negb].
      * eapply bad_imp; [apply (pn_k16_bad b kind fuel i (c :: r) Hb Hf Hi E); right; exact D|].
        intros H m. specialize (H m). cbn [app skip_digits] in H. rewrite D in H.
        cbn [app g_number_body]. destruct (Z.eqb_spec c 48); [contradiction|]. rewrite D. exact H.
      * apply bad_P. intros m. cbn [app g_number_body]. destruct (Z.eqb_spec c 48); [contradiction|]. rewrite D. reflexivity.
Qed.

Lemma parseNumber_bad fuel d b : len b < 2 ^ 62 -> (length b < fuel)%nat ->
  bad (json_decoder_parseNumber fuel d b) (forall m, g_number (b ++ m) = None).
Proof.
  intros Hb Hf. rewrite parseNumber_eq. destruct b as [|c r].
  - cbn. apply bad_nil.
  - rewrite len_cons, at_0. pose proof (len_nonneg r). destruct (Z.eqb_spec (len r + 1) 0); [lia|].
    destruct (Z.eqb_spec c 45) as [C|C].
    + rewrite addi64_small by (cbn; lia). eapply bad_imp.
      * apply (pn_k17_bad (c :: r) json_Int fuel 1 r); auto. rewrite len_cons. lia.
      * intros HH m. rewrite g_number_eq. cbn [app]. destruct (Z.eqb_spec c 45); [|contradiction]. apply HH.
    + eapply bad_imp.
      * apply (pn_k17_bad (c :: r) json_Uint fuel 0 (c :: r)); auto. rewrite len_cons. lia.
      * intros HH m. rewrite g_number_eq. cbn [app]. destruct (Z.eqb_spec c 45); [contradiction|]. apply (HH m).
Qed.

(* strings *)
Lemma parseUnicode_n d s : snd (fst (json_decoder_parseUnicode d s)) = if len s <? 4 then len s else 4.
Proof.
  unfold json_decoder_parseUnicode. destruct (len s <? 4); [reflexivity|].
  destruct (json_decoder_parseUintHex d (slice_to s 4)) as [[u' r'] err'].
  destruct (negb (isnil err')); [reflexivity|]. destruct (negb (len r' =? 0)); reflexivity.
Qed.
Lemma hex4_app s m : (4 <= length s)%nat -> hex4 (s ++ m) = hex4 s.
Proof. destruct s as [|h1 [|h2 [|h3 [|h4 r]]]]; cbn [length]; try lia. reflexivity. Qed.
Lemma skipn4_app (s m : bytes) : (4 <= length s)%nat -> skipn 4 (s ++ m) = skipn 4 s ++ m.
Proof. destruct s as [|h1 [|h2 [|h3 [|h4 r]]]]; cbn [length]; try lia. reflexivity. Qed.

Lemma ps_loop_bad d b : len b < 2 ^ 62 ->
  forall fuel i rest, 1 <= i <= len b -> slice_from b i = rest ->
    bad (ps_loop d b fuel i) (forall m, g_string (rest ++ m) = None).
Proof.
  intros Hb. induction fuel as [|f IH]; intros i rest Hi E; [apply bad_none|].
  cbn [ps_loop]. destruct rest as [|c r1].
  - pose proof (sf_nil' _ _ E ltac:(lia)). destruct (Z.ltb_spec i (len b)); [lia|]. rewrite sf_all. apply bad_nil.
  - pose proof (sf_cons' _ _ _ _ E ltac:(lia)) as (E1 & E2 & E3).
    destruct (Z.ltb_spec i (len b)); [|lia]. cbv zeta. rewrite E2. clear E2.
    destruct (Z.eqb_spec c 92) as [C1|C1].
    + subst c. rewrite addi64_small by lia.
      destruct r1 as [|e r2].
      * pose proof (sf_nil' _ _ E3 ltac:(lia)). destruct (Z.ltb_spec (i + 1) (len b)); [lia|].
        rewrite addi64_small by lia. destruct f as [|f']; [apply bad_none|]. cbn [ps_loop].
        destruct (Z.ltb_spec (i + 1 + 1) (len b)); [lia|]. rewrite sf_all. apply bad_nil.
      * pose proof (sf_cons' _ _ _ _ E3 ltac:(lia)) as (F1 & F2 & F3).
        destruct (Z.ltb_spec (i + 1) (len b)); [|lia]. rewrite F2. clear F2. rewrite escape_letter_eq.
        assert (GS : forall m, g_string ((92 :: e :: r2) ++ m) =
                  if is_escape_letter e then g_string (r2 ++ m)
                  else if e =? 117 then (if hex4 (r2 ++ m) then g_string (skipn 4 (r2 ++ m)) else None) else None).
        { intros m. cbn [app]. rewrite g_string_eq. change (92 =? 34) with false. change (92 =? 92) with true. cbv iota.
          rewrite g_string_u. reflexivity. }
        destruct (is_escape_letter e).
        -- rewrite addi64_small by lia. eapply bad_imp; [apply (IH (i + 1 + 1) r2); [lia|assumption]|].
           intros HH m. rewrite GS. apply HH.
        -- destruct (e =? 117); [|apply bad_P; intros m; rewrite GS; reflexivity].
           rewrite addi64_small by lia. rewrite F3.
           pose proof (parseUnicode_n d r2) as PN.
           destruct (parseUnicode_spec d r2) as (u & n & er & PU & P1 & P2). rewrite PU in PN |- *. cbn [fst snd] in PN.
           assert (L5 : len r2 = len b - (i + 1 + 1)).
           { rewrite <- F3. apply sf_len. lia. }
           destruct (hex4 r2) eqn:H4.
           ++ destruct (P1 eq_refl) as [P3 P4]. subst er. clear PN. subst n. cbn [isnil negb].
              pose proof (hex4_length r2 H4) as L4.
              unfold len in L5 at 1.
              rewrite (addi64_small (i + 1) 4) by lia. rewrite addi64_small by lia.
              eapply bad_imp; [apply (IH (i + 1 + 4 + 1) (skipn 4 r2)); [lia|]|].
              ** replace (i + 1 + 4 + 1) with (i + 1 + 1 + 4) by lia. apply sf_skip; auto; lia.
              ** intros HH m. rewrite GS. rewrite hex4_app, H4, skipn4_app by assumption. apply HH.
           ++ specialize (P2 eq_refl). destruct er as [er|]; [|congruence]. cbn [isnil negb].
              destruct (Z.ltb_spec (len r2) 4) as [L4|L4].
              ** subst n. pose proof (len_nonneg r2). rewrite addi64_small by lia.
                 replace (i + 1 + 1 + len r2) with (len b) by lia. rewrite sf_all. apply bad_nil.
              ** apply bad_P. intros m. rewrite GS. rewrite hex4_app, H4 by (unfold len in L4; lia). reflexivity.
    + assert (GS : forall m, g_string ((c :: r1) ++ m) =
                if c =? 34 then Some (r1 ++ m) else if c <? 32 then None else g_string (r1 ++ m)).
      { intros m. cbn [app]. rewrite g_string_eq. destruct (Z.eqb_spec c 92); [contradiction|]. reflexivity. }
      destruct (Z.eqb_spec c 34) as [C2|C2]; [apply bad_ok|].
      destruct (c <? 32) eqn:C3; [apply bad_P; intros m; rewrite GS; reflexivity|].
      rewrite addi64_small by lia. eapply bad_imp; [apply (IH (i + 1) r1); [lia|assumption]|].
      intros HH m. rewrite GS. apply HH.
Qed.

Lemma parseString_bad fuel d b : wfb b = true -> len b < 2 ^ 62 ->
  bad (json_decoder_parseString fuel d b) (forall m, g_str_tok (b ++ m) = None).
Proof.
  intros Hw Hb. rewrite parseString_eq.
  destruct (Z.ltb_spec (len b) 2) as [X|X]; [rewrite sf_all; apply bad_nil|].
  destruct b as [|c s]; [cbn in X; lia|]. rewrite at_0.
  destruct (Z.eqb_spec c 34) as [C|C]; cbn [negb].
  2:{ apply bad_P. intros m. cbn [app g_str_tok]. destruct (Z.eqb_spec c 34); [contradiction|reflexivity]. }
  subst c. assert (Hw' : wfb s = true) by exact (wfb_sf (34 :: s) 1 Hw).
  rewrite (ps_find_spec _ s _ eq_refl Hw' Hb).
  match goal with |- context [if ?c then _ else _] => destruct c end; [|rewrite sf_all; apply bad_nil].
  unfold ps_k8. match goal with |- context [if ?c then _ else _] => destruct c end; [apply bad_ok|].
  apply (ps_loop_bad d (34 :: s) Hb fuel 1 s); [|reflexivity].
  rewrite len_cons in X |- *. lia.
Qed.

(* literals *)
Lemma strip_prefix_app_none p : forall b m, strip_prefix p b = None -> len p <= len b -> strip_prefix p (b ++ m) = None.
Proof.
  induction p as [|x p IH]; intros b m H L; cbn [strip_prefix] in *; [discriminate H|].
  destruct b as [|y b].
  - rewrite len_cons in L. pose proof (len_nonneg p). cbn in L. lia.
  - cbn [app]. destruct (y =? x); [|reflexivity]. apply IH; [assumption|]. rewrite !len_cons in L. lia.
Qed.
Lemma lit_bad (p b : bytes) (k : Z) :
  bad (Some (if ((len b >=? len p) && bytes_eqb (slice_to b (len p)) p)
           then (slice_to b (len p), slice_from b (len p), k, None)
           else if len b <? len p then ([], slice_from b (len b), json_Undefined, Some JErrUnexpectedEOF)
           else ([], b, json_Undefined, Some JErrSyntax))) (forall m, strip_prefix p (b ++ m) = None).
Proof.
  rewrite has_prefix_strip. destruct (strip_prefix p b) as [r|] eqn:E; [apply bad_ok|].
  destruct (Z.ltb_spec (len b) (len p)); [rewrite sf_all; apply bad_nil|].
  apply bad_P. intros m. apply strip_prefix_app_none; assumption.
Qed.

(* containers *)
Definition pvb_ok (fuel : nat) (d : Z) : Prop :=
  forall b, wfb b = true -> len b < 2 ^ 62 -> flags_sound d b -> (2 * length b + 4 <= fuel)%nat ->
    bad (json_decoder_parseValue fuel d b) (forall gf m, g_value gf (b ++ m) = None).

Lemma g_str_tok_ext b r m : g_str_tok b = Some r -> g_str_tok (b ++ m) = Some (r ++ m).
Proof.
  unfold g_str_tok. destruct b as [|c k]; [discriminate|]. cbn [app]. destruct (c =? 34); [|discriminate].
  apply g_string_ext.
Qed.
Lemma pv_nil_bad fuel d (K : bytes -> option json_err -> PR) P :
  bad (dlet (_, b, _, err) <- json_decoder_parseValue fuel d [] in
       if negb (isnil err) then Some ([], b, json_Undefined, err) else K b err) P.
Proof. destruct fuel as [|f]; [apply bad_none|]. rewrite parseValue_eq. cbn. apply bad_nil. Qed.

Section ContainersBad.
  Variables (fuel' : nat) (d : Z) (a : bytes).
  Hypothesis Hwa : wfb a = true.
  Hypothesis Hla : len a < 2 ^ 62.
  Hypothesis Hfa : flags_sound d a.
  Hypothesis IHv : pvb_ok fuel' d.
  Hypothesis Hfuel : (2 * length a + 2 <= fuel')%nat.

  Lemma value_err_at p b2 : 1 <= p <= len a -> slice_from a p = b2 ->
    bad (json_decoder_parseValue fuel' d b2) (forall gf m, g_value gf (b2 ++ m) = None).
  Proof.
    intros Hp E. pose proof (sf_len' a p b2 ltac:(lia) E) as LL. unfold len in LL.
    apply IHv.
    - rewrite <- E. apply wfb_sf. assumption.
    - unfold len in *. lia.
    - rewrite <- E. apply flags_sound_sf. assumption.
    - lia.
  Qed.
  Lemma value_ok_at p b2 v r k : 1 <= p <= len a -> slice_from a p = b2 ->
    json_decoder_parseValue fuel' d b2 = Some (v, r, k, None) ->
    g_value (length a) b2 = Some r /\ exists j, 0 < j <= len b2 /\ r = slice_from b2 j.
  Proof.
    intros Hp E Ev. pose proof (sf_len' a p b2 ltac:(lia) E) as LL. unfold len in LL.
    destruct (value_at fuel' d a (length a) Hwa Hla Hfa (pv_all d fuel') Hfuel (le_n _) p b2 Hp E ltac:(lia))
      as (v' & r' & k' & e' & E' & Hok & _).
    rewrite Ev in E'. injection E' as <- <- <- <-. destruct (Hok eq_refl) as (G & j & J1 & J2 & J3).
    split; [assumption|]. exists j. auto.
  Qed.
  Lemma string_ok_at p b2 v r k : 1 <= p <= len a -> slice_from a p = b2 ->
    json_decoder_parseString fuel' d b2 = Some (v, r, k, None) ->
    g_str_tok b2 = Some r /\ exists j, 0 < j <= len b2 /\ r = slice_from b2 j.
  Proof.
    intros Hp E Ev.
    destruct (string_at fuel' d a (length a) Hwa Hla Hfa Hfuel (le_n _) p b2 Hp E)
      as (v' & r' & k' & e' & E' & Hok & _).
    rewrite Ev in E'. injection E' as <- <- <- <-. destruct (Hok eq_refl) as (G & j & J1 & J2 & J3).
    split; [assumption|]. exists j. auto.
  Qed.
  Lemma string_err_at p b2 : 1 <= p <= len a -> slice_from a p = b2 ->
    bad (json_decoder_parseString fuel' d b2) (forall m, g_str_tok (b2 ++ m) = None).
  Proof.
    intros Hp E. pose proof (sf_len' a p b2 ltac:(lia) E) as LL. unfold len in LL.
    apply parseString_bad.
    - rewrite <- E. apply wfb_sf. assumption.
    - unfold len in *. lia.
  Qed.

  Lemma arr_loop_nil n g err i P : bad (arr_loop fuel' d a n g [] err i) P.
  Proof. destruct g as [|g]; [apply bad_none|]. cbn [arr_loop]. rewrite skipSpaces_spec. cbn. apply bad_nil. Qed.
  Lemma obj_loop_nil n g err i P : bad (obj_loop fuel' d a n g [] err i) P.
  Proof. destruct g as [|g]; [apply bad_none|]. cbn [obj_loop]. rewrite skipSpaces_spec. cbn. apply bad_nil. Qed.

  Lemma arr_elem_bad g i p2 b2 :
    (forall s p i, 1 <= p <= len a -> slice_from a p = s -> 0 < i -> i + len s <= len a ->
       bad (arr_loop fuel' d a (len a) g s None i) (forall f n' m, g_after_elem f n' (s ++ m) = None)) ->
    1 <= p2 <= len a -> slice_from a p2 = b2 -> 0 <= i -> i + len b2 <= len a ->
    bad (dlet (_, b, _, err) <- json_decoder_parseValue fuel' d b2 in
         if negb (isnil err) then Some ([], b, json_Undefined, err)
         else arr_loop fuel' d a (len a) g b err (addi64 i 1))
      (forall f n' m, g_elems f n' (b2 ++ m) = None).
  Proof.
    intros LoopH Hp2 E3 Hi Hil. pose proof (sf_len' a p2 _ ltac:(lia) E3) as Ls2.
    apply (bad_dlet _ (fun b err => arr_loop fuel' d a (len a) g b err (addi64 i 1))).
    - eapply bad_imp; [apply (value_err_at p2 b2 Hp2 E3)|].
      intros H f n' m. destruct n' as [|n']; [reflexivity|]. rewrite g_elems_eq, H. reflexivity.
    - intros v r k Ev. destruct (value_ok_at p2 b2 v r k Hp2 E3 Ev) as (G & j & J1 & J3).
      destruct r as [|x r]; [apply arr_loop_nil|]. rewrite addi64_small by lia.
      assert (E4 : slice_from a (p2 + j) = x :: r).
      { rewrite J3, <- E3. symmetry. apply sf_sf; lia. }
      pose proof (sf_len' a (p2 + j) _ ltac:(lia) E4) as Lr.
      eapply bad_imp; [apply (LoopH (x :: r) (p2 + j) (i + 1)); [lia|assumption|lia|lia]|].
      intros H f n' m. destruct n' as [|n']; [reflexivity|]. rewrite g_elems_eq.
      destruct (g_value f (b2 ++ m)) as [r'|] eqn:G'; [|reflexivity].
      assert (NE : x :: r <> []) by discriminate.
      pose proof (g_value_ext_any _ _ _ G (or_introl NE) _ _ _ G') as X. subst r'. apply H.
  Qed.

  Lemma arr_loop_bad : forall g s p i, 1 <= p <= len a -> slice_from a p = s -> 0 < i -> i + len s <= len a ->
    bad (arr_loop fuel' d a (len a) g s None i) (forall f n' m, g_after_elem f n' (s ++ m) = None).
  Proof.
    induction g as [|g IH]; intros s p i Hp Es Hi Hil; [apply bad_none|].
    cbn [arr_loop]. rewrite !skipSpaces_spec.
    destruct (skip_ws_sf a p s ltac:(lia) Es) as (p1 & Hp1 & E1).
    pose proof (sf_len' a p s ltac:(lia) Es) as Ls.
    pose proof (sf_len' a p1 _ ltac:(lia) E1) as Ls1.
    destruct (skip_ws s) as [|c r1] eqn:Ews.
    - cbn. apply bad_nil.
    - rewrite len_cons_nz, at_0. rewrite len_cons in Ls1. pose proof (len_nonneg r1).
      pose proof (sf_cons' _ _ _ _ E1 ltac:(lia)) as (_ & _ & E2).
      assert (GA : forall f n' m, g_after_elem f n' (s ++ m) =
                if c =? 44 then g_elems f n' (skip_ws (r1 ++ m)) else if c =? 93 then Some (r1 ++ m) else None).
      { intros. unfold g_after_elem. rewrite skip_ws_app by (rewrite Ews; discriminate). rewrite Ews. reflexivity. }
      destruct (Z.eqb_spec c 93) as [C93|C93]; [apply bad_ok|].
      destruct (Z.eqb_spec i 0); [lia|]. cbn [negb].
      destruct (Z.eqb_spec c 44) as [C44|C44]; cbn [negb].
      2:{ apply bad_P. intros f n' m. rewrite GA. reflexivity. }
      rewrite sf_1.
      destruct (skip_ws_sf a (p1 + 1) r1 ltac:(lia) E2) as (p2 & Hp2 & E3).
      pose proof (sf_len' a p2 _ ltac:(lia) E3) as Ls2.
      destruct (skip_ws r1) as [|c2 r2] eqn:Ews2.
      * cbn. apply bad_nil.
      * rewrite len_cons_nz, at_0. rewrite len_cons in Ls2. pose proof (len_nonneg r2).
        assert (GB : forall m, skip_ws (r1 ++ m) = (c2 :: r2) ++ m).
        { intros. rewrite skip_ws_app by (rewrite Ews2; discriminate). rewrite Ews2. reflexivity. }
        destruct (Z.eqb_spec c2 93) as [D93|D93].
        { apply bad_P. intros f n' m. rewrite GA, GB. destruct n' as [|n']; [reflexivity|]. rewrite g_elems_eq.
          cbn [app]. rewrite g_value_bad by lia. reflexivity. }
        eapply bad_imp; [apply (arr_elem_bad g i p2 (c2 :: r2) IH); [lia|assumption|lia|rewrite len_cons; lia]|].
        intros HH f n' m. rewrite GA, GB. apply HH.
  Qed.

  Lemma parseArray_bad s0 : a = 91 :: s0 ->
    bad (json_decoder_parseArray (S fuel') d a) (forall gf m, g_value gf (a ++ m) = None).
  Proof.
    intros Ea. rewrite parseArray_eq.
    assert (La : len a = len s0 + 1) by (rewrite Ea; apply len_cons). pose proof (len_nonneg s0) as L0.
    assert (E0 : slice_from a 1 = s0) by (rewrite Ea; reflexivity).
    assert (At : at_ a 0 = 91) by (rewrite Ea; reflexivity).
    destruct (Z.ltb_spec (len a) 2) as [L2|L2]; [rewrite sf_all; apply bad_nil|].
    rewrite At. cbn [negb Z.eqb Pos.eqb]. rewrite E0.
    generalize fuel' at 2. intros g. destruct g as [|g]; [apply bad_none|].
    cbn [arr_loop]. rewrite !skipSpaces_spec.
    destruct (skip_ws_sf a 1 s0 ltac:(lia) E0) as (p1 & Hp1 & E1).
    pose proof (sf_len' a p1 _ ltac:(lia) E1) as Ls1.
    destruct (skip_ws s0) as [|c r1] eqn:Ews.
    - cbn. apply bad_nil.
    - rewrite len_cons_nz, at_0. rewrite len_cons in Ls1. pose proof (len_nonneg r1).
      destruct (Z.eqb_spec c 93) as [C93|C93]; [apply bad_ok|].
      change (negb (0 =? 0)) with false. cbv iota.
      eapply bad_imp; [apply (arr_elem_bad g 0 p1 (c :: r1) (arr_loop_bad g)); [lia|assumption|lia|rewrite len_cons; lia]|].
      intros HH gf m. destruct gf as [|f]; [reflexivity|]. rewrite Ea. cbn [app]. rewrite g_value_array.
      rewrite skip_ws_app by (rewrite Ews; discriminate). rewrite Ews. cbn [app].
      destruct (Z.eqb_spec c 93); [contradiction|]. apply (HH f f m).
  Qed.

  Lemma obj_member_bad g i p2 b2 :
    (forall s p i, 1 <= p <= len a -> slice_from a p = s -> 0 < i -> i + len s <= len a ->
       bad (obj_loop fuel' d a (len a) g s None i) (forall f n' m, g_after_member f n' (s ++ m) = None)) ->
    1 <= p2 <= len a -> slice_from a p2 = b2 -> 0 <= i -> i + len b2 <= len a ->
    bad (obj_k5 fuel' d a g i b2) (forall f n' m, g_members f n' (b2 ++ m) = None).
  Proof.
    intros LoopH Hp2 E3 Hi Hil. pose proof (sf_len' a p2 _ ltac:(lia) E3) as Ls2. unfold obj_k5.
    apply bad_dlet.
    - eapply bad_imp; [apply (string_err_at p2 b2 Hp2 E3)|].
      intros HH f n' m. destruct n' as [|n']; [reflexivity|]. rewrite g_members_eq, HH. reflexivity.
    - intros v b3 k Ev. destruct (string_ok_at p2 b2 v b3 k Hp2 E3 Ev) as (G3 & j3 & J1 & J3).
      cbv zeta. rewrite !skipSpaces_spec.
      assert (E4 : slice_from a (p2 + j3) = b3).
      { rewrite J3, <- E3. symmetry. apply sf_sf; lia. }
      pose proof (sf_len' a (p2 + j3) b3 ltac:(lia) E4) as L3.
      assert (GM : forall f n' m, g_members f (S n') (b2 ++ m) = g_after_key f n' (b3 ++ m)).
      { intros. rewrite g_members_eq, (g_str_tok_ext _ _ _ G3). reflexivity. }
      destruct (skip_ws_sf a (p2 + j3) b3 ltac:(lia) E4) as (p4 & Hp4 & E5).
      pose proof (sf_len' a p4 _ ltac:(lia) E5) as L4.
      destruct (skip_ws b3) as [|c4 r4] eqn:Ews4.
      { cbn. apply bad_nil. }
      rewrite len_cons_nz, at_0. rewrite len_cons in L4. pose proof (len_nonneg r4).
      pose proof (sf_cons' _ _ _ _ E5 ltac:(lia)) as (_ & _ & E6).
      assert (GK : forall f n' m, g_after_key f n' (b3 ++ m) =
                if c4 =? 58 then match g_value f (skip_ws (r4 ++ m)) with None => None | Some r => g_after_member f n' r end
                else None).
      { intros. unfold g_after_key. rewrite skip_ws_app by (rewrite Ews4; discriminate). rewrite Ews4. reflexivity. }
      destruct (Z.eqb_spec c4 58) as [C58|C58]; cbn [negb].
      2:{ apply bad_P. intros f n' m. destruct n' as [|n']; [reflexivity|]. rewrite GM, GK. reflexivity. }
      rewrite sf_1.
      destruct (skip_ws_sf a (p4 + 1) r4 ltac:(lia) E6) as (p5 & Hp5 & E7).
      pose proof (sf_len' a p5 _ ltac:(lia) E7) as L5.
      destruct (skip_ws r4) as [|c5 r5] eqn:Ews5; [apply pv_nil_bad|].
      assert (GB : forall m, skip_ws (r4 ++ m) = (c5 :: r5) ++ m).
      { intros. rewrite skip_ws_app by (rewrite Ews5; discriminate). rewrite Ews5. reflexivity. }
      apply (bad_dlet _ (fun b err => obj_loop fuel' d a (len a) g b err (addi64 i 1))).
      + eapply bad_imp; [apply (value_err_at p5 (c5 :: r5) ltac:(lia) E7)|].
        intros HH f n' m. destruct n' as [|n']; [reflexivity|]. rewrite GM, GK, GB, HH. reflexivity.
      + intros v' r k' Ev'. destruct (value_ok_at p5 _ v' r k' ltac:(lia) E7 Ev') as (G & j & J1' & J3').
        destruct r as [|x r]; [apply obj_loop_nil|]. rewrite addi64_small by lia.
        assert (E8 : slice_from a (p5 + j) = x :: r).
        { rewrite J3', <- E7. symmetry. apply sf_sf; lia. }
        pose proof (sf_len' a (p5 + j) _ ltac:(lia) E8) as Lr.
        eapply bad_imp; [apply (LoopH (x :: r) (p5 + j) (i + 1)); [lia|assumption|lia|lia]|].
        intros HH f n' m. destruct n' as [|n']; [reflexivity|]. rewrite GM, GK, GB.
        destruct (g_value f ((c5 :: r5) ++ m)) as [r'|] eqn:G'; [|reflexivity].
        assert (NE : x :: r <> []) by discriminate.
      pose proof (g_value_ext_any _ _ _ G (or_introl NE) _ _ _ G') as X. subst r'. apply HH.
  Qed.

  Lemma obj_loop_bad : forall g s p i, 1 <= p <= len a -> slice_from a p = s -> 0 < i -> i + len s <= len a ->
    bad (obj_loop fuel' d a (len a) g s None i) (forall f n' m, g_after_member f n' (s ++ m) = None).
  Proof.
    induction g as [|g IH]; intros s p i Hp Es Hi Hil; [apply bad_none|].
    cbn [obj_loop]. rewrite !skipSpaces_spec.
    destruct (skip_ws_sf a p s ltac:(lia) Es) as (p1 & Hp1 & E1).
    pose proof (sf_len' a p s ltac:(lia) Es) as Ls.
    pose proof (sf_len' a p1 _ ltac:(lia) E1) as Ls1.
    destruct (skip_ws s) as [|c r1] eqn:Ews.
    - cbn. apply bad_nil.
    - rewrite len_cons_nz, at_0. rewrite len_cons in Ls1. pose proof (len_nonneg r1).
      pose proof (sf_cons' _ _ _ _ E1 ltac:(lia)) as (_ & _ & E2).
      assert (GA : forall f n' m, g_after_member f n' (s ++ m) =
                if c =? 44 then g_members f n' (skip_ws (r1 ++ m)) else if c =? 125 then Some (r1 ++ m) else None).
      { intros. unfold g_after_member. rewrite skip_ws_app by (rewrite Ews; discriminate). rewrite Ews. reflexivity. }
      destruct (Z.eqb_spec c 125) as [C125|C125]; [apply bad_ok|].
      destruct (Z.eqb_spec i 0); [lia|]. cbn [negb].
      destruct (Z.eqb_spec c 44) as [C44|C44]; cbn [negb].
      2:{ apply bad_P. intros f n' m. rewrite GA. reflexivity. }
      rewrite sf_1.
      destruct (skip_ws_sf a (p1 + 1) r1 ltac:(lia) E2) as (p2 & Hp2 & E3).
      pose proof (sf_len' a p2 _ ltac:(lia) E3) as Ls2.
      destruct (skip_ws r1) as [|c2 r2] eqn:Ews2.
      * cbn. apply bad_nil.
      * rewrite len_cons_nz, at_0. rewrite len_cons in Ls2. pose proof (len_nonneg r2).
        assert (GB : forall m, skip_ws (r1 ++ m) = (c2 :: r2) ++ m).
        { intros. rewrite skip_ws_app by (rewrite Ews2; discriminate). rewrite Ews2. reflexivity. }
        destruct (Z.eqb_spec c2 125) as [D125|D125].
        { subst c2. apply bad_P. intros f n' m. rewrite GA, GB. destruct n' as [|n']; [reflexivity|]. rewrite g_members_eq.
          reflexivity. }
        eapply bad_imp; [apply (obj_member_bad g i p2 (c2 :: r2) IH); [lia|assumption|lia|rewrite len_cons; lia]|].
        intros HH f n' m. rewrite GA, GB. apply HH.
  Qed.

  Lemma parseObject_bad s0 : a = 123 :: s0 ->
    bad (json_decoder_parseObject (S fuel') d a) (forall gf m, g_value gf (a ++ m) = None).
  Proof.
    intros Ea. rewrite parseObject_eq.
    assert (La : len a = len s0 + 1) by (rewrite Ea; apply len_cons). pose proof (len_nonneg s0) as L0.
    assert (E0 : slice_from a 1 = s0) by (rewrite Ea; reflexivity).
    assert (At : at_ a 0 = 123) by (rewrite Ea; reflexivity).
    destruct (Z.ltb_spec (len a) 2) as [L2|L2]; [rewrite sf_all; apply bad_nil|].
    rewrite At. cbn [negb Z.eqb Pos.eqb]. rewrite E0.
    generalize fuel' at 2. intros g. destruct g as [|g]; [apply bad_none|].
    cbn [obj_loop]. rewrite !skipSpaces_spec.
    destruct (skip_ws_sf a 1 s0 ltac:(lia) E0) as (p1 & Hp1 & E1).
    pose proof (sf_len' a p1 _ ltac:(lia) E1) as Ls1.
    destruct (skip_ws s0) as [|c r1] eqn:Ews.
    - cbn. apply bad_nil.
    - rewrite len_cons_nz, at_0. rewrite len_cons in Ls1. pose proof (len_nonneg r1).
      destruct (Z.eqb_spec c 125) as [C125|C125]; [apply bad_ok|].
      change (negb (0 =? 0)) with false. cbv iota.
      eapply bad_imp; [apply (obj_member_bad g 0 p1 (c :: r1) (obj_loop_bad g)); [lia|assumption|lia|rewrite len_cons; lia]|].
      intros HH gf m. destruct gf as [|f]; [reflexivity|]. rewrite Ea. cbn [app]. rewrite g_value_object.
      rewrite skip_ws_app by (rewrite Ews; discriminate). rewrite Ews. cbn [app].
      destruct (Z.eqb_spec c 125); [contradiction|]. apply (HH f f m).
  Qed.
End ContainersBad.

Lemma pv_bad_all d : forall fuel, pvb_ok fuel d.
Proof.
  induction fuel as [fuel IHf] using lt_wf_ind. intros b Hw Hl Hfs Hfuel.
  destruct fuel as [|f1]; [lia|]. rewrite parseValue_eq.
  destruct b as [|c r]; [cbn; apply bad_nil|].
  rewrite len_cons_nz, at_0. cbv zeta.
  destruct f1 as [|f2]; [cbn [length] in Hfuel; lia|].
  destruct (Z.eqb_spec c 123) as [C1|C1].
  { subst c. rewrite dlet_id.
    apply (parseObject_bad f2 d (123 :: r) Hw Hl Hfs (IHf f2 ltac:(lia)) ltac:(lia) r eq_refl). }
  destruct (Z.eqb_spec c 91) as [C2|C2].
  { subst c. rewrite dlet_id.
    apply (parseArray_bad f2 d (91 :: r) Hw Hl Hfs (IHf f2 ltac:(lia)) ltac:(lia) r eq_refl). }
  destruct (Z.eqb_spec c 34) as [C3|C3].
  { subst c. rewrite dlet_id. eapply bad_imp; [apply parseString_bad; assumption|].
    intros HH gf m. destruct gf as [|f]; [reflexivity|]. cbn [app]. rewrite g_value_string. exact (HH m). }
  destruct (Z.eqb_spec c 110) as [C4|C4].
  { subst c.
    assert (L : bad (Some (if ((len (110 :: r) >=? 4) && bytes_eqb (slice_to (110 :: r) 4) [110; 117; 108; 108])
           then (slice_to (110 :: r) 4, slice_from (110 :: r) 4, json_Null, None)
           else if len (110 :: r) <? 4 then ([], slice_from (110 :: r) (len (110 :: r)), json_Undefined, Some JErrUnexpectedEOF)
           else ([], 110 :: r, json_Undefined, Some JErrSyntax))) (forall gf m, g_value gf ((110 :: r) ++ m) = None)).
    { eapply bad_imp; [exact (lit_bad [110; 117; 108; 108] (110 :: r) json_Null)|].
      intros HH gf m. destruct gf as [|f]; [reflexivity|]. cbn [app]. rewrite g_value_null. exact (HH m). }
    unfold json_decoder_parseNull, json_hasNullPrefix.
    destruct ((len (110 :: r) >=? 4) && bytes_eqb (slice_to (110 :: r) 4) [110; 117; 108; 108]); [exact L|].
    destruct (len (110 :: r) <? 4); exact L. }
  destruct (Z.eqb_spec c 116) as [C5|C5].
  { subst c.
    assert (L : bad (Some (if ((len (116 :: r) >=? 4) && bytes_eqb (slice_to (116 :: r) 4) [116; 114; 117; 101])
           then (slice_to (116 :: r) 4, slice_from (116 :: r) 4, json_True, None)
           else if len (116 :: r) <? 4 then ([], slice_from (116 :: r) (len (116 :: r)), json_Undefined, Some JErrUnexpectedEOF)
           else ([], 116 :: r, json_Undefined, Some JErrSyntax))) (forall gf m, g_value gf ((116 :: r) ++ m) = None)).
    { eapply bad_imp; [exact (lit_bad [116; 114; 117; 101] (116 :: r) json_True)|].
      intros HH gf m. destruct gf as [|f]; [reflexivity|]. cbn [app]. rewrite g_value_true. exact (HH m). }
    unfold json_decoder_parseTrue, json_hasTruePrefix.
    destruct ((len (116 :: r) >=? 4) && bytes_eqb (slice_to (116 :: r) 4) [116; 114; 117; 101]); [exact L|].
    destruct (len (116 :: r) <? 4); exact L. }
  destruct (Z.eqb_spec c 102) as [C6|C6].
  { subst c.
    assert (L : bad (Some (if ((len (102 :: r) >=? 5) && bytes_eqb (slice_to (102 :: r) 5) [102; 97; 108; 115; 101])
           then (slice_to (102 :: r) 5, slice_from (102 :: r) 5, json_False, None)
           else if len (102 :: r) <? 5 then ([], slice_from (102 :: r) (len (102 :: r)), json_Undefined, Some JErrUnexpectedEOF)
           else ([], 102 :: r, json_Undefined, Some JErrSyntax))) (forall gf m, g_value gf ((102 :: r) ++ m) = None)).
    { eapply bad_imp; [exact (lit_bad [102; 97; 108; 115; 101] (102 :: r) json_False)|].
      intros HH gf m. destruct gf as [|f]; [reflexivity|]. cbn [app]. rewrite g_value_false. exact (HH m). }
    unfold json_decoder_parseFalse, json_hasFalsePrefix.
    destruct ((len (102 :: r) >=? 5) && bytes_eqb (slice_to (102 :: r) 5) [102; 97; 108; 115; 101]); [exact L|].
    destruct (len (102 :: r) <? 5); exact L. }
  assert (GO : forall f m, g_value (S f) ((c :: r) ++ m) = g_number ((c :: r) ++ m)).
  { intros f m. cbn [app]. apply g_value_other. lia. }
  match goal with |- context [if ?t then _ else _] => destruct t eqn:T end.
  - rewrite dlet_id. eapply bad_imp; [apply parseNumber_bad; [assumption|lia]|].
    intros HH gf m. destruct gf as [|f]; [reflexivity|]. rewrite GO. apply HH.
  - apply bad_P. intros gf m. destruct gf as [|f]; [reflexivity|]. rewrite GO. cbn [app].
    apply g_number_bad; [lia|]. unfold is_digit.
    destruct (Z.leb_spec 48 c), (Z.leb_spec c 57); try reflexivity. exfalso. lia.
Qed.

Lemma pv_bad : forall fuel d b v r k e, wfb b = true -> len b < 2 ^ 62 -> flags_sound d b -> (2 * length b + 4 <= fuel)%nat ->
  json_decoder_parseValue fuel d b = Some (v, r, k, Some e) -> r <> [] -> forall gf m, g_value gf (b ++ m) = None.
Proof.
  intros fuel d b v r k e Hw Hl Hfs Hfuel E N. exact (pv_bad_all d fuel b Hw Hl Hfs Hfuel v r k e E N).
Qed.

(* ================= D. skipSpacesN, the reader, one step of readValue ================= *)
Lemma ssn_fst b : fst (json_skipSpacesN b) = skip_ws b.
Proof. rewrite skipSpacesN_eq. apply ssn_loop_spec; [lia|apply sf_0]. Qed.
Lemma ssn_loop_nonneg b : forall rest i, 0 <= i -> 0 <= snd (ssn_loop b rest i).
Proof.
  induction rest as [|c r IH]; intros i Hi; cbn [ssn_loop snd]; [apply len_nonneg|].
  destruct (is_ws (at_ b i)); [apply IH; lia|assumption].
Qed.
Lemma ssn_snd b : 0 <= snd (json_skipSpacesN b).
Proof. rewrite skipSpacesN_eq. apply ssn_loop_nonneg. lia. Qed.

(* the pieces of one iteration of read_value *)
Definition rv_attempt (pfuel : nat) (dflags : Z) (st : dstate) : option (dresult * dstate) :=
  if len (d_remain st) =? 0 then None else
  match json_decoder_parseValue pfuel dflags (d_remain st) with
  | None => Some (DOutOfFuel, st)
  | Some (v, r, k, err) =>
      match err with
      | None =>
          if negb (len r =? 0) || (match d_err st with Some REOF => true | _ => false end) || negb (is_num_kind k) then
            let '(rem', n) := json_skipSpacesN r in
            Some (DValue v, {| d_buffer := d_buffer st; d_cap := d_cap st; d_remain := rem';
                               d_offset := d_offset st + len v + n; d_err := d_err st; d_reader := d_reader st; d_term := d_term st |})
          else None
      | Some _ => if negb (len r =? 0) then Some (DSyntax, st) else None
      end
  end.
Definition rf_buf (st : dstate) : bytes := if d_cap st =? 0 then [] else d_remain st.
Definition rf_cap (st : dstate) : Z :=
  let cap := if d_cap st =? 0 then json_minBufferSize else d_cap st in
  if (cap - len (rf_buf st)) <? json_minReadSize then 2 * cap else cap.
Definition rf_read (st : dstate) : bytes * option rerr * script :=
  read_full (S (length (d_reader st))) (d_term st) (d_reader st) (rf_cap st - len (rf_buf st)) [].
Definition rf_err (data : bytes) (rerr0 : option rerr) : option rerr :=
  if len data >? 0 then None else match rerr0 with Some RUnexpectedEOF => Some REOF | x => x end.
Definition rf_state (st : dstate) : dstate :=
  let data := fst (fst (rf_read st)) in
  let buf := rf_buf st ++ data in
  {| d_buffer := buf; d_cap := rf_cap st; d_remain := fst (json_skipSpacesN buf);
     d_offset := d_offset st + snd (json_skipSpacesN buf); d_err := rf_err data (snd (fst (rf_read st)));
     d_reader := snd (rf_read st); d_term := d_term st |}.
Definition rf_flags (pfuel : nat) (flags : Z) (st : dstate) : Z :=
  match json_internalParseFlags pfuel (d_remain (rf_state st)) with Some d => Z.lor flags d | None => flags end.
Definition rv_final (st : dstate) (e : rerr) : dresult :=
  match e with
  | REOF => if negb (len (d_remain st) =? 0) then DError RUnexpectedEOF else DError REOF
  | x => DError x
  end.

Lemma read_value_eq f pfuel flags dflags st :
  read_value (S f) pfuel flags dflags st =
  match rv_attempt pfuel dflags st with
  | Some r => r
  | None =>
      match d_err st with
      | Some e => (rv_final st e, st)
      | None => read_value f pfuel flags (rf_flags pfuel flags st) (rf_state st)
      end
  end.
Proof.
  cbn [read_value]. fold (rv_attempt pfuel dflags st).
  destruct (rv_attempt pfuel dflags st) as [r|]; [reflexivity|].
  destruct (d_err st) as [e|]; [reflexivity|].
  unfold rf_flags, rf_state, rf_read, rf_cap, rf_buf, rf_err.
  destruct (d_cap st =? 0).
  - cbv zeta.
    destruct (read_full (S (length (d_reader st))) (d_term st) (d_reader st)
      ((if json_minBufferSize - len (@nil Z) <? json_minReadSize then 2 * json_minBufferSize else json_minBufferSize) - len (@nil Z)) [])
      as [[data e] rd].
    cbn [fst snd d_remain]. destruct (json_skipSpacesN ([] ++ data)) as [rem' ns]. reflexivity.
  - cbv zeta.
    destruct (read_full (S (length (d_reader st))) (d_term st) (d_reader st)
      ((if d_cap st - len (d_remain st) <? json_minReadSize then 2 * d_cap st else d_cap st) - len (d_remain st)) [])
      as [[data e] rd].
    cbn [fst snd d_remain]. destruct (json_skipSpacesN (d_remain st ++ data)) as [rem' ns]. reflexivity.
Qed.
Lemma read_value_0 pfuel flags dflags st : read_value 0 pfuel flags dflags st = (DOutOfFuel, st).
Proof. reflexivity. Qed.


(* ================= offsets never decrease ================= *)
Lemma rv_attempt_offset pfuel dflags st res st' : rv_attempt pfuel dflags st = Some (res, st') ->
  d_offset st <= d_offset st'.
Proof.
  unfold rv_attempt. destruct (len (d_remain st) =? 0); [discriminate|].
  destruct (json_decoder_parseValue pfuel dflags (d_remain st)) as [[[[v r] k] [e|]]|].
  - destruct (negb (len r =? 0)); [|discriminate]. intros H. injection H as _ H. subst st'. lia.
  - destruct (negb (len r =? 0) || _ || _); [|discriminate].
    pose proof (ssn_snd r) as N. destruct (json_skipSpacesN r) as [rem' n]. cbn [snd] in N.
    intros H. injection H as _ H. subst st'. cbn [d_offset]. pose proof (len_nonneg v). lia.
  - intros H. injection H as _ H. subst st'. lia.
Qed.
Lemma read_value_offset : forall f pfuel flags dflags st res st',
  read_value f pfuel flags dflags st = (res, st') -> d_offset st <= d_offset st'.
Proof.
  induction f as [|f IH]; intros pfuel flags dflags st res st' H.
  { rewrite read_value_0 in H. injection H as _ H. subst. lia. }
  rewrite read_value_eq in H. destruct (rv_attempt pfuel dflags st) as [[res0 st0]|] eqn:A.
  - injection H as _ H. subst st0. eapply rv_attempt_offset; eassumption.
  - destruct (d_err st) as [e|].
    + injection H as _ H. subst. lia.
    + apply IH in H. unfold rf_state in H. cbn [d_offset] in H.
      pose proof (ssn_snd (rf_buf st ++ fst (fst (rf_read st)))). lia.
Qed.

Lemma nondecreasing_snoc l x : nondecreasing l = true -> (forall y, In y l -> y <= x) -> nondecreasing (l ++ [x]) = true.
Proof.
  induction l as [|a l IH]; intros H B; [reflexivity|].
  destruct l as [|b l].
  - cbn. specialize (B a (or_introl eq_refl)). lia.
  - change ((a :: b :: l) ++ [x]) with (a :: (b :: l) ++ [x]).
    change (nondecreasing (a :: b :: l)) with ((a <=? b) && nondecreasing (b :: l)) in H.
    apply andb_true_iff in H. destruct H as [H1 H2].
    change (nondecreasing (a :: (b :: l) ++ [x])) with ((a <=? b) && nondecreasing ((b :: l) ++ [x])).
    rewrite H1. cbn [andb]. apply IH; [assumption|]. intros y Hy. apply B. right. assumption.
Qed.
Lemma decode_all_offsets : forall steps fuel pfuel st acc offs,
  nondecreasing (rev offs) = true -> (forall y, In y offs -> y <= d_offset st) ->
  nondecreasing (snd (decode_all steps fuel pfuel st acc offs)) = true.
Proof.
  induction steps as [|k IH]; intros fuel pfuel st acc offs H B; [exact H|].
  cbn [decode_all]. destruct (read_value fuel pfuel 0 0 st) as [res st'] eqn:R.
  apply read_value_offset in R.
  destruct res; try exact H.
  apply IH.
  - cbn [rev]. apply nondecreasing_snoc; [assumption|]. intros y Hy. apply in_rev in Hy. specialize (B y Hy). lia.
  - intros y [Hy|Hy]; [lia|]. specialize (B y Hy). lia.
Qed.
Lemma offset_monotone : offset_monotone_statement.
Proof.
  intros s term _ _. unfold all_values. apply decode_all_offsets; [reflexivity|]. intros y [].
Qed.

Definition term_err (term : rerr) (got : bytes) : rerr :=
  match term with REOF => if len got =? 0 then REOF else RUnexpectedEOF | x => x end.
Lemma script_clean_cons d e r : script_clean ((d, e) :: r) -> e = None /\ script_clean r.
Proof.
  intros H. split; [apply (H d e); left; reflexivity|]. intros d' e' I. apply (H d' e'). right. assumption.
Qed.
Lemma script_clean_nil : script_clean [].
Proof. intros d e []. Qed.
Lemma len_slice_to (d : bytes) n : 0 <= n <= len d -> len (slice_to d n) = n.
Proof. unfold slice_to, len. intros H. rewrite firstn_length. lia. Qed.

Lemma read_full_spec term : forall s fuel n acc, script_clean s -> (length s < fuel)%nat -> 0 <= n ->
  exists data e s', read_full fuel term s n acc = (acc ++ data, e, s') /\
    script_data s = data ++ script_data s' /\ script_clean s' /\ len data <= n /\
    (e = None -> len data = n) /\
    (e <> None -> s' = [] /\ len data < n /\ e = Some (term_err term (acc ++ data))).
Proof.
  induction s as [|[d e0] r IH]; intros fuel n acc C F Hn.
  - destruct fuel as [|f]; [lia|]. cbn [read_full]. destruct (Z.leb_spec n 0).
    + exists [], None, []. rewrite app_nil_r. repeat split; try reflexivity; try assumption; try (cbn; lia); try congruence.
    + cbn [read_once]. change (len (@nil Z)) with 0. destruct (Z.eqb_spec 0 n); [lia|].
      exists [], (Some (term_err term (acc ++ []))), []. repeat split; try reflexivity; try assumption; try (cbn; lia). discriminate.
  - apply script_clean_cons in C. destruct C as [E0 C]. subst e0.
    destruct fuel as [|f]; [lia|]. cbn [length] in F. cbn [read_full]. destruct (Z.leb_spec n 0).
    + exists [], None, ((d, None) :: r). rewrite app_nil_r.
      repeat split; try reflexivity; try (cbn; lia); try congruence.
      intros d' e' [I|I]; [congruence|apply (C d' e' I)].
    + cbn [read_once]. destruct (Z.leb_spec (len d) n).
      * destruct (IH f (n - len d) (acc ++ d) C ltac:(lia) ltac:(lia)) as (data & e & s' & R & SD & C' & L & EN & EE).
        rewrite R. exists (d ++ data), e, s'. rewrite <- app_assoc in *. rewrite len_app.
        split; [reflexivity|]. split; [unfold script_data in *; cbn [map concat fst]; rewrite SD; apply app_assoc|].
        split; [assumption|]. split; [lia|]. split; [intros X; specialize (EN X); lia|].
        intros X. destruct (EE X) as (E1 & E2 & E3). repeat split; try assumption; lia.
      * destruct f as [|f']; [lia|].
        pose proof (len_slice_to d n ltac:(lia)) as LS. cbn [read_full]. rewrite LS.
        destruct (Z.leb_spec (n - n) 0); [|lia].
        exists (slice_to d n), None, ((slice_from d n, None) :: r).
        split; [reflexivity|]. split; [unfold script_data; cbn [map concat fst]; rewrite app_assoc, st_sf; reflexivity|].
        split; [intros d' e' [I|I]; [congruence|apply (C d' e' I)]|].
        split; [lia|]. split; [intros _; assumption|congruence].
Qed.

(* ================= E1. the invariant of the decoder state; one refill ================= *)
Lemma wfb_app_iff a b : wfb (a ++ b) = true <-> wfb a = true /\ wfb b = true.
Proof. unfold wfb. rewrite forallb_app. apply andb_true_iff. Qed.
Lemma skip_ws_app2 x y : skip_ws (skip_ws x ++ y) = skip_ws (x ++ y).
Proof.
  induction x as [|c r IH]; cbn [skip_ws app]; [reflexivity|].
  destruct (is_ws c) eqn:W; [assumption|]. cbn [skip_ws app]. rewrite W. reflexivity.
Qed.
Lemma skip_ws_len b : len (skip_ws b) <= len b.
Proof. pose proof (skip_ws_length b). unfold len. lia. Qed.

Definition unread (st : dstate) : bytes := script_data (d_reader st).
Definition stream (st : dstate) : bytes := d_remain st ++ unread st.
Definition final_err (term : rerr) : rerr := match term with RFail => RFail | _ => REOF end.
Definition Inv (st : dstate) : Prop :=
  script_clean (d_reader st) /\
  skip_ws (d_remain st) = d_remain st /\
  (d_err st <> None -> d_reader st = []) /\
  wfb (stream st) = true /\
  ((d_cap st = 0 /\ d_remain st = []) \/ (0 < d_cap st /\ len (d_remain st) <= d_cap st)) /\
  (forall e, d_err st = Some e -> e = final_err (d_term st)).
Definition mu (st : dstate) : nat :=
  (length (unread st) + (match d_reader st with [] => 0 | _ => 1 end) + (match d_err st with None => 1 | Some _ => 0 end) + 1)%nat.

Lemma rf_buf_inv st : Inv st -> rf_buf st = d_remain st.
Proof.
  intros (_ & _ & _ & _ & C & _). unfold rf_buf. destruct (Z.eqb_spec (d_cap st) 0) as [E|E]; [|reflexivity].
  destruct C as [[_ C]|[C _]]; [congruence|lia].
Qed.
Lemma rf_cap_inv st : Inv st -> 0 < rf_cap st - len (d_remain st) /\ 0 < rf_cap st.
Proof.
  intros I. pose proof (rf_buf_inv st I) as B. destruct I as (_ & _ & _ & _ & C & _).
  unfold rf_cap. rewrite B. pose proof (len_nonneg (d_remain st)) as L. cbv zeta.
  unfold json_minBufferSize, json_minReadSize.
  destruct C as [[C1 C2]|[C1 C2]].
  - rewrite C1, C2. cbn. lia.
  - destruct (Z.eqb_spec (d_cap st) 0); [lia|].
    destruct (Z.ltb_spec (d_cap st - len (d_remain st)) 4096); lia.
Qed.

Lemma rf_spec st : Inv st -> d_err st = None ->
  Inv (rf_state st) /\ skip_ws (stream (rf_state st)) = skip_ws (stream st) /\
  (mu (rf_state st) < mu st)%nat /\ d_term (rf_state st) = d_term st /\
  (length (stream (rf_state st)) <= length (stream st))%nat.
Proof.
  intros I DE. pose proof (rf_buf_inv st I) as B. pose proof (rf_cap_inv st I) as [CP CP0].
  pose proof I as (I1 & I2 & I3 & I4 & I5 & I6).
  destruct (read_full_spec (d_term st) (d_reader st) (S (length (d_reader st))) (rf_cap st - len (d_remain st)) []
              I1 ltac:(lia) ltac:(lia)) as (data & e & s' & R & SD & C' & L & EN & EE).
  cbn [app] in R, EE.
  assert (RR : rf_read st = (data, e, s')) by (unfold rf_read; rewrite B; exact R).
  unfold rf_state. rewrite RR, B. cbn [fst snd]. rewrite ssn_fst.
  set (st2 := {| d_buffer := d_remain st ++ data; d_cap := rf_cap st; d_remain := skip_ws (d_remain st ++ data);
                 d_offset := d_offset st + snd (json_skipSpacesN (d_remain st ++ data)); d_err := rf_err data e;
                 d_reader := s'; d_term := d_term st |}).
  assert (ST : stream st = (d_remain st ++ data) ++ script_data s').
  { unfold stream, unread. rewrite SD. apply app_assoc. }
  assert (ST2 : stream st2 = skip_ws (d_remain st ++ data) ++ script_data s') by reflexivity.
  assert (ERR : rf_err data e <> None -> data = [] /\ s' = [] /\ e = Some (term_err (d_term st) [])).
  { unfold rf_err. destruct (Z.gtb_spec (len data) 0); [congruence|]. intros X.
    assert (D0 : data = []) by (apply len_0_nil; pose proof (len_nonneg data); lia).
    assert (e <> None) by (intros Y; subst e; congruence).
    destruct (EE H0) as (E1 & _ & E3). subst data. auto. }
  split; [|split; [|split; [|split]]].
  - unfold Inv. rewrite ST2. subst st2. cbn [d_reader d_remain d_err d_cap d_term].
    split; [assumption|]. split; [apply skip_ws_idem|]. split; [intros X; apply ERR in X; tauto|].
    split.
    { rewrite ST in I4. destruct (skip_ws_suffix (d_remain st ++ data)) as (pre & P1 & _).
      rewrite P1 in I4. rewrite <- app_assoc in I4. apply wfb_app_iff in I4. tauto. }
    split.
    { right. split; [assumption|]. pose proof (skip_ws_len (d_remain st ++ data)) as SL. rewrite len_app in SL. clear - SL L. lia. }
    intros x X. assert (X' : rf_err data e <> None) by congruence. destruct (ERR X') as (E1 & E2 & E3).
    subst data e. unfold rf_err in X. cbn in X. unfold term_err, final_err in *. cbn in X.
    destruct (d_term st); congruence.
  - rewrite ST2, ST. apply skip_ws_app2.
  - unfold mu, unread. subst st2. cbn [d_reader d_err]. rewrite DE, SD, app_length.
    destruct e as [e|].
    + destruct (EE ltac:(discriminate)) as (E1 & E2 & E3). subst s'. cbn [script_data map concat length].
      unfold rf_err. destruct (Z.gtb_spec (len data) 0).
      * unfold len in *. destruct (d_reader st); lia.
      * destruct e; destruct (d_reader st); cbn [length]; lia.
    + specialize (EN eq_refl). assert (d_reader st <> []).
      { intros X. rewrite X in SD. cbn in SD. destruct data; [cbn in EN; lia|discriminate]. }
      unfold len in *. destruct (d_reader st); [congruence|].
      destruct (rf_err data None); destruct s'; lia.
  - reflexivity.
  - rewrite ST2, ST. pose proof (skip_ws_length (d_remain st ++ data)). rewrite !app_length in *. lia.
Qed.

(* ================= E2. what one call of readValue returns ================= *)
Definition rv_post (st : dstate) (res : dresult) (st' : dstate) : Prop :=
  let S := skip_ws (stream st) in
  match res with
  | DValue v => exists r, S = v ++ r /\ v <> [] /\ g_value (Datatypes.S (length S)) S = Some r /\ Inv st' /\
                  skip_ws (stream st') = skip_ws r /\ d_term st' = d_term st /\ (length (stream st') <= length (stream st))%nat
  | DSyntax => S <> [] /\ g_value (Datatypes.S (length S)) S = None
  | DError e => (d_term st = RFail -> e = RFail) /\
                (d_term st = REOF -> (e = REOF /\ S = []) \/
                                     (e = RUnexpectedEOF /\ S <> [] /\ g_value (Datatypes.S (length S)) S = None))
  | DOutOfFuel => False
  end.

Lemma flags_sound_0 b : flags_sound 0 b.
Proof. split; intros H; discriminate H. Qed.

Lemma attempt_spec pfuel dflags st : Inv st -> flags_sound dflags (d_remain st) -> len (stream st) < 2 ^ 62 ->
  (2 * length (stream st) + 8 <= pfuel)%nat ->
  match rv_attempt pfuel dflags st with
  | Some (res, st') => rv_post st res st'
  | None => d_err st = Some REOF -> d_remain st <> [] -> g_value (S (length (d_remain st))) (d_remain st) = None
  end.
Proof.
  intros I FS LS PF. pose proof I as (I1 & I2 & I3 & I4 & I5 & I6).
  unfold rv_attempt. set (m := unread st).
  destruct (d_remain st) as [|c0 w0] eqn:EW; [cbn; congruence|]. rewrite len_cons_nz.
  set (w := c0 :: w0) in *.
  assert (STR : stream st = w ++ m) by (unfold stream; rewrite EW; reflexivity).
  assert (WN : w <> []) by discriminate.
  assert (SS : skip_ws (stream st) = w ++ m).
  { rewrite STR. rewrite skip_ws_app by (rewrite I2; assumption). rewrite I2. reflexivity. }
  rewrite STR in I4. pose proof I4 as I4'. apply wfb_app_iff in I4'. destruct I4' as [Ww Wm].
  assert (Lw : (length w <= length (stream st))%nat) by (rewrite STR, app_length; lia).
  destruct (pv_all dflags pfuel w (S (length w)) Ww ltac:(unfold len in *; lia) FS ltac:(lia) ltac:(lia))
    as (v & r & k & e & E & Hok & Herr).
  rewrite E. destruct e as [e|].
  - destruct (Z.eqb_spec (len r) 0) as [R0|R0]; cbn [negb].
    + intros _ _. apply Herr. discriminate.
    + unfold rv_post. rewrite SS. split; [destruct w; [congruence|discriminate]|].
      apply (pv_bad pfuel dflags w v r k e); auto; try (unfold len in *; lia).
      intros X. subst r. apply R0. reflexivity.
  - destruct (Hok eq_refl) as (G & j & J1 & J2 & J3). clear Hok Herr.
    assert (WV : w = v ++ r) by (subst v r; symmetry; apply st_sf).
    assert (VN : v <> []).
    { intros X. pose proof (len_slice_to w j ltac:(lia)) as LV. rewrite <- J2, X in LV. cbn in LV. lia. }
    match goal with |- match (if ?c then _ else _) with _ => _ end => destruct c eqn:COND end.
    2:{ intros DE _. rewrite DE in COND. rewrite orb_true_r in COND. discriminate. }
    assert (GX : g_value (S (length (w ++ m))) (w ++ m) = Some (r ++ m)).
    { apply (g_value_mono (S (length w))); [|rewrite app_length; lia].
      apply orb_true_iff in COND. destruct COND as [COND|COND]; [apply orb_true_iff in COND; destruct COND as [COND|COND]|].
      - apply g_value_ext; [assumption|]. left. intros X. rewrite X in COND. discriminate COND.
      - assert (M0 : m = []).
        { unfold m, unread. rewrite I3; [reflexivity|]. destruct (d_err st); [discriminate|discriminate COND]. }
        rewrite M0, !app_nil_r. assumption.
      - apply g_value_ext; [assumption|]. right. destruct (num_start w) eqn:NS; [|reflexivity].
        rewrite (pv_kind pfuel dflags w v r k E NS) in COND. discriminate. }
    pose proof (ssn_fst r) as SF. destruct (json_skipSpacesN r) as [rem' n]. cbn [fst] in SF. subst rem'.
    unfold rv_post. rewrite SS. exists (r ++ m).
    split; [rewrite WV; symmetry; apply app_assoc|]. split; [assumption|]. split; [assumption|].
    assert (WR : wfb (skip_ws r ++ m) = true).
    { rewrite WV in Ww. apply wfb_app_iff in Ww. destruct Ww as [_ Wr].
      destruct (skip_ws_suffix r) as (pre & P1 & _). rewrite P1 in Wr. apply wfb_app_iff in Wr.
      apply wfb_app_iff. tauto. }
    split; [|split; [|split]].
    + unfold Inv, stream, unread. cbn [d_reader d_remain d_err d_cap d_term].
      split; [assumption|]. split; [apply skip_ws_idem|]. split; [assumption|]. split; [exact WR|].
      split; [|assumption]. right. destruct I5 as [[_ C]|[C1 C2]]; [congruence|].
      split; [assumption|]. pose proof (skip_ws_len r). rewrite WV, len_app in C2. pose proof (len_nonneg v). lia.
    + unfold stream, unread. cbn [d_reader d_remain]. apply skip_ws_app2.
    + reflexivity.
    + unfold stream, unread. cbn [d_reader d_remain]. rewrite EW. fold (unread st). fold m. fold w. rewrite WV, !app_length.
      pose proof (skip_ws_length r). lia.
Qed.

(* ================= E3. readValue ================= *)
Lemma rv_post_transfer st2 st res st' : skip_ws (stream st2) = skip_ws (stream st) -> d_term st2 = d_term st ->
  (length (stream st2) <= length (stream st))%nat -> rv_post st2 res st' -> rv_post st res st'.
Proof.
  intros E1 E2 E3. unfold rv_post. rewrite E1, E2. destruct res; auto.
  intros (r & H1 & H2 & H3 & H4 & H5 & H6 & H7). exists r. do 6 (split; [assumption|]). lia.
Qed.
Lemma mu_pos st : (1 <= mu st)%nat.
Proof. unfold mu. lia. Qed.

Lemma read_value_spec N pfuel : Z.of_nat N < 2 ^ 62 -> (2 * N + 8 <= pfuel)%nat ->
  forall fuel st dflags, Inv st -> flags_sound dflags (d_remain st) -> (length (stream st) <= N)%nat -> (mu st <= fuel)%nat ->
    rv_post st (fst (read_value fuel pfuel 0 dflags st)) (snd (read_value fuel pfuel 0 dflags st)).
Proof.
  intros HN PF. induction fuel as [|f IH]; intros st dflags I FS LN MU.
  { pose proof (mu_pos st). lia. }
  rewrite read_value_eq.
  pose proof (attempt_spec pfuel dflags st I FS ltac:(unfold len; lia) ltac:(lia)) as A.
  destruct (rv_attempt pfuel dflags st) as [[res st']|]; [exact A|].
  pose proof I as (I1 & I2 & I3 & I4 & I5 & I6).
  destruct (d_err st) as [e|] eqn:DE.
  - cbn [fst snd]. specialize (I6 e eq_refl). specialize (I3 ltac:(discriminate)).
    assert (SS : skip_ws (stream st) = d_remain st).
    { unfold stream, unread. rewrite I3. cbn [script_data map concat]. rewrite app_nil_r. assumption. }
    unfold rv_final, rv_post. rewrite SS.
    destruct e.
    + destruct (Z.eqb_spec (len (d_remain st)) 0) as [L0|L0]; cbn [negb].
      * apply len_0_nil in L0. split; [intros T; rewrite T in I6; discriminate I6|]. intros _. left. auto.
      * assert (RN : d_remain st <> []) by (intros X; rewrite X in L0; apply L0; reflexivity).
        split; [intros T; rewrite T in I6; discriminate I6|]. intros _. right. auto.
    + unfold final_err in I6. destruct (d_term st); discriminate I6.
    + split; [reflexivity|]. intros T. rewrite T in I6. discriminate I6.
  - destruct (rf_spec st I DE) as (I' & S' & M' & T' & L').
    apply (rv_post_transfer (rf_state st) st); auto.
    apply IH; auto; try lia.
    unfold rf_flags. destruct I' as (_ & J2 & _ & J4 & _).
    destruct (json_internalParseFlags pfuel (d_remain (rf_state st))) as [d|] eqn:IPF; [|apply flags_sound_0].
    rewrite Z.lor_0_l. apply wfb_app_iff in J4. destruct J4 as [J4 _].
    assert (LL : (length (d_remain (rf_state st)) <= length (stream (rf_state st)))%nat).
    { unfold stream. rewrite app_length. lia. }
    destruct (internal_flags_sound (d_remain (rf_state st)) pfuel d J4 ltac:(unfold len; lia) ltac:(lia) J2 IPF) as [X _].
    exact X.
Qed.

(* ================= E4. Decode to the end of the stream against the framing by the grammar ================= *)
Lemma frame_skip f b : frame f b = frame f (skip_ws b).
Proof. destruct f; [reflexivity|]. cbn [frame]. rewrite skip_ws_idem. reflexivity. Qed.
Lemma frame_S_nil f b : skip_ws b = [] -> frame (S f) b = ([], true).
Proof. intros H. cbn [frame]. rewrite H. reflexivity. Qed.
Lemma frame_S_cons f b : skip_ws b <> [] -> frame (S f) b =
  match g_value (S (length (skip_ws b))) (skip_ws b) with
  | None => ([], false)
  | Some r => let '(vs, ok) := frame f r in (consumed (skip_ws b) r :: vs, ok)
  end.
Proof. intros H. cbn [frame]. destruct (skip_ws b); [congruence|reflexivity]. Qed.
Lemma consumed_app (v r : bytes) : consumed (v ++ r) r = v.
Proof.
  unfold consumed. rewrite app_length. replace (length v + length r - length r)%nat with (length v) by lia.
  rewrite firstn_app, Nat.sub_diag, firstn_all. cbn [firstn]. apply app_nil_r.
Qed.
Lemma mu_le st : (mu st <= length (stream st) + 3)%nat.
Proof. unfold mu, stream. rewrite app_length. destruct (d_reader st), (d_err st); lia. Qed.

Definition da_post (term : rerr) (acc : list bytes) (out : list bytes * dresult * list Z) (spec : list bytes * bool) : Prop :=
  let '(vals, fin, _) := out in
  let '(svals, clean) := spec in
  (term = REOF -> vals = rev acc ++ svals /\ (clean = true -> fin = DError REOF) /\
                  (clean = false -> fin <> DError REOF /\ fin <> DOutOfFuel)) /\
  (term = RFail -> (exists k, vals = rev acc ++ firstn k svals) /\ (fin = DError RFail \/ fin = DSyntax)).

Lemma decode_all_spec N pfuel fuel : Z.of_nat N < 2 ^ 62 -> (2 * N + 8 <= pfuel)%nat -> (N + 3 <= fuel)%nat ->
  forall steps F st acc offs, Inv st -> (length (stream st) <= N)%nat ->
    (length (skip_ws (stream st)) < steps)%nat -> (length (skip_ws (stream st)) < F)%nat ->
    da_post (d_term st) acc (decode_all steps fuel pfuel st acc offs) (frame F (stream st)).
Proof.
  intros HN PF FU. induction steps as [|k IH]; intros F st acc offs I LN LS LF; [lia|].
  destruct F as [|F']; [lia|].
  cbn [decode_all].
  pose proof (read_value_spec N pfuel HN PF fuel st 0 I (flags_sound_0 _) LN ltac:(pose proof (mu_le st); lia)) as P.
  destruct (read_value fuel pfuel 0 0 st) as [res st']. cbn [fst snd] in P.
  unfold rv_post in P. cbv zeta in P.
  destruct res as [v|e| |].
  - destruct P as (r & H1 & H2 & H3 & H4 & H5 & H6 & H7).
    assert (SN : skip_ws (stream st) <> []).
    { intros X. rewrite X in H1. destruct v; [congruence|discriminate]. }
    rewrite (frame_S_cons F' _ SN), H3.
    assert (LR : (length (skip_ws r) < length (skip_ws (stream st)))%nat).
    { rewrite H1, app_length. pose proof (skip_ws_length r). destruct v; [congruence|cbn [length]; lia]. }
    specialize (IH F' st' (v :: acc) (d_offset st' :: offs) H4 ltac:(lia) ltac:(rewrite H5; lia) ltac:(rewrite H5; lia)).
    rewrite (frame_skip F' r), <- H5, <- frame_skip. rewrite H6 in IH.
    destruct (decode_all k fuel pfuel st' (v :: acc) (d_offset st' :: offs)) as [[vals fin] os].
    destruct (frame F' (stream st')) as [vs ok]. rewrite H1 at 1. rewrite consumed_app.
    cbv beta iota zeta delta [da_post] in *. pose proof (proj1 IH) as IH1. pose proof (proj2 IH) as IH2. cbn [rev] in IH1, IH2. split.
    + intros T. destruct (IH1 T) as (A1 & A2 & A3). rewrite <- app_assoc in A1. auto.
    + intros T. destruct (IH2 T) as ((k' & A1) & A2). split; [|assumption].
      exists (S k'). rewrite <- app_assoc in A1. exact A1.
  - destruct P as [P1 P2]. destruct (frame (S F') (stream st)) as [svals clean] eqn:FR.
    cbv beta iota zeta delta [da_post]. split.
    + intros T. destruct (P2 T) as [[E1 E2]|(E1 & E2 & E3)].
      * rewrite (frame_S_nil F' _ E2) in FR. injection FR as <- <-. subst e. rewrite app_nil_r. repeat split; try congruence.
      * rewrite (frame_S_cons F' _ E2), E3 in FR. injection FR as <- <-. subst e. rewrite app_nil_r. repeat split; try congruence.
    + intros T. rewrite (P1 T).
      split; [exists 0%nat; cbn [firstn]; rewrite app_nil_r; reflexivity|left; reflexivity].
  - destruct P as [P1 P2]. rewrite (frame_S_cons F' _ P1), P2. cbv beta iota zeta delta [da_post]. split.
    + intros _. rewrite app_nil_r. repeat split; try congruence.
    + intros _. split; [exists 0%nat; cbn [firstn]; rewrite app_nil_r; reflexivity|right; reflexivity].
  - destruct P.
Qed.

Lemma inv_init s term : script_clean s -> wfb (script_data s) = true -> Inv (d_init s term).
Proof.
  intros C W. unfold Inv, stream, unread. cbn [d_init d_reader d_remain d_err d_cap d_term app].
  split; [assumption|]. split; [reflexivity|]. split; [congruence|]. split; [assumption|].
  split; [left; auto|]. discriminate.
Qed.
Lemma all_values_spec s term : wfb (script_data s) = true -> len (script_data s) < 2 ^ 30 -> script_clean s ->
  da_post term [] (all_values s term) (frame (S (length (script_data s))) (script_data s)).
Proof.
  intros W L C. unfold all_values. cbv zeta.
  set (n := length (script_data s)).
  pose proof (decode_all_spec n (2 * n + 8) (n + length s + 40) ltac:(unfold len in L; fold n in L; lia) ltac:(lia) ltac:(lia)
                (n + 2)%nat (S n) (d_init s term) [] [] (inv_init s term C W)) as P.
  change (stream (d_init s term)) with (script_data s) in P. change (d_term (d_init s term)) with term in P.
  pose proof (skip_ws_length (script_data s)). fold n in H.
  apply P; lia.
Qed.

Lemma stream_independent : stream_independent_statement.
Proof.
  intros s W L C. pose proof (all_values_spec s REOF W L C) as P. unfold da_post in P.
  destruct (all_values s REOF) as [[vals fin] os].
  destruct (frame (S (length (script_data s))) (script_data s)) as [svals clean].
  destruct P as [P _]. exact (P eq_refl).
Qed.
Lemma stream_failing : stream_failing_statement.
Proof.
  intros s W L C. pose proof (all_values_spec s RFail W L C) as P. unfold da_post in P.
  destruct (all_values s RFail) as [[vals fin] os].
  destruct (frame (S (length (script_data s))) (script_data s)) as [svals clean].
  destruct P as [_ P]. exact (P eq_refl).
Qed.

(* ================= E5. two readers delivering the same bytes: a simulation ================= *)
Definition set_reader (st : dstate) (rd : script) : dstate :=
  {| d_buffer := d_buffer st; d_cap := d_cap st; d_remain := d_remain st; d_offset := d_offset st; d_err := d_err st;
     d_reader := rd; d_term := d_term st |}.
Definition Sim (st1 st2 : dstate) : Prop :=
  st2 = set_reader st1 (d_reader st2) /\ script_data (d_reader st1) = script_data (d_reader st2).

Lemma rv_attempt_set_reader pfuel dflags st rd :
  rv_attempt pfuel dflags (set_reader st rd) =
  match rv_attempt pfuel dflags st with Some (res, st') => Some (res, set_reader st' rd) | None => None end.
Proof.
  unfold rv_attempt. cbn [set_reader d_remain d_err d_buffer d_cap d_offset d_reader d_term].
  destruct (len (d_remain st) =? 0); [reflexivity|].
  destruct (json_decoder_parseValue pfuel dflags (d_remain st)) as [[[[v r] k] [e|]]|]; [| |reflexivity].
  - destruct (negb (len r =? 0)); reflexivity.
  - destruct (negb (len r =? 0) || _ || _); [|reflexivity]. destruct (json_skipSpacesN r). reflexivity.
Qed.

Lemma rv_attempt_reader pfuel dflags st res st' : rv_attempt pfuel dflags st = Some (res, st') -> d_reader st' = d_reader st.
Proof.
  unfold rv_attempt. destruct (len (d_remain st) =? 0); [discriminate|].
  destruct (json_decoder_parseValue pfuel dflags (d_remain st)) as [[[[v r] k] [e|]]|].
  - destruct (negb (len r =? 0)); [|discriminate]. intros H. injection H as _ H. subst. reflexivity.
  - destruct (negb (len r =? 0) || _ || _); [|discriminate]. destruct (json_skipSpacesN r).
    intros H. injection H as _ H. subst. reflexivity.
  - intros H. injection H as _ H. subst. reflexivity.
Qed.
Lemma app_eq_len {A} (a b x y : list A) : length a = length b -> a ++ x = b ++ y -> a = b /\ x = y.
Proof.
  revert b. induction a as [|c a IH]; intros [|d b] L E; cbn in L; try lia; [auto|].
  cbn [app] in E. injection E as E1 E2. destruct (IH b ltac:(lia) E2). subst. auto.
Qed.
Lemma read_full_det term s1 s2 n : script_clean s1 -> script_clean s2 -> script_data s1 = script_data s2 -> 0 <= n ->
  fst (read_full (S (length s1)) term s1 n []) = fst (read_full (S (length s2)) term s2 n []) /\
  script_data (snd (read_full (S (length s1)) term s1 n [])) = script_data (snd (read_full (S (length s2)) term s2 n [])).
Proof.
  intros C1 C2 SD Hn.
  destruct (read_full_spec term s1 (S (length s1)) n [] C1 ltac:(lia) Hn) as (d1 & e1 & r1 & R1 & S1 & _ & L1 & N1 & E1).
  destruct (read_full_spec term s2 (S (length s2)) n [] C2 ltac:(lia) Hn) as (d2 & e2 & r2 & R2 & S2 & _ & L2 & N2 & E2).
  rewrite R1, R2. cbn [fst snd app] in *. rewrite S1, S2 in SD.
  destruct e1 as [e1|], e2 as [e2|].
  - destruct (E1 ltac:(discriminate)) as (A1 & A2 & A3). destruct (E2 ltac:(discriminate)) as (B1 & B2 & B3).
    subst r1 r2. cbn in SD. rewrite !app_nil_r in SD. subst d2. split; [congruence|reflexivity].
  - destruct (E1 ltac:(discriminate)) as (A1 & A2 & A3). specialize (N2 eq_refl). subst r1. cbn in SD. rewrite app_nil_r in SD.
    subst d1. rewrite len_app in A2. pose proof (len_nonneg (script_data r2)). lia.
  - destruct (E2 ltac:(discriminate)) as (A1 & A2 & A3). specialize (N1 eq_refl). subst r2. cbn in SD. rewrite app_nil_r in SD.
    subst d2. rewrite len_app in A2. pose proof (len_nonneg (script_data r1)). lia.
  - specialize (N1 eq_refl). specialize (N2 eq_refl).
    destruct (app_eq_len d1 d2 _ _ ltac:(unfold len in *; lia) SD). subst. auto.
Qed.

Lemma sim_fields st1 st2 : Sim st1 st2 ->
  d_buffer st2 = d_buffer st1 /\ d_cap st2 = d_cap st1 /\ d_remain st2 = d_remain st1 /\ d_offset st2 = d_offset st1 /\
  d_err st2 = d_err st1 /\ d_term st2 = d_term st1.
Proof. intros [E _]. rewrite E. cbn. repeat split. Qed.

Lemma rf_sim pfuel flags st1 st2 : Inv st1 -> Inv st2 -> Sim st1 st2 ->
  Sim (rf_state st1) (rf_state st2) /\ rf_flags pfuel flags st1 = rf_flags pfuel flags st2.
Proof.
  intros I1 I2 S. pose proof (sim_fields _ _ S) as (F1 & F2 & F3 & F4 & F5 & F6). destruct S as [_ SD].
  assert (B : rf_buf st2 = rf_buf st1) by (unfold rf_buf; rewrite F2, F3; reflexivity).
  assert (C : rf_cap st2 = rf_cap st1) by (unfold rf_cap; rewrite B, F2; reflexivity).
  pose proof (rf_cap_inv st1 I1) as [CP _]. rewrite <- (rf_buf_inv st1 I1) in CP.
  destruct (read_full_det (d_term st1) (d_reader st1) (d_reader st2) (rf_cap st1 - len (rf_buf st1))
              ltac:(apply I1) ltac:(apply I2) SD ltac:(lia)) as [D1 D2].
  assert (R : fst (rf_read st2) = fst (rf_read st1) /\ script_data (snd (rf_read st2)) = script_data (snd (rf_read st1))).
  { unfold rf_read. rewrite B, C, F6. split; [symmetry; exact D1|symmetry; exact D2]. }
  destruct R as [R1 R2].
  assert (RS : rf_state st2 = set_reader (rf_state st1) (snd (rf_read st2))).
  { unfold rf_state, set_reader. cbn [d_buffer d_cap d_remain d_offset d_err d_reader d_term].
    rewrite R1, B, C, F4, F6. reflexivity. }
  split.
  - split; [|unfold rf_state; cbn [d_reader]; symmetry; exact R2].
    rewrite RS. unfold set_reader. cbn [d_reader]. reflexivity.
  - unfold rf_flags. rewrite RS. reflexivity.
Qed.

Lemma rv_sim pfuel : forall f1 f2 st1 st2 dfl, Inv st1 -> Inv st2 -> Sim st1 st2 -> (mu st1 <= f1)%nat -> (mu st2 <= f2)%nat ->
  fst (read_value f1 pfuel 0 dfl st1) = fst (read_value f2 pfuel 0 dfl st2) /\
  Sim (snd (read_value f1 pfuel 0 dfl st1)) (snd (read_value f2 pfuel 0 dfl st2)).
Proof.
  induction f1 as [|f1 IH]; intros f2 st1 st2 dfl I1 I2 S M1 M2.
  { pose proof (mu_pos st1). lia. }
  destruct f2 as [|f2]; [pose proof (mu_pos st2); lia|].
  rewrite !read_value_eq.
  pose proof (sim_fields _ _ S) as (F1 & F2 & F3 & F4 & F5 & F6).
  destruct S as [E SD].
  assert (A2 : rv_attempt pfuel dfl st2 = match rv_attempt pfuel dfl st1 with Some (res, st') => Some (res, set_reader st' (d_reader st2)) | None => None end).
  { rewrite E at 1. apply rv_attempt_set_reader. }
  rewrite A2. clear A2.
  destruct (rv_attempt pfuel dfl st1) as [[res st1']|] eqn:A1.
  - cbn [fst snd]. split; [reflexivity|]. split; [reflexivity|]. cbn [set_reader d_reader].
    rewrite (rv_attempt_reader _ _ _ _ _ A1). exact SD.
  - rewrite F5. destruct (d_err st1) as [e|] eqn:DE.
    + cbn [fst snd]. split; [unfold rv_final; rewrite F3; reflexivity|]. split; assumption.
    + destruct (rf_spec st1 I1 DE) as (J1 & _ & K1 & _). destruct (rf_spec st2 I2 ltac:(congruence)) as (J2 & _ & K2 & _).
      destruct (rf_sim pfuel 0 st1 st2 I1 I2 (conj E SD)) as [SS FF]. rewrite <- FF.
      apply IH; auto; lia.
Qed.

Lemma sim_stream st1 st2 : Sim st1 st2 -> stream st2 = stream st1.
Proof.
  intros S. pose proof (sim_fields _ _ S) as (_ & _ & F3 & _). destruct S as [_ SD].
  unfold stream, unread. rewrite F3, SD. reflexivity.
Qed.
Lemma decode_all_sim N pfuel fuel1 fuel2 : Z.of_nat N < 2 ^ 62 -> (2 * N + 8 <= pfuel)%nat -> (N + 3 <= fuel1)%nat -> (N + 3 <= fuel2)%nat ->
  forall steps st1 st2 acc offs, Inv st1 -> Inv st2 -> Sim st1 st2 -> (length (stream st1) <= N)%nat ->
    decode_all steps fuel1 pfuel st1 acc offs = decode_all steps fuel2 pfuel st2 acc offs.
Proof.
  intros HN PF FU1 FU2. induction steps as [|k IH]; intros st1 st2 acc offs I1 I2 S LN; [reflexivity|].
  cbn [decode_all].
  pose proof (sim_stream _ _ S) as SS.
  pose proof (read_value_spec N pfuel HN PF fuel1 st1 0 I1 (flags_sound_0 _) LN ltac:(pose proof (mu_le st1); lia)) as P1.
  pose proof (read_value_spec N pfuel HN PF fuel2 st2 0 I2 (flags_sound_0 _) ltac:(rewrite SS; lia)
                ltac:(pose proof (mu_le st2); rewrite SS in *; lia)) as P2.
  destruct (rv_sim pfuel fuel1 fuel2 st1 st2 0 I1 I2 S ltac:(pose proof (mu_le st1); lia)
              ltac:(pose proof (mu_le st2); rewrite SS in *; lia)) as [R1 R2].
  destruct (read_value fuel1 pfuel 0 0 st1) as [res1 st1']. destruct (read_value fuel2 pfuel 0 0 st2) as [res2 st2'].
  cbn [fst snd] in *. subst res2. destruct res1 as [v|e| |]; try reflexivity.
  unfold rv_post in P1, P2. cbv zeta in P1, P2.
  destruct P1 as (r1 & _ & _ & _ & J1 & _ & _ & L1). destruct P2 as (r2 & _ & _ & _ & J2 & _ & _ & L2).
  pose proof (sim_fields _ _ R2) as (_ & _ & _ & F4 & _). rewrite F4.
  apply IH; auto. lia.
Qed.

Lemma chunking_irrelevant : chunking_irrelevant_statement.
Proof.
  intros s1 s2 SD W L C1 C2. unfold all_values. cbv zeta. rewrite <- SD.
  set (n := length (script_data s1)).
  rewrite (decode_all_sim n (2 * n + 8) (n + length s1 + 40) (n + length s2 + 40)
             ltac:(unfold len in L; fold n in L; lia) ltac:(lia) ltac:(lia) ltac:(lia)
             (n + 2)%nat (d_init s1 REOF) (d_init s2 REOF) [] []
             (inv_init s1 REOF C1 W) (inv_init s2 REOF C2 ltac:(rewrite <- SD; exact W))).
  - split; reflexivity.
  - split; [reflexivity|exact SD].
  - change (stream (d_init s1 REOF)) with (script_data s1). fold n. lia.
Qed.
