(* C14 structural part: statements of Json/TreeFlagsSpec.v about EVERY document: a document accepted under
   DisallowUnknownFields decodes to the same value without the flag; one accepted under both struct-key flags decodes
   to the same value under every setting of the two. *)
From Coq Require Import Lia.
From Verif Require Import Base.GoInt Json.Grammar Json.FlagsModel Json.StrSpec Json.NumSpec
  Json.TreeModel Json.TreeSpec Json.TreeProofs Json.TreeFlagsModel Json.TreeFlagsSpec.
Open Scope Z_scope.

Lemma dbind_ok {A B} (x : dres A) (f : A -> dres B) y : dbind x f = DOk y -> exists a, x = DOk a /\ f a = DOk y.
Proof. destruct x as [a| |]; cbn [dbind]; intros H; try discriminate. exists a. split; [reflexivity|exact H]. Qed.

Lemma slice_loop_mono d1 d2 : (forall b x, d1 b = DOk x -> d2 b = DOk x) ->
  forall f first b x, dec_slice_loop d1 f first b = DOk x -> dec_slice_loop d2 f first b = DOk x.
Proof.
  intros Hd. induction f as [|f IH]; intros first b x H; [discriminate H|]. cbn [dec_slice_loop] in *.
  destruct (starts_with 93 (skip_ws b)); [exact H|].
  apply dbind_ok in H. destruct H as [b1 [E1 H]]. rewrite E1. cbn [dbind].
  apply dbind_ok in H. destruct H as [vr [E2 H]]. rewrite (Hd _ _ E2). cbn [dbind].
  apply dbind_ok in H. destruct H as [lr [E3 H]]. rewrite (IH _ _ _ E3). cbn [dbind]. exact H.
Qed.

Lemma arr_loop_mono d1 d2 zero gf : (forall c b x, d1 c b = DOk x -> d2 c b = DOk x) ->
  forall curs first b x, dec_arr_loop d1 zero gf first curs b = DOk x -> dec_arr_loop d2 zero gf first curs b = DOk x.
Proof.
  intros Hd. induction curs as [|c curs IH]; intros first b x H; [exact H|]. cbn [dec_arr_loop] in *. cbv zeta in *.
  destruct (starts_with 93 (skip_ws b)); [exact H|].
  assert (Step : forall b1,
    dbind (d1 c b1) (fun vr => dbind (dec_arr_loop d1 zero gf false curs (snd vr)) (fun lr => DOk (fst vr :: fst lr, snd lr))) = DOk x ->
    dbind (d2 c b1) (fun vr => dbind (dec_arr_loop d2 zero gf false curs (snd vr)) (fun lr => DOk (fst vr :: fst lr, snd lr))) = DOk x).
  { intros b1 H1. apply dbind_ok in H1. destruct H1 as [vr [E2 H1]]. rewrite (Hd _ _ _ E2). cbn [dbind].
    apply dbind_ok in H1. destruct H1 as [lr [E3 H1]]. rewrite (IH _ _ _ E3). cbn [dbind]. exact H1. }
  destruct first; [apply Step, H|].
  destruct (starts_with 44 (skip_ws b)); [apply Step, H|exact H].
Qed.

Lemma map_loop_mono d1 d2 : (forall b x, d1 b = DOk x -> d2 b = DOk x) ->
  forall f first m b x, dec_map_loop d1 f first m b = DOk x -> dec_map_loop d2 f first m b = DOk x.
Proof.
  intros Hd. induction f as [|f IH]; intros first m b x H; [discriminate H|]. cbn [dec_map_loop] in *.
  destruct (starts_with 125 (skip_ws b)); [exact H|].
  apply dbind_ok in H. destruct H as [b1 [E1 H]]. rewrite E1. cbn [dbind].
  destruct (uq_lit b1) as [[k r1]|]; [|exact H].
  destruct (starts_with 58 (skip_ws r1)) as [r2|]; [|exact H].
  apply dbind_ok in H. destruct H as [vr [E2 H]]. rewrite (Hd _ _ E2). cbn [dbind]. apply IH, H.
Qed.

Section Stable.
Variables n1 n2 s2 : bool.
Hypothesis Hflags : n1 = true \/ n2 = false.

Lemma resolve_stable names k k' :
  resolve_key_f n1 names k = Some k' -> existsb (bytes_eqb k') names = true -> resolve_key_f n2 names k = Some k'.
Proof.
  unfold resolve_key_f. intros R E. destruct n1.
  - injection R as <-. destruct n2; [reflexivity|]. apply resolve_exact, E.
  - destruct Hflags as [X|X]; [discriminate X|]. rewrite X. exact R.
Qed.

Lemma struct_loop_mono df1 df2 names gf :
  (forall k curs b x, df1 k curs b = DOk x -> df2 k curs b = DOk x) ->
  (forall k curs b y, df1 k curs b = DOk (Some y) -> existsb (bytes_eqb k) names = true) ->
  forall f first curs b x,
    dec_struct_loop_f n1 true df1 names gf f first curs b = DOk x ->
    dec_struct_loop_f n2 s2 df2 names gf f first curs b = DOk x.
Proof.
  intros Hd Hn. induction f as [|f IH]; intros first curs b x H; [discriminate H|]. cbn [dec_struct_loop_f] in *.
  destruct (starts_with 125 (skip_ws b)); [exact H|].
  apply dbind_ok in H. destruct H as [b1 [E1 H]]. rewrite E1. cbn [dbind].
  destruct (uq_lit b1) as [[k r1]|]; [|exact H].
  destruct (starts_with 58 (skip_ws r1)) as [r2|]; [|exact H].
  destruct (resolve_key_f n1 names k) as [k'|] eqn:R1; [|discriminate H].
  apply dbind_ok in H. destruct H as [o [E2 H]].
  destruct o as [[curs' r3]|]; [|discriminate H].
  rewrite (resolve_stable names k k' R1 (Hn _ _ _ _ E2)). rewrite (Hd _ _ _ _ E2). cbn [dbind]. apply IH, H.
Qed.

Lemma strict_stable_all : forall t fuel cur b x,
  dec_f n1 true t fuel cur b = DOk x -> dec_f n2 s2 t fuel cur b = DOk x.
Proof.
  apply (jty_mut
    (fun t => forall fuel cur b x, dec_f n1 true t fuel cur b = DOk x -> dec_f n2 s2 t fuel cur b = DOk x)
    (fun fs =>
      (forall fuel k curs b x, dec_field_f n1 true fs fuel k curs b = DOk x -> dec_field_f n2 s2 fs fuel k curs b = DOk x) /\
      (forall fuel k curs b y, dec_field_f n1 true fs fuel k curs b = DOk (Some y) -> existsb (bytes_eqb k) (jnames fs) = true))).
  - intros fuel cur b x H. exact H.
  - intros s w fuel cur b x H. exact H.
  - intros fuel cur b x H. exact H.
  - intros t IH fuel cur b x H. cbn [dec_f] in *. destruct (nullp b).
    + destruct cur; try exact H. destruct t; try exact H.
      unfold wrap_ptr in *. apply dbind_ok in H. destruct H as [vr [E H]]. rewrite (IH _ _ _ _ E). exact H.
    + unfold wrap_ptr in *. apply dbind_ok in H. destruct H as [vr [E H]]. rewrite (IH _ _ _ _ E). exact H.
  - intros t IH fuel cur b x H. cbn [dec_f] in *. destruct (nullp b); [exact H|].
    destruct (starts_with 91 b); [|exact H].
    apply dbind_ok in H. destruct H as [lr [E H]].
    rewrite (slice_loop_mono _ _ (IH fuel (jzero t)) _ _ _ _ E). exact H.
  - intros n t IH fuel cur b x H. cbn [dec_f] in *. destruct (nullp b); [exact H|].
    destruct (starts_with 91 b); [|exact H]. cbv zeta in *.
    apply dbind_ok in H. destruct H as [lr [E H]].
    rewrite (arr_loop_mono _ _ (jzero t) fuel (IH fuel) _ _ _ _ E). exact H.
  - intros t IH fuel cur b x H. cbn [dec_f] in *. destruct (nullp b); [exact H|].
    destruct (starts_with 123 b); [|exact H]. cbv zeta in *.
    apply dbind_ok in H. destruct H as [mr [E H]].
    rewrite (map_loop_mono _ _ (IH fuel (jzero t)) _ _ _ _ _ E). exact H.
  - intros fs [IH1 IH2] fuel cur b x H. cbn [dec_f] in *. destruct (nullp b); [exact H|].
    destruct (starts_with 123 b); [|exact H]. cbv zeta in *.
    apply dbind_ok in H. destruct H as [lr [E H]].
    rewrite (struct_loop_mono _ _ (jnames fs) fuel (IH1 fuel) (IH2 fuel) _ _ _ _ _ E). exact H.
  - split.
    + intros fuel k curs b x H. exact H.
    + intros fuel k curs b y H. discriminate H.
  - intros name o t IHt r [IHr1 IHr2]. split.
    + intros fuel k curs b x H. destruct curs as [|c curs]; [exact H|]. cbn [dec_field_f] in *.
      destruct (bytes_eqb k name).
      * destruct (negb (jmergeable t) && negb (jis_zero t c)); [discriminate H|].
        apply dbind_ok in H. destruct H as [vr [E H]]. rewrite (IHt _ _ _ _ E). exact H.
      * apply dbind_ok in H. destruct H as [o' [E H]]. rewrite (IHr1 _ _ _ _ _ E). exact H.
    + intros fuel k curs b y H. destruct curs as [|c curs]; [discriminate H|]. cbn [dec_field_f] in H.
      cbn [jnames existsb]. destruct (bytes_eqb k name); [reflexivity|]. cbn [orb].
      apply dbind_ok in H. destruct H as [o' [E H]].
      destruct o' as [[l rest]|]; [|discriminate H]. apply (IHr2 _ _ _ _ _ E).
Qed.
End Stable.

Lemma strict_success_stable_inner : strict_success_stable_inner_statement.
Proof. intros n1 n2 s2 t fuel cur b x Hf H. apply (strict_stable_all n1 n2 s2 Hf t fuel cur b x H). Qed.

Lemma strict_success_stable : strict_success_stable_statement.
Proof.
  intros n1 n2 s2 fuel t b v Hf H. unfold jdec_f in *.
  destruct (dec_f n1 true t fuel (jzero t) (skip_ws b)) as [[v' r]| |] eqn:E; try discriminate H.
  rewrite (strict_success_stable_inner n1 n2 s2 t fuel _ _ _ Hf E). exact H.
Qed.

Lemma strict_only_rejects : strict_only_rejects_statement.
Proof.
  intros nocase fuel t b v H. apply (strict_success_stable nocase nocase false fuel t b v); [|exact H].
  destruct nocase; [left|right]; reflexivity.
Qed.

Lemma exact_strict_universal_half nocase strict fuel t b v :
  jdec_f true true fuel t b = DOk v -> jdec_f nocase strict fuel t b = DOk v.
Proof. intros H. apply (strict_success_stable true nocase strict fuel t b v); [left; reflexivity|exact H]. Qed.

Lemma strict_success_not_stable : strict_success_not_stable_statement.
Proof.
  intros H. specialize (H false 100%nat bx_t bx_case_doc (VStruct [VInt 7; VBool true]) eq_refl).
  vm_compute in H. discriminate H.
Qed.

Print Assumptions strict_success_stable.
Print Assumptions strict_success_not_stable.
