(* C10 -- executable provenance model of the json package: where do the bytes of every decoded leaf live,
   and which memory does the library write to.

   Part 1 (leaf provenance) follows /repo/json/decode.go and parse.go line by line:
     parseString          kind Unescaped iff the text between the quotes has no backslash and is printable ASCII
                          (decided here by the REGENERATED translation json_decoder_parseString)
     parseStringUnquote   k = Unescaped: returns b[1:len-1], new = false;  otherwise fills r = make(...), new = true
     decodeString         new or DontCopyString: the string header points at s;  otherwise string(s) (a copy)
     decodeNumber         DontCopyNumber: header points at v;  otherwise Number(v) (a copy)
     decodeRawMessage     DontCopyRawMessage unset: v = append(make(...), v...)
     decodeBytes          dst = make(...): always new memory
     decodeFromString     (the ,string tag) v = parseStringUnquote(b); decode(d, v, p): the inner decoder runs on v
     decodeInterface      string -> decodeString; number -> decodeNumber under UseNumber, float64 otherwise;
                          object -> decodeMapStringInterface (keys through decodeString); array -> decodeSlice
     decodeMap and the map[string]T fast paths: keys through decodeString
     decodeStruct         keys are unquoted into k, looked up, lower-cased into a stack buffer: never stored
     Tokenizer.String     Unescaped and len(Value) > 1: Value[1:len-1];  otherwise parseStringUnquote(Value, nil)
   Flag words are tested with the regenerated json_ParseFlags_has and the regenerated flag constants.

   Part 2 is a state machine over memory regions for ANY interleaving of library operations:
   Marshal / Encoder.Encode (Pool.Get, Append, copy out or Write, Pool.Put; error return without Put),
   Unmarshal / Parse, Decoder refills (compaction, regrowth, Read) and Decoder.Decode, Tokenizer.String.
   The order of the steps of Marshal, Encode and readValue is a hand transcription of /repo/json/json.go.

   No proofs in this file. *)
From Coq Require Import ZArith List Bool.
From Verif Require Import Base.GoInt Json.Ext Generated.JsonParseGen.
Import ListNotations.
Open Scope Z_scope.

(* ------------------------------------------------------------------------------------------ *)
(* Part 1: provenance of decoded leaves *)

(* where the bytes of a leaf live, relative to the call that produced it *)
Inductive prov : Set :=
| PSrc      (* inside the buffer the call was given: the caller's input, or the Decoder's read buffer *)
| PFresh    (* in memory allocated during the call and referenced by nothing else afterwards *)
| PEmpty.   (* the leaf has no bytes *)

(* a byte slice in flight inside the decoder *)
Inductive buf : Set :=
| BSrc      (* a sub-slice of the source buffer *)
| BNew.     (* a slice made by this call *)

Inductive lkind : Set :=
| KStr | KNum | KRaw | KBytes | KKey      (* string, Number, RawMessage, []byte, map key of string kind *)
| KQStr | KQNum                           (* string / Number field behind the ,string tag *)
| KIStr | KINum | KIKey                   (* string, Number, object key inside an interface{} *)
| KTok.                                   (* result of Tokenizer.String *)

Definition has (flags f : Z) : bool := json_ParseFlags_has flags f.

(* parseString on a complete string token: Unescaped? *)
Definition tok_unescaped (tok : bytes) : bool :=
  match json_decoder_parseString (S (length tok)) 0 tok with
  | Some (_, _, k, None) => k =? json_Unescaped
  | _ => false
  end.

(* the token is just two quotes *)
Definition tok_empty (tok : bytes) : bool := len tok <=? 2.

(* parseStringUnquote(b, nil) on a token living in w: (where s lives, new) *)
Definition unquote (w : buf) (tok : bytes) : buf * bool :=
  if tok_unescaped tok then (w, false) else (BNew, true).

Definition prov_of_buf (w : buf) : prov := match w with BSrc => PSrc | BNew => PFresh end.

(* decodeString *)
Definition decode_string (flags : Z) (w : buf) (tok : bytes) : prov :=
  let '(s, new) := unquote w tok in
  if tok_empty tok then PEmpty
  else if new || has flags json_DontCopyString then prov_of_buf s
  else PFresh.

(* decodeNumber (a number token is never empty) *)
Definition decode_number (flags : Z) (w : buf) : prov :=
  if has flags json_DontCopyNumber then prov_of_buf w else PFresh.

(* decodeRawMessage (a value is never empty) *)
Definition decode_raw (flags : Z) (w : buf) : prov :=
  if has flags json_DontCopyRawMessage then prov_of_buf w else PFresh.

(* decodeBytes on a string token *)
Definition decode_bytes (tok : bytes) : prov :=
  if tok_empty tok then PEmpty else PFresh.

(* decodeFromString: the inner decoder works on the unquoted outer token *)
Definition from_string (w : buf) (outer : bytes) : buf := fst (unquote w outer).

(* Tokenizer.String *)
Definition tok_string (tok : bytes) : prov :=
  if tok_unescaped tok && (1 <? len tok) then (if tok_empty tok then PEmpty else PSrc)
  else (if tok_empty tok then PEmpty else PFresh).

(* generic JSON, as seen by an interface{} target (tokens are kept as their raw text) *)
Inductive gtree : Set :=
| GStr (tok : bytes)
| GNum (tok : bytes)
| GLit (tok : bytes)
| GArr (kids : list gtree)
| GObj (ents : list (bytes * gtree)).

(* a document for a Go type: every leaf carries its raw token and the kind of its target *)
Inductive dtree : Set :=
| DStr (tok : bytes)                    (* string token into a string-kind target *)
| DNum (tok : bytes)                    (* number token into json.Number *)
| DBytes (tok : bytes)                  (* string token into []byte *)
| DSc (tok : bytes)                     (* anything that stores no bytes: integers, floats, bools, null *)
| DQStr (outer inner : bytes)           (* ,string on a string field *)
| DQNum (outer inner : bytes)           (* ,string on a Number field *)
| DRaw (g : gtree)                      (* any value into RawMessage *)
| DAny (g : gtree)                      (* any value into interface{} *)
| DList (kids : list dtree)             (* array into slice / array *)
| DMap (ents : list (bool * bytes * dtree))   (* object into map; the bool: key of string kind decoded by decodeString *)
| DStruct (fields : list dtree).        (* object into struct: the values of the members that match a field *)

Fixpoint g_leaves (flags : Z) (w : buf) (g : gtree) : list (lkind * prov) :=
  match g with
  | GStr tok => [(KIStr, decode_string flags w tok)]
  | GNum _ => if has flags json_UseNumber then [(KINum, decode_number flags w)] else []
  | GLit _ => []
  | GArr kids => flat_map (g_leaves flags w) kids
  | GObj ents => flat_map (fun e => match e with (k, g') => (KIKey, decode_string flags w k) :: g_leaves flags w g' end) ents
  end.

Definition g_is_null (g : gtree) : bool :=
  match g with GLit tok => match tok with [110; 117; 108; 108] => true | _ => false end | _ => false end.

Fixpoint d_leaves (flags : Z) (w : buf) (d : dtree) : list (lkind * prov) :=
  match d with
  | DStr tok => [(KStr, decode_string flags w tok)]
  | DNum _ => [(KNum, decode_number flags w)]
  | DBytes tok => [(KBytes, decode_bytes tok)]
  | DSc _ => []
  | DQStr outer inner => [(KQStr, decode_string flags (from_string w outer) inner)]
  | DQNum outer _ => [(KQNum, decode_number flags (from_string w outer))]
  | DRaw _ => [(KRaw, decode_raw flags w)]
  | DAny g => g_leaves flags w g
  | DList kids => flat_map (d_leaves flags w) kids
  | DMap ents => flat_map (fun e => match e with (sk, k, d') =>
                   (if sk : bool then [(KKey, decode_string flags w k)] else []) ++ d_leaves flags w d' end) ents
  | DStruct fields => flat_map (d_leaves flags w) fields
  end.

(* the aliasing map of one Unmarshal / Parse / Decoder.Decode call *)
Definition leaves (flags : Z) (d : dtree) : list (lkind * prov) := d_leaves flags BSrc d.

(* the string tokens of a generic document in order (keys included), through Tokenizer.String *)
Fixpoint g_tok_strings (g : gtree) : list (lkind * prov) :=
  match g with
  | GStr tok => [(KTok, tok_string tok)]
  | GNum _ | GLit _ => []
  | GArr kids => flat_map g_tok_strings kids
  | GObj ents => flat_map (fun e => match e with (k, g') => (KTok, tok_string k) :: g_tok_strings g' end) ents
  end.

(* which zero-copy flag governs a kind: sharing the source buffer is permitted only when it is set.
   Tokenizer.String is documented to return a sub-slice of the input whenever it can. *)
Definition alias_flag (k : lkind) (flags : Z) : bool :=
  match k with
  | KStr | KKey | KQStr | KIStr | KIKey => has flags json_DontCopyString
  | KNum | KQNum | KINum => has flags json_DontCopyNumber
  | KRaw => has flags json_DontCopyRawMessage
  | KBytes => false
  | KTok => true
  end.

(* ------------------------------------------------------------------------------------------ *)
(* Part 2: regions, events, operations *)

Inductive region : Set :=
| RInput (i : nat)        (* byte slice number i lent by the caller (Unmarshal / Parse / NewTokenizer argument) *)
| RDecBuf (d g : nat)     (* generation g of the read buffer of Decoder d *)
| RPool (b : nat)         (* pooled encode buffer number b (encoderBufferPool) *)
| RFresh (n : nat).       (* allocation number n made for a result *)

Inductive event : Set :=
| EvWrite (t : nat) (r : region)                          (* the library, on goroutine t, stores bytes into r *)
| EvGive (k : lkind) (flags : Z) (r : region) (owned : bool)  (* a result whose bytes are in r is returned to the caller;
                                                             owned: nothing else refers to r any more *)
| EvLend (t : nat) (r : region)                           (* Encoder: r is passed to the caller's Writer for one Write call *)
| EvUserWrite (r : region).                               (* the caller writes into its own memory *)

Inductive phase : Set := PhGot | PhAppended | PhDone.

Inductive op : Set :=
| OGet (t : nat) (choice : option nat)   (* Marshal / Encode on goroutine t: Pool.Get; Some i: the i-th pooled buffer, None: Pool.New *)
| OAppend (t : nat) (grow : bool)        (* an append into the held buffer; grow: the append reallocated (buf.data is the new array) *)
| OCopyOut (t : nat)                     (* Marshal: b := make([]byte, len); copy(b, buf.data); return b *)
| OWriteOut (t : nat)                    (* Encode: enc.writer.Write(buf.data) *)
| OPut (t : nat)                         (* Pool.Put(buf) *)
| ODrop (t : nat)                        (* Marshal returning an error: the buffer is neither copied nor put back *)
| OParse (t : nat) (i : nat) (flags : Z) (d : dtree)      (* Unmarshal / Parse of the caller's buffer i *)
| ODecRead (t : nat) (dec : nat) (grow : bool)            (* readValue refill: compaction, optional regrowth, Read *)
| ODecode (t : nat) (dec : nat) (flags : Z) (d : dtree)   (* Parse(raw, v, dec.flags), raw inside the read buffer *)
| OTokString (t : nat) (i : nat) (tok : bytes)            (* Tokenizer.String on a token of input i *)
| OUserWrite (r : region).                                (* the caller overwrites r (its input buffer, a result it owns) *)

Record mstate : Set := {
  next : nat;                            (* allocation counter: pool buffers and results take numbers from it *)
  pool : list nat;                       (* buffers inside the sync.Pool *)
  held : list (nat * (nat * phase));     (* goroutine -> buffer taken from the pool and how far the call got *)
  decs : list (nat * nat)                (* Decoder -> generation of its read buffer *)
}.

Definition init : mstate := {| next := 0; pool := []; held := []; decs := [] |}.

Fixpoint lookup {A : Set} (t : nat) (l : list (nat * A)) : option A :=
  match l with
  | [] => None
  | (t', a) :: r => if Nat.eqb t t' then Some a else lookup t r
  end.

Fixpoint remove_key {A : Set} (t : nat) (l : list (nat * A)) : list (nat * A) :=
  match l with
  | [] => []
  | (t', a) :: r => if Nat.eqb t t' then remove_key t r else (t', a) :: remove_key t r
  end.

Definition set_key {A : Set} (t : nat) (a : A) (l : list (nat * A)) : list (nat * A) := (t, a) :: remove_key t l.

Fixpoint remove_nth {A : Set} (i : nat) (l : list A) : list A :=
  match l, i with
  | [], _ => []
  | _ :: r, O => r
  | x :: r, S j => x :: remove_nth j r
  end.

Definition gen_of (dec : nat) (s : mstate) : nat := match lookup dec (decs s) with Some g => g | None => O end.

(* returning the leaves of one decode to the caller: a leaf inside the source is shared, a fresh leaf gets its own
   allocation, written before it is given away. Events newest first. *)
Fixpoint give (t : nat) (src : region) (flags : Z) (ls : list (lkind * prov)) (n : nat) (acc : list event) : nat * list event :=
  match ls with
  | [] => (n, acc)
  | (k, PSrc) :: r => give t src flags r n (EvGive k flags src false :: acc)
  | (k, PFresh) :: r => give t src flags r (S n) (EvGive k flags (RFresh n) true :: EvWrite t (RFresh n) :: acc)
  | (k, PEmpty) :: r => give t src flags r n acc
  end.

Definition with_next (s : mstate) (n : nat) : mstate := {| next := n; pool := pool s; held := held s; decs := decs s |}.

(* one operation: new state and the events it produced (newest first). An operation that is not enabled does nothing. *)
Definition step (s : mstate) (o : op) : mstate * list event :=
  match o with
  | OGet t choice =>
      match lookup t (held s) with
      | Some _ => (s, [])
      | None =>
          match choice with
          | Some i =>
              match nth_error (pool s) i with
              | Some b => ({| next := next s; pool := remove_nth i (pool s); held := set_key t (b, PhGot) (held s); decs := decs s |}, [])
              | None => (s, [])
              end
          | None => ({| next := S (next s); pool := pool s; held := set_key t (next s, PhGot) (held s); decs := decs s |}, [])
          end
      end
  | OAppend t grow =>
      match lookup t (held s) with
      | Some (b, PhGot) | Some (b, PhAppended) =>
          if grow
          then ({| next := S (next s); pool := pool s; held := set_key t (next s, PhAppended) (held s); decs := decs s |},
                [EvWrite t (RPool (next s))])
          else ({| next := next s; pool := pool s; held := set_key t (b, PhAppended) (held s); decs := decs s |},
                [EvWrite t (RPool b)])
      | _ => (s, [])
      end
  | OCopyOut t =>
      match lookup t (held s) with
      | Some (b, PhAppended) =>
          ({| next := S (next s); pool := pool s; held := set_key t (b, PhDone) (held s); decs := decs s |},
           [EvGive KRaw 0 (RFresh (next s)) true; EvWrite t (RFresh (next s))])
      | _ => (s, [])
      end
  | OWriteOut t =>
      match lookup t (held s) with
      | Some (b, PhAppended) =>
          ({| next := next s; pool := pool s; held := set_key t (b, PhDone) (held s); decs := decs s |}, [EvLend t (RPool b)])
      | _ => (s, [])
      end
  | OPut t =>
      match lookup t (held s) with
      | Some (b, PhDone) | Some (b, PhAppended) =>
          ({| next := next s; pool := b :: pool s; held := remove_key t (held s); decs := decs s |}, [])
      | _ => (s, [])
      end
  | ODrop t =>
      match lookup t (held s) with
      | Some _ => ({| next := next s; pool := pool s; held := remove_key t (held s); decs := decs s |}, [])
      | None => (s, [])
      end
  | OParse t i flags d =>
      let '(n, ev) := give t (RInput i) flags (leaves flags d) (next s) [] in (with_next s n, ev)
  | ODecRead t dec grow =>
      let g := gen_of dec s in
      if grow
      then ({| next := next s; pool := pool s; held := held s; decs := set_key dec (S g) (decs s) |},
            [EvWrite t (RDecBuf dec (S g)); EvWrite t (RDecBuf dec (S g)); EvWrite t (RDecBuf dec g)])
      else (s, [EvWrite t (RDecBuf dec g); EvWrite t (RDecBuf dec g)])
  | ODecode t dec flags d =>
      let '(n, ev) := give t (RDecBuf dec (gen_of dec s)) flags (leaves flags d) (next s) [] in (with_next s n, ev)
  | OTokString t i tok =>
      let '(n, ev) := give t (RInput i) 0 [(KTok, tok_string tok)] (next s) [] in (with_next s n, ev)
  | OUserWrite r => (s, [EvUserWrite r])
  end.

(* a history: the trace is kept newest first *)
Fixpoint run (s : mstate) (tr : list event) (ops : list op) : mstate * list event :=
  match ops with
  | [] => (s, tr)
  | o :: r => let '(s', ev) := step s o in run s' (ev ++ tr) r
  end.

Definition held_bufs (s : mstate) : list nat := map (fun x => fst (snd x)) (held s).
