(* C10 -- proofs of the statements of Json/MemSpec.v about the memory model Json/MemModel.v. *)
From Coq Require Import ZArith List Bool Lia Permutation.
From Verif Require Import Base.GoInt Json.Ext Generated.JsonParseGen Json.MemModel Json.MemSpec.
Import ListNotations.
Open Scope Z_scope.

(* ------------------------------------------------------------------------------------------ *)
(* induction principles for the nested trees *)

Section GInd.
  Variable P : gtree -> Prop.
  Hypothesis HStr : forall tok, P (GStr tok).
  Hypothesis HNum : forall tok, P (GNum tok).
  Hypothesis HLit : forall tok, P (GLit tok).
  Hypothesis HArr : forall kids, Forall P kids -> P (GArr kids).
  Hypothesis HObj : forall ents, Forall (fun e => P (snd e)) ents -> P (GObj ents).
  Fixpoint gtree_ind2 (g : gtree) : P g :=
    match g with
    | GStr tok => HStr tok
    | GNum tok => HNum tok
    | GLit tok => HLit tok
    | GArr kids => HArr kids ((fix go (l : list gtree) : Forall P l :=
                     match l with [] => Forall_nil _ | x :: r => Forall_cons _ (gtree_ind2 x) (go r) end) kids)
    | GObj ents => HObj ents ((fix go (l : list (bytes * gtree)) : Forall (fun e => P (snd e)) l :=
                     match l with [] => Forall_nil _ | x :: r => Forall_cons x (gtree_ind2 (snd x)) (go r) end) ents)
    end.
End GInd.

Section DInd.
  Variable P : dtree -> Prop.
  Hypothesis HStr : forall tok, P (DStr tok).
  Hypothesis HNum : forall tok, P (DNum tok).
  Hypothesis HBytes : forall tok, P (DBytes tok).
  Hypothesis HSc : forall tok, P (DSc tok).
  Hypothesis HQStr : forall o i, P (DQStr o i).
  Hypothesis HQNum : forall o i, P (DQNum o i).
  Hypothesis HRaw : forall g, P (DRaw g).
  Hypothesis HAny : forall g, P (DAny g).
  Hypothesis HList : forall kids, Forall P kids -> P (DList kids).
  Hypothesis HMap : forall ents, Forall (fun e => P (snd e)) ents -> P (DMap ents).
  Hypothesis HStruct : forall fields, Forall P fields -> P (DStruct fields).
  Fixpoint dtree_ind2 (d : dtree) : P d :=
    match d with
    | DStr tok => HStr tok
    | DNum tok => HNum tok
    | DBytes tok => HBytes tok
    | DSc tok => HSc tok
    | DQStr o i => HQStr o i
    | DQNum o i => HQNum o i
    | DRaw g => HRaw g
    | DAny g => HAny g
    | DList kids => HList kids ((fix go (l : list dtree) : Forall P l :=
                     match l with [] => Forall_nil _ | x :: r => Forall_cons _ (dtree_ind2 x) (go r) end) kids)
    | DMap ents => HMap ents ((fix go (l : list (bool * bytes * dtree)) : Forall (fun e => P (snd e)) l :=
                     match l with [] => Forall_nil _ | x :: r => Forall_cons x (dtree_ind2 (snd x)) (go r) end) ents)
    | DStruct fields => HStruct fields ((fix go (l : list dtree) : Forall P l :=
                     match l with [] => Forall_nil _ | x :: r => Forall_cons _ (dtree_ind2 x) (go r) end) fields)
    end.
End DInd.

Lemma Forall_flat_map : forall (A B : Type) (Q : B -> Prop) (f : A -> list B) (l : list A),
  Forall (fun x => Forall Q (f x)) l -> Forall Q (flat_map f l).
Proof.
  induction l as [|x r IH]; simpl; intros H.
  - constructor.
  - inversion H; subst. apply Forall_app. split; auto.
Qed.

(* ------------------------------------------------------------------------------------------ *)
(* (a) leaves *)

(* the leaves of a decode are never of the tokenizer kind *)
Definition leaf_ok' (flags : Z) (kp : lkind * prov) : Prop := fst kp <> KTok /\ leaf_ok flags kp.

Lemma decode_string_ok : forall flags w tok k, k <> KTok ->
  alias_flag k flags = has flags json_DontCopyString -> leaf_ok' flags (k, decode_string flags w tok).
Proof.
  intros flags w tok k Hne Hk. split; [exact Hne|].
  unfold leaf_ok, decode_string, unquote. simpl fst; simpl snd. rewrite Hk.
  destruct (tok_unescaped tok); destruct (tok_empty tok); destruct (has flags json_DontCopyString);
    destruct w; simpl; intros; congruence.
Qed.

Lemma decode_number_ok : forall flags w k, k <> KTok ->
  alias_flag k flags = has flags json_DontCopyNumber -> leaf_ok' flags (k, decode_number flags w).
Proof.
  intros flags w k Hne Hk. split; [exact Hne|]. unfold leaf_ok, decode_number. simpl fst; simpl snd. rewrite Hk.
  destruct (has flags json_DontCopyNumber); destruct w; simpl; intros; congruence.
Qed.

Lemma decode_raw_ok : forall flags w, leaf_ok' flags (KRaw, decode_raw flags w).
Proof.
  intros flags w. split; [discriminate|]. unfold leaf_ok, decode_raw. simpl.
  destruct (has flags json_DontCopyRawMessage); destruct w; simpl; intros; congruence.
Qed.

Lemma decode_bytes_ok : forall flags tok, leaf_ok' flags (KBytes, decode_bytes tok).
Proof. intros flags tok. split; [discriminate|]. unfold leaf_ok, decode_bytes. simpl. destruct (tok_empty tok); intros; congruence. Qed.

Lemma g_leaves_ok : forall flags g w, Forall (leaf_ok' flags) (g_leaves flags w g).
Proof.
  intros flags g. induction g as [tok|tok|tok|kids IH|ents IH] using gtree_ind2; intros w; simpl.
  - constructor; [apply decode_string_ok; [discriminate|reflexivity]|constructor].
  - destruct (has flags json_UseNumber); [|constructor].
    constructor; [apply decode_number_ok; [discriminate|reflexivity]|constructor].
  - constructor.
  - apply Forall_flat_map. rewrite Forall_forall in *. intros x Hx. apply IH; assumption.
  - apply Forall_flat_map. rewrite Forall_forall in *. intros [k g'] Hx.
    constructor; [apply decode_string_ok; [discriminate|reflexivity]|]. apply (IH (k, g') Hx).
Qed.

Lemma d_leaves_ok : forall flags d w, Forall (leaf_ok' flags) (d_leaves flags w d).
Proof.
  intros flags d.
  induction d as [tok|tok|tok|tok|o i|o i|g|g|kids IH|ents IH|fields IH] using dtree_ind2; intros w; simpl.
  - constructor; [apply decode_string_ok; [discriminate|reflexivity]|constructor].
  - constructor; [apply decode_number_ok; [discriminate|reflexivity]|constructor].
  - constructor; [apply decode_bytes_ok|constructor].
  - constructor.
  - constructor; [apply decode_string_ok; [discriminate|reflexivity]|constructor].
  - constructor; [apply decode_number_ok; [discriminate|reflexivity]|constructor].
  - constructor; [apply decode_raw_ok|constructor].
  - apply g_leaves_ok.
  - apply Forall_flat_map. rewrite Forall_forall in *. intros x Hx. apply IH; assumption.
  - apply Forall_flat_map. rewrite Forall_forall in *. intros [[sk k] d'] Hx.
    apply Forall_app. split.
    + destruct sk; [|constructor]. constructor; [apply decode_string_ok; [discriminate|reflexivity]|constructor].
    + apply (IH (sk, k, d') Hx).
  - apply Forall_flat_map. rewrite Forall_forall in *. intros x Hx. apply IH; assumption.
Qed.

Lemma leaves_allowed : leaves_allowed_statement.
Proof.
  intros flags d. eapply Forall_impl; [|apply d_leaves_ok]. intros kp [_ H]. exact H.
Qed.

Lemma no_flag_no_alias : no_flag_no_alias_statement.
Proof.
  intros flags d Hs Hn Hr. pose proof (d_leaves_ok flags d BSrc) as H.
  rewrite Forall_forall in *. intros [k p] Hin Hp. destruct (H (k, p) Hin) as [Hne Hok].
  specialize (Hok Hp). simpl in Hok, Hne. destruct k; simpl in Hok; congruence.
Qed.

Lemma unmarshal_no_alias : unmarshal_no_alias_statement.
Proof. intros d. apply no_flag_no_alias; reflexivity. Qed.

Lemma bytes_never_alias : bytes_never_alias_statement.
Proof.
  intros flags d [k p] Hin Hk Hp. simpl in *. subst k.
  pose proof (leaves_allowed flags d) as H. rewrite Forall_forall in H.
  specialize (H _ Hin Hp). simpl in H. discriminate.
Qed.

(* ------------------------------------------------------------------------------------------ *)
(* (b) association lists *)

Local Open Scope nat_scope.

Definition bufs (l : list (nat * (nat * phase))) : list nat := map (fun x => fst (snd x)) l.

Lemma lookup_In : forall (A : Set) t (l : list (nat * A)) a, lookup t l = Some a -> In (t, a) l.
Proof.
  induction l as [|[t' a'] r IH]; simpl; intros a H; [discriminate|].
  destruct (Nat.eqb t t') eqn:E.
  - apply Nat.eqb_eq in E. inversion H; subst. left; reflexivity.
  - right. apply IH; assumption.
Qed.

Lemma lookup_None_notin : forall (A : Set) t (l : list (nat * A)), lookup t l = None -> ~ In t (map fst l).
Proof.
  induction l as [|[t' a'] r IH]; simpl; intros H; [tauto|].
  destruct (Nat.eqb t t') eqn:E; [discriminate|]. apply Nat.eqb_neq in E.
  intros [H1|H1]; [congruence|]. apply IH; assumption.
Qed.

Lemma notin_remove_key : forall (A : Set) t (l : list (nat * A)), ~ In t (map fst l) -> remove_key t l = l.
Proof.
  induction l as [|[t' a'] r IH]; simpl; intros H; [reflexivity|].
  destruct (Nat.eqb t t') eqn:E.
  - apply Nat.eqb_eq in E. subst. tauto.
  - f_equal. apply IH. tauto.
Qed.

Lemma remove_key_incl : forall (A : Set) t (l : list (nat * A)) x, In x (remove_key t l) -> In x l.
Proof.
  induction l as [|[t' a'] r IH]; simpl; intros x H; [tauto|].
  destruct (Nat.eqb t t'); [right; apply IH; assumption|].
  destruct H as [H|H]; [left; assumption|right; apply IH; assumption].
Qed.

Lemma remove_key_notin : forall (A : Set) t (l : list (nat * A)), ~ In t (map fst (remove_key t l)).
Proof.
  induction l as [|[t' a'] r IH]; simpl; [tauto|].
  destruct (Nat.eqb t t') eqn:E; [assumption|]. apply Nat.eqb_neq in E.
  simpl. intros [H|H]; [congruence|tauto].
Qed.

Lemma remove_key_keys_incl : forall (A : Set) t (l : list (nat * A)) k, In k (map fst (remove_key t l)) -> In k (map fst l).
Proof.
  intros A t l k H. apply in_map_iff in H. destruct H as [x [Hx Hin]]. apply in_map_iff. exists x.
  split; [assumption|]. eapply remove_key_incl; eassumption.
Qed.

Lemma remove_key_NoDup : forall (A : Set) t (l : list (nat * A)), NoDup (map fst l) -> NoDup (map fst (remove_key t l)).
Proof.
  induction l as [|[t' a'] r IH]; simpl; intros H; [constructor|].
  inversion H; subst. destruct (Nat.eqb t t'); [apply IH; assumption|].
  simpl. constructor; [|apply IH; assumption].
  intros Hin. apply H2. eapply remove_key_keys_incl; eassumption.
Qed.

Lemma remove_key_perm : forall (A : Set) t (l : list (nat * A)) a,
  NoDup (map fst l) -> In (t, a) l -> Permutation l ((t, a) :: remove_key t l).
Proof.
  induction l as [|[t' a'] r IH]; simpl; intros a Hnd Hin; [tauto|].
  inversion Hnd; subst. destruct Hin as [Heq|Hin].
  - inversion Heq; subst. rewrite Nat.eqb_refl. rewrite notin_remove_key by assumption. apply Permutation_refl.
  - assert (Hne : t <> t').
    { intros ->. apply H1. apply in_map_iff. exists (t', a). split; [reflexivity|assumption]. }
    apply Nat.eqb_neq in Hne. rewrite Hne.
    eapply Permutation_trans; [apply perm_skip; apply IH; eassumption|]. apply perm_swap.
Qed.

Lemma bufs_perm : forall t h b ph, NoDup (map fst h) -> lookup t h = Some (b, ph) ->
  Permutation (bufs h) (b :: bufs (remove_key t h)).
Proof.
  intros t h b ph Hnd Hl. apply lookup_In in Hl.
  change (b :: bufs (remove_key t h)) with (bufs ((t, (b, ph)) :: remove_key t h)).
  unfold bufs. apply Permutation_map. apply remove_key_perm; assumption.
Qed.

Lemma nth_error_perm : forall (A : Set) i (l : list A) b, nth_error l i = Some b -> Permutation l (b :: remove_nth i l).
Proof.
  induction i as [|i IH]; intros [|x r] b H; simpl in *; try discriminate.
  - inversion H; subst. apply Permutation_refl.
  - eapply Permutation_trans; [apply perm_skip; apply IH; eassumption|]. apply perm_swap.
Qed.

Lemma NoDup_map_inj : forall (A B : Type) (f : A -> B) (l : list A) x y,
  NoDup (map f l) -> In x l -> In y l -> f x = f y -> x = y.
Proof.
  induction l as [|z r IH]; simpl; intros x y Hnd Hx Hy Hf; [tauto|].
  inversion Hnd; subst.
  destruct Hx as [Hx|Hx]; destruct Hy as [Hy|Hy]; subst.
  - reflexivity.
  - exfalso. apply H1. rewrite Hf. apply in_map; assumption.
  - exfalso. apply H1. rewrite <- Hf. apply in_map; assumption.
  - apply IH; assumption.
Qed.

(* ------------------------------------------------------------------------------------------ *)
(* the state part of the invariant *)

Record SI (n : nat) (p : list nat) (h : list (nat * (nat * phase))) : Prop := {
  si_lt : forall b, In b (p ++ bufs h) -> b < n;
  si_nd : NoDup (p ++ bufs h);
  si_keys : NoDup (map fst h) }.

Lemma SI_mono : forall n n' p h, SI n p h -> n <= n' -> SI n' p h.
Proof. intros n n' p h [H1 H2 H3] Hle. constructor; auto. intros b Hb. specialize (H1 b Hb). lia. Qed.

Lemma SI_perm : forall n p h p' h', SI n p h -> Permutation (p ++ bufs h) (p' ++ bufs h') -> NoDup (map fst h') -> SI n p' h'.
Proof.
  intros n p h p' h' [H1 H2 H3] Hp Hk. constructor; auto.
  - intros b Hb. apply H1. eapply Permutation_in; [apply Permutation_sym; eassumption|assumption].
  - eapply Permutation_NoDup; eassumption.
Qed.

Lemma set_key_keys : forall t (a : nat * phase) h, NoDup (map fst h) -> NoDup (map fst (set_key t a h)).
Proof.
  intros t a h H. unfold set_key. simpl. constructor; [apply remove_key_notin|apply remove_key_NoDup; assumption].
Qed.

(* replace the entry of t, same buffer *)
Lemma SI_set_same : forall n p h t b ph ph', SI n p h -> lookup t h = Some (b, ph) -> SI n p (set_key t (b, ph') h).
Proof.
  intros n p h t b ph ph' HS Hl. eapply SI_perm; [eassumption| |apply set_key_keys; apply HS].
  unfold set_key. simpl. apply Permutation_app_head. eapply bufs_perm; [apply HS|eassumption].
Qed.

(* t drops its buffer *)
Lemma SI_drop : forall n p h t b ph, SI n p h -> lookup t h = Some (b, ph) -> SI n p (remove_key t h).
Proof.
  intros n p h t b ph HS Hl.
  assert (Hp : Permutation (p ++ bufs h) (b :: p ++ bufs (remove_key t h))).
  { eapply Permutation_trans; [apply Permutation_app_head; eapply bufs_perm; [apply HS|eassumption]|].
    apply Permutation_sym. apply Permutation_middle. }
  destruct HS as [H1 H2 H3]. constructor.
  - intros x Hx. apply H1. eapply Permutation_in; [apply Permutation_sym; eassumption|]. right; assumption.
  - pose proof (Permutation_NoDup Hp H2) as Hn. inversion Hn; assumption.
  - apply remove_key_NoDup; assumption.
Qed.

(* t puts its buffer back *)
Lemma SI_put : forall n p h t b ph, SI n p h -> lookup t h = Some (b, ph) -> SI n (b :: p) (remove_key t h).
Proof.
  intros n p h t b ph HS Hl. eapply SI_perm; [eassumption| |apply remove_key_NoDup; apply HS].
  simpl. eapply Permutation_trans; [apply Permutation_app_head; eapply bufs_perm; [apply HS|eassumption]|].
  apply Permutation_sym. apply Permutation_middle.
Qed.

(* a new buffer number n for t, which held nothing or whose old buffer is dropped *)
Lemma SI_fresh_entry : forall n p h t ph, SI n p h -> ~ In t (map fst h) -> SI (S n) p ((t, (n, ph)) :: h).
Proof.
  intros n p h t ph [H1 H2 H3] Hnot. constructor.
  - intros b Hb. simpl in Hb. apply in_app_or in Hb. destruct Hb as [Hb|[Hb|Hb]].
    + specialize (H1 b (in_or_app _ _ _ (or_introl Hb))). lia.
    + lia.
    + specialize (H1 b (in_or_app _ _ _ (or_intror Hb))). lia.
  - simpl. eapply Permutation_NoDup; [apply Permutation_middle|]. constructor; [|assumption].
    intros Hin. specialize (H1 n Hin). lia.
  - simpl. constructor; assumption.
Qed.

Lemma SI_get_new : forall n p h t, SI n p h -> lookup t h = None -> SI (S n) p (set_key t (n, PhGot) h).
Proof.
  intros n p h t HS Hl. apply lookup_None_notin in Hl. unfold set_key. rewrite notin_remove_key by assumption.
  apply SI_fresh_entry; assumption.
Qed.

Lemma SI_grow : forall n p h t b ph ph', SI n p h -> lookup t h = Some (b, ph) -> SI (S n) p (set_key t (n, ph') h).
Proof.
  intros n p h t b ph ph' HS Hl. unfold set_key. apply SI_fresh_entry.
  - eapply SI_drop; eassumption.
  - apply remove_key_notin.
Qed.

Lemma SI_get_some : forall n p h t i b, SI n p h -> lookup t h = None -> nth_error p i = Some b ->
  SI n (remove_nth i p) (set_key t (b, PhGot) h).
Proof.
  intros n p h t i b HS Hl Hn. apply lookup_None_notin in Hl. unfold set_key. rewrite notin_remove_key by assumption.
  eapply SI_perm; [eassumption| |simpl; constructor; [assumption|apply HS]].
  simpl. eapply Permutation_trans; [apply Permutation_app_tail; eapply nth_error_perm; eassumption|].
  simpl. apply Permutation_middle.
Qed.

(* ------------------------------------------------------------------------------------------ *)
(* the trace part of the invariant *)

Definition TInv (n : nat) (tr : list event) : Prop :=
  (forall k fl m o, In (EvGive k fl (RFresh m) o) tr -> m < n) /\ Forall give_ok tr /\ safe tr.

Lemma TInv_mono : forall n n' tr, TInv n tr -> n <= n' -> TInv n' tr.
Proof. intros n n' tr [H1 [H2 H3]] Hle. repeat split; auto. intros k fl m o Hin. specialize (H1 _ _ _ _ Hin). lia. Qed.

Definition benign (e : event) : Prop :=
  match e with
  | EvWrite _ (RPool _) | EvWrite _ (RDecBuf _ _) | EvLend _ (RPool _) | EvUserWrite _ => True
  | _ => False
  end.

Lemma give_ok_not_owned_pool : forall tr k fl b o, Forall give_ok tr -> ~ In (EvGive k fl (RPool b) o) tr.
Proof. intros tr k fl b o H Hin. rewrite Forall_forall in H. apply (H _ Hin). Qed.

Lemma give_ok_not_owned_dec : forall tr k fl d g, Forall give_ok tr -> ~ In (EvGive k fl (RDecBuf d g) true) tr.
Proof. intros tr k fl d g H Hin. rewrite Forall_forall in H. specialize (H _ Hin). simpl in H. destruct H; discriminate. Qed.

Lemma benign_TInv : forall ev n tr, Forall benign ev -> TInv n tr -> TInv n (ev ++ tr).
Proof.
  induction ev as [|e ev IH]; simpl; intros n tr Hb HT; [assumption|].
  inversion Hb; subst. specialize (IH n tr H2 HT). destruct IH as [I1 [I2 I3]].
  destruct e as [t r|k fl r o|t r|r]; simpl in H1; try tauto.
  - (* EvWrite *)
    destruct r as [i|d g|b|m]; try tauto.
    + repeat split.
      * intros k fl m o [Hc|Hin]; [discriminate|eauto].
      * constructor; [exact I|assumption].
      * intros k fl. apply give_ok_not_owned_dec; assumption.
      * intros i; discriminate.
      * assumption.
    + repeat split.
      * intros k fl m o [Hc|Hin]; [discriminate|eauto].
      * constructor; [exact I|assumption].
      * intros k fl. apply give_ok_not_owned_pool; assumption.
      * intros i; discriminate.
      * assumption.
  - (* EvLend *)
    repeat split.
    + intros k fl m o [Hc|Hin]; [discriminate|eauto].
    + constructor; [exact I|assumption].
    + assumption.
  - (* EvUserWrite *)
    repeat split.
    + intros k fl m o [Hc|Hin]; [discriminate|eauto].
    + constructor; [exact I|assumption].
    + assumption.
Qed.

Lemma give_TInv : forall t src flags ls n acc tr n' ev,
  (forall m, src <> RFresh m) -> (forall b, src <> RPool b) ->
  Forall (leaf_ok flags) ls ->
  TInv n (acc ++ tr) ->
  give t src flags ls n acc = (n', ev) ->
  n <= n' /\ TInv n' (ev ++ tr).
Proof.
  intros t src flags ls. induction ls as [|[k p] r IH]; simpl; intros n acc tr n' ev Hs1 Hs2 Hok HT Hg.
  - inversion Hg; subst. split; [lia|assumption].
  - inversion Hok as [|x l Hleaf Hrest]; subst. destruct HT as [T1 [T2 T3]]. destruct p.
    + (* shared *)
      eapply IH; [exact Hs1|exact Hs2|exact Hrest| |exact Hg].
      simpl. repeat split.
      * intros k' fl' m o [Hc|Hin]; [inversion Hc; subst; exfalso; eapply Hs1; reflexivity|eauto].
      * constructor; [|assumption]. unfold leaf_ok in Hleaf. simpl in Hleaf.
        destruct src; simpl; auto; try (exfalso; eapply Hs2; reflexivity); try (exfalso; eapply Hs1; reflexivity).
      * assumption.
    + (* fresh *)
      assert (HH : S n <= n' /\ TInv n' (ev ++ tr)).
      { eapply IH; [exact Hs1|exact Hs2|exact Hrest| |exact Hg].
        simpl. repeat split.
        - intros k' fl' m o [Hc|[Hc|Hin]]; [inversion Hc; subst; lia|discriminate|].
          specialize (T1 _ _ _ _ Hin). lia.
        - constructor; [reflexivity|]. constructor; [exact I|assumption].
        - intros k' fl' Hin. specialize (T1 _ _ _ _ Hin). lia.
        - intros i; discriminate.
        - assumption. }
      destruct HH as [Hle HT']. split; [lia|assumption].
    + (* empty *)
      eapply IH; [exact Hs1|exact Hs2|exact Hrest| |exact Hg]. repeat split; assumption.
Qed.

(* ------------------------------------------------------------------------------------------ *)
(* every step keeps the invariant *)

Definition Inv (s : mstate) (tr : list event) : Prop :=
  SI (next s) (pool s) (held s) /\ TInv (next s) tr.

Lemma init_inv : Inv init [].
Proof.
  split.
  - constructor; simpl; [tauto|constructor|constructor].
  - repeat split; simpl; [tauto|constructor].
Qed.

Lemma tok_leaf_ok : forall tok, Forall (leaf_ok 0%Z) [(KTok, tok_string tok)].
Proof. intros tok. constructor; [|constructor]. intros _. reflexivity. Qed.

Lemma leaves_leaf_ok : forall flags d, Forall (leaf_ok flags) (leaves flags d).
Proof. exact leaves_allowed. Qed.

Lemma step_inv : forall s tr o, Inv s tr -> Inv (fst (step s o)) (snd (step s o) ++ tr).
Proof.
  intros s tr o [HS HT]. destruct o as [t choice|t grow|t|t|t|t|t i flags d|t dec grow|t dec flags d|t i tok|r]; unfold step.
  - (* OGet *)
    destruct (lookup t (held s)) as [x|] eqn:Hl; [split; assumption|].
    destruct choice as [i|].
    + destruct (nth_error (pool s) i) as [b|] eqn:Hn; [|split; assumption].
      split; simpl; [eapply SI_get_some; eassumption|assumption].
    + split; simpl; [apply SI_get_new; assumption|eapply TInv_mono; [eassumption|lia]].
  - (* OAppend *)
    destruct (lookup t (held s)) as [[b ph]|] eqn:Hl; [|split; assumption].
    destruct ph; try (split; assumption); destruct grow; split; simpl;
      try (eapply SI_grow; eassumption); try (eapply SI_set_same; eassumption);
      try (apply (benign_TInv [EvWrite t (RPool (next s))]); [repeat constructor|eapply TInv_mono; [eassumption|lia]]);
      try (apply (benign_TInv [EvWrite t (RPool b)]); [repeat constructor|assumption]).
  - (* OCopyOut *)
    destruct (lookup t (held s)) as [[b ph]|] eqn:Hl; [|split; assumption].
    destruct ph; try (split; assumption). split; simpl.
    + eapply SI_mono; [eapply SI_set_same; eassumption|lia].
    + assert (Hg : give t (RInput 0) 0%Z [(KRaw, PFresh)] (next s) [] =
                   (S (next s), [EvGive KRaw 0%Z (RFresh (next s)) true; EvWrite t (RFresh (next s))])) by reflexivity.
      eapply give_TInv in Hg; [apply Hg|discriminate|discriminate| |exact HT].
      constructor; [|constructor]. intros Hc; discriminate.
  - (* OWriteOut *)
    destruct (lookup t (held s)) as [[b ph]|] eqn:Hl; [|split; assumption].
    destruct ph; try (split; assumption). split; simpl.
    + eapply SI_set_same; eassumption.
    + apply (benign_TInv [EvLend t (RPool b)]); [repeat constructor|assumption].
  - (* OPut *)
    destruct (lookup t (held s)) as [[b ph]|] eqn:Hl; [|split; assumption].
    destruct ph; try (split; assumption); split; simpl; try assumption; eapply SI_put; eassumption.
  - (* ODrop *)
    destruct (lookup t (held s)) as [[b ph]|] eqn:Hl; [|split; assumption].
    split; simpl; [eapply SI_drop; eassumption|assumption].
  - (* OParse *)
    destruct (give t (RInput i) flags (leaves flags d) (next s) []) as [n' ev] eqn:Hg.
    eapply give_TInv in Hg; [|discriminate|discriminate|apply leaves_leaf_ok|exact HT].
    destruct Hg as [Hle HT']. split; simpl; [eapply SI_mono; eassumption|assumption].
  - (* ODecRead *)
    destruct grow; split; simpl; try assumption.
    + apply (benign_TInv [EvWrite t (RDecBuf dec (S (gen_of dec s))); EvWrite t (RDecBuf dec (S (gen_of dec s))); EvWrite t (RDecBuf dec (gen_of dec s))]);
        [repeat constructor|assumption].
    + apply (benign_TInv [EvWrite t (RDecBuf dec (gen_of dec s)); EvWrite t (RDecBuf dec (gen_of dec s))]);
        [repeat constructor|assumption].
  - (* ODecode *)
    destruct (give t (RDecBuf dec (gen_of dec s)) flags (leaves flags d) (next s) []) as [n' ev] eqn:Hg.
    eapply give_TInv in Hg; [|discriminate|discriminate|apply leaves_leaf_ok|exact HT].
    destruct Hg as [Hle HT']. split; simpl; [eapply SI_mono; eassumption|assumption].
  - (* OTokString *)
    destruct (give t (RInput i) 0%Z [(KTok, tok_string tok)] (next s) []) as [n' ev] eqn:Hg.
    eapply give_TInv in Hg; [|discriminate|discriminate|apply tok_leaf_ok|exact HT].
    destruct Hg as [Hle HT']. split; simpl; [eapply SI_mono; eassumption|assumption].
  - (* OUserWrite *)
    split; simpl; [assumption|]. apply (benign_TInv [EvUserWrite r]); [repeat constructor|assumption].
Qed.

Lemma run_inv : forall ops s tr, Inv s tr -> Inv (fst (run s tr ops)) (snd (run s tr ops)).
Proof.
  induction ops as [|o r IH]; simpl; intros s tr HI; [assumption|].
  pose proof (step_inv s tr o HI) as H. destruct (step s o) as [s' ev]. simpl in H. apply IH; assumption.
Qed.

Lemma history_safe : history_safe_statement.
Proof. intros ops. destruct (run_inv ops init [] init_inv) as [_ [_ [_ H]]]. exact H. Qed.

Lemma gives : gives_statement.
Proof. intros ops. destruct (run_inv ops init [] init_inv) as [_ [_ [H _]]]. exact H. Qed.

Lemma NoDup_app_parts : forall (A : Type) (l1 l2 : list A), NoDup (l1 ++ l2) ->
  NoDup l1 /\ NoDup l2 /\ (forall x, In x l1 -> ~ In x l2).
Proof.
  induction l1 as [|a l1 IH]; simpl; intros l2 H.
  - repeat split; [constructor|assumption|tauto].
  - inversion H; subst. destruct (IH l2 H3) as [I1 [I2 I3]]. repeat split.
    + constructor; [|assumption]. intros Hin. apply H2. apply in_or_app; left; assumption.
    + assumption.
    + intros x [Hx|Hx] Hin; [subst; apply H2; apply in_or_app; right; assumption|eapply I3; eassumption].
Qed.

Lemma pool_exclusive : pool_exclusive_statement.
Proof.
  intros ops s. destruct (run_inv ops init [] init_inv) as [[H1 H2 H3] _]. fold s in H1, H2, H3.
  destruct (NoDup_app_parts _ _ _ H2) as [Np [Nb Nd]]. repeat split.
  - intros t t' b [ph Hh] [ph' Hh'].
    assert (E : (t, (b, ph)) = (t', (b, ph'))).
    { eapply (NoDup_map_inj _ _ (fun x => fst (snd x))); [exact Nb|exact Hh|exact Hh'|reflexivity]. }
    inversion E; reflexivity.
  - intros t b b' [ph Hh] [ph' Hh'].
    assert (E : (t, (b, ph)) = (t, (b', ph'))).
    { eapply (NoDup_map_inj _ _ fst); [exact H3|exact Hh|exact Hh'|reflexivity]. }
    inversion E; reflexivity.
  - intros t b [ph Hh] Hin. eapply Nd; [exact Hin|].
    unfold bufs. apply in_map_iff. exists (t, (b, ph)). split; [reflexivity|assumption].
  - assumption.
Qed.

(* the events of give: those already accumulated, gives, and writes into the fresh allocations *)
Lemma give_events : forall t src flags ls n acc n' ev, give t src flags ls n acc = (n', ev) ->
  forall e, In e ev -> In e acc \/ (exists k r o, e = EvGive k flags r o) \/ (exists m, e = EvWrite t (RFresh m)).
Proof.
  intros t src flags ls. induction ls as [|[k p] r IH]; simpl; intros n acc n' ev Hg e He.
  - inversion Hg; subst. left; assumption.
  - destruct p; specialize (IH _ _ _ _ Hg e He).
    + destruct IH as [[Hc|Hin]|Hr]; [right; left; eauto|left; assumption|right; assumption].
    + destruct IH as [[Hc|[Hc|Hin]]|Hr]; [right; left; eauto|right; right; eauto|left; assumption|right; assumption].
    + assumption.
Qed.

Lemma pool_writer : pool_writer_statement.
Proof.
  intros s o t b. destruct o as [t0 choice|t0 grow|t0|t0|t0|t0|t0 i flags d|t0 dec grow|t0 dec flags d|t0 i tok|r]; unfold step.
  - destruct (lookup t0 (held s)); [simpl; tauto|]. destruct choice as [i|]; [destruct (nth_error (pool s) i)|]; simpl; tauto.
  - destruct (lookup t0 (held s)) as [[b0 ph]|] eqn:Hl; [|simpl; tauto].
    destruct ph; try (simpl; tauto); destruct grow; simpl; intros [H|[]]; inversion H; subst;
      try (right; eexists; left; reflexivity); left; eexists; eapply lookup_In; eassumption.
  - destruct (lookup t0 (held s)) as [[b0 ph]|]; [|simpl; tauto]. destruct ph; simpl; try tauto.
    intros [H|[H|[]]]; discriminate.
  - destruct (lookup t0 (held s)) as [[b0 ph]|]; [|simpl; tauto]. destruct ph; simpl; try tauto.
    intros [H|[]]; discriminate.
  - destruct (lookup t0 (held s)) as [[b0 ph]|]; [|simpl; tauto]. destruct ph; simpl; tauto.
  - destruct (lookup t0 (held s)) as [[b0 ph]|]; simpl; tauto.
  - destruct (give t0 (RInput i) flags (leaves flags d) (next s) []) as [n' ev] eqn:Hg. simpl. intros Hin.
    destruct (give_events _ _ _ _ _ _ _ _ Hg _ Hin) as [[]|[[k [r [o E]]]|[m E]]]; discriminate.
  - destruct grow; simpl; intros H; repeat (destruct H as [H|H]; [discriminate|]); destruct H.
  - destruct (give t0 (RDecBuf dec (gen_of dec s)) flags (leaves flags d) (next s) []) as [n' ev] eqn:Hg. simpl. intros Hin.
    destruct (give_events _ _ _ _ _ _ _ _ Hg _ Hin) as [[]|[[k [r [o E]]]|[m E]]]; discriminate.
  - destruct (give t0 (RInput i) 0%Z [(KTok, tok_string tok)] (next s) []) as [n' ev] eqn:Hg. simpl. intros Hin.
    destruct (give_events _ _ _ _ _ _ _ _ Hg _ Hin) as [[]|[[k [r [o E]]]|[m E]]]; discriminate.
  - simpl. intros [H|[]]; discriminate.
Qed.

Definition lend_ok (e : event) : Prop := match e with EvLend _ r => exists b, r = RPool b | _ => True end.

Lemma step_lend : forall s o e, In e (snd (step s o)) -> lend_ok e.
Proof.
  intros s o e. destruct o as [t0 choice|t0 grow|t0|t0|t0|t0|t0 i flags d|t0 dec grow|t0 dec flags d|t0 i tok|r]; unfold step.
  - destruct (lookup t0 (held s)); [simpl; tauto|]. destruct choice as [i|]; [destruct (nth_error (pool s) i)|]; simpl; tauto.
  - destruct (lookup t0 (held s)) as [[b0 ph]|]; [|simpl; tauto].
    destruct ph; try (simpl; tauto); destruct grow; simpl; intros [H|[]]; subst; exact I.
  - destruct (lookup t0 (held s)) as [[b0 ph]|]; [|simpl; tauto]. destruct ph; simpl; try tauto.
    intros [H|[H|[]]]; subst; exact I.
  - destruct (lookup t0 (held s)) as [[b0 ph]|]; [|simpl; tauto]. destruct ph; simpl; try tauto.
    intros [H|[]]; subst. simpl. eauto.
  - destruct (lookup t0 (held s)) as [[b0 ph]|]; [|simpl; tauto]. destruct ph; simpl; tauto.
  - destruct (lookup t0 (held s)) as [[b0 ph]|]; simpl; tauto.
  - destruct (give t0 (RInput i) flags (leaves flags d) (next s) []) as [n' ev] eqn:Hg. simpl. intros Hin.
    destruct (give_events _ _ _ _ _ _ _ _ Hg _ Hin) as [[]|[[k [r [o E]]]|[m E]]]; subst; exact I.
  - destruct grow; simpl; intros H; repeat (destruct H as [H|H]; [subst; exact I|]); destruct H.
  - destruct (give t0 (RDecBuf dec (gen_of dec s)) flags (leaves flags d) (next s) []) as [n' ev] eqn:Hg. simpl. intros Hin.
    destruct (give_events _ _ _ _ _ _ _ _ Hg _ Hin) as [[]|[[k [r [o E]]]|[m E]]]; subst; exact I.
  - destruct (give t0 (RInput i) 0%Z [(KTok, tok_string tok)] (next s) []) as [n' ev] eqn:Hg. simpl. intros Hin.
    destruct (give_events _ _ _ _ _ _ _ _ Hg _ Hin) as [[]|[[k [r [o E]]]|[m E]]]; subst; exact I.
  - simpl. intros [H|[]]; subst; exact I.
Qed.

Lemma run_lend : forall ops s tr, Forall lend_ok tr -> Forall lend_ok (snd (run s tr ops)).
Proof.
  induction ops as [|o r IH]; simpl; intros s tr H; [assumption|].
  pose proof (step_lend s o) as Hs. destruct (step s o) as [s' ev]. simpl in Hs. apply IH.
  apply Forall_app. split; [rewrite Forall_forall; assumption|assumption].
Qed.

Lemma lend_only_pool : lend_only_pool_statement.
Proof.
  intros ops t r Hin. pose proof (run_lend ops init [] (Forall_nil _)) as H.
  rewrite Forall_forall in H. exact (H _ Hin).
Qed.
