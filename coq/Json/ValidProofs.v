(* Proofs for C05. *)
From Verif Require Import Base.GoInt Base.Lanes Base.LanesProofs Generated.AsmAsciiGen Ascii.AsmTotal Generated.AsciiGen Ascii.Spec Ascii.Proofs.
From Verif Require Import Json.Ext Generated.JsonParseGen Json.Grammar Json.Spec.
From Coq Require Import ZifyBool.
Open Scope Z_scope.

Lemma escape_index_spec : escape_index_statement.
Admitted.
Lemma internal_flags_sound : internal_flags_sound_statement.
Admitted.
Lemma parse_value_grammar : parse_value_grammar_statement.
Admitted.
Lemma valid_agrees : valid_agrees_statement.
Admitted.
Lemma valid_std : valid_std_statement.
Admitted.
