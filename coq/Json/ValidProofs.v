(* Proofs for C05. *)
From Verif Require Import Base.GoInt Base.Lanes Base.LanesProofs Generated.AsmAsciiGen Ascii.AsmTotal Generated.AsciiGen Ascii.Spec Ascii.Proofs.
From Verif Require Import Json.Ext Generated.JsonParseGen Json.Grammar Json.Spec.
From Coq Require Import ZifyBool.
Open Scope Z_scope.

(* ================= basic facts on machine integers and slices ================= *)
Local Ltac zlia := Z.div_mod_to_equations; lia.

Lemma s64_small x : - 2 ^ 63 <= x < 2 ^ 63 -> s64 x = x.
Proof.
  intros H. unfold s64, w64. cbv zeta.
  change (2 ^ 64) with 18446744073709551616 in *. change (2 ^ 63) with 9223372036854775808 in *.
  destruct (Z.ltb_spec (x mod 18446744073709551616) 9223372036854775808); zlia.
Qed.
Lemma addi64_small a b : - 2 ^ 63 <= a + b < 2 ^ 63 -> addi64 a b = a + b.
Proof. apply s64_small. Qed.
Lemma subi64_small a b : - 2 ^ 63 <= a - b < 2 ^ 63 -> subi64 a b = a - b.
Proof. apply s64_small. Qed.
Lemma divi64_8 x : 0 <= x < 2 ^ 63 -> divi64 x 8 = x / 8.
Proof.
  intros H. unfold divi64. rewrite Z.quot_div_nonneg by lia. apply s64_small.
  change (2 ^ 63) with 9223372036854775808 in *. zlia.
Qed.

Lemma len_nil {A} : len (@nil A) = 0.
Proof. reflexivity. Qed.
Lemma len_cons {A} (x : A) r : len (x :: r) = len r + 1.
Proof. unfold len. cbn [length]. lia. Qed.
Lemma len_app {A} (a b : list A) : len (a ++ b) = len a + len b.
Proof. unfold len. rewrite app_length. lia. Qed.
Lemma len_nonneg {A} (a : list A) : 0 <= len a.
Proof. unfold len. lia. Qed.
Lemma len_0_nil {A} (a : list A) : len a = 0 -> a = [].
Proof. destruct a as [|x a]; [reflexivity|]. rewrite len_cons. pose proof (len_nonneg a). lia. Qed.

Lemma sf_cons b i c r : 0 <= i -> slice_from b i = c :: r ->
  i < len b /\ at_ b i = c /\ slice_from b (i + 1) = r.
Proof.
  unfold slice_from, at_, len. intros Hi E.
  replace (Z.to_nat (i + 1)) with (S (Z.to_nat i)) by lia.
  remember (Z.to_nat i) as k eqn:Hk. assert (Hik : i = Z.of_nat k) by lia. clear Hk. subst i. clear Hi.
  revert b E. induction k as [|k IH]; intros b E.
  - cbn [skipn] in E. subst b. cbn [length nth skipn]. repeat split; lia.
  - destruct b as [|x b]; [discriminate|]. cbn [skipn] in E. destruct (IH b E) as (H1 & H2 & H3).
    cbn [length nth]. repeat split; [lia|assumption|]. exact H3.
Qed.
Lemma sf_nil (b : bytes) i : 0 <= i -> slice_from b i = [] -> len b <= i.
Proof.
  unfold slice_from, len. intros Hi E.
  assert (H : length (skipn (Z.to_nat i) b) = 0%nat) by (rewrite E; reflexivity).
  rewrite skipn_length in H. lia.
Qed.
Lemma sf_cons' b i c r : slice_from b i = c :: r -> 0 <= i ->
  i < len b /\ at_ b i = c /\ slice_from b (i + 1) = r.
Proof. intros; apply sf_cons; assumption. Qed.
Lemma sf_nil' (b : bytes) i : slice_from b i = [] -> 0 <= i -> len b <= i.
Proof. intros; apply sf_nil; assumption. Qed.
Lemma sf_len (b : bytes) i : 0 <= i <= len b -> len (slice_from b i) = len b - i.
Proof. unfold slice_from, len. intros H. rewrite skipn_length. lia. Qed.
Lemma sf_0 {A} (b : list A) : slice_from b 0 = b.
Proof. reflexivity. Qed.
Lemma sf_all {A} (b : list A) : slice_from b (len b) = [].
Proof. unfold slice_from, len. rewrite Nat2Z.id. apply skipn_all. Qed.
Lemma st_sf {A} (b : list A) i : slice_to b i ++ slice_from b i = b.
Proof. apply firstn_skipn. Qed.
Lemma sf_app {A} (p r : list A) : slice_from (p ++ r) (len p) = r.
Proof.
  unfold slice_from, len. rewrite Nat2Z.id. rewrite skipn_app, skipn_all, Nat.sub_diag. reflexivity.
Qed.
Lemma st_app {A} (p r : list A) : slice_to (p ++ r) (len p) = p.
Proof.
  unfold slice_to, len. rewrite Nat2Z.id. rewrite firstn_app, firstn_all, Nat.sub_diag. cbn [firstn].
  apply app_nil_r.
Qed.
Lemma sf_1 {A} (c : A) r : slice_from (c :: r) 1 = r.
Proof. reflexivity. Qed.
Lemma at_0 c r : at_ (c :: r) 0 = c.
Proof. reflexivity. Qed.
Lemma at_hd b i : 0 <= i -> at_ b i = hd 0 (slice_from b i).
Proof.
  intros Hi. destruct (slice_from b i) as [|c r] eqn:E.
  - apply sf_nil in E; [|assumption]. unfold at_. apply nth_overflow. unfold len in E. lia.
  - apply sf_cons in E; [|assumption]. cbn [hd]. tauto.
Qed.
Lemma wfb_sf b i : wfb b = true -> wfb (slice_from b i) = true.
Proof. apply wfb_skipn. Qed.
Lemma wfb_st b i : wfb b = true -> wfb (slice_to b i) = true.
Proof. apply wfb_firstn. Qed.

(* ================= find_index, first_index, index_byte ================= *)
Lemma find_index_le p s : (find_index p s <= length s)%nat.
Proof. induction s as [|c r IH]; cbn [find_index length]; [lia|]. destruct (p c); lia. Qed.
Lemma first_index_find p s i :
  first_index p i s = if (find_index p s <? length s)%nat then i + Z.of_nat (find_index p s) else -1.
Proof.
  revert i; induction s as [|c r IH]; intros i; cbn [first_index find_index length]; [reflexivity|].
  destruct (p c); [cbn; f_equal; lia|]. rewrite IH.
  change (S (find_index p r) <? S (length r))%nat with (find_index p r <? length r)%nat.
  destruct (find_index p r <? length r)%nat; lia.
Qed.
Definition eqc (c x : Z) : bool := x =? c.
Lemma index_byte_find s c :
  index_byte s c = if (find_index (eqc c) s <? length s)%nat then Z.of_nat (find_index (eqc c) s) else -1.
Proof.
  unfold index_byte.
  assert (G : forall s i, index_byte_from i s c = first_index (eqc c) i s).
  { clear. induction s as [|x r IH]; intros i; cbn; [reflexivity|]. rewrite IH. reflexivity. }
  rewrite G, first_index_find. reflexivity.
Qed.
Lemma find_index_app_none p a b : forallb (fun x => negb (p x)) a = true ->
  find_index p (a ++ b) = (length a + find_index p b)%nat.
Proof.
  induction a as [|x a IH]; cbn [forallb app find_index length]; [reflexivity|].
  intros H. apply andb_true_iff in H. destruct H as [H1 H2]. apply negb_true_iff in H1. rewrite H1.
  rewrite IH by assumption. reflexivity.
Qed.
Lemma find_index_app_some p a b : (find_index p a < length a)%nat ->
  find_index p (a ++ b) = find_index p a.
Proof.
  induction a as [|x a IH]; cbn [app find_index length]; [lia|].
  destruct (p x); [reflexivity|]. intros H. rewrite IH by lia. reflexivity.
Qed.
Lemma find_index_none p a : find_index p a = length a <-> forallb (fun x => negb (p x)) a = true.
Proof.
  induction a as [|x a IH]; cbn [find_index forallb length]; [tauto|].
  destruct (p x); cbn [negb andb]; [split; [lia|discriminate]|]. rewrite <- IH. lia.
Qed.
Lemma find_index_split p s : (find_index p s < length s)%nat ->
  exists c r, s = firstn (find_index p s) s ++ c :: r /\ p c = true /\
    forallb (fun x => negb (p x)) (firstn (find_index p s) s) = true.
Proof.
  induction s as [|x s IH]; cbn [find_index length]; [lia|].
  destruct (p x) eqn:E.
  - intros _. exists x, s. cbn [firstn app forallb]. auto.
  - intros H. destruct IH as (c & r & H1 & H2 & H3); [lia|]. exists c, r. cbn [firstn app forallb].
    rewrite <- H1, E, H3. auto.
Qed.

(* ================= escapeIndex ================= *)
Lemma needs_escape_same html c : LanesProofs.needs_escape html c = needs_escape_json html c.
Proof. reflexivity. Qed.

Lemma w64_wN x : w64 x = wN 8 x.
Proof. reflexivity. Qed.
Lemma json_lsb_eq : json_lsb = lsbN 8.
Proof. reflexivity. Qed.
Lemma json_msb_eq : json_msb = msbN 8.
Proof. reflexivity. Qed.

Lemma lsb_mul_small c : 0 <= c < 256 -> w64 (json_lsb * c) = lsbN 8 * c.
Proof.
  intros Hc. rewrite json_lsb_eq. apply w64_small. change (lsbN 8) with 72340172838076673.
  change (2 ^ 64) with 18446744073709551616. lia.
Qed.
Lemma json_below_eq n c : 0 <= c < 256 -> json_below n c = below_w 8 n c.
Proof.
  intros Hc. unfold json_below, json_expand, below_w, sub64, mul64.
  rewrite lsb_mul_small by assumption. reflexivity.
Qed.
Lemma json_contains_eq n c : 0 <= c < 256 -> json_contains n c = contains_w 8 n c.
Proof.
  intros Hc. unfold json_contains, json_expand, contains_w, sub64, xor64, mul64.
  rewrite lsb_mul_small by assumption. rewrite json_lsb_eq. reflexivity.
Qed.

Definition chunk_mask (n : Z) (html : bool) : Z :=
  let mask := or64 (or64 (or64 n (json_below n 32)) (json_contains n 34)) (json_contains n 92) in
  and64 (if html then or64 mask (or64 (or64 (json_contains n 60) (json_contains n 62)) (json_contains n 38)) else mask) json_msb.
Lemma chunk_mask_eq n html : chunk_mask n html = escape_mask 8 n html.
Proof.
  unfold chunk_mask, escape_mask, and64, or64. cbv zeta.
  rewrite !json_below_eq, !json_contains_eq, json_msb_eq by lia. reflexivity.
Qed.

Lemma len_chunks_fuel fuel s : (length s <= fuel)%nat ->
  len (chunks64_fuel fuel s) = len s / 8.
Proof.
  revert s; induction fuel as [|f IH]; intros s H.
  - destruct s; [reflexivity|cbn in H; lia].
  - cbn [chunks64_fuel]. destruct (Z.leb_spec 8 (len s)) as [G|G].
    + rewrite len_cons. unfold len in G. rewrite IH by (rewrite skipn_length; lia).
      unfold len. rewrite skipn_length. zlia.
    + rewrite len_nil. pose proof (len_nonneg s). zlia.
Qed.

Definition ei_tail (s : bytes) (escapeHTML : bool) : nat -> Z -> option Z :=
  fix loop2_ (f3_ : nat) (i : Z) {struct f3_} : option Z :=
    match f3_ with
    | O => None
    | S f4_ =>
      if (i <? (len s)) then
        (let c := at_ s i in
        if (((((c <? 32) || (c >? 127)) || (c =? 34)) || (c =? 92)) || (escapeHTML && (((c =? 60) || (c =? 62)) || (c =? 38)))) then
          (Some (i))
        else
          (let i := addi64 i 1 in
        loop2_ f4_ i))
      else Some (-1)
    end.
Definition ei_chunks (html : bool) (k5 : unit -> option Z) : list Z -> Z -> option Z :=
  fix loop6_ (l7_ : list Z) (i8_ : Z) {struct l7_} : option Z :=
    match l7_ with
    | [] => k5 tt
    | n :: t10_ =>
      if negb (chunk_mask n html =? 0) then Some (divi64 (ctz64 (chunk_mask n html)) 8)
      else loop6_ t10_ (i8_ + 1)
    end.
Lemma escapeIndex_eq fuel s html :
  json_escapeIndex fuel s html =
  ei_chunks html (fun _ => ei_tail s html fuel (muli64 (len (chunks64 s)) 8)) (chunks64 s) 0.
Proof.
  unfold json_escapeIndex. cbv zeta. remember (muli64 (len (chunks64 s)) 8) as i0 eqn:Ei0.
  match goal with |- ?F ?l0 0 = _ =>
    assert (G : forall l j, F l j = ei_chunks html (fun _ => ei_tail s html fuel i0) l j) end.
  { induction l as [|n t IH]; intros j.
    - reflexivity.
    - unfold ei_chunks, chunk_mask in *. destruct html; lazy beta iota fix zeta; rewrite IH; reflexivity. }
  apply G.
Qed.

Lemma needs_escape_unfold html c :
  (((((c <? 32) || (c >? 127)) || (c =? 34)) || (c =? 92)) || (html && (((c =? 60) || (c =? 62)) || (c =? 38))))
  = needs_escape_json html c.
Proof. unfold needs_escape_json. rewrite Z.gtb_ltb. reflexivity. Qed.

Lemma ei_tail_spec s html : len s < 2 ^ 62 -> forall rest i fuel, 0 <= i -> slice_from s i = rest ->
  (length rest < fuel)%nat ->
  ei_tail s html fuel i =
    if (find_index (needs_escape_json html) rest <? length rest)%nat
    then Some (i + Z.of_nat (find_index (needs_escape_json html) rest)) else Some (-1).
Proof.
  intros Hs. induction rest as [|c r IH]; intros i fuel Hi E Hf.
  - destruct fuel as [|f]; [cbn in Hf; lia|]. cbn [ei_tail]. apply sf_nil in E; [|assumption].
    destruct (Z.ltb_spec i (len s)); [lia|]. reflexivity.
  - destruct fuel as [|f]; [cbn in Hf; lia|]. cbn [ei_tail]. apply sf_cons in E; [|assumption].
    destruct E as (E1 & E2 & E3). destruct (Z.ltb_spec i (len s)); [|lia]. cbv zeta.
    rewrite needs_escape_unfold, E2. cbn [find_index length].
    destruct (needs_escape_json html c).
    + cbn. f_equal. lia.
    + rewrite addi64_small by lia. rewrite (IH (i + 1) f) by (cbn [length] in Hf; auto; lia).
      change (S (find_index (needs_escape_json html) r) <? S (length r))%nat
        with (find_index (needs_escape_json html) r <? length r)%nat.
      destruct (find_index (needs_escape_json html) r <? length r)%nat; [f_equal; lia|reflexivity].
Qed.

Lemma firstn8_length (s : bytes) : 8 <= len s -> length (firstn 8 s) = 8%nat.
Proof. unfold len. intros H. rewrite firstn_length. lia. Qed.

Lemma ei_chunks_spec s html k5 : wfb s = true ->
  forall fuel pre s' k i, s = pre ++ s' -> len pre = 8 * k -> 0 <= k ->
    forallb (fun x => negb (needs_escape_json html x)) pre = true -> (length s' <= fuel)%nat ->
    ei_chunks html k5 (chunks64_fuel fuel s') i =
      if Z.of_nat (find_index (needs_escape_json html) s) <? 8 * (len s / 8)
      then Some (Z.of_nat (find_index (needs_escape_json html) s) mod 8) else k5 tt.
Proof.
  intros Hw. induction fuel as [|f IH]; intros pre s' k i Es Hp Hk Hg Hf.
  - destruct s'; [|cbn in Hf; lia]. cbn [chunks64_fuel ei_chunks].
    rewrite app_nil_r in Es. subst pre. apply find_index_none in Hg. rewrite Hg.
    fold (len s). destruct (Z.ltb_spec (len s) (8 * (len s / 8))); [zlia|reflexivity].
  - cbn [chunks64_fuel]. destruct (Z.leb_spec 8 (len s')) as [G|G].
    + cbn [ei_chunks]. rewrite chunk_mask_eq. unfold le64. rewrite le_load_firstn.
      assert (Hw' : wfb s' = true) by (subst s; apply wfb_app in Hw; tauto).
      assert (Hw8 : wfb (firstn 8 s') = true) by (apply wfb_firstn; assumption).
      pose proof (firstn8_length s' G) as L8.
      pose proof (escape_mask_zero_iff 8 (firstn 8 s') html Hw8 L8) as Z0.
      destruct (Z.eqb_spec (escape_mask 8 (le_load 8 (firstn 8 s')) html) 0) as [E0|E0]; cbn [negb].
      * apply Z0 in E0. rewrite (IH (pre ++ firstn 8 s') (skipn 8 s') (k + 1)).
        -- reflexivity.
        -- rewrite <- app_assoc, firstn_skipn. assumption.
        -- rewrite len_app. unfold len at 2. rewrite L8. lia.
        -- lia.
        -- rewrite forallb_app, Hg. exact E0.
        -- rewrite skipn_length. unfold len in G. lia.
      * pose proof (escape_mask_index 8 (firstn 8 s') html 64 Hw8 L8 E0) as IX.
        assert (NF : (find_index (needs_escape_json html) (firstn 8 s') < 8)%nat).
        { pose proof (find_index_le (needs_escape_json html) (firstn 8 s')) as LE. rewrite L8 in LE.
          destruct (Nat.eq_dec (find_index (needs_escape_json html) (firstn 8 s')) 8) as [E8|E8]; [|lia].
          rewrite <- L8 in E8 at 2. apply find_index_none in E8. apply Z0 in E8. contradiction. }
        assert (FS : find_index (needs_escape_json html) s
                     = (length pre + find_index (needs_escape_json html) (firstn 8 s'))%nat).
        { rewrite Es. rewrite find_index_app_none by assumption. f_equal.
          rewrite <- (firstn_skipn 8 s') at 1. apply find_index_app_some. rewrite L8. assumption. }
        change (LanesProofs.needs_escape html) with (needs_escape_json html) in IX.
        unfold ctz64. rewrite divi64_8.
        2:{ assert (0 <= ctz 64 (escape_mask 8 (le_load 8 (firstn 8 s')) html) / 8 < 8) by (rewrite IX; lia).
            change (2 ^ 63) with 9223372036854775808. zlia. }
        rewrite IX, FS.
        assert (Ls : len s = 8 * k + len s') by (rewrite Es, len_app; lia).
        unfold len in Hp. destruct (Z.ltb_spec (Z.of_nat (length pre + find_index (needs_escape_json html) (firstn 8 s')))
                   (8 * (len s / 8))); [f_equal; zlia|zlia].
    + cbn [ei_chunks].
      assert (FS : find_index (needs_escape_json html) s
                     = (length pre + find_index (needs_escape_json html) s')%nat).
      { rewrite Es. apply find_index_app_none. assumption. }
      assert (Ls : len s = 8 * k + len s') by (rewrite Es, len_app; lia).
      pose proof (len_nonneg s'). unfold len in Hp. rewrite FS.
      destruct (Z.ltb_spec (Z.of_nat (length pre + find_index (needs_escape_json html) s')) (8 * (len s / 8))); [zlia|reflexivity].
Qed.

Lemma find_index_ge_firstn p s n : (n <= find_index p s)%nat ->
  forallb (fun x => negb (p x)) (firstn n s) = true.
Proof.
  revert n; induction s as [|c r IH]; intros n H.
  - rewrite firstn_nil. reflexivity.
  - destruct n as [|n]; [reflexivity|]. cbn [find_index] in H. cbn [firstn forallb].
    destruct (p c); [lia|]. cbn [negb andb]. apply IH. lia.
Qed.

Lemma escape_index_exact : forall s html fuel, wfb s = true -> len s < 2 ^ 62 -> (length s + 2 <= fuel)%nat ->
  exists r, json_escapeIndex fuel s html = Some r /\
    let fi := first_index (needs_escape_json html) 0 s in
    (fi = -1 -> r = -1) /\
    (0 <= fi -> 0 <= r <= fi /\ r = if fi <? 8 * (len s / 8) then fi mod 8 else fi).
Proof.
  intros s html fuel Hw Hl Hf. rewrite escapeIndex_eq. unfold chunks64.
  rewrite (ei_chunks_spec s html _ Hw (length s) [] s 0 0) by (auto; lia).
  rewrite len_chunks_fuel by lia. cbv zeta. rewrite first_index_find.
  set (p := needs_escape_json html). pose proof (find_index_le p s) as LE.
  pose proof (len_nonneg s) as L0.
  destruct (Z.ltb_spec (Z.of_nat (find_index p s)) (8 * (len s / 8))) as [A|A].
  - eexists; split; [reflexivity|]. assert (find_index p s < length s)%nat by (unfold len in *; zlia).
    destruct (Nat.ltb_spec (find_index p s) (length s)); [|lia]. split; [lia|]. intros _.
    rewrite Z.add_0_l. destruct (Z.ltb_spec (Z.of_nat (find_index p s)) (8 * (len s / 8))); [|lia].
    split; [zlia|reflexivity].
  - unfold muli64. rewrite s64_small by (change (2 ^ 63) with 9223372036854775808; change (2 ^ 62) with 4611686018427387904 in Hl; zlia).
    assert (Hn : (Z.to_nat (len s / 8 * 8) <= find_index p s)%nat) by zlia.
    pose proof (find_index_ge_firstn p s _ Hn) as G.
    rewrite (ei_tail_spec s html Hl (slice_from s (len s / 8 * 8)) (len s / 8 * 8) fuel); [|zlia|reflexivity|].
    2:{ unfold slice_from. rewrite skipn_length. lia. }
    assert (FS : find_index p s = (length (firstn (Z.to_nat (len s / 8 * 8)) s) + find_index p (slice_from s (len s / 8 * 8)))%nat).
    { rewrite <- (firstn_skipn (Z.to_nat (len s / 8 * 8)) s) at 1. apply find_index_app_none. exact G. }
    assert (LS : length s = (length (firstn (Z.to_nat (len s / 8 * 8)) s) + length (slice_from s (len s / 8 * 8)))%nat).
    { rewrite <- (firstn_skipn (Z.to_nat (len s / 8 * 8)) s) at 1. apply app_length. }
    assert (LF : length (firstn (Z.to_nat (len s / 8 * 8)) s) = Z.to_nat (len s / 8 * 8)).
    { rewrite firstn_length. unfold len in *. zlia. }
    fold p. destruct (Nat.ltb_spec (find_index p (slice_from s (len s / 8 * 8))) (length (slice_from s (len s / 8 * 8)))) as [B|B].
    + eexists; split; [reflexivity|]. destruct (Nat.ltb_spec (find_index p s) (length s)); [|lia].
      split; [lia|]. intros _. rewrite Z.add_0_l.
      destruct (Z.ltb_spec (Z.of_nat (find_index p s)) (8 * (len s / 8))); [lia|]. split; zlia.
    + eexists; split; [reflexivity|]. destruct (Nat.ltb_spec (find_index p s) (length s)); [lia|].
      split; [reflexivity|lia].
Qed.

(* the statement of Spec.v holds for inputs of fewer than 16 bytes (a single 8-byte chunk) *)
Lemma escape_index_spec_with_hyp : forall s html fuel, wfb s = true -> len s < 16 -> (length s + 2 <= fuel)%nat ->
  json_escapeIndex fuel s html = Some (first_index (needs_escape_json html) 0 s).
Proof.
  intros s html fuel Hw Hl Hf.
  destruct (escape_index_exact s html fuel Hw) as (r & E & H1 & H2); [lia|assumption|].
  rewrite E. f_equal. cbv zeta in H1, H2. revert H1 H2. rewrite first_index_find.
  pose proof (len_nonneg s).
  destruct (find_index (needs_escape_json html) s <? length s)%nat; intros H1 H2; [|lia].
  destruct H2 as [H2 H3]; [lia|]. rewrite H3.
  destruct (Z.ltb_spec (0 + Z.of_nat (find_index (needs_escape_json html) s)) (8 * (len s / 8))); [zlia|reflexivity].
Qed.

(* ================= white space ================= *)
Lemma is_ws_unfold c : ((c =? json_sp) || (c =? json_ht) || (c =? json_nl) || (c =? json_cr)) = is_ws c.
Proof. reflexivity. Qed.
Lemma is_ws_le c : is_ws c = true -> c <= 32.
Proof. unfold is_ws. lia. Qed.

Definition ssn_loop (b : bytes) : list Z -> Z -> bytes * Z :=
  fix loop2_ (l3_ : list Z) (i4_ : Z) {struct l3_} : bytes * Z :=
    match l3_ with
    | [] => (slice_from b (len b), len b)
    | h5_ :: t6_ =>
      if is_ws (at_ b i4_) then loop2_ t6_ (i4_ + 1) else (slice_from b i4_, i4_)
    end.
Lemma skipSpacesN_eq b : json_skipSpacesN b = ssn_loop b b 0.
Proof. reflexivity. Qed.
Lemma ssn_loop_spec b : forall rest i, 0 <= i -> slice_from b i = rest ->
  fst (ssn_loop b rest i) = skip_ws rest.
Proof.
  induction rest as [|c r IH]; intros i Hi E.
  { cbn [ssn_loop skip_ws fst]. unfold slice_from, len. rewrite Nat2Z.id. apply skipn_all. }
  cbn [ssn_loop skip_ws]. pose proof E as E'. apply sf_cons in E'; [|assumption].
  destruct E' as (E1 & E2 & E3).
  rewrite E2. destruct (is_ws c); [apply IH; [lia|assumption]|]. cbn [fst]. assumption.
Qed.
Lemma skipSpaces_spec b : json_skipSpaces b = skip_ws b.
Proof.
  unfold json_skipSpaces. cbv zeta.
  destruct (((len b) >? 0) && ((at_ b 0) <=? 32)) eqn:C.
  - rewrite skipSpacesN_eq. pose proof (ssn_loop_spec b b 0 ltac:(lia) eq_refl) as H.
    destruct (ssn_loop b b 0) as [b' z]. exact H.
  - destruct b as [|c r]; [reflexivity|]. rewrite at_0 in C. rewrite len_cons in C.
    pose proof (len_nonneg r). cbn [skip_ws]. destruct (is_ws c) eqn:W; [|reflexivity].
    apply is_ws_le in W. lia.
Qed.

Lemma skip_ws_suffix b : exists pre, b = pre ++ skip_ws b /\ forallb is_ws pre = true.
Proof.
  induction b as [|c r IH]; [exists []; auto|]. cbn [skip_ws]. destruct (is_ws c) eqn:W.
  - destruct IH as (pre & H1 & H2). exists (c :: pre). cbn [app forallb]. rewrite <- H1, W, H2. auto.
  - exists []. auto.
Qed.
Lemma skip_ws_length b : (length (skip_ws b) <= length b)%nat.
Proof. destruct (skip_ws_suffix b) as (pre & H & _). rewrite H at 2. rewrite app_length. lia. Qed.
Lemma skip_ws_head b c r : skip_ws b = c :: r -> is_ws c = false.
Proof.
  induction b as [|x b IH]; cbn [skip_ws]; [discriminate|]. destruct (is_ws x) eqn:W; [assumption|].
  intros E. injection E as E1 E2. subst. assumption.
Qed.
Lemma skip_ws_idem b : skip_ws (skip_ws b) = skip_ws b.
Proof.
  destruct (skip_ws b) as [|c r] eqn:E; [reflexivity|]. apply skip_ws_head in E. cbn [skip_ws]. rewrite E. reflexivity.
Qed.

(* ================= matches on byte literals in the grammar, as boolean tests ================= *)
(* Coq compiles [match c with 34 => .. | _ => ..] into a tree over the binary digits of c:
   the equations below are proved by walking that tree (7 levels cover all constants < 128) *)
Local Tactic Notation "zdeep" ident(c) :=
  destruct c as [|c|c];
  [ | do 7 (try (destruct c as [c|c|])) | ].

Lemma g_string_eq c r : g_string (c :: r) =
  if c =? 34 then Some r
  else if c =? 92 then
    match r with
    | [] => None
    | e :: r =>
      if is_escape_letter e then g_string r
      else if e =? 117 then
        match r with
        | h1 :: h2 :: h3 :: h4 :: r' => if is_hex h1 && is_hex h2 && is_hex h3 && is_hex h4 then g_string r' else None
        | _ => None
        end
      else None
    end
  else if c <? 32 then None else g_string r.
Proof. zdeep c; try reflexivity; destruct r; reflexivity. Qed.

Lemma g_frac_eq b : g_frac b =
  match b with
  | [] => Some []
  | c :: r => if c =? 46 then match r with [] => None | d :: r' => if is_digit d then Some (skip_digits r') else None end
              else Some (c :: r)
  end.
Proof. destruct b as [|c r]; [reflexivity|]. zdeep c; try reflexivity; destruct r; reflexivity. Qed.

Definition g_number_body (b : bytes) : option bytes :=
  match b with
  | [] => None
  | c :: r => if c =? 48 then match g_frac r with Some r => g_exp r | None => None end
              else if is_digit c then match g_frac (skip_digits r) with Some r => g_exp r | None => None end else None
  end.
Lemma g_number_eq b : g_number b =
  g_number_body (match b with [] => b | c :: r => if c =? 45 then r else b end).
Proof.
  assert (B : forall b, match b with
    | 48 :: r => match g_frac r with Some r => g_exp r | None => None end
    | c :: r => if is_digit c then match g_frac (skip_digits r) with Some r => g_exp r | None => None end else None
    | [] => None end = g_number_body b).
  { clear. intros [|c r]; [reflexivity|]. zdeep c; reflexivity. }
  unfold g_number. rewrite B. destruct b as [|c r]; [reflexivity|]. zdeep c; reflexivity.
Qed.

Fixpoint strip_prefix (p b : bytes) : option bytes :=
  match p with
  | [] => Some b
  | x :: p' => match b with [] => None | y :: b' => if y =? x then strip_prefix p' b' else None end
  end.
Lemma strip_prefix_app p : forall b r, strip_prefix p b = Some r -> b = p ++ r.
Proof.
  induction p as [|x p IH]; intros b r H; cbn [strip_prefix] in H.
  - injection H as H. subst. reflexivity.
  - destruct b as [|y b]; [discriminate|]. destruct (Z.eqb_spec y x); [|discriminate]. subst y.
    cbn [app]. f_equal. apply IH. assumption.
Qed.
Lemma has_prefix_strip p : forall b,
  ((len b >=? len p) && bytes_eqb (slice_to b (len p)) p) = match strip_prefix p b with Some _ => true | None => false end.
Proof.
  induction p as [|x p IH]; intros b.
  - cbn [strip_prefix]. rewrite len_nil. pose proof (len_nonneg b). unfold slice_to. cbn.
    destruct (Z.geb_spec (len b) 0); [reflexivity|lia].
  - cbn [strip_prefix]. destruct b as [|y b].
    + rewrite len_nil, len_cons. pose proof (len_nonneg p). destruct (Z.geb_spec 0 (len p + 1)); [lia|reflexivity].
    + rewrite !len_cons. unfold slice_to. replace (Z.to_nat (len p + 1)) with (S (Z.to_nat (len p))) by (pose proof (len_nonneg p); lia).
      cbn [firstn bytes_eqb]. fold (slice_to b (len p)).
      destruct (y =? x); [|apply andb_false_r]. rewrite <- IH. cbn [andb].
      destruct (Z.geb_spec (len b + 1) (len p + 1)), (Z.geb_spec (len b) (len p)); try lia; reflexivity.
Qed.

Lemma g_value_nil f : g_value f [] = None.
Proof. destruct f; reflexivity. Qed.
Lemma g_value_null f r : g_value (S f) (110 :: r) = strip_prefix [117; 108; 108] r.
Proof.
  destruct r as [|c r]; [reflexivity|]. zdeep c; try reflexivity.
  destruct r as [|c r]; [reflexivity|]. zdeep c; try reflexivity.
  destruct r as [|c r]; [reflexivity|]. zdeep c; reflexivity.
Qed.
Lemma g_value_true f r : g_value (S f) (116 :: r) = strip_prefix [114; 117; 101] r.
Proof.
  destruct r as [|c r]; [reflexivity|]. zdeep c; try reflexivity.
  destruct r as [|c r]; [reflexivity|]. zdeep c; try reflexivity.
  destruct r as [|c r]; [reflexivity|]. zdeep c; reflexivity.
Qed.
Lemma g_value_false f r : g_value (S f) (102 :: r) = strip_prefix [97; 108; 115; 101] r.
Proof.
  destruct r as [|c r]; [reflexivity|]. zdeep c; try reflexivity.
  destruct r as [|c r]; [reflexivity|]. zdeep c; try reflexivity.
  destruct r as [|c r]; [reflexivity|]. zdeep c; try reflexivity.
  destruct r as [|c r]; [reflexivity|]. zdeep c; reflexivity.
Qed.
Lemma g_value_string f r : g_value (S f) (34 :: r) = g_string r.
Proof. reflexivity. Qed.

Definition g_elems (f : nat) : nat -> bytes -> option bytes :=
  fix elems (n : nat) (b : bytes) {struct n} : option bytes :=
    match n with
    | O => None
    | S n' =>
        match g_value f b with
        | None => None
        | Some r =>
            match skip_ws r with
            | 44 :: r' => elems n' (skip_ws r')
            | 93 :: r' => Some r'
            | _ => None
            end
        end
    end.
Definition g_after_elem (f n' : nat) (r : bytes) : option bytes :=
  match skip_ws r with
  | [] => None
  | c :: r' => if c =? 44 then g_elems f n' (skip_ws r') else if c =? 93 then Some r' else None
  end.
Lemma g_elems_eq f n' b : g_elems f (S n') b =
  match g_value f b with None => None | Some r => g_after_elem f n' r end.
Proof.
  cbn [g_elems]. destruct (g_value f b) as [r|]; [|reflexivity]. unfold g_after_elem.
  destruct (skip_ws r) as [|c r']; [reflexivity|]. zdeep c; reflexivity.
Qed.
Lemma g_value_array f r : g_value (S f) (91 :: r) =
  match skip_ws r with
  | [] => g_elems f f []
  | c :: r' => if c =? 93 then Some r' else g_elems f f (c :: r')
  end.
Proof.
  change (g_value (S f) (91 :: r)) with
    (match skip_ws r with 93 :: r' => Some r' | r1 => g_elems f f r1 end).
  destruct (skip_ws r) as [|c r']; [reflexivity|]. zdeep c; reflexivity.
Qed.

Definition g_members (f : nat) : nat -> bytes -> option bytes :=
  fix members (n : nat) (b : bytes) {struct n} : option bytes :=
    match n with
    | O => None
    | S n' =>
        match b with
        | 34 :: k =>
            match g_string k with
            | None => None
            | Some r =>
                match skip_ws r with
                | 58 :: r' =>
                    match g_value f (skip_ws r') with
                    | None => None
                    | Some r =>
                        match skip_ws r with
                        | 44 :: r' => members n' (skip_ws r')
                        | 125 :: r' => Some r'
                        | _ => None
                        end
                    end
                | _ => None
                end
            end
        | _ => None
        end
    end.
Definition g_str_tok (b : bytes) : option bytes :=
  match b with [] => None | c :: k => if c =? 34 then g_string k else None end.
Definition g_after_member (f n' : nat) (r : bytes) : option bytes :=
  match skip_ws r with
  | [] => None
  | c :: r' => if c =? 44 then g_members f n' (skip_ws r') else if c =? 125 then Some r' else None
  end.
Definition g_after_key (f n' : nat) (r : bytes) : option bytes :=
  match skip_ws r with
  | [] => None
  | c :: r' => if c =? 58 then
                 match g_value f (skip_ws r') with None => None | Some r => g_after_member f n' r end
               else None
  end.
Lemma g_members_eq f n' b : g_members f (S n') b =
  match g_str_tok b with None => None | Some r => g_after_key f n' r end.
Proof.
  cbn [g_members]. unfold g_str_tok. destruct b as [|c k]; [reflexivity|].
  assert (A : forall r, match skip_ws r with
                        | 44 :: r' => g_members f n' (skip_ws r')
                        | 125 :: r' => Some r'
                        | _ => None
                        end = g_after_member f n' r).
  { intros r. unfold g_after_member. destruct (skip_ws r) as [|x r']; [reflexivity|]. zdeep x; reflexivity. }
  assert (B : forall r, match skip_ws r with
                | 58 :: r' =>
                    match g_value f (skip_ws r') with
                    | None => None
                    | Some r => g_after_member f n' r
                    end
                | _ => None
                end = g_after_key f n' r).
  { intros r. unfold g_after_key. destruct (skip_ws r) as [|x r']; [reflexivity|]. zdeep x; reflexivity. }
  zdeep c; try reflexivity. cbv beta iota delta [Z.eqb Pos.eqb].
  destruct (g_string k) as [r|]; [|reflexivity]. rewrite <- B.
  destruct (skip_ws r) as [|x r']; [reflexivity|]. zdeep x; try reflexivity.
  destruct (g_value f (skip_ws r')) as [r2|]; [|reflexivity]. apply A.
Qed.
Lemma g_value_object f r : g_value (S f) (123 :: r) =
  match skip_ws r with
  | [] => g_members f f []
  | c :: r' => if c =? 125 then Some r' else g_members f f (c :: r')
  end.
Proof.
  change (g_value (S f) (123 :: r)) with
    (match skip_ws r with 125 :: r' => Some r' | r1 => g_members f f r1 end).
  destruct (skip_ws r) as [|c r']; [reflexivity|]. zdeep c; reflexivity.
Qed.
Lemma g_value_other f c r :
  (c =? 123) || (c =? 91) || (c =? 34) || (c =? 110) || (c =? 116) || (c =? 102) = false ->
  g_value (S f) (c :: r) = g_number (c :: r).
Proof. zdeep c; try reflexivity; intros H; discriminate H. Qed.

(* ================= parseNumber ================= *)
Local Notation PR := (option (bytes * bytes * Z * option json_err)).

Definition pn_loop3 (b v r : bytes) (kind exponentStart : Z) (k2_ : option json_err -> Z -> PR) : nat -> option json_err -> Z -> PR :=
  fix loop3_ (f4_ : nat) (err : (option json_err)) (i : Z) {struct f4_} : PR :=
    match f4_ with
    | O => None
    | S f5_ =>
      if (i <? (len b)) then
        (let c := at_ b i in
      if ((48 >? c) || (c >? 57)) then
        (if (i =? exponentStart) then
          (let err := (Some JErrSyntax) in
          Some ((v, r, kind, err)))
        else
          (k2_ err i))
      else
        (let i := addi64 i 1 in
        loop3_ f5_ err i))
      else k2_ err i
    end.
Definition pn_loop9 (b v : bytes) (kind decimalStart : Z) (k8_ : bytes -> option json_err -> Z -> PR) : nat -> bytes -> option json_err -> Z -> PR :=
  fix loop9_ (f10_ : nat) (r : bytes) (err : (option json_err)) (i : Z) {struct f10_} : PR :=
    match f10_ with
    | O => None
    | S f11_ =>
      if (i <? (len b)) then
        (let c_2 := at_ b i in
      if ((48 >? c_2) || (c_2 >? 57)) then
        (if (i =? decimalStart) then
          (let '(r, err) := (slice_from b i, (Some JErrSyntax)) in
          Some ((v, r, kind, err)))
        else
          (k8_ r err i))
      else
        (let i := addi64 i 1 in
        loop9_ f11_ r err i))
      else k8_ r err i
    end.
Definition pn_loop13 (b : bytes) (k12_ : Z -> PR) : nat -> Z -> PR :=
  fix loop13_ (f14_ : nat) (i : Z) {struct f14_} : PR :=
    match f14_ with
    | O => None
    | S f15_ =>
      if (((i <? (len b)) && (48 <=? (at_ b i))) && ((at_ b i) <=? 57)) then
        (let i := addi64 i 1 in
      loop13_ f15_ i)
      else k12_ i
    end.
Definition pn_k1 (b : bytes) (r : bytes) (kind : Z) (err : option json_err) (i : Z) : PR :=
  let '(v, r) := (slice_to b i, slice_from b i) in Some ((v, r, kind, err)).
Definition pn_k6 (b v r : bytes) (kind : Z) (err : option json_err) (fuel : nat) (i : Z) : PR :=
  if (i =? (len b)) then
    (let '(r, err) := (slice_from b i, (Some JErrSyntax)) in
    Some ((v, r, kind, err)))
  else
    (let exponentStart := i in
    pn_loop3 b v r kind exponentStart (fun (err : option json_err) (i : Z) => pn_k1 b r kind err i) fuel err i).
Definition pn_k7 (b v : bytes) (fuel : nat) (r : bytes) (kind : Z) (err : option json_err) (i : Z) : PR :=
  if ((i <? (len b)) && (((at_ b i) =? 101) || ((at_ b i) =? 69))) then
    (let kind := json_Float in
    let i := addi64 i 1 in
    if (i <? (len b)) then
      (let c_1 := at_ b i in
      if ((c_1 =? 43) || (c_1 =? 45)) then
        (let i := addi64 i 1 in
        pn_k6 b v r kind err fuel i)
      else
        (pn_k6 b v r kind err fuel i))
    else
      (pn_k6 b v r kind err fuel i))
  else
    (pn_k1 b r kind err i).
Definition pn_k12 (b v r : bytes) (err : option json_err) (fuel : nat) (kind : Z) (i : Z) : PR :=
  if ((i <? (len b)) && ((at_ b i) =? 46)) then
    (let kind := json_Float in
    let i := addi64 i 1 in
    let decimalStart := i in
    let k8_ := fun (r : bytes) (err : (option json_err)) (i : Z) =>
      if (i =? decimalStart) then
        (let '(r, err) := (slice_from b i, (Some JErrSyntax)) in
        Some ((v, r, kind, err)))
      else
        (pn_k7 b v fuel r kind err i) in
    pn_loop9 b v kind decimalStart k8_ fuel r err i)
  else
    (pn_k7 b v fuel r kind err i).
Definition pn_k16 (b : bytes) (fuel : nat) (kind : Z) (v r : bytes) (err : option json_err) (i : Z) : PR :=
  pn_loop13 b (pn_k12 b v r err fuel kind) fuel i.
Definition pn_k17 (b : bytes) (fuel : nat) (v r : bytes) (err : option json_err) (kind : Z) (i : Z) : PR :=
  if (i =? (len b)) then
    (let '(r, err) := (slice_from b i, (Some JErrSyntax)) in
    Some ((v, r, kind, err)))
  else
    (if (((at_ b i) <? 48) || ((at_ b i) >? 57)) then
      (let '(r, err) := (slice_from b i, (Some JErrSyntax)) in
      Some ((v, r, kind, err)))
    else
      (if ((at_ b i) =? 48) then
        (let i := addi64 i 1 in
        if ((i =? (len b)) || (((negb ((at_ b i) =? 46)) && (negb ((at_ b i) =? 101))) && (negb ((at_ b i) =? 69)))) then
          (let '(v, r) := (slice_to b i, slice_from b i) in
          Some ((v, r, kind, err)))
        else
          (if ((48 <=? (at_ b i)) && ((at_ b i) <=? 57)) then
            (let '(r, err) := (slice_from b i, (Some JErrSyntax)) in
            Some ((v, r, kind, err)))
          else
            (pn_k16 b fuel kind v r err i)))
      else
        (pn_k16 b fuel kind v r err i))).
Lemma parseNumber_eq fuel d b : json_decoder_parseNumber fuel d b =
  if ((len b) =? 0) then Some (([], b, 0, Some JErrUnexpectedEOF))
  else if ((at_ b 0) =? 45) then pn_k17 b fuel [] [] None json_Int (addi64 0 1)
  else pn_k17 b fuel [] [] None json_Uint 0.
Proof. reflexivity. Qed.

Definition pn_scan (b : bytes) (start : Z) (E : Z -> PR) (k : Z -> PR) : nat -> Z -> PR :=
  fix loop (f : nat) (i : Z) {struct f} : PR :=
    match f with
    | O => None
    | S f' =>
      if i <? len b then
        if negb (is_digit (at_ b i)) then (if i =? start then E i else k i)
        else loop f' (addi64 i 1)
      else k i
    end.
Lemma nondigit_gtb c : ((48 >? c) || (c >? 57)) = negb (is_digit c).
Proof.
  unfold is_digit. rewrite !Z.gtb_ltb.
  destruct (Z.ltb_spec c 48), (Z.ltb_spec 57 c), (Z.leb_spec 48 c), (Z.leb_spec c 57); try lia; reflexivity.
Qed.
Lemma nondigit_ltb c : ((c <? 48) || (c >? 57)) = negb (is_digit c).
Proof.
  unfold is_digit. rewrite !Z.gtb_ltb.
  destruct (Z.ltb_spec c 48), (Z.ltb_spec 57 c), (Z.leb_spec 48 c), (Z.leb_spec c 57); try lia; reflexivity.
Qed.
Lemma pn_loop3_scan b v r kind start k2 fuel err : forall i,
  pn_loop3 b v r kind start k2 fuel err i =
  pn_scan b start (fun _ => Some (v, r, kind, Some JErrSyntax)) (k2 err) fuel i.
Proof.
  induction fuel as [|f IH]; intros i; [reflexivity|]. cbn [pn_loop3 pn_scan]. cbv zeta.
  rewrite nondigit_gtb, IH. reflexivity.
Qed.
Lemma pn_loop9_scan b v kind start k8 fuel r err : forall i,
  pn_loop9 b v kind start k8 fuel r err i =
  pn_scan b start (fun i => Some (v, slice_from b i, kind, Some JErrSyntax)) (k8 r err) fuel i.
Proof.
  induction fuel as [|f IH]; intros i; [reflexivity|]. cbn [pn_loop9 pn_scan]. cbv zeta.
  rewrite nondigit_gtb, IH. reflexivity.
Qed.

Lemma skip_digits_length r : (length (skip_digits r) <= length r)%nat.
Proof. induction r as [|c r IH]; cbn [skip_digits length]; [lia|]. destruct (is_digit c); cbn [length]; lia. Qed.

Lemma pn_scan_spec b start E k : len b < 2 ^ 62 ->
  forall rest i fuel, 0 <= start <= i /\ i <= len b -> slice_from b i = rest -> (length rest < fuel)%nat ->
    (i = start -> exists d r', rest = d :: r' /\ is_digit d = true) ->
    exists j, i <= j <= len b /\ (i = start -> start < j) /\ slice_from b j = skip_digits rest /\
      pn_scan b start E k fuel i = k j.
Proof.
  intros Hb. induction rest as [|c r IH]; intros i fuel Hi E0 Hf Hs.
  - destruct fuel as [|f]; [cbn in Hf; lia|]. cbn [pn_scan]. pose proof (sf_nil' _ _ E0 ltac:(lia)).
    destruct (Z.ltb_spec i (len b)); [lia|].
    assert (i <> start) by (intros X; destruct (Hs X) as (d & r' & X1 & _); discriminate).
    exists i. repeat split; try lia. assumption.
  - destruct fuel as [|f]; [cbn in Hf; lia|]. cbn [pn_scan]. pose proof (sf_cons' _ _ _ _ E0 ltac:(lia)) as (E1 & E2 & E3).
    destruct (Z.ltb_spec i (len b)); [|lia]. rewrite E2. cbn [skip_digits].
    destruct (is_digit c) eqn:D; cbn [negb].
    + rewrite addi64_small by lia.
      destruct (IH (i + 1) f) as (j & J1 & J2 & J3 & J4); [lia|assumption|cbn [length] in Hf; lia|lia|].
      exists j. repeat split; try lia; assumption.
    + assert (i <> start).
      { intros X; destruct (Hs X) as (d & r' & X1 & X2). injection X1 as X1 X3. subst d. congruence. }
      destruct (Z.eqb_spec i start); [contradiction|]. exists i. repeat split; try lia. assumption.
Qed.
Lemma pn_scan_fail b start E k fuel rest : 0 <= start -> slice_from b start = rest ->
  match rest with [] => True | d :: _ => is_digit d = false end ->
  pn_scan b start E k (S fuel) start = match rest with [] => k start | _ => E start end.
Proof.
  intros Hs E0 Hd. cbn [pn_scan]. destruct rest as [|c r].
  - pose proof (sf_nil _ _ Hs E0). destruct (Z.ltb_spec start (len b)); [lia|]. reflexivity.
  - pose proof (sf_cons _ _ _ _ Hs E0) as (E1 & E2 & E3). destruct (Z.ltb_spec start (len b)); [|lia].
    rewrite E2, Hd. cbn [negb]. rewrite Z.eqb_refl. reflexivity.
Qed.

Definition ok_at (b : bytes) (G : option bytes) (res : PR) : Prop :=
  exists v r k e, res = Some (v, r, k, e) /\
    (e = None -> G = Some r /\ exists j, 0 < j <= len b /\ v = slice_to b j /\ r = slice_from b j) /\
    (e <> None -> G = None).
Lemma ok_at_err b v r k e : ok_at b None (Some (v, r, k, Some e)).
Proof. exists v, r, k, (Some e). split; [reflexivity|]. split; [discriminate|reflexivity]. Qed.
Lemma ok_at_ok b i k : 0 < i <= len b -> ok_at b (Some (slice_from b i)) (Some (slice_to b i, slice_from b i, k, None)).
Proof.
  intros H. exists (slice_to b i), (slice_from b i), k, None. split; [reflexivity|]. split; [|congruence].
  intros _. split; [reflexivity|]. exists i. auto.
Qed.

Definition g_digits1 (rest : bytes) : option bytes :=
  match rest with d :: r' => if is_digit d then Some (skip_digits r') else None | [] => None end.

Lemma sf_le (b : bytes) i rest : 0 <= i -> slice_from b i = rest -> rest <> [] -> i < len b.
Proof.
  intros Hi E N. destruct rest as [|c r]; [congruence|]. apply sf_cons in E; [tauto|assumption].
Qed.

Lemma pn_k6_spec b kind fuel i rest : len b < 2 ^ 62 -> (length b < fuel)%nat ->
  0 < i <= len b -> slice_from b i = rest ->
  ok_at b (g_digits1 rest) (pn_k6 b [] [] kind None fuel i).
Proof.
  intros Hb Hf Hi E. unfold pn_k6. destruct (Z.eqb_spec i (len b)) as [X|X].
  - subst i. rewrite sf_all in E. subst rest. apply ok_at_err.
  - cbv zeta. rewrite pn_loop3_scan.
    assert (Lr : (length rest <= length b)%nat).
    { subst rest. unfold slice_from. rewrite skipn_length. lia. }
    destruct rest as [|c r].
    { apply sf_nil in E; lia. }
    cbn [g_digits1]. destruct (is_digit c) eqn:D.
    + match goal with |- context [pn_scan b ?s ?EE ?kk fuel _] =>
        destruct (pn_scan_spec b s EE kk Hb (c :: r) i fuel) as (j & J1 & J2 & J3 & J4) end;
        [lia|assumption|lia|intros _; exists c, r; auto|].
      rewrite J4. unfold pn_k1. cbn [skip_digits] in J3. rewrite D in J3. rewrite <- J3.
      apply ok_at_ok. lia.
    + destruct fuel as [|f]; [lia|].
      rewrite (pn_scan_fail b i _ _ f (c :: r)); [|lia|assumption|assumption]. apply ok_at_err.
Qed.

Lemma pn_k7_spec b kind fuel i rest : len b < 2 ^ 62 -> (length b < fuel)%nat ->
  0 < i <= len b -> slice_from b i = rest ->
  ok_at b (g_exp rest) (pn_k7 b [] fuel [] kind None i).
Proof.
  intros Hb Hf Hi E. unfold pn_k7. destruct rest as [|e r].
  - pose proof (sf_nil' _ _ E ltac:(lia)). destruct (Z.ltb_spec i (len b)); [lia|]. cbn [andb g_exp].
    unfold pn_k1. rewrite <- E. apply ok_at_ok. lia.
  - pose proof (sf_cons' _ _ _ _ E ltac:(lia)) as (E1 & E2 & E3).
    destruct (Z.ltb_spec i (len b)); [|lia]. rewrite E2. cbn [andb g_exp].
    destruct ((e =? 101) || (e =? 69)).
    + cbv zeta. rewrite addi64_small by lia.
      destruct r as [|s r'].
      * pose proof (sf_nil' _ _ E3 ltac:(lia)). destruct (Z.ltb_spec (i + 1) (len b)); [lia|].
        apply (pn_k6_spec b json_Float fuel (i + 1) []); auto; lia.
      * pose proof (sf_cons' _ _ _ _ E3 ltac:(lia)) as (F1 & F2 & F3).
        destruct (Z.ltb_spec (i + 1) (len b)); [|lia]. rewrite F2.
        destruct ((s =? 43) || (s =? 45)).
        -- rewrite addi64_small by lia. apply (pn_k6_spec b json_Float fuel (i + 1 + 1) r'); auto; lia.
        -- apply (pn_k6_spec b json_Float fuel (i + 1) (s :: r')); auto; lia.
    + unfold pn_k1. rewrite <- E. apply ok_at_ok. lia.
Qed.

Lemma pn_k12_spec b kind fuel i rest : len b < 2 ^ 62 -> (length b < fuel)%nat ->
  0 < i <= len b -> slice_from b i = rest ->
  ok_at b (match g_frac rest with Some r => g_exp r | None => None end) (pn_k12 b [] [] None fuel kind i).
Proof.
  intros Hb Hf Hi E. unfold pn_k12. rewrite g_frac_eq. destruct rest as [|c r].
  - pose proof (sf_nil' _ _ E ltac:(lia)). destruct (Z.ltb_spec i (len b)); [lia|]. cbn [andb].
    apply pn_k7_spec; auto.
  - pose proof (sf_cons' _ _ _ _ E ltac:(lia)) as (E1 & E2 & E3).
    destruct (Z.ltb_spec i (len b)); [|lia]. rewrite E2. cbn [andb].
    destruct (c =? 46); [|apply pn_k7_spec; auto].
    cbv zeta. rewrite addi64_small by lia. rewrite pn_loop9_scan.
    assert (Lr : (length r <= length b)%nat).
    { rewrite <- E3. unfold slice_from. rewrite skipn_length. lia. }
    destruct r as [|d r'].
    + destruct fuel as [|f]; [lia|]. rewrite (pn_scan_fail b (i + 1) _ _ f []); [|lia|assumption|exact I].
      rewrite Z.eqb_refl. apply ok_at_err.
    + destruct (is_digit d) eqn:D.
      * match goal with |- context [pn_scan b ?s ?EE ?kk fuel _] =>
          destruct (pn_scan_spec b s EE kk Hb (d :: r') (i + 1) fuel) as (j & J1 & J2 & J3 & J4) end;
          [lia|assumption|lia|intros _; exists d, r'; auto|].
        rewrite J4. destruct (Z.eqb_spec j (i + 1)); [lia|]. cbn [skip_digits] in J3. rewrite D in J3.
        apply pn_k7_spec; auto. lia.
      * destruct fuel as [|f]; [lia|]. rewrite (pn_scan_fail b (i + 1) _ _ f (d :: r')); [|lia|assumption|assumption].
        apply ok_at_err.
Qed.

Lemma pn_loop13_spec b k12 : len b < 2 ^ 62 ->
  forall rest i fuel, 0 <= i <= len b -> slice_from b i = rest -> (length rest < fuel)%nat ->
    exists j, i <= j <= len b /\ (match rest with d :: _ => is_digit d = true | [] => False end -> i < j) /\
      slice_from b j = skip_digits rest /\ pn_loop13 b k12 fuel i = k12 j.
Proof.
  intros Hb. induction rest as [|c r IH]; intros i fuel Hi E0 Hf.
  - destruct fuel as [|f]; [cbn in Hf; lia|]. cbn [pn_loop13]. pose proof (sf_nil' _ _ E0 ltac:(lia)).
    destruct (Z.ltb_spec i (len b)); [lia|]. cbn [andb].
    exists i. repeat split; try lia; try tauto; try assumption.
  - destruct fuel as [|f]; [cbn in Hf; lia|]. cbn [pn_loop13]. pose proof (sf_cons' _ _ _ _ E0 ltac:(lia)) as (E1 & E2 & E3).
    destruct (Z.ltb_spec i (len b)); [|lia]. rewrite E2. cbn [andb skip_digits].
    change ((48 <=? c) && (c <=? 57)) with (is_digit c).
    destruct (is_digit c) eqn:D.
    + cbv zeta. rewrite addi64_small by lia.
      destruct (IH (i + 1) f) as (j & J1 & J2 & J3 & J4); [lia|assumption|cbn [length] in Hf; lia|].
      exists j. repeat split; try lia; assumption.
    + exists i. repeat split; try lia; try assumption; try (intros X; discriminate).
Qed.

Lemma pn_k16_spec b kind fuel i rest : len b < 2 ^ 62 -> (length b < fuel)%nat ->
  0 <= i <= len b -> slice_from b i = rest ->
  (0 < i \/ match rest with d :: _ => is_digit d = true | [] => False end) ->
  ok_at b (match g_frac (skip_digits rest) with Some r => g_exp r | None => None end)
    (pn_k16 b fuel kind [] [] None i).
Proof.
  intros Hb Hf Hi E Hd. unfold pn_k16.
  assert (Lr : (length rest <= length b)%nat).
  { subst rest. unfold slice_from. rewrite skipn_length. lia. }
  destruct (pn_loop13_spec b (pn_k12 b [] [] None fuel kind) Hb rest i fuel) as (j & J1 & J2 & J3 & J4);
    [lia|assumption|lia|].
  rewrite J4. apply pn_k12_spec; auto. destruct Hd as [Hd|Hd]; [lia|]. apply J2 in Hd. lia.
Qed.

Lemma pn_k17_spec b kind fuel i rest : len b < 2 ^ 62 -> (length b < fuel)%nat ->
  0 <= i <= len b -> slice_from b i = rest ->
  ok_at b (g_number_body rest) (pn_k17 b fuel [] [] None kind i).
Proof.
  intros Hb Hf Hi E. unfold pn_k17. destruct rest as [|c r].
  - pose proof (sf_nil' _ _ E ltac:(lia)). destruct (Z.eqb_spec i (len b)); [|lia]. apply ok_at_err.
  - pose proof (sf_cons' _ _ _ _ E ltac:(lia)) as (E1 & E2 & E3).
    destruct (Z.eqb_spec i (len b)); [lia|]. rewrite E2, nondigit_ltb. clear E2. cbn [g_number_body].
    destruct (Z.eqb_spec c 48) as [C0|C0].
    + subst c. cbn [is_digit negb]. change (negb (is_digit 48)) with false. cbv iota. cbv zeta.
      rewrite addi64_small by lia. rewrite g_frac_eq.
      destruct r as [|x r'].
      * pose proof (sf_nil' _ _ E3 ltac:(lia)). destruct (Z.eqb_spec (i + 1) (len b)); [|lia]. cbn [orb].
        change (g_exp []) with (Some (@nil Z)). rewrite <- E3. apply ok_at_ok. lia.
      * pose proof (sf_cons' _ _ _ _ E3 ltac:(lia)) as (F1 & F2 & F3).
        destruct (Z.eqb_spec (i + 1) (len b)); [lia|]. cbn [orb]. rewrite F2. clear F2.
        destruct (Z.eqb_spec x 46) as [X1|X1].
        -- subst x. cbn [negb andb]. change ((48 <=? 46) && (46 <=? 57)) with false. cbv iota.
           pose proof (pn_k16_spec b kind fuel (i + 1) (46 :: r') Hb Hf ltac:(lia) E3 ltac:(lia)) as K.
           cbn [skip_digits] in K. change (is_digit 46) with false in K. cbv iota in K.
           rewrite g_frac_eq in K. exact K.
        -- cbn [negb andb]. destruct (Z.eqb_spec x 101) as [X2|X2].
           ++ subst x. cbn [negb andb]. change ((48 <=? 101) && (101 <=? 57)) with false. cbv iota.
              pose proof (pn_k16_spec b kind fuel (i + 1) (101 :: r') Hb Hf ltac:(lia) E3 ltac:(lia)) as K.
              cbn [skip_digits] in K. change (is_digit 101) with false in K. cbv iota in K.
              rewrite g_frac_eq in K. exact K.
           ++ cbn [negb andb]. destruct (Z.eqb_spec x 69) as [X3|X3].
              ** subst x. cbn [negb]. change ((48 <=? 69) && (69 <=? 57)) with false. cbv iota.
                 pose proof (pn_k16_spec b kind fuel (i + 1) (69 :: r') Hb Hf ltac:(lia) E3 ltac:(lia)) as K.
                 cbn [skip_digits] in K. change (is_digit 69) with false in K. cbv iota in K.
                 rewrite g_frac_eq in K. exact K.
              ** cbn [negb].
                 assert (GE : g_exp (x :: r') = Some (x :: r')).
                 { unfold g_exp. destruct (Z.eqb_spec x 101); [lia|]. destruct (Z.eqb_spec x 69); [lia|]. reflexivity. }
                 rewrite GE, <- E3. apply ok_at_ok. lia.
    + destruct (is_digit c) eqn:D; cbn [negb].
      * pose proof (pn_k16_spec b kind fuel i (c :: r) Hb Hf Hi E) as K.
        cbn [skip_digits] in K. rewrite D in K. apply K. right. reflexivity.
      * apply ok_at_err.
Qed.

Lemma parseNumber_spec fuel d b : len b < 2 ^ 62 -> (length b < fuel)%nat ->
  ok_at b (g_number b) (json_decoder_parseNumber fuel d b).
Proof.
  intros Hb Hf. rewrite parseNumber_eq, g_number_eq. destruct b as [|c r].
  - cbn. apply ok_at_err.
  - rewrite len_cons, at_0. pose proof (len_nonneg r). destruct (Z.eqb_spec (len r + 1) 0); [lia|].
    destruct (c =? 45).
    + rewrite addi64_small by (cbn; lia). apply pn_k17_spec; auto. rewrite len_cons. lia.
    + apply pn_k17_spec; auto. rewrite len_cons. lia.
Qed.

(* ================= parseUintHex / parseUnicode on four bytes ================= *)
Definition hex_loop (b : bytes) : list Z -> Z -> Z -> Z -> Z * bytes * option json_err :=
  fix loop2_ (l3_ : list Z) (i4_ : Z) (value : Z) (count : Z) {struct l3_} : (Z * bytes * (option json_err)) :=
    match l3_ with
    | [] => (value, slice_from b count, None)
    | h5_ :: t6_ =>
      let c := h5_ in
      let i := i4_ in
      let x : Z := 0 in
      let k7_ := fun (x : Z) =>
        if (value >? 1152921504606846975) then
          ((0, b, (Some JErrSyntax)))
        else
          (let value := mul64 value 16 in
          if (value >? (sub64 18446744073709551615 x)) then
            ((0, b, (Some JErrSyntax)))
          else
            (let value := add64 value x in
            let count := addi64 count 1 in
            loop2_ t6_ (i4_ + 1) value count)) in
      if ((c >=? 48) && (c <=? 57)) then
        (let x := sub8 c 48 in
        k7_ x)
      else if ((c >=? 65) && (c <=? 70)) then
        (let x := add64 (sub8 c 65) 10 in
        k7_ x)
      else if ((c >=? 97) && (c <=? 102)) then
        (let x := add64 (sub8 c 97) 10 in
        k7_ x)
      else (if (i =? 0) then
          ((0, b, (Some JErrSyntax)))
        else
          ((value, slice_from b count, None)))
    end.
Lemma parseUintHex_eq d b : json_decoder_parseUintHex d b =
  if ((len b) =? 0) then (0, b, Some JErrSyntax) else hex_loop b b 0 0 0.
Proof. reflexivity. Qed.

Definition hexval (c : Z) : Z :=
  if ((c >=? 48) && (c <=? 57)) then sub8 c 48
  else if ((c >=? 65) && (c <=? 70)) then add64 (sub8 c 65) 10 else add64 (sub8 c 97) 10.
Lemma is_hex_unfold c : is_hex c = ((c >=? 48) && (c <=? 57)) || ((c >=? 65) && (c <=? 70)) || ((c >=? 97) && (c <=? 102)).
Proof. unfold is_hex, is_digit. rewrite !Z.geb_leb. reflexivity. Qed.
Lemma hexval_bound c : is_hex c = true -> 0 <= hexval c <= 15.
Proof.
  rewrite is_hex_unfold. unfold hexval. rewrite !Z.geb_leb. unfold sub8, add64, w8, w64.
  change (2 ^ 8) with 256. change (2 ^ 64) with 18446744073709551616.
  destruct (Z.leb_spec 48 c), (Z.leb_spec c 57), (Z.leb_spec 65 c), (Z.leb_spec c 70),
    (Z.leb_spec 97 c), (Z.leb_spec c 102); cbn [andb orb]; intros HH; try discriminate HH; zlia.
Qed.
Lemma hex_step b c t i value count : 0 <= value < 2 ^ 56 -> 0 <= count < 2 ^ 60 ->
  hex_loop b (c :: t) i value count =
    if is_hex c then hex_loop b t (i + 1) (value * 16 + hexval c) (count + 1)
    else if i =? 0 then (0, b, Some JErrSyntax) else (value, slice_from b count, None).
Proof.
  intros Hv Hc. pose proof (hexval_bound c) as HB. rewrite is_hex_unfold in *. unfold hexval in HB.
  cbn [hex_loop]. cbv zeta. unfold hexval.
  assert (K : forall x, 0 <= x <= 15 ->
    (if value >? 1152921504606846975 then (0, b, Some JErrSyntax)
     else if mul64 value 16 >? sub64 18446744073709551615 x then (0, b, Some JErrSyntax)
     else hex_loop b t (i + 1) (add64 (mul64 value 16) x) (addi64 count 1))
    = hex_loop b t (i + 1) (value * 16 + x) (count + 1)).
  { intros x Hx. change (2 ^ 56) with 72057594037927936 in Hv. change (2 ^ 60) with 1152921504606846976 in Hc.
    rewrite !Z.gtb_ltb. destruct (Z.ltb_spec 1152921504606846975 value); [lia|].
    unfold mul64, sub64, add64. rewrite !w64_small by (change (2 ^ 64) with 18446744073709551616; lia).
    destruct (Z.ltb_spec (18446744073709551615 - x) (value * 16)); [lia|].
    rewrite addi64_small by (change (2 ^ 63) with 9223372036854775808; lia). reflexivity. }
  destruct ((c >=? 48) && (c <=? 57)); [apply K, HB; reflexivity|].
  destruct ((c >=? 65) && (c <=? 70)); [apply K, HB; reflexivity|].
  destruct ((c >=? 97) && (c <=? 102)); [apply K, HB; reflexivity|]. reflexivity.
Qed.

Definition hex4 (s : bytes) : bool :=
  match s with
  | h1 :: h2 :: h3 :: h4 :: _ => is_hex h1 && is_hex h2 && is_hex h3 && is_hex h4
  | _ => false
  end.
Lemma parseUnicode_spec d s : exists u n e, json_decoder_parseUnicode d s = (u, n, e) /\
  (hex4 s = true -> e = None /\ n = 4) /\ (hex4 s = false -> e <> None).
Proof.
  unfold json_decoder_parseUnicode.
  destruct s as [|h1 [|h2 [|h3 [|h4 r]]]];
    try (cbn; do 3 eexists; split; [reflexivity|]; split; [discriminate|intros _; discriminate]).
  assert (L : (len (h1 :: h2 :: h3 :: h4 :: r) <? 4) = false).
  { rewrite !len_cons. pose proof (len_nonneg r). lia. }
  rewrite L. change (slice_to (h1 :: h2 :: h3 :: h4 :: r) 4) with [h1; h2; h3; h4].
  rewrite parseUintHex_eq. change (len [h1; h2; h3; h4] =? 0) with false. cbv iota.
  cbn [hex4].
  rewrite hex_step by (cbn; lia). destruct (is_hex h1) eqn:X1.
  2:{ cbn. do 3 eexists; split; [reflexivity|]; split; [discriminate|intros _; discriminate]. }
  pose proof (hexval_bound h1 X1) as B1.
  rewrite hex_step by (change (2 ^ 56) with 72057594037927936; change (2 ^ 60) with 1152921504606846976; lia).
  destruct (is_hex h2) eqn:X2.
  2:{ cbn. do 3 eexists; split; [reflexivity|]; split; [discriminate|intros _; discriminate]. }
  pose proof (hexval_bound h2 X2) as B2.
  rewrite hex_step by (change (2 ^ 56) with 72057594037927936; change (2 ^ 60) with 1152921504606846976; lia).
  destruct (is_hex h3) eqn:X3.
  2:{ cbn. do 3 eexists; split; [reflexivity|]; split; [discriminate|intros _; discriminate]. }
  pose proof (hexval_bound h3 X3) as B3.
  rewrite hex_step by (change (2 ^ 56) with 72057594037927936; change (2 ^ 60) with 1152921504606846976; lia).
  destruct (is_hex h4) eqn:X4.
  2:{ cbn. do 3 eexists; split; [reflexivity|]; split; [discriminate|intros _; discriminate]. }
  cbn. do 3 eexists; split; [reflexivity|]. split; [auto|discriminate].
Qed.

(* ================= parseString: the byte-wise loop ================= *)
Definition ps_loop (d : Z) (b : bytes) : nat -> Z -> PR :=
  fix loop2_ (f3_ : nat) (i : Z) {struct f3_} : PR :=
    match f3_ with
    | O => None
    | S f4_ =>
      if (i <? (len b)) then
        (let k5_ := fun (i : Z) =>
        let i := addi64 i 1 in
      loop2_ f4_ i in
      let tag6_ := at_ b i in
      if (tag6_ =? 92) then
        (let i := addi64 i 1 in
        if (i <? (len b)) then
          (let tag7_ := at_ b i in
          if ((tag7_ =? 34) || (tag7_ =? 92) || (tag7_ =? 47) || (tag7_ =? 110) || (tag7_ =? 114) || (tag7_ =? 116) || (tag7_ =? 102) || (tag7_ =? 98)) then
            (k5_ i)
          else if (tag7_ =? 117) then
            (let '(_, n, err) := json_decoder_parseUnicode d (slice_from b (addi64 i 1)) in
            if negb (isnil err) then
              (Some (([], slice_from b (addi64 (addi64 i 1) n), json_Undefined, err)))
            else
              (let i := addi64 i n in
              k5_ i))
          else (Some (([], b, json_Undefined, (Some JErrSyntax)))))
        else
          (k5_ i))
      else if (tag6_ =? 34) then
        (Some ((slice_to b (addi64 i 1), slice_from b (addi64 i 1), json_String, None)))
      else (if ((at_ b i) <? 32) then
          (Some (([], b, json_Undefined, (Some JErrSyntax))))
        else
          (k5_ i)))
      else Some (([], slice_from b (len b), json_Undefined, (Some JErrSyntax)))
    end.

Lemma escape_letter_eq e :
  ((e =? 34) || (e =? 92) || (e =? 47) || (e =? 110) || (e =? 114) || (e =? 116) || (e =? 102) || (e =? 98)) = is_escape_letter e.
Proof.
  unfold is_escape_letter.
  destruct (e =? 34), (e =? 92), (e =? 47), (e =? 110), (e =? 114), (e =? 116), (e =? 102), (e =? 98); reflexivity.
Qed.
Lemma g_string_u r : match r with
        | h1 :: h2 :: h3 :: h4 :: r' => if is_hex h1 && is_hex h2 && is_hex h3 && is_hex h4 then g_string r' else None
        | _ => None
        end = if hex4 r then g_string (skipn 4 r) else None.
Proof. destruct r as [|h1 [|h2 [|h3 [|h4 r]]]]; reflexivity. Qed.
Lemma sf_skip (b : bytes) i k rest : 0 <= i -> 0 <= k -> slice_from b i = rest ->
  slice_from b (i + k) = skipn (Z.to_nat k) rest.
Proof.
  intros Hi Hk E. subst rest. unfold slice_from. rewrite skipn_add. f_equal. lia.
Qed.
Lemma hex4_length s : hex4 s = true -> (4 <= length s)%nat.
Proof. destruct s as [|h1 [|h2 [|h3 [|h4 r]]]]; cbn; try discriminate; lia. Qed.

Lemma ps_loop_spec d b : len b < 2 ^ 62 ->
  forall fuel i rest, 1 <= i <= len b -> slice_from b i = rest -> (length rest < fuel)%nat ->
    ok_at b (g_string rest) (ps_loop d b fuel i).
Proof.
  intros Hb. induction fuel as [|f IH]; intros i rest Hi E Hf; [lia|].
  cbn [ps_loop]. destruct rest as [|c r1].
  - pose proof (sf_nil' _ _ E ltac:(lia)). destruct (Z.ltb_spec i (len b)); [lia|]. apply ok_at_err.
  - pose proof (sf_cons' _ _ _ _ E ltac:(lia)) as (E1 & E2 & E3).
    destruct (Z.ltb_spec i (len b)); [|lia]. cbv zeta. rewrite E2. clear E2. rewrite g_string_eq.
    cbn [length] in Hf.
    destruct (Z.eqb_spec c 92) as [C1|C1].
    + subst c. change (92 =? 34) with false. cbv iota. rewrite addi64_small by lia.
      destruct r1 as [|e r2].
      * pose proof (sf_nil' _ _ E3 ltac:(lia)). destruct (Z.ltb_spec (i + 1) (len b)); [lia|].
        rewrite addi64_small by lia. destruct f as [|f']; [cbn in Hf; lia|]. cbn [ps_loop].
        destruct (Z.ltb_spec (i + 1 + 1) (len b)); [lia|]. apply ok_at_err.
      * pose proof (sf_cons' _ _ _ _ E3 ltac:(lia)) as (F1 & F2 & F3).
        destruct (Z.ltb_spec (i + 1) (len b)); [|lia]. rewrite F2. clear F2. rewrite escape_letter_eq.
        cbn [length] in Hf.
        destruct (is_escape_letter e).
        -- rewrite addi64_small by lia. apply IH; [lia|assumption|lia].
        -- destruct (e =? 117); [|apply ok_at_err].
           rewrite addi64_small by lia. rewrite F3. rewrite g_string_u.
           destruct (parseUnicode_spec d r2) as (u & n & er & PU & P1 & P2). rewrite PU.
           destruct (hex4 r2) eqn:H4.
           ++ destruct (P1 eq_refl) as [P3 P4]. subst er n. cbn [isnil negb].
              pose proof (hex4_length r2 H4) as L4.
              assert (L5 : len r2 = len b - (i + 1 + 1)).
              { rewrite <- F3. apply sf_len. lia. }
              unfold len in L5 at 1.
              rewrite (addi64_small (i + 1) 4) by lia. rewrite addi64_small by lia.
              apply IH; [lia| |rewrite skipn_length; lia].
              replace (i + 1 + 4 + 1) with (i + 1 + 1 + 4) by lia. apply sf_skip; auto; lia.
           ++ specialize (P2 eq_refl). destruct er as [er|]; [|congruence]. cbn [isnil negb]. apply ok_at_err.
    + destruct (Z.eqb_spec c 34) as [C2|C2].
      * rewrite addi64_small by lia. rewrite <- E3. apply ok_at_ok. lia.
      * destruct (c <? 32); [apply ok_at_err|]. rewrite addi64_small by lia.
        apply IH; [lia|assumption|lia].
Qed.

(* ================= parseString: locating the closing quote ================= *)
Definition quote_mask (w : Z) : Z :=
  let u := xor64 w 2459565876494606882 in
  and64 (and64 (sub64 u 72340172838076673) (not64 u)) 9259542123273814144.
Definition ps_k8 (fuel : nat) (d : Z) (b : bytes) (n_1 : Z) : PR :=
  if (((json_ParseFlags_has (id d) json_noBackslash) || ((index_byte (slice b 1 n_1) 92) <? 0)) && ((json_ParseFlags_has (id d) json_validAsciiPrint) || (ascii_ValidPrint (slice b 1 n_1)))) then
    (Some ((slice_to b n_1, slice_from b n_1, json_Unescaped, None)))
  else ps_loop d b fuel 1.
Definition ps_k9 (b : bytes) (k8 : Z -> PR) : PR :=
  let n_1 := addi64 (index_byte (slice_from b 1) 34) 2 in
  if (n_1 <=? 1) then
    (Some (([], slice_from b (len b), json_Undefined, (Some JErrSyntax))))
  else
    (k8 n_1).
Definition ps_find (b : bytes) (k8 : Z -> PR) : PR :=
  if ((len b) >=? 9) then
    (if negb (quote_mask (le64 (slice_from b 1)) =? 0) then
      k8 (addi64 (divi64 (ctz64 (quote_mask (le64 (slice_from b 1)))) 8) 2)
    else
      (if ((len b) >=? 17) then
        (if negb (quote_mask (le64 (slice_from b 9)) =? 0) then
          k8 (addi64 (divi64 (ctz64 (quote_mask (le64 (slice_from b 9)))) 8) 10)
        else ps_k9 b k8)
      else ps_k9 b k8))
  else ps_k9 b k8.
Lemma parseString_eq fuel d b : json_decoder_parseString fuel d b =
  if ((len b) <? 2) then
    (Some (([], slice_from b (len b), json_Undefined, (Some JErrUnexpectedEOF))))
  else
    (if negb ((at_ b 0) =? 34) then
      (Some (([], b, json_Undefined, (Some JErrSyntax))))
    else ps_find b (ps_k8 fuel d b)).
Proof. reflexivity. Qed.

Lemma lxor34 x : 0 <= x < 256 -> 0 <= Z.lxor x 34 /\ (Z.lxor x 34 = 0 <-> x = 34).
Proof.
  intros Hx. split; [apply Z.lxor_nonneg; lia|]. split; [apply Z.lxor_eq|intros ->; reflexivity].
Qed.
Lemma quote_lanes_forall xs : wfb xs = true ->
  forallb (fun b => 1 <=? b) (map (fun x => Z.lxor x 34) xs) = forallb (fun x => negb (eqc 34 x)) xs.
Proof.
  induction xs as [|x r IH]; intros H; [reflexivity|]. apply wfb_cons in H. destruct H as [Hx Hr].
  cbn [map forallb]. rewrite IH by assumption. f_equal. unfold eqc. destruct (lxor34 x Hx) as [A B].
  destruct (Z.eqb_spec x 34) as [E|E]; cbn [negb]; lia.
Qed.
Lemma quote_lanes_find xs : wfb xs = true ->
  find_index (fun b => b <? 1) (map (fun x => Z.lxor x 34) xs) = find_index (eqc 34) xs.
Proof.
  induction xs as [|x r IH]; intros H; [reflexivity|]. apply wfb_cons in H. destruct H as [Hx Hr].
  cbn [map find_index]. rewrite IH by assumption. unfold eqc. destruct (lxor34 x Hx) as [A B].
  assert (X : (Z.lxor x 34 <? 1) = (x =? 34)) by (destruct (Z.eqb_spec x 34) as [E|E]; lia).
  rewrite X. reflexivity.
Qed.
Lemma quote_mask_lanes xs : wfb xs = true -> length xs = 8%nat ->
  quote_mask (le_load 8 xs) = hasless_mask 8 (le_load 8 (map (fun x => Z.lxor x 34) xs)) 1.
Proof.
  intros Hw L. unfold quote_mask, xor64.
  change 2459565876494606882 with (le_load 8 (repeat 34 8)).
  rewrite le_load_lxor by (auto; apply wfb_repeat; lia).
  replace (repeat 34 8) with (repeat 34 (length xs)) by (rewrite L; reflexivity).
  rewrite zipw_repeat. reflexivity.
Qed.
Lemma quote_mask_zero xs : wfb xs = true -> length xs = 8%nat ->
  (quote_mask (le_load 8 xs) = 0 <-> find_index (eqc 34) xs = 8%nat).
Proof.
  intros Hw L. rewrite quote_mask_lanes by assumption.
  rewrite hasless_zero_iff; [|apply wfb_map_lxor; [lia|assumption]|rewrite map_length; assumption|lia].
  rewrite quote_lanes_forall by assumption. rewrite <- L. symmetry. apply find_index_none.
Qed.
Lemma quote_mask_index xs : wfb xs = true -> length xs = 8%nat -> quote_mask (le_load 8 xs) <> 0 ->
  divi64 (ctz64 (quote_mask (le_load 8 xs))) 8 = Z.of_nat (find_index (eqc 34) xs) /\
  (find_index (eqc 34) xs < 8)%nat.
Proof.
  intros Hw L NZ.
  assert (LT : (find_index (eqc 34) xs < 8)%nat).
  { pose proof (find_index_le (eqc 34) xs). rewrite L in *.
    destruct (Nat.eq_dec (find_index (eqc 34) xs) 8) as [E|E]; [|lia].
    apply quote_mask_zero in E; auto. contradiction. }
  split; [|assumption]. rewrite quote_mask_lanes in * by assumption.
  pose proof (hasless_index 8 (map (fun x => Z.lxor x 34) xs) 1 64) as IX.
  rewrite quote_lanes_find in IX by assumption.
  specialize (IX ltac:(apply wfb_map_lxor; [lia|assumption]) ltac:(rewrite map_length; assumption) ltac:(lia) NZ).
  unfold ctz64. rewrite divi64_8; [assumption|].
  change (2 ^ 63) with 9223372036854775808. zlia.
Qed.

Lemma length_firstn8 (s : bytes) : (8 <= length s)%nat -> length (firstn 8 s) = 8%nat.
Proof. intros. rewrite firstn_length. lia. Qed.

Lemma ps_find_spec b s k8 : b = 34 :: s -> wfb s = true -> len b < 2 ^ 62 ->
  ps_find b k8 =
    if (find_index (eqc 34) s <? length s)%nat then k8 (Z.of_nat (find_index (eqc 34) s) + 2)
    else Some ([], slice_from b (len b), json_Undefined, Some JErrSyntax).
Proof.
  intros Eb Hw Hb. set (q := find_index (eqc 34) s).
  assert (Lb : len b = len s + 1) by (subst b; apply len_cons).
  assert (S1 : slice_from b 1 = s) by (subst b; reflexivity).
  assert (K9 : ps_k9 b k8 = if (q <? length s)%nat then k8 (Z.of_nat q + 2)
    else Some ([], slice_from b (len b), json_Undefined, Some JErrSyntax)).
  { unfold ps_k9. cbv zeta. rewrite S1, index_byte_find. fold q.
    pose proof (find_index_le (eqc 34) s). fold q in H. unfold len in *.
    destruct (Nat.ltb_spec q (length s)).
    - rewrite addi64_small by lia. destruct (Z.leb_spec (Z.of_nat q + 2) 1); [lia|reflexivity].
    - rewrite addi64_small by lia. reflexivity. }
  unfold ps_find. destruct (Z.geb_spec (len b) 9) as [G9|G9]; [|exact K9].
  rewrite S1. unfold le64. rewrite le_load_firstn.
  assert (L8 : (8 <= length s)%nat) by (unfold len in *; lia).
  pose proof (length_firstn8 s L8) as LX.
  pose proof (wfb_firstn 8 s Hw) as WX.
  destruct (Z.eqb_spec (quote_mask (le_load 8 (firstn 8 s))) 0) as [Z1|Z1]; cbn [negb].
  - apply quote_mask_zero in Z1; auto.
    destruct (Z.geb_spec (len b) 17) as [G17|G17]; [|exact K9].
    assert (S9 : slice_from b 9 = skipn 8 s) by (subst b; reflexivity).
    rewrite S9. rewrite le_load_firstn.
    assert (L16 : (8 <= length (skipn 8 s))%nat) by (rewrite skipn_length; unfold len in *; lia).
    pose proof (length_firstn8 _ L16) as LY.
    pose proof (wfb_firstn 8 _ (wfb_skipn 8 s Hw)) as WY.
    destruct (Z.eqb_spec (quote_mask (le_load 8 (firstn 8 (skipn 8 s)))) 0) as [Z2|Z2]; cbn [negb]; [exact K9|].
    destruct (quote_mask_index _ WY LY Z2) as [IX LT]. rewrite IX.
    assert (Q : q = (8 + find_index (eqc 34) (firstn 8 (skipn 8 s)))%nat).
    { unfold q. rewrite <- (firstn_skipn 8 s) at 1. rewrite find_index_app_none.
      - rewrite LX. f_equal. rewrite <- (firstn_skipn 8 (skipn 8 s)) at 1. apply find_index_app_some. lia.
      - apply find_index_none. rewrite LX. assumption. }
    rewrite skipn_length in L16.
    destruct (Nat.ltb_spec q (length s)); [|lia]. rewrite addi64_small by lia. f_equal. lia.
  - destruct (quote_mask_index _ WX LX Z1) as [IX LT]. rewrite IX.
    assert (Q : q = find_index (eqc 34) (firstn 8 s)).
    { unfold q. rewrite <- (firstn_skipn 8 s) at 1. apply find_index_app_some. lia. }
    destruct (Nat.ltb_spec q (length s)); [|lia]. rewrite addi64_small by lia. f_equal. lia.
Qed.

(* ================= parseString: the fast path ================= *)
Lemma g_string_plain span rest :
  forallb (fun c => negb (eqc 34 c)) span = true -> forallb (fun c => negb (eqc 92 c)) span = true ->
  forallb (fun c => 32 <=? c) span = true -> g_string (span ++ 34 :: rest) = Some rest.
Proof.
  induction span as [|c r IH]; cbn [forallb app]; intros A B C.
  - rewrite g_string_eq. reflexivity.
  - apply andb_true_iff in A, B, C. destruct A as [A1 A2], B as [B1 B2], C as [C1 C2]. unfold eqc in *.
    rewrite g_string_eq. destruct (c =? 34); [discriminate|]. destruct (c =? 92); [discriminate|].
    destruct (Z.ltb_spec c 32); [lia|]. apply IH; assumption.
Qed.
Lemma forallb_skipn {A} (p : A -> bool) n l : forallb p l = true -> forallb p (skipn n l) = true.
Proof. intros H. rewrite <- (firstn_skipn n l) in H. rewrite forallb_app in H. apply andb_true_iff in H. tauto. Qed.
Lemma g_string_no_quote : forall n s, (length s <= n)%nat ->
  forallb (fun c => negb (eqc 34 c)) s = true -> g_string s = None.
Proof.
  induction n as [|n IH]; intros s L H.
  - destruct s; [reflexivity|cbn in L; lia].
  - destruct s as [|c r]; [reflexivity|]. cbn [forallb length] in *. apply andb_true_iff in H. destruct H as [H1 H2].
    unfold eqc in H1. rewrite g_string_eq. destruct (c =? 34); [discriminate|].
    assert (X : g_string r = None) by (apply IH; [lia|assumption]).
    destruct (c =? 92); [|destruct (c <? 32); [reflexivity|assumption]].
    destruct r as [|e r']; [reflexivity|]. cbn [forallb length] in *. apply andb_true_iff in H2. destruct H2 as [H2 H3].
    destruct (is_escape_letter e); [apply IH; [lia|assumption]|].
    destruct (e =? 117); [|reflexivity]. rewrite g_string_u. destruct (hex4 r'); [|reflexivity].
    apply IH; [rewrite skipn_length; lia|apply forallb_skipn; assumption].
Qed.

Lemma printable_prefix (P rest p t : bytes) x :
  (P ++ [x]) ++ rest = p ++ t -> is_ws x = false ->
  forallb (fun c => (32 <=? c) && (c <=? 126)) p = true -> forallb is_ws t = true ->
  forallb (fun c => 32 <=? c) (P ++ [x]) = true.
Proof.
  intros E Wx Hp Ht.
  assert (PP : forall l, forallb (fun c => (32 <=? c) && (c <=? 126)) l = true -> forallb (fun c => 32 <=? c) l = true).
  { induction l as [|c l IH]; cbn [forallb]; [reflexivity|]. intros H. apply andb_true_iff in H. destruct H as [H1 H2].
    rewrite IH by assumption. lia. }
  apply app_eq_app in E. destruct E as (l & [[E1 E2]|[E1 E2]]).
  - destruct l as [|y l] using rev_ind.
    + rewrite app_nil_r in E1. rewrite E1. apply PP. assumption.
    + clear IHl. rewrite app_assoc in E1. apply app_inj_tail in E1. destruct E1 as [_ E1]. subst y.
      rewrite E2 in Ht. rewrite !forallb_app in Ht. cbn [forallb] in Ht. rewrite Wx in Ht.
      destruct (forallb is_ws l); cbn in Ht; discriminate Ht.
  - rewrite E1 in Hp. rewrite forallb_app in Hp. apply andb_true_iff in Hp. apply PP. tauto.
Qed.

Lemma has_id d f : json_ParseFlags_has (id d) f = json_ParseFlags_has d f.
Proof. reflexivity. Qed.

Lemma ps_k8_spec fuel d b s : b = 34 :: s -> wfb b = true -> len b < 2 ^ 62 -> flags_sound d b ->
  (length b <= fuel)%nat -> (find_index (eqc 34) s < length s)%nat ->
  ok_at b (g_string s) (ps_k8 fuel d b (Z.of_nat (find_index (eqc 34) s) + 2)).
Proof.
  intros Eb Hw Hb [FS1 FS2] Hf Hq.
  destruct (find_index_split (eqc 34) s Hq) as (c & rest & Es & Pc & Hspan).
  set (span := firstn (find_index (eqc 34) s) s) in *.
  assert (Lspan : length span = find_index (eqc 34) s).
  { unfold span. rewrite firstn_length. lia. }
  unfold eqc in Pc. apply Z.eqb_eq in Pc. subst c.
  assert (Eb2 : b = ((34 :: span) ++ [34]) ++ rest).
  { rewrite Eb, Es at 1. cbn [app]. rewrite <- app_assoc. reflexivity. }
  assert (En : Z.of_nat (find_index (eqc 34) s) + 2 = len ((34 :: span) ++ [34])).
  { rewrite len_app, len_cons. unfold len. cbn [length]. lia. }
  assert (S1 : slice b 1 (Z.of_nat (find_index (eqc 34) s) + 2) = span ++ [34]).
  { unfold slice. replace (Z.to_nat (Z.of_nat (find_index (eqc 34) s) + 2 - 1)) with (length span + 1)%nat by lia.
    rewrite Eb. change (skipn (Z.to_nat 1) (34 :: s)) with s. rewrite Es. rewrite firstn_app.
    rewrite firstn_all2 by lia. replace (length span + 1 - length span)%nat with 1%nat by lia. reflexivity. }
  unfold ps_k8. rewrite S1, !has_id.
  match goal with |- context [if ?c then _ else _] => destruct c eqn:C end.
  - apply andb_true_iff in C. destruct C as [C1 C2].
    assert (A : forallb (fun c => negb (eqc 92 c)) span = true).
    { apply orb_true_iff in C1. destruct C1 as [C1|C1].
      - specialize (FS1 C1). rewrite Eb2 in FS1. cbn [app forallb] in FS1. rewrite !forallb_app in FS1.
        apply andb_true_iff in FS1. destruct FS1 as [_ FS1]. apply andb_true_iff in FS1. destruct FS1 as [FS1 _].
        apply andb_true_iff in FS1. destruct FS1 as [FS1 _]. exact FS1.
      - rewrite index_byte_find in C1. pose proof (find_index_le (eqc 92) (span ++ [34])) as LE.
        destruct (Nat.ltb_spec (find_index (eqc 92) (span ++ [34])) (length (span ++ [34]))) as [X|X]; [lia|].
        assert (Y : find_index (eqc 92) (span ++ [34]) = length (span ++ [34])) by lia.
        apply find_index_none in Y. rewrite forallb_app in Y. apply andb_true_iff in Y. tauto. }
    assert (B : forallb (fun c => 32 <=? c) span = true).
    { apply orb_true_iff in C2. destruct C2 as [C2|C2].
      - destruct (FS2 C2) as (p & t & E1 & E2 & E3). rewrite Eb2 in E1.
        pose proof (printable_prefix (34 :: span) rest p t 34 E1 eq_refl E2 E3) as PP.
        cbn [app forallb] in PP. rewrite forallb_app in PP. apply andb_true_iff in PP. destruct PP as [_ PP].
        apply andb_true_iff in PP. tauto.
      - assert (W : wfb (span ++ [34]) = true).
        { rewrite Eb2 in Hw. cbn [app] in Hw. apply wfb_cons in Hw. destruct Hw as [_ Hw].
          apply wfb_app in Hw. tauto. }
        assert (LL : len (span ++ [34]) < 2 ^ 63).
        { rewrite En in *. rewrite Eb2 in Hb. rewrite !len_app, !len_cons in *. pose proof (len_nonneg rest).
          change (2 ^ 62) with 4611686018427387904 in Hb. change (2 ^ 63) with 9223372036854775808. lia. }
        destruct (valid_print_spec (span ++ [34]) W LL) as [_ VP]. rewrite VP in C2.
        rewrite forallb_app in C2. apply andb_true_iff in C2. destruct C2 as [C2 _].
        clear - C2. induction span as [|x l IH]; [reflexivity|]. cbn [forallb] in *.
        apply andb_true_iff in C2. destruct C2 as [D1 D2]. rewrite IH by assumption. unfold is_print in D1. lia. }
    rewrite Es at 1. rewrite (g_string_plain span rest Hspan A B).
    rewrite En, Eb2. rewrite sf_app, st_app.
    exists ((34 :: span) ++ [34]), rest, json_Unescaped, None. split; [reflexivity|]. split; [|congruence].
    intros _. split; [reflexivity|]. exists (len ((34 :: span) ++ [34])). rewrite sf_app, st_app.
    rewrite !len_app, !len_cons. change (len (@nil Z)) with 0. pose proof (len_nonneg span). pose proof (len_nonneg rest).
    repeat split; lia.
  - apply ps_loop_spec; auto.
    + rewrite Eb, len_cons. pose proof (len_nonneg s). lia.
    + rewrite Eb. reflexivity.
    + rewrite Eb in Hf. cbn [length] in Hf. lia.
Qed.

Lemma parseString_spec fuel d b : wfb b = true -> len b < 2 ^ 62 -> flags_sound d b ->
  (length b <= fuel)%nat -> ok_at b (g_str_tok b) (json_decoder_parseString fuel d b).
Proof.
  intros Hw Hb FS Hf. rewrite parseString_eq. unfold g_str_tok.
  destruct b as [|c s].
  - cbn. apply ok_at_err.
  - rewrite len_cons, at_0. destruct s as [|c2 s'].
    + cbn [len length Z.of_nat Z.add Z.ltb Z.compare]. cbv iota.
      rewrite g_string_eq || idtac. destruct (c =? 34); apply ok_at_err.
    + destruct (Z.ltb_spec (len (c2 :: s') + 1) 2) as [X|X].
      { rewrite len_cons in X. pose proof (len_nonneg s'). lia. }
      destruct (Z.eqb_spec c 34) as [C|C]; cbn [negb]; [|apply ok_at_err]. subst c.
      assert (Hw' : wfb (c2 :: s') = true) by (apply wfb_cons in Hw; tauto).
      rewrite (ps_find_spec _ (c2 :: s') _ eq_refl Hw' Hb).
      destruct (Nat.ltb_spec (find_index (eqc 34) (c2 :: s')) (length (c2 :: s'))) as [Q|Q].
      * apply ps_k8_spec; auto.
      * pose proof (find_index_le (eqc 34) (c2 :: s')).
        assert (Y : find_index (eqc 34) (c2 :: s') = length (c2 :: s')) by lia.
        apply find_index_none in Y. rewrite (g_string_no_quote _ _ (le_n _) Y). apply ok_at_err.
Qed.

(* ================= suffix bookkeeping ================= *)
Lemma sf_sf (a : bytes) p j : 0 <= p -> 0 <= j -> slice_from (slice_from a p) j = slice_from a (p + j).
Proof. intros Hp Hj. unfold slice_from. rewrite skipn_add. f_equal. lia. Qed.
Lemma sf_len' (a : bytes) p s : 0 <= p <= len a -> slice_from a p = s -> len s = len a - p.
Proof. intros H E. subst s. apply sf_len. assumption. Qed.
Lemma skip_ws_sf (a : bytes) p s : 0 <= p <= len a -> slice_from a p = s ->
  exists p', p <= p' <= len a /\ slice_from a p' = skip_ws s.
Proof.
  intros Hp E. destruct (skip_ws_suffix s) as (pre & E1 & _).
  pose proof (sf_len' a p s Hp E) as L. exists (p + len pre).
  assert (L2 : len s = len pre + len (skip_ws s)) by (rewrite E1 at 1; apply len_app).
  pose proof (len_nonneg pre). pose proof (len_nonneg (skip_ws s)).
  split; [lia|]. rewrite <- sf_sf by lia. rewrite E. rewrite E1 at 1. apply sf_app.
Qed.
Lemma flags_sound_suffix d pre s : flags_sound d (pre ++ s) -> flags_sound d s.
Proof.
  intros [F1 F2]. split.
  - intros H. specialize (F1 H). rewrite forallb_app in F1. apply andb_true_iff in F1. tauto.
  - intros H. destruct (F2 H) as (p & t & E & Hp & Ht). apply app_eq_app in E.
    destruct E as (l & [[E1 E2]|[E1 E2]]).
    + exists [], s. rewrite E2 in Ht. rewrite forallb_app in Ht. apply andb_true_iff in Ht.
      split; [reflexivity|]. split; [reflexivity|tauto].
    + exists l, t. rewrite E1 in Hp. rewrite forallb_app in Hp. apply andb_true_iff in Hp.
      split; [assumption|]. split; tauto.
Qed.
Lemma flags_sound_sf d a p : flags_sound d a -> flags_sound d (slice_from a p).
Proof. intros H. rewrite <- (st_sf a p) in H. apply flags_sound_suffix in H. assumption. Qed.

Lemma ok_at_sf a j r k : 0 < j <= len a -> slice_from a j = r ->
  ok_at a (Some r) (Some (slice_to a j, slice_from a j, k, None)).
Proof. intros H E. rewrite <- E. apply ok_at_ok. assumption. Qed.

Lemma dlet_step (res : PR) (K : bytes -> option json_err -> PR) b2 G a (H : bytes -> option bytes) :
  ok_at b2 G res ->
  (forall r j, G = Some r -> 0 < j <= len b2 -> r = slice_from b2 j -> ok_at a (H r) (K r None)) ->
  ok_at a (match G with None => None | Some r => H r end)
    (dlet (_, b, _, err) <- res in
     if negb (isnil err) then Some ([], b, json_Undefined, err) else K b err).
Proof.
  intros (v & r & k & e & E & Hok & Herr) HK. subst res. cbn [obind]. destruct e as [e|].
  - cbn [isnil negb]. rewrite Herr by discriminate. apply ok_at_err.
  - cbn [isnil negb]. destruct (Hok eq_refl) as (E1 & j & J1 & J2 & J3). rewrite E1. apply (HK r j); auto.
Qed.

Lemma g_number_bad c r : (c =? 45) = false -> is_digit c = false -> g_number (c :: r) = None.
Proof.
  intros H1 H2. rewrite g_number_eq, H1. cbn [g_number_body]. rewrite H2.
  destruct (Z.eqb_spec c 48) as [E|E]; [subst c; discriminate H2|reflexivity].
Qed.
Lemma g_value_bad f c r : (c =? 93) || (c =? 125) || (c =? 44) || (c =? 58) = true -> g_value f (c :: r) = None.
Proof.
  intros H. destruct f as [|f]; [reflexivity|]. rewrite g_value_other by lia.
  apply g_number_bad; [lia|]. unfold is_digit. lia.
Qed.

(* ================= parseArray ================= *)
Definition arr_loop (fuel' : nat) (d : Z) (a : bytes) (n : Z) : nat -> bytes -> option json_err -> Z -> PR :=
  fix loop2_ (f3_ : nat) (b : bytes) (err : (option json_err)) (i : Z) {struct f3_} : PR :=
    match f3_ with
    | O => None
    | S f4_ =>
      if true then
        (let b := json_skipSpaces b in
      if ((len b) =? 0) then
        (Some (([], b, json_Undefined, (Some JErrSyntax))))
      else
        (if ((at_ b 0) =? 93) then
          (let j := addi64 (subi64 n (len b)) 1 in
          Some ((slice_to a j, slice_from a j, json_Array, None)))
        else
          (let k5_ := fun (b : bytes) =>
            dlet (_, b, _, err) <- json_decoder_parseValue fuel' d b in
            if negb (isnil err) then
              (Some (([], b, json_Undefined, err)))
            else
              (let i := addi64 i 1 in
              loop2_ f4_ b err i) in
          if negb (i =? 0) then
            (if ((len b) =? 0) then
              (Some (([], b, json_Undefined, (Some JErrSyntax))))
            else
              (if negb ((at_ b 0) =? 44) then
                (Some (([], b, json_Undefined, (Some JErrSyntax))))
              else
                (let b := json_skipSpaces (slice_from b 1) in
                if ((len b) =? 0) then
                  (Some (([], b, json_Undefined, (Some JErrUnexpectedEOF))))
                else
                  (if ((at_ b 0) =? 93) then
                    (Some (([], b, json_Undefined, (Some JErrSyntax))))
                  else
                    (k5_ b)))))
          else
            (k5_ b))))
      else None
    end.
Lemma parseArray_eq fuel' d b : json_decoder_parseArray (S fuel') d b =
  if ((len b) <? 2) then
    (Some (([], slice_from b (len b), json_Undefined, (Some JErrUnexpectedEOF))))
  else
    (if negb ((at_ b 0) =? 91) then
      (Some (([], b, json_Undefined, (Some JErrSyntax))))
    else arr_loop fuel' d b (len b) fuel' (slice_from b 1) None 0).
Proof. reflexivity. Qed.

(* ================= parseObject ================= *)
Definition obj_loop (fuel' : nat) (d : Z) (a : bytes) (n : Z) : nat -> bytes -> option json_err -> Z -> PR :=
  fix loop2_ (f3_ : nat) (b : bytes) (err : (option json_err)) (i : Z) {struct f3_} : PR :=
    match f3_ with
    | O => None
    | S f4_ =>
      if true then
        (let b := json_skipSpaces b in
      if ((len b) =? 0) then
        (Some (([], b, json_Undefined, (Some JErrSyntax))))
      else
        (if ((at_ b 0) =? 125) then
          (let j := addi64 (subi64 n (len b)) 1 in
          Some ((slice_to a j, slice_from a j, json_Object, None)))
        else
          (let k5_ := fun (b : bytes) =>
            dlet (_, b, _, err) <- json_decoder_parseString fuel' d b in
            if negb (isnil err) then
              (Some (([], b, json_Undefined, err)))
            else
              (let b := json_skipSpaces b in
              if ((len b) =? 0) then
                (Some (([], b, json_Undefined, (Some JErrSyntax))))
              else
                (if negb ((at_ b 0) =? 58) then
                  (Some (([], b, json_Undefined, (Some JErrSyntax))))
                else
                  (let b := json_skipSpaces (slice_from b 1) in
                  dlet (_, b, _, err) <- json_decoder_parseValue fuel' d b in
                  if negb (isnil err) then
                    (Some (([], b, json_Undefined, err)))
                  else
                    (let i := addi64 i 1 in
                    loop2_ f4_ b err i)))) in
          if negb (i =? 0) then
            (if ((len b) =? 0) then
              (Some (([], b, json_Undefined, (Some JErrSyntax))))
            else
              (if negb ((at_ b 0) =? 44) then
                (Some (([], b, json_Undefined, (Some JErrSyntax))))
              else
                (let b := json_skipSpaces (slice_from b 1) in
                if ((len b) =? 0) then
                  (Some (([], b, json_Undefined, (Some JErrUnexpectedEOF))))
                else
                  (if ((at_ b 0) =? 125) then
                    (Some (([], b, json_Undefined, (Some JErrSyntax))))
                  else
                    (k5_ b)))))
          else
            (k5_ b))))
      else None
    end.
Lemma parseObject_eq fuel' d b : json_decoder_parseObject (S fuel') d b =
  if ((len b) <? 2) then
    (Some (([], slice_from b (len b), json_Undefined, (Some JErrUnexpectedEOF))))
  else
    (if negb ((at_ b 0) =? 123) then
      (Some (([], b, json_Undefined, (Some JErrSyntax))))
    else obj_loop fuel' d b (len b) fuel' (slice_from b 1) None 0).
Proof. reflexivity. Qed.
Lemma parseValue_eq fuel' d b : json_decoder_parseValue (S fuel') d b =
  if ((len b) =? 0) then
    (Some (([], b, json_Undefined, (Some JErrSyntax))))
  else
    (let tag2_ := at_ b 0 in
    if (tag2_ =? 123) then
      (dlet (v, b, k, err) <- json_decoder_parseObject fuel' d b in Some (v, b, k, err))
    else if (tag2_ =? 91) then
      (dlet (v, b, k, err) <- json_decoder_parseArray fuel' d b in Some (v, b, k, err))
    else if (tag2_ =? 34) then
      (dlet (v, b, k, err) <- json_decoder_parseString fuel' d b in Some (v, b, k, err))
    else if (tag2_ =? 110) then
      (let '(v, b, k, err) := json_decoder_parseNull d b in Some (v, b, k, err))
    else if (tag2_ =? 116) then
      (let '(v, b, k, err) := json_decoder_parseTrue d b in Some (v, b, k, err))
    else if (tag2_ =? 102) then
      (let '(v, b, k, err) := json_decoder_parseFalse d b in Some (v, b, k, err))
    else if ((tag2_ =? 45) || (tag2_ =? 48) || (tag2_ =? 49) || (tag2_ =? 50) || (tag2_ =? 51) || (tag2_ =? 52) || (tag2_ =? 53) || (tag2_ =? 54) || (tag2_ =? 55) || (tag2_ =? 56) || (tag2_ =? 57)) then
      (dlet (v, b, k, err) <- json_decoder_parseNumber fuel' d b in Some (v, b, k, err))
    else Some (([], b, 0, Some JErrSyntax))).
Proof. reflexivity. Qed.
Lemma dlet_id (X : PR) : (dlet (v, b, k, err) <- X in Some (v, b, k, err)) = X.
Proof. destruct X as [[[[v r] k] e]|]; reflexivity. Qed.

Definition pv_ok (fuel : nat) (d : Z) : Prop :=
  forall b gf, wfb b = true -> len b < 2 ^ 62 -> flags_sound d b ->
    (2 * length b + 4 <= fuel)%nat -> (length b < gf)%nat ->
    ok_at b (g_value gf b) (json_decoder_parseValue fuel d b).

Lemma len_cons_nz {A} (c : A) r : (len (c :: r) =? 0) = false.
Proof. rewrite len_cons. pose proof (len_nonneg r). lia. Qed.

Section Containers.
  Variables (fuel' : nat) (d : Z) (a : bytes) (f : nat).
  Hypothesis Hwa : wfb a = true.
  Hypothesis Hla : len a < 2 ^ 62.
  Hypothesis Hfa : flags_sound d a.
  Hypothesis IHv : pv_ok fuel' d.
  Hypothesis Hfuel : (2 * length a + 2 <= fuel')%nat.
  Hypothesis Hf : (length a <= f)%nat.

  Lemma value_at p b2 : 1 <= p <= len a -> slice_from a p = b2 -> (length b2 < f)%nat ->
    ok_at b2 (g_value f b2) (json_decoder_parseValue fuel' d b2).
  Proof.
    intros Hp E L. pose proof (sf_len' a p b2 ltac:(lia) E) as LL. unfold len in LL.
    apply IHv; auto.
    - rewrite <- E. apply wfb_sf. assumption.
    - unfold len in *. lia.
    - rewrite <- E. apply flags_sound_sf. assumption.
    - lia.
  Qed.

  Lemma arr_loop_spec : forall g s p i n', 1 <= p <= len a -> slice_from a p = s -> 0 < i ->
    i + len s <= len a -> (length s < g)%nat -> (length s <= n')%nat ->
    ok_at a (g_after_elem f n' s) (arr_loop fuel' d a (len a) g s None i).
  Proof.
    induction g as [|g IH]; intros s p i n' Hp Es Hi Hil Hg Hn; [lia|].
    cbn [arr_loop]. rewrite !skipSpaces_spec. unfold g_after_elem.
    destruct (skip_ws_sf a p s ltac:(lia) Es) as (p1 & Hp1 & E1).
    pose proof (sf_len' a p s ltac:(lia) Es) as Ls.
    pose proof (sf_len' a p1 _ ltac:(lia) E1) as Ls1.
    destruct (skip_ws s) as [|c r1] eqn:Ews.
    - cbn. apply ok_at_err.
    - rewrite len_cons_nz, at_0. rewrite len_cons in Ls1. pose proof (len_nonneg r1).
      pose proof (sf_cons' _ _ _ _ E1 ltac:(lia)) as (_ & _ & E2).
      destruct (Z.eqb_spec c 93) as [C93|C93].
      + subst c. change (93 =? 44) with false. cbv iota. rewrite len_cons.
        rewrite subi64_small by lia. rewrite addi64_small by lia.
        replace (len a - (len r1 + 1) + 1) with (p1 + 1) by lia. apply ok_at_sf; [lia|assumption].
      + destruct (Z.eqb_spec i 0); [lia|]. cbn [negb].
        destruct (Z.eqb_spec c 44) as [C44|C44]; cbn [negb]; [|apply ok_at_err].
        rewrite sf_1.
        destruct (skip_ws_sf a (p1 + 1) r1 ltac:(lia) E2) as (p2 & Hp2 & E3).
        pose proof (sf_len' a p2 _ ltac:(lia) E3) as Ls2.
        destruct n' as [|n'']; [unfold len in *; lia|].
        rewrite g_elems_eq.
        destruct (skip_ws r1) as [|c2 r2] eqn:Ews2.
        * cbn. rewrite g_value_nil. apply ok_at_err.
        * rewrite len_cons_nz, at_0. rewrite len_cons in Ls2. pose proof (len_nonneg r2).
          destruct (Z.eqb_spec c2 93) as [D93|D93].
          { rewrite g_value_bad by lia. apply ok_at_err. }
          apply (dlet_step _ (fun b err => arr_loop fuel' d a (len a) g b err (addi64 i 1))
                   (c2 :: r2) (g_value f (c2 :: r2)) a (g_after_elem f n'')).
          -- apply (value_at p2); [lia|assumption|]. cbn [length]. unfold len in *. lia.
          -- intros r j Gr Hj Er. rewrite addi64_small by lia.
             assert (E4 : slice_from a (p2 + j) = r).
             { rewrite Er, <- E3. symmetry. apply sf_sf; lia. }
             rewrite len_cons in Hj.
             pose proof (sf_len' a (p2 + j) r ltac:(lia) E4) as Lr.
             apply (IH r (p2 + j)); auto; unfold len in *; lia.
  Qed.

  Lemma string_at p b2 : 1 <= p <= len a -> slice_from a p = b2 ->
    ok_at b2 (g_str_tok b2) (json_decoder_parseString fuel' d b2).
  Proof.
    intros Hp E. pose proof (sf_len' a p b2 ltac:(lia) E) as LL. unfold len in LL.
    apply parseString_spec.
    - rewrite <- E. apply wfb_sf. assumption.
    - unfold len in *. lia.
    - rewrite <- E. apply flags_sound_sf. assumption.
    - lia.
  Qed.

  Lemma parseArray_spec s0 : a = 91 :: s0 ->
    ok_at a (g_value (S f) a) (json_decoder_parseArray (S fuel') d a).
  Proof.
    intros Ea. rewrite parseArray_eq.
    replace (g_value (S f) a) with (g_value (S f) (91 :: s0)) by (rewrite <- Ea; reflexivity).
    rewrite g_value_array.
    assert (La : len a = len s0 + 1) by (rewrite Ea; apply len_cons). pose proof (len_nonneg s0) as L0.
    assert (E0 : slice_from a 1 = s0) by (rewrite Ea; reflexivity).
    assert (At : at_ a 0 = 91) by (rewrite Ea; reflexivity).
    destruct fuel' as [|g] eqn:Efuel; [lia|]. rewrite <- Efuel in *.
    destruct f as [|f'] eqn:Ef; [unfold len in *; lia|]. rewrite <- Ef in *.
    destruct (Z.ltb_spec (len a) 2) as [L2|L2].
    { assert (S0 : s0 = []) by (apply len_0_nil; lia). rewrite S0. cbn [skip_ws]. rewrite Ef, g_elems_eq, g_value_nil.
      apply ok_at_err. }
    rewrite At. cbn [negb Z.eqb Pos.eqb]. rewrite E0. rewrite Efuel at 2.
    cbn [arr_loop]. rewrite !skipSpaces_spec.
    destruct (skip_ws_sf a 1 s0 ltac:(lia) E0) as (p1 & Hp1 & E1).
    pose proof (sf_len' a p1 _ ltac:(lia) E1) as Ls1.
    destruct (skip_ws s0) as [|c r1] eqn:Ews.
    - rewrite Ef, g_elems_eq, g_value_nil. cbn. apply ok_at_err.
    - rewrite len_cons_nz, at_0. rewrite len_cons in Ls1. pose proof (len_nonneg r1).
      pose proof (sf_cons' _ _ _ _ E1 ltac:(lia)) as (_ & _ & E2).
      destruct (Z.eqb_spec c 93) as [C93|C93].
      + rewrite len_cons. rewrite subi64_small by lia. rewrite addi64_small by lia.
        replace (len a - (len r1 + 1) + 1) with (p1 + 1) by lia. apply ok_at_sf; [lia|assumption].
      + change (negb (0 =? 0)) with false. cbv iota. rewrite Ef at 2. rewrite g_elems_eq.
        apply (dlet_step _ (fun b err => arr_loop fuel' d a (len a) g b err (addi64 0 1))
                 (c :: r1) (g_value f (c :: r1)) a (g_after_elem f f')).
        * apply (value_at p1); [lia|assumption|]. cbn [length]. unfold len in *. lia.
        * intros r j Gr Hj Er. change (addi64 0 1) with 1.
          assert (E4 : slice_from a (p1 + j) = r).
          { rewrite Er, <- E1. symmetry. apply sf_sf; lia. }
          rewrite len_cons in Hj.
          pose proof (sf_len' a (p1 + j) r ltac:(lia) E4) as Lr.
          apply (arr_loop_spec g r (p1 + j)); auto; unfold len in *; lia.
  Qed.

  Definition obj_k5 (g : nat) (i : Z) (b : bytes) : PR :=
    dlet (_, b, _, err) <- json_decoder_parseString fuel' d b in
    if negb (isnil err) then
      (Some (([], b, json_Undefined, err)))
    else
      (let b := json_skipSpaces b in
      if ((len b) =? 0) then
        (Some (([], b, json_Undefined, (Some JErrSyntax))))
      else
        (if negb ((at_ b 0) =? 58) then
          (Some (([], b, json_Undefined, (Some JErrSyntax))))
        else
          (let b := json_skipSpaces (slice_from b 1) in
          dlet (_, b, _, err) <- json_decoder_parseValue fuel' d b in
          if negb (isnil err) then
            (Some (([], b, json_Undefined, err)))
          else
            (let i := addi64 i 1 in
            obj_loop fuel' d a (len a) g b err i)))).

  Lemma obj_k5_spec g :
    (forall s p i n', 1 <= p <= len a -> slice_from a p = s -> 0 < i ->
      i + len s <= len a -> (length s < g)%nat -> (length s <= n')%nat ->
      ok_at a (g_after_member f n' s) (obj_loop fuel' d a (len a) g s None i)) ->
    forall b2 p2 i n'', 1 <= p2 <= len a -> slice_from a p2 = b2 -> 0 <= i -> i + len b2 <= len a ->
      (length b2 <= g)%nat -> (length b2 <= S n'')%nat ->
      ok_at a (match g_str_tok b2 with None => None | Some r => g_after_key f n'' r end) (obj_k5 g i b2).
  Proof.
    intros LoopH b2 p2 i n'' Hp2 E3 Hi Hil Hg Hn. unfold obj_k5.
    pose proof (sf_len' a p2 _ ltac:(lia) E3) as Ls2.
    destruct (string_at p2 b2 ltac:(lia) E3) as (v & b3 & k & e & Eres & Hok & Herr).
    rewrite Eres. unfold obind at 1. cbv beta iota. destruct e as [e|]; cbn [isnil negb].
    { rewrite Herr by discriminate. apply ok_at_err. }
    destruct (Hok eq_refl) as (G3 & j3 & J1 & J2 & J3). rewrite G3. clear Hok Herr Eres.
    cbv zeta. rewrite !skipSpaces_spec.
    assert (E4 : slice_from a (p2 + j3) = b3).
    { rewrite J3, <- E3. symmetry. apply sf_sf; lia. }
    pose proof (sf_len' a (p2 + j3) b3 ltac:(lia) E4) as L3.
    unfold g_after_key.
    destruct (skip_ws_sf a (p2 + j3) b3 ltac:(lia) E4) as (p4 & Hp4 & E5).
    pose proof (sf_len' a p4 _ ltac:(lia) E5) as L4.
    destruct (skip_ws b3) as [|c4 r4] eqn:Ews4.
    { cbn. apply ok_at_err. }
    rewrite len_cons_nz, at_0. rewrite len_cons in L4. pose proof (len_nonneg r4).
    pose proof (sf_cons' _ _ _ _ E5 ltac:(lia)) as (_ & _ & E6).
    destruct (Z.eqb_spec c4 58) as [C58|C58]; cbn [negb]; [|apply ok_at_err].
    rewrite sf_1.
    destruct (skip_ws_sf a (p4 + 1) r4 ltac:(lia) E6) as (p5 & Hp5 & E7).
    pose proof (sf_len' a p5 _ ltac:(lia) E7) as L5.
    apply (dlet_step _ (fun b err => obj_loop fuel' d a (len a) g b err (addi64 i 1))
             (skip_ws r4) (g_value f (skip_ws r4)) a (g_after_member f n'')).
    - apply (value_at p5); [lia|assumption|]. unfold len in *. lia.
    - intros r j Gr Hj Er. rewrite addi64_small by lia.
      assert (E8 : slice_from a (p5 + j) = r).
      { rewrite Er, <- E7. symmetry. apply sf_sf; lia. }
      pose proof (sf_len' a (p5 + j) r ltac:(lia) E8) as Lr.
      apply (LoopH r (p5 + j)); auto; unfold len in *; lia.
  Qed.

  Lemma obj_loop_spec : forall g s p i n', 1 <= p <= len a -> slice_from a p = s -> 0 < i ->
    i + len s <= len a -> (length s < g)%nat -> (length s <= n')%nat ->
    ok_at a (g_after_member f n' s) (obj_loop fuel' d a (len a) g s None i).
  Proof.
    induction g as [|g IH]; intros s p i n' Hp Es Hi Hil Hg Hn; [lia|].
    cbn [obj_loop]. rewrite !skipSpaces_spec. unfold g_after_member.
    destruct (skip_ws_sf a p s ltac:(lia) Es) as (p1 & Hp1 & E1).
    pose proof (sf_len' a p s ltac:(lia) Es) as Ls.
    pose proof (sf_len' a p1 _ ltac:(lia) E1) as Ls1.
    destruct (skip_ws s) as [|c r1] eqn:Ews.
    - cbn. apply ok_at_err.
    - rewrite len_cons_nz, at_0. rewrite len_cons in Ls1. pose proof (len_nonneg r1).
      pose proof (sf_cons' _ _ _ _ E1 ltac:(lia)) as (_ & _ & E2).
      destruct (Z.eqb_spec c 125) as [C125|C125].
      + subst c. change (125 =? 44) with false. cbv iota. rewrite len_cons.
        rewrite subi64_small by lia. rewrite addi64_small by lia.
        replace (len a - (len r1 + 1) + 1) with (p1 + 1) by lia. apply ok_at_sf; [lia|assumption].
      + destruct (Z.eqb_spec i 0); [lia|]. cbn [negb].
        destruct (Z.eqb_spec c 44) as [C44|C44]; cbn [negb]; [|apply ok_at_err].
        rewrite sf_1.
        destruct (skip_ws_sf a (p1 + 1) r1 ltac:(lia) E2) as (p2 & Hp2 & E3).
        pose proof (sf_len' a p2 _ ltac:(lia) E3) as Ls2.
        destruct n' as [|n'']; [unfold len in *; lia|].
        rewrite g_members_eq.
        destruct (skip_ws r1) as [|c2 r2] eqn:Ews2.
        * cbn. apply ok_at_err.
        * rewrite len_cons_nz, at_0. pose proof (len_nonneg r2).
          destruct (Z.eqb_spec c2 125) as [D125|D125].
          { subst c2. cbn. apply ok_at_err. }
          apply (obj_k5_spec g IH (c2 :: r2) p2 i n''); auto; unfold len in *; lia.
  Qed.

  Lemma parseObject_spec s0 : a = 123 :: s0 ->
    ok_at a (g_value (S f) a) (json_decoder_parseObject (S fuel') d a).
  Proof.
    intros Ea. rewrite parseObject_eq.
    replace (g_value (S f) a) with (g_value (S f) (123 :: s0)) by (rewrite <- Ea; reflexivity).
    rewrite g_value_object.
    assert (La : len a = len s0 + 1) by (rewrite Ea; apply len_cons). pose proof (len_nonneg s0) as L0.
    assert (E0 : slice_from a 1 = s0) by (rewrite Ea; reflexivity).
    assert (At : at_ a 0 = 123) by (rewrite Ea; reflexivity).
    destruct fuel' as [|g] eqn:Efuel; [lia|]. rewrite <- Efuel in *.
    destruct f as [|f'] eqn:Ef; [unfold len in *; lia|]. rewrite <- Ef in *.
    destruct (Z.ltb_spec (len a) 2) as [L2|L2].
    { assert (S0 : s0 = []) by (apply len_0_nil; lia). rewrite S0. cbn [skip_ws]. rewrite Ef, g_members_eq.
      cbn. apply ok_at_err. }
    rewrite At. cbn [negb Z.eqb Pos.eqb]. rewrite E0. rewrite Efuel at 2.
    cbn [obj_loop]. rewrite !skipSpaces_spec.
    destruct (skip_ws_sf a 1 s0 ltac:(lia) E0) as (p1 & Hp1 & E1).
    pose proof (sf_len' a p1 _ ltac:(lia) E1) as Ls1.
    destruct (skip_ws s0) as [|c r1] eqn:Ews.
    - rewrite Ef, g_members_eq. cbn. apply ok_at_err.
    - rewrite len_cons_nz, at_0. pose proof Ls1 as Ls1'. rewrite len_cons in Ls1'. pose proof (len_nonneg r1).
      pose proof (sf_cons' _ _ _ _ E1 ltac:(lia)) as (_ & _ & E2).
      destruct (Z.eqb_spec c 125) as [C125|C125].
      + rewrite len_cons. rewrite subi64_small by lia. rewrite addi64_small by lia.
        replace (len a - (len r1 + 1) + 1) with (p1 + 1) by lia. apply ok_at_sf; [lia|assumption].
      + change (negb (0 =? 0)) with false. cbv iota. rewrite Ef at 2. rewrite g_members_eq.
        apply (obj_k5_spec g (obj_loop_spec g) (c :: r1) p1 0 f'); auto; unfold len in *; lia.
  Qed.
End Containers.

(* ================= literals ================= *)
Lemma lit_spec (p b : bytes) (k : Z) : p <> [] ->
  ok_at b (strip_prefix p b)
    (Some (if ((len b >=? len p) && bytes_eqb (slice_to b (len p)) p)
           then (slice_to b (len p), slice_from b (len p), k, None)
           else if len b <? len p then ([], slice_from b (len b), json_Undefined, Some JErrUnexpectedEOF)
           else ([], b, json_Undefined, Some JErrSyntax))).
Proof.
  intros Hp. rewrite has_prefix_strip. destruct (strip_prefix p b) as [r|] eqn:E.
  - apply strip_prefix_app in E. subst b. rewrite sf_app, st_app.
    exists p, r, k, None. split; [reflexivity|]. split; [|congruence]. intros _. split; [reflexivity|].
    exists (len p). rewrite sf_app, st_app, len_app. pose proof (len_nonneg r).
    assert (0 < len p) by (destruct p; [congruence|rewrite len_cons; pose proof (len_nonneg p); lia]).
    repeat split; lia.
  - destruct (len b <? len p); apply ok_at_err.
Qed.

(* ================= parseValue ================= *)
Lemma pv_all d : forall fuel, pv_ok fuel d.
Proof.
  induction fuel as [fuel IHf] using lt_wf_ind. intros b gf Hw Hl Hfs Hfuel Hgf.
  destruct fuel as [|f1]; [lia|]. rewrite parseValue_eq.
  destruct b as [|c r]; [cbn; rewrite g_value_nil; apply ok_at_err|].
  rewrite len_cons_nz, at_0. cbv zeta.
  destruct gf as [|f]; [lia|].
  destruct f1 as [|f2]; [cbn [length] in Hfuel; lia|].
  destruct (Z.eqb_spec c 123) as [C1|C1].
  { subst c. rewrite dlet_id.
    apply (parseObject_spec f2 d (123 :: r) f Hw Hl Hfs (IHf f2 ltac:(lia)) ltac:(lia) ltac:(lia) r eq_refl). }
  destruct (Z.eqb_spec c 91) as [C2|C2].
  { subst c. rewrite dlet_id.
    apply (parseArray_spec f2 d (91 :: r) f Hw Hl Hfs (IHf f2 ltac:(lia)) ltac:(lia) ltac:(lia) r eq_refl). }
  destruct (Z.eqb_spec c 34) as [C3|C3].
  { subst c. rewrite dlet_id. rewrite g_value_string.
    change (g_string r) with (g_str_tok (34 :: r)). apply parseString_spec; auto. lia. }
  destruct (Z.eqb_spec c 110) as [C4|C4].
  { subst c. rewrite g_value_null. change (strip_prefix [117; 108; 108] r) with (strip_prefix [110; 117; 108; 108] (110 :: r)).
    pose proof (lit_spec [110; 117; 108; 108] (110 :: r) json_Null ltac:(discriminate)) as L.
    unfold json_decoder_parseNull, json_hasNullPrefix.
    change (len [110; 117; 108; 108]) with 4 in L.
    destruct ((len (110 :: r) >=? 4) && bytes_eqb (slice_to (110 :: r) 4) [110; 117; 108; 108]); [exact L|].
    destruct (len (110 :: r) <? 4); exact L. }
  destruct (Z.eqb_spec c 116) as [C5|C5].
  { subst c. rewrite g_value_true. change (strip_prefix [114; 117; 101] r) with (strip_prefix [116; 114; 117; 101] (116 :: r)).
    pose proof (lit_spec [116; 114; 117; 101] (116 :: r) json_True ltac:(discriminate)) as L.
    unfold json_decoder_parseTrue, json_hasTruePrefix.
    change (len [116; 114; 117; 101]) with 4 in L.
    destruct ((len (116 :: r) >=? 4) && bytes_eqb (slice_to (116 :: r) 4) [116; 114; 117; 101]); [exact L|].
    destruct (len (116 :: r) <? 4); exact L. }
  destruct (Z.eqb_spec c 102) as [C6|C6].
  { subst c. rewrite g_value_false. change (strip_prefix [97; 108; 115; 101] r) with (strip_prefix [102; 97; 108; 115; 101] (102 :: r)).
    pose proof (lit_spec [102; 97; 108; 115; 101] (102 :: r) json_False ltac:(discriminate)) as L.
    unfold json_decoder_parseFalse, json_hasFalsePrefix.
    change (len [102; 97; 108; 115; 101]) with 5 in L.
    destruct ((len (102 :: r) >=? 5) && bytes_eqb (slice_to (102 :: r) 5) [102; 97; 108; 115; 101]); [exact L|].
    destruct (len (102 :: r) <? 5); exact L. }
  rewrite g_value_other by lia.
  match goal with |- context [if ?t then _ else _] => destruct t eqn:T end.
  - rewrite dlet_id. apply parseNumber_spec; auto. lia.
  - rewrite g_number_bad; [apply ok_at_err|lia|]. unfold is_digit.
    destruct (Z.leb_spec 48 c), (Z.leb_spec c 57); try reflexivity. exfalso. lia.
Qed.

(* ================= parse_value_grammar ================= *)
Lemma parse_value_grammar : parse_value_grammar_statement.
Proof.
  intros b d fuel Hw Hl Hfs Hfuel.
  destruct (pv_all d fuel b (S (length b)) Hw Hl Hfs Hfuel ltac:(lia)) as (v & r & k & e & E & Hok & Herr).
  exists v, r, k, e. split; [assumption|]. split.
  - split.
    + intros He. destruct (Hok He) as [G _]. exists r. assumption.
    + intros [r' G]. destruct e as [e|]; [|reflexivity]. rewrite Herr in G by discriminate. discriminate.
  - intros He. destruct (Hok He) as (G & j & _ & J2 & J3). split; [assumption|]. subst v r. symmetry. apply st_sf.
Qed.

(* ================= internalParseFlags ================= *)
Definition tts_loop (b : bytes) : nat -> Z -> option bytes :=
  fix loop2_ (f3_ : nat) (i : Z) {struct f3_} : (option bytes) :=
    match f3_ with
    | O => None
    | S f4_ =>
      if (i >=? 0) then
        (let tag6_ := at_ b i in
      if ((tag6_ =? json_sp) || (tag6_ =? json_ht) || (tag6_ =? json_nl) || (tag6_ =? json_cr)) then
        (loop2_ f4_ (subi64 i 1))
      else (Some (slice_to b (addi64 i 1))))
      else Some (slice_to b (addi64 i 1))
    end.
Lemma trimTrailingSpacesN_eq fuel b : json_trimTrailingSpacesN fuel b = tts_loop b fuel (subi64 (len b) 1).
Proof. reflexivity. Qed.
Lemma sf_unfold (b : bytes) i : 0 <= i < len b -> slice_from b i = at_ b i :: slice_from b (i + 1).
Proof.
  intros H. destruct (slice_from b i) as [|c r] eqn:E.
  - apply sf_nil in E; lia.
  - apply sf_cons in E; [|lia]. destruct E as (_ & E2 & E3). rewrite E2, E3. reflexivity.
Qed.
Lemma tts_loop_spec b : len b < 2 ^ 62 -> forall fuel i, -1 <= i < len b ->
  forallb is_ws (slice_from b (i + 1)) = true -> (Z.to_nat (i + 1) < fuel)%nat ->
  exists j, -1 <= j <= i /\ tts_loop b fuel i = Some (slice_to b (j + 1)) /\
    forallb is_ws (slice_from b (j + 1)) = true.
Proof.
  intros Hb. induction fuel as [|f IH]; intros i Hi Hws Hf; [lia|].
  cbn [tts_loop]. destruct (Z.geb_spec i 0) as [G|G].
  - cbv zeta. rewrite is_ws_unfold. destruct (is_ws (at_ b i)) eqn:W.
    + rewrite subi64_small by lia.
      destruct (IH (i - 1)) as (j & J1 & J2 & J3); [lia| |lia|].
      * replace (i - 1 + 1) with i by lia. rewrite sf_unfold by lia. cbn [forallb]. rewrite W, Hws. reflexivity.
      * exists j. split; [lia|]. split; assumption.
    + rewrite addi64_small by lia. exists i. split; [lia|]. split; [reflexivity|assumption].
  - rewrite addi64_small by lia. exists i. split; [lia|]. split; [reflexivity|assumption].
Qed.
Lemma trimTrailingSpaces_spec fuel b : len b < 2 ^ 62 -> (length b < fuel)%nat ->
  exists b2 t, json_trimTrailingSpaces fuel b = Some b2 /\ b = b2 ++ t /\ forallb is_ws t = true.
Proof.
  intros Hb Hf. unfold json_trimTrailingSpaces. cbv zeta.
  destruct (((len b) >? 0) && ((at_ b (subi64 (len b) 1)) <=? 32)) eqn:C.
  - rewrite trimTrailingSpacesN_eq. pose proof (len_nonneg b).
    rewrite subi64_small by lia.
    destruct (tts_loop_spec b Hb fuel (len b - 1)) as (j & J1 & J2 & J3).
    + lia.
    + replace (len b - 1 + 1) with (len b) by lia. rewrite sf_all. reflexivity.
    + unfold len in *. lia.
    + rewrite J2. cbn [obind]. exists (slice_to b (j + 1)), (slice_from b (j + 1)).
      split; [reflexivity|]. split; [symmetry; apply st_sf|assumption].
  - exists b, []. split; [reflexivity|]. split; [symmetry; apply app_nil_r|reflexivity].
Qed.

Lemma index_byte_none b c : index_byte b c =? -1 = true -> forallb (fun x => negb (eqc c x)) b = true.
Proof.
  rewrite index_byte_find. pose proof (find_index_le (eqc c) b).
  destruct (Nat.ltb_spec (find_index (eqc c) b) (length b)); [lia|]. intros _.
  apply find_index_none. lia.
Qed.

Lemma ipf_spec fuel b : wfb b = true -> len b < 2 ^ 62 -> (length b + 2 <= fuel)%nat -> skip_ws b = b ->
  exists d, json_internalParseFlags fuel b = Some d /\ flags_sound d b.
Proof.
  intros Hw Hb Hf Hs. unfold json_internalParseFlags. cbv zeta. rewrite skipSpaces_spec, Hs.
  destruct (trimTrailingSpaces_spec fuel b Hb ltac:(lia)) as (b2 & t & E1 & E2 & E3).
  rewrite E1. cbn [obind].
  assert (W2 : wfb b2 = true) by (rewrite E2 in Hw; apply wfb_app in Hw; tauto).
  assert (L2 : len b2 < 2 ^ 63).
  { rewrite E2, len_app in Hb. pose proof (len_nonneg t).
    change (2 ^ 62) with 4611686018427387904 in Hb. change (2 ^ 63) with 9223372036854775808. lia. }
  destruct (valid_print_spec b2 W2 L2) as [_ VP].
  assert (NB : index_byte b2 92 =? -1 = true -> forallb (fun c => negb (c =? 92)) b = true).
  { intros H. apply index_byte_none in H. rewrite E2, forallb_app. apply andb_true_iff. split; [exact H|].
    clear - E3. induction t as [|x t IH]; [reflexivity|]. cbn [forallb] in *. apply andb_true_iff in E3.
    destruct E3 as [X1 X2]. rewrite IH by assumption. unfold is_ws in X1. lia. }
  assert (PR : ascii_ValidPrint b2 = true ->
    exists p t, b = p ++ t /\ forallb (fun c => (32 <=? c) && (c <=? 126)) p = true /\ forallb is_ws t = true).
  { intros H. rewrite VP in H. exists b2, t. auto. }
  destruct (ascii_ValidPrint b2) eqn:AV; destruct (index_byte b2 92 =? -1) eqn:IB;
    eexists; (split; [reflexivity|]); split; intros H; try discriminate H; auto.
Qed.

Lemma internal_flags_sound_with_hyp : forall b fuel d, wfb b = true -> len b < 2 ^ 62 -> (length b + 2 <= fuel)%nat ->
  skip_ws b = b ->
  json_internalParseFlags fuel b = Some d -> flags_sound d b /\ forall suffix pre, b = pre ++ suffix -> flags_sound d suffix.
Proof.
  intros b fuel d Hw Hb Hf Hs E. destruct (ipf_spec fuel b Hw Hb Hf Hs) as (d' & E' & FS).
  rewrite E in E'. injection E' as ->. split; [assumption|]. intros suffix pre Eb. rewrite Eb in FS.
  apply flags_sound_suffix in FS. assumption.
Qed.

(* the unrestricted statement fails on inputs with leading white space other than the space character *)
Lemma internal_flags_sound_statement_refuted : ~ internal_flags_sound_untrimmed_statement.
Proof.
  intros H. destruct (H [10; 49] 4%nat 805306368 eq_refl eq_refl ltac:(cbn; lia) eq_refl) as [[_ F] _].
  destruct (F eq_refl) as (p & t & E & Hp & Ht).
  destruct p as [|x p].
  - cbn [app] in E. subst t. discriminate Ht.
  - cbn [app] in E. injection E as E1 E2. subst x. discriminate Hp.
Qed.

(* ================= Valid ================= *)
Lemma valid_agrees : valid_agrees_statement.
Proof.
  intros b fuel Hw Hb Hf. unfold json_Valid. cbv zeta. rewrite !skipSpaces_spec.
  pose proof (skip_ws_length b) as SL.
  destruct (skip_ws_suffix b) as (pre & Epre & _).
  assert (W1 : wfb (skip_ws b) = true) by (rewrite Epre in Hw; apply wfb_app in Hw; tauto).
  assert (L1 : len (skip_ws b) < 2 ^ 62) by (unfold len in *; lia).
  destruct (ipf_spec fuel (skip_ws b) W1 L1 ltac:(lia) (skip_ws_idem b)) as (d & E & FS).
  rewrite E. cbn [obind].
  destruct (pv_all d fuel (skip_ws b) (S (length b)) W1 L1 FS ltac:(lia) ltac:(lia)) as (v & r & k & e & Ev & Hok & Herr).
  rewrite Ev. cbn [obind]. unfold g_valid. destruct e as [e|]; cbn [isnil negb].
  - rewrite Herr by discriminate. reflexivity.
  - destruct (Hok eq_refl) as [G _]. rewrite G, skipSpaces_spec. f_equal.
    destruct (skip_ws r) as [|x l]; [reflexivity|]. apply len_cons_nz.
Qed.
Lemma valid_std : valid_std_statement.
Proof.
  intros b fuel Hw Hb Hf Hd. rewrite valid_agrees by assumption. unfold std_valid.
  destruct (Z.leb_spec (max_depth b) 10000); [|lia]. rewrite andb_true_r. reflexivity.
Qed.

(* the Go function returns the index INSIDE its 8-byte chunk: the statement of Spec.v fails from 16 bytes on *)
Lemma escape_index_statement_refuted : ~ escape_index_doc_statement.
Proof.
  intros H.
  specialize (H [97; 97; 97; 97; 97; 97; 97; 97; 34; 97; 97; 97; 97; 97; 97; 97] false 18%nat eq_refl eq_refl ltac:(cbn; lia)).
  vm_compute in H. discriminate H.
Qed.

(* ================= the statements of Spec.v ================= *)
Lemma escape_index_spec : escape_index_statement.
Proof. exact escape_index_exact. Qed.
Lemma internal_flags_sound : internal_flags_sound_statement.
Proof. exact internal_flags_sound_with_hyp. Qed.
