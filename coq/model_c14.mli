
type __ = Obj.t

val negb : bool -> bool

type nat =
| O
| S of nat

val fst : ('a1 * 'a2) -> 'a1

val length : 'a1 list -> nat

type comparison =
| Eq
| Lt
| Gt

val compOpp : comparison -> comparison

val id : __ -> __

val add : nat -> nat -> nat

type positive =
| XI of positive
| XO of positive
| XH

type n =
| N0
| Npos of positive

type z =
| Z0
| Zpos of positive
| Zneg of positive

module Pos :
 sig
  type mask =
  | IsNul
  | IsPos of positive
  | IsNeg
 end

module Coq_Pos :
 sig
  val succ : positive -> positive

  val add : positive -> positive -> positive

  val add_carry : positive -> positive -> positive

  val pred_double : positive -> positive

  val pred_N : positive -> n

  type mask = Pos.mask =
  | IsNul
  | IsPos of positive
  | IsNeg

  val succ_double_mask : mask -> mask

  val double_mask : mask -> mask

  val double_pred_mask : positive -> mask

  val sub_mask : positive -> positive -> mask

  val sub_mask_carry : positive -> positive -> mask

  val mul : positive -> positive -> positive

  val iter : ('a1 -> 'a1) -> 'a1 -> positive -> 'a1

  val div2 : positive -> positive

  val div2_up : positive -> positive

  val compare_cont : comparison -> positive -> positive -> comparison

  val compare : positive -> positive -> comparison

  val eqb : positive -> positive -> bool

  val coq_Nsucc_double : n -> n

  val coq_Ndouble : n -> n

  val coq_lor : positive -> positive -> positive

  val coq_land : positive -> positive -> n

  val ldiff : positive -> positive -> n

  val coq_lxor : positive -> positive -> n

  val testbit : positive -> n -> bool

  val iter_op : ('a1 -> 'a1 -> 'a1) -> positive -> 'a1 -> 'a1

  val to_nat : positive -> nat

  val of_succ_nat : nat -> positive
 end

module N :
 sig
  val succ_double : n -> n

  val double : n -> n

  val succ_pos : n -> positive

  val sub : n -> n -> n

  val compare : n -> n -> comparison

  val leb : n -> n -> bool

  val pos_div_eucl : positive -> n -> n * n

  val coq_lor : n -> n -> n

  val coq_land : n -> n -> n

  val ldiff : n -> n -> n

  val coq_lxor : n -> n -> n

  val testbit : n -> n -> bool
 end

module Z :
 sig
  val double : z -> z

  val succ_double : z -> z

  val pred_double : z -> z

  val pos_sub : positive -> positive -> z

  val add : z -> z -> z

  val opp : z -> z

  val sub : z -> z -> z

  val mul : z -> z -> z

  val pow_pos : z -> positive -> z

  val pow : z -> z -> z

  val compare : z -> z -> comparison

  val leb : z -> z -> bool

  val ltb : z -> z -> bool

  val geb : z -> z -> bool

  val gtb : z -> z -> bool

  val eqb : z -> z -> bool

  val to_nat : z -> nat

  val of_nat : nat -> z

  val of_N : n -> z

  val pos_div_eucl : positive -> z -> z * z

  val div_eucl : z -> z -> z * z

  val div : z -> z -> z

  val modulo : z -> z -> z

  val quotrem : z -> z -> z * z

  val quot : z -> z -> z

  val odd : z -> bool

  val div2 : z -> z

  val testbit : z -> z -> bool

  val shiftl : z -> z -> z

  val coq_lor : z -> z -> z

  val coq_land : z -> z -> z

  val coq_lxor : z -> z -> z
 end

val nth : nat -> 'a1 list -> 'a1 -> 'a1

val existsb : ('a1 -> bool) -> 'a1 list -> bool

val forallb : ('a1 -> bool) -> 'a1 list -> bool

val firstn : nat -> 'a1 list -> 'a1 list

val skipn : nat -> 'a1 list -> 'a1 list

val w8 : z -> z

val w32 : z -> z

val w64 : z -> z

val s32 : z -> z

val s64 : z -> z

val add64 : z -> z -> z

val sub64 : z -> z -> z

val mul64 : z -> z -> z

val div64 : z -> z -> z

val and64 : z -> z -> z

val or64 : z -> z -> z

val xor64 : z -> z -> z

val not64 : z -> z

val add32 : z -> z -> z

val sub32 : z -> z -> z

val mul32 : z -> z -> z

val and32 : z -> z -> z

val or32 : z -> z -> z

val not32 : z -> z

val shl32 : z -> z -> z

val sub8 : z -> z -> z

val addi64 : z -> z -> z

val subi64 : z -> z -> z

val muli64 : z -> z -> z

val divi64 : z -> z -> z

type bytes = z list

val len : 'a1 list -> z

val at_ : bytes -> z -> z

val slice_from : 'a1 list -> z -> 'a1 list

val slice_to : 'a1 list -> z -> 'a1 list

val slice : 'a1 list -> z -> z -> 'a1 list

val le_load : nat -> bytes -> z

val le64 : bytes -> z

val le32 : bytes -> z

val le16 : bytes -> z

val isnil : 'a1 option -> bool

val bytes_eqb : bytes -> bytes -> bool

val obind : 'a1 option -> ('a1 -> 'a2 option) -> 'a2 option

val ctz_pos : positive -> z

val ctz : z -> z -> z

type json_err =
| JErrSyntax
| JErrUnexpectedEOF
| JErrType
| JErrOverflow
| JErrOther

val index_byte_from : z -> bytes -> z -> z

val index_byte : bytes -> z -> z

val ctz64 : z -> z

val asm_hasLessConstL64 : z

val asm_hasLessConstR64 : z

val asm_hasLessConstL32 : z

val asm_hasLessConstR32 : z

val asm_hasMoreConstL64 : z

val asm_hasMoreConstR64 : z

val asm_hasMoreConstL32 : z

val asm_hasMoreConstR32 : z

val asm_hasLess64 : z -> z -> bool

val asm_hasLess32 : z -> z -> bool

val asm_hasMore64 : z -> z -> bool

val asm_hasMore32 : z -> z -> bool

val asm_ValidPrintString : nat -> bytes -> bool option

val asm_ValidPrint : nat -> bytes -> bool option

val run_fuel : bool option -> bool

val asmt_ValidPrint : bytes -> bool

val ascii_ValidPrint : bytes -> bool

val json_UseNumber : z

val json_UseBigInt : z

val json_UseInt64 : z

val json_UseUint64 : z

val json_validAsciiPrint : z

val json_noBackslash : z

val json_Undefined : z

val json_Null : z

val json_False : z

val json_True : z

val json_Uint : z

val json_Int : z

val json_Float : z

val json_String : z

val json_Unescaped : z

val json_Array : z

val json_Object : z

val json_sp : z

val json_ht : z

val json_nl : z

val json_cr : z

val json_ParseFlags_has : z -> z -> bool

val json_skipSpacesN : bytes -> bytes * z

val json_skipSpaces : bytes -> bytes

val json_hasNullPrefix : bytes -> bool

val json_hasTruePrefix : bytes -> bool

val json_hasFalsePrefix : bytes -> bool

val json_decoder_parseFalse :
  z -> bytes -> ((bytes * bytes) * z) * json_err option

val json_decoder_parseNull :
  z -> bytes -> ((bytes * bytes) * z) * json_err option

val json_decoder_parseNumber :
  nat -> z -> bytes -> (((bytes * bytes) * z) * json_err option) option

val json_decoder_parseUintHex : z -> bytes -> (z * bytes) * json_err option

val json_decoder_parseUnicode : z -> bytes -> (z * z) * json_err option

val json_decoder_parseString :
  nat -> z -> bytes -> (((bytes * bytes) * z) * json_err option) option

val json_decoder_parseTrue :
  z -> bytes -> ((bytes * bytes) * z) * json_err option

val json_decoder_parseArray :
  nat -> z -> bytes -> (((bytes * bytes) * z) * json_err option) option

val json_decoder_parseObject :
  nat -> z -> bytes -> (((bytes * bytes) * z) * json_err option) option

val json_decoder_parseValue :
  nat -> z -> bytes -> (((bytes * bytes) * z) * json_err option) option

val json_decoder_inputError :
  nat -> z -> bytes -> unit -> (bytes * json_err option) option

val json_decoder_parseInt :
  nat -> z -> bytes -> unit -> ((z * bytes) * json_err option) option

val json_decoder_parseUint :
  nat -> z -> bytes -> unit -> ((z * bytes) * json_err option) option

val is_digit : z -> bool

val skip_digits : bytes -> bytes

val g_frac : bytes -> bytes option

val g_exp : bytes -> bytes option

val g_number : bytes -> bytes option

type numres =
| RUint64 of z
| RInt64 of z
| RBigInt of z
| RNumber of bytes
| RFloat64 of z
| RErr
| RFuel

type 'a dres =
| DOk of 'a * bytes
| DErr
| DFuel

val any_flags_set : z -> z -> bool

val digits_value_from : z -> bytes -> z

val digits_value : bytes -> z

val all_digits : bytes -> bool

val big_unmarshal : bytes -> z option

val decode_uint64 : nat -> z -> bytes -> z dres

val decode_int64 : nat -> z -> bytes -> z dres

val decode_number : nat -> z -> bytes -> bytes dres

val decode_float64 : (bytes -> z option) -> nat -> z -> bytes -> z dres

val decode_bigint : nat -> z -> bytes -> z dres

val three_flags : z

val decode_dynamic_number :
  (bytes -> z option) -> nat -> z -> bytes -> numres dres

val decode_interface_number :
  (bytes -> z option) -> nat -> z -> bytes -> numres

val num_fuel : bytes -> nat

val decode_number_literal : (bytes -> z option) -> z -> bytes -> numres

val is_int_literal : bytes -> bool

val is_neg_literal : bytes -> bool

val int_value : bytes -> z

val max_uint64 : z

val max_int64 : z

val min_int64 : z

val use_number : z -> bool

val use_bigint : z -> bool

val use_int64 : z -> bool

val use_uint64 : z -> bool

val generic_number : (bytes -> z option) -> z -> bytes -> numres

val num_spec : (bytes -> z option) -> z -> bytes -> numres
