Base/GoInt.vo Base/GoInt.glob Base/GoInt.v.beautified Base/GoInt.required_vo: Base/GoInt.v 
Base/GoInt.vio: Base/GoInt.v 
Base/GoInt.vos Base/GoInt.vok Base/GoInt.required_vos: Base/GoInt.v 
Base/Lanes.vo Base/Lanes.glob Base/Lanes.v.beautified Base/Lanes.required_vo: Base/Lanes.v Base/GoInt.vo
Base/Lanes.vio: Base/Lanes.v Base/GoInt.vio
Base/Lanes.vos Base/Lanes.vok Base/Lanes.required_vos: Base/Lanes.v Base/GoInt.vos
Base/LanesProofs.vo Base/LanesProofs.glob Base/LanesProofs.v.beautified Base/LanesProofs.required_vo: Base/LanesProofs.v Base/GoInt.vo Base/Lanes.vo
Base/LanesProofs.vio: Base/LanesProofs.v Base/GoInt.vio Base/Lanes.vio
Base/LanesProofs.vos Base/LanesProofs.vok Base/LanesProofs.required_vos: Base/LanesProofs.v Base/GoInt.vos Base/Lanes.vos
Iso8601/Ext.vo Iso8601/Ext.glob Iso8601/Ext.v.beautified Iso8601/Ext.required_vo: Iso8601/Ext.v Base/GoInt.vo
Iso8601/Ext.vio: Iso8601/Ext.v Base/GoInt.vio
Iso8601/Ext.vos Iso8601/Ext.vok Iso8601/Ext.required_vos: Iso8601/Ext.v Base/GoInt.vos
Generated/Iso8601Gen.vo Generated/Iso8601Gen.glob Generated/Iso8601Gen.v.beautified Generated/Iso8601Gen.required_vo: Generated/Iso8601Gen.v Base/GoInt.vo Iso8601/Ext.vo
Generated/Iso8601Gen.vio: Generated/Iso8601Gen.v Base/GoInt.vio Iso8601/Ext.vio
Generated/Iso8601Gen.vos Generated/Iso8601Gen.vok Generated/Iso8601Gen.required_vos: Generated/Iso8601Gen.v Base/GoInt.vos Iso8601/Ext.vos
Extract/Extract.vo Extract/Extract.glob Extract/Extract.v.beautified Extract/Extract.required_vo: Extract/Extract.v Base/GoInt.vo Iso8601/Ext.vo Generated/Iso8601Gen.vo Iso8601/Spec.vo Generated/AsmAsciiGen.vo Ascii/AsmTotal.vo Generated/AsciiGen.vo Ascii/Spec.vo Proto/Ext.vo Generated/ProtoGen.vo Proto/Model.vo Proto/PrimSpec.vo Proto/Spec.vo Json/Ext.vo Generated/JsonParseGen.vo Json/Grammar.vo Json/Spec.vo Thrift/Model.vo Thrift/Spec.vo Json/StreamModel.vo Json/StateSpec.vo
Extract/Extract.vio: Extract/Extract.v Base/GoInt.vio Iso8601/Ext.vio Generated/Iso8601Gen.vio Iso8601/Spec.vio Generated/AsmAsciiGen.vio Ascii/AsmTotal.vio Generated/AsciiGen.vio Ascii/Spec.vio Proto/Ext.vio Generated/ProtoGen.vio Proto/Model.vio Proto/PrimSpec.vio Proto/Spec.vio Json/Ext.vio Generated/JsonParseGen.vio Json/Grammar.vio Json/Spec.vio Thrift/Model.vio Thrift/Spec.vio Json/StreamModel.vio Json/StateSpec.vio
Extract/Extract.vos Extract/Extract.vok Extract/Extract.required_vos: Extract/Extract.v Base/GoInt.vos Iso8601/Ext.vos Generated/Iso8601Gen.vos Iso8601/Spec.vos Generated/AsmAsciiGen.vos Ascii/AsmTotal.vos Generated/AsciiGen.vos Ascii/Spec.vos Proto/Ext.vos Generated/ProtoGen.vos Proto/Model.vos Proto/PrimSpec.vos Proto/Spec.vos Json/Ext.vos Generated/JsonParseGen.vos Json/Grammar.vos Json/Spec.vos Thrift/Model.vos Thrift/Spec.vos Json/StreamModel.vos Json/StateSpec.vos
Iso8601/Spec.vo Iso8601/Spec.glob Iso8601/Spec.v.beautified Iso8601/Spec.required_vo: Iso8601/Spec.v Base/GoInt.vo Iso8601/Ext.vo Generated/Iso8601Gen.vo
Iso8601/Spec.vio: Iso8601/Spec.v Base/GoInt.vio Iso8601/Ext.vio Generated/Iso8601Gen.vio
Iso8601/Spec.vos Iso8601/Spec.vok Iso8601/Spec.required_vos: Iso8601/Spec.v Base/GoInt.vos Iso8601/Ext.vos Generated/Iso8601Gen.vos
Iso8601/Proofs.vo Iso8601/Proofs.glob Iso8601/Proofs.v.beautified Iso8601/Proofs.required_vo: Iso8601/Proofs.v Base/GoInt.vo Base/Lanes.vo Base/LanesProofs.vo Iso8601/Ext.vo Generated/Iso8601Gen.vo Iso8601/Spec.vo
Iso8601/Proofs.vio: Iso8601/Proofs.v Base/GoInt.vio Base/Lanes.vio Base/LanesProofs.vio Iso8601/Ext.vio Generated/Iso8601Gen.vio Iso8601/Spec.vio
Iso8601/Proofs.vos Iso8601/Proofs.vok Iso8601/Proofs.required_vos: Iso8601/Proofs.v Base/GoInt.vos Base/Lanes.vos Base/LanesProofs.vos Iso8601/Ext.vos Generated/Iso8601Gen.vos Iso8601/Spec.vos
Properties/C18.vo Properties/C18.glob Properties/C18.v.beautified Properties/C18.required_vo: Properties/C18.v Base/GoInt.vo Iso8601/Ext.vo Generated/Iso8601Gen.vo Iso8601/Spec.vo Iso8601/Proofs.vo
Properties/C18.vio: Properties/C18.v Base/GoInt.vio Iso8601/Ext.vio Generated/Iso8601Gen.vio Iso8601/Spec.vio Iso8601/Proofs.vio
Properties/C18.vos Properties/C18.vok Properties/C18.required_vos: Properties/C18.v Base/GoInt.vos Iso8601/Ext.vos Generated/Iso8601Gen.vos Iso8601/Spec.vos Iso8601/Proofs.vos
Generated/AsmAsciiGen.vo Generated/AsmAsciiGen.glob Generated/AsmAsciiGen.v.beautified Generated/AsmAsciiGen.required_vo: Generated/AsmAsciiGen.v Base/GoInt.vo
Generated/AsmAsciiGen.vio: Generated/AsmAsciiGen.v Base/GoInt.vio
Generated/AsmAsciiGen.vos Generated/AsmAsciiGen.vok Generated/AsmAsciiGen.required_vos: Generated/AsmAsciiGen.v Base/GoInt.vos
Ascii/AsmTotal.vo Ascii/AsmTotal.glob Ascii/AsmTotal.v.beautified Ascii/AsmTotal.required_vo: Ascii/AsmTotal.v Base/GoInt.vo Generated/AsmAsciiGen.vo
Ascii/AsmTotal.vio: Ascii/AsmTotal.v Base/GoInt.vio Generated/AsmAsciiGen.vio
Ascii/AsmTotal.vos Ascii/AsmTotal.vok Ascii/AsmTotal.required_vos: Ascii/AsmTotal.v Base/GoInt.vos Generated/AsmAsciiGen.vos
Generated/AsciiGen.vo Generated/AsciiGen.glob Generated/AsciiGen.v.beautified Generated/AsciiGen.required_vo: Generated/AsciiGen.v Base/GoInt.vo Generated/AsmAsciiGen.vo Ascii/AsmTotal.vo
Generated/AsciiGen.vio: Generated/AsciiGen.v Base/GoInt.vio Generated/AsmAsciiGen.vio Ascii/AsmTotal.vio
Generated/AsciiGen.vos Generated/AsciiGen.vok Generated/AsciiGen.required_vos: Generated/AsciiGen.v Base/GoInt.vos Generated/AsmAsciiGen.vos Ascii/AsmTotal.vos
Ascii/Spec.vo Ascii/Spec.glob Ascii/Spec.v.beautified Ascii/Spec.required_vo: Ascii/Spec.v Base/GoInt.vo Generated/AsmAsciiGen.vo Ascii/AsmTotal.vo Generated/AsciiGen.vo
Ascii/Spec.vio: Ascii/Spec.v Base/GoInt.vio Generated/AsmAsciiGen.vio Ascii/AsmTotal.vio Generated/AsciiGen.vio
Ascii/Spec.vos Ascii/Spec.vok Ascii/Spec.required_vos: Ascii/Spec.v Base/GoInt.vos Generated/AsmAsciiGen.vos Ascii/AsmTotal.vos Generated/AsciiGen.vos
Ascii/Proofs.vo Ascii/Proofs.glob Ascii/Proofs.v.beautified Ascii/Proofs.required_vo: Ascii/Proofs.v Base/GoInt.vo Base/Lanes.vo Base/LanesProofs.vo Generated/AsmAsciiGen.vo Ascii/AsmTotal.vo Generated/AsciiGen.vo Ascii/Spec.vo
Ascii/Proofs.vio: Ascii/Proofs.v Base/GoInt.vio Base/Lanes.vio Base/LanesProofs.vio Generated/AsmAsciiGen.vio Ascii/AsmTotal.vio Generated/AsciiGen.vio Ascii/Spec.vio
Ascii/Proofs.vos Ascii/Proofs.vok Ascii/Proofs.required_vos: Ascii/Proofs.v Base/GoInt.vos Base/Lanes.vos Base/LanesProofs.vos Generated/AsmAsciiGen.vos Ascii/AsmTotal.vos Generated/AsciiGen.vos Ascii/Spec.vos
Properties/C20.vo Properties/C20.glob Properties/C20.v.beautified Properties/C20.required_vo: Properties/C20.v Base/GoInt.vo Generated/AsmAsciiGen.vo Ascii/AsmTotal.vo Generated/AsciiGen.vo Ascii/Spec.vo Ascii/Proofs.vo
Properties/C20.vio: Properties/C20.v Base/GoInt.vio Generated/AsmAsciiGen.vio Ascii/AsmTotal.vio Generated/AsciiGen.vio Ascii/Spec.vio Ascii/Proofs.vio
Properties/C20.vos Properties/C20.vok Properties/C20.required_vos: Properties/C20.v Base/GoInt.vos Generated/AsmAsciiGen.vos Ascii/AsmTotal.vos Generated/AsciiGen.vos Ascii/Spec.vos Ascii/Proofs.vos
Proto/Ext.vo Proto/Ext.glob Proto/Ext.v.beautified Proto/Ext.required_vo: Proto/Ext.v Base/GoInt.vo
Proto/Ext.vio: Proto/Ext.v Base/GoInt.vio
Proto/Ext.vos Proto/Ext.vok Proto/Ext.required_vos: Proto/Ext.v Base/GoInt.vos
Generated/ProtoGen.vo Generated/ProtoGen.glob Generated/ProtoGen.v.beautified Generated/ProtoGen.required_vo: Generated/ProtoGen.v Base/GoInt.vo Proto/Ext.vo
Generated/ProtoGen.vio: Generated/ProtoGen.v Base/GoInt.vio Proto/Ext.vio
Generated/ProtoGen.vos Generated/ProtoGen.vok Generated/ProtoGen.required_vos: Generated/ProtoGen.v Base/GoInt.vos Proto/Ext.vos
Proto/Model.vo Proto/Model.glob Proto/Model.v.beautified Proto/Model.required_vo: Proto/Model.v Base/GoInt.vo Proto/Ext.vo Generated/ProtoGen.vo
Proto/Model.vio: Proto/Model.v Base/GoInt.vio Proto/Ext.vio Generated/ProtoGen.vio
Proto/Model.vos Proto/Model.vok Proto/Model.required_vos: Proto/Model.v Base/GoInt.vos Proto/Ext.vos Generated/ProtoGen.vos
Proto/PrimProofs.vo Proto/PrimProofs.glob Proto/PrimProofs.v.beautified Proto/PrimProofs.required_vo: Proto/PrimProofs.v Base/GoInt.vo Proto/Ext.vo Generated/ProtoGen.vo Proto/PrimSpec.vo
Proto/PrimProofs.vio: Proto/PrimProofs.v Base/GoInt.vio Proto/Ext.vio Generated/ProtoGen.vio Proto/PrimSpec.vio
Proto/PrimProofs.vos Proto/PrimProofs.vok Proto/PrimProofs.required_vos: Proto/PrimProofs.v Base/GoInt.vos Proto/Ext.vos Generated/ProtoGen.vos Proto/PrimSpec.vos
Proto/Spec.vo Proto/Spec.glob Proto/Spec.v.beautified Proto/Spec.required_vo: Proto/Spec.v Base/GoInt.vo Proto/Ext.vo Generated/ProtoGen.vo Proto/Model.vo Proto/PrimSpec.vo
Proto/Spec.vio: Proto/Spec.v Base/GoInt.vio Proto/Ext.vio Generated/ProtoGen.vio Proto/Model.vio Proto/PrimSpec.vio
Proto/Spec.vos Proto/Spec.vok Proto/Spec.required_vos: Proto/Spec.v Base/GoInt.vos Proto/Ext.vos Generated/ProtoGen.vos Proto/Model.vos Proto/PrimSpec.vos
Proto/DecProofs.vo Proto/DecProofs.glob Proto/DecProofs.v.beautified Proto/DecProofs.required_vo: Proto/DecProofs.v Base/GoInt.vo Proto/Ext.vo Generated/ProtoGen.vo Proto/Model.vo Proto/PrimSpec.vo Proto/PrimProofs.vo Proto/Spec.vo
Proto/DecProofs.vio: Proto/DecProofs.v Base/GoInt.vio Proto/Ext.vio Generated/ProtoGen.vio Proto/Model.vio Proto/PrimSpec.vio Proto/PrimProofs.vio Proto/Spec.vio
Proto/DecProofs.vos Proto/DecProofs.vok Proto/DecProofs.required_vos: Proto/DecProofs.v Base/GoInt.vos Proto/Ext.vos Generated/ProtoGen.vos Proto/Model.vos Proto/PrimSpec.vos Proto/PrimProofs.vos Proto/Spec.vos
Proto/RoundTrip.vo Proto/RoundTrip.glob Proto/RoundTrip.v.beautified Proto/RoundTrip.required_vo: Proto/RoundTrip.v Base/GoInt.vo Proto/Ext.vo Generated/ProtoGen.vo Proto/Model.vo Proto/PrimSpec.vo Proto/PrimProofs.vo Proto/Spec.vo Proto/DecProofs.vo
Proto/RoundTrip.vio: Proto/RoundTrip.v Base/GoInt.vio Proto/Ext.vio Generated/ProtoGen.vio Proto/Model.vio Proto/PrimSpec.vio Proto/PrimProofs.vio Proto/Spec.vio Proto/DecProofs.vio
Proto/RoundTrip.vos Proto/RoundTrip.vok Proto/RoundTrip.required_vos: Proto/RoundTrip.v Base/GoInt.vos Proto/Ext.vos Generated/ProtoGen.vos Proto/Model.vos Proto/PrimSpec.vos Proto/PrimProofs.vos Proto/Spec.vos Proto/DecProofs.vos
Proto/EncProofs.vo Proto/EncProofs.glob Proto/EncProofs.v.beautified Proto/EncProofs.required_vo: Proto/EncProofs.v Base/GoInt.vo Proto/Ext.vo Generated/ProtoGen.vo Proto/Model.vo Proto/PrimSpec.vo Proto/PrimProofs.vo Proto/Spec.vo
Proto/EncProofs.vio: Proto/EncProofs.v Base/GoInt.vio Proto/Ext.vio Generated/ProtoGen.vio Proto/Model.vio Proto/PrimSpec.vio Proto/PrimProofs.vio Proto/Spec.vio
Proto/EncProofs.vos Proto/EncProofs.vok Proto/EncProofs.required_vos: Proto/EncProofs.v Base/GoInt.vos Proto/Ext.vos Generated/ProtoGen.vos Proto/Model.vos Proto/PrimSpec.vos Proto/PrimProofs.vos Proto/Spec.vos
Proto/PrimSpec.vo Proto/PrimSpec.glob Proto/PrimSpec.v.beautified Proto/PrimSpec.required_vo: Proto/PrimSpec.v Base/GoInt.vo Proto/Ext.vo Generated/ProtoGen.vo
Proto/PrimSpec.vio: Proto/PrimSpec.v Base/GoInt.vio Proto/Ext.vio Generated/ProtoGen.vio
Proto/PrimSpec.vos Proto/PrimSpec.vok Proto/PrimSpec.required_vos: Proto/PrimSpec.v Base/GoInt.vos Proto/Ext.vos Generated/ProtoGen.vos
Properties/C03.vo Properties/C03.glob Properties/C03.v.beautified Properties/C03.required_vo: Properties/C03.v Base/GoInt.vo Proto/Ext.vo Generated/ProtoGen.vo Proto/Model.vo Proto/PrimSpec.vo Proto/Spec.vo Proto/EncProofs.vo Proto/RoundTrip.vo
Properties/C03.vio: Properties/C03.v Base/GoInt.vio Proto/Ext.vio Generated/ProtoGen.vio Proto/Model.vio Proto/PrimSpec.vio Proto/Spec.vio Proto/EncProofs.vio Proto/RoundTrip.vio
Properties/C03.vos Properties/C03.vok Properties/C03.required_vos: Properties/C03.v Base/GoInt.vos Proto/Ext.vos Generated/ProtoGen.vos Proto/Model.vos Proto/PrimSpec.vos Proto/Spec.vos Proto/EncProofs.vos Proto/RoundTrip.vos
Json/Ext.vo Json/Ext.glob Json/Ext.v.beautified Json/Ext.required_vo: Json/Ext.v Base/GoInt.vo Base/Lanes.vo
Json/Ext.vio: Json/Ext.v Base/GoInt.vio Base/Lanes.vio
Json/Ext.vos Json/Ext.vok Json/Ext.required_vos: Json/Ext.v Base/GoInt.vos Base/Lanes.vos
Generated/JsonParseGen.vo Generated/JsonParseGen.glob Generated/JsonParseGen.v.beautified Generated/JsonParseGen.required_vo: Generated/JsonParseGen.v Base/GoInt.vo Generated/AsmAsciiGen.vo Ascii/AsmTotal.vo Generated/AsciiGen.vo Json/Ext.vo
Generated/JsonParseGen.vio: Generated/JsonParseGen.v Base/GoInt.vio Generated/AsmAsciiGen.vio Ascii/AsmTotal.vio Generated/AsciiGen.vio Json/Ext.vio
Generated/JsonParseGen.vos Generated/JsonParseGen.vok Generated/JsonParseGen.required_vos: Generated/JsonParseGen.v Base/GoInt.vos Generated/AsmAsciiGen.vos Ascii/AsmTotal.vos Generated/AsciiGen.vos Json/Ext.vos
Json/Grammar.vo Json/Grammar.glob Json/Grammar.v.beautified Json/Grammar.required_vo: Json/Grammar.v Base/GoInt.vo
Json/Grammar.vio: Json/Grammar.v Base/GoInt.vio
Json/Grammar.vos Json/Grammar.vok Json/Grammar.required_vos: Json/Grammar.v Base/GoInt.vos
Json/Spec.vo Json/Spec.glob Json/Spec.v.beautified Json/Spec.required_vo: Json/Spec.v Base/GoInt.vo Generated/AsmAsciiGen.vo Ascii/AsmTotal.vo Generated/AsciiGen.vo Json/Ext.vo Generated/JsonParseGen.vo Json/Grammar.vo
Json/Spec.vio: Json/Spec.v Base/GoInt.vio Generated/AsmAsciiGen.vio Ascii/AsmTotal.vio Generated/AsciiGen.vio Json/Ext.vio Generated/JsonParseGen.vio Json/Grammar.vio
Json/Spec.vos Json/Spec.vok Json/Spec.required_vos: Json/Spec.v Base/GoInt.vos Generated/AsmAsciiGen.vos Ascii/AsmTotal.vos Generated/AsciiGen.vos Json/Ext.vos Generated/JsonParseGen.vos Json/Grammar.vos
Json/ValidProofs.vo Json/ValidProofs.glob Json/ValidProofs.v.beautified Json/ValidProofs.required_vo: Json/ValidProofs.v Base/GoInt.vo Base/Lanes.vo Base/LanesProofs.vo Generated/AsmAsciiGen.vo Ascii/AsmTotal.vo Generated/AsciiGen.vo Ascii/Spec.vo Ascii/Proofs.vo Json/Ext.vo Generated/JsonParseGen.vo Json/Grammar.vo Json/Spec.vo
Json/ValidProofs.vio: Json/ValidProofs.v Base/GoInt.vio Base/Lanes.vio Base/LanesProofs.vio Generated/AsmAsciiGen.vio Ascii/AsmTotal.vio Generated/AsciiGen.vio Ascii/Spec.vio Ascii/Proofs.vio Json/Ext.vio Generated/JsonParseGen.vio Json/Grammar.vio Json/Spec.vio
Json/ValidProofs.vos Json/ValidProofs.vok Json/ValidProofs.required_vos: Json/ValidProofs.v Base/GoInt.vos Base/Lanes.vos Base/LanesProofs.vos Generated/AsmAsciiGen.vos Ascii/AsmTotal.vos Generated/AsciiGen.vos Ascii/Spec.vos Ascii/Proofs.vos Json/Ext.vos Generated/JsonParseGen.vos Json/Grammar.vos Json/Spec.vos
Properties/C05.vo Properties/C05.glob Properties/C05.v.beautified Properties/C05.required_vo: Properties/C05.v Base/GoInt.vo Json/Ext.vo Generated/JsonParseGen.vo Json/Grammar.vo Json/Spec.vo Json/ValidProofs.vo
Properties/C05.vio: Properties/C05.v Base/GoInt.vio Json/Ext.vio Generated/JsonParseGen.vio Json/Grammar.vio Json/Spec.vio Json/ValidProofs.vio
Properties/C05.vos Properties/C05.vok Properties/C05.required_vos: Properties/C05.v Base/GoInt.vos Json/Ext.vos Generated/JsonParseGen.vos Json/Grammar.vos Json/Spec.vos Json/ValidProofs.vos
Properties/C16.vo Properties/C16.glob Properties/C16.v.beautified Properties/C16.required_vo: Properties/C16.v Base/GoInt.vo Proto/Ext.vo Generated/ProtoGen.vo Proto/Model.vo Proto/PrimSpec.vo Proto/Spec.vo Proto/EncProofs.vo
Properties/C16.vio: Properties/C16.v Base/GoInt.vio Proto/Ext.vio Generated/ProtoGen.vio Proto/Model.vio Proto/PrimSpec.vio Proto/Spec.vio Proto/EncProofs.vio
Properties/C16.vos Properties/C16.vok Properties/C16.required_vos: Properties/C16.v Base/GoInt.vos Proto/Ext.vos Generated/ProtoGen.vos Proto/Model.vos Proto/PrimSpec.vos Proto/Spec.vos Proto/EncProofs.vos
Properties/C07.vo Properties/C07.glob Properties/C07.v.beautified Properties/C07.required_vo: Properties/C07.v Base/GoInt.vo Proto/Ext.vo Generated/ProtoGen.vo Proto/Model.vo Proto/PrimSpec.vo Proto/Spec.vo Proto/DecProofs.vo
Properties/C07.vio: Properties/C07.v Base/GoInt.vio Proto/Ext.vio Generated/ProtoGen.vio Proto/Model.vio Proto/PrimSpec.vio Proto/Spec.vio Proto/DecProofs.vio
Properties/C07.vos Properties/C07.vok Properties/C07.required_vos: Properties/C07.v Base/GoInt.vos Proto/Ext.vos Generated/ProtoGen.vos Proto/Model.vos Proto/PrimSpec.vos Proto/Spec.vos Proto/DecProofs.vos
Thrift/Model.vo Thrift/Model.glob Thrift/Model.v.beautified Thrift/Model.required_vo: Thrift/Model.v Base/GoInt.vo
Thrift/Model.vio: Thrift/Model.v Base/GoInt.vio
Thrift/Model.vos Thrift/Model.vok Thrift/Model.required_vos: Thrift/Model.v Base/GoInt.vos
Thrift/Spec.vo Thrift/Spec.glob Thrift/Spec.v.beautified Thrift/Spec.required_vo: Thrift/Spec.v Base/GoInt.vo Thrift/Model.vo
Thrift/Spec.vio: Thrift/Spec.v Base/GoInt.vio Thrift/Model.vio
Thrift/Spec.vos Thrift/Spec.vok Thrift/Spec.required_vos: Thrift/Spec.v Base/GoInt.vos Thrift/Model.vos
Thrift/ProofsB.vo Thrift/ProofsB.glob Thrift/ProofsB.v.beautified Thrift/ProofsB.required_vo: Thrift/ProofsB.v Base/GoInt.vo Thrift/Model.vo Thrift/Spec.vo
Thrift/ProofsB.vio: Thrift/ProofsB.v Base/GoInt.vio Thrift/Model.vio Thrift/Spec.vio
Thrift/ProofsB.vos Thrift/ProofsB.vok Thrift/ProofsB.required_vos: Thrift/ProofsB.v Base/GoInt.vos Thrift/Model.vos Thrift/Spec.vos
Thrift/ProofsA.vo Thrift/ProofsA.glob Thrift/ProofsA.v.beautified Thrift/ProofsA.required_vo: Thrift/ProofsA.v Base/GoInt.vo Thrift/Model.vo Thrift/Spec.vo
Thrift/ProofsA.vio: Thrift/ProofsA.v Base/GoInt.vio Thrift/Model.vio Thrift/Spec.vio
Thrift/ProofsA.vos Thrift/ProofsA.vok Thrift/ProofsA.required_vos: Thrift/ProofsA.v Base/GoInt.vos Thrift/Model.vos Thrift/Spec.vos
Properties/C04.vo Properties/C04.glob Properties/C04.v.beautified Properties/C04.required_vo: Properties/C04.v Base/GoInt.vo Thrift/Model.vo Thrift/Spec.vo Thrift/ProofsB.vo
Properties/C04.vio: Properties/C04.v Base/GoInt.vio Thrift/Model.vio Thrift/Spec.vio Thrift/ProofsB.vio
Properties/C04.vos Properties/C04.vok Properties/C04.required_vos: Properties/C04.v Base/GoInt.vos Thrift/Model.vos Thrift/Spec.vos Thrift/ProofsB.vos
Properties/C08.vo Properties/C08.glob Properties/C08.v.beautified Properties/C08.required_vo: Properties/C08.v Base/GoInt.vo Thrift/Model.vo Thrift/Spec.vo Thrift/ProofsA.vo Thrift/ProofsB.vo
Properties/C08.vio: Properties/C08.v Base/GoInt.vio Thrift/Model.vio Thrift/Spec.vio Thrift/ProofsA.vio Thrift/ProofsB.vio
Properties/C08.vos Properties/C08.vok Properties/C08.required_vos: Properties/C08.v Base/GoInt.vos Thrift/Model.vos Thrift/Spec.vos Thrift/ProofsA.vos Thrift/ProofsB.vos
Properties/C13.vo Properties/C13.glob Properties/C13.v.beautified Properties/C13.required_vo: Properties/C13.v Base/GoInt.vo Thrift/Model.vo Thrift/Spec.vo Thrift/ProofsA.vo
Properties/C13.vio: Properties/C13.v Base/GoInt.vio Thrift/Model.vio Thrift/Spec.vio Thrift/ProofsA.vio
Properties/C13.vos Properties/C13.vok Properties/C13.required_vos: Properties/C13.v Base/GoInt.vos Thrift/Model.vos Thrift/Spec.vos Thrift/ProofsA.vos
Properties/C01.vo Properties/C01.glob Properties/C01.v.beautified Properties/C01.required_vo: Properties/C01.v Base/GoInt.vo
Properties/C01.vio: Properties/C01.v Base/GoInt.vio
Properties/C01.vos Properties/C01.vok Properties/C01.required_vos: Properties/C01.v Base/GoInt.vos
Properties/C02.vo Properties/C02.glob Properties/C02.v.beautified Properties/C02.required_vo: Properties/C02.v Base/GoInt.vo
Properties/C02.vio: Properties/C02.v Base/GoInt.vio
Properties/C02.vos Properties/C02.vok Properties/C02.required_vos: Properties/C02.v Base/GoInt.vos
Json/StreamModel.vo Json/StreamModel.glob Json/StreamModel.v.beautified Json/StreamModel.required_vo: Json/StreamModel.v Base/GoInt.vo Generated/AsmAsciiGen.vo Ascii/AsmTotal.vo Generated/AsciiGen.vo Json/Ext.vo Generated/JsonParseGen.vo
Json/StreamModel.vio: Json/StreamModel.v Base/GoInt.vio Generated/AsmAsciiGen.vio Ascii/AsmTotal.vio Generated/AsciiGen.vio Json/Ext.vio Generated/JsonParseGen.vio
Json/StreamModel.vos Json/StreamModel.vok Json/StreamModel.required_vos: Json/StreamModel.v Base/GoInt.vos Generated/AsmAsciiGen.vos Ascii/AsmTotal.vos Generated/AsciiGen.vos Json/Ext.vos Generated/JsonParseGen.vos
Json/StateSpec.vo Json/StateSpec.glob Json/StateSpec.v.beautified Json/StateSpec.required_vo: Json/StateSpec.v Base/GoInt.vo Generated/AsmAsciiGen.vo Ascii/AsmTotal.vo Generated/AsciiGen.vo Json/Ext.vo Generated/JsonParseGen.vo Json/Grammar.vo Json/StreamModel.vo
Json/StateSpec.vio: Json/StateSpec.v Base/GoInt.vio Generated/AsmAsciiGen.vio Ascii/AsmTotal.vio Generated/AsciiGen.vio Json/Ext.vio Generated/JsonParseGen.vio Json/Grammar.vio Json/StreamModel.vio
Json/StateSpec.vos Json/StateSpec.vok Json/StateSpec.required_vos: Json/StateSpec.v Base/GoInt.vos Generated/AsmAsciiGen.vos Ascii/AsmTotal.vos Generated/AsciiGen.vos Json/Ext.vos Generated/JsonParseGen.vos Json/Grammar.vos Json/StreamModel.vos
Json/TokenProofs.vo Json/TokenProofs.glob Json/TokenProofs.v.beautified Json/TokenProofs.required_vo: Json/TokenProofs.v Base/GoInt.vo Generated/AsmAsciiGen.vo Ascii/AsmTotal.vo Generated/AsciiGen.vo Json/Ext.vo Generated/JsonParseGen.vo Json/Grammar.vo Json/Spec.vo Json/ValidProofs.vo Json/StreamModel.vo Json/StateSpec.vo
Json/TokenProofs.vio: Json/TokenProofs.v Base/GoInt.vio Generated/AsmAsciiGen.vio Ascii/AsmTotal.vio Generated/AsciiGen.vio Json/Ext.vio Generated/JsonParseGen.vio Json/Grammar.vio Json/Spec.vio Json/ValidProofs.vio Json/StreamModel.vio Json/StateSpec.vio
Json/TokenProofs.vos Json/TokenProofs.vok Json/TokenProofs.required_vos: Json/TokenProofs.v Base/GoInt.vos Generated/AsmAsciiGen.vos Ascii/AsmTotal.vos Generated/AsciiGen.vos Json/Ext.vos Generated/JsonParseGen.vos Json/Grammar.vos Json/Spec.vos Json/ValidProofs.vos Json/StreamModel.vos Json/StateSpec.vos
Json/StreamProofs.vo Json/StreamProofs.glob Json/StreamProofs.v.beautified Json/StreamProofs.required_vo: Json/StreamProofs.v Base/GoInt.vo Generated/AsmAsciiGen.vo Ascii/AsmTotal.vo Generated/AsciiGen.vo Json/Ext.vo Generated/JsonParseGen.vo Json/Grammar.vo Json/Spec.vo Json/ValidProofs.vo Json/StreamModel.vo Json/StateSpec.vo
Json/StreamProofs.vio: Json/StreamProofs.v Base/GoInt.vio Generated/AsmAsciiGen.vio Ascii/AsmTotal.vio Generated/AsciiGen.vio Json/Ext.vio Generated/JsonParseGen.vio Json/Grammar.vio Json/Spec.vio Json/ValidProofs.vio Json/StreamModel.vio Json/StateSpec.vio
Json/StreamProofs.vos Json/StreamProofs.vok Json/StreamProofs.required_vos: Json/StreamProofs.v Base/GoInt.vos Generated/AsmAsciiGen.vos Ascii/AsmTotal.vos Generated/AsciiGen.vos Json/Ext.vos Generated/JsonParseGen.vos Json/Grammar.vos Json/Spec.vos Json/ValidProofs.vos Json/StreamModel.vos Json/StateSpec.vos
Properties/C11.vo Properties/C11.glob Properties/C11.v.beautified Properties/C11.required_vo: Properties/C11.v Base/GoInt.vo Json/Ext.vo Json/StreamModel.vo Json/StateSpec.vo Json/StreamProofs.vo
Properties/C11.vio: Properties/C11.v Base/GoInt.vio Json/Ext.vio Json/StreamModel.vio Json/StateSpec.vio Json/StreamProofs.vio
Properties/C11.vos Properties/C11.vok Properties/C11.required_vos: Properties/C11.v Base/GoInt.vos Json/Ext.vos Json/StreamModel.vos Json/StateSpec.vos Json/StreamProofs.vos
Properties/C17.vo Properties/C17.glob Properties/C17.v.beautified Properties/C17.required_vo: Properties/C17.v Base/GoInt.vo Json/Ext.vo Json/StreamModel.vo Json/StateSpec.vo Json/TokenProofs.vo
Properties/C17.vio: Properties/C17.v Base/GoInt.vio Json/Ext.vio Json/StreamModel.vio Json/StateSpec.vio Json/TokenProofs.vio
Properties/C17.vos Properties/C17.vok Properties/C17.required_vos: Properties/C17.v Base/GoInt.vos Json/Ext.vos Json/StreamModel.vos Json/StateSpec.vos Json/TokenProofs.vos
Json/AppendModel.vo Json/AppendModel.glob Json/AppendModel.v.beautified Json/AppendModel.required_vo: Json/AppendModel.v Base/GoInt.vo
Json/AppendModel.vio: Json/AppendModel.v Base/GoInt.vio
Json/AppendModel.vos Json/AppendModel.vok Json/AppendModel.required_vos: Json/AppendModel.v Base/GoInt.vos
Proto/RewriteModel.vo Proto/RewriteModel.glob Proto/RewriteModel.v.beautified Proto/RewriteModel.required_vo: Proto/RewriteModel.v Base/GoInt.vo Proto/Ext.vo Generated/ProtoGen.vo
Proto/RewriteModel.vio: Proto/RewriteModel.v Base/GoInt.vio Proto/Ext.vio Generated/ProtoGen.vio
Proto/RewriteModel.vos Proto/RewriteModel.vok Proto/RewriteModel.required_vos: Proto/RewriteModel.v Base/GoInt.vos Proto/Ext.vos Generated/ProtoGen.vos
Extract/Extract_c19.vo Extract/Extract_c19.glob Extract/Extract_c19.v.beautified Extract/Extract_c19.required_vo: Extract/Extract_c19.v Base/GoInt.vo Proto/Ext.vo Generated/ProtoGen.vo Proto/RewriteModel.vo
Extract/Extract_c19.vio: Extract/Extract_c19.v Base/GoInt.vio Proto/Ext.vio Generated/ProtoGen.vio Proto/RewriteModel.vio
Extract/Extract_c19.vos Extract/Extract_c19.vok Extract/Extract_c19.required_vos: Extract/Extract_c19.v Base/GoInt.vos Proto/Ext.vos Generated/ProtoGen.vos Proto/RewriteModel.vos
Conc/CacheModel.vo Conc/CacheModel.glob Conc/CacheModel.v.beautified Conc/CacheModel.required_vo: Conc/CacheModel.v 
Conc/CacheModel.vio: Conc/CacheModel.v 
Conc/CacheModel.vos Conc/CacheModel.vok Conc/CacheModel.required_vos: Conc/CacheModel.v 
Conc/CacheSpec.vo Conc/CacheSpec.glob Conc/CacheSpec.v.beautified Conc/CacheSpec.required_vo: Conc/CacheSpec.v Conc/CacheModel.vo
Conc/CacheSpec.vio: Conc/CacheSpec.v Conc/CacheModel.vio
Conc/CacheSpec.vos Conc/CacheSpec.vok Conc/CacheSpec.required_vos: Conc/CacheSpec.v Conc/CacheModel.vos
Conc/PoolModel.vo Conc/PoolModel.glob Conc/PoolModel.v.beautified Conc/PoolModel.required_vo: Conc/PoolModel.v 
Conc/PoolModel.vio: Conc/PoolModel.v 
Conc/PoolModel.vos Conc/PoolModel.vok Conc/PoolModel.required_vos: Conc/PoolModel.v 
Conc/PoolSpec.vo Conc/PoolSpec.glob Conc/PoolSpec.v.beautified Conc/PoolSpec.required_vo: Conc/PoolSpec.v Conc/PoolModel.vo
Conc/PoolSpec.vio: Conc/PoolSpec.v Conc/PoolModel.vio
Conc/PoolSpec.vos Conc/PoolSpec.vok Conc/PoolSpec.required_vos: Conc/PoolSpec.v Conc/PoolModel.vos
Conc/CacheProofs.vo Conc/CacheProofs.glob Conc/CacheProofs.v.beautified Conc/CacheProofs.required_vo: Conc/CacheProofs.v Conc/CacheModel.vo Conc/CacheSpec.vo
Conc/CacheProofs.vio: Conc/CacheProofs.v Conc/CacheModel.vio Conc/CacheSpec.vio
Conc/CacheProofs.vos Conc/CacheProofs.vok Conc/CacheProofs.required_vos: Conc/CacheProofs.v Conc/CacheModel.vos Conc/CacheSpec.vos
Conc/LockProofs.vo Conc/LockProofs.glob Conc/LockProofs.v.beautified Conc/LockProofs.required_vo: Conc/LockProofs.v Conc/CacheModel.vo Conc/CacheSpec.vo
Conc/LockProofs.vio: Conc/LockProofs.v Conc/CacheModel.vio Conc/CacheSpec.vio
Conc/LockProofs.vos Conc/LockProofs.vok Conc/LockProofs.required_vos: Conc/LockProofs.v Conc/CacheModel.vos Conc/CacheSpec.vos
Conc/PoolProofs.vo Conc/PoolProofs.glob Conc/PoolProofs.v.beautified Conc/PoolProofs.required_vo: Conc/PoolProofs.v Conc/PoolModel.vo Conc/PoolSpec.vo
Conc/PoolProofs.vio: Conc/PoolProofs.v Conc/PoolModel.vio Conc/PoolSpec.vio
Conc/PoolProofs.vos Conc/PoolProofs.vok Conc/PoolProofs.required_vos: Conc/PoolProofs.v Conc/PoolModel.vos Conc/PoolSpec.vos
Proto/RewriteSpec.vo Proto/RewriteSpec.glob Proto/RewriteSpec.v.beautified Proto/RewriteSpec.required_vo: Proto/RewriteSpec.v Base/GoInt.vo Proto/Ext.vo Generated/ProtoGen.vo Proto/PrimSpec.vo Proto/RewriteModel.vo
Proto/RewriteSpec.vio: Proto/RewriteSpec.v Base/GoInt.vio Proto/Ext.vio Generated/ProtoGen.vio Proto/PrimSpec.vio Proto/RewriteModel.vio
Proto/RewriteSpec.vos Proto/RewriteSpec.vok Proto/RewriteSpec.required_vos: Proto/RewriteSpec.v Base/GoInt.vos Proto/Ext.vos Generated/ProtoGen.vos Proto/PrimSpec.vos Proto/RewriteModel.vos
Json/FlagsModel.vo Json/FlagsModel.glob Json/FlagsModel.v.beautified Json/FlagsModel.required_vo: Json/FlagsModel.v Base/GoInt.vo Json/Ext.vo Generated/JsonParseGen.vo
Json/FlagsModel.vio: Json/FlagsModel.v Base/GoInt.vio Json/Ext.vio Generated/JsonParseGen.vio
Json/FlagsModel.vos Json/FlagsModel.vok Json/FlagsModel.required_vos: Json/FlagsModel.v Base/GoInt.vos Json/Ext.vos Generated/JsonParseGen.vos
Json/FlagsSpec.vo Json/FlagsSpec.glob Json/FlagsSpec.v.beautified Json/FlagsSpec.required_vo: Json/FlagsSpec.v Base/GoInt.vo Json/Ext.vo Json/Grammar.vo Generated/JsonParseGen.vo Json/FlagsModel.vo
Json/FlagsSpec.vio: Json/FlagsSpec.v Base/GoInt.vio Json/Ext.vio Json/Grammar.vio Generated/JsonParseGen.vio Json/FlagsModel.vio
Json/FlagsSpec.vos Json/FlagsSpec.vok Json/FlagsSpec.required_vos: Json/FlagsSpec.v Base/GoInt.vos Json/Ext.vos Json/Grammar.vos Generated/JsonParseGen.vos Json/FlagsModel.vos
Json/FlagsProofs.vo Json/FlagsProofs.glob Json/FlagsProofs.v.beautified Json/FlagsProofs.required_vo: Json/FlagsProofs.v Base/GoInt.vo Json/Ext.vo Json/Grammar.vo Generated/JsonParseGen.vo Json/ValidProofs.vo Json/FlagsModel.vo Json/FlagsSpec.vo Json/FlagsIntProofs.vo Json/FlagsKindProofs.vo
Json/FlagsProofs.vio: Json/FlagsProofs.v Base/GoInt.vio Json/Ext.vio Json/Grammar.vio Generated/JsonParseGen.vio Json/ValidProofs.vio Json/FlagsModel.vio Json/FlagsSpec.vio Json/FlagsIntProofs.vio Json/FlagsKindProofs.vio
Json/FlagsProofs.vos Json/FlagsProofs.vok Json/FlagsProofs.required_vos: Json/FlagsProofs.v Base/GoInt.vos Json/Ext.vos Json/Grammar.vos Generated/JsonParseGen.vos Json/ValidProofs.vos Json/FlagsModel.vos Json/FlagsSpec.vos Json/FlagsIntProofs.vos Json/FlagsKindProofs.vos
Properties/C14.vo Properties/C14.glob Properties/C14.v.beautified Properties/C14.required_vo: Properties/C14.v Json/FlagsModel.vo Json/FlagsSpec.vo Json/FlagsIntProofs.vo Json/FlagsKindProofs.vo Json/FlagsProofs.vo
Properties/C14.vio: Properties/C14.v Json/FlagsModel.vio Json/FlagsSpec.vio Json/FlagsIntProofs.vio Json/FlagsKindProofs.vio Json/FlagsProofs.vio
Properties/C14.vos Properties/C14.vok Properties/C14.required_vos: Properties/C14.v Json/FlagsModel.vos Json/FlagsSpec.vos Json/FlagsIntProofs.vos Json/FlagsKindProofs.vos Json/FlagsProofs.vos
Extract/Extract_c14.vo Extract/Extract_c14.glob Extract/Extract_c14.v.beautified Extract/Extract_c14.required_vo: Extract/Extract_c14.v Base/GoInt.vo Json/Ext.vo Generated/JsonParseGen.vo Json/Grammar.vo Json/FlagsModel.vo Json/FlagsSpec.vo
Extract/Extract_c14.vio: Extract/Extract_c14.v Base/GoInt.vio Json/Ext.vio Generated/JsonParseGen.vio Json/Grammar.vio Json/FlagsModel.vio Json/FlagsSpec.vio
Extract/Extract_c14.vos Extract/Extract_c14.vok Extract/Extract_c14.required_vos: Extract/Extract_c14.v Base/GoInt.vos Json/Ext.vos Generated/JsonParseGen.vos Json/Grammar.vos Json/FlagsModel.vos Json/FlagsSpec.vos
Proto/RewriteWire.vo Proto/RewriteWire.glob Proto/RewriteWire.v.beautified Proto/RewriteWire.required_vo: Proto/RewriteWire.v Base/GoInt.vo Proto/Ext.vo Generated/ProtoGen.vo Proto/PrimSpec.vo Proto/PrimProofs.vo Proto/RewriteModel.vo Proto/RewriteSpec.vo
Proto/RewriteWire.vio: Proto/RewriteWire.v Base/GoInt.vio Proto/Ext.vio Generated/ProtoGen.vio Proto/PrimSpec.vio Proto/PrimProofs.vio Proto/RewriteModel.vio Proto/RewriteSpec.vio
Proto/RewriteWire.vos Proto/RewriteWire.vok Proto/RewriteWire.required_vos: Proto/RewriteWire.v Base/GoInt.vos Proto/Ext.vos Generated/ProtoGen.vos Proto/PrimSpec.vos Proto/PrimProofs.vos Proto/RewriteModel.vos Proto/RewriteSpec.vos
Proto/WireSpec.vo Proto/WireSpec.glob Proto/WireSpec.v.beautified Proto/WireSpec.required_vo: Proto/WireSpec.v Base/GoInt.vo Proto/Ext.vo Generated/ProtoGen.vo Proto/Model.vo Proto/PrimSpec.vo Proto/Spec.vo
Proto/WireSpec.vio: Proto/WireSpec.v Base/GoInt.vio Proto/Ext.vio Generated/ProtoGen.vio Proto/Model.vio Proto/PrimSpec.vio Proto/Spec.vio
Proto/WireSpec.vos Proto/WireSpec.vok Proto/WireSpec.required_vos: Proto/WireSpec.v Base/GoInt.vos Proto/Ext.vos Generated/ProtoGen.vos Proto/Model.vos Proto/PrimSpec.vos Proto/Spec.vos
Extract/Extract_c09.vo Extract/Extract_c09.glob Extract/Extract_c09.v.beautified Extract/Extract_c09.required_vo: Extract/Extract_c09.v Conc/CacheModel.vo Conc/CacheSpec.vo Conc/PoolModel.vo
Extract/Extract_c09.vio: Extract/Extract_c09.v Conc/CacheModel.vio Conc/CacheSpec.vio Conc/PoolModel.vio
Extract/Extract_c09.vos Extract/Extract_c09.vok Extract/Extract_c09.required_vos: Extract/Extract_c09.v Conc/CacheModel.vos Conc/CacheSpec.vos Conc/PoolModel.vos
Extract/Extract_c12.vo Extract/Extract_c12.glob Extract/Extract_c12.v.beautified Extract/Extract_c12.required_vo: Extract/Extract_c12.v Base/GoInt.vo Proto/Ext.vo Generated/ProtoGen.vo Proto/Model.vo Proto/PrimSpec.vo Proto/Spec.vo Proto/WireSpec.vo
Extract/Extract_c12.vio: Extract/Extract_c12.v Base/GoInt.vio Proto/Ext.vio Generated/ProtoGen.vio Proto/Model.vio Proto/PrimSpec.vio Proto/Spec.vio Proto/WireSpec.vio
Extract/Extract_c12.vos Extract/Extract_c12.vok Extract/Extract_c12.required_vos: Extract/Extract_c12.v Base/GoInt.vos Proto/Ext.vos Generated/ProtoGen.vos Proto/Model.vos Proto/PrimSpec.vos Proto/Spec.vos Proto/WireSpec.vos
Json/MemModel.vo Json/MemModel.glob Json/MemModel.v.beautified Json/MemModel.required_vo: Json/MemModel.v Base/GoInt.vo Json/Ext.vo Generated/JsonParseGen.vo
Json/MemModel.vio: Json/MemModel.v Base/GoInt.vio Json/Ext.vio Generated/JsonParseGen.vio
Json/MemModel.vos Json/MemModel.vok Json/MemModel.required_vos: Json/MemModel.v Base/GoInt.vos Json/Ext.vos Generated/JsonParseGen.vos
Extract/Extract_c10.vo Extract/Extract_c10.glob Extract/Extract_c10.v.beautified Extract/Extract_c10.required_vo: Extract/Extract_c10.v Base/GoInt.vo Json/Ext.vo Generated/JsonParseGen.vo Json/MemModel.vo
Extract/Extract_c10.vio: Extract/Extract_c10.v Base/GoInt.vio Json/Ext.vio Generated/JsonParseGen.vio Json/MemModel.vio
Extract/Extract_c10.vos Extract/Extract_c10.vok Extract/Extract_c10.required_vos: Extract/Extract_c10.v Base/GoInt.vos Json/Ext.vos Generated/JsonParseGen.vos Json/MemModel.vos
Proto/RewriteSet.vo Proto/RewriteSet.glob Proto/RewriteSet.v.beautified Proto/RewriteSet.required_vo: Proto/RewriteSet.v Base/GoInt.vo Proto/Ext.vo Generated/ProtoGen.vo Proto/PrimSpec.vo Proto/PrimProofs.vo Proto/RewriteModel.vo Proto/RewriteSpec.vo
Proto/RewriteSet.vio: Proto/RewriteSet.v Base/GoInt.vio Proto/Ext.vio Generated/ProtoGen.vio Proto/PrimSpec.vio Proto/PrimProofs.vio Proto/RewriteModel.vio Proto/RewriteSpec.vio
Proto/RewriteSet.vos Proto/RewriteSet.vok Proto/RewriteSet.required_vos: Proto/RewriteSet.v Base/GoInt.vos Proto/Ext.vos Generated/ProtoGen.vos Proto/PrimSpec.vos Proto/PrimProofs.vos Proto/RewriteModel.vos Proto/RewriteSpec.vos
Properties/C12.vo Properties/C12.glob Properties/C12.v.beautified Properties/C12.required_vo: Properties/C12.v Base/GoInt.vo Proto/Model.vo Proto/Spec.vo Proto/WireSpec.vo Proto/WireRefuted.vo Proto/WireSpecProofs.vo
Properties/C12.vio: Properties/C12.v Base/GoInt.vio Proto/Model.vio Proto/Spec.vio Proto/WireSpec.vio Proto/WireRefuted.vio Proto/WireSpecProofs.vio
Properties/C12.vos Properties/C12.vok Properties/C12.required_vos: Properties/C12.v Base/GoInt.vos Proto/Model.vos Proto/Spec.vos Proto/WireSpec.vos Proto/WireRefuted.vos Proto/WireSpecProofs.vos
Json/MemSpec.vo Json/MemSpec.glob Json/MemSpec.v.beautified Json/MemSpec.required_vo: Json/MemSpec.v Base/GoInt.vo Json/Ext.vo Generated/JsonParseGen.vo Json/MemModel.vo
Json/MemSpec.vio: Json/MemSpec.v Base/GoInt.vio Json/Ext.vio Generated/JsonParseGen.vio Json/MemModel.vio
Json/MemSpec.vos Json/MemSpec.vok Json/MemSpec.required_vos: Json/MemSpec.v Base/GoInt.vos Json/Ext.vos Generated/JsonParseGen.vos Json/MemModel.vos
Json/FlagsIntProofs.vo Json/FlagsIntProofs.glob Json/FlagsIntProofs.v.beautified Json/FlagsIntProofs.required_vo: Json/FlagsIntProofs.v Base/GoInt.vo Json/Ext.vo Json/Grammar.vo Generated/JsonParseGen.vo Json/FlagsModel.vo Json/FlagsSpec.vo Json/ValidProofs.vo
Json/FlagsIntProofs.vio: Json/FlagsIntProofs.v Base/GoInt.vio Json/Ext.vio Json/Grammar.vio Generated/JsonParseGen.vio Json/FlagsModel.vio Json/FlagsSpec.vio Json/ValidProofs.vio
Json/FlagsIntProofs.vos Json/FlagsIntProofs.vok Json/FlagsIntProofs.required_vos: Json/FlagsIntProofs.v Base/GoInt.vos Json/Ext.vos Json/Grammar.vos Generated/JsonParseGen.vos Json/FlagsModel.vos Json/FlagsSpec.vos Json/ValidProofs.vos
Json/MemProofs.vo Json/MemProofs.glob Json/MemProofs.v.beautified Json/MemProofs.required_vo: Json/MemProofs.v Base/GoInt.vo Json/Ext.vo Generated/JsonParseGen.vo Json/MemModel.vo Json/MemSpec.vo
Json/MemProofs.vio: Json/MemProofs.v Base/GoInt.vio Json/Ext.vio Generated/JsonParseGen.vio Json/MemModel.vio Json/MemSpec.vio
Json/MemProofs.vos Json/MemProofs.vok Json/MemProofs.required_vos: Json/MemProofs.v Base/GoInt.vos Json/Ext.vos Generated/JsonParseGen.vos Json/MemModel.vos Json/MemSpec.vos
Proto/WireSpecProofs.vo Proto/WireSpecProofs.glob Proto/WireSpecProofs.v.beautified Proto/WireSpecProofs.required_vo: Proto/WireSpecProofs.v Base/GoInt.vo Proto/Ext.vo Generated/ProtoGen.vo Proto/Model.vo Proto/PrimSpec.vo Proto/PrimProofs.vo Proto/Spec.vo Proto/WireSpec.vo
Proto/WireSpecProofs.vio: Proto/WireSpecProofs.v Base/GoInt.vio Proto/Ext.vio Generated/ProtoGen.vio Proto/Model.vio Proto/PrimSpec.vio Proto/PrimProofs.vio Proto/Spec.vio Proto/WireSpec.vio
Proto/WireSpecProofs.vos Proto/WireSpecProofs.vok Proto/WireSpecProofs.required_vos: Proto/WireSpecProofs.v Base/GoInt.vos Proto/Ext.vos Generated/ProtoGen.vos Proto/Model.vos Proto/PrimSpec.vos Proto/PrimProofs.vos Proto/Spec.vos Proto/WireSpec.vos
Proto/WireEncProofs.vo Proto/WireEncProofs.glob Proto/WireEncProofs.v.beautified Proto/WireEncProofs.required_vo: Proto/WireEncProofs.v Base/GoInt.vo Proto/Ext.vo Generated/ProtoGen.vo Proto/Model.vo Proto/PrimSpec.vo Proto/PrimProofs.vo Proto/Spec.vo Proto/WireSpec.vo Proto/DecProofs.vo Proto/RoundTrip.vo
Proto/WireEncProofs.vio: Proto/WireEncProofs.v Base/GoInt.vio Proto/Ext.vio Generated/ProtoGen.vio Proto/Model.vio Proto/PrimSpec.vio Proto/PrimProofs.vio Proto/Spec.vio Proto/WireSpec.vio Proto/DecProofs.vio Proto/RoundTrip.vio
Proto/WireEncProofs.vos Proto/WireEncProofs.vok Proto/WireEncProofs.required_vos: Proto/WireEncProofs.v Base/GoInt.vos Proto/Ext.vos Generated/ProtoGen.vos Proto/Model.vos Proto/PrimSpec.vos Proto/PrimProofs.vos Proto/Spec.vos Proto/WireSpec.vos Proto/DecProofs.vos Proto/RoundTrip.vos
Proto/WireDecProofs.vo Proto/WireDecProofs.glob Proto/WireDecProofs.v.beautified Proto/WireDecProofs.required_vo: Proto/WireDecProofs.v Base/GoInt.vo Proto/Ext.vo Generated/ProtoGen.vo Proto/Model.vo Proto/PrimSpec.vo Proto/PrimProofs.vo Proto/Spec.vo Proto/WireSpec.vo Proto/DecProofs.vo Proto/RoundTrip.vo
Proto/WireDecProofs.vio: Proto/WireDecProofs.v Base/GoInt.vio Proto/Ext.vio Generated/ProtoGen.vio Proto/Model.vio Proto/PrimSpec.vio Proto/PrimProofs.vio Proto/Spec.vio Proto/WireSpec.vio Proto/DecProofs.vio Proto/RoundTrip.vio
Proto/WireDecProofs.vos Proto/WireDecProofs.vok Proto/WireDecProofs.required_vos: Proto/WireDecProofs.v Base/GoInt.vos Proto/Ext.vos Generated/ProtoGen.vos Proto/Model.vos Proto/PrimSpec.vos Proto/PrimProofs.vos Proto/Spec.vos Proto/WireSpec.vos Proto/DecProofs.vos Proto/RoundTrip.vos
Properties/C09.vo Properties/C09.glob Properties/C09.v.beautified Properties/C09.required_vo: Properties/C09.v Conc/CacheModel.vo Conc/CacheSpec.vo Conc/CacheProofs.vo Conc/LockProofs.vo Conc/PoolModel.vo Conc/PoolSpec.vo Conc/PoolProofs.vo
Properties/C09.vio: Properties/C09.v Conc/CacheModel.vio Conc/CacheSpec.vio Conc/CacheProofs.vio Conc/LockProofs.vio Conc/PoolModel.vio Conc/PoolSpec.vio Conc/PoolProofs.vio
Properties/C09.vos Properties/C09.vok Properties/C09.required_vos: Properties/C09.v Conc/CacheModel.vos Conc/CacheSpec.vos Conc/CacheProofs.vos Conc/LockProofs.vos Conc/PoolModel.vos Conc/PoolSpec.vos Conc/PoolProofs.vos
Json/FlagsKindProofs.vo Json/FlagsKindProofs.glob Json/FlagsKindProofs.v.beautified Json/FlagsKindProofs.required_vo: Json/FlagsKindProofs.v Base/GoInt.vo Json/Ext.vo Json/Grammar.vo Generated/JsonParseGen.vo Json/ValidProofs.vo Json/FlagsModel.vo Json/FlagsSpec.vo
Json/FlagsKindProofs.vio: Json/FlagsKindProofs.v Base/GoInt.vio Json/Ext.vio Json/Grammar.vio Generated/JsonParseGen.vio Json/ValidProofs.vio Json/FlagsModel.vio Json/FlagsSpec.vio
Json/FlagsKindProofs.vos Json/FlagsKindProofs.vok Json/FlagsKindProofs.required_vos: Json/FlagsKindProofs.v Base/GoInt.vos Json/Ext.vos Json/Grammar.vos Generated/JsonParseGen.vos Json/ValidProofs.vos Json/FlagsModel.vos Json/FlagsSpec.vos
Properties/C10.vo Properties/C10.glob Properties/C10.v.beautified Properties/C10.required_vo: Properties/C10.v Base/GoInt.vo Json/Ext.vo Json/MemModel.vo Json/MemSpec.vo Json/MemProofs.vo
Properties/C10.vio: Properties/C10.v Base/GoInt.vio Json/Ext.vio Json/MemModel.vio Json/MemSpec.vio Json/MemProofs.vio
Properties/C10.vos Properties/C10.vok Properties/C10.required_vos: Properties/C10.v Base/GoInt.vos Json/Ext.vos Json/MemModel.vos Json/MemSpec.vos Json/MemProofs.vos
Proto/WireRefuted.vo Proto/WireRefuted.glob Proto/WireRefuted.v.beautified Proto/WireRefuted.required_vo: Proto/WireRefuted.v Base/GoInt.vo Proto/Ext.vo Generated/ProtoGen.vo Proto/Model.vo Proto/PrimSpec.vo Proto/Spec.vo Proto/WireSpec.vo
Proto/WireRefuted.vio: Proto/WireRefuted.v Base/GoInt.vio Proto/Ext.vio Generated/ProtoGen.vio Proto/Model.vio Proto/PrimSpec.vio Proto/Spec.vio Proto/WireSpec.vio
Proto/WireRefuted.vos Proto/WireRefuted.vok Proto/WireRefuted.required_vos: Proto/WireRefuted.v Base/GoInt.vos Proto/Ext.vos Generated/ProtoGen.vos Proto/Model.vos Proto/PrimSpec.vos Proto/Spec.vos Proto/WireSpec.vos
Proto/RewriteProofs.vo Proto/RewriteProofs.glob Proto/RewriteProofs.v.beautified Proto/RewriteProofs.required_vo: Proto/RewriteProofs.v Base/GoInt.vo Proto/Ext.vo Generated/ProtoGen.vo Proto/PrimSpec.vo Proto/PrimProofs.vo Proto/RewriteModel.vo Proto/RewriteSpec.vo Proto/RewriteWire.vo Proto/RewriteSet.vo
Proto/RewriteProofs.vio: Proto/RewriteProofs.v Base/GoInt.vio Proto/Ext.vio Generated/ProtoGen.vio Proto/PrimSpec.vio Proto/PrimProofs.vio Proto/RewriteModel.vio Proto/RewriteSpec.vio Proto/RewriteWire.vio Proto/RewriteSet.vio
Proto/RewriteProofs.vos Proto/RewriteProofs.vok Proto/RewriteProofs.required_vos: Proto/RewriteProofs.v Base/GoInt.vos Proto/Ext.vos Generated/ProtoGen.vos Proto/PrimSpec.vos Proto/PrimProofs.vos Proto/RewriteModel.vos Proto/RewriteSpec.vos Proto/RewriteWire.vos Proto/RewriteSet.vos
Properties/C19.vo Properties/C19.glob Properties/C19.v.beautified Properties/C19.required_vo: Properties/C19.v Base/GoInt.vo Proto/Ext.vo Generated/ProtoGen.vo Proto/PrimSpec.vo Proto/RewriteModel.vo Proto/RewriteSpec.vo Proto/RewriteWire.vo Proto/RewriteSet.vo Proto/RewriteProofs.vo
Properties/C19.vio: Properties/C19.v Base/GoInt.vio Proto/Ext.vio Generated/ProtoGen.vio Proto/PrimSpec.vio Proto/RewriteModel.vio Proto/RewriteSpec.vio Proto/RewriteWire.vio Proto/RewriteSet.vio Proto/RewriteProofs.vio
Properties/C19.vos Properties/C19.vok Properties/C19.required_vos: Properties/C19.v Base/GoInt.vos Proto/Ext.vos Generated/ProtoGen.vos Proto/PrimSpec.vos Proto/RewriteModel.vos Proto/RewriteSpec.vos Proto/RewriteWire.vos Proto/RewriteSet.vos Proto/RewriteProofs.vos
Proto/WireProofs.vo Proto/WireProofs.glob Proto/WireProofs.v.beautified Proto/WireProofs.required_vo: Proto/WireProofs.v Base/GoInt.vo Proto/Ext.vo Generated/ProtoGen.vo Proto/Model.vo Proto/PrimSpec.vo Proto/Spec.vo Proto/WireSpec.vo
Proto/WireProofs.vio: Proto/WireProofs.v Base/GoInt.vio Proto/Ext.vio Generated/ProtoGen.vio Proto/Model.vio Proto/PrimSpec.vio Proto/Spec.vio Proto/WireSpec.vio
Proto/WireProofs.vos Proto/WireProofs.vok Proto/WireProofs.required_vos: Proto/WireProofs.v Base/GoInt.vos Proto/Ext.vos Generated/ProtoGen.vos Proto/Model.vos Proto/PrimSpec.vos Proto/Spec.vos Proto/WireSpec.vos
Extract/Extract_c15.vo Extract/Extract_c15.glob Extract/Extract_c15.v.beautified Extract/Extract_c15.required_vo: Extract/Extract_c15.v Base/GoInt.vo Json/AppendModel.vo
Extract/Extract_c15.vio: Extract/Extract_c15.v Base/GoInt.vio Json/AppendModel.vio
Extract/Extract_c15.vos Extract/Extract_c15.vok Extract/Extract_c15.required_vos: Extract/Extract_c15.v Base/GoInt.vos Json/AppendModel.vos
Properties/C15.vo Properties/C15.glob Properties/C15.v.beautified Properties/C15.required_vo: Properties/C15.v Base/GoInt.vo Json/AppendModel.vo
Properties/C15.vio: Properties/C15.v Base/GoInt.vio Json/AppendModel.vio
Properties/C15.vos Properties/C15.vok Properties/C15.required_vos: Properties/C15.v Base/GoInt.vos Json/AppendModel.vos
