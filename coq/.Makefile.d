Base/GoInt.vo Base/GoInt.glob Base/GoInt.v.beautified Base/GoInt.required_vo: Base/GoInt.v 
Base/GoInt.vio: Base/GoInt.v 
Base/GoInt.vos Base/GoInt.vok Base/GoInt.required_vos: Base/GoInt.v 
Base/Lanes.vo Base/Lanes.glob Base/Lanes.v.beautified Base/Lanes.required_vo: Base/Lanes.v Base/GoInt.vo
Base/Lanes.vio: Base/Lanes.v Base/GoInt.vio
Base/Lanes.vos Base/Lanes.vok Base/Lanes.required_vos: Base/Lanes.v Base/GoInt.vos
Base/LanesProofs.vo Base/LanesProofs.glob Base/LanesProofs.v.beautified Base/LanesProofs.required_vo: Base/LanesProofs.v Base/GoInt.vo Base/Lanes.vo
Base/LanesProofs.vio: Base/LanesProofs.v Base/GoInt.vio Base/Lanes.vio
Base/LanesProofs.vos Base/LanesProofs.vok Base/LanesProofs.required_vos: Base/LanesProofs.v Base/GoInt.vos Base/Lanes.vos
Iso8601/Ext.vo Iso8601/Ext.glob Iso8601/Ext.v.beautified Iso8601/Ext.required_vo: Iso8601/Ext.v Base/GoInt.vo
Iso8601/Ext.vio: Iso8601/Ext.v Base/GoInt.vio
Iso8601/Ext.vos Iso8601/Ext.vok Iso8601/Ext.required_vos: Iso8601/Ext.v Base/GoInt.vos
Generated/Iso8601Gen.vo Generated/Iso8601Gen.glob Generated/Iso8601Gen.v.beautified Generated/Iso8601Gen.required_vo: Generated/Iso8601Gen.v Base/GoInt.vo Iso8601/Ext.vo
Generated/Iso8601Gen.vio: Generated/Iso8601Gen.v Base/GoInt.vio Iso8601/Ext.vio
Generated/Iso8601Gen.vos Generated/Iso8601Gen.vok Generated/Iso8601Gen.required_vos: Generated/Iso8601Gen.v Base/GoInt.vos Iso8601/Ext.vos
Extract/Extract.vo Extract/Extract.glob Extract/Extract.v.beautified Extract/Extract.required_vo: Extract/Extract.v Base/GoInt.vo Iso8601/Ext.vo Generated/Iso8601Gen.vo Iso8601/Spec.vo Generated/AsmAsciiGen.vo Ascii/AsmTotal.vo Generated/AsciiGen.vo Ascii/Spec.vo Proto/Ext.vo Generated/ProtoGen.vo Proto/Model.vo Proto/PrimSpec.vo Proto/Spec.vo Json/Ext.vo Generated/JsonParseGen.vo Json/Grammar.vo Json/Spec.vo Thrift/Model.vo Thrift/Spec.vo Json/StreamModel.vo Json/StateSpec.vo
Extract/Extract.vio: Extract/Extract.v Base/GoInt.vio Iso8601/Ext.vio Generated/Iso8601Gen.vio Iso8601/Spec.vio Generated/AsmAsciiGen.vio Ascii/AsmTotal.vio Generated/AsciiGen.vio Ascii/Spec.vio Proto/Ext.vio Generated/ProtoGen.vio Proto/Model.vio Proto/PrimSpec.vio Proto/Spec.vio Json/Ext.vio Generated/JsonParseGen.vio Json/Grammar.vio Json/Spec.vio Thrift/Model.vio Thrift/Spec.vio Json/StreamModel.vio Json/StateSpec.vio
Extract/Extract.vos Extract/Extract.vok Extract/Extract.required_vos: Extract/Extract.v Base/GoInt.vos Iso8601/Ext.vos Generated/Iso8601Gen.vos Iso8601/Spec.vos Generated/AsmAsciiGen.vos Ascii/AsmTotal.vos Generated/AsciiGen.vos Ascii/Spec.vos Proto/Ext.vos Generated/ProtoGen.vos Proto/Model.vos Proto/PrimSpec.vos Proto/Spec.vos Json/Ext.vos Generated/JsonParseGen.vos Json/Grammar.vos Json/Spec.vos Thrift/Model.vos Thrift/Spec.vos Json/StreamModel.vos Json/StateSpec.vos
Iso8601/Spec.vo Iso8601/Spec.glob Iso8601/Spec.v.beautified Iso8601/Spec.required_vo: Iso8601/Spec.v Base/GoInt.vo Iso8601/Ext.vo Generated/Iso8601Gen.vo
Iso8601/Spec.vio: Iso8601/Spec.v Base/GoInt.vio Iso8601/Ext.vio Generated/Iso8601Gen.vio
Iso8601/Spec.vos Iso8601/Spec.vok Iso8601/Spec.required_vos: Iso8601/Spec.v Base/GoInt.vos Iso8601/Ext.vos Generated/Iso8601Gen.vos
Iso8601/Proofs.vo Iso8601/Proofs.glob Iso8601/Proofs.v.beautified Iso8601/Proofs.required_vo: Iso8601/Proofs.v Base/GoInt.vo Base/Lanes.vo Base/LanesProofs.vo Iso8601/Ext.vo Generated/Iso8601Gen.vo Iso8601/Spec.vo
Iso8601/Proofs.vio: Iso8601/Proofs.v Base/GoInt.vio Base/Lanes.vio Base/LanesProofs.vio Iso8601/Ext.vio Generated/Iso8601Gen.vio Iso8601/Spec.vio
Iso8601/Proofs.vos Iso8601/Proofs.vok Iso8601/Proofs.required_vos: Iso8601/Proofs.v Base/GoInt.vos Base/Lanes.vos Base/LanesProofs.vos Iso8601/Ext.vos Generated/Iso8601Gen.vos Iso8601/Spec.vos
Properties/C18.vo Properties/C18.glob Properties/C18.v.beautified Properties/C18.required_vo: Properties/C18.v Base/GoInt.vo Iso8601/Ext.vo Generated/Iso8601Gen.vo Iso8601/Spec.vo Iso8601/Proofs.vo
Properties/C18.vio: Properties/C18.v Base/GoInt.vio Iso8601/Ext.vio Generated/Iso8601Gen.vio Iso8601/Spec.vio Iso8601/Proofs.vio
Properties/C18.vos Properties/C18.vok Properties/C18.required_vos: Properties/C18.v Base/GoInt.vos Iso8601/Ext.vos Generated/Iso8601Gen.vos Iso8601/Spec.vos Iso8601/Proofs.vos
Generated/AsmAsciiGen.vo Generated/AsmAsciiGen.glob Generated/AsmAsciiGen.v.beautified Generated/AsmAsciiGen.required_vo: Generated/AsmAsciiGen.v Base/GoInt.vo
Generated/AsmAsciiGen.vio: Generated/AsmAsciiGen.v Base/GoInt.vio
Generated/AsmAsciiGen.vos Generated/AsmAsciiGen.vok Generated/AsmAsciiGen.required_vos: Generated/AsmAsciiGen.v Base/GoInt.vos
Ascii/AsmTotal.vo Ascii/AsmTotal.glob Ascii/AsmTotal.v.beautified Ascii/AsmTotal.required_vo: Ascii/AsmTotal.v Base/GoInt.vo Generated/AsmAsciiGen.vo
Ascii/AsmTotal.vio: Ascii/AsmTotal.v Base/GoInt.vio Generated/AsmAsciiGen.vio
Ascii/AsmTotal.vos Ascii/AsmTotal.vok Ascii/AsmTotal.required_vos: Ascii/AsmTotal.v Base/GoInt.vos Generated/AsmAsciiGen.vos
Generated/AsciiGen.vo Generated/AsciiGen.glob Generated/AsciiGen.v.beautified Generated/AsciiGen.required_vo: Generated/AsciiGen.v Base/GoInt.vo Generated/AsmAsciiGen.vo Ascii/AsmTotal.vo
Generated/AsciiGen.vio: Generated/AsciiGen.v Base/GoInt.vio Generated/AsmAsciiGen.vio Ascii/AsmTotal.vio
Generated/AsciiGen.vos Generated/AsciiGen.vok Generated/AsciiGen.required_vos: Generated/AsciiGen.v Base/GoInt.vos Generated/AsmAsciiGen.vos Ascii/AsmTotal.vos
Ascii/Spec.vo Ascii/Spec.glob Ascii/Spec.v.beautified Ascii/Spec.required_vo: Ascii/Spec.v Base/GoInt.vo Generated/AsmAsciiGen.vo Ascii/AsmTotal.vo Generated/AsciiGen.vo
Ascii/Spec.vio: Ascii/Spec.v Base/GoInt.vio Generated/AsmAsciiGen.vio Ascii/AsmTotal.vio Generated/AsciiGen.vio
Ascii/Spec.vos Ascii/Spec.vok Ascii/Spec.required_vos: Ascii/Spec.v Base/GoInt.vos Generated/AsmAsciiGen.vos Ascii/AsmTotal.vos Generated/AsciiGen.vos
Ascii/Proofs.vo Ascii/Proofs.glob Ascii/Proofs.v.beautified Ascii/Proofs.required_vo: Ascii/Proofs.v Base/GoInt.vo Base/Lanes.vo Base/LanesProofs.vo Generated/AsmAsciiGen.vo Ascii/AsmTotal.vo Generated/AsciiGen.vo Ascii/Spec.vo
Ascii/Proofs.vio: Ascii/Proofs.v Base/GoInt.vio Base/Lanes.vio Base/LanesProofs.vio Generated/AsmAsciiGen.vio Ascii/AsmTotal.vio Generated/AsciiGen.vio Ascii/Spec.vio
Ascii/Proofs.vos Ascii/Proofs.vok Ascii/Proofs.required_vos: Ascii/Proofs.v Base/GoInt.vos Base/Lanes.vos Base/LanesProofs.vos Generated/AsmAsciiGen.vos Ascii/AsmTotal.vos Generated/AsciiGen.vos Ascii/Spec.vos
Properties/C20.vo Properties/C20.glob Properties/C20.v.beautified Properties/C20.required_vo: Properties/C20.v Base/GoInt.vo Generated/AsmAsciiGen.vo Ascii/AsmTotal.vo Generated/AsciiGen.vo Ascii/Spec.vo Ascii/Proofs.vo
Properties/C20.vio: Properties/C20.v Base/GoInt.vio Generated/AsmAsciiGen.vio Ascii/AsmTotal.vio Generated/AsciiGen.vio Ascii/Spec.vio Ascii/Proofs.vio
Properties/C20.vos Properties/C20.vok Properties/C20.required_vos: Properties/C20.v Base/GoInt.vos Generated/AsmAsciiGen.vos Ascii/AsmTotal.vos Generated/AsciiGen.vos Ascii/Spec.vos Ascii/Proofs.vos
Proto/Ext.vo Proto/Ext.glob Proto/Ext.v.beautified Proto/Ext.required_vo: Proto/Ext.v Base/GoInt.vo
Proto/Ext.vio: Proto/Ext.v Base/GoInt.vio
Proto/Ext.vos Proto/Ext.vok Proto/Ext.required_vos: Proto/Ext.v Base/GoInt.vos
Generated/ProtoGen.vo Generated/ProtoGen.glob Generated/ProtoGen.v.beautified Generated/ProtoGen.required_vo: Generated/ProtoGen.v Base/GoInt.vo Proto/Ext.vo
Generated/ProtoGen.vio: Generated/ProtoGen.v Base/GoInt.vio Proto/Ext.vio
Generated/ProtoGen.vos Generated/ProtoGen.vok Generated/ProtoGen.required_vos: Generated/ProtoGen.v Base/GoInt.vos Proto/Ext.vos
Proto/Model.vo Proto/Model.glob Proto/Model.v.beautified Proto/Model.required_vo: Proto/Model.v Base/GoInt.vo Proto/Ext.vo Generated/ProtoGen.vo
Proto/Model.vio: Proto/Model.v Base/GoInt.vio Proto/Ext.vio Generated/ProtoGen.vio
Proto/Model.vos Proto/Model.vok Proto/Model.required_vos: Proto/Model.v Base/GoInt.vos Proto/Ext.vos Generated/ProtoGen.vos
Proto/PrimProofs.vo Proto/PrimProofs.glob Proto/PrimProofs.v.beautified Proto/PrimProofs.required_vo: Proto/PrimProofs.v Base/GoInt.vo Proto/Ext.vo Generated/ProtoGen.vo Proto/PrimSpec.vo
Proto/PrimProofs.vio: Proto/PrimProofs.v Base/GoInt.vio Proto/Ext.vio Generated/ProtoGen.vio Proto/PrimSpec.vio
Proto/PrimProofs.vos Proto/PrimProofs.vok Proto/PrimProofs.required_vos: Proto/PrimProofs.v Base/GoInt.vos Proto/Ext.vos Generated/ProtoGen.vos Proto/PrimSpec.vos
Proto/Spec.vo Proto/Spec.glob Proto/Spec.v.beautified Proto/Spec.required_vo: Proto/Spec.v Base/GoInt.vo Proto/Ext.vo Generated/ProtoGen.vo Proto/Model.vo Proto/PrimSpec.vo
Proto/Spec.vio: Proto/Spec.v Base/GoInt.vio Proto/Ext.vio Generated/ProtoGen.vio Proto/Model.vio Proto/PrimSpec.vio
Proto/Spec.vos Proto/Spec.vok Proto/Spec.required_vos: Proto/Spec.v Base/GoInt.vos Proto/Ext.vos Generated/ProtoGen.vos Proto/Model.vos Proto/PrimSpec.vos
Proto/DecProofs.vo Proto/DecProofs.glob Proto/DecProofs.v.beautified Proto/DecProofs.required_vo: Proto/DecProofs.v Base/GoInt.vo Proto/Ext.vo Generated/ProtoGen.vo Proto/Model.vo Proto/PrimSpec.vo Proto/PrimProofs.vo Proto/Spec.vo
Proto/DecProofs.vio: Proto/DecProofs.v Base/GoInt.vio Proto/Ext.vio Generated/ProtoGen.vio Proto/Model.vio Proto/PrimSpec.vio Proto/PrimProofs.vio Proto/Spec.vio
Proto/DecProofs.vos Proto/DecProofs.vok Proto/DecProofs.required_vos: Proto/DecProofs.v Base/GoInt.vos Proto/Ext.vos Generated/ProtoGen.vos Proto/Model.vos Proto/PrimSpec.vos Proto/PrimProofs.vos Proto/Spec.vos
Proto/RoundTrip.vo Proto/RoundTrip.glob Proto/RoundTrip.v.beautified Proto/RoundTrip.required_vo: Proto/RoundTrip.v Base/GoInt.vo Proto/Ext.vo Generated/ProtoGen.vo Proto/Model.vo Proto/PrimSpec.vo Proto/PrimProofs.vo Proto/Spec.vo Proto/DecProofs.vo
Proto/RoundTrip.vio: Proto/RoundTrip.v Base/GoInt.vio Proto/Ext.vio Generated/ProtoGen.vio Proto/Model.vio Proto/PrimSpec.vio Proto/PrimProofs.vio Proto/Spec.vio Proto/DecProofs.vio
Proto/RoundTrip.vos Proto/RoundTrip.vok Proto/RoundTrip.required_vos: Proto/RoundTrip.v Base/GoInt.vos Proto/Ext.vos Generated/ProtoGen.vos Proto/Model.vos Proto/PrimSpec.vos Proto/PrimProofs.vos Proto/Spec.vos Proto/DecProofs.vos
Proto/EncProofs.vo Proto/EncProofs.glob Proto/EncProofs.v.beautified Proto/EncProofs.required_vo: Proto/EncProofs.v Base/GoInt.vo Proto/Ext.vo Generated/ProtoGen.vo Proto/Model.vo Proto/PrimSpec.vo Proto/PrimProofs.vo Proto/Spec.vo
Proto/EncProofs.vio: Proto/EncProofs.v Base/GoInt.vio Proto/Ext.vio Generated/ProtoGen.vio Proto/Model.vio Proto/PrimSpec.vio Proto/PrimProofs.vio Proto/Spec.vio
Proto/EncProofs.vos Proto/EncProofs.vok Proto/EncProofs.required_vos: Proto/EncProofs.v Base/GoInt.vos Proto/Ext.vos Generated/ProtoGen.vos Proto/Model.vos Proto/PrimSpec.vos Proto/PrimProofs.vos Proto/Spec.vos
Proto/PrimSpec.vo Proto/PrimSpec.glob Proto/PrimSpec.v.beautified Proto/PrimSpec.required_vo: Proto/PrimSpec.v Base/GoInt.vo Proto/Ext.vo Generated/ProtoGen.vo
Proto/PrimSpec.vio: Proto/PrimSpec.v Base/GoInt.vio Proto/Ext.vio Generated/ProtoGen.vio
Proto/PrimSpec.vos Proto/PrimSpec.vok Proto/PrimSpec.required_vos: Proto/PrimSpec.v Base/GoInt.vos Proto/Ext.vos Generated/ProtoGen.vos
Properties/C03.vo Properties/C03.glob Properties/C03.v.beautified Properties/C03.required_vo: Properties/C03.v Base/GoInt.vo Proto/Ext.vo Generated/ProtoGen.vo Proto/Model.vo Proto/PrimSpec.vo Proto/Spec.vo Proto/EncProofs.vo Proto/RoundTrip.vo
Properties/C03.vio: Properties/C03.v Base/GoInt.vio Proto/Ext.vio Generated/ProtoGen.vio Proto/Model.vio Proto/PrimSpec.vio Proto/Spec.vio Proto/EncProofs.vio Proto/RoundTrip.vio
Properties/C03.vos Properties/C03.vok Properties/C03.required_vos: Properties/C03.v Base/GoInt.vos Proto/Ext.vos Generated/ProtoGen.vos Proto/Model.vos Proto/PrimSpec.vos Proto/Spec.vos Proto/EncProofs.vos Proto/RoundTrip.vos
Json/Ext.vo Json/Ext.glob Json/Ext.v.beautified Json/Ext.required_vo: Json/Ext.v Base/GoInt.vo Base/Lanes.vo
Json/Ext.vio: Json/Ext.v Base/GoInt.vio Base/Lanes.vio
Json/Ext.vos Json/Ext.vok Json/Ext.required_vos: Json/Ext.v Base/GoInt.vos Base/Lanes.vos
Generated/JsonParseGen.vo Generated/JsonParseGen.glob Generated/JsonParseGen.v.beautified Generated/JsonParseGen.required_vo: Generated/JsonParseGen.v Base/GoInt.vo Generated/AsmAsciiGen.vo Ascii/AsmTotal.vo Generated/AsciiGen.vo Json/Ext.vo
Generated/JsonParseGen.vio: Generated/JsonParseGen.v Base/GoInt.vio Generated/AsmAsciiGen.vio Ascii/AsmTotal.vio Generated/AsciiGen.vio Json/Ext.vio
Generated/JsonParseGen.vos Generated/JsonParseGen.vok Generated/JsonParseGen.required_vos: Generated/JsonParseGen.v Base/GoInt.vos Generated/AsmAsciiGen.vos Ascii/AsmTotal.vos Generated/AsciiGen.vos Json/Ext.vos
Json/Grammar.vo Json/Grammar.glob Json/Grammar.v.beautified Json/Grammar.required_vo: Json/Grammar.v Base/GoInt.vo
Json/Grammar.vio: Json/Grammar.v Base/GoInt.vio
Json/Grammar.vos Json/Grammar.vok Json/Grammar.required_vos: Json/Grammar.v Base/GoInt.vos
Json/Spec.vo Json/Spec.glob Json/Spec.v.beautified Json/Spec.required_vo: Json/Spec.v Base/GoInt.vo Generated/AsmAsciiGen.vo Ascii/AsmTotal.vo Generated/AsciiGen.vo Json/Ext.vo Generated/JsonParseGen.vo Json/Grammar.vo
Json/Spec.vio: Json/Spec.v Base/GoInt.vio Generated/AsmAsciiGen.vio Ascii/AsmTotal.vio Generated/AsciiGen.vio Json/Ext.vio Generated/JsonParseGen.vio Json/Grammar.vio
Json/Spec.vos Json/Spec.vok Json/Spec.required_vos: Json/Spec.v Base/GoInt.vos Generated/AsmAsciiGen.vos Ascii/AsmTotal.vos Generated/AsciiGen.vos Json/Ext.vos Generated/JsonParseGen.vos Json/Grammar.vos
Json/ValidProofs.vo Json/ValidProofs.glob Json/ValidProofs.v.beautified Json/ValidProofs.required_vo: Json/ValidProofs.v Base/GoInt.vo Base/Lanes.vo Base/LanesProofs.vo Generated/AsmAsciiGen.vo Ascii/AsmTotal.vo Generated/AsciiGen.vo Ascii/Spec.vo Ascii/Proofs.vo Json/Ext.vo Generated/JsonParseGen.vo Json/Grammar.vo Json/Spec.vo
Json/ValidProofs.vio: Json/ValidProofs.v Base/GoInt.vio Base/Lanes.vio Base/LanesProofs.vio Generated/AsmAsciiGen.vio Ascii/AsmTotal.vio Generated/AsciiGen.vio Ascii/Spec.vio Ascii/Proofs.vio Json/Ext.vio Generated/JsonParseGen.vio Json/Grammar.vio Json/Spec.vio
Json/ValidProofs.vos Json/ValidProofs.vok Json/ValidProofs.required_vos: Json/ValidProofs.v Base/GoInt.vos Base/Lanes.vos Base/LanesProofs.vos Generated/AsmAsciiGen.vos Ascii/AsmTotal.vos Generated/AsciiGen.vos Ascii/Spec.vos Ascii/Proofs.vos Json/Ext.vos Generated/JsonParseGen.vos Json/Grammar.vos Json/Spec.vos
Properties/C05.vo Properties/C05.glob Properties/C05.v.beautified Properties/C05.required_vo: Properties/C05.v Base/GoInt.vo Json/Ext.vo Generated/JsonParseGen.vo Json/Grammar.vo Json/Spec.vo Json/ValidProofs.vo
Properties/C05.vio: Properties/C05.v Base/GoInt.vio Json/Ext.vio Generated/JsonParseGen.vio Json/Grammar.vio Json/Spec.vio Json/ValidProofs.vio
Properties/C05.vos Properties/C05.vok Properties/C05.required_vos: Properties/C05.v Base/GoInt.vos Json/Ext.vos Generated/JsonParseGen.vos Json/Grammar.vos Json/Spec.vos Json/ValidProofs.vos
Properties/C16.vo Properties/C16.glob Properties/C16.v.beautified Properties/C16.required_vo: Properties/C16.v Base/GoInt.vo Proto/Ext.vo Generated/ProtoGen.vo Proto/Model.vo Proto/PrimSpec.vo Proto/Spec.vo Proto/EncProofs.vo
Properties/C16.vio: Properties/C16.v Base/GoInt.vio Proto/Ext.vio Generated/ProtoGen.vio Proto/Model.vio Proto/PrimSpec.vio Proto/Spec.vio Proto/EncProofs.vio
Properties/C16.vos Properties/C16.vok Properties/C16.required_vos: Properties/C16.v Base/GoInt.vos Proto/Ext.vos Generated/ProtoGen.vos Proto/Model.vos Proto/PrimSpec.vos Proto/Spec.vos Proto/EncProofs.vos
Properties/C07.vo Properties/C07.glob Properties/C07.v.beautified Properties/C07.required_vo: Properties/C07.v Base/GoInt.vo Proto/Ext.vo Generated/ProtoGen.vo Proto/Model.vo Proto/PrimSpec.vo Proto/Spec.vo Proto/DecProofs.vo
Properties/C07.vio: Properties/C07.v Base/GoInt.vio Proto/Ext.vio Generated/ProtoGen.vio Proto/Model.vio Proto/PrimSpec.vio Proto/Spec.vio Proto/DecProofs.vio
Properties/C07.vos Properties/C07.vok Properties/C07.required_vos: Properties/C07.v Base/GoInt.vos Proto/Ext.vos Generated/ProtoGen.vos Proto/Model.vos Proto/PrimSpec.vos Proto/Spec.vos Proto/DecProofs.vos
Thrift/Model.vo Thrift/Model.glob Thrift/Model.v.beautified Thrift/Model.required_vo: Thrift/Model.v Base/GoInt.vo
Thrift/Model.vio: Thrift/Model.v Base/GoInt.vio
Thrift/Model.vos Thrift/Model.vok Thrift/Model.required_vos: Thrift/Model.v Base/GoInt.vos
Thrift/Spec.vo Thrift/Spec.glob Thrift/Spec.v.beautified Thrift/Spec.required_vo: Thrift/Spec.v Base/GoInt.vo Thrift/Model.vo
Thrift/Spec.vio: Thrift/Spec.v Base/GoInt.vio Thrift/Model.vio
Thrift/Spec.vos Thrift/Spec.vok Thrift/Spec.required_vos: Thrift/Spec.v Base/GoInt.vos Thrift/Model.vos
Thrift/ProofsB.vo Thrift/ProofsB.glob Thrift/ProofsB.v.beautified Thrift/ProofsB.required_vo: Thrift/ProofsB.v Base/GoInt.vo Thrift/Model.vo Thrift/Spec.vo
Thrift/ProofsB.vio: Thrift/ProofsB.v Base/GoInt.vio Thrift/Model.vio Thrift/Spec.vio
Thrift/ProofsB.vos Thrift/ProofsB.vok Thrift/ProofsB.required_vos: Thrift/ProofsB.v Base/GoInt.vos Thrift/Model.vos Thrift/Spec.vos
Thrift/ProofsA.vo Thrift/ProofsA.glob Thrift/ProofsA.v.beautified Thrift/ProofsA.required_vo: Thrift/ProofsA.v Base/GoInt.vo Thrift/Model.vo Thrift/Spec.vo
Thrift/ProofsA.vio: Thrift/ProofsA.v Base/GoInt.vio Thrift/Model.vio Thrift/Spec.vio
Thrift/ProofsA.vos Thrift/ProofsA.vok Thrift/ProofsA.required_vos: Thrift/ProofsA.v Base/GoInt.vos Thrift/Model.vos Thrift/Spec.vos
Properties/C04.vo Properties/C04.glob Properties/C04.v.beautified Properties/C04.required_vo: Properties/C04.v Base/GoInt.vo Thrift/Model.vo Thrift/Spec.vo Thrift/ProofsB.vo
Properties/C04.vio: Properties/C04.v Base/GoInt.vio Thrift/Model.vio Thrift/Spec.vio Thrift/ProofsB.vio
Properties/C04.vos Properties/C04.vok Properties/C04.required_vos: Properties/C04.v Base/GoInt.vos Thrift/Model.vos Thrift/Spec.vos Thrift/ProofsB.vos
Properties/C08.vo Properties/C08.glob Properties/C08.v.beautified Properties/C08.required_vo: Properties/C08.v Base/GoInt.vo Thrift/Model.vo Thrift/Spec.vo Thrift/ProofsA.vo Thrift/ProofsB.vo
Properties/C08.vio: Properties/C08.v Base/GoInt.vio Thrift/Model.vio Thrift/Spec.vio Thrift/ProofsA.vio Thrift/ProofsB.vio
Properties/C08.vos Properties/C08.vok Properties/C08.required_vos: Properties/C08.v Base/GoInt.vos Thrift/Model.vos Thrift/Spec.vos Thrift/ProofsA.vos Thrift/ProofsB.vos
Properties/C13.vo Properties/C13.glob Properties/C13.v.beautified Properties/C13.required_vo: Properties/C13.v Base/GoInt.vo Thrift/Model.vo Thrift/Spec.vo Thrift/ProofsA.vo
Properties/C13.vio: Properties/C13.v Base/GoInt.vio Thrift/Model.vio Thrift/Spec.vio Thrift/ProofsA.vio
Properties/C13.vos Properties/C13.vok Properties/C13.required_vos: Properties/C13.v Base/GoInt.vos Thrift/Model.vos Thrift/Spec.vos Thrift/ProofsA.vos
Properties/C01.vo Properties/C01.glob Properties/C01.v.beautified Properties/C01.required_vo: Properties/C01.v Base/GoInt.vo
Properties/C01.vio: Properties/C01.v Base/GoInt.vio
Properties/C01.vos Properties/C01.vok Properties/C01.required_vos: Properties/C01.v Base/GoInt.vos
Properties/C02.vo Properties/C02.glob Properties/C02.v.beautified Properties/C02.required_vo: Properties/C02.v Base/GoInt.vo
Properties/C02.vio: Properties/C02.v Base/GoInt.vio
Properties/C02.vos Properties/C02.vok Properties/C02.required_vos: Properties/C02.v Base/GoInt.vos
Json/StreamModel.vo Json/StreamModel.glob Json/StreamModel.v.beautified Json/StreamModel.required_vo: Json/StreamModel.v Base/GoInt.vo Generated/AsmAsciiGen.vo Ascii/AsmTotal.vo Generated/AsciiGen.vo Json/Ext.vo Generated/JsonParseGen.vo
Json/StreamModel.vio: Json/StreamModel.v Base/GoInt.vio Generated/AsmAsciiGen.vio Ascii/AsmTotal.vio Generated/AsciiGen.vio Json/Ext.vio Generated/JsonParseGen.vio
Json/StreamModel.vos Json/StreamModel.vok Json/StreamModel.required_vos: Json/StreamModel.v Base/GoInt.vos Generated/AsmAsciiGen.vos Ascii/AsmTotal.vos Generated/AsciiGen.vos Json/Ext.vos Generated/JsonParseGen.vos
Json/StateSpec.vo Json/StateSpec.glob Json/StateSpec.v.beautified Json/StateSpec.required_vo: Json/StateSpec.v Base/GoInt.vo Generated/AsmAsciiGen.vo Ascii/AsmTotal.vo Generated/AsciiGen.vo Json/Ext.vo Generated/JsonParseGen.vo Json/Grammar.vo Json/StreamModel.vo
Json/StateSpec.vio: Json/StateSpec.v Base/GoInt.vio Generated/AsmAsciiGen.vio Ascii/AsmTotal.vio Generated/AsciiGen.vio Json/Ext.vio Generated/JsonParseGen.vio Json/Grammar.vio Json/StreamModel.vio
Json/StateSpec.vos Json/StateSpec.vok Json/StateSpec.required_vos: Json/StateSpec.v Base/GoInt.vos Generated/AsmAsciiGen.vos Ascii/AsmTotal.vos Generated/AsciiGen.vos Json/Ext.vos Generated/JsonParseGen.vos Json/Grammar.vos Json/StreamModel.vos
Json/TokenProofs.vo Json/TokenProofs.glob Json/TokenProofs.v.beautified Json/TokenProofs.required_vo: Json/TokenProofs.v Base/GoInt.vo Generated/AsmAsciiGen.vo Ascii/AsmTotal.vo Generated/AsciiGen.vo Json/Ext.vo Generated/JsonParseGen.vo Json/Grammar.vo Json/Spec.vo Json/ValidProofs.vo Json/StreamModel.vo Json/StateSpec.vo
Json/TokenProofs.vio: Json/TokenProofs.v Base/GoInt.vio Generated/AsmAsciiGen.vio Ascii/AsmTotal.vio Generated/AsciiGen.vio Json/Ext.vio Generated/JsonParseGen.vio Json/Grammar.vio Json/Spec.vio Json/ValidProofs.vio Json/StreamModel.vio Json/StateSpec.vio
Json/TokenProofs.vos Json/TokenProofs.vok Json/TokenProofs.required_vos: Json/TokenProofs.v Base/GoInt.vos Generated/AsmAsciiGen.vos Ascii/AsmTotal.vos Generated/AsciiGen.vos Json/Ext.vos Generated/JsonParseGen.vos Json/Grammar.vos Json/Spec.vos Json/ValidProofs.vos Json/StreamModel.vos Json/StateSpec.vos
Json/StreamProofs.vo Json/StreamProofs.glob Json/StreamProofs.v.beautified Json/StreamProofs.required_vo: Json/StreamProofs.v Base/GoInt.vo Generated/AsmAsciiGen.vo Ascii/AsmTotal.vo Generated/AsciiGen.vo Json/Ext.vo Generated/JsonParseGen.vo Json/Grammar.vo Json/Spec.vo Json/ValidProofs.vo Json/StreamModel.vo Json/StateSpec.vo
Json/StreamProofs.vio: Json/StreamProofs.v Base/GoInt.vio Generated/AsmAsciiGen.vio Ascii/AsmTotal.vio Generated/AsciiGen.vio Json/Ext.vio Generated/JsonParseGen.vio Json/Grammar.vio Json/Spec.vio Json/ValidProofs.vio Json/StreamModel.vio Json/StateSpec.vio
Json/StreamProofs.vos Json/StreamProofs.vok Json/StreamProofs.required_vos: Json/StreamProofs.v Base/GoInt.vos Generated/AsmAsciiGen.vos Ascii/AsmTotal.vos Generated/AsciiGen.vos Json/Ext.vos Generated/JsonParseGen.vos Json/Grammar.vos Json/Spec.vos Json/ValidProofs.vos Json/StreamModel.vos Json/StateSpec.vos
Properties/C11.vo Properties/C11.glob Properties/C11.v.beautified Properties/C11.required_vo: Properties/C11.v Base/GoInt.vo Json/StreamModel.vo
Properties/C11.vio: Properties/C11.v Base/GoInt.vio Json/StreamModel.vio
Properties/C11.vos Properties/C11.vok Properties/C11.required_vos: Properties/C11.v Base/GoInt.vos Json/StreamModel.vos
Properties/C17.vo Properties/C17.glob Properties/C17.v.beautified Properties/C17.required_vo: Properties/C17.v Base/GoInt.vo Json/Ext.vo Json/StreamModel.vo Json/StateSpec.vo Json/TokenProofs.vo
Properties/C17.vio: Properties/C17.v Base/GoInt.vio Json/Ext.vio Json/StreamModel.vio Json/StateSpec.vio Json/TokenProofs.vio
Properties/C17.vos Properties/C17.vok Properties/C17.required_vos: Properties/C17.v Base/GoInt.vos Json/Ext.vos Json/StreamModel.vos Json/StateSpec.vos Json/TokenProofs.vos
Json/AppendModel.vo Json/AppendModel.glob Json/AppendModel.v.beautified Json/AppendModel.required_vo: Json/AppendModel.v Base/GoInt.vo
Json/AppendModel.vio: Json/AppendModel.v Base/GoInt.vio
Json/AppendModel.vos Json/AppendModel.vok Json/AppendModel.required_vos: Json/AppendModel.v Base/GoInt.vos
