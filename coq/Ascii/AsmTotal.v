(* Fuel-free entry points of the translated segmentio/asm ascii functions, as called by the
   wrappers in /repo/ascii. Fuel = S (length of the input): Ascii/Proofs.v proves that this is
   always enough (the result is never None), so the [false] default below is never taken. *)
From Verif Require Import Base.GoInt Generated.AsmAsciiGen.
Open Scope Z_scope.

Definition run_fuel (o : option bool) : bool := match o with Some r => r | None => false end.

Definition asmt_Valid (b : bytes) : bool := run_fuel (asm_Valid (S (length b)) b).
Definition asmt_ValidString (s : bytes) : bool := run_fuel (asm_ValidString (S (length s)) s).
Definition asmt_ValidPrint (b : bytes) : bool := run_fuel (asm_ValidPrint (S (length b)) b).
Definition asmt_ValidPrintString (s : bytes) : bool := run_fuel (asm_ValidPrintString (S (length s)) s).
Definition asmt_EqualFold (a b : bytes) : bool := run_fuel (asm_EqualFold (S (length a)) a b).
Definition asmt_EqualFoldString (a b : bytes) : bool := run_fuel (asm_EqualFoldString (S (length a)) a b).
Definition asmt_HasPrefixFold (s p : bytes) : bool := run_fuel (asm_HasPrefixFold (S (length p)) s p).
Definition asmt_HasPrefixFoldString (s p : bytes) : bool := run_fuel (asm_HasPrefixFoldString (S (length p)) s p).
Definition asmt_HasSuffixFold (s p : bytes) : bool := run_fuel (asm_HasSuffixFold (S (length p)) s p).
Definition asmt_HasSuffixFoldString (s p : bytes) : bool := run_fuel (asm_HasSuffixFoldString (S (length p)) s p).
