(* Proofs for C20. *)
From Verif Require Import Base.GoInt Base.Lanes Base.LanesProofs Generated.AsmAsciiGen Ascii.AsmTotal Generated.AsciiGen Ascii.Spec.
From Coq Require Import ZifyBool.
Open Scope Z_scope.

Lemma lower_table : lower_table_statement.
Admitted.
Lemma byte_rune_spec : byte_rune_statement.
Admitted.
Lemma valid_spec : valid_statement.
Admitted.
Lemma valid_print_spec : valid_print_statement.
Admitted.
Lemma equal_fold_spec : equal_fold_statement.
Admitted.
Lemma has_prefix_fold_spec : has_prefix_fold_statement.
Admitted.
Lemma has_suffix_fold_spec : has_suffix_fold_statement.
Admitted.
Lemma fuel_enough : fuel_enough_statement.
Admitted.
