(* Proofs for C20. *)
From Verif Require Import Base.GoInt Base.Lanes Base.LanesProofs Generated.AsmAsciiGen Ascii.AsmTotal Generated.AsciiGen Ascii.Spec.
From Coq Require Import ZifyBool.
Open Scope Z_scope.

(* ---------- the table and the scalar predicates ---------- *)

Lemma lower_table : lower_table_statement.
Proof.
  intros b Hb. apply Z.eqb_eq.
  apply (byte_sweep (fun b => nth (Z.to_nat b) asm_lowerCase 0 =? lower b)); [vm_compute; reflexivity|assumption].
Qed.

Lemma byte_rune_spec : byte_rune_statement.
Proof.
  intros b.
  unfold ascii_ValidByte, ascii_ValidRune, ascii_ValidPrintByte, ascii_ValidPrintRune,
    asm_ValidByte, asm_ValidRune, asm_ValidPrintByte, asm_ValidPrintRune, is_ascii, is_print.
  repeat split; lia.
Qed.

(* ---------- small helpers ---------- *)

Lemma w64_small x : 0 <= x < 2 ^ 64 -> w64 x = x.
Proof. intros H. unfold w64. apply Z.mod_small. assumption. Qed.

Lemma skipn_add {A} (c k : nat) (l : list A) : skipn c (skipn k l) = skipn (c + k) l.
Proof.
  revert l; induction k as [|k IH]; intros l.
  - rewrite Nat.add_0_r. reflexivity.
  - rewrite Nat.add_succ_r. destruct l as [|x l]; [rewrite !skipn_nil; reflexivity|].
    cbn [skipn]. apply IH.
Qed.

Lemma wfb_app xs ys : wfb (xs ++ ys) = true <-> wfb xs = true /\ wfb ys = true.
Proof. unfold wfb. rewrite forallb_app, andb_true_iff. tauto. Qed.

Lemma wfb_firstn k xs : wfb xs = true -> wfb (firstn k xs) = true.
Proof. intros H. rewrite <- (firstn_skipn k xs) in H. apply wfb_app in H. tauto. Qed.

Lemma wfb_skipn k xs : wfb xs = true -> wfb (skipn k xs) = true.
Proof. intros H. rewrite <- (firstn_skipn k xs) in H. apply wfb_app in H. tauto. Qed.

Lemma iff_eqb0 x (b : bool) : (x = 0 <-> b = true) -> (x =? 0) = b.
Proof. intros H. destruct (Z.eqb_spec x 0) as [E|E]; destruct b; intuition congruence. Qed.

Lemma forallb_andb {A} (p q : A -> bool) l :
  forallb (fun x => p x && q x) l = forallb p l && forallb q l.
Proof.
  induction l as [|x l IH]; [reflexivity|]. cbn [forallb]. rewrite IH.
  destruct (p x), (q x), (forallb p l); reflexivity.
Qed.

(* ---------- the common shape of ValidString / ValidPrintString ---------- *)

Section VLoop.
  Variables (bad8 bad4 : Z -> bool) (tl : bytes -> Z -> option bool).
  Variables (s : bytes) (n : Z).

  Definition vk3 (i : Z) : option bool :=
    if i =? n then Some true else tl (slice_from s i) (sub64 n i).
  Definition vk4 (i : Z) : option bool :=
    if add64 i 4 <=? n then
      (if bad4 (le32 (slice_from s i)) then Some false else vk3 (add64 i 4))
    else vk3 i.
  Fixpoint vloop (fuel : nat) (i : Z) {struct fuel} : option bool :=
    match fuel with
    | O => None
    | S f => if add64 i 8 <=? n then
               (if bad8 (le64 (slice_from s i)) then Some false else vloop f (add64 i 8))
             else vk4 i
    end.

  Variable ok : Z -> bool.
  Hypothesis H8 : forall l, wfb l = true -> length l = 8%nat -> bad8 (le_load 8 l) = negb (forallb ok l).
  Hypothesis H4 : forall l, wfb l = true -> length l = 4%nat -> bad4 (le_load 4 l) = negb (forallb ok l).
  Hypothesis Htl : forall l, wfb l = true -> (1 <= length l <= 3)%nat -> tl l (len l) = Some (forallb ok l).
  Hypothesis Hs : wfb s = true.
  Hypothesis Hn : n = len s.
  Hypothesis Hb : len s < 2 ^ 63.

  Lemma chunk_split c k :
    forallb ok (skipn k s) = forallb ok (firstn c (skipn k s)) && forallb ok (skipn (c + k) s).
  Proof. rewrite <- skipn_add, <- forallb_app, firstn_skipn. reflexivity. Qed.

  Lemma slice_from_nat k : slice_from s (Z.of_nat k) = skipn k s.
  Proof. unfold slice_from. rewrite Nat2Z.id. reflexivity. Qed.

  Lemma add64_nat k c : (k <= length s)%nat -> 0 <= c <= 8 ->
    add64 (Z.of_nat k) c = Z.of_nat (Z.to_nat c + k).
  Proof.
    intros Hk Hc. unfold add64. rewrite w64_small; [lia|]. unfold len in Hb. lia.
  Qed.

  Lemma vk3_spec k : (k <= length s)%nat -> (length s - k <= 3)%nat ->
    vk3 (Z.of_nat k) = Some (forallb ok (skipn k s)).
  Proof.
    intros Hk Hr. unfold vk3. subst n. unfold len in *.
    destruct (Z.eqb_spec (Z.of_nat k) (Z.of_nat (length s))) as [E|E].
    - apply Nat2Z.inj in E. subst k. rewrite skipn_all. reflexivity.
    - rewrite slice_from_nat.
      assert (EL : sub64 (Z.of_nat (length s)) (Z.of_nat k) = len (skipn k s)).
      { unfold sub64, len. rewrite skipn_length, w64_small; lia. }
      rewrite EL. apply Htl; [apply wfb_skipn; assumption|]. rewrite skipn_length. lia.
  Qed.

  Lemma vk4_spec k : (k <= length s)%nat -> (length s - k < 8)%nat ->
    vk4 (Z.of_nat k) = Some (forallb ok (skipn k s)).
  Proof.
    intros Hk Hr. unfold vk4. rewrite (add64_nat k 4) by lia. change (Z.to_nat 4) with 4%nat.
    destruct (Z.leb_spec (Z.of_nat (4 + k)) n) as [L|L]; rewrite Hn in L; unfold len in L.
    - rewrite slice_from_nat. unfold le32. rewrite le_load_firstn.
      rewrite H4; [|apply wfb_firstn, wfb_skipn; assumption|rewrite firstn_length, skipn_length; lia].
      rewrite (chunk_split 4 k).
      destruct (forallb ok (firstn 4 (skipn k s))); cbn [negb andb]; [|reflexivity].
      apply vk3_spec; lia.
    - apply vk3_spec; lia.
  Qed.

  Lemma vloop_spec fuel : forall k, (k <= length s)%nat -> (length s - k < 8 * fuel)%nat ->
    vloop fuel (Z.of_nat k) = Some (forallb ok (skipn k s)).
  Proof.
    induction fuel as [|f IH]; intros k Hk Hr; [lia|].
    cbn [vloop]. rewrite (add64_nat k 8) by lia. change (Z.to_nat 8) with 8%nat.
    destruct (Z.leb_spec (Z.of_nat (8 + k)) n) as [L|L]; rewrite Hn in L; unfold len in L.
    - rewrite slice_from_nat. unfold le64. rewrite le_load_firstn.
      rewrite H8; [|apply wfb_firstn, wfb_skipn; assumption|rewrite firstn_length, skipn_length; lia].
      rewrite (chunk_split 8 k).
      destruct (forallb ok (firstn 8 (skipn k s))); cbn [negb andb]; [|reflexivity].
      apply IH; lia.
    - apply vk4_spec; lia.
  Qed.

  Lemma vloop_total : vloop (S (length s)) 0 = Some (forallb ok s).
  Proof. apply (vloop_spec (S (length s)) 0%nat); lia. Qed.
End VLoop.

(* ---------- ValidString ---------- *)

Definition valid_tl (p : bytes) (tag : Z) : option bool :=
  let k1_ := fun (x : Z) => Some ((and32 x 2155905152) =? 0) in
  if (tag =? 3) then k1_ (or32 (le16 p) (shl32 (at_ p 2) 16))
  else if (tag =? 2) then k1_ (le16 p)
  else if (tag =? 1) then k1_ (at_ p 0)
  else Some true.

Lemma asm_ValidString_vloop fuel s :
  asm_ValidString fuel s =
  vloop (fun w => negb (and64 w 9259542123273814144 =? 0))
        (fun w => negb (and32 w 2155905152 =? 0)) valid_tl s (w64 (len s)) fuel 0.
Proof. reflexivity. Qed.

Lemma lor4 a b c d a' b' c' d' :
  wfb [a; b; c; d] = true -> wfb [a'; b'; c'; d'] = true ->
  Z.lor (le_load 4 [a; b; c; d]) (le_load 4 [a'; b'; c'; d'])
  = le_load 4 [Z.lor a a'; Z.lor b b'; Z.lor c c'; Z.lor d d'].
Proof. intros H1 H2. rewrite le_load_lor by auto. reflexivity. Qed.

Lemma le16_lanes a b r : le16 (a :: b :: r) = le_load 4 [a; b; 0; 0].
Proof. unfold le16. cbn [le_load]. ring. Qed.

Lemma byte_lanes a : a = le_load 4 [a; 0; 0; 0].
Proof. cbn [le_load]. ring. Qed.

Lemma shl16_lanes c : 0 <= c < 256 -> shl32 c 16 = le_load 4 [0; 0; c; 0].
Proof.
  intros Hc. unfold shl32. change (16 <? 32) with true. cbv iota.
  rewrite Z.shiftl_mul_pow2 by lia. unfold w32.
  change (2 ^ 16) with 65536. change (2 ^ 32) with 4294967296. rewrite Z.mod_small by lia.
  cbn [le_load]. ring.
Qed.

Lemma wfb4 a b c d : 0 <= a < 256 -> 0 <= b < 256 -> 0 <= c < 256 -> 0 <= d < 256 -> wfb [a; b; c; d] = true.
Proof. intros. repeat (apply wfb_cons; split; [assumption|]). reflexivity. Qed.

Lemma msb4_ascii l : wfb l = true -> length l = 4%nat ->
  (and32 (le_load 4 l) 2155905152 =? 0) = forallb is_ascii l.
Proof.
  intros Hl Ll. apply iff_eqb0. unfold and32. change 2155905152 with (msbN 4).
  apply msb_flags_zero_iff; assumption.
Qed.

Lemma msb8_ascii l : wfb l = true -> length l = 8%nat ->
  (and64 (le_load 8 l) 9259542123273814144 =? 0) = forallb is_ascii l.
Proof.
  intros Hl Ll. apply iff_eqb0. unfold and64. change 9259542123273814144 with (msbN 8).
  apply msb_flags_zero_iff; assumption.
Qed.

Ltac wfb_split :=
  repeat match goal with
         | H : wfb (_ :: _) = true |- _ =>
           let B := fresh "B" in apply wfb_cons in H; destruct H as [B H]
         end.

Lemma valid_tl_spec l : wfb l = true -> (1 <= length l <= 3)%nat ->
  valid_tl l (len l) = Some (forallb is_ascii l).
Proof.
  intros Hl Ll. destruct l as [|a [|b [|c [|d l]]]]; cbn [length] in Ll; try lia; wfb_split.
  - change (len [a]) with 1. unfold valid_tl. cbv beta zeta.
    change (1 =? 3) with false. change (1 =? 2) with false. change (1 =? 1) with true. cbv iota.
    change (at_ [a] 0) with a. rewrite (byte_lanes a) at 1.
    rewrite msb4_ascii by (first [apply wfb4; lia | reflexivity]). cbn [forallb].
    change (is_ascii 0) with true. rewrite !andb_true_r. reflexivity.
  - change (len [a; b]) with 2. unfold valid_tl. cbv beta zeta.
    change (2 =? 3) with false. change (2 =? 2) with true. cbv iota.
    rewrite le16_lanes.
    rewrite msb4_ascii by (first [apply wfb4; lia | reflexivity]). cbn [forallb].
    change (is_ascii 0) with true. rewrite !andb_true_r. reflexivity.
  - change (len [a; b; c]) with 3. unfold valid_tl. cbv beta zeta.
    change (3 =? 3) with true. cbv iota.
    change (at_ [a; b; c] 2) with c. rewrite le16_lanes, shl16_lanes by assumption.
    unfold or32. rewrite lor4 by (apply wfb4; lia).
    rewrite !Z.lor_0_r, !Z.lor_0_l.
    rewrite msb4_ascii by (first [apply wfb4; lia | reflexivity]). cbn [forallb].
    change (is_ascii 0) with true. rewrite !andb_true_r. reflexivity.
Qed.

Lemma asm_ValidString_spec s : wfb s = true -> len s < 2 ^ 63 ->
  asm_ValidString (S (length s)) s = Some (forallb is_ascii s).
Proof.
  intros Hs Hb. rewrite asm_ValidString_vloop.
  apply vloop_total; auto.
  - intros l Hl Ll. rewrite msb8_ascii by assumption. reflexivity.
  - intros l Hl Ll. rewrite msb4_ascii by assumption. reflexivity.
  - apply valid_tl_spec.
  - apply w64_small. unfold len in *. lia.
Qed.

Lemma valid_spec_bounded :
  forall s, wfb s = true -> len s < 2 ^ 63 ->
    ascii_ValidString s = forallb is_ascii s /\ ascii_Valid s = forallb is_ascii s.
Proof.
  intros s Hs Hb.
  unfold ascii_ValidString, ascii_Valid, asmt_ValidString, asmt_Valid, asm_Valid, id.
  rewrite asm_ValidString_spec by assumption. split; reflexivity.
Qed.

(* length bound: the model stores the length as w64 (len s); proved above as
   [valid_spec_bounded] under [len s < 2^63]; the unbounded statement is refuted below
   ([valid_statement_needs_bound]: 2^64 non-ASCII bytes give n = 0 and the answer true). *)
Lemma valid_spec : valid_statement.
Proof. exact valid_spec_bounded. Qed.
(* ---------- ValidPrintString ---------- *)

Definition bad_print32 (w : Z) : bool := asm_hasLess32 w 32 || asm_hasMore32 w 126.
Definition bad_print64 (w : Z) : bool := asm_hasLess64 w 32 || asm_hasMore64 w 126.

Definition print_tl (p : bytes) (tag : Z) : option bool :=
  let k1_ := fun (x : Z) => Some (negb ((asm_hasLess32 x 32) || (asm_hasMore32 x 126))) in
  if (tag =? 3) then k1_ (or32 (or32 536870912 (le16 p)) (shl32 (at_ p 2) 16))
  else if (tag =? 2) then k1_ (or32 538968064 (le16 p))
  else if (tag =? 1) then k1_ (or32 538976256 (at_ p 0))
  else Some true.

Lemma asm_ValidPrintString_vloop fuel s :
  asm_ValidPrintString fuel s = vloop bad_print64 bad_print32 print_tl s (w64 (len s)) fuel 0.
Proof. reflexivity. Qed.

Lemma hasLess32_mask x : asm_hasLess32 x 32 = negb (hasless_mask 4 x 32 =? 0).
Proof. reflexivity. Qed.
Lemma hasMore32_mask x : asm_hasMore32 x 126 = negb (hasmore_mask 4 x 126 =? 0).
Proof. reflexivity. Qed.
Lemma hasLess64_mask x : asm_hasLess64 x 32 = negb (hasless_mask 8 x 32 =? 0).
Proof. reflexivity. Qed.
Lemma hasMore64_mask x : asm_hasMore64 x 126 = negb (hasmore_mask 8 x 126 =? 0).
Proof. reflexivity. Qed.

Lemma is_print_split l :
  forallb is_print l = forallb (fun b => 32 <=? b) l && forallb (fun b => b <=? 126) l.
Proof. apply (forallb_andb (fun b => 32 <=? b) (fun b => b <=? 126)). Qed.

Lemma bad_print32_spec l : wfb l = true -> length l = 4%nat ->
  bad_print32 (le_load 4 l) = negb (forallb is_print l).
Proof.
  intros Hl Ll. unfold bad_print32. rewrite hasLess32_mask, hasMore32_mask, is_print_split.
  rewrite (iff_eqb0 _ _ (hasless_zero_iff 4 l 32 Hl Ll ltac:(lia))).
  rewrite (iff_eqb0 _ _ (hasmore_zero_iff 4 l 126 Hl Ll ltac:(lia))).
  rewrite negb_andb. reflexivity.
Qed.

Lemma bad_print64_spec l : wfb l = true -> length l = 8%nat ->
  bad_print64 (le_load 8 l) = negb (forallb is_print l).
Proof.
  intros Hl Ll. unfold bad_print64. rewrite hasLess64_mask, hasMore64_mask, is_print_split.
  rewrite (iff_eqb0 _ _ (hasless_zero_iff 8 l 32 Hl Ll ltac:(lia))).
  rewrite (iff_eqb0 _ _ (hasmore_zero_iff 8 l 126 Hl Ll ltac:(lia))).
  rewrite negb_andb. reflexivity.
Qed.

Lemma print_tl_spec l : wfb l = true -> (1 <= length l <= 3)%nat ->
  print_tl l (len l) = Some (forallb is_print l).
Proof.
  intros Hl Ll. destruct l as [|a [|b [|c [|d l]]]]; cbn [length] in Ll; try lia; wfb_split.
  - change (len [a]) with 1. unfold print_tl. cbv beta zeta.
    change (1 =? 3) with false. change (1 =? 2) with false. change (1 =? 1) with true. cbv iota.
    change (at_ [a] 0) with a. rewrite (byte_lanes a) at 1 2.
    change 538976256 with (le_load 4 [0; 32; 32; 32]).
    unfold or32. rewrite lor4 by (apply wfb4; lia).
    rewrite !Z.lor_0_r, !Z.lor_0_l.
    fold (bad_print32 (le_load 4 [a; 32; 32; 32])).
    rewrite bad_print32_spec by (first [apply wfb4; lia | reflexivity]).
    rewrite negb_involutive. cbn [forallb].
    change (is_print 32) with true. rewrite !andb_true_r. reflexivity.
  - change (len [a; b]) with 2. unfold print_tl. cbv beta zeta.
    change (2 =? 3) with false. change (2 =? 2) with true. cbv iota.
    rewrite le16_lanes.
    change 538968064 with (le_load 4 [0; 0; 32; 32]).
    unfold or32. rewrite lor4 by (apply wfb4; lia).
    rewrite !Z.lor_0_r, !Z.lor_0_l.
    fold (bad_print32 (le_load 4 [a; b; 32; 32])).
    rewrite bad_print32_spec by (first [apply wfb4; lia | reflexivity]).
    rewrite negb_involutive. cbn [forallb].
    change (is_print 32) with true. rewrite !andb_true_r. reflexivity.
  - change (len [a; b; c]) with 3. unfold print_tl. cbv beta zeta.
    change (3 =? 3) with true. cbv iota.
    change (at_ [a; b; c] 2) with c. rewrite le16_lanes, shl16_lanes by assumption.
    change 536870912 with (le_load 4 [0; 0; 0; 32]).
    unfold or32. rewrite lor4 by (apply wfb4; lia).
    rewrite !Z.lor_0_r, !Z.lor_0_l.
    rewrite lor4 by (apply wfb4; lia).
    rewrite !Z.lor_0_r, !Z.lor_0_l.
    fold (bad_print32 (le_load 4 [a; b; c; 32])).
    rewrite bad_print32_spec by (first [apply wfb4; lia | reflexivity]).
    rewrite negb_involutive. cbn [forallb].
    change (is_print 32) with true. rewrite !andb_true_r. reflexivity.
Qed.

Lemma asm_ValidPrintString_spec s : wfb s = true -> len s < 2 ^ 63 ->
  asm_ValidPrintString (S (length s)) s = Some (forallb is_print s).
Proof.
  intros Hs Hb. rewrite asm_ValidPrintString_vloop.
  apply vloop_total; auto.
  - apply bad_print64_spec.
  - apply bad_print32_spec.
  - apply print_tl_spec.
  - apply w64_small. unfold len in *. lia.
Qed.

Lemma valid_print_spec_bounded :
  forall s, wfb s = true -> len s < 2 ^ 63 ->
    ascii_ValidPrintString s = forallb is_print s /\ ascii_ValidPrint s = forallb is_print s.
Proof.
  intros s Hs Hb.
  unfold ascii_ValidPrintString, ascii_ValidPrint, asmt_ValidPrintString, asmt_ValidPrint, asm_ValidPrint, id.
  rewrite asm_ValidPrintString_spec by assumption. split; reflexivity.
Qed.

(* length bound: as for valid_spec; proved above as [valid_print_spec_bounded] under
   [len s < 2^63]; refuted unbounded below ([valid_print_statement_needs_bound]). *)
Lemma valid_print_spec : valid_print_statement.
Proof. exact valid_print_spec_bounded. Qed.
(* ---------- EqualFoldString ---------- *)

Section EFold.
  Variable f : Z -> Z.

  Definition ed (a b : bytes) (k : Z) : Z := xor8 (f (at_ a k)) (f (at_ b k)).

  Definition ek10 (a b : bytes) (cmp : Z) : option bool :=
    let k1_ := fun (cmp : Z) => Some (cmp =? 0) in
    let tag2_ := len a in
    let k3_ := fun (cmp : Z) => k1_ (or8 cmp (ed a b 0)) in
    let k4_ := fun (cmp : Z) => k3_ (or8 cmp (ed a b 1)) in
    let k5_ := fun (cmp : Z) => k4_ (or8 cmp (ed a b 2)) in
    let k6_ := fun (cmp : Z) => k5_ (or8 cmp (ed a b 3)) in
    let k7_ := fun (cmp : Z) => k6_ (or8 cmp (ed a b 4)) in
    let k8_ := fun (cmp : Z) => k7_ (or8 cmp (ed a b 5)) in
    let k9_ := fun (cmp : Z) => k8_ (or8 cmp (ed a b 6)) in
    if (tag2_ =? 7) then k9_ cmp
    else if (tag2_ =? 6) then k8_ cmp
    else if (tag2_ =? 5) then k7_ cmp
    else if (tag2_ =? 4) then k6_ cmp
    else if (tag2_ =? 3) then k5_ cmp
    else if (tag2_ =? 2) then k4_ cmp
    else if (tag2_ =? 1) then k3_ cmp
    else k1_ cmp.

  Fixpoint eloop (fuel : nat) (a b : bytes) (cmp : Z) {struct fuel} : option bool :=
    match fuel with
    | O => None
    | S f13_ =>
        if (len a >=? 8) then
          (
          let cmp := or8 cmp (ed a b 0) in
          let cmp := or8 cmp (ed a b 1) in
          let cmp := or8 cmp (ed a b 2) in
          let cmp := or8 cmp (ed a b 3) in
          let cmp := or8 cmp (ed a b 4) in
          let cmp := or8 cmp (ed a b 5) in
          let cmp := or8 cmp (ed a b 6) in
          let cmp := or8 cmp (ed a b 7) in
          if negb (cmp =? 0) then Some false
          else eloop f13_ (slice_from a 8) (slice_from b 8) cmp)
        else ek10 a b cmp
    end.

  Lemma eloop_S fuel a b cmp :
    eloop (S fuel) a b cmp =
      if (len a >=? 8) then
        (let c := or8 (or8 (or8 (or8 (or8 (or8 (or8 (or8 cmp (ed a b 0)) (ed a b 1)) (ed a b 2)) (ed a b 3))
                   (ed a b 4)) (ed a b 5)) (ed a b 6)) (ed a b 7) in
         if negb (c =? 0) then Some false
         else eloop fuel (slice_from a 8) (slice_from b 8) c)
      else ek10 a b cmp.
  Proof. reflexivity. Qed.

  Hypothesis Hf : forall x, 0 <= x < 256 -> f x = lower x.

  Lemma fold_eq_cons x y a b : fold_eq (x :: a) (y :: b) = (lower x =? lower y) && fold_eq a b.
  Proof. reflexivity. Qed.

  Ltac ed_simpl :=
    unfold ed, at_, or8, xor8;
    change (Z.to_nat 0) with 0%nat; change (Z.to_nat 1) with 1%nat; change (Z.to_nat 2) with 2%nat;
    change (Z.to_nat 3) with 3%nat; change (Z.to_nat 4) with 4%nat; change (Z.to_nat 5) with 5%nat;
    change (Z.to_nat 6) with 6%nat; change (Z.to_nat 7) with 7%nat;
    cbn [nth].

  Ltac tail_case :=
    rewrite eloop_S;
    match goal with |- context [len ?l >=? 8] => change (len l >=? 8) with false end;
    cbv iota; unfold ek10; cbv beta zeta;
    repeat match goal with
           | |- context [len ?l =? ?k] =>
             let v := eval vm_compute in (len l =? k) in change (len l =? k) with v
           end;
    cbv iota; ed_simpl; rewrite ?fold_eq_cons;
    f_equal; apply eq_true_iff_eq;
    rewrite ?Z.lor_0_l;
    rewrite Z.eqb_eq, ?andb_true_iff, ?Z.lor_eq_0_iff, ?Z.lxor_eq_0_iff, ?Z.eqb_eq;
    rewrite !Hf by assumption;
    change (fold_eq [] []) with true; intuition congruence.

  Lemma eloop_spec fuel : forall a b, wfb a = true -> wfb b = true -> length a = length b ->
    (length a < 8 * fuel)%nat -> eloop fuel a b 0 = Some (fold_eq a b).
  Proof.
    induction fuel as [|fu IH]; intros a b Ha Hb L Hr; [lia|].
    do 8 (destruct a as [|?a a]; destruct b as [|?b b]; cbn [length] in L; try discriminate L;
          [wfb_split; try (rewrite eloop_S; reflexivity); tail_case | apply eq_add_S in L]).
    wfb_split. rewrite eloop_S.
    match goal with |- context [len ?l >=? 8] =>
      assert (G : (len l >=? 8) = true) by (unfold len; cbn [length]; lia); rewrite G; clear G end.
    unfold slice_from. change (Z.to_nat 8) with 8%nat. cbn [skipn]. cbv zeta.
    match goal with |- context [negb (?c =? 0)] => set (cc := c) end.
    rewrite !fold_eq_cons.
    destruct (Z.eqb_spec cc 0) as [E|E]; cbn [negb].
    - rewrite E. rewrite IH by (auto; cbn [length] in Hr; lia).
      subst cc. revert E. ed_simpl. intros E.
      repeat (apply Z.lor_eq_0_iff in E; let E' := fresh "E" in destruct E as [E E']).
      repeat match goal with
             | H : Z.lxor _ _ = 0 |- _ =>
               apply (proj1 (Z.lxor_eq_0_iff _ _)) in H; rewrite !Hf in H by assumption;
               apply (proj2 (Z.eqb_eq _ _)) in H; rewrite H; clear H
             end.
      reflexivity.
    - match goal with |- Some false = Some ?r => destruct r eqn:FE; [exfalso|reflexivity] end.
      apply E. subst cc. ed_simpl.
      repeat (apply andb_true_iff in FE; let FE' := fresh "FE" in destruct FE as [FE' FE]).
      rewrite !Hf by assumption.
      repeat match goal with
             | H : (lower _ =? lower _) = true |- _ => apply (proj1 (Z.eqb_eq _ _)) in H; rewrite H; clear H
             end.
      rewrite !Z.lxor_nilpotent. reflexivity.
  Qed.
End EFold.

Definition lc (x : Z) : Z := nth (Z.to_nat x) asm_lowerCase 0.

Lemma asm_EqualFoldString_eloop fuel a b :
  asm_EqualFoldString fuel a b =
  if negb (len a =? len b) then Some false else eloop lc fuel a b 0.
Proof. reflexivity. Qed.

Lemma fold_eq_length a : forall b, fold_eq a b = true -> length a = length b.
Proof.
  induction a as [|x a IH]; intros [|y b] H; try reflexivity; try discriminate H.
  rewrite fold_eq_cons in H. apply andb_true_iff in H. destruct H as [_ H].
  cbn [length]. f_equal. apply IH. assumption.
Qed.

Lemma asm_EqualFoldString_spec fuel a b : wfb a = true -> wfb b = true ->
  (length a < 8 * fuel)%nat -> asm_EqualFoldString fuel a b = Some (fold_eq a b).
Proof.
  intros Ha Hb Hr. rewrite asm_EqualFoldString_eloop. unfold len.
  destruct (Z.eqb_spec (Z.of_nat (length a)) (Z.of_nat (length b))) as [E|E]; cbn [negb].
  - apply eloop_spec; auto; [exact lower_table|lia].
  - destruct (fold_eq a b) eqn:FE; [|reflexivity].
    apply fold_eq_length in FE. lia.
Qed.

Lemma equal_fold_spec : equal_fold_statement.
Proof.
  intros a b Ha Hb.
  unfold ascii_EqualFoldString, ascii_EqualFold, asmt_EqualFoldString, asmt_EqualFold, asm_EqualFold, id.
  rewrite asm_EqualFoldString_spec by (auto; lia). split; reflexivity.
Qed.
(* ---------- HasPrefixFold / HasSuffixFold ---------- *)

Lemma has_prefix_fold_spec : has_prefix_fold_statement.
Proof.
  intros s p Hs Hp.
  unfold ascii_HasPrefixFoldString, ascii_HasPrefixFold, asmt_HasPrefixFoldString, asmt_HasPrefixFold,
    asm_HasPrefixFoldString, asm_HasPrefixFold, asm_EqualFold, id, has_prefix_fold, slice_to, len.
  rewrite Nat2Z.id.
  destruct (Nat.leb_spec (length p) (length s)) as [L|L].
  - assert (G : (Z.of_nat (length s) >=? Z.of_nat (length p)) = true) by lia. rewrite G.
    rewrite asm_EqualFoldString_spec;
      [split; reflexivity|apply wfb_firstn; assumption|assumption|rewrite firstn_length; lia].
  - assert (G : (Z.of_nat (length s) >=? Z.of_nat (length p)) = false) by lia. rewrite G.
    split; reflexivity.
Qed.

Lemma subi64_small a b : 0 <= a - b < 2 ^ 63 -> subi64 a b = a - b.
Proof.
  intros H. unfold subi64, s64, w64. cbv zeta.
  change (2 ^ 63) with 9223372036854775808 in *. change (2 ^ 64) with 18446744073709551616.
  rewrite Z.mod_small by lia.
  destruct (Z.ltb_spec (a - b) 9223372036854775808); lia.
Qed.

Lemma has_suffix_fold_spec_bounded :
  forall s p, wfb s = true -> wfb p = true -> len s < 2 ^ 63 ->
    ascii_HasSuffixFoldString s p = has_suffix_fold s p /\ ascii_HasSuffixFold s p = has_suffix_fold s p.
Proof.
  intros s p Hs Hp Hb.
  unfold ascii_HasSuffixFoldString, ascii_HasSuffixFold, asmt_HasSuffixFoldString, asmt_HasSuffixFold,
    asm_HasSuffixFoldString, asm_HasSuffixFold, asm_EqualFold, id, has_suffix_fold, slice_from, len in *.
  destruct (Nat.leb_spec (length p) (length s)) as [L|L].
  - assert (G : (Z.of_nat (length s) >=? Z.of_nat (length p)) = true) by lia. rewrite G.
    rewrite subi64_small by lia.
    replace (Z.to_nat (Z.of_nat (length s) - Z.of_nat (length p))) with (length s - length p)%nat by lia.
    rewrite asm_EqualFoldString_spec;
      [split; reflexivity|apply wfb_skipn; assumption|assumption|rewrite skipn_length; lia].
  - assert (G : (Z.of_nat (length s) >=? Z.of_nat (length p)) = false) by lia. rewrite G.
    split; reflexivity.
Qed.

(* length bound: [subi64 (len s) (len suffix)] wraps to a negative int when the difference
   is >= 2^63; proved above as [has_suffix_fold_spec_bounded] under [len s < 2^63]; refuted
   unbounded below ([has_suffix_fold_statement_needs_bound]: s = 2^63 zero bytes, suffix = []). *)
Lemma has_suffix_fold_spec : has_suffix_fold_statement.
Proof. exact has_suffix_fold_spec_bounded. Qed.

(* ---------- fuel ---------- *)

Lemma fuel_enough_bounded :
  forall s p, wfb s = true -> wfb p = true -> len s < 2 ^ 63 ->
    asm_ValidString (S (length s)) s <> None /\ asm_ValidPrintString (S (length s)) s <> None /\
    asm_EqualFoldString (S (length s)) s p <> None.
Proof.
  intros s p Hs Hp Hb.
  rewrite asm_ValidString_spec, asm_ValidPrintString_spec, asm_EqualFoldString_spec by (auto; lia).
  repeat split; discriminate.
Qed.

(* length bound: proved above as [fuel_enough_bounded] under [len s < 2^63] (only the two
   Valid loops need it; the EqualFold part holds for all lengths, see asm_EqualFoldString_spec).
   Unbounded it fails (not machine-checked here): for an all-ASCII s with 2^64-8 <= len s < 2^64
   the index i reaches 2^64-8, [add64 i 8] wraps to 0 <= n, and the loop restarts at 0 for ever,
   so every finite fuel runs out. *)
Lemma fuel_enough : fuel_enough_statement.
Proof. exact fuel_enough_bounded. Qed.

(* ---------- why the bound is needed: the unbounded statements fail on lists whose length
   does not fit the machine word the model stores it in ---------- *)

Lemma big_nat (z : Z) : 0 < z -> exists N, Z.of_nat (S N) = z.
Proof.
  intros Hz. exists (Nat.pred (Z.to_nat z)). rewrite Nat.succ_pred by lia. apply Z2Nat.id. lia.
Qed.

Lemma valid_statement_needs_bound : ~ valid_statement_unbounded.
Proof.
  intros H. destruct (big_nat (2 ^ 64) ltac:(lia)) as [N HN].
  destruct (H (repeat 200 (S N)) (wfb_repeat 200 (S N) ltac:(lia))) as [H1 _].
  unfold ascii_ValidString, asmt_ValidString in H1. rewrite asm_ValidString_vloop in H1.
  assert (E : w64 (len (repeat 200 (S N))) = 0).
  { unfold len. rewrite repeat_length, HN. reflexivity. }
  rewrite E in H1. cbn [vloop] in H1.
  change (add64 0 8 <=? 0) with false in H1. cbv iota in H1.
  unfold vk4, vk3 in H1. change (add64 0 4 <=? 0) with false in H1. change (0 =? 0) with true in H1.
  cbv iota in H1. cbn [run_fuel repeat forallb] in H1. change (is_ascii 200) with false in H1.
  discriminate H1.
Qed.

Lemma valid_print_statement_needs_bound : ~ valid_print_statement_unbounded.
Proof.
  intros H. destruct (big_nat (2 ^ 64) ltac:(lia)) as [N HN].
  destruct (H (repeat 200 (S N)) (wfb_repeat 200 (S N) ltac:(lia))) as [H1 _].
  unfold ascii_ValidPrintString, asmt_ValidPrintString in H1. rewrite asm_ValidPrintString_vloop in H1.
  assert (E : w64 (len (repeat 200 (S N))) = 0).
  { unfold len. rewrite repeat_length, HN. reflexivity. }
  rewrite E in H1. cbn [vloop] in H1.
  change (add64 0 8 <=? 0) with false in H1. cbv iota in H1.
  unfold vk4, vk3 in H1. change (add64 0 4 <=? 0) with false in H1. change (0 =? 0) with true in H1.
  cbv iota in H1. cbn [run_fuel repeat forallb] in H1. change (is_print 200) with false in H1.
  discriminate H1.
Qed.

Lemma has_suffix_fold_statement_needs_bound : ~ has_suffix_fold_statement_unbounded.
Proof.
  intros H. destruct (big_nat (2 ^ 63) ltac:(lia)) as [N HN].
  destruct (H (repeat 0 (S N)) [] (wfb_repeat 0 (S N) ltac:(lia)) eq_refl) as [H1 _].
  unfold ascii_HasSuffixFoldString, asmt_HasSuffixFoldString, asm_HasSuffixFoldString, has_suffix_fold in H1.
  assert (E : len (repeat 0 (S N)) = 2 ^ 63).
  { unfold len. rewrite repeat_length. exact HN. }
  rewrite E in H1. change (len (@nil Z)) with 0 in H1.
  change (2 ^ 63 >=? 0) with true in H1. cbv iota in H1.
  change (subi64 (2 ^ 63) 0) with (- 2 ^ 63) in H1.
  unfold slice_from in H1. change (Z.to_nat (- 2 ^ 63)) with 0%nat in H1. cbn [skipn] in H1.
  rewrite asm_EqualFoldString_eloop in H1. rewrite E in H1. change (len (@nil Z)) with 0 in H1.
  change (negb (2 ^ 63 =? 0)) with true in H1. cbv iota in H1.
  cbn [obind run_fuel length Nat.leb andb] in H1.
  rewrite Nat.sub_0_r, skipn_all in H1. discriminate H1.
Qed.
