(* Specification side of C20: the byte-wise definitions, and the statements. Definitions only. *)
From Verif Require Import Base.GoInt Generated.AsmAsciiGen Ascii.AsmTotal Generated.AsciiGen.
Open Scope Z_scope.

Definition is_ascii (b : Z) : bool := b <? 128.
Definition is_print (b : Z) : bool := (32 <=? b) && (b <=? 126).
(* map only A-Z to a-z *)
Definition lower (b : Z) : Z := if (65 <=? b) && (b <=? 90) then b + 32 else b.
Fixpoint forallb2 (f : Z -> Z -> bool) (a b : bytes) : bool :=
  match a, b with
  | [], [] => true
  | x :: a', y :: b' => f x y && forallb2 f a' b'
  | _, _ => false
  end.
Definition fold_eq (a b : bytes) : bool := forallb2 (fun x y => lower x =? lower y) a b.   (* false on length mismatch *)
Definition has_prefix_fold (s p : bytes) : bool := (length p <=? length s)%nat && fold_eq (firstn (length p) s) p.
Definition has_suffix_fold (s p : bytes) : bool := (length p <=? length s)%nat && fold_eq (skipn (length s - length p) s) p.

(* every theorem is for EVERY byte string (wfb: all elements are bytes), of every length a Go string
   can have (len s < 2^63). The bound is necessary for the statements that involve the word-sized
   length the code keeps (uintptr(len(s)), len(s)-len(suffix)): the *_unbounded variants below are
   refuted in Ascii/Proofs.v by lists of 2^63 / 2^64 elements, which no Go program can build. *)
Definition valid_statement : Prop :=
  forall s, wfb s = true -> len s < 2 ^ 63 ->
    ascii_ValidString s = forallb is_ascii s /\ ascii_Valid s = forallb is_ascii s.
Definition valid_print_statement : Prop :=
  forall s, wfb s = true -> len s < 2 ^ 63 ->
    ascii_ValidPrintString s = forallb is_print s /\ ascii_ValidPrint s = forallb is_print s.
Definition valid_statement_unbounded : Prop :=
  forall s, wfb s = true -> ascii_ValidString s = forallb is_ascii s /\ ascii_Valid s = forallb is_ascii s.
Definition valid_print_statement_unbounded : Prop :=
  forall s, wfb s = true -> ascii_ValidPrintString s = forallb is_print s /\ ascii_ValidPrint s = forallb is_print s.
(* stronger than the property (which speaks of ASCII inputs): holds for all bytes, the table maps non-ASCII bytes to themselves *)
Definition equal_fold_statement : Prop :=
  forall a b, wfb a = true -> wfb b = true ->
    ascii_EqualFoldString a b = fold_eq a b /\ ascii_EqualFold a b = fold_eq a b.
Definition has_prefix_fold_statement : Prop :=
  forall s p, wfb s = true -> wfb p = true ->
    ascii_HasPrefixFoldString s p = has_prefix_fold s p /\ ascii_HasPrefixFold s p = has_prefix_fold s p.
Definition has_suffix_fold_statement : Prop :=
  forall s p, wfb s = true -> wfb p = true -> len s < 2 ^ 63 ->
    ascii_HasSuffixFoldString s p = has_suffix_fold s p /\ ascii_HasSuffixFold s p = has_suffix_fold s p.
Definition has_suffix_fold_statement_unbounded : Prop :=
  forall s p, wfb s = true -> wfb p = true ->
    ascii_HasSuffixFoldString s p = has_suffix_fold s p /\ ascii_HasSuffixFold s p = has_suffix_fold s p.
Definition byte_rune_statement : Prop :=
  forall b, ascii_ValidByte b = is_ascii b /\ ascii_ValidRune b = is_ascii b /\
            ascii_ValidPrintByte b = is_print b /\ ascii_ValidPrintRune b = is_print b.
(* the translated loops never run out of the fuel the wrappers give them *)
Definition fuel_enough_statement : Prop :=
  forall s p, wfb s = true -> wfb p = true -> len s < 2 ^ 63 ->
    asm_ValidString (S (length s)) s <> None /\ asm_ValidPrintString (S (length s)) s <> None /\
    asm_EqualFoldString (S (length s)) s p <> None.
(* the lower-case table of the implementation is the function [lower] *)
Definition lower_table_statement : Prop :=
  forall b, 0 <= b < 256 -> nth (Z.to_nat b) asm_lowerCase 0 = lower b.
